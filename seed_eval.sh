#!/bin/bash
# seed_eval.sh <seed-id> <src-dir-with-SEED> "<props to check>"  : confirm a seeded defect and run the checks against it
# Confirms (1) patch applies to a fresh worktree of /repo HEAD, (2) stable tests unchanged, (3) demo passes clean / fails
# patched, then runs the given checks on the patched worktree (VERIF_REPO) and records everything in seeded/<id>/.
set -u
id=$1; src=$2; props=$3
cd "$(dirname "$0")"
dst=seeded/$id; mkdir -p $dst
cp $src/SEED/patch.diff $src/SEED/demo.py $dst/ 2>/dev/null; cp $src/SEED/notes.md $dst/notes.md 2>/dev/null
wt=/tmp/seedeval_$id
git -C /repo worktree remove --force $wt 2>/dev/null
git -C /repo worktree add --detach $wt HEAD -q
cp /repo/thejoker/src/fast_likelihood.c /repo/thejoker/src/*.so $wt/thejoker/src/; cp /repo/thejoker/_version.py $wt/thejoker/
res=$dst/eval.txt; : > $res
# demos expect to live in <worktree>/SEED/ and may use the neutral pyx runtime under /tmp/seedtools (= harness/pyxtrans.py)
mkdir -p /tmp/seedtools $wt/SEED; [ -f /tmp/seedtools/pyx_runtime.py ] || cp harness/pyxtrans.py /tmp/seedtools/pyx_runtime.py
cp $dst/demo.py $wt/SEED/demo.py
( cd $wt && timeout 900 /venv/bin/python SEED/demo.py > /tmp/seedeval_$id.clean.log 2>&1; echo "demo_clean_rc=$?" ) >> $res
( cd $wt && git apply $OLDPWD/$dst/patch.diff && echo "patch_applies=yes" || echo "patch_applies=NO" ) >> $res
( cd $wt && timeout 900 /venv/bin/python SEED/demo.py > /tmp/seedeval_$id.patched.log 2>&1; echo "demo_patched_rc=$?" ) >> $res
( cd $wt && /venv/bin/python -m pytest -q -p no:cacheprovider --timeout=900 --continue-on-collection-errors 2>&1 | tail -1 | sed 's/^/tests_patched: /' ) >> $res
for p in $props; do
  out=$(VERIF_REPO=$wt timeout 1800 ./check $p 2>&1 | grep -E "^(VIOLATION|OK|INFRA)" | head -3 | tr '\n' '|')
  echo "check_patched $p: $out" >> $res
done
git -C /repo worktree remove --force $wt
cat $res
