#!/bin/bash
# tools/reeval_seed.sh <seed-id> : re-run the checks that caught a kept seed against the CURRENT machinery and /repo HEAD
# (patch applied to a fresh scratch worktree; result in seeded/<id>/reeval.txt)
set -u
id=$1
cd "$(dirname "$0")/.."
d=seeded/$id
[ -f $d/meta.json ] || { echo "$id: no meta"; exit 0; }
props=$(python3 -c "import json;print(' '.join(json.load(open('$d/meta.json')).get('caught_by',[])[:2]))")
wt=/tmp/reeval_$id
git -C /repo worktree remove --force $wt 2>/dev/null
git -C /repo worktree add --detach $wt HEAD -q
cp /repo/thejoker/src/fast_likelihood.c /repo/thejoker/src/*.so $wt/thejoker/src/; cp /repo/thejoker/_version.py $wt/thejoker/
res=$d/reeval.txt; echo "head=$(git -C /repo log --format=%h -1) verif=$(git log --format=%h -1)" > $res
if (cd $wt && git apply $OLDPWD/$d/patch.diff 2>/dev/null); then
  echo "patch_applies=yes" >> $res
  for p in $props; do
    out=$(VERIF_REPO=$wt timeout 2400 ./check $p 2>&1 | grep -E "^(VIOLATION|OK|INFRA|KNOWN)" | grep -v "^KNOWN" | head -2 | tr '\n' '|')
    echo "check_patched $p: $out" >> $res
  done
else
  echo "patch_applies=NO (the lines it edits were changed by a later fix commit)" >> $res
fi
git -C /repo worktree remove --force $wt
echo "$id: $(grep -c VIOLATION $res) violation lines; $(grep patch_applies $res)"
