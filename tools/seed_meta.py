#!/usr/bin/env python3
"""write seeded/<id>/meta.json from seeded/<id>/eval.txt (produced by ./seed_eval.sh)
usage: tools/seed_meta.py <id> <property> "<needs to manifest>" "<round/origin suffix>" ["<note>"]"""
import json, re, sys
sid, prop, needs, rnd = sys.argv[1:5]
note = sys.argv[5] if len(sys.argv) > 5 else None
d = f"seeded/{sid}"
ev = open(f"{d}/eval.txt").read()
g = lambda pat: (re.search(pat, ev) or [None, None])[1]
checks = {}
for l in ev.splitlines():
    m = re.match(r"check_patched (C\d+): (.*)", l)
    if m:
        checks[m.group(1)] = m.group(2)
caught = [k for k, v in checks.items() if "VIOLATION" in v]
meta = {"id": sid, "breaks_property": prop, "needs_to_manifest": needs,
        "origin": "independent sub-agent given only the property record and a scratch worktree of /repo (no access to /verif); " + rnd,
        "confirmed": {"patch_applies": g(r"patch_applies=(\w+)") == "yes", "demo_on_clean_tree_rc": int(g(r"demo_clean_rc=(\d+)")),
                      "demo_on_patched_tree_rc": int(g(r"demo_patched_rc=(\d+)")), "tests_patched": g(r"tests_patched: (.*)")},
        "what_was_run": "./seed_eval.sh", "checks_last_run": checks, "caught_by": caught}
if note:
    meta["note"] = note
assert meta["confirmed"]["patch_applies"] and meta["confirmed"]["demo_on_clean_tree_rc"] == 0 and meta["confirmed"]["demo_on_patched_tree_rc"] == 1, meta
json.dump(meta, open(f"{d}/meta.json", "w"), indent=1)
print(sid, "caught_by", caught)
