#!/bin/bash
# tools/reeval_harmless.sh <id> : re-run the checks recorded for a behaviour-preserving rewrite against the CURRENT machinery / HEAD
set -u
id=$1
cd "$(dirname "$0")/.."
d=seeded/harmless/$id
props=$(python3 -c "import json;print(' '.join(list(json.load(open('$d/meta.json'))['checks'].keys())[:3]))")
wt=/tmp/reevalh_$id
git -C /repo worktree remove --force $wt 2>/dev/null
git -C /repo worktree add --detach $wt HEAD -q
cp /repo/thejoker/src/fast_likelihood.c /repo/thejoker/src/*.so $wt/thejoker/src/; cp /repo/thejoker/_version.py $wt/thejoker/
res=$d/reeval.txt; echo "head=$(git -C /repo log --format=%h -1) verif=$(git log --format=%h -1)" > $res
if (cd $wt && git apply --3way $OLDPWD/$d/patch.diff >/dev/null 2>&1 && ! git status --short | grep -q "^U"); then
  echo "patch_applies=yes" >> $res
  for p in $props; do
    out=$(VERIF_REPO=$wt timeout 2400 ./check $p 2>&1 | grep -E "^(VIOLATION|OK|INFRA)" | head -2 | tr '\n' '|')
    echo "check_patched $p: $out" >> $res
  done
else
  echo "patch_applies=NO (conflicts with a later fix commit)" >> $res
fi
git -C /repo worktree remove --force $wt
echo "$id: $(grep -c 'VIOLATION\|INFRA' $res) alarms; $(grep patch_applies $res)"
