-- Root of the `JokerVerif` library: every model, lemma and property file.
import JokerVerif.Model.Batch
import JokerVerif.Lemmas.BatchLemmas
import JokerVerif.Props.C16
