import JokerVerif.Drive.Common
import JokerVerif.Drive.BatchOps
/-! Line-protocol driver: one JSON object per input line, one JSON object per output line.
Run with `lake env lean --run Driver.lean`. -/
open Lean Drive

def dispatch (op : String) : Option H :=
  match op with
  | "ping" => some fun _ => pure (Json.mkObj [("pong", jNat 1)])
  | "batch.tasks" => some batchTasksOp
  | "batch.arr" => some batchArrOp
  | "batch.runworker" => some runWorkerOp
  | _ => none

def handleLine (line : String) : Json :=
  match Json.parse line with
  | .error e => Json.mkObj [("err", "bad-json"), ("detail", e)]
  | .ok j =>
    match j.getObjValAs? String "op" with
    | .error _ => Json.mkObj [("err", "bad-op"), ("detail", "no op")]
    | .ok op =>
      match dispatch op with
      | none => Json.mkObj [("err", "bad-op"), ("detail", op)]
      | some h =>
        match h j with
        | .ok r => r
        | .error e => Json.mkObj [("err", "bad-op"), ("detail", e)]

partial def loop (hin : IO.FS.Stream) (hout : IO.FS.Stream) : IO Unit := do
  let line ← hin.getLine
  if line.isEmpty then return ()
  hout.putStrLn (handleLine line).compress
  hout.flush
  loop hin hout

def main : IO Unit := do loop (← IO.getStdin) (← IO.getStdout)
