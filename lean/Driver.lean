import JokerVerif.Drive.Common
import JokerVerif.Drive.BatchOps
import JokerVerif.Drive.RejectOps
import JokerVerif.Drive.KernelOps
import JokerVerif.Drive.HistOps
import JokerVerif.Drive.RngOps
import JokerVerif.Drive.CacheOps
import JokerVerif.Drive.DataOps
import JokerVerif.Drive.StoreOps
import JokerVerif.Drive.SamplesOps
import JokerVerif.Drive.DiagOps
import JokerVerif.Drive.PriorOps
import JokerVerif.Drive.McmcOps
/-! Line-protocol driver: one JSON object per input line, one JSON object per output line.
Run with `lake env lean --run Driver.lean`.  Each `Drive/*Ops.lean` contributes a list of (op name, handler). -/
open Lean Drive

def allOps : List (String × H) :=
  [("ping", fun _ => pure (Json.mkObj [("pong", jNat 1)]))] ++ batchOps ++ rejectOps ++ kernelOps ++ histOps ++ rngOps ++ cacheOps ++ dataOps ++ storeOps ++ samplesOps ++ diagOps ++ priorOps ++ mcmcOps

def handleLine (line : String) : Json :=
  match Json.parse line with
  | .error e => Json.mkObj [("err", "bad-json"), ("detail", e)]
  | .ok j =>
    match j.getObjValAs? String "op" with
    | .error _ => Json.mkObj [("err", "bad-op"), ("detail", "no op")]
    | .ok op =>
      match allOps.lookup op with
      | none => Json.mkObj [("err", "bad-op"), ("detail", op)]
      | some h =>
        match h j with
        | .ok r => r
        | .error e => Json.mkObj [("err", "bad-op"), ("detail", e)]

partial def loop (hin : IO.FS.Stream) (hout : IO.FS.Stream) : IO Unit := do
  let line ← hin.getLine
  if line.isEmpty then return ()
  hout.putStrLn (handleLine line).compress
  hout.flush
  loop hin hout

def main : IO Unit := do loop (← IO.getStdin) (← IO.getStdout)
