import JokerVerif.Model.Store
/-! Helper lemmas for C12 (core Lean only). -/
namespace Store
variable {α : Type}

/-! ## A pointwise relation between two lists of the same length (index-free form of
"`ys[k]` is related to `xs[k]` for every `k`") -/

inductive AllRel {β γ : Type} (R : β → γ → Prop) : List β → List γ → Prop
  | nil : AllRel R [] []
  | cons {a b as bs} : R a b → AllRel R as bs → AllRel R (a :: as) (b :: bs)

theorem AllRel.length_eq {β γ : Type} {R : β → γ → Prop} {xs : List β} {ys : List γ}
    (h : AllRel R xs ys) : xs.length = ys.length := by
  induction h with
  | nil => rfl
  | cons _ _ ih => simp [ih]

/-- index form: whatever sits at position `k` of `xs` is related to what sits at position `k` of `ys` -/
theorem AllRel.get {β γ : Type} {R : β → γ → Prop} {xs : List β} {ys : List γ}
    (h : AllRel R xs ys) : ∀ (k : Nat) x, xs[k]? = some x → ∃ y, ys[k]? = some y ∧ R x y := by
  induction h with
  | nil => intro k x hx; simp at hx
  | cons hab _ ih =>
    intro k x hx
    cases k with
    | zero => simp at hx; subst hx; exact ⟨_, by simp, hab⟩
    | succ k => simp at hx; simpa using ih k x hx

theorem AllRel.mono {β γ : Type} {R S : β → γ → Prop} {xs : List β} {ys : List γ}
    (h : AllRel R xs ys) (hRS : ∀ a b, R a b → S a b) : AllRel S xs ys := by
  induction h with
  | nil => exact .nil
  | cons hab _ ih => exact .cons (hRS _ _ hab) ih

/-- when the relation is a function, the second list is the image of the first -/
theorem AllRel.eq_map {β γ : Type} {g : β → γ} {xs : List β} {ys : List γ}
    (h : AllRel (fun a b => b = g a) xs ys) : ys = xs.map g := by
  induction h with
  | nil => rfl
  | cons hab _ ih => simp [hab, ih]

/-! ## Headers, compatibility, append -/

theorem compatible_iff (f t : Table α) : compatible f t = true ↔ f.hdrs = t.hdrs ∧ f.md = t.md := by
  simp [compatible]

theorem hdrs_appendCols : ∀ (a b : List (Col α)), a.map (·.hdr) = b.map (·.hdr) →
    (appendCols a b).map (·.hdr) = a.map (·.hdr)
  | [], _, _ => by simp [appendCols]
  | _ :: _, [], h => by simp at h
  | x :: a, y :: b, h => by
    simp only [List.map_cons, List.cons.injEq] at h
    have ih := hdrs_appendCols a b h.2
    simp only [appendCols] at ih
    simp [appendCols, ih]

theorem append_hdrs (f t : Table α) (h : f.hdrs = t.hdrs) : (f.append t).hdrs = f.hdrs :=
  hdrs_appendCols f.cols t.cols h

theorem append_md (f t : Table α) : (f.append t).md = f.md := rfl

theorem cols_length_of_hdrs {f t : Table α} (h : f.hdrs = t.hdrs) : f.cols.length = t.cols.length := by
  have := congrArg List.length h
  simpa [Table.hdrs] using this

theorem append_colVals (f t : Table α) (h : f.hdrs = t.hdrs) (i : Nat) :
    (f.append t).colVals i = f.colVals i ++ t.colVals i := by
  have hl := cols_length_of_hdrs h
  simp only [Table.colVals, Table.append, appendCols, List.getElem?_zipWith]
  by_cases hi : i < f.cols.length
  · have hi' : i < t.cols.length := hl ▸ hi
    simp [List.getElem?_eq_getElem hi, List.getElem?_eq_getElem hi']
  · have hi' : ¬ i < t.cols.length := hl ▸ hi
    simp [List.getElem?_eq_none (Nat.le_of_not_lt hi), List.getElem?_eq_none (Nat.le_of_not_lt hi')]

theorem nRows_append (f t : Table α) (h : f.hdrs = t.hdrs) : (f.append t).nRows = f.nRows + t.nRows := by
  have hl := cols_length_of_hdrs h
  cases hf : f.cols with
  | nil =>
    cases ht : t.cols with
    | nil => simp [Table.nRows, Table.append, appendCols, hf, ht]
    | cons y b => simp [hf, ht] at hl
  | cons x a =>
    cases ht : t.cols with
    | nil => simp [hf, ht] at hl
    | cons y b => simp [Table.nRows, Table.append, appendCols, hf, ht]

theorem mem_appendCols : ∀ (a b : List (Col α)) (c : Col α), c ∈ appendCols a b →
    ∃ x ∈ a, ∃ y ∈ b, c.vals = x.vals ++ y.vals
  | [], _, c, h => by simp [appendCols] at h
  | _ :: _, [], c, h => by simp [appendCols] at h
  | x :: a, y :: b, c, h => by
    simp only [appendCols, List.zipWith_cons_cons, List.mem_cons] at h
    rcases h with rfl | h
    · exact ⟨x, by simp, y, by simp, rfl⟩
    · obtain ⟨x', hx', y', hy', e⟩ := mem_appendCols a b c h
      exact ⟨x', List.mem_cons_of_mem _ hx', y', List.mem_cons_of_mem _ hy', e⟩

theorem WF_append (f t : Table α) (hf : f.WF) (ht : t.WF) (h : f.hdrs = t.hdrs) : (f.append t).WF := by
  intro c hc
  rw [nRows_append f t h]
  obtain ⟨x, hx, y, hy, e⟩ := mem_appendCols f.cols t.cols c hc
  rw [e, List.length_append, hf x hx, ht y hy]

/-! ## The list specification -/

/-- folding `append` over tables that all carry the accumulator's header -/
theorem foldl_append_spec : ∀ (ts : List (Table α)) (acc : Table α), (∀ t ∈ ts, acc.hdrs = t.hdrs) →
    (ts.foldl Table.append acc).hdrs = acc.hdrs ∧ (ts.foldl Table.append acc).md = acc.md ∧
    ∀ i, (ts.foldl Table.append acc).colVals i = acc.colVals i ++ ts.flatMap (·.colVals i)
  | [], acc, _ => by simp
  | t :: ts, acc, h => by
    have ht : acc.hdrs = t.hdrs := h t (by simp)
    have hacc' : (acc.append t).hdrs = acc.hdrs := append_hdrs acc t ht
    have ih := foldl_append_spec ts (acc.append t) (fun t' ht' => by
      rw [hacc']; exact h t' (List.mem_cons_of_mem _ ht'))
    simp only [List.foldl_cons]
    refine ⟨ih.1.trans hacc', ih.2.1.trans (append_md acc t), fun i => ?_⟩
    rw [ih.2.2 i, append_colVals acc t ht i]
    simp [List.append_assoc]

theorem foldl_append_WF : ∀ (ts : List (Table α)) (acc : Table α), (∀ t ∈ ts, acc.hdrs = t.hdrs) →
    acc.WF → (∀ t ∈ ts, t.WF) →
    (ts.foldl Table.append acc).WF ∧
    (ts.foldl Table.append acc).nRows = acc.nRows + (ts.map (·.nRows)).sum
  | [], acc, _, hacc, _ => by simp [hacc]
  | t :: ts, acc, h, hacc, hts => by
    have ht : acc.hdrs = t.hdrs := h t (by simp)
    have hacc' : (acc.append t).hdrs = acc.hdrs := append_hdrs acc t ht
    have ih := foldl_append_WF ts (acc.append t) (fun t' ht' => by
      rw [hacc']; exact h t' (List.mem_cons_of_mem _ ht'))
      (WF_append acc t hacc (hts t (by simp)) ht) (fun t' ht' => hts t' (List.mem_cons_of_mem _ ht'))
    simp only [List.foldl_cons]
    refine ⟨ih.1, ?_⟩
    rw [ih.2, nRows_append acc t ht]
    simp [Nat.add_assoc]

theorem LogOK_hdrs {t₀ : Table α} {ts : List (Table α)} (h : LogOK (t₀ :: ts)) :
    ∀ t ∈ ts, t₀.hdrs = t.hdrs := fun t ht => ((compatible_iff t₀ t).1 (h t ht)).1

/-- the table a non-empty log denotes has the header and metadata of the first table -/
theorem content_compatible {t₀ : Table α} {ts : List (Table α)} (h : LogOK (t₀ :: ts)) (t : Table α) :
    compatible (ts.foldl Table.append t₀) t = compatible t₀ t := by
  have s := foldl_append_spec ts t₀ (LogOK_hdrs h)
  simp [compatible, s.1, s.2.1]

theorem specWrite_LogOK (fmt : Fmt) (log : Log α) (t : Table α) (ov ap : Bool) (h : LogOK log) :
    LogOK (specWrite fmt log t ov ap).1 := by
  unfold specWrite
  cases fmt with
  | fits =>
    cases ap with
    | true => simpa using h
    | false =>
      cases log with
      | nil => simp [LogOK]
      | cons t₀ ts => cases ov <;> simp [LogOK] <;> exact h
  | hdf5 =>
    cases log with
    | nil => simp [LogOK]
    | cons t₀ ts =>
      cases ap with
      | false => cases ov <;> simp [LogOK] <;> exact h
      | true =>
        cases ov with
        | true => simp [LogOK]
        | false =>
          simp only [Bool.false_eq_true, if_false, if_true]
          by_cases hc : compatible t₀ t = true
          · simp only [hc, if_true]
            intro t' ht'
            simp only [List.mem_append, List.mem_singleton] at ht'
            rcases ht' with ht' | rfl
            · exact h t' ht'
            · exact hc
          · simp only [hc]
            exact h

/-- one write: the file (implementation state) follows the log (specification state) -/
theorem write_refines (fmt : Fmt) (log : Log α) (t : Table α) (ov ap : Bool) (h : LogOK log) :
    write fmt (content log) t ov ap =
      (content (specWrite fmt log t ov ap).1, (specWrite fmt log t ov ap).2) := by
  unfold write specWrite
  cases fmt with
  | fits =>
    cases ap with
    | true => simp
    | false =>
      cases log with
      | nil => simp [content]
      | cons t₀ ts => cases ov <;> simp [content]
  | hdf5 =>
    cases log with
    | nil => simp [content]
    | cons t₀ ts =>
      cases ap <;> cases ov <;> simp [content]
      rw [content_compatible h t]
      split <;> simp [List.foldl_append]

theorem writeRun_refines (fmt : Fmt) : ∀ (ws : List (Table α × Bool × Bool)) (log : Log α), LogOK log →
    writeRun fmt (content log) ws = (content (specRun fmt log ws).1, (specRun fmt log ws).2) ∧
    LogOK (specRun fmt log ws).1
  | [], log, h => by simp [writeRun, specRun, h]
  | (t, ov, ap) :: ws, log, h => by
    have h1 := write_refines fmt log t ov ap h
    have h2 := specWrite_LogOK fmt log t ov ap h
    have ih := writeRun_refines fmt ws (specWrite fmt log t ov ap).1 h2
    refine ⟨?_, ?_⟩
    · simp only [writeRun, specRun, h1, ih.1]
    · simpa only [specRun] using ih.2

/-! ## Row selection -/

theorem clampIdx_le (n d : Nat) (hd : d ≤ n) (x : Option Int) : clampIdx n d x ≤ n := by
  cases x with
  | none => simpa [clampIdx] using hd
  | some v =>
    simp only [clampIdx]
    split
    · omega
    · exact Nat.min_le_right _ _

/-- `i < ⌈d / step⌉ ↔ step * i < d` -/
theorem lt_ceilDiv_iff (d step i : Nat) (hs : 0 < step) : i < (d + (step - 1)) / step ↔ step * i < d := by
  rw [Nat.lt_iff_add_one_le, Nat.le_div_iff_mul_le hs, Nat.succ_mul, Nat.mul_comm i step]
  generalize step * i = m
  omega

/-- exactly the rows `lo, lo+step, lo+2·step, … < hi` -/
theorem mem_sliceRows (n : Nat) (a b : Option Int) (step : Nat) (hs : 0 < step) (r : Nat) :
    r ∈ sliceRows n a b step ↔
      clampIdx n 0 a ≤ r ∧ r < clampIdx n n b ∧ (r - clampIdx n 0 a) % step = 0 := by
  simp only [sliceRows, List.mem_range']
  generalize clampIdx n 0 a = lo
  generalize clampIdx n n b = hi
  constructor
  · rintro ⟨i, hi', rfl⟩
    rw [lt_ceilDiv_iff _ _ _ hs] at hi'
    refine ⟨Nat.le_add_right _ _, by omega, ?_⟩
    simp [Nat.add_sub_cancel_left]
  · rintro ⟨h1, h2, h3⟩
    refine ⟨(r - lo) / step, ?_, ?_⟩
    · rw [lt_ceilDiv_iff _ _ _ hs]
      have := Nat.div_add_mod (r - lo) step
      omega
    · have := Nat.div_add_mod (r - lo) step
      omega

theorem sliceRows_lt (n : Nat) (a b : Option Int) (step : Nat) (hs : 0 < step) :
    ∀ r ∈ sliceRows n a b step, r < n := by
  intro r hr
  have := ((mem_sliceRows n a b step hs r).1 hr).2.1
  exact Nat.lt_of_lt_of_le this (clampIdx_le n n (Nat.le_refl n) b)

theorem sliceRows_increasing (n : Nat) (a b : Option Int) (step : Nat) (hs : 0 < step) :
    (sliceRows n a b step).Pairwise (· < ·) :=
  List.pairwise_lt_range' step hs

theorem sliceRows_step_one (n : Nat) (a b : Option Int) :
    sliceRows n a b 1 = List.range' (clampIdx n 0 a) (clampIdx n n b - clampIdx n 0 a) := by
  simp [sliceRows]

theorem normIdx_spec (n : Nat) (i : Int) (r : Nat) (h : normIdx n i = some r) :
    r < n ∧ ((0 ≤ i ∧ i = (r : Int)) ∨ (i < 0 ∧ i + (n : Int) = (r : Int))) := by
  unfold normIdx at h
  split at h
  · split at h
    · simp at h; subst h; omega
    · simp at h
  · split at h
    · simp at h; subst h; omega
    · simp at h

theorem normAll_spec (n : Nat) : ∀ (l : List Int) (rows : List Nat), normAll n l = some rows →
    AllRel (fun i r => normIdx n i = some r) l rows
  | [], rows, h => by simp [normAll] at h; subst h; exact .nil
  | i :: is, rows, h => by
    simp only [normAll] at h
    split at h
    · rename_i r rs h1 h2
      simp at h; subst h
      exact .cons h1 (normAll_spec n is rs h2)
    · simp at h

theorem validChoice_iff (n size : Nat) (idx : List Nat) :
    validChoice n size idx = true ↔ idx.length = size ∧ idx.Nodup ∧ ∀ i ∈ idx, i < n := by
  simp [validChoice, and_assoc]

theorem resolve_lt (choose : Nat → Nat → Option (List Nat)) (n : Nat) (sel : Sel) (rows : List Nat)
    (h : resolve choose n sel = .ok rows) : ∀ r ∈ rows, r < n := by
  cases sel with
  | slice a b st =>
    cases st with
    | none =>
      simp [resolve] at h; subst h
      exact sliceRows_lt n a b 1 (by decide)
    | some k =>
      simp only [resolve] at h
      split at h
      · rename_i hk
        simp at h; subst h
        exact sliceRows_lt n a b k.toNat (by omega)
      · simp at h
  | idx l =>
    simp only [resolve] at h
    split at h
    · rename_i rows' hr
      simp at h; subst h
      have := normAll_spec n l rows' hr
      intro r hr'
      obtain ⟨k, hk⟩ := List.getElem?_of_mem hr'
      have hlen := this.length_eq
      have hk' : k < l.length := by
        have := (List.getElem?_eq_some_iff.1 hk).1
        omega
      obtain ⟨y, hy, hR⟩ := this.get k l[k] (List.getElem?_eq_getElem hk')
      rw [hk] at hy; cases hy
      exact (normIdx_spec n _ _ hR).1
    · simp at h
  | random size =>
    simp only [resolve] at h
    split at h
    · simp at h
    · split at h
      · split at h
        · rename_i idx _ hv
          simp at h; subst h
          exact ((validChoice_iff n size _).1 hv).2.2
        · simp at h
      · simp at h

/-! ## Gathering -/

theorem gather_spec (vals : List α) : ∀ (rows : List Nat) (out : List α), gather vals rows = some out →
    AllRel (fun r o => vals[r]? = some o) rows out
  | [], out, h => by simp [gather] at h; subst h; exact .nil
  | r :: rs, out, h => by
    simp only [gather] at h
    split at h
    · rename_i v vs h1 h2
      simp at h; subst h
      exact .cons h1 (gather_spec vals rs vs h2)
    · simp at h

theorem gather_total (vals : List α) : ∀ (rows : List Nat), (∀ r ∈ rows, r < vals.length) →
    ∃ out, gather vals rows = some out
  | [], _ => ⟨[], rfl⟩
  | r :: rs, h => by
    obtain ⟨vs, hvs⟩ := gather_total vals rs (fun r' hr' => h r' (List.mem_cons_of_mem _ hr'))
    have hr : r < vals.length := h r (by simp)
    exact ⟨vals[r] :: vs, by simp [gather, List.getElem?_eq_getElem hr, hvs]⟩

/-- a contiguous run of rows is the Python slice `vals[lo : lo+len]` -/
theorem gather_range' (vals : List α) : ∀ (len lo : Nat), lo + len ≤ vals.length →
    gather vals (List.range' lo len) = some ((vals.drop lo).take len)
  | 0, lo, _ => by simp [gather]
  | len + 1, lo, h => by
    have hlo : lo < vals.length := by omega
    have ih := gather_range' vals len (lo + 1) (by omega)
    simp only [List.range'_succ, gather, List.getElem?_eq_getElem hlo, ih]
    rw [List.drop_eq_getElem_cons hlo, List.take_succ_cons]

theorem findCol_spec (t : Table α) (name : String) (c : Col α) (h : findCol t name = some c) :
    c ∈ t.cols ∧ c.hdr.name = name := by
  unfold findCol at h
  have h1 := List.mem_of_find?_eq_some h
  have h2 := List.find?_some h
  exact ⟨h1, by simpa using h2⟩

theorem readRaw_spec (t : Table α) (rows : List Nat) : ∀ (cols : List String) (raw : List (Col α × List α)),
    readRaw t rows cols = .ok raw →
    AllRel (fun name p => findCol t name = some p.1 ∧ gather p.1.vals rows = some p.2) cols raw
  | [], raw, h => by simp [readRaw] at h; subst h; exact .nil
  | name :: rest, raw, h => by
    simp only [readRaw] at h
    split at h
    · simp at h
    · rename_i c hc
      split at h
      · simp at h
      · rename_i vs hvs
        split at h
        · simp at h
        · rename_i out hout
          simp at h; subst h
          exact .cons ⟨hc, hvs⟩ (readRaw_spec t rows rest out hout)

theorem readRaw_total (t : Table α) (rows : List Nat) (hwf : t.WF) (hrows : ∀ r ∈ rows, r < t.nRows) :
    ∀ (cols : List String), (∀ name ∈ cols, (findCol t name).isSome) → ∃ raw, readRaw t rows cols = .ok raw
  | [], _ => ⟨[], rfl⟩
  | name :: rest, h => by
    obtain ⟨out, hout⟩ := readRaw_total t rows hwf hrows rest (fun n hn => h n (List.mem_cons_of_mem _ hn))
    have hsome := h name (by simp)
    obtain ⟨c, hc⟩ := Option.isSome_iff_exists.1 hsome
    have hmem := (findCol_spec t name c hc).1
    obtain ⟨vs, hvs⟩ := gather_total c.vals rows (fun r hr => by rw [hwf c hmem]; exact hrows r hr)
    exact ⟨(c, vs) :: out, by simp [readRaw, hc, hvs, hout]⟩

theorem convertAll_spec [Mul α] (conv : String → String → Option α) (units : List (String × String)) :
    ∀ (raw : List (Col α × List α)) (out : List (List α)), convertAll conv units raw = .ok out →
    AllRel (fun p col => ∃ f, factorFor conv units p.1.hdr = .ok f ∧ col = p.2.map (applyConv f)) raw out
  | [], out, h => by simp [convertAll] at h; subst h; exact .nil
  | (c, vs) :: rest, out, h => by
    simp only [convertAll] at h
    split at h
    · simp at h
    · rename_i f hf
      split at h
      · simp at h
      · rename_i o ho
        simp at h; subst h
        exact .cons ⟨f, hf, rfl⟩ (convertAll_spec conv units rest o ho)

theorem convertAll_total [Mul α] (conv : String → String → Option α) (units : List (String × String)) :
    ∀ (raw : List (Col α × List α)), (∀ p ∈ raw, ∃ f, factorFor conv units p.1.hdr = .ok f) →
    ∃ out, convertAll conv units raw = .ok out
  | [], _ => ⟨[], rfl⟩
  | (c, vs) :: rest, h => by
    obtain ⟨o, ho⟩ := convertAll_total conv units rest (fun p hp => h p (List.mem_cons_of_mem _ hp))
    obtain ⟨f, hf⟩ := h (c, vs) (by simp)
    exact ⟨vs.map (applyConv f) :: o, by simp [convertAll, hf, ho]⟩

/-- composition of two pointwise relations -/
theorem AllRel.comp {β γ δ : Type} {R : β → γ → Prop} {S : γ → δ → Prop} {xs : List β} {ys : List γ}
    {zs : List δ} (h1 : AllRel R xs ys) (h2 : AllRel S ys zs) :
    AllRel (fun a c => ∃ b, R a b ∧ S b c) xs zs := by
  induction h1 generalizing zs with
  | nil => cases h2; exact .nil
  | cons hab _ ih =>
    cases h2 with
    | cons hbc h2' => exact .cons ⟨_, hab, hbc⟩ (ih h2')

/-! ## What a batch column is -/

/-- `col` is the stored column `name` of `t` read at `rows` (in that order) and converted: entry `k` is
`applyConv f (c.vals[rows[k]])`, where `f` is the factor chosen by `factorFor` (none = untouched) -/
def IsBatchCol [Mul α] (conv : String → String → Option α) (units : List (String × String)) (t : Table α)
    (rows : List Nat) (name : String) (col : List α) : Prop :=
  ∃ c f, findCol t name = some c ∧ factorFor conv units c.hdr = .ok f ∧ col.length = rows.length ∧
    ∀ (k : Nat) r, rows[k]? = some r → ∃ v, c.vals[r]? = some v ∧ col[k]? = some (applyConv f v)

theorem readBatch_spec [Mul α] (choose : Nat → Nat → Option (List Nat)) (conv : String → String → Option α)
    (t : Table α) (q : Query) (out : List (List α)) (h : readBatch choose conv (some t) q = .ok out) :
    ∃ rows, resolve choose t.nRows q.sel = .ok rows ∧ out.length = q.cols.length ∧
      ∀ (j : Nat) name, q.cols[j]? = some name →
        ∃ col, out[j]? = some col ∧ IsBatchCol conv q.units t rows name col := by
  simp only [readBatch] at h
  split at h
  · simp at h
  · rename_i rows hrows
    split at h
    · simp at h
    · rename_i raw hraw
      have h1 := readRaw_spec t rows q.cols raw hraw
      have h2 := convertAll_spec conv q.units raw out h
      have h12 := h1.comp h2
      refine ⟨rows, hrows, h12.length_eq.symm, fun j name hj => ?_⟩
      obtain ⟨col, hcol, ⟨c, vs⟩, ⟨hfind, hg⟩, f, hf, hmap⟩ := h12.get j name hj
      refine ⟨col, hcol, c, f, hfind, hf, ?_, ?_⟩
      · have := (gather_spec c.vals rows vs hg).length_eq
        simp [hmap, this]
      · intro k r hk
        obtain ⟨v, hv, hr⟩ := (gather_spec c.vals rows vs hg).get k r hk
        exact ⟨v, hr, by simp [hmap, hv]⟩

theorem readBatch_total [Mul α] (choose : Nat → Nat → Option (List Nat)) (conv : String → String → Option α)
    (t : Table α) (q : Query) (rows : List Nat) (hwf : t.WF)
    (hsel : resolve choose t.nRows q.sel = .ok rows)
    (hcols : ∀ name ∈ q.cols, ∃ c f, findCol t name = some c ∧ factorFor conv q.units c.hdr = .ok f) :
    ∃ out, readBatch choose conv (some t) q = .ok out := by
  have hlt := resolve_lt choose t.nRows q.sel rows hsel
  obtain ⟨raw, hraw⟩ := readRaw_total t rows hwf hlt q.cols (fun name hn => by
    obtain ⟨c, _, hc, _⟩ := hcols name hn
    simp [hc])
  have hspec := readRaw_spec t rows q.cols raw hraw
  have hall : ∀ p ∈ raw, ∃ f, factorFor conv q.units p.1.hdr = .ok f := by
    intro p hp
    obtain ⟨k, hk⟩ := List.getElem?_of_mem hp
    have hlen := hspec.length_eq
    have hk' : k < q.cols.length := by
      have := (List.getElem?_eq_some_iff.1 hk).1
      omega
    obtain ⟨y, hy, hR⟩ := hspec.get k q.cols[k] (List.getElem?_eq_getElem hk')
    rw [hk] at hy; cases hy
    obtain ⟨c, f, hc, hf⟩ := hcols q.cols[k] (List.getElem_mem hk')
    rw [hR.1] at hc; cases hc
    exact ⟨f, hf⟩
  obtain ⟨out, hout⟩ := convertAll_total conv q.units raw hall
  exact ⟨out, by simp [readBatch, hsel, hraw, hout]⟩

/-! ## Sampling without replacement -/

theorem drawNoRepl_spec : ∀ (ds pool : List Nat), pool.Nodup →
    (drawNoRepl pool ds).Nodup ∧ (∀ x ∈ drawNoRepl pool ds, x ∈ pool) ∧
    (ds.length ≤ pool.length → (drawNoRepl pool ds).length = ds.length)
  | [], pool, _ => by simp [drawNoRepl]
  | d :: ds, pool, hp => by
    simp only [drawNoRepl]
    split
    · rename_i x hx
      have hk : d % pool.length < pool.length := (List.getElem?_eq_some_iff.1 hx).1
      have hsub := List.eraseIdx_sublist pool (d % pool.length)
      have ih := drawNoRepl_spec ds (pool.eraseIdx (d % pool.length)) (hsub.nodup hp)
      refine ⟨?_, ?_, ?_⟩
      · rw [List.nodup_cons]
        refine ⟨fun hmem => ?_, ih.1⟩
        have hx' := ih.2.1 x hmem
        rw [List.mem_eraseIdx_iff_getElem?] at hx'
        obtain ⟨i, hne, hi⟩ := hx'
        -- two different positions of a duplicate-free list cannot hold the same element
        have hi' := List.getElem?_eq_some_iff.1 hi
        have hx'' := List.getElem?_eq_some_iff.1 hx
        obtain ⟨hil, hie⟩ := hi'
        obtain ⟨hkl, hke⟩ := hx''
        have := (List.getElem_inj hp).1 (hie.trans hke.symm)
        exact hne this
      · intro y hy
        simp only [List.mem_cons] at hy
        rcases hy with rfl | hy
        · exact List.mem_of_getElem? hx
        · exact hsub.subset (ih.2.1 y hy)
      · intro hlen
        simp only [List.length_cons] at hlen ⊢
        rw [ih.2.2 (by rw [List.length_eraseIdx_of_lt hk]; omega)]
    · rename_i hnone
      refine ⟨by simp, by simp, ?_⟩
      intro hlen
      simp only [List.length_cons] at hlen
      have hpos : 0 < pool.length := by omega
      have := Nat.mod_lt d hpos
      rw [List.getElem?_eq_none_iff] at hnone
      omega

end Store
