import JokerVerif.Model.Reject
import JokerVerif.Model.Iter
import Mathlib.Order.Defs.LinearOrder
import Mathlib.Algebra.Field.Defs
import Mathlib.Algebra.Order.Ring.Defs
import Mathlib.Data.List.Basic
/-!
# Helper lemmas for the rejection / iterative models (C02, C06, C14)
-/
set_option linter.unusedSectionVars false
namespace Reject

/-! ## `gather` -/
section Gather
variable {β γ : Type}

theorem gather_cons_eq_some {xs : List β} {i : Nat} {is : List Nat} {ys : List β} :
    gather xs (i :: is) = some ys ↔ ∃ x r, xs[i]? = some x ∧ gather xs is = some r ∧ ys = x :: r := by
  simp only [gather]
  constructor
  · intro h
    split at h
    · rename_i x r hx hr
      exact ⟨x, r, hx, hr, by simpa using h.symm⟩
    · simp at h
  · rintro ⟨x, r, hx, hr, rfl⟩
    simp [hx, hr]

theorem gather_length {xs : List β} : ∀ {is : List Nat} {ys : List β}, gather xs is = some ys → ys.length = is.length
  | [], ys, h => by simp [gather] at h; simp [← h]
  | i :: is, ys, h => by
    obtain ⟨x, r, _, hr, rfl⟩ := gather_cons_eq_some.mp h
    simp [gather_length hr]

/-- element-wise meaning of a successful gather -/
theorem gather_getElem? {xs : List β} : ∀ {is : List Nat} {ys : List β}, gather xs is = some ys →
    ∀ (k i : Nat), is[k]? = some i → ∃ y, ys[k]? = some y ∧ xs[i]? = some y
  | [], ys, h, k, i, hk => by simp at hk
  | j :: is, ys, h, k, i, hk => by
    obtain ⟨x, r, hx, hr, rfl⟩ := gather_cons_eq_some.mp h
    cases k with
    | zero => simp at hk; subst hk; exact ⟨x, by simp, hx⟩
    | succ k => simpa using gather_getElem? hr k i (by simpa using hk)

theorem mem_of_gather {xs : List β} : ∀ {is : List Nat} {ys : List β}, gather xs is = some ys →
    ∀ y ∈ ys, ∃ i ∈ is, xs[i]? = some y
  | [], ys, h, y, hy => by simp [gather] at h; subst h; simp at hy
  | j :: is, ys, h, y, hy => by
    obtain ⟨x, r, hx, hr, rfl⟩ := gather_cons_eq_some.mp h
    rcases List.mem_cons.mp hy with rfl | hy
    · exact ⟨j, List.mem_cons_self, hx⟩
    · obtain ⟨i, hi, hxi⟩ := mem_of_gather hr y hy
      exact ⟨i, List.mem_cons_of_mem _ hi, hxi⟩

theorem gather_isSome_of_lt {xs : List β} : ∀ {is : List Nat}, (∀ i ∈ is, i < xs.length) → ∃ ys, gather xs is = some ys
  | [], _ => ⟨[], rfl⟩
  | i :: is, h => by
    obtain ⟨r, hr⟩ := gather_isSome_of_lt (is := is) (fun j hj => h j (List.mem_cons_of_mem _ hj))
    have hi : i < xs.length := h i List.mem_cons_self
    exact ⟨xs[i] :: r, gather_cons_eq_some.mpr ⟨xs[i], r, by simp [hi], hr, rfl⟩⟩

theorem lt_of_gather {xs : List β} {is : List Nat} {ys : List β} (h : gather xs is = some ys) :
    ∀ i ∈ is, i < xs.length := by
  intro i hi
  obtain ⟨k, hk⟩ := List.getElem?_of_mem hi
  obtain ⟨y, _, hy⟩ := gather_getElem? h k i hk
  exact (List.getElem?_eq_some_iff.mp hy).1

theorem gather_map (f : β → γ) (xs : List β) : ∀ (is : List Nat),
    gather (xs.map f) is = (gather xs is).map (List.map f)
  | [] => rfl
  | i :: is => by
    simp only [gather, gather_map f xs is, List.getElem?_map]
    cases xs[i]? <;> cases gather xs is <;> simp

theorem gather_take (xs : List β) : ∀ (is : List Nat) (k : Nat) {ys : List β}, gather xs is = some ys →
    gather xs (is.take k) = some (ys.take k)
  | [], k, ys, h => by simp [gather] at h; subst h; simp [gather]
  | i :: is, 0, ys, h => by simp [gather]
  | i :: is, k + 1, ys, h => by
    obtain ⟨x, r, hx, hr, rfl⟩ := gather_cons_eq_some.mp h
    simp only [List.take_succ_cons]
    exact gather_cons_eq_some.mpr ⟨x, r.take k, hx, gather_take xs is k hr, rfl⟩

/-- `xs[order[good]] = (xs[order])[good]` — the heart of the index-space bookkeeping -/
theorem gather_gather {xs : List β} {order : List Nat} {evs : List β} (h1 : gather xs order = some evs) :
    ∀ {good full : List Nat}, gather order good = some full → gather xs full = gather evs good
  | [], full, h2 => by simp [gather] at h2; subst h2; rfl
  | p :: good, full, h2 => by
    obtain ⟨j, r, hj, hr, rfl⟩ := gather_cons_eq_some.mp h2
    obtain ⟨y, hy, hxy⟩ := gather_getElem? h1 p j hj
    simp only [gather, hxy, hy, gather_gather h1 hr]

theorem gather_range_self {n : Nat} : ∀ {good full : List Nat}, gather (List.range n) good = some full → full = good
  | [], full, h => by simp [gather] at h; exact h
  | p :: good, full, h => by
    obtain ⟨j, r, hj, hr, rfl⟩ := gather_cons_eq_some.mp h
    have : j = p := by
      have := List.getElem?_eq_some_iff.mp hj
      obtain ⟨h1, h2⟩ := this
      simpa using h2.symm
    rw [this, gather_range_self hr]

theorem gather_range' (xs : List β) : ∀ (n s : Nat), s + n ≤ xs.length →
    gather xs (List.range' s n) = some ((xs.drop s).take n)
  | 0, s, _ => by simp [gather]
  | n + 1, s, h => by
    have hs : s < xs.length := by omega
    have ih := gather_range' xs n (s + 1) (by omega)
    rw [List.range'_succ]
    refine gather_cons_eq_some.mpr ⟨xs[s], (xs.drop (s + 1)).take n, by simp [hs], ih, ?_⟩
    rw [List.drop_eq_getElem_cons hs, List.take_succ_cons]

theorem gather_range_take {xs : List β} {n : Nat} (h : n ≤ xs.length) :
    gather xs (List.range n) = some (xs.take n) := by
  rw [List.range_eq_range']
  simpa using gather_range' xs n 0 (by omega)

theorem gather_nodup {xs : List β} (hx : xs.Nodup) : ∀ {is : List Nat} {ys : List β}, is.Nodup →
    gather xs is = some ys → ys.Nodup
  | [], ys, _, h => by simp [gather] at h; subst h; simp
  | i :: is, ys, hn, h => by
    obtain ⟨x, r, hxi, hr, rfl⟩ := gather_cons_eq_some.mp h
    rw [List.nodup_cons] at hn ⊢
    refine ⟨?_, gather_nodup hx hn.2 hr⟩
    intro hmem
    obtain ⟨j, hj, hxj⟩ := mem_of_gather hr x hmem
    have hil := (List.getElem?_eq_some_iff.mp hxi).1
    have : i = j := (List.getElem?_inj hil hx).mp (hxi.trans hxj.symm)
    exact hn.1 (this ▸ hj)

/-- shifting: reading `xs` at indices all `≥ k` is reading `xs.drop k` at the shifted indices -/
theorem gather_drop (xs : List β) (k : Nat) : ∀ (is : List Nat), (∀ i ∈ is, k ≤ i) →
    gather xs is = gather (xs.drop k) (is.map (· - k))
  | [], _ => rfl
  | i :: is, h => by
    have hi : k ≤ i := h i List.mem_cons_self
    have ih := gather_drop xs k is (fun j hj => h j (List.mem_cons_of_mem _ hj))
    simp only [gather, List.map_cons, List.getElem?_drop, ih]
    have : k + (i - k) = i := by omega
    rw [this]

/-- strictly increasing positions select a sub-sequence: order kept, nothing duplicated -/
theorem gather_sublist : ∀ (n : Nat) (xs : List β) (is : List Nat) (ys : List β), is.length = n →
    is.Pairwise (· < ·) → gather xs is = some ys → ys.Sublist xs
  | 0, xs, is, ys, hn, _, h => by
    have : is = [] := List.length_eq_zero_iff.mp hn
    subst this
    simp [gather] at h; subst h; exact List.nil_sublist _
  | n + 1, xs, is, ys, hn, hp, h => by
    cases is with
    | nil => simp at hn
    | cons i is =>
      obtain ⟨x, r, hx, hr, rfl⟩ := gather_cons_eq_some.mp h
      obtain ⟨hlt, hp'⟩ := List.pairwise_cons.mp hp
      have hge : ∀ j ∈ is, i + 1 ≤ j := fun j hj => hlt j hj
      rw [gather_drop xs (i + 1) is hge] at hr
      have hp'' : (is.map (· - (i + 1))).Pairwise (· < ·) := by
        rw [List.pairwise_map]
        refine hp'.imp_of_mem ?_
        intro a b ha hb hab
        have := hge a ha
        have := hge b hb
        omega
      have ih := gather_sublist n (xs.drop (i + 1)) (is.map (· - (i + 1))) r (by simpa using hn) hp'' hr
      have hil : i < xs.length := (List.getElem?_eq_some_iff.mp hx).1
      have hxe : xs[i] = x := (List.getElem?_eq_some_iff.mp hx).2
      have hd : xs.drop i = x :: xs.drop (i + 1) := by rw [List.drop_eq_getElem_cons hil, hxe]
      calc (x :: r).Sublist (x :: xs.drop (i + 1)) := ih.cons_cons x
        _ = xs.drop i := hd.symm
        _ |>.Sublist xs := List.drop_sublist _ _

end Gather

/-! ## the acceptance mask -/
section Mask
variable {α : Type} [LT α] [DecidableLT α] [Sub α] [Max α]

@[simp] theorem maskFrom_nil_left (expf : α → α) (m : α) (pos : Nat) (us : List α) :
    maskFrom expf m pos [] us = [] := by simp [maskFrom]

@[simp] theorem maskFrom_nil_right (expf : α → α) (m : α) (pos : Nat) (ls : List α) :
    maskFrom expf m pos ls [] = [] := by cases ls <;> simp [maskFrom]

theorem maskFrom_cons (expf : α → α) (m : α) (pos : Nat) (l u : α) (ls us : List α) :
    maskFrom expf m pos (l :: ls) (u :: us) =
      if u < expf (l - m) then pos :: maskFrom expf m (pos + 1) ls us else maskFrom expf m (pos + 1) ls us := by
  simp [maskFrom]

/-- membership in the mask: position `pos + i` is kept iff `uu[i] < expf (lls[i] - m)` -/
theorem mem_maskFrom (expf : α → α) (m : α) : ∀ (ls us : List α) (pos p : Nat),
    p ∈ maskFrom expf m pos ls us ↔
      ∃ i l u, p = pos + i ∧ ls[i]? = some l ∧ us[i]? = some u ∧ u < expf (l - m)
  | [], us, pos, p => by simp
  | l :: ls, [], pos, p => by simp
  | l :: ls, u :: us, pos, p => by
    rw [maskFrom_cons]
    have ih := mem_maskFrom expf m ls us (pos + 1) p
    constructor
    · intro h
      split at h
      · rename_i hc
        rcases List.mem_cons.mp h with rfl | h
        · exact ⟨0, l, u, rfl, rfl, rfl, hc⟩
        · obtain ⟨i, l', u', hp, hl, hu, hc'⟩ := ih.mp h
          exact ⟨i + 1, l', u', by omega, by simpa using hl, by simpa using hu, hc'⟩
      · obtain ⟨i, l', u', hp, hl, hu, hc'⟩ := ih.mp h
        exact ⟨i + 1, l', u', by omega, by simpa using hl, by simpa using hu, hc'⟩
    · rintro ⟨i, l', u', hp, hl, hu, hc⟩
      cases i with
      | zero =>
        simp only [List.getElem?_cons_zero, Option.some.injEq] at hl hu
        subst hl; subst hu
        simp only [hc, if_true]
        exact List.mem_cons.mpr (Or.inl (by omega))
      | succ i =>
        have : p ∈ maskFrom expf m (pos + 1) ls us :=
          ih.mpr ⟨i, l', u', by omega, by simpa using hl, by simpa using hu, hc⟩
        split
        · exact List.mem_cons_of_mem _ this
        · exact this

theorem maskFrom_pairwise (expf : α → α) (m : α) : ∀ (ls us : List α) (pos : Nat),
    (maskFrom expf m pos ls us).Pairwise (· < ·)
  | [], us, pos => by simp
  | l :: ls, [], pos => by simp
  | l :: ls, u :: us, pos => by
    rw [maskFrom_cons]
    have ih := maskFrom_pairwise expf m ls us (pos + 1)
    split
    · refine List.pairwise_cons.mpr ⟨?_, ih⟩
      intro q hq
      obtain ⟨i, _, _, hp, _⟩ := (mem_maskFrom expf m ls us (pos + 1) q).mp hq
      omega
    · exact ih

/-- `p` accepted (before truncation) iff its own uniform is below `expf (ll_p - max ll)` -/
theorem mem_goodPos (expf : α → α) (lls uu : List α) (p : Nat) :
    p ∈ goodPos expf lls uu ↔
      ∃ m l u, maxOf lls = some m ∧ lls[p]? = some l ∧ uu[p]? = some u ∧ u < expf (l - m) := by
  unfold goodPos
  cases hm : maxOf lls with
  | none => simp
  | some m =>
    simp only [mem_maskFrom, Option.some.injEq]
    constructor
    · rintro ⟨i, l, u, hp, hl, hu, hc⟩
      have : p = i := by omega
      subst this
      exact ⟨m, l, u, rfl, hl, hu, hc⟩
    · rintro ⟨m', l, u, rfl, hl, hu, hc⟩
      exact ⟨p, l, u, by omega, hl, hu, hc⟩

theorem goodPos_pairwise (expf : α → α) (lls uu : List α) : (goodPos expf lls uu).Pairwise (· < ·) := by
  unfold goodPos
  split
  · simp
  · exact maskFrom_pairwise expf _ lls uu 0

theorem goodPos_lt (expf : α → α) (lls uu : List α) : ∀ p ∈ goodPos expf lls uu, p < lls.length ∧ p < uu.length := by
  intro p hp
  obtain ⟨m, l, u, _, hl, hu, _⟩ := (mem_goodPos expf lls uu p).mp hp
  exact ⟨(List.getElem?_eq_some_iff.mp hl).1, (List.getElem?_eq_some_iff.mp hu).1⟩

theorem truncate_sublist (k : Option Nat) (g : List Nat) : (truncate k g).Sublist g := by
  cases k with
  | none => exact List.Sublist.refl _
  | some k => exact List.take_sublist _ _

theorem truncate_pairwise (k : Option Nat) {g : List Nat} (h : g.Pairwise (· < ·)) :
    (truncate k g).Pairwise (· < ·) := h.sublist (truncate_sublist k g)

theorem mem_of_mem_truncate {k : Option Nat} {g : List Nat} {p : Nat} (h : p ∈ truncate k g) : p ∈ g :=
  (truncate_sublist k g).subset h

theorem pairwise_lt_nodup {g : List Nat} (h : g.Pairwise (· < ·)) : g.Nodup :=
  h.imp (fun hab => Nat.ne_of_lt hab)

end Mask

/-! ## `rep` -/
section Rep
variable {β γ : Type}

theorem rep_length (n : Nat) (xs : List β) : (rep n xs).length = xs.length * n := by
  induction xs with
  | nil => simp [rep]
  | cons x xs ih =>
    simp only [rep, List.flatMap_cons, List.length_append, List.length_replicate, List.length_cons] at ih ⊢
    rw [ih, Nat.succ_mul, Nat.add_comm]

theorem rep_map (f : β → γ) (n : Nat) (xs : List β) : rep n (xs.map f) = (rep n xs).map f := by
  induction xs with
  | nil => simp [rep]
  | cons x xs ih =>
    simp only [rep, List.map_cons, List.flatMap_cons, List.map_append, List.map_replicate] at ih ⊢
    rw [ih]

theorem rep_one (xs : List β) : rep 1 xs = xs := by
  induction xs with
  | nil => simp [rep]
  | cons x xs ih => simp only [rep, List.flatMap_cons] at ih ⊢; rw [ih]; simp

theorem rep_eq_nil_iff {n : Nat} {xs : List β} (hn : 0 < n) : rep n xs = [] ↔ xs = [] := by
  cases xs with
  | nil => simp [rep]
  | cons x xs =>
    simp only [rep, List.flatMap_cons, List.append_eq_nil_iff, List.replicate_eq_nil_iff, reduceCtorEq, iff_false]
    omega

theorem rep_zip_map (f : β → γ) {δ : Type} (g : β → δ) (n : Nat) (xs : List β) :
    (rep n (xs.map f)).zip (rep n (xs.map g)) = rep n (xs.map (fun x => (f x, g x))) := by
  induction xs with
  | nil => simp [rep]
  | cons x xs ih =>
    simp only [rep, List.map_cons, List.flatMap_cons] at ih ⊢
    rw [List.zip_append (by simp), ih, List.zip_replicate']

end Rep

/-! ## `assemble` and `rejectionSample` -/
section Assemble
variable {α ρ : Type} [LT α] [DecidableLT α] [Sub α] [Max α]

theorem assemble_eq_some {lib : List (LibRow ρ α)} {order : List Nat} {lls : List α} {good : List Nat} {n : Nat}
    {out : Out ρ α} (h : assemble lib order lls good n = some out) :
    ∃ full rows lp ll, gather order good = some full ∧ gather (lib.map (·.nonlin)) full = some rows ∧
      gather (lib.map (·.lnPrior)) full = some lp ∧ gather lls good = some ll ∧
      out = { evalRows := order, allLls := lls, good := good, full := full,
              rows := rep n rows, lnPrior := rep n lp, lnLike := rep n ll } := by
  unfold assemble at h
  split at h
  · simp at h
  · rename_i full hfull
    split at h
    · rename_i rows lp ll hr hp hl
      exact ⟨full, rows, lp, ll, hfull, hr, hp, hl, by simpa using h.symm⟩
    · simp at h

/-- The bookkeeping theorem behind C06: the three returned columns are all generated by ONE list of library
records `recs = lib[full] = (lib[order])[good]`. -/
theorem assemble_attached (llf : ρ → α) {lib : List (LibRow ρ α)} {order : List Nat} {evRows : List (LibRow ρ α)}
    {good : List Nat} {n : Nat} {out : Out ρ α} (hev : gather lib order = some evRows)
    (h : assemble lib order (evRows.map (fun r => llf r.nonlin)) good n = some out) :
    out.evalRows = order ∧ out.allLls = evRows.map (fun r => llf r.nonlin) ∧ out.good = good ∧
    gather order good = some out.full ∧
    ∃ recs, gather lib out.full = some recs ∧ gather evRows good = some recs ∧
      out.rows = rep n (recs.map (·.nonlin)) ∧ out.lnPrior = rep n (recs.map (·.lnPrior)) ∧
      out.lnLike = rep n (recs.map (fun r => llf r.nonlin)) := by
  obtain ⟨full, rows, lp, ll, hfull, hr, hp, hl, rfl⟩ := assemble_eq_some h
  refine ⟨rfl, rfl, rfl, hfull, ?_⟩
  rw [gather_map] at hr hp hl
  have hgg := gather_gather hev hfull
  cases hrec : gather lib full with
  | none => simp [hrec] at hr
  | some recs =>
    rw [hrec] at hr hp
    rw [← hgg, hrec] at hl
    simp only [Option.map_some, Option.some.injEq] at hr hp hl
    refine ⟨recs, rfl, hgg ▸ hrec, ?_, ?_, ?_⟩
    · simp [← hr]
    · simp [← hp]
    · simp [← hl]

/-- `assemble` cannot fail when every position is in range -/
theorem assemble_isSome {lib : List (LibRow ρ α)} {order : List Nat} {lls : List α} {good : List Nat} (n : Nat)
    (hg : ∀ p ∈ good, p < order.length) (ho : ∀ j ∈ order, j < lib.length) (hl : lls.length = order.length) :
    ∃ out, assemble lib order lls good n = some out := by
  obtain ⟨full, hfull⟩ := gather_isSome_of_lt (xs := order) hg
  have hfl : ∀ j ∈ full, j < lib.length := by
    intro j hj
    obtain ⟨i, _, hi⟩ := mem_of_gather hfull j hj
    exact ho j (List.mem_of_getElem? hi)
  obtain ⟨rows, hr⟩ := gather_isSome_of_lt (xs := lib.map (·.nonlin)) (is := full) (by simpa using hfl)
  obtain ⟨lp, hp⟩ := gather_isSome_of_lt (xs := lib.map (·.lnPrior)) (is := full) (by simpa using hfl)
  obtain ⟨ll, hll⟩ := gather_isSome_of_lt (xs := lls) (is := good) (by rw [hl]; exact hg)
  refine ⟨{ evalRows := order, allLls := lls, good := good, full := full,
            rows := rep n rows, lnPrior := rep n lp, lnLike := rep n ll }, ?_⟩
  simp [assemble, hfull, hr, hp, hll]

/-- inversion of a successful `rejectionSample` -/
theorem rejectionSample_ok {expf : α → α} {llf : ρ → α} {lib : List (LibRow ρ α)} {o : Opts}
    {idx : Option (List Nat)} {uu : List α} {out : Out ρ α}
    (h : rejectionSample expf llf lib o idx uu = .ok out) :
    o.nPrior.getD lib.length ≤ lib.length ∧
    (evalOrder (o.nPrior.getD lib.length) idx).length = o.nPrior.getD lib.length ∧
    ∃ evRows, gather lib (evalOrder (o.nPrior.getD lib.length) idx) = some evRows ∧
      uu.length = evRows.length ∧
      assemble lib (evalOrder (o.nPrior.getD lib.length) idx) (evRows.map (fun r => llf r.nonlin))
        (truncate o.maxPost (goodPos expf (evRows.map (fun r => llf r.nonlin)) uu)) o.nLinear = some out := by
  unfold rejectionSample at h
  dsimp only at h
  split at h
  · simp at h
  · rename_i hn
    split at h
    · simp at h
    · rename_i evRows hev
      split at h
      · simp at h
      · rename_i hc
        split at h
        · simp at h
        · rename_i out' hout
          simp only [Except.ok.injEq] at h
          subst h
          refine ⟨by omega, by omega, evRows, hev, ?_, hout⟩
          have := hc
          simp only [List.length_map, not_or, ne_eq, Decidable.not_not] at this
          exact this.2

end Assemble

/-! ## laws that need a lawful order -/
section Laws
variable {α : Type} [LinearOrder α]

theorem foldl_max_ge (ls : List α) (m0 : α) :
    m0 ≤ ls.foldl max m0 ∧ ∀ l ∈ ls, l ≤ ls.foldl max m0 := by
  induction ls generalizing m0 with
  | nil => simp
  | cons x xs ih =>
    obtain ⟨h1, h2⟩ := ih (max m0 x)
    simp only [List.foldl_cons]
    refine ⟨le_trans (le_max_left _ _) h1, ?_⟩
    intro l hl
    rcases List.mem_cons.mp hl with rfl | hx
    · exact le_trans (le_max_right _ _) h1
    · exact h2 l hx

theorem foldl_max_mem (ls : List α) (m0 : α) : ls.foldl max m0 = m0 ∨ ls.foldl max m0 ∈ ls := by
  induction ls generalizing m0 with
  | nil => simp
  | cons x xs ih =>
    simp only [List.foldl_cons]
    rcases ih (max m0 x) with h | h
    · rcases max_choice m0 x with hm | hm
      · left; rw [h, hm]
      · right; rw [h, hm]; exact List.mem_cons_self
    · right; exact List.mem_cons_of_mem _ h

/-- the normaliser is the maximum of the evaluated likelihoods -/
theorem maxOf_spec {lls : List α} {m : α} (h : maxOf lls = some m) : (∀ l ∈ lls, l ≤ m) ∧ m ∈ lls := by
  cases lls with
  | nil => simp [maxOf] at h
  | cons l ls =>
    simp only [maxOf, Option.some.injEq] at h
    subst h
    obtain ⟨h1, h2⟩ := foldl_max_ge ls l
    refine ⟨?_, ?_⟩
    · intro x hx
      rcases List.mem_cons.mp hx with rfl | hx
      · exact h1
      · exact h2 x hx
    · rcases foldl_max_mem ls l with h | h
      · rw [h]; exact List.mem_cons_self
      · exact List.mem_cons_of_mem _ h

theorem maxOf_isSome {lls : List α} (h : lls ≠ []) : ∃ m, maxOf lls = some m := by
  cases lls with
  | nil => exact absurd rfl h
  | cons l ls => exact ⟨_, rfl⟩

end Laws
end Reject

/-! ## the iterative loop -/
namespace Iter
open Reject

/-- the evaluated blocks `(start, n)` tile `[s, e)`: consecutive, in order, no gap, no overlap -/
def Tiles : List (Nat × Nat) → Nat → Nat → Prop
  | [], s, e => s = e
  | b :: bs, s, e => b.1 = s ∧ Tiles bs (s + b.2) e

theorem tiles_append : ∀ (bs : List (Nat × Nat)) (s m n : Nat), Tiles bs s m → Tiles (bs ++ [(m, n)]) s (m + n)
  | [], s, m, n, h => by simp [Tiles] at h ⊢; exact ⟨h.symm, h⟩
  | b :: bs, s, m, n, h => by
    obtain ⟨h1, h2⟩ := h
    exact ⟨h1, tiles_append bs _ m n h2⟩

theorem tiles_le : ∀ (bs : List (Nat × Nat)) (s e : Nat), Tiles bs s e → s ≤ e
  | [], s, e, h => by simp [Tiles] at h; omega
  | b :: bs, s, e, h => by have := tiles_le bs _ e h.2; omega

/-- the tiles enumerate every position of `[s, e)` exactly once, in order; their sizes add up to `e - s` -/
theorem tiles_cover : ∀ (bs : List (Nat × Nat)) (s e : Nat), Tiles bs s e →
    bs.flatMap (fun b => List.range' b.1 b.2) = List.range' s (e - s) ∧ (bs.map (·.2)).sum = e - s
  | [], s, e, h => by simp [Tiles] at h; subst h; simp
  | b :: bs, s, e, h => by
    obtain ⟨h1, h2⟩ := h
    obtain ⟨ih1, ih2⟩ := tiles_cover bs _ e h2
    have hle := tiles_le bs _ e h2
    constructor
    · simp only [List.flatMap_cons, ih1, h1]
      have : e - s = b.2 + (e - (s + b.2)) := by omega
      rw [this, List.range'_append_1]
    · simp only [List.map_cons, List.sum_cons, ih2]; omega

section Loop
variable {α : Type} [LT α] [DecidableLT α] [Sub α] [Max α]

theorem clamp_le (budget start want : Nat) (h : start ≤ budget) : start + clamp budget start want ≤ budget := by
  unfold clamp; split <;> omega

/-- invariant of the grow-and-retest loop, for EVERY growth policy -/
theorem loop_spec (expf : α → α) (nonFinite : α → Bool) (guard : Bool) (req budget : Nat) (posLL : List α)
    (grow : Nat → Nat → Nat → Nat → Nat) : ∀ (fuel round : Nat) (uus : List (List α)) (start nProc : Nat)
    (all : List α) (blocks : List (Nat × Nat)) (lo : LoopOut α),
    all = posLL.take start → start + nProc ≤ budget → budget ≤ posLL.length → Tiles blocks 0 start →
    loop expf nonFinite guard req budget posLL grow fuel round uus start nProc all blocks = .ok lo →
    lo.evaluated ≤ budget ∧ Tiles lo.blocks 0 lo.evaluated ∧ lo.all = posLL.take lo.evaluated ∧
    (∃ k, uus[k]? = some lo.uuLast ∧ lo.blocks.length = blocks.length + k + 1) ∧
    lo.uuLast.length = lo.all.length ∧
    lo.good = (goodPos expf lo.all lo.uuLast).take req ∧ goodPos expf lo.all lo.uuLast ≠ [] ∧
    (guard = true → ∀ l ∈ lo.all, nonFinite l = false) := by
  intro fuel
  induction fuel with
  | zero => intro round uus start nProc all blocks lo _ _ _ _ h; simp [loop] at h
  | succ fuel ih =>
    intro round uus start nProc all blocks lo hall hb hbl ht h
    have hall' : all ++ (posLL.drop start).take nProc = posLL.take (start + nProc) := by
      rw [hall, List.take_add]
    have ht' : Tiles (blocks ++ [(start, nProc)]) 0 (start + nProc) := tiles_append blocks 0 start nProc ht
    unfold loop at h
    simp only [hall'] at h
    split at h
    · simp at h
    · rename_i hg
      split at h
      · simp at h
      · rename_i uu uus'
        split at h
        · simp at h
        · rename_i hlen
          split at h
          · simp at h
          · rename_i hne
            have hgfin : guard = true → ∀ l ∈ posLL.take (start + nProc), nonFinite l = false := by
              intro hgt l hl
              simp only [hgt, Bool.true_and, Bool.or_eq_true, List.any_eq_true, not_or, not_exists, not_and,
                Bool.not_eq_true] at hg
              exact hg.1 l hl
            have hne' : goodPos expf (posLL.take (start + nProc)) uu ≠ [] := by
              simpa using hne
            have hlen' : uu.length = (posLL.take (start + nProc)).length := by
              simpa using hlen
            split at h
            · simp only [Except.ok.injEq] at h
              subst h
              exact ⟨hb, ht', rfl, ⟨0, by simp, by simp⟩, hlen', rfl, hne', hgfin⟩
            · split at h
              · simp only [Except.ok.injEq] at h
                subst h
                exact ⟨hb, ht', rfl, ⟨0, by simp, by simp⟩, hlen', rfl, hne', hgfin⟩
              · obtain ⟨r1, r2, r3, ⟨k, hk, hkl⟩, r5, r6, r7, r8⟩ :=
                  ih (round + 1) uus' (start + nProc) _ _ _ lo rfl (clamp_le budget _ _ hb) hbl ht' h
                refine ⟨r1, r2, r3, ⟨k + 1, by simpa using hk, ?_⟩, r5, r6, r7, r8⟩
                rw [hkl]; simp; omega

end Loop

section Sample
variable {α ρ : Type} [LT α] [DecidableLT α] [Sub α] [Max α]

/-- everything a successful `iterativeSample` guarantees (for EVERY growth policy `grow`) -/
theorem iterativeSample_facts {expf : α → α} {nonFinite : α → Bool} {llf : ρ → α} {lib : List (LibRow ρ α)}
    {c : Cfg} {idx : Option (List Nat)} {grow : Nat → Nat → Nat → Nat → Nat} {uus : List (List α)}
    {res : Res ρ α} (h : iterativeSample expf nonFinite llf lib c idx grow uus = .ok res) :
    c.budget lib.length ≤ lib.length ∧
    c.initBatch.getD (c.growth * c.req) ≤ c.budget lib.length ∧
    (evalOrder (c.budget lib.length) idx).length = c.budget lib.length ∧
    res.evaluated ≤ c.budget lib.length ∧ Tiles res.blocks 0 res.evaluated ∧
    res.out.evalRows = (evalOrder (c.budget lib.length) idx).take res.evaluated ∧
    gather (lib.map (fun r => llf r.nonlin)) res.out.evalRows = some res.out.allLls ∧
    (∃ k, uus[k]? = some res.uuLast ∧ res.blocks.length = k + 1) ∧
    res.uuLast.length = res.out.allLls.length ∧
    res.out.good = (goodPos expf res.out.allLls res.uuLast).take c.req ∧
    goodPos expf res.out.allLls res.uuLast ≠ [] ∧
    (c.guard = true → ∀ l ∈ res.out.allLls, nonFinite l = false) ∧
    gather res.out.evalRows res.out.good = some res.out.full ∧
    ∃ recs, gather lib res.out.full = some recs ∧
      res.out.rows = rep c.nLinear (recs.map (·.nonlin)) ∧ res.out.lnPrior = rep c.nLinear (recs.map (·.lnPrior)) ∧
      res.out.lnLike = rep c.nLinear (recs.map (fun r => llf r.nonlin)) := by
  unfold iterativeSample at h
  dsimp only at h
  have hb : ¬ c.budget lib.length > lib.length := Nat.not_lt.mpr (Nat.min_le_right _ _)
  by_cases hfirst : True
  · split at h
    · simp at h
    · rename_i hi
      split at h
      · simp at h
      · rename_i evRows hev
        split at h
        · simp at h
        · rename_i hol
          split at h
          · simp at h
          · rename_i lo hlo
            split at h
            · simp at h
            · rename_i out hout
              simp only [Except.ok.injEq] at h
              subst h
              have hol' : (evalOrder (c.budget lib.length) idx).length = c.budget lib.length := by
                simpa using hol
              have hpl : c.budget lib.length ≤ (evRows.map (fun r => llf r.nonlin)).length := by
                rw [List.length_map, gather_length hev, hol']
              obtain ⟨r1, r2, r3, r4, r5, r6, r7, r8⟩ :=
                loop_spec expf nonFinite c.guard c.req _ _ grow c.maxiter 0 uus 0 _ [] [] lo (by simp)
                  (by simp; omega) hpl (by simp [Tiles]) hlo
              have hev' := gather_take lib _ lo.evaluated hev
              rw [r3, ← List.map_take] at hout
              obtain ⟨a1, a2, a3, a4, recs, a5, _, a6, a7, a8⟩ := assemble_attached llf hev' hout
              have hall : out.allLls = lo.all := by rw [a2, r3, List.map_take]
              refine ⟨by omega, by omega, hol', r1, r2, a1, ?_, ?_, ?_, ?_, ?_, ?_, ?_, recs, a5, a6, a7, a8⟩
              · rw [a1, a2, gather_map, hev']; rfl
              · simpa using r4
              · rw [hall]; exact r5
              · rw [a3, hall]; exact r6
              · rw [hall]; exact r7
              · rw [hall]; exact r8
              · rw [a1, a3]; exact a4
  · exact absurd trivial hfirst

end Sample
section Short
variable {α ρ : Type} [LT α] [DecidableLT α] [Sub α] [Max α]

/-- the loop returns fewer than `req` accepted positions only from the exit "the clamped wish of the growth policy is 0" -/
theorem loop_short (expf : α → α) (nonFinite : α → Bool) (guard : Bool) (req budget : Nat) (posLL : List α)
    (grow : Nat → Nat → Nat → Nat → Nat) : ∀ (fuel round : Nat) (uus : List (List α)) (start nProc : Nat)
    (all : List α) (blocks : List (Nat × Nat)) (lo : LoopOut α),
    loop expf nonFinite guard req budget posLL grow fuel round uus start nProc all blocks = .ok lo →
    (goodPos expf lo.all lo.uuLast).length < req →
    ∃ r, clamp budget lo.evaluated (grow r (goodPos expf lo.all lo.uuLast).length lo.all.length
      (req - (goodPos expf lo.all lo.uuLast).length)) = 0 := by
  intro fuel
  induction fuel with
  | zero => intro round uus start nProc all blocks lo h; simp [loop] at h
  | succ fuel ih =>
    intro round uus start nProc all blocks lo h hshort
    unfold loop at h
    dsimp only at h
    split at h
    · simp at h
    · split at h
      · simp at h
      · rename_i uu uus'
        split at h
        · simp at h
        · split at h
          · simp at h
          · split at h
            · rename_i hreq
              simp only [Except.ok.injEq] at h
              subst h
              simp only at hshort
              omega
            · split at h
              · rename_i hz
                simp only [Except.ok.injEq] at h
                subst h
                exact ⟨round, hz⟩
              · exact ih _ _ _ _ _ _ lo h hshort

/-- the same at the level of the whole call: a result with fewer than `n_requested_samples` samples comes only from
the exit where the clamped wish of the growth policy is 0 -/
theorem iterativeSample_short {expf : α → α} {nonFinite : α → Bool} {llf : ρ → α} {lib : List (LibRow ρ α)}
    {c : Cfg} {idx : Option (List Nat)} {grow : Nat → Nat → Nat → Nat → Nat} {uus : List (List α)}
    {res : Res ρ α} (h : iterativeSample expf nonFinite llf lib c idx grow uus = .ok res)
    (hshort : res.out.good.length < c.req) :
    ∃ r, clamp (c.budget lib.length) res.evaluated
      (grow r (goodPos expf res.out.allLls res.uuLast).length res.out.allLls.length
        (c.req - (goodPos expf res.out.allLls res.uuLast).length)) = 0 := by
  have hfacts := iterativeSample_facts h
  obtain ⟨_, _, _, _, _, _, _, _, _, h10, _⟩ := hfacts
  unfold iterativeSample at h
  dsimp only at h
  split at h
  · simp at h
  · split at h
    · simp at h
    · rename_i evRows hev
      split at h
      · simp at h
      · rename_i hol
        split at h
        · simp at h
        · rename_i lo hlo
          split at h
          · simp at h
          · rename_i out hout
            simp only [Except.ok.injEq] at h
            subst h
            have hol' : (evalOrder (c.budget lib.length) idx).length = c.budget lib.length := by
              simpa using hol
            have hpl : c.budget lib.length ≤ (evRows.map (fun r => llf r.nonlin)).length := by
              rw [List.length_map, gather_length hev, hol']
            have hinit : c.initBatch.getD (c.growth * c.req) ≤ c.budget lib.length := by omega
            obtain ⟨_, _, r3, _⟩ :=
              loop_spec expf nonFinite c.guard c.req _ _ grow c.maxiter 0 uus 0 _ [] [] lo (by simp)
                (by simp; omega) hpl (by simp [Tiles]) hlo
            have hev' := gather_take lib _ lo.evaluated hev
            have hout' := hout
            rw [r3, ← List.map_take] at hout'
            obtain ⟨_, a2, _⟩ := assemble_attached llf hev' hout'
            have hall : out.allLls = lo.all := by rw [a2, r3, List.map_take]
            simp only at h10 hshort ⊢
            rw [hall] at h10 ⊢
            have hs : (goodPos expf lo.all lo.uuLast).length < c.req := by
              rw [h10, List.length_take] at hshort; omega
            exact loop_short expf nonFinite c.guard c.req _ _ grow c.maxiter 0 uus 0 _ [] [] lo hlo hs
end Short

end Iter
