import JokerVerif.Model.Prior
import Mathlib.Analysis.SpecialFunctions.Log.Deriv
import Mathlib.Analysis.SpecialFunctions.Pow.Real
import Mathlib.Analysis.SpecialFunctions.Sqrt
import Mathlib.MeasureTheory.Integral.IntervalIntegral.FundThmCalculus
import Mathlib.Probability.Distributions.Gaussian.Real
/-! Helper lemmas for C09: the model of `Model/Prior.lean` instantiated at `ℝ`. -/

namespace Prior
open Real

/-- the real instantiation of the transcendental functions -/
noncomputable def realFn : Fn ℝ := ⟨Real.exp, Real.log, Real.sqrt, fun x y => x ^ y, Real.pi⟩

@[simp] theorem realFn_exp : realFn.exp = Real.exp := rfl
@[simp] theorem realFn_log : realFn.log = Real.log := rfl
@[simp] theorem realFn_sqrt : realFn.sqrt = Real.sqrt := rfl
@[simp] theorem realFn_pow (x y : ℝ) : realFn.pow x y = x ^ y := rfl
@[simp] theorem realFn_pi : realFn.pi = Real.pi := rfl

theorem maxOf_eq_max (x y : ℝ) : maxOf x y = max x y := by
  unfold maxOf; split <;> rename_i h
  · exact (max_eq_right h).symm
  · exact (max_eq_left (le_of_not_ge h)).symm

theorem minOf_eq_min (x y : ℝ) : minOf x y = min x y := by
  unfold minOf; split <;> rename_i h
  · exact (min_eq_left h).symm
  · exact (min_eq_right (le_of_not_ge h)).symm

theorem log_sub_pos {a b : ℝ} (ha : 0 < a) (hab : a < b) : 0 < Real.log b - Real.log a := by
  have := Real.log_lt_log ha hab; linarith

/-- closed form of `exp(logp)` inside the support -/
theorem exp_logUniform (a b x : ℝ) (ha : 0 < a) (hab : a < b) (hx : 0 < x) :
    Real.exp (-Real.log x - Real.log (Real.log b - Real.log a)) = x⁻¹ / (Real.log b - Real.log a) := by
  have hpos := log_sub_pos ha hab
  rw [sub_eq_add_neg, Real.exp_add, Real.exp_neg, Real.exp_neg, Real.exp_log hx, Real.exp_log hpos]
  rfl

theorem hasDerivAt_logUniformCdf (a b x : ℝ) (ha : 0 < a) (hab : a < b) (hx : 0 < x) :
    HasDerivAt (fun x => (Real.log x - Real.log a) / (Real.log b - Real.log a))
      (Real.exp (-Real.log x - Real.log (Real.log b - Real.log a))) x := by
  have h1 := ((Real.hasDerivAt_log hx.ne').sub_const (Real.log a)).div_const (Real.log b - Real.log a)
  rw [exp_logUniform a b x ha hab hx]; exact h1

/-- square of the un-clipped scale -/
theorem sigmaKRaw_sq (s0 P0 P e : ℝ) (hP : 0 < P) (hP0 : 0 < P0) (he : e * e < 1) :
    (sigmaKRaw realFn s0 P0 P e) ^ 2 = s0 * s0 * (P / P0) ^ (-(2 / 3) : ℝ) / (1 - e * e) := by
  have hq : 0 < P / P0 := div_pos hP hP0
  have h1 : 0 < 1 - e * e := by linarith
  unfold sigmaKRaw
  simp only [realFn_pow, realFn_sqrt]
  rw [div_pow, mul_pow, Real.sq_sqrt h1.le, ← Real.rpow_natCast ((P / P0) ^ (-(1 / 3) : ℝ)) 2, ← Real.rpow_mul hq.le]
  norm_num
  ring

theorem sigmaKRaw_nonneg (s0 P0 P e : ℝ) (hs : 0 ≤ s0) (hP : 0 < P) (hP0 : 0 < P0) :
    0 ≤ sigmaKRaw realFn s0 P0 P e := by
  unfold sigmaKRaw
  simp only [realFn_pow, realFn_sqrt]
  have hq : 0 < P / P0 := div_pos hP hP0
  exact div_nonneg (mul_nonneg hs (Real.rpow_nonneg hq.le _)) (Real.sqrt_nonneg _)

theorem min_sq_of_nonneg {x y : ℝ} (hx : 0 ≤ x) (hy : 0 ≤ y) : (min x y) ^ 2 = min (x ^ 2) (y ^ 2) := by
  rcases le_total x y with h | h
  · rw [min_eq_left h, min_eq_left (pow_le_pow_left₀ hx h 2)]
  · rw [min_eq_right h, min_eq_right (pow_le_pow_left₀ hy h 2)]

/-- `exp(normalLogp)` is Mathlib's Gaussian density with variance `σ²` -/
theorem exp_normalLogp (mu sigma x : ℝ) (hs : 0 < sigma) :
    Real.exp (normalLogp realFn mu sigma x) =
      ProbabilityTheory.gaussianPDFReal mu (Real.toNNReal (sigma ^ 2)) x := by
  unfold normalLogp ProbabilityTheory.gaussianPDFReal
  rw [Real.coe_toNNReal _ (sq_nonneg sigma)]
  simp only [realFn_log, realFn_pi]
  have h2pi : (0 : ℝ) < 2 * Real.pi := by positivity
  rw [sub_eq_add_neg, sub_eq_add_neg, Real.exp_add, Real.exp_add, Real.exp_neg, Real.exp_neg, Real.exp_log hs]
  have hsqrt : Real.exp (Real.log (2 * Real.pi) / 2) = Real.sqrt (2 * Real.pi) := by
    rw [Real.sqrt_eq_rpow, Real.rpow_def_of_pos h2pi]; ring_nf
  rw [hsqrt]
  have e1 : Real.sqrt (2 * Real.pi * sigma ^ 2) = Real.sqrt (2 * Real.pi) * sigma := by
    rw [Real.sqrt_mul h2pi.le, Real.sqrt_sq hs.le]
  rw [e1, mul_inv]
  have e2 : -((x - mu) * (x - mu)) / (2 * (sigma * sigma)) = -(x - mu) ^ 2 / (2 * sigma ^ 2) := by ring
  rw [e2]; ring

end Prior
