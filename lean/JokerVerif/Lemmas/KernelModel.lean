import JokerVerif.Model.Kernel
import JokerVerif.Lemmas.KernelLemmas
/-! Unfolding lemmas that connect the executable kernel model (`Mat`-based) with Mathlib matrix algebra. -/
open Matrix

namespace Kernel
variable {α : Type} [Field α] {n k : Nat}

/-- `C_s⁻¹` as a function -/
def cs (x : KIn n k α) : Fin n → α := vfun (sIvar x)

theorem cs_apply (x : KIn n k α) (i : Fin n) : cs x i = getIvar x.ivar[i] x.s := by
  simp [cs, sIvar, vfun]

theorem kAinv_toM (x : KIn n k α) :
    (kAinv x).toM = diagonal (fun j => (vfun x.lam j)⁻¹) + x.M.toMᵀ * diagonal (cs x) * x.M.toM := by
  simp [kAinv, cs, vfun]

theorem kA_toM (x : KIn n k α) : (kA x).toM = ((kAinv x).toM)⁻¹ := by
  simp [kA, cinv_toM]

theorem kB_toM (x : KIn n k α) :
    (kB x).toM = diagonal (fun i => (cs x i)⁻¹) + x.M.toM * diagonal (vfun x.lam) * x.M.toMᵀ := by
  simp [kB, cs, vfun]

theorem kBinv_toM (x : KIn n k α) :
    (kBinv x).toM = diagonal (cs x) - diagonal (cs x) * x.M.toM * (kA x).toM * x.M.toMᵀ * diagonal (cs x) := by
  simp only [kBinv, Mat.toM_ofM, cs]
  rw [transpose_mul, diagonal_transpose]
  simp only [Matrix.mul_assoc]

theorem kb_fun (x : KIn n k α) : vfun (kb x) = x.M.toM *ᵥ vfun x.mu := by
  simp [kb]

theorem kr_fun (x : KIn n k α) : vfun (kr x) = x.M.toM *ᵥ vfun x.mu - vfun x.y := by
  funext i
  simp [kr, vfun, kb]

theorem kchi2_def (x : KIn n k α) :
    kchi2 x = (x.M.toM *ᵥ vfun x.mu - vfun x.y) ⬝ᵥ ((kBinv x).toM *ᵥ (x.M.toM *ᵥ vfun x.mu - vfun x.y)) := by
  simp [kchi2, kr_fun]

theorem krhs_fun (x : KIn n k α) :
    vfun (krhs x) = diagonal (fun j => (vfun x.lam j)⁻¹) *ᵥ vfun x.mu + x.M.toMᵀ *ᵥ (diagonal (cs x) *ᵥ vfun x.y) := by
  funext j
  rw [Pi.add_apply, mulVec_diagonal, add_comm]
  simp only [krhs, vfun_ofFn, mulVec, dotProduct, transpose_apply]
  congr 1
  · apply Finset.sum_congr rfl
    intro i _
    have h : (∑ m, diagonal (cs x) i m * vfun x.y m) = cs x i * vfun x.y i := by
      have := mulVec_diagonal (cs x) (vfun x.y) i
      simpa [mulVec, dotProduct] using this
    show x.M.toM i j * (sIvar x)[i] * x.y[i] = x.M.toM i j * ∑ m, diagonal (cs x) i m * vfun x.y m
    rw [h]
    simp [vfun, cs]
    ring
  · simp [vfun, div_eq_inv_mul]

theorem ka_fun (x : KIn n k α) :
    vfun (ka x) = ((kAinv x).toM)⁻¹ *ᵥ
      (diagonal (fun j => (vfun x.lam j)⁻¹) *ᵥ vfun x.mu + x.M.toMᵀ *ᵥ (diagonal (cs x) *ᵥ vfun x.y)) := by
  simp [ka, kA_toM, krhs_fun]

end Kernel
