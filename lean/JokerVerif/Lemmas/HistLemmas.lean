import JokerVerif.Model.Hist
/-! Helper lemmas for C05 (core Lean only). -/
namespace Hist

variable {α : Type}

theorem stepMarg_imm (X : Ext α) (w : Worker α) (h : Helper α) (θ : Theta α) :
    (stepMarg X w h θ).1.imm = h.imm := rfl

theorem stepPost_imm (X : Ext α) (wp : PostWorker α) (h : Helper α) (θ : Theta α) (z : List α) :
    (stepPost X wp h θ z).1.imm = h.imm := rfl

theorem stepOp_imm (X : Ext α) (w : Worker α) (wp : PostWorker α) (h : Helper α) (op : Op α) :
    (stepOp X w wp h op).1.imm = h.imm := by
  cases op <;> rfl

theorem stepMarg_out (X : Ext α) (w : Worker α) (h h' : Helper α) (θ : Theta α) (himm : h.imm = h'.imm) :
    (stepMarg X w h θ).2 = (stepMarg X w h' θ).2 := by
  simp [stepMarg, himm]

theorem stepPost_out (X : Ext α) (wp : PostWorker α) (h h' : Helper α) (θ : Theta α) (z : List α)
    (himm : h.imm = h'.imm) : (stepPost X wp h θ z).2 = (stepPost X wp h' θ z).2 := by
  simp [stepPost, himm]

theorem stepOp_out (X : Ext α) (w : Worker α) (wp : PostWorker α) (h h' : Helper α) (op : Op α)
    (himm : h.imm = h'.imm) : (stepOp X w wp h op).2 = (stepOp X w wp h' op).2 := by
  cases op with
  | marg θ => simp only [stepOp]; rw [stepMarg_out X w h h' θ himm]
  | post θ z => simp only [stepOp]; rw [stepPost_out X wp h h' θ z himm]

/-- a whole history: every output equals the fresh value, and the immutable part is unchanged -/
theorem runOps_spec (X : Ext α) (w : Worker α) (wp : PostWorker α) (scr0 : Scratch α) :
    ∀ (ops : List (Op α)) (h : Helper α),
      (runOps X w wp h ops).2 = ops.map (evalFresh X w wp h.imm scr0) ∧
      (runOps X w wp h ops).1.imm = h.imm := by
  intro ops
  induction ops with
  | nil => intro h; simp [runOps]
  | cons op rest ih =>
    intro h
    obtain ⟨h1, h2⟩ := ih (stepOp X w wp h op).1
    simp only [runOps, List.map_cons]
    refine ⟨?_, ?_⟩
    · rw [h1, stepOp_imm]
      rfl
    · rw [h2, stepOp_imm]

/-- one batch of marginal likelihoods on a helper in ANY state -/
theorem runMarg_spec (X : Ext α) (w : Worker α) (scr0 : Scratch α) :
    ∀ (θs : List (Theta α)) (h : Helper α),
      (runMarg X w h θs).2 = θs.map (llFresh X w h.imm scr0) ∧ (runMarg X w h θs).1.imm = h.imm := by
  intro θs
  induction θs with
  | nil => intro h; simp [runMarg]
  | cons θ rest ih =>
    intro h
    obtain ⟨h1, h2⟩ := ih (stepMarg X w h θ).1
    simp only [runMarg, List.map_cons]
    refine ⟨?_, ?_⟩
    · rw [h1, stepMarg_imm]
      rfl
    · rw [h2, stepMarg_imm]

/-- several batches, the `j`-th on the `j`-th helper, concatenated in task order -/
theorem runBatches_spec (X : Ext α) (w : Worker α) (scr0 : Scratch α) (i : Imm α) :
    ∀ (ps : List (List (Theta α))) (hs : List (Helper α)), hs.length = ps.length →
      (∀ h ∈ hs, h.imm = i) →
      runBatches X w hs ps = ps.flatten.map (llFresh X w i scr0) := by
  intro ps
  induction ps with
  | nil => intro hs hl _; cases hs <;> simp [runBatches]
  | cons p ps ih =>
    intro hs hl himm
    cases hs with
    | nil => simp at hl
    | cons h hs =>
      simp only [runBatches, List.flatten_cons, List.map_append]
      rw [(runMarg_spec X w scr0 p h).1, himm h List.mem_cons_self]
      rw [ih hs (by simpa using hl) (fun h' hh => himm h' (List.mem_cons_of_mem _ hh))]

theorem accepted_congr (acc : α → α → α → Bool) (mx : List α → α) (lls lls' uu : List α) (m : Nat)
    (h : lls = lls') : accepted acc mx lls uu m = accepted acc mx lls' uu m := by
  rw [h]

end Hist
