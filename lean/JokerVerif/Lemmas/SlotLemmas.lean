import JokerVerif.Model.Kernel
/-! The slot arithmetic of `CJokerHelper.__init__` (array writes at computed indices) refines the column-order
list `Kernel.slots`. Core Lean list reasoning only. -/
namespace Kernel
variable {α : Type}

/-- successive writes `acc[f i] := g i` for `i = 0 … n-1` -/
def writeAll (f : Nat → Nat) (g : Nat → α) : (n : Nat) → List α → List α
  | 0, acc => acc
  | n + 1, acc => (writeAll f g n acc).set (f n) (g n)

theorem writeAll_length (f : Nat → Nat) (g : Nat → α) (n : Nat) (acc : List α) :
    (writeAll f g n acc).length = acc.length := by
  induction n with
  | zero => rfl
  | succ n ih => simp [writeAll, ih]

/-- with an injective index map, position `f i` holds `g i` afterwards and untouched positions keep their value -/
theorem writeAll_get (f : Nat → Nat) (g : Nat → α) (hf : ∀ i j, f i = f j → i = j) :
    ∀ (n : Nat) (acc : List α) (j : Nat),
      (writeAll f g n acc)[j]? =
        if j < acc.length then
          (match (List.range n).find? (fun i => f i == j) with
           | some i => some (g i)
           | none => acc[j]?)
        else none := by
  intro n
  induction n with
  | zero => intro acc j; by_cases h : j < acc.length <;> simp [writeAll, h]
  | succ n ih =>
    intro acc j
    simp only [writeAll, List.getElem?_set, writeAll_length]
    by_cases hj : j < acc.length
    · simp only [hj, if_true]
      by_cases hfn : f n = j
      · subst hfn
        simp only [if_true]
        have : (List.range (n + 1)).find? (fun i => f i == f n) = some n := by
          rw [List.range_succ, List.find?_append]
          have h1 : (List.range n).find? (fun i => f i == f n) = none := by
            rw [List.find?_eq_none]
            intro i hi
            have : i < n := List.mem_range.mp hi
            intro h
            have := hf i n (by simpa using h)
            omega
          simp [h1]
        rw [this]
        simp [hj]
      · simp only [hfn, if_false]
        rw [ih acc j]
        simp only [hj, if_true]
        rw [List.range_succ, List.find?_append]
        cases h : (List.range n).find? (fun i => f i == j) with
        | some i => simp
        | none => simp [hfn]
    · simp only [hj, if_false]
      by_cases hfn : f n = j
      · subst hfn; simp [hj]
      · simp only [hfn, if_false]; rw [ih acc j]; simp [hj]

end Kernel

namespace Kernel
variable {α : Type}

theorem find_range_some (f : Nat → Nat) (hf : ∀ i j, f i = f j → i = j) (n i₀ j : Nat) (h0 : i₀ < n) (hj : f i₀ = j) :
    (List.range n).find? (fun i => f i == j) = some i₀ := by
  rw [List.find?_eq_some_iff_append]
  refine ⟨by simp [hj], List.range i₀, (List.range' (i₀ + 1) (n - i₀ - 1)), ?_, ?_⟩
  · have : n = i₀ + (1 + (n - i₀ - 1)) := by omega
    conv_lhs => rw [this, List.range_eq_range', ← List.range'_append_1 (s := 0) (m := i₀)]
    simp only [List.range_eq_range', Nat.zero_add, List.append_cancel_left_eq]
    rw [Nat.add_comm 1, List.range'_succ]
  · intro a ha
    have : a < i₀ := List.mem_range.mp ha
    simp only [Bool.not_eq_eq_eq_not, Bool.not_true, beq_eq_false_iff_ne, ne_eq]
    intro h
    have := hf a i₀ (by rw [hj]; exact h)
    omega

theorem find_range_none (f : Nat → Nat) (n j : Nat) (h : ∀ i, i < n → f i ≠ j) :
    (List.range n).find? (fun i => f i == j) = none := by
  rw [List.find?_eq_none]
  intro i hi
  simpa using h i (List.mem_range.mp hi)

/-- index `__init__` writes linear parameter number `i` of `['K', 'v0', 'v1', …]` to: `K ↦ 0`, `v0 ↦ 1`,
`v_l ↦ l + 1 + n_offsets` (the `j = i + n_offsets` of the code) -/
def initIndex (q i : Nat) : Nat := if i ≤ 1 then i else i + q

theorem initIndex_inj (q : Nat) : ∀ i j, initIndex q i = initIndex q j → i = j := by
  intro i j h; unfold initIndex at h; split at h <;> split at h <;> omega

/-- `mu` / `Lambda` exactly as `CJokerHelper.__init__` fills them: arrays of length `n_linear + n_offsets`
initialised to zero, offsets written at `2 + i`, then the linear parameters at `initIndex` -/
def slotsImp [Zero α] (pr : LinPrior α) : List (α × α) :=
  let q := pr.offsets.length
  let lin := pr.K :: pr.v0 :: pr.trend
  let base := List.replicate (lin.length + q + q) ((0 : α), (0 : α))
  let a1 := writeAll (fun i => 2 + i) (fun i => pr.offsets.getD i (0, 0)) q base
  writeAll (initIndex q) (fun i => lin.getD i (0, 0)) lin.length a1

end Kernel

namespace Kernel
variable {α : Type} [Zero α]

/-- pointwise: inside the first `n_linear` positions the arrays `__init__` fills hold exactly the column-order
slots -/
theorem slotsImp_get (pr : LinPrior α) (j : Nat) (hj : j < 2 + pr.offsets.length + pr.trend.length) :
    (slotsImp pr)[j]? = (slots pr)[j]? := by
  unfold slotsImp
  simp only
  set q := pr.offsets.length with hq
  set lin := pr.K :: pr.v0 :: pr.trend with hlin
  have hlen : lin.length = 2 + pr.trend.length := by simp [hlin]; omega
  set base := List.replicate (lin.length + q + q) ((0 : α), (0 : α)) with hbase
  have hbl : base.length = lin.length + q + q := by simp [hbase]
  set a1 := writeAll (fun i => 2 + i) (fun i => pr.offsets.getD i (0, 0)) q base with ha1
  have ha1l : a1.length = lin.length + q + q := by rw [ha1, writeAll_length, hbl]
  rw [writeAll_get (initIndex q) _ (initIndex_inj q) lin.length a1 j]
  have hjl : j < a1.length := by rw [ha1l, hlen]; omega
  simp only [hjl, if_true]
  by_cases h0 : j = 0
  · subst h0
    rw [find_range_some (initIndex q) (initIndex_inj q) lin.length 0 0 (by rw [hlen]; omega) (by simp [initIndex])]
    simp [hlin, slots]
  by_cases h1 : j = 1
  · subst h1
    rw [find_range_some (initIndex q) (initIndex_inj q) lin.length 1 1 (by rw [hlen]; omega) (by simp [initIndex])]
    simp [hlin, slots]
  by_cases h2 : j < 2 + q
  · -- an offset slot: untouched by the second loop, written by the first
    rw [find_range_none (initIndex q) lin.length j (by
      intro i _ h; unfold initIndex at h; split at h <;> omega)]
    simp only
    rw [ha1, writeAll_get (fun i => 2 + i) _ (by intro a b h; omega) q base j]
    have : j < base.length := by rw [hbl, hlen]; omega
    simp only [this, if_true]
    rw [find_range_some (fun i => 2 + i) (by intro a b h; omega) q (j - 2) j (by omega) (by omega)]
    have hj2 : j = (j - 2) + 1 + 1 := by omega
    have hlt : j - 2 < pr.offsets.length := by omega
    simp only [slots]
    rw [hj2]
    simp only [List.getElem?_cons_succ]
    rw [List.getElem?_append_left hlt, List.getD_eq_getElem?_getD, List.getElem?_eq_getElem hlt]
    simp [List.getElem?_eq_getElem hlt]
  · -- a trend slot v_l, l >= 1: written at i + q with i = j - q >= 2
    have hi : j - q < lin.length := by rw [hlen]; omega
    rw [find_range_some (initIndex q) (initIndex_inj q) lin.length (j - q) j hi (by
      unfold initIndex; split <;> omega)]
    simp only
    have hj2 : j = (j - 2) + 1 + 1 := by omega
    have hjq : j - q = (j - q - 2) + 1 + 1 := by omega
    have hlt : j - q - 2 < pr.trend.length := by omega
    simp only [slots]
    conv_rhs => rw [hj2]
    simp only [List.getElem?_cons_succ]
    rw [List.getElem?_append_right (by omega)]
    rw [hlin, hjq]
    simp only [List.getD_cons_succ]
    rw [List.getD_eq_getElem?_getD, List.getElem?_eq_getElem hlt]
    have : j - 2 - pr.offsets.length = j - q - 2 := by omega
    rw [this, List.getElem?_eq_getElem hlt]
    simp

end Kernel
