import JokerVerif.Model.Samples
import JokerVerif.Lemmas.DiagLemmas
import Mathlib.Algebra.Order.Floor.Ring
import Mathlib.Algebra.Order.Field.Basic
import Mathlib.Tactic.Ring
import Mathlib.Tactic.Linarith
import Mathlib.Tactic.FieldSimp

/-! Helper lemmas for C17: floored modulo, column-wise table operations, gather, median row, pack/unpack. -/
set_option linter.unusedSectionVars false
set_option linter.unusedVariables false
namespace Samples

/-! ### floored modulo -/
section fmod
variable {α : Type} [Field α] [LinearOrder α] [IsStrictOrderedRing α] [FloorRing α]

theorem fmod_eq (x m : α) : fmod Int.floor x m = x - (⌊x / m⌋ : α) * m := rfl

theorem fmod_nonneg (x : α) {m : α} (hm : 0 < m) : 0 ≤ fmod Int.floor x m := by
  rw [fmod_eq]
  have h := Int.floor_le (x / m)
  have : (⌊x / m⌋ : α) * m ≤ x := by
    have := mul_le_mul_of_nonneg_right h hm.le
    rwa [div_mul_cancel₀ x hm.ne'] at this
  linarith

theorem fmod_lt (x : α) {m : α} (hm : 0 < m) : fmod Int.floor x m < m := by
  rw [fmod_eq]
  have h := Int.lt_floor_add_one (x / m)
  have : x < ((⌊x / m⌋ : α) + 1) * m := by
    have := mul_lt_mul_of_pos_right h hm
    rwa [div_mul_cancel₀ x hm.ne'] at this
  linarith
end fmod

/-! ### column-wise operations -/
section table
variable {α : Type}

theorem mapM_except_forall₂ {β γ : Type} (f : β → Except String γ) :
    ∀ (l : List β) (out : List γ), l.mapM f = .ok out → List.Forall₂ (fun a b => f a = .ok b) l out := by
  intro l
  induction l with
  | nil =>
    intro out h
    simp only [List.mapM_nil, pure, Except.pure, Except.ok.injEq] at h
    subst h; exact List.Forall₂.nil
  | cons a l ih =>
    intro out h
    rw [List.mapM_cons] at h
    cases hfa : f a with
    | error e => rw [hfa] at h; simp [bind, Except.bind] at h
    | ok b =>
      rw [hfa] at h
      cases hl : l.mapM f with
      | error e => rw [hl] at h; simp [bind, Except.bind] at h
      | ok bs =>
        rw [hl] at h
        simp only [bind, Except.bind, pure, Except.pure, Except.ok.injEq] at h
        subst h
        exact List.Forall₂.cons hfa (ih bs hl)

/-- `mapCols` keeps the metadata, and column by column the name and the unit; the values of every column are the
SAME row operation applied to that column -/
theorem mapCols_spec (f : List α → Except String (List α)) (t t' : Table α) (h : mapCols f t = .ok t') :
    t'.md = t.md ∧
      List.Forall₂ (fun c c' => c'.name = c.name ∧ c'.unit = c.unit ∧ f c.vals = .ok c'.vals) t.cols t'.cols := by
  unfold mapCols at h
  cases hm : t.cols.mapM (fun c => do let v ← f c.vals; pure { c with vals := v }) with
  | error e => rw [hm] at h; simp [bind, Except.bind] at h
  | ok cols =>
    rw [hm] at h
    simp only [bind, Except.bind, pure, Except.pure, Except.ok.injEq] at h
    subst h
    refine ⟨rfl, ?_⟩
    have := mapM_except_forall₂ _ _ _ hm
    refine this.imp ?_
    intro c c' hc
    cases hv : f c.vals with
    | error e => rw [hv] at hc; simp [bind, Except.bind] at hc
    | ok v =>
      rw [hv] at hc
      simp only [bind, Except.bind, pure, Except.pure, Except.ok.injEq] at hc
      subst hc
      exact ⟨rfl, rfl, rfl⟩

theorem forall₂_headers {l l' : List (Col α)} {R : Col α → Col α → Prop}
    (hR : ∀ c c', R c c' → c'.name = c.name ∧ c'.unit = c.unit)
    (h : List.Forall₂ R l l') : l'.map Col.header = l.map Col.header := by
  induction h with
  | nil => rfl
  | cons hc _ ih =>
    obtain ⟨h1, h2⟩ := hR _ _ hc
    simp only [List.map_cons, ih, Col.header, h1, h2]

theorem mapCols_meta (f : List α → Except String (List α)) (t t' : Table α) (h : mapCols f t = .ok t') :
    t'.md = t.md ∧ t'.headers = t.headers := by
  obtain ⟨h1, h2⟩ := mapCols_spec f t t' h
  exact ⟨h1, forall₂_headers (fun c c' hc => ⟨hc.1, hc.2.1⟩) h2⟩

/-- `take` returns exactly the rows at the requested positions, in the requested order -/
theorem take_spec (idx : List Nat) (l out : List α) (h : take idx l = .ok out) :
    List.Forall₂ (fun i v => l[i]? = some v) idx out := by
  have := mapM_except_forall₂ _ _ _ h
  refine this.imp ?_
  intro i v hv
  cases hl : l[i]? with
  | none => simp [hl] at hv
  | some w => simp only [hl, Except.ok.injEq] at hv; rw [hv]

theorem bind_ok {β γ : Type} {x : Except String β} {f : β → Except String γ} {c : γ}
    (h : (x >>= f) = .ok c) : ∃ b, x = .ok b ∧ f b = .ok c := by
  cases x with
  | error e => simp [bind, Except.bind] at h
  | ok b => exact ⟨b, rfl, h⟩

/-! specification vocabulary of the indexing theorems -/

/-- `t'` consists of the rows `ks` of `t`, every column gathered at the SAME positions, with the names, units and
metadata of `t` -/
def RowsOf (t : Table α) (ks : List Nat) (t' : Table α) : Prop :=
  t'.md = t.md ∧
    List.Forall₂ (fun c c' => c'.name = c.name ∧ c'.unit = c.unit ∧
      List.Forall₂ (fun i v => c.vals[i]? = some v) ks c'.vals) t.cols t'.cols


theorem rowsOf_of_take (t t' : Table α) (ks : List Nat) (h : mapCols (take ks) t = .ok t') : RowsOf t ks t' := by
  obtain ⟨h1, h2⟩ := mapCols_spec _ t t' h
  exact ⟨h1, h2.imp fun _ _ hc => ⟨hc.1, hc.2.1, take_spec ks _ _ hc.2.2⟩⟩

theorem RowsOf.meta {t t' : Table α} {ks : List Nat} (h : RowsOf t ks t') :
    t'.md = t.md ∧ t'.headers = t.headers :=
  ⟨h.1, forall₂_headers (fun _ _ hc => ⟨hc.1, hc.2.1⟩) h.2⟩

theorem resolveIndex_spec (n : Nat) (i : Int) (k : Nat) (h : resolveIndex n i = .ok k) :
    k < n ∧ ((0 ≤ i ∧ (k : Int) = i) ∨ (i < 0 ∧ (k : Int) = i + n)) := by
  unfold resolveIndex at h
  split at h
  · simp only [Except.ok.injEq] at h; omega
  · split at h
    · simp only [Except.ok.injEq] at h; omega
    · cases h

end table

/-! ### slices -/
section slice
theorem slice_pos_bound (lo hi c i : Int) (n : Int) (hlo : 0 ≤ lo) (hhi : hi ≤ n) (hc : 0 < c) (hi0 : 0 ≤ i)
    (hi1 : i ≤ (hi - lo - 1) / c) : 0 ≤ lo + i * c ∧ lo + i * c < n := by
  have h1 : i * c ≤ ((hi - lo - 1) / c) * c := Int.mul_le_mul_of_nonneg_right hi1 hc.le
  have h2 : ((hi - lo - 1) / c) * c ≤ hi - lo - 1 := Int.ediv_mul_le _ hc.ne'
  have h3 : 0 ≤ i * c := Int.mul_nonneg hi0 hc.le
  constructor <;> omega

theorem slice_neg_bound (lo hi c i : Int) (n : Int) (hlo : lo ≤ n - 1) (hhi : -1 ≤ hi) (hc : c < 0) (hi0 : 0 ≤ i)
    (hi1 : i ≤ (lo - hi - 1) / (-c)) : 0 ≤ lo + i * c ∧ lo + i * c < n := by
  have hc' : 0 < -c := by omega
  have h1 : i * (-c) ≤ ((lo - hi - 1) / (-c)) * (-c) := Int.mul_le_mul_of_nonneg_right hi1 hc'.le
  have h2 : ((lo - hi - 1) / (-c)) * (-c) ≤ lo - hi - 1 := Int.ediv_mul_le _ hc'.ne'
  have h3 : 0 ≤ i * (-c) := Int.mul_nonneg hi0 hc'.le
  have h4 : i * (-c) = -(i * c) := by rw [Int.mul_neg]
  constructor <;> omega

theorem sliceStartStop_pos (n : Nat) (a b : Option Int) (c : Int) (hc : 0 < c) :
    0 ≤ (sliceStartStop n a b c).1 ∧ (sliceStartStop n a b c).2 ≤ n := by
  unfold sliceStartStop
  rw [if_pos hc]
  constructor
  · cases a with
    | none => simp
    | some s => simp only [Option.map_some, Option.getD_some, clampPos]; split <;> omega
  · cases b with
    | none => simp
    | some s => simp only [Option.map_some, Option.getD_some, clampPos]; split <;> omega

theorem sliceStartStop_neg (n : Nat) (a b : Option Int) (c : Int) (hc : ¬ 0 < c) :
    (sliceStartStop n a b c).1 ≤ (n : Int) - 1 ∧ -1 ≤ (sliceStartStop n a b c).2 := by
  unfold sliceStartStop
  rw [if_neg hc]
  constructor
  · cases a with
    | none => simp
    | some s => simp only [Option.map_some, Option.getD_some, clampNeg]; split <;> omega
  · cases b with
    | none => simp
    | some s => simp only [Option.map_some, Option.getD_some, clampNeg]; split <;> omega

/-- a slice never reaches outside the table -/
theorem sliceIndices_lt' (n : Nat) (a b : Option Int) (c : Int) (ks : List Nat)
    (h : sliceIndices n a b c = .ok ks) : ∀ k ∈ ks, k < n := by
  unfold sliceIndices at h
  split at h
  · cases h
  · rename_i hc0
    simp only [Except.ok.injEq] at h
    subst h
    intro k hk
    simp only [List.mem_map, List.mem_range] at hk
    obtain ⟨i, hi, rfl⟩ := hk
    unfold sliceLen at hi
    rcases lt_or_gt_of_ne hc0 with hc | hc
    · have hb := sliceStartStop_neg n a b c (by omega)
      rw [if_neg (by omega)] at hi
      split at hi
      · have := slice_neg_bound _ _ c i n hb.1 hb.2 hc (by omega) (by omega)
        omega
      · omega
    · have hb := sliceStartStop_pos n a b c hc
      rw [if_pos hc] at hi
      split at hi
      · have := slice_pos_bound _ _ c i n hb.1 hb.2 hc (by omega) (by omega)
        omega
      · omega
end slice

/-! ### the median row -/
section median
variable {α : Type} [LinearOrder α]

theorem medianValue_isSome {Ps : List α} (h : Ps ≠ []) : ∃ v, medianValue Ps = some v ∧ v ∈ Ps := by
  unfold medianValue
  have hlen : Ps.length / 2 < (Diag.isort Ps).length := by
    rw [Diag.isort_length]
    have : 0 < Ps.length := List.length_pos_iff.mpr h
    omega
  refine ⟨(Diag.isort Ps)[Ps.length / 2], List.getElem?_eq_getElem hlen, ?_⟩
  exact (Diag.isort_perm Ps).subset (List.getElem_mem hlen)

theorem mem_medianCandidates {Ps : List α} {i : Nat} :
    i ∈ medianCandidates Ps ↔ i < Ps.length ∧ ∃ v, medianValue Ps = some v ∧ Ps[i]? = some v := by
  unfold medianCandidates
  cases hm : medianValue Ps with
  | none => simp
  | some v => simp [List.mem_filter, List.mem_range]

theorem medianCandidates_ne_nil {Ps : List α} (h : Ps ≠ []) : medianCandidates Ps ≠ [] := by
  obtain ⟨v, hv, hmem⟩ := medianValue_isSome h
  obtain ⟨i, hi, hiv⟩ := List.getElem_of_mem hmem
  have : i ∈ medianCandidates Ps := by
    rw [mem_medianCandidates]
    exact ⟨hi, v, hv, by rw [List.getElem?_eq_getElem hi, hiv]⟩
  exact List.ne_nil_of_mem this
end median

/-! ### pack / unpack -/
section pack
variable {α : Type}

theorem filterMap_getElem?_row (cols : List (List α)) (r : Nat) (hr : ∀ c ∈ cols, r < c.length) (i : Nat) :
    (cols.filterMap (·[r]?))[i]? = cols[i]?.bind (·[r]?) := by
  induction cols generalizing i with
  | nil => simp
  | cons c cols ih =>
    have hc : r < c.length := hr c (List.mem_cons_self ..)
    have : c[r]? = some c[r] := List.getElem?_eq_getElem hc
    rw [List.filterMap_cons, this]
    cases i with
    | zero => simp [this]
    | succ i =>
      simp only [List.getElem?_cons_succ]
      exact ih (fun c' hc' => hr c' (List.mem_cons_of_mem _ hc')) i

theorem range_filterMap_getElem? (l : List α) : (List.range l.length).filterMap (fun r => l[r]?) = l := by
  apply List.ext_getElem?
  intro j
  induction l using List.reverseRecOn generalizing j with
  | nil => simp
  | append_singleton l a ih =>
    rw [List.length_append, List.length_singleton, List.range_succ, List.filterMap_append]
    have e1 : (List.range l.length).filterMap (fun r => (l ++ [a])[r]?) = (List.range l.length).filterMap (fun r => l[r]?) := by
      apply List.filterMap_congr
      intro r hr
      rw [List.getElem?_append_left (List.mem_range.mp hr)]
    have e2 : [l.length].filterMap (fun r => (l ++ [a])[r]?) = [a] := by simp
    rw [e1, e2]
    have e3 : (List.range l.length).filterMap (fun r => l[r]?) = l := List.ext_getElem? (fun j => ih j)
    rw [e3]

/-- reading column `i` back out of the stacked array gives column `i` -/
theorem stackCols_col (n : Nat) (cols : List (List α)) (rows : List (List α))
    (h : stackCols n cols = .ok rows) (i : Nat) (c : List α) (hc : cols[i]? = some c) :
    rows.filterMap (·[i]?) = c := by
  unfold stackCols at h
  split at h
  · rename_i hall
    simp only [Except.ok.injEq] at h
    subst h
    have hlen : ∀ c ∈ cols, c.length = n := by
      intro c hc; simpa using List.all_eq_true.mp hall c hc
    rw [List.filterMap_map]
    have hcn : c.length = n := hlen c (List.mem_of_getElem? hc)
    have : (List.range n).filterMap ((fun x : List α => x[i]?) ∘ fun r => cols.filterMap (·[r]?)) =
        (List.range c.length).filterMap (fun r => c[r]?) := by
      rw [hcn]
      apply List.filterMap_congr
      intro r hr
      simp only [Function.comp]
      rw [filterMap_getElem?_row cols r (fun c' hc' => by rw [hlen c' hc']; exact List.mem_range.mp hr) i, hc]
      rfl
    rw [this, range_filterMap_getElem?]
  · cases h

/-- unpacking a stacked array gives back the columns that were stacked, under the names and units given -/
theorem unpack_cols (n : Nat) (cols : List (String × QUnit α × List α)) (rows : List (List α)) (md : Meta α)
    (h : stackCols n (cols.map (·.2.2)) = .ok rows) :
    (unpack rows (cols.map fun c => (c.1, c.2.1)) md).cols =
      cols.map fun c => ({ name := c.1, unit := c.2.1, vals := c.2.2 } : Col α) := by
  unfold unpack
  simp only
  apply List.ext_getElem?
  intro j
  rw [List.getElem?_map, List.getElem?_zipIdx, List.getElem?_map, List.getElem?_map]
  cases hj : cols[j]? with
  | none => rfl
  | some c =>
    simp only [Option.map_some, Nat.zero_add]
    congr 2
    exact stackCols_col _ _ _ h j _ (by simp [List.getElem?_map, hj])
end pack

section convert
variable {α : Type} [Field α]

/-- conversion keeps the physical value: `v' · scale' = v · scale` -/
theorem convert_physical (src dst : QUnit α) (v : α) (h : dst.scale ≠ 0) :
    convert src dst v * dst.scale = v * src.scale := by
  unfold convert; field_simp

theorem convert_self (u : QUnit α) (v : α) (h : u.scale ≠ 0) : convert u u v = v := by
  unfold convert; field_simp
end convert

end Samples
