import JokerVerif.Model.Batch
/-! Helper lemmas for C16 (core Lean only). -/
namespace Batch

/-- chain: consecutive bounds, starting at `s` and ending at `e` -/
def Chain : List (Nat × Nat) → Nat → Nat → Prop
  | [], s, e => s = e
  | (a, b) :: rest, s, e => a = s ∧ Chain rest b e

theorem batchLoop_chain (base rmdr : Nat) : ∀ cnt i i1,
    Chain (batchLoop base rmdr i cnt i1) i1
      (i1 + cnt * base + (min (i + cnt) rmdr - min i rmdr)) := by
  intro cnt
  induction cnt with
  | zero => intro i i1; simp [batchLoop, Chain]
  | succ c ih =>
    intro i i1
    simp only [batchLoop, Chain, true_and]
    have := ih (i+1) (i1 + base + (if i < rmdr then 1 else 0))
    have e : i1 + (c + 1) * base + (min (i + (c + 1)) rmdr - min i rmdr)
        = (i1 + base + if i < rmdr then 1 else 0) + c * base + (min (i + 1 + c) rmdr - min (i + 1) rmdr) := by
      rw [Nat.succ_mul]
      generalize c * base = cb
      split <;> omega
    rw [e]; exact this

theorem batchLoop_sizes (base rmdr : Nat) : ∀ cnt i i1,
    ∀ p ∈ batchLoop base rmdr i cnt i1, p.2 = p.1 + base ∨ p.2 = p.1 + base + 1 := by
  intro cnt
  induction cnt with
  | zero => intro i i1 p hp; simp [batchLoop] at hp
  | succ c ih =>
    intro i i1 p hp
    simp only [batchLoop, List.mem_cons] at hp
    rcases hp with rfl | hp
    · simp only; split <;> simp
    · exact ih _ _ p hp

theorem batchLoop_length (base rmdr : Nat) : ∀ cnt i i1, (batchLoop base rmdr i cnt i1).length = cnt := by
  intro cnt
  induction cnt with
  | zero => intro i i1; simp [batchLoop]
  | succ c ih => intro i i1; simp [batchLoop, ih]

/-- a chain of non-decreasing pairs covers exactly the index range, in order -/
theorem chain_cover : ∀ (l : List (Nat × Nat)) (s e : Nat), Chain l s e → (∀ p ∈ l, p.1 ≤ p.2) →
    s ≤ e ∧ l.flatMap (fun p => List.range' p.1 (p.2 - p.1)) = List.range' s (e - s) := by
  intro l
  induction l with
  | nil => intro s e h _; simp [Chain] at h; subst h; simp
  | cons p rest ih =>
    intro s e h hle
    obtain ⟨a, b⟩ := p
    simp only [Chain] at h
    obtain ⟨rfl, hc⟩ := h
    have hab : a ≤ b := hle (a, b) (List.mem_cons_self)
    obtain ⟨hbe, hr⟩ := ih b e hc (fun q hq => hle q (List.mem_cons_of_mem _ hq))
    refine ⟨Nat.le_trans hab hbe, ?_⟩
    simp only [List.flatMap_cons, hr]
    have : e - a = (b - a) + (e - b) := by omega
    rw [this, ← List.range'_append_1]
    congr 2; omega

theorem pySlice_append {α : Type} (arr : List α) (a b c : Nat) (hab : a ≤ b) (hbc : b ≤ c) :
    pySlice arr a b ++ pySlice arr b c = pySlice arr a c := by
  unfold pySlice
  have h1 : c - a = (b - a) + (c - b) := by omega
  rw [h1, List.take_add, List.drop_drop]
  congr 3; omega

/-- a chain of non-decreasing pairs slices an array into consecutive pieces whose concatenation is the slice -/
theorem chain_slices {α : Type} (arr : List α) : ∀ (l : List (Nat × Nat)) (s e : Nat), Chain l s e →
    (∀ p ∈ l, p.1 ≤ p.2) →
    s ≤ e ∧ l.flatMap (fun p => pySlice arr p.1 p.2) = pySlice arr s e := by
  intro l
  induction l with
  | nil => intro s e h _; simp [Chain] at h; subst h; simp [pySlice]
  | cons p rest ih =>
    intro s e h hle
    obtain ⟨a, b⟩ := p
    simp only [Chain] at h
    obtain ⟨rfl, hc⟩ := h
    have hab : a ≤ b := hle (a, b) (List.mem_cons_self)
    obtain ⟨hbe, hr⟩ := ih b e hc (fun q hq => hle q (List.mem_cons_of_mem _ hq))
    refine ⟨Nat.le_trans hab hbe, ?_⟩
    simp only [List.flatMap_cons, hr]
    exact pySlice_append arr a b e hab hbe

/-- number of batches whose half-open range `[p.1, p.2)` contains the index `k` -/
def owners (l : List (Nat × Nat)) (k : Nat) : Nat := (l.filter fun p => decide (p.1 ≤ k ∧ k < p.2)).length

theorem chain_owners : ∀ (l : List (Nat × Nat)) (s e : Nat), Chain l s e → (∀ p ∈ l, p.1 ≤ p.2) →
    ∀ k, owners l k = if s ≤ k ∧ k < e then 1 else 0 := by
  intro l
  induction l with
  | nil => intro s e h _ k; simp [Chain] at h; subst h; simp [owners]
  | cons p rest ih =>
    intro s e h hle k
    obtain ⟨a, b⟩ := p
    simp only [Chain] at h
    obtain ⟨rfl, hc⟩ := h
    have hab : a ≤ b := hle (a, b) (List.mem_cons_self)
    have hbe := (chain_cover rest b e hc (fun q hq => hle q (List.mem_cons_of_mem _ hq))).1
    have hr := ih b e hc (fun q hq => hle q (List.mem_cons_of_mem _ hq)) k
    unfold owners at hr ⊢
    simp only [List.filter_cons]
    by_cases h1 : a ≤ k ∧ k < b
    · simp only [h1, and_self, decide_true, if_true, List.length_cons, hr]
      have : ¬ (b ≤ k ∧ k < e) := by omega
      simp [this]; omega
    · simp only [h1, decide_false, Bool.false_eq_true, if_false, hr]
      by_cases h2 : b ≤ k ∧ k < e
      · have : a ≤ k ∧ k < e := by omega
        simp [h2, this]
      · have : ¬ (a ≤ k ∧ k < e) := by omega
        simp [h2, this]

end Batch
