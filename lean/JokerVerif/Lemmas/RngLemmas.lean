import JokerVerif.Model.Rng
/-! Helper lemmas for C10 (core Lean only). -/
namespace Rng

theorem run_append (g : Gen) (a b : List Ev) :
    run g (a ++ b) = ((run (run g a).1 b).1, (run g a).2 ++ (run (run g a).1 b).2) := by
  induction a generalizing g with
  | nil => simp [run]
  | cons e es ih => simp [run, ih]

theorem step_key (g : Gen) (e : Ev) : (step g e).1.ss.key = g.ss.key ∧ (step g e).1.ss.entropy = g.ss.entropy := by
  cases e <;> simp [step, spawn]

theorem step_nSpawned_le (g : Gen) (e : Ev) : g.ss.nSpawned ≤ (step g e).1.ss.nSpawned := by
  cases e <;> simp [step, spawn]

theorem step_pos_le (g : Gen) (e : Ev) : g.pos ≤ (step g e).1.pos := by
  cases e <;> simp [step]

/-- every child key has the form `parent key ++ [j]` with `j` at or above the parent's counter, and all keys
handed out over the history are pairwise different -/
theorem run_key_form (evs : List Ev) : ∀ (g : Gen),
    (∀ c ∈ kidsOf (run g evs).2, ∃ j, g.ss.nSpawned ≤ j ∧ c.key = g.ss.key ++ [j] ∧ c.entropy = g.ss.entropy) ∧
    ((kidsOf (run g evs).2).map (·.key)).Nodup := by
  induction evs with
  | nil => intro g; simp [run, kidsOf]
  | cons e es ih =>
    intro g
    cases e with
    | draw n =>
      obtain ⟨ihform, ihnd⟩ := ih (step g (.draw n)).1
      simp only [run, kidsOf, step] at ihform ihnd ⊢
      exact ⟨ihform, ihnd⟩
    | spawn m =>
      obtain ⟨ihform, ihnd⟩ := ih (step g (.spawn m)).1
      simp only [run, kidsOf, step, spawn] at ihform ihnd ⊢
      refine ⟨?_, ?_⟩
      · intro c hc
        rcases List.mem_append.mp hc with hk | hr
        · obtain ⟨i, _, rfl⟩ := List.mem_map.mp hk
          exact ⟨g.ss.nSpawned + i, Nat.le_add_right _ _, rfl, rfl⟩
        · obtain ⟨j, hj, hkey, hent⟩ := ihform c hr
          exact ⟨j, Nat.le_trans (Nat.le_add_right _ _) hj, hkey, hent⟩
      · rw [List.map_append, List.nodup_append]
        refine ⟨?_, ihnd, ?_⟩
        · rw [List.map_map]
          show List.Pairwise (· ≠ ·) _
          rw [List.pairwise_map]
          refine (List.nodup_range (n := m)).imp ?_
          intro a b hab h
          simp only [Function.comp] at h
          have := List.append_cancel_left h
          simp at this
          exact hab this
        · intro k1 hk1 k2 hk2
          obtain ⟨c1, hc1, rfl⟩ := List.mem_map.mp hk1
          obtain ⟨i, hi, rfl⟩ := List.mem_map.mp hc1
          obtain ⟨c2, hc2, rfl⟩ := List.mem_map.mp hk2
          obtain ⟨j, hj, hkey, _⟩ := ihform c2 hc2
          rw [hkey]
          intro h
          have := List.append_cancel_left h
          simp at this
          have hj' : g.ss.nSpawned + m ≤ j := hj
          have hi' := List.mem_range.mp hi
          omega

/-- segments handed out by the parent: each starts at or after the current position, consecutive ones are
ordered, and the final position is the initial one plus everything drawn -/
theorem run_segments (evs : List Ev) : ∀ (g : Gen),
    (∀ sg ∈ segmentsOf (run g evs).2, g.pos ≤ sg.1 ∧ sg.1 + sg.2 ≤ (run g evs).1.pos) ∧
    (segmentsOf (run g evs).2).Pairwise (fun a b => a.1 + a.2 ≤ b.1) ∧
    (run g evs).1.pos = g.pos + drawn evs ∧
    (run g evs).1.ss.nSpawned = g.ss.nSpawned + spawned evs := by
  induction evs with
  | nil => intro g; simp [run, segmentsOf, drawn, spawned]
  | cons e es ih =>
    intro g
    cases e with
    | draw n =>
      obtain ⟨h1, h2, h3, h4⟩ := ih (step g (.draw n)).1
      simp only [run, segmentsOf, step, drawn, spawned] at h1 h2 h3 h4 ⊢
      refine ⟨?_, ?_, ?_, ?_⟩
      · intro sg hsg
        rcases List.mem_cons.mp hsg with rfl | hin
        · simp only; omega
        · have := h1 sg hin; omega
      · rw [List.pairwise_cons]
        refine ⟨?_, h2⟩
        intro sg hin
        have := h1 sg hin
        simp only; omega
      · omega
      · exact h4
    | spawn m =>
      obtain ⟨h1, h2, h3, h4⟩ := ih (step g (.spawn m)).1
      simp only [run, segmentsOf, step, spawn, drawn, spawned] at h1 h2 h3 h4 ⊢
      exact ⟨h1, h2, h3, by omega⟩

end Rng
