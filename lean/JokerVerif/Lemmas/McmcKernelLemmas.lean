import JokerVerif.Props.C04
import JokerVerif.Lemmas.McmcLemmas
/-! Helper lemmas joining the MCMC model (C11) to the kernel model (C01/C03/C04). -/
open Matrix

namespace Mcmc

theorem polySum_eq_polyFrom (dt : ℝ) : ∀ (cs : List ℝ) (l0 : ℕ), polySum dt cs (dt ^ l0) = Kernel.polyFrom dt l0 cs := by
  intro cs
  induction cs with
  | nil => intro l0; rfl
  | cons c cs ih =>
    intro l0
    simp only [polySum, Kernel.polyFrom]
    rw [← pow_succ, ih (l0 + 1)]

theorem rowDot_ofFn : ∀ {k : ℕ} (a b : Fin k → ℝ), Kernel.rowDot (List.ofFn a) (List.ofFn b) = a ⬝ᵥ b := by
  intro k
  induction k with
  | zero => intro a b; simp [Kernel.rowDot, dotProduct]
  | succ k ih =>
    intro a b
    rw [List.ofFn_succ, List.ofFn_succ, Kernel.rowDot_cons, ih]
    simp [dotProduct, Fin.sum_univ_succ]

/-- the unit-amplitude Kepler term the sampler's design matrix holds at time offset `x` -/
noncomputable def kepTerm (ta : ℝ → ℝ → ℝ) (p : Par ℝ) (x : ℝ) : ℝ :=
  Real.cos (p.omega + ta (samplerMeanAnomaly (realFn ta) p.P p.M0 x) p.e) + p.e * Real.cos p.omega

/-- a normal with diagonal covariance is a product of univariate normals -/
theorem lnN_diagonal {n : ℕ} (y m v : Fin n → ℝ) (hv : ∀ i, 0 < v i) :
    Kernel.lnN y m (diagonal v) =
      ∑ i, (-((y i - m i) * (y i - m i)) / (2 * v i) - Real.log (2 * Real.pi * v i) / 2) := by
  unfold Kernel.lnN
  rw [KernelLemmas.inv_diag v (fun i => (hv i).ne'), det_diagonal]
  have hprod : (2 * Real.pi) ^ n * ∏ i, v i = ∏ i : Fin n, (2 * Real.pi * v i) := by
    rw [Finset.prod_mul_distrib, Finset.prod_const, Finset.card_univ, Fintype.card_fin]
  have hne : ∀ i ∈ (Finset.univ : Finset (Fin n)), 2 * Real.pi * v i ≠ 0 := fun i _ =>
    (mul_pos (mul_pos two_pos Real.pi_pos) (hv i)).ne'
  rw [hprod, Real.log_prod hne]
  simp only [dotProduct, mulVec_diagonal, Pi.sub_apply]
  rw [mul_add, Finset.mul_sum, Finset.mul_sum, ← Finset.sum_add_distrib]
  apply Finset.sum_congr rfl
  intro i _
  have := (hv i).ne'
  field_simp
  ring

end Mcmc
