import JokerVerif.Model.Data
import Mathlib.Data.List.Basic
import Mathlib.Data.List.Perm.Basic
import Mathlib.Data.List.Perm.Subperm
import Mathlib.Data.List.Induction
import Mathlib.Order.Basic
import Mathlib.Data.Nat.Basic
import Mathlib.Data.List.Nodup
/-! Helper lemmas for C15 / C08: parallel arrays under a common mask and a common index array. -/
namespace Data
variable {α β γ δ τ ν κ υ : Type}

/-! ### mask / gather commute with zip and map -/

theorem maskSel_zip : ∀ (keep : List Bool) (xs : List β) (ys : List γ),
    maskSel keep (xs.zip ys) = (maskSel keep xs).zip (maskSel keep ys)
  | [], xs, ys => by cases xs <;> cases ys <;> simp [maskSel]
  | k :: ks, [], ys => by cases k <;> simp [maskSel]
  | k :: ks, x :: xs, [] => by
      cases k
      · simp [maskSel]
      · simp [maskSel]
  | k :: ks, x :: xs, y :: ys => by
      cases k <;> simp [maskSel, maskSel_zip ks xs ys]

theorem maskSel_map (f : β → γ) : ∀ (keep : List Bool) (xs : List β),
    maskSel keep (xs.map f) = (maskSel keep xs).map f
  | [], xs => by cases xs <;> simp [maskSel]
  | k :: ks, [] => by cases k <;> simp [maskSel]
  | k :: ks, x :: xs => by cases k <;> simp [maskSel, maskSel_map f ks xs]

theorem gather_map (f : β → γ) (idx : List Nat) (xs : List β) :
    gather idx (xs.map f) = (gather idx xs).map f := by
  unfold gather
  rw [List.map_filterMap]
  simp only [List.getElem?_map]

theorem gather_zip (idx : List Nat) (xs : List β) (ys : List γ) (h : xs.length = ys.length) :
    gather idx (xs.zip ys) = (gather idx xs).zip (gather idx ys) := by
  induction idx with
  | nil => simp [gather]
  | cons i idx ih =>
    simp only [gather, List.filterMap_cons] at ih ⊢
    by_cases hi : i < xs.length
    · have hi' : i < ys.length := h ▸ hi
      have hz : i < (xs.zip ys).length := by rw [List.length_zip]; omega
      simp [List.getElem?_eq_getElem hi, List.getElem?_eq_getElem hi', List.getElem?_eq_getElem hz, ih]
    · have hi' : ¬ i < ys.length := h ▸ hi
      have hz : ¬ i < (xs.zip ys).length := by simp [List.length_zip]; omega
      simp [List.getElem?_eq_none (Nat.le_of_not_lt hi), List.getElem?_eq_none (Nat.le_of_not_lt hi'),
        List.getElem?_eq_none (Nat.le_of_not_lt hz), ih]

theorem maskSel_length_eq (keep : List Bool) : ∀ (xs : List β) (ys : List γ), xs.length = ys.length →
    (maskSel keep xs).length = (maskSel keep ys).length := by
  induction keep with
  | nil => intro xs ys _; cases xs <;> cases ys <;> simp [maskSel]
  | cons k ks ih =>
    intro xs ys h
    cases xs with
    | nil => cases ys with
      | nil => cases k <;> simp [maskSel]
      | cons y ys => simp at h
    | cons x xs => cases ys with
      | nil => simp at h
      | cons y ys =>
        have := ih xs ys (by simpa using h)
        cases k <;> simp [maskSel, this]

theorem gather_nil (xs : List β) : gather [] xs = [] := rfl

theorem gather_cons (i : Nat) (idx : List Nat) (xs : List β) :
    gather (i :: idx) xs = (xs[i]?).toList ++ gather idx xs := by
  simp only [gather, List.filterMap_cons]
  cases xs[i]? <;> simp

theorem gather_append (a b : List Nat) (xs : List β) : gather (a ++ b) xs = gather a xs ++ gather b xs := by
  simp [gather, List.filterMap_append]

/-- indices in range: `gather` is a plain `map` -/
theorem gather_eq_map (idx : List Nat) (xs : List β) (h : ∀ i ∈ idx, i < xs.length) :
    (gather idx xs).map some = idx.map (fun i => xs[i]?) := by
  induction idx with
  | nil => simp [gather]
  | cons i idx ih =>
    have hi : i < xs.length := h i (List.mem_cons_self)
    rw [gather_cons, List.map_append, ih (fun j hj => h j (List.mem_cons_of_mem _ hj))]
    simp [List.getElem?_eq_getElem hi]

theorem gather_length (idx : List Nat) (xs : List β) (h : ∀ i ∈ idx, i < xs.length) :
    (gather idx xs).length = idx.length := by
  have := congrArg List.length (gather_eq_map idx xs h)
  simpa using this

theorem gather_getElem? (idx : List Nat) (xs : List β) (h : ∀ i ∈ idx, i < xs.length) (r : Nat) :
    (gather idx xs)[r]? = (idx[r]?).bind (fun i => xs[i]?) := by
  have := congrArg (fun l => l[r]?) (gather_eq_map idx xs h)
  simp only [List.getElem?_map] at this
  cases hg : (gather idx xs)[r]? <;> cases hi : idx[r]? <;> simp_all

/-- composing index arrays -/
theorem gather_gather (perm idx : List Nat) (xs : List β) (h : ∀ i ∈ idx, i < xs.length) :
    gather perm (gather idx xs) = gather (gather perm idx) xs := by
  induction perm with
  | nil => simp [gather]
  | cons r perm ih =>
    rw [gather_cons, gather_cons, gather_append, ih]
    congr 1
    rw [gather_getElem? idx xs h r]
    cases hr : idx[r]? with
    | none => simp [gather]
    | some i => simp [gather_cons, gather_nil]

/-! ### a mask is an index array -/

theorem maskSel_nil_right : ∀ keep : List Bool, maskSel keep ([] : List β) = []
  | [] => rfl
  | true :: _ => rfl
  | false :: _ => rfl

theorem gather_out_of_range (idx : List Nat) (xs : List β) (h : ∀ i ∈ idx, xs.length ≤ i) :
    gather idx xs = [] := by
  induction idx with
  | nil => rfl
  | cons i idx ih =>
    rw [gather_cons, ih (fun j hj => h j (List.mem_cons_of_mem _ hj))]
    simp [List.getElem?_eq_none (h i List.mem_cons_self)]

theorem keptIdxFrom_bound : ∀ (keep : List Bool) (s : Nat), ∀ i ∈ keptIdxFrom s keep, s ≤ i ∧ i < s + keep.length
  | [], s => by simp [keptIdxFrom]
  | k :: ks, s => by
    intro i hi
    cases k
    · simp only [keptIdxFrom] at hi
      have := keptIdxFrom_bound ks (s + 1) i hi
      simp only [List.length_cons]; omega
    · simp only [keptIdxFrom, List.mem_cons] at hi
      rcases hi with rfl | hi
      · simp
      · have := keptIdxFrom_bound ks (s + 1) i hi
        simp only [List.length_cons]; omega

theorem keptIdxFrom_spec : ∀ (keep : List Bool) (pre xs : List β),
    gather (keptIdxFrom pre.length keep) (pre ++ xs) = maskSel keep xs := by
  intro keep
  induction keep with
  | nil => intro pre xs; simp [keptIdxFrom, gather, maskSel]
  | cons k ks ih =>
    intro pre xs
    cases xs with
    | nil =>
      rw [maskSel_nil_right]
      apply gather_out_of_range
      intro i hi
      have := (keptIdxFrom_bound (k :: ks) pre.length i hi).1
      simpa using this
    | cons x xs =>
      have e : pre ++ x :: xs = (pre ++ [x]) ++ xs := by simp
      have l : (pre ++ [x]).length = pre.length + 1 := by simp
      have := ih (pre ++ [x]) xs
      rw [l, ← e] at this
      cases k
      · simp only [keptIdxFrom, maskSel]; exact this
      · simp only [keptIdxFrom, maskSel, gather_cons, this]
        simp

/-- `arr[mask] = arr[positions where mask]` -/
theorem maskSel_eq_gather (keep : List Bool) (xs : List β) : maskSel keep xs = gather (keptIdx keep) xs := by
  have := keptIdxFrom_spec keep ([] : List β) xs
  simpa [keptIdx] using this.symm

theorem keptIdx_bound (keep : List Bool) : ∀ i ∈ keptIdx keep, i < keep.length := by
  intro i hi
  have := keptIdxFrom_bound keep 0 i hi
  omega

theorem keptIdxFrom_sorted : ∀ (keep : List Bool) (s : Nat), (keptIdxFrom s keep).Pairwise (· < ·)
  | [], s => by simp [keptIdxFrom]
  | k :: ks, s => by
    cases k
    · simpa [keptIdxFrom] using keptIdxFrom_sorted ks (s + 1)
    · simp only [keptIdxFrom, List.pairwise_cons]
      refine ⟨?_, keptIdxFrom_sorted ks (s + 1)⟩
      intro j hj
      have := keptIdxFrom_bound ks (s + 1) j hj
      omega

/-- a mask computed elementwise selects exactly the elements satisfying the predicate -/
theorem maskSel_map_eq_filter (p : β → Bool) : ∀ xs : List β, maskSel (xs.map p) xs = xs.filter p
  | [] => by simp [maskSel]
  | x :: xs => by
    cases h : p x <;> simp [maskSel, h, maskSel_map_eq_filter p xs]

theorem maskSel_replicate_true : ∀ (n : Nat) (xs : List β), xs.length = n →
    maskSel (List.replicate n true) xs = xs
  | 0, xs, h => by cases xs <;> simp_all [maskSel]
  | n + 1, [], h => by simp at h
  | n + 1, x :: xs, h => by
    simp only [List.replicate_succ, maskSel]
    rw [maskSel_replicate_true n xs (by simpa using h)]

theorem maskSel_all_true (ts : List γ) (xs : List β) (h : xs.length = ts.length) :
    maskSel (ts.map (fun _ => true)) xs = xs := by
  rw [List.map_const']
  exact maskSel_replicate_true _ xs h

/-! ### permutations -/

theorem gather_range (xs : List β) : gather (List.range xs.length) xs = xs := by
  induction xs using List.reverseRec with
  | nil => simp [gather]
  | append_singleton xs x ih =>
    simp only [gather, List.length_append, List.length_singleton, List.range_succ, List.filterMap_append] at ih ⊢
    have : List.filterMap (fun i => (xs ++ [x])[i]?) (List.range xs.length) = xs := by
      have e : List.filterMap (fun i => (xs ++ [x])[i]?) (List.range xs.length)
          = List.filterMap (fun i => xs[i]?) (List.range xs.length) := by
        apply List.filterMap_congr
        intro i hi
        have := List.mem_range.mp hi
        simp [List.getElem?_append_left this]
      rw [e]; exact ih
    rw [this]; simp

/-- index array a permutation of the positions ⇒ output a permutation of the input: nothing lost,
duplicated or invented -/
theorem gather_perm (idx : List Nat) (xs : List β) (h : idx.Perm (List.range xs.length)) :
    (gather idx xs).Perm xs := by
  have := h.filterMap (fun i => xs[i]?)
  rw [show List.filterMap (fun i => xs[i]?) (List.range xs.length) = xs from gather_range xs] at this
  exact this

theorem gather_perm_of_perm (a b : List Nat) (xs : List β) (h : a.Perm b) : (gather a xs).Perm (gather b xs) :=
  h.filterMap _

theorem isPermOfRange_perm (perm : List Nat) (m : Nat) (h : isPermOfRange perm m = true) :
    perm.Perm (List.range m) := by
  unfold isPermOfRange at h
  simp only [Bool.and_eq_true, beq_iff_eq, List.all_eq_true, List.mem_range, List.contains_iff_mem] at h
  have hsub : List.range m ⊆ perm := fun i hi => h.2 i (List.mem_range.mp hi)
  have := (List.subperm_of_subset List.nodup_range hsub).perm_of_length_le (by simp [h.1])
  exact this.symm

theorem perm_lt_of_isPermOfRange (perm : List Nat) (m : Nat) (h : isPermOfRange perm m = true) :
    ∀ i ∈ perm, i < m := by
  intro i hi
  have := (isPermOfRange_perm perm m h).mem_iff.mp hi
  exact List.mem_range.mp this

theorem isSorted_pairwise (le : τ → τ → Bool) (htrans : ∀ a b c, le a b = true → le b c = true → le a c = true) :
    ∀ l : List τ, isSorted le l = true → l.Pairwise (fun a b => le a b = true)
  | [] => by simp
  | [a] => by simp
  | a :: b :: r => by
    intro h
    simp only [isSorted, Bool.and_eq_true] at h
    have ih := isSorted_pairwise le htrans (b :: r) h.2
    rw [List.pairwise_cons]
    refine ⟨?_, ih⟩
    intro c hc
    rcases List.mem_cons.mp hc with rfl | hc
    · exact h.1
    · exact htrans a b c h.1 ((List.pairwise_cons.mp ih).1 c hc)

theorem pairwise_isSorted (le : τ → τ → Bool) :
    ∀ l : List τ, l.Pairwise (fun a b => le a b = true) → isSorted le l = true
  | [] => by simp [isSorted]
  | [a] => by simp [isSorted]
  | a :: b :: r => by
    intro h
    rw [List.pairwise_cons] at h
    simp only [isSorted, Bool.and_eq_true]
    exact ⟨h.1 b (List.mem_cons_self), pairwise_isSorted le (b :: r) h.2⟩

/-! ### membership -/

theorem mem_gather (idx : List Nat) (xs : List β) (x : β) (h : x ∈ gather idx xs) : x ∈ xs := by
  unfold gather at h
  rw [List.mem_filterMap] at h
  obtain ⟨i, _, hi⟩ := h
  exact List.mem_of_getElem? hi

theorem mem_maskSel : ∀ (keep : List Bool) (xs : List β) (x : β), x ∈ maskSel keep xs → x ∈ xs := by
  intro keep xs x h
  rw [maskSel_eq_gather] at h
  exact mem_gather _ _ _ h

/-! ### the selection list: all arrays of an `RVData` are indexed by one list of input positions -/

theorem gather_maskSel (keep : List Bool) (perm : List Nat) (xs : List β) (h : keep.length ≤ xs.length) :
    gather perm (maskSel keep xs) = gather (selection keep perm) xs := by
  rw [maskSel_eq_gather, gather_gather]
  · rfl
  · intro i hi
    have := keptIdx_bound keep i hi
    omega

theorem selection_lt (keep : List Bool) (perm : List Nat) : ∀ i ∈ selection keep perm, i < keep.length := by
  intro i hi
  exact keptIdx_bound keep i (mem_gather _ _ _ hi)

theorem keptIdx_length (keep : List Bool) : ∀ (xs : List β), keep.length = xs.length →
    (keptIdx keep).length = (maskSel keep xs).length := by
  intro xs h
  rw [maskSel_eq_gather, gather_length]
  intro i hi
  have := keptIdx_bound keep i hi
  omega

/-- an accepted permutation selects a permutation of the kept positions -/
theorem selection_perm (keep : List Bool) (perm : List Nat)
    (h : isPermOfRange perm (keptIdx keep).length = true) : (selection keep perm).Perm (keptIdx keep) :=
  gather_perm perm (keptIdx keep) (isPermOfRange_perm _ _ h)

theorem entry_gather (idx : List Nat) (c : Cov ν) (n : Nat) (hc : c.length = n) (hrow : ∀ row ∈ c, row.length = n)
    (hidx : ∀ i ∈ idx, i < n) (i j : Nat) :
    entry ((gather idx c).map (gather idx)) i j
      = (idx[i]?).bind (fun a => (idx[j]?).bind (fun b => entry c a b)) := by
  unfold entry
  rw [List.getElem?_map, gather_getElem? idx c (by intro a ha; rw [hc]; exact hidx a ha)]
  cases hi : idx[i]? with
  | none => simp
  | some a =>
    have ha : a < c.length := by rw [hc]; exact hidx a (List.mem_of_getElem? hi)
    simp only [Option.bind_some, List.getElem?_eq_getElem ha, Option.map_some]
    have hr : (c[a]).length = n := hrow _ (List.getElem_mem ha)
    rw [gather_getElem? idx (c[a]) (by intro b hb; rw [hr]; exact hidx b hb)]

/-! ### `keepMask` -/

theorem shapeOk_std {ts : List τ} {rvs : List ν} {e : List ν} (h : shapeOk ts rvs (.std e) = true) :
    e.length = rvs.length ∧ ts.length = rvs.length := by
  simpa [shapeOk] using h

theorem shapeOk_cov {ts : List τ} {rvs : List ν} {c : Cov ν} (h : shapeOk ts rvs (.cov c) = true) :
    c.length = rvs.length ∧ (∀ row ∈ c, row.length = rvs.length) ∧ ts.length = rvs.length := by
  simp only [shapeOk, Bool.and_eq_true, beq_iff_eq, List.all_eq_true] at h
  exact ⟨h.1.1, h.1.2, h.2⟩

theorem shapeOk_t {ts : List τ} {rvs : List ν} {unc : Unc ν} (h : shapeOk ts rvs unc = true) :
    ts.length = rvs.length := by
  cases unc with
  | std e => exact (shapeOk_std h).2
  | cov c => exact (shapeOk_cov h).2.2

theorem keepMask_length (fint : τ → Bool) (finv : ν → Bool) (clean : Bool) (ts : List τ) (rvs : List ν)
    (unc : Unc ν) (h : shapeOk ts rvs unc = true) : (keepMask fint finv clean ts rvs unc).length = rvs.length := by
  have ht := shapeOk_t h
  unfold keepMask
  split
  · cases unc with
    | std e =>
      have := shapeOk_std h
      simp only [finMask, List.length_map, List.length_zip]; omega
    | cov c =>
      simp only [finMask, List.length_map, List.length_zipIdx, List.length_zip]; omega
  · simp [ht]

/-! ### what `init` returns -/

/-- `init` succeeded: the checks passed and every output array is the input array indexed by the one
selection list -/
theorem init_ok (fint : τ → Bool) (finv : ν → Bool) (le : τ → τ → Bool)
    (ts : List τ) (rvs : List ν) (unc : Unc ν) (uRv uErr : υ) (clean : Bool) (tref : TRefArg τ) (perm : List Nat)
    (d : RV τ ν υ) (h : init fint finv le ts rvs unc uRv uErr clean tref perm = .ok d) :
    let keep := keepMask fint finv clean ts rvs unc
    shapeOk ts rvs unc = true ∧ validPerm le (maskSel keep ts) perm = true ∧
    d.t = gather (selection keep perm) ts ∧ d.rv = gather (selection keep perm) rvs ∧
    d.unc = (unc.mask keep).gather perm ∧ d.rvUnit = uRv ∧ d.errUnit = uErr ∧
    resolveTRef d.t tref = .ok d.tref := by
  intro keep
  unfold init at h
  split at h
  · cases h
  · rename_i hs
    have hs : shapeOk ts rvs unc = true := by simpa using hs
    simp only [] at h
    split at h
    · cases h
    · rename_i hv
      have hv : validPerm le (maskSel keep ts) perm = true := by simpa using hv
      have hk : keep.length = rvs.length := keepMask_length fint finv clean ts rvs unc hs
      have ht := shapeOk_t hs
      split at h
      · cases h
      · rename_i r hr
        injection h with h
        subst h
        refine ⟨hs, hv, ?_, ?_, rfl, rfl, rfl, ?_⟩
        · exact gather_maskSel keep perm ts (by omega)
        · exact gather_maskSel keep perm rvs (by omega)
        · exact hr

theorem unc_std_gather (keep : List Bool) (perm : List Nat) (e : List ν) (h : keep.length ≤ e.length) :
    ((Unc.std e).mask keep).gather perm = .std (gather (selection keep perm) e) := by
  simp only [Unc.mask, Unc.gather, gather_maskSel keep perm e h]

theorem unc_cov_gather (keep : List Bool) (perm : List Nat) (c : Cov ν) (h : keep.length ≤ c.length)
    (hrow : ∀ row ∈ c, keep.length ≤ row.length) :
    ((Unc.cov c).mask keep).gather perm
      = .cov ((gather (selection keep perm) c).map (gather (selection keep perm))) := by
  simp only [Unc.mask, Unc.gather]
  rw [gather_map, gather_maskSel keep perm c h, List.map_map]
  congr 1
  apply List.map_congr_left
  intro row hr
  exact gather_maskSel keep perm row (hrow row (mem_gather _ _ _ hr))

/-! ### sorted distinct keys (`np.unique`) -/

section Uniq
variable [LinearOrder κ]

theorem mem_insertU (k : κ) : ∀ (l : List κ) (a : κ), a ∈ insertU k l ↔ a = k ∨ a ∈ l
  | [], a => by simp [insertU]
  | b :: r, a => by
    unfold insertU
    split
    · simp
    · split
      · rename_i h; subst h; simp
      · simp only [List.mem_cons, mem_insertU k r a]
        constructor
        · rintro (h | h | h) <;> simp [h]
        · rintro (h | h | h) <;> simp [h]

theorem insertU_sorted (k : κ) : ∀ (l : List κ), l.Pairwise (· < ·) → (insertU k l).Pairwise (· < ·)
  | [], _ => by simp [insertU]
  | b :: r, h => by
    rw [List.pairwise_cons] at h
    unfold insertU
    split
    · rename_i hkb
      rw [List.pairwise_cons]
      refine ⟨?_, List.pairwise_cons.mpr h⟩
      intro a ha
      rcases List.mem_cons.mp ha with rfl | ha
      · exact hkb
      · exact lt_trans hkb (h.1 a ha)
    · split
      · exact List.pairwise_cons.mpr h
      · rename_i h1 h2
        rw [List.pairwise_cons]
        refine ⟨?_, insertU_sorted k r h.2⟩
        intro a ha
        rcases (mem_insertU k r a).mp ha with rfl | ha
        · exact lt_of_le_of_ne (not_lt.mp h1) (Ne.symm h2)
        · exact h.1 a ha

theorem mem_uniq (ids : List κ) (a : κ) : a ∈ uniq ids ↔ a ∈ ids := by
  induction ids with
  | nil => simp [uniq]
  | cons k r ih =>
    have : uniq (k :: r) = insertU k (uniq r) := rfl
    rw [this, mem_insertU, ih]; simp

theorem uniq_sorted (ids : List κ) : (uniq ids).Pairwise (· < ·) := by
  induction ids with
  | nil => simp [uniq]
  | cons k r ih => exact insertU_sorted k _ ih

theorem uniq_nodup (ids : List κ) : (uniq ids).Nodup :=
  (uniq_sorted ids).imp (fun h => ne_of_lt h)

/-- strictly increasing lists with the same elements are equal -/
theorem eq_of_sorted_of_mem_iff (l₁ l₂ : List κ) (h₁ : l₁.Pairwise (· < ·)) (h₂ : l₂.Pairwise (· < ·))
    (h : ∀ a, a ∈ l₁ ↔ a ∈ l₂) : l₁ = l₂ := by
  have hp : l₁.Perm l₂ :=
    (List.perm_ext_iff_of_nodup (h₁.imp (fun h => ne_of_lt h)) (h₂.imp (fun h => ne_of_lt h))).mpr h
  exact List.Perm.eq_of_pairwise (le := (· < ·)) (fun a b _ _ hab hba => absurd hab (lt_asymm hba)) h₁ h₂ hp

/-- `np.unique` only depends on which keys occur -/
theorem uniq_congr (a b : List κ) (h : ∀ k, k ∈ a ↔ k ∈ b) : uniq a = uniq b :=
  eq_of_sorted_of_mem_iff _ _ (uniq_sorted a) (uniq_sorted b) (fun k => by rw [mem_uniq, mem_uniq, h])

theorem uniq_perm (a b : List κ) (h : a.Perm b) : uniq a = uniq b := uniq_congr a b (fun _ => h.mem_iff)

theorem uniq_of_sorted (l : List κ) (h : l.Pairwise (· < ·)) : uniq l = l :=
  eq_of_sorted_of_mem_iff _ _ (uniq_sorted l) h (mem_uniq l)

/-- the first distinct key is the smallest key that occurs -/
theorem uniq_head_le (ids : List κ) (r : κ) (rest : List κ) (h : uniq ids = r :: rest) :
    r ∈ ids ∧ ∀ k ∈ ids, r ≤ k := by
  have hs := uniq_sorted ids
  rw [h, List.pairwise_cons] at hs
  refine ⟨(mem_uniq ids r).mp (by rw [h]; exact List.mem_cons_self), ?_⟩
  intro k hk
  have : k ∈ r :: rest := by rw [← h]; exact (mem_uniq ids k).mpr hk
  rcases List.mem_cons.mp this with rfl | hk'
  · exact le_refl _
  · exact le_of_lt (hs.1 k hk')

end Uniq

/-! ### concatenation of sources -/

theorem labelled_eq_zip (svs : List (κ × Survey τ ν))
    (h : ∀ p ∈ svs, p.2.rv.length = p.2.t.length ∧ p.2.err.length = p.2.t.length) :
    labelled svs = (catT svs).zip ((catRv svs).zip ((catErr svs).zip (catIds svs))) := by
  induction svs with
  | nil => simp [labelled, catT, catRv, catErr, catIds]
  | cons p rest ih =>
    have hp := h p List.mem_cons_self
    have ih := ih (fun q hq => h q (List.mem_cons_of_mem _ hq))
    simp only [labelled, catT, catRv, catErr, catIds, List.flatMap_cons] at ih ⊢
    rw [List.zip_append (by simp [hp.2]), List.zip_append (by simp [hp.1, hp.2]),
      List.zip_append (by simp [hp.1, hp.2]), ← ih]
    congr 1
    -- one source: tagging each triple with the key = zipping with the replicated key
    generalize p.2.t = a at hp ⊢
    generalize p.2.rv = b at hp ⊢
    generalize p.2.err = c at hp ⊢
    induction a generalizing b c with
    | nil => simp
    | cons x a iha =>
      cases b with
      | nil => simp at hp
      | cons y b =>
        cases c with
        | nil => simp at hp
        | cons z c =>
          simp only [List.length_cons, Nat.add_right_cancel_iff] at hp
          simp only [List.zip_cons_cons, List.map_cons, List.length_cons, List.replicate_succ]
          rw [iha b c hp]

theorem cat_lengths (svs : List (κ × Survey τ ν))
    (h : ∀ p ∈ svs, p.2.rv.length = p.2.t.length ∧ p.2.err.length = p.2.t.length) :
    (catRv svs).length = (catT svs).length ∧ (catErr svs).length = (catT svs).length ∧
    (catIds svs).length = (catT svs).length := by
  induction svs with
  | nil => simp [catT, catRv, catErr, catIds]
  | cons p rest ih =>
    have hp := h p List.mem_cons_self
    have ih := ih (fun q hq => h q (List.mem_cons_of_mem _ hq))
    simp only [catT, catRv, catErr, catIds, List.flatMap_cons, List.length_append, List.length_replicate] at ih ⊢
    omega

/-! ### no cleaning: the selection list is the permutation itself -/

theorem keptIdxFrom_replicate_true : ∀ (n s : Nat), keptIdxFrom s (List.replicate n true) = List.range' s n
  | 0, s => by simp [keptIdxFrom]
  | n + 1, s => by simp [List.replicate_succ, keptIdxFrom, keptIdxFrom_replicate_true n (s + 1), List.range'_succ]

theorem gather_range_idx (perm : List Nat) (n : Nat) (h : ∀ i ∈ perm, i < n) : gather perm (List.range n) = perm := by
  have := gather_eq_map perm (List.range n) (by simpa using h)
  have e : perm.map (fun i => (List.range n)[i]?) = perm.map some := by
    apply List.map_congr_left
    intro i hi
    simp [h i hi]
  rw [e] at this
  exact List.map_injective_iff.mpr (fun a b h => Option.some.inj h) this

theorem selection_all_true (ts : List γ) (perm : List Nat) (h : ∀ i ∈ perm, i < ts.length) :
    selection (ts.map (fun _ => true)) perm = perm := by
  unfold selection keptIdx
  rw [List.map_const', keptIdxFrom_replicate_true, ← List.range_eq_range']
  exact gather_range_idx perm _ h

theorem mem_keptIdxFrom : ∀ (keep : List Bool) (s i : Nat),
    i ∈ keptIdxFrom s keep ↔ s ≤ i ∧ keep[i - s]? = some true
  | [], s, i => by simp [keptIdxFrom]
  | k :: ks, s, i => by
    have ih := mem_keptIdxFrom ks (s + 1) i
    cases k
    · simp only [keptIdxFrom, ih]
      constructor
      · rintro ⟨h1, h2⟩
        refine ⟨by omega, ?_⟩
        have : i - s = (i - (s + 1)) + 1 := by omega
        rw [this, List.getElem?_cons_succ]; exact h2
      · rintro ⟨h1, h2⟩
        by_cases hs : i = s
        · subst hs; simp at h2
        · refine ⟨by omega, ?_⟩
          have : i - s = (i - (s + 1)) + 1 := by omega
          rw [this, List.getElem?_cons_succ] at h2; exact h2
    · simp only [keptIdxFrom, List.mem_cons, ih]
      constructor
      · rintro (rfl | ⟨h1, h2⟩)
        · simp
        · refine ⟨by omega, ?_⟩
          have : i - s = (i - (s + 1)) + 1 := by omega
          rw [this, List.getElem?_cons_succ]; exact h2
      · rintro ⟨h1, h2⟩
        by_cases hs : i = s
        · left; exact hs
        · right
          refine ⟨by omega, ?_⟩
          have : i - s = (i - (s + 1)) + 1 := by omega
          rw [this, List.getElem?_cons_succ] at h2; exact h2

theorem mem_keptIdx (keep : List Bool) (i : Nat) : i ∈ keptIdx keep ↔ keep[i]? = some true := by
  unfold keptIdx
  simpa using mem_keptIdxFrom keep 0 i

theorem keptIdx_nodup (keep : List Bool) : (keptIdx keep).Nodup :=
  (keptIdxFrom_sorted keep 0).imp (fun h => Nat.ne_of_lt h)

/-! ### what `merge` returns -/

/-- sources are `RVData` instances: their three arrays have one length -/
def WellFormed (svs : List (κ × Survey τ ν)) : Prop :=
  ∀ p ∈ svs, p.2.rv.length = p.2.t.length ∧ p.2.err.length = p.2.t.length

theorem merge_ok [LinearOrder κ] (le : τ → τ → Bool) (svs : List (κ × Survey τ ν)) (nOffsets : Nat)
    (perm : List Nat) (m : Merged κ τ ν) (h : merge le svs nOffsets perm = .ok m) :
    (∀ p ∈ svs, p.2.hasCov = false) ∧ (uniq (catIds svs)).length = nOffsets + 1 ∧
    isPermOfRange perm (catT svs).length = true ∧ m.t = gather perm (catT svs) ∧ m.rv = gather perm (catRv svs) ∧
    m.err = gather perm (catErr svs) ∧ m.ids = gather perm (catIds svs) ∧ minT le m.t = some m.tref := by
  unfold merge at h
  split at h
  · cases h
  · rename_i h1
    split at h
    · cases h
    · rename_i h2
      split at h
      · cases h
      · rename_i h3
        split at h
        · cases h
        · rename_i m0 hg
          injection h with h
          subst h
          refine ⟨?_, by simpa using h2, by simpa using h3, rfl, rfl, rfl, rfl, hg⟩
          intro p hp
          simp only [List.any_eq_true, not_exists, not_and, Bool.not_eq_true] at h1
          exact h1 p hp

theorem foldl_min_spec (le : τ → τ → Bool) (htrans : ∀ a b c, le a b = true → le b c = true → le a c = true)
    (htotal : ∀ a b, (le a b || le b a) = true) (hrefl : ∀ a, le a a = true) :
    ∀ (r : List τ) (a : τ),
      let z := r.foldl (fun a x => if le a x then a else x) a
      (z = a ∨ z ∈ r) ∧ le z a = true ∧ ∀ x ∈ r, le z x = true
  | [], a => by simp [hrefl]
  | x :: r, a => by
    intro z
    by_cases hax : le a x = true
    · have ih := foldl_min_spec le htrans htotal hrefl r a
      have hz : z = r.foldl (fun a x => if le a x then a else x) a := by simp [z, List.foldl_cons, hax]
      rw [hz]
      obtain ⟨h1, h2, h3⟩ := ih
      refine ⟨?_, h2, ?_⟩
      · rcases h1 with h1 | h1
        · exact Or.inl h1
        · exact Or.inr (List.mem_cons_of_mem _ h1)
      · intro y hy
        rcases List.mem_cons.mp hy with rfl | hy
        · exact htrans _ _ _ h2 hax
        · exact h3 y hy
    · have hxa : le x a = true := by
        have := htotal a x
        simp only [Bool.or_eq_true] at this
        rcases this with h | h
        · exact absurd h hax
        · exact h
      have ih := foldl_min_spec le htrans htotal hrefl r x
      have hz : z = r.foldl (fun a x => if le a x then a else x) x := by simp [z, List.foldl_cons, hax]
      rw [hz]
      obtain ⟨h1, h2, h3⟩ := ih
      refine ⟨?_, htrans _ _ _ h2 hxa, ?_⟩
      · rcases h1 with h1 | h1
        · exact Or.inr (by rw [h1]; exact List.mem_cons_self)
        · exact Or.inr (List.mem_cons_of_mem _ h1)
      · intro y hy
        rcases List.mem_cons.mp hy with rfl | hy
        · exact h2
        · exact h3 y hy

/-- `minT` returns an element of the list that is `≤` every element -/
theorem minT_spec (le : τ → τ → Bool) (htrans : ∀ a b c, le a b = true → le b c = true → le a c = true)
    (htotal : ∀ a b, (le a b || le b a) = true) (hrefl : ∀ a, le a a = true)
    (l : List τ) (m : τ) (h : minT le l = some m) : m ∈ l ∧ ∀ x ∈ l, le m x = true := by
  cases l with
  | nil => simp [minT] at h
  | cons a r =>
    simp only [minT, Option.some.injEq] at h
    obtain ⟨h1, h2, h3⟩ := foldl_min_spec le htrans htotal hrefl r a
    rw [h] at h1 h2 h3
    refine ⟨?_, ?_⟩
    · rcases h1 with h1 | h1
      · rw [h1]; exact List.mem_cons_self
      · exact List.mem_cons_of_mem _ h1
    · intro x hx
      rcases List.mem_cons.mp hx with rfl | hx
      · exact h2
      · exact h3 x hx

theorem isPermOfRange_range (n : Nat) : isPermOfRange (List.range n) n = true := by
  simp [isPermOfRange]

theorem catIds_length (svs : List (κ × Survey τ ν)) : (catIds svs).length = (catT svs).length := by
  simp only [catIds, catT, List.length_flatMap, List.length_replicate]

theorem zip4_proj : ∀ (a : List α) (b : List β) (c : List γ) (d : List δ),
    b.length = a.length → c.length = a.length → d.length = a.length →
    (a.zip (b.zip (c.zip d))).map (fun o => (o.1, o.2.2.2)) = a.zip d
  | [], _, _, _, _, _, _ => by simp
  | x :: a, [], _, _, h, _, _ => by simp at h
  | x :: a, y :: b, [], _, _, h, _ => by simp at h
  | x :: a, y :: b, z :: c, [], _, _, h => by simp at h
  | x :: a, y :: b, z :: c, w :: d, h1, h2, h3 => by
    simp only [List.zip_cons_cons, List.map_cons]
    rw [zip4_proj a b c d (by simpa using h1) (by simpa using h2) (by simpa using h3)]

/-! ### the model has a run: every time array has an accepted sorting permutation -/

theorem gather_of_pairs (ts : List τ) : ∀ (ps : List (τ × Nat)), (∀ p ∈ ps, ts[p.2]? = some p.1) →
    gather (ps.map (·.2)) ts = ps.map (·.1)
  | [], _ => by simp [gather]
  | p :: ps, h => by
    rw [List.map_cons, gather_cons, h p List.mem_cons_self,
      gather_of_pairs ts ps (fun q hq => h q (List.mem_cons_of_mem _ hq))]
    simp

/-- for a total, transitive order the stable merge sort of the positions is an accepted permutation -/
theorem exists_validPerm (le : τ → τ → Bool) (htrans : ∀ a b c, le a b = true → le b c = true → le a c = true)
    (htotal : ∀ a b, (le a b || le b a) = true) (ts : List τ) : ∃ perm, validPerm le ts perm = true := by
  let cmp : τ × Nat → τ × Nat → Bool := fun a b => le a.1 b.1
  let sorted := ts.zipIdx.mergeSort cmp
  have hperm : sorted.Perm ts.zipIdx := List.mergeSort_perm _ _
  have hpw : sorted.Pairwise (fun a b => cmp a b = true) :=
    List.pairwise_mergeSort (le := cmp) (fun a b c => htrans a.1 b.1 c.1) (fun a b => htotal a.1 b.1) _
  refine ⟨sorted.map (·.2), ?_⟩
  have hidx : (sorted.map (·.2)).Perm (List.range ts.length) := by
    have := hperm.map (·.2)
    rw [show (ts.zipIdx.map (·.2)) = List.range' 0 ts.length from List.zipIdx_map_snd 0 ts,
      ← List.range_eq_range'] at this
    exact this
  have hg : gather (sorted.map (·.2)) ts = sorted.map (·.1) := by
    apply gather_of_pairs
    intro p hp
    exact List.mem_zipIdx_iff_getElem?.mp (hperm.subset hp)
  simp only [validPerm, Bool.and_eq_true]
  constructor
  · unfold isPermOfRange
    simp only [Bool.and_eq_true, beq_iff_eq, List.all_eq_true, List.mem_range, List.contains_iff_mem]
    refine ⟨by simpa using hidx.length_eq, ?_⟩
    intro i hi
    exact hidx.mem_iff.mpr (List.mem_range.mpr hi)
  · rw [hg]
    apply pairwise_isSorted
    rw [List.pairwise_map]
    exact hpw

end Data
