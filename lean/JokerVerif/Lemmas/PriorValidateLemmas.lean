import JokerVerif.Model.PriorValidate
/-! Helper lemmas and specification predicates for C18 (core Lean only). -/
deriving instance DecidableEq for Except

namespace PriorV

/-- the entry of `env` that a Python dict built from it would hold under `n` has this unit dimension -/
def HasDim (env : List Param) (n : Name) (d : Dim) : Prop :=
  ∃ par, lookup env n = some par ∧ par.unit = some d ∧ par.named = true

/-- the entry under `n` is an independent Normal random variable (constant parameters) or — for `K` only, whose
dependence on `P, e` the kernel implements — a FixedCompanionMass -/
def IsNormal (env : List Param) (n : Name) : Prop :=
  ∃ par, lookup env n = some par ∧ par.registered = true ∧ (par.kind = .normal ∨ (par.kind = .fcm ∧ n = .K))

/-- the property's notion of a prior that satisfies the sampler's assumptions -/
def WellFormed (i : PriorInput) : Prop :=
  i.modelOk = true ∧ i.parsStatus = .ok ∧ i.offsetsIterable = true ∧
  ∃ p, i.polyTrend = some p ∧
    (∀ nd ∈ required p i.offsets.length, HasDim (envOf i) nd.1 nd.2) ∧
    (∀ n ∈ linearNames p i.offsets.length, IsNormal (envOf i) n)

theorem checkPresence_ok_iff (env : List Param) : ∀ req : List (Name × Dim),
    checkPresence env req = .ok () ↔ ∀ nd ∈ req, HasDim env nd.1 nd.2 := by
  intro req
  induction req with
  | nil => simp [checkPresence]
  | cons hd tl ih =>
    obtain ⟨n, d⟩ := hd
    simp only [checkPresence, List.mem_cons, forall_eq_or_imp]
    cases hl : lookup env n with
    | none => simp [HasDim, hl]
    | some par =>
      obtain ⟨nm, un, k, nd, rg⟩ := par
      cases un with
      | none => simp [HasDim, hl]
      | some u =>
        by_cases hud : u = d ∧ nd = true
        · obtain ⟨hu, hn⟩ := hud
          subst hu; subst hn
          simp only [and_self, if_true]
          rw [ih]
          constructor
          · intro h; exact ⟨⟨_, hl, rfl, rfl⟩, h⟩
          · intro h; exact h.2
        · simp only [hud, if_false]
          constructor
          · intro h; cases h
          · rintro ⟨⟨par', hl', hu', hn'⟩, _⟩
            rw [hl] at hl'; cases hl'
            simp only [Option.some.injEq] at hu'
            exact absurd ⟨hu', hn'⟩ hud

theorem checkPresence_error_value (env : List Param) : ∀ (req : List (Name × Dim)) (e : Err),
    checkPresence env req = .error e → e = .value := by
  intro req
  induction req with
  | nil => intro e h; simp [checkPresence] at h
  | cons hd tl ih =>
    obtain ⟨n, d⟩ := hd
    intro e h
    simp only [checkPresence] at h
    split at h
    · cases h; rfl
    · split at h
      · cases h; rfl
      · split at h
        · exact ih e h
        · cases h; rfl

theorem checkLinear_ok_iff (env : List Param) : ∀ names : List Name,
    checkLinear env names = .ok () ↔ ∀ n ∈ names, IsNormal env n := by
  intro names
  induction names with
  | nil => simp [checkLinear]
  | cons n tl ih =>
    simp only [checkLinear, List.mem_cons, forall_eq_or_imp]
    cases hl : lookup env n with
    | none => simp [IsNormal, hl]
    | some par =>
      obtain ⟨nm, un, k, nd, rg⟩ := par
      cases k with
      | normal =>
        simp only []
        by_cases hr : rg = true
        · rw [if_pos hr, ih]
          constructor
          · intro h; exact ⟨⟨_, hl, hr, by simp⟩, h⟩
          · intro h; exact h.2
        · rw [if_neg hr]
          constructor
          · intro h; cases h
          · rintro ⟨⟨par', hl', hr', _⟩, _⟩
            rw [hl] at hl'; cases hl'
            exact absurd hr' hr
      | fcm =>
        simp only []
        by_cases hK : n = .K ∧ rg = true
        · rw [if_pos hK, ih]
          constructor
          · intro h; exact ⟨⟨_, hl, hK.2, Or.inr ⟨rfl, hK.1⟩⟩, h⟩
          · intro h; exact h.2
        · rw [if_neg hK]
          constructor
          · intro h; cases h
          · rintro ⟨⟨par', hl', hr', hk'⟩, _⟩
            rw [hl] at hl'; cases hl'
            rcases hk' with h | ⟨_, h⟩
            · cases h
            · exact absurd ⟨h, hr'⟩ hK
      | normalDep | otherRV | unnamedOp | noOwner | notTensor =>
        simp only []
        constructor
        · intro h; cases h
        · rintro ⟨⟨par', hl', _, hk'⟩, _⟩
          rw [hl] at hl'; cases hl'
          rcases hk' with h | ⟨h, _⟩ <;> cases h

theorem validate_ok_iff (i : PriorInput) (names : List Name) :
    validate i = .ok names ↔ i.modelOk = true ∧ i.parsStatus = .ok ∧ ∃ p, i.polyTrend = some p ∧
      i.offsetsIterable = true ∧ checkPresence (envOf i) (required p i.offsets.length) = .ok () ∧
      checkLinear (envOf i) (linearNames p i.offsets.length) = .ok () ∧ names = parNames p i.offsets.length := by
  unfold validate
  cases hm : i.modelOk with
  | false => simp
  | true =>
    cases hps : i.parsStatus with
    | invalid => simp
    | ok =>
      cases hp : i.polyTrend with
      | none => simp
      | some p =>
        cases ho : i.offsetsIterable with
        | false => simp
        | true =>
          simp only [Bool.true_eq_false, if_false, true_and, Option.some.injEq, exists_eq_left']
          cases h1 : checkPresence (envOf i) (required p i.offsets.length) with
          | error e => simp
          | ok u =>
            cases h2 : checkLinear (envOf i) (linearNames p i.offsets.length) with
            | error e => simp
            | ok u' =>
              simp only [Except.ok.injEq, true_and]
              exact eq_comm

/-- `lookup` finds an entry exactly when some entry carries the name -/
theorem lookup_isSome_iff (env : List Param) (n : Name) :
    (∃ par, lookup env n = some par) ↔ ∃ par ∈ env, par.name = n := by
  unfold lookup
  constructor
  · rintro ⟨par, h⟩
    have hm := List.mem_of_find?_eq_some h
    have hp := List.find?_some h
    exact ⟨par, List.mem_reverse.mp hm, by simpa using hp⟩
  · rintro ⟨par, hm, hn⟩
    cases h : env.reverse.find? (fun p => decide (p.name = n)) with
    | some q => exact ⟨q, rfl⟩
    | none =>
      have := List.find?_eq_none.mp h par (List.mem_reverse.mpr hm)
      simp [hn] at this

theorem lookup_name (env : List Param) (n : Name) (par : Param) (h : lookup env n = some par) :
    par.name = n ∧ par ∈ env := by
  unfold lookup at h
  exact ⟨by simpa using List.find?_some h, List.mem_reverse.mp (List.mem_of_find?_eq_some h)⟩

/-- if exactly the entries of `env` named `n` are all equal to `par` ... the dict holds `par` -/
theorem lookup_of_unique (env : List Param) (n : Name) (par : Param) (hm : par ∈ env) (hn : par.name = n)
    (hu : ∀ q ∈ env, q.name = n → q = par) : lookup env n = some par := by
  obtain ⟨q, hq⟩ := (lookup_isSome_iff env n).mpr ⟨par, hm, hn⟩
  obtain ⟨h1, h2⟩ := lookup_name env n q hq
  rw [hq, hu q h2 h1]

theorem checkSources_ok_iff : ∀ srcs : List Source,
    checkSources srcs = .ok () ↔ ∀ s ∈ srcs, s = Source.rv false := by
  intro srcs
  induction srcs with
  | nil => simp [checkSources]
  | cons s tl ih =>
    cases s with
    | notRV => simp [checkSources]
    | rv c => cases c <;> simp [checkSources, ih]

theorem length_required (p : Int) (q : Nat) : (required p q).length = 6 + p.toNat + q := by
  simp [required, nonlinearReq, linearReq, trendReq, offsetReq]; omega

theorem parNames_eq (p : Int) (q : Nat) :
    parNames p q = [Name.P, .e, .omega, .M0, .s, .K] ++ (List.range p.toNat).map Name.v
      ++ (List.range q).map (fun j => Name.dv0 (j + 1)) := by
  simp [parNames, required, nonlinearReq, linearReq, trendReq, offsetReq, trendName, offsetName,
    List.map_map, Function.comp_def]

theorem linearNames_eq (p : Int) (q : Nat) :
    linearNames p q = Name.K :: (List.range p.toNat).map Name.v ++ (List.range q).map (fun j => Name.dv0 (j + 1)) := by
  simp [linearNames, linearReq, trendReq, offsetReq, trendName, offsetName, List.map_map, Function.comp_def]

theorem linearNames_subset_parNames (p : Int) (q : Nat) : ∀ n ∈ linearNames p q, n ∈ parNames p q := by
  intro n hn
  rw [linearNames_eq] at hn
  rw [parNames_eq]
  simp only [List.cons_append, List.mem_cons, List.mem_append] at hn ⊢
  rcases hn with h | h | h
  · subst h; simp
  · right; right; right; right; right; right; left; exact Or.inr h
  · right; right; right; right; right; right; right; exact h

end PriorV

