import JokerVerif.Model.Mcmc
import Mathlib.Analysis.SpecialFunctions.Trigonometric.Basic
import Mathlib.Analysis.SpecialFunctions.Log.Basic
import Mathlib.Data.Finset.Max
import Mathlib.Data.List.Basic
/-! Helper lemmas for C11. -/
namespace Mcmc

/-- real instantiation; the true anomaly is an arbitrary function of (mean anomaly, eccentricity) -/
noncomputable def realFn (trueAnom : ℝ → ℝ → ℝ) : Fn ℝ := ⟨Real.cos, Real.sin, Real.log, Real.pi, trueAnom⟩

@[simp] theorem realFn_cos (ta : ℝ → ℝ → ℝ) : (realFn ta).cos = Real.cos := rfl
@[simp] theorem realFn_sin (ta : ℝ → ℝ → ℝ) : (realFn ta).sin = Real.sin := rfl
@[simp] theorem realFn_log (ta : ℝ → ℝ → ℝ) : (realFn ta).log = Real.log := rfl
@[simp] theorem realFn_pi (ta : ℝ → ℝ → ℝ) : (realFn ta).pi = Real.pi := rfl
@[simp] theorem realFn_trueAnom (ta : ℝ → ℝ → ℝ) : (realFn ta).trueAnom = ta := rfl

/-- the MCMC model's phase convention equals the sampler's -/
theorem meanAnomaly_eq (ta : ℝ → ℝ → ℝ) (P M0 x : ℝ) (hP : P ≠ 0) :
    mcmcMeanAnomaly (realFn ta) P M0 x = samplerMeanAnomaly (realFn ta) P M0 x := by
  have := Real.pi_ne_zero
  simp only [mcmcMeanAnomaly, samplerMeanAnomaly, realFn_pi]
  field_simp

section Order
variable {α : Type} [LinearOrder α]

theorem countLe_eq_length_of_forall_le (ps : List α) (m : α) (h : ∀ y ∈ ps, y ≤ m) : countLe ps m = ps.length := by
  unfold countLe
  rw [List.filter_eq_self.mpr]
  intro y hy
  simpa using h y hy

theorem countLt_le_countLe (ps : List α) (x : α) : countLt ps x ≤ countLe ps x := by
  unfold countLt countLe
  induction ps with
  | nil => simp
  | cons a t ih =>
    simp only [List.filter_cons]
    by_cases h1 : a < x
    · have h2 : a ≤ x := le_of_lt h1
      simp [h1, h2]; exact ih
    · by_cases h2 : a ≤ x
      · simp [h1, h2]; omega
      · simp [h1, h2]; exact ih

/-- elements `≤ x` are `< y` when `x < y` -/
theorem countLe_le_countLt_of_lt (ps : List α) (x y : α) (h : x < y) : countLe ps x ≤ countLt ps y := by
  unfold countLt countLe
  induction ps with
  | nil => simp
  | cons a t ih =>
    simp only [List.filter_cons]
    by_cases h1 : a ≤ x
    · have h2 : a < y := lt_of_le_of_lt h1 h
      simp [h1, h2]; exact ih
    · by_cases h2 : a < y
      · simp [h1, h2]; omega
      · simp [h1, h2]; exact ih

/-- the `k`-th order statistic is unique as a value -/
theorem orderStat_unique (ps : List α) (k : Nat) (x y : α) (hx : IsOrderStat ps k x) (hy : IsOrderStat ps k y) :
    x = y := by
  rcases lt_trichotomy x y with h | h | h
  · have := countLe_le_countLt_of_lt ps x y h
    unfold IsOrderStat at hx hy; omega
  · exact h
  · have := countLe_le_countLt_of_lt ps y x h
    unfold IsOrderStat at hx hy; omega

/-- every list with more than `k` elements has a `k`-th order statistic, and it is a member -/
theorem exists_orderStat (ps : List α) (k : Nat) (hk : k < ps.length) : ∃ x ∈ ps, IsOrderStat ps k x := by
  classical
  have hne : ps.toFinset.Nonempty := by
    cases ps with
    | nil => simp at hk
    | cons a t => exact ⟨a, by simp⟩
  -- candidates: members with more than k elements below-or-equal
  let S := ps.toFinset.filter fun x => k < countLe ps x
  have hS : S.Nonempty := by
    refine ⟨ps.toFinset.max' hne, ?_⟩
    simp only [S, Finset.mem_filter]
    refine ⟨Finset.max'_mem _ _, ?_⟩
    rw [countLe_eq_length_of_forall_le ps _ (fun y hy => Finset.le_max' _ y (List.mem_toFinset.mpr hy))]
    exact hk
  let x := S.min' hS
  have hxS : x ∈ S := Finset.min'_mem S hS
  have hxmem : x ∈ ps := List.mem_toFinset.mp (Finset.mem_filter.mp hxS).1
  have hxle : k < countLe ps x := (Finset.mem_filter.mp hxS).2
  refine ⟨x, hxmem, ?_, hxle⟩
  by_contra hcon
  have hlt : k < countLt ps x := Nat.lt_of_not_le hcon
  -- there are elements below x; take the largest
  let T := ps.toFinset.filter fun y => y < x
  have hT : T.Nonempty := by
    have hpos : 0 < countLt ps x := by omega
    unfold countLt at hpos
    obtain ⟨y, hy⟩ := List.exists_mem_of_length_pos hpos
    have := List.mem_filter.mp hy
    exact ⟨y, Finset.mem_filter.mpr ⟨List.mem_toFinset.mpr this.1, by simpa using this.2⟩⟩
  let y0 := T.max' hT
  have hy0T : y0 ∈ T := Finset.max'_mem T hT
  have hy0lt : y0 < x := (Finset.mem_filter.mp hy0T).2
  have hy0mem : y0 ∈ ps.toFinset := (Finset.mem_filter.mp hy0T).1
  have hiff : ∀ z ∈ ps, (z ≤ y0 ↔ z < x) := by
    intro z hz
    constructor
    · intro h; exact lt_of_le_of_lt h hy0lt
    · intro h; exact Finset.le_max' T z (Finset.mem_filter.mpr ⟨List.mem_toFinset.mpr hz, h⟩)
  have hcount : countLe ps y0 = countLt ps x := by
    unfold countLe countLt
    congr 1
    apply List.filter_congr
    intro z hz
    simp [hiff z hz]
  have hy0S : y0 ∈ S := Finset.mem_filter.mpr ⟨hy0mem, by rw [hcount]; exact hlt⟩
  have : x ≤ y0 := Finset.min'_le S y0 hy0S
  exact absurd hy0lt (not_lt.mpr this)

theorem medianIdx_spec (ps : List α) (i : Nat) (h : medianIdx ps = some i) :
    ∃ hi : i < ps.length, IsOrderStat ps (ps.length / 2) ps[i] := by
  unfold medianIdx at h
  have hmem := List.mem_of_find?_eq_some h
  have hi : i < ps.length := by simpa using hmem
  have hp := List.find?_some h
  refine ⟨hi, ?_⟩
  rw [List.getElem?_eq_getElem hi] at hp
  simpa using hp

theorem medianIdx_isSome (ps : List α) (hne : ps ≠ []) : ∃ i, medianIdx ps = some i := by
  have hlen : 0 < ps.length := List.length_pos_iff.mpr hne
  have hk : ps.length / 2 < ps.length := Nat.div_lt_self hlen (by norm_num)
  obtain ⟨x, hx, hstat⟩ := exists_orderStat ps (ps.length / 2) hk
  obtain ⟨j, hj, hjx⟩ := List.getElem_of_mem hx
  have : ((List.range ps.length).find? fun i =>
      match ps[i]? with
      | some x => decide (IsOrderStat ps (ps.length / 2) x)
      | none => false).isSome := by
    rw [List.find?_isSome]
    refine ⟨j, List.mem_range.mpr hj, ?_⟩
    rw [List.getElem?_eq_getElem hj, hjx]
    simpa using hstat
  unfold medianIdx
  exact Option.isSome_iff_exists.mp this

end Order

end Mcmc
