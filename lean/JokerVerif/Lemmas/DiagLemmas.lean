import JokerVerif.Model.Diag
import Mathlib.Data.List.Sort
import Mathlib.Data.List.TakeWhile
import Mathlib.Data.List.Induction
import Mathlib.Data.Finset.Card
import Mathlib.Data.Finset.Range
import Mathlib.Algebra.BigOperators.Group.List.Basic
import Mathlib.Data.List.Perm.Basic
import Mathlib.Algebra.Order.Field.Basic
import Mathlib.Algebra.Order.Floor.Ring
import Mathlib.Tactic.Ring
import Mathlib.Tactic.Linarith
import Mathlib.Tactic.FieldSimp

/-! Helper lemmas for C19: sorting, maxima, the cyclic gap list and its symmetries, histogram bins. -/
set_option linter.unusedSectionVars false
set_option linter.unusedVariables false
namespace Diag

/-! ### sorting -/
section sort
variable {α : Type} [LinearOrder α]

theorem ins_eq_orderedInsert (a : α) (l : List α) : ins a l = l.orderedInsert (· ≤ ·) a := by
  induction l with
  | nil => rfl
  | cons b r ih => simp only [ins, List.orderedInsert_cons, ih]

theorem isort_eq_insertionSort (l : List α) : isort l = l.insertionSort (· ≤ ·) := by
  induction l with
  | nil => rfl
  | cons a r ih => simp only [isort, List.insertionSort_cons, ih, ins_eq_orderedInsert]

theorem isort_pairwise (l : List α) : (isort l).Pairwise (· ≤ ·) := by
  rw [isort_eq_insertionSort]; exact List.pairwise_insertionSort _ _

theorem isort_perm (l : List α) : (isort l).Perm l := by
  rw [isort_eq_insertionSort]; exact List.perm_insertionSort _ _

/-- if `R` is sorted and a permutation of `l`, the sort of `l` is `R` -/
theorem isort_eq_of_sorted_perm {l R : List α} (hR : R.Pairwise (· ≤ ·)) (hp : R.Perm l) : isort l = R :=
  List.Perm.eq_of_pairwise' (r := (· ≤ ·)) (isort_pairwise l) hR ((isort_perm l).trans hp.symm)

theorem isort_congr {l l' : List α} (h : l.Perm l') : isort l = isort l' :=
  isort_eq_of_sorted_perm (isort_pairwise l') ((isort_perm l').trans h.symm)

theorem isort_eq_nil {l : List α} : isort l = [] ↔ l = [] := by
  constructor
  · intro h; have := isort_perm l; rw [h] at this; exact this.symm.eq_nil
  · rintro rfl; rfl

theorem isort_length (l : List α) : (isort l).length = l.length := (isort_perm l).length_eq
end sort

/-! ### maximum / minimum / argmax -/
section maxmin
variable {α : Type} [LinearOrder α]

theorem foldl_max_spec (r : List α) (a : α) :
    (r.foldl (fun m x => if m < x then x else m) a ∈ a :: r) ∧
      ∀ x ∈ a :: r, x ≤ r.foldl (fun m x => if m < x then x else m) a := by
  induction r generalizing a with
  | nil => simp
  | cons b r ih =>
    simp only [List.foldl_cons]
    obtain ⟨hm, hle⟩ := ih (if a < b then b else a)
    refine ⟨?_, ?_⟩
    · rcases List.mem_cons.mp hm with h | h
      · rw [h]; split <;> simp
      · exact List.mem_cons_of_mem _ (List.mem_cons_of_mem _ h)
    · intro x hx
      have h0 := hle (if a < b then b else a) (List.mem_cons_self ..)
      rcases List.mem_cons.mp hx with rfl | hx
      · refine le_trans ?_ h0; split <;> [exact le_of_lt ‹_›; exact le_rfl]
      · rcases List.mem_cons.mp hx with rfl | hx
        · refine le_trans ?_ h0; split <;> [exact le_rfl; exact not_lt.mp ‹_›]
        · exact hle x (List.mem_cons_of_mem _ hx)

/-- characterisation of the maximum -/
theorem maxList_eq_some_iff {l : List α} {m : α} : maxList l = some m ↔ m ∈ l ∧ ∀ x ∈ l, x ≤ m := by
  cases l with
  | nil => simp [maxList]
  | cons a r =>
    obtain ⟨hm, hle⟩ := foldl_max_spec r a
    simp only [maxList, Option.some.injEq]
    constructor
    · rintro rfl; exact ⟨hm, hle⟩
    · rintro ⟨h1, h2⟩; exact le_antisymm (h2 _ hm) (hle _ h1)

theorem maxList_eq_none_iff {l : List α} : maxList l = none ↔ l = [] := by
  cases l <;> simp [maxList]

theorem maxList_isSome {l : List α} (h : l ≠ []) : ∃ m, maxList l = some m := by
  cases l with
  | nil => exact absurd rfl h
  | cons a r => exact ⟨_, rfl⟩

/-- the maximum only depends on the set of elements -/
theorem maxList_congr_mem {l l' : List α} (h : ∀ x, x ∈ l ↔ x ∈ l') : maxList l = maxList l' := by
  cases hl : maxList l with
  | none =>
    rw [maxList_eq_none_iff] at hl; subst hl
    have : l' = [] := List.eq_nil_iff_forall_not_mem.mpr fun x hx => by simpa using (h x).mpr hx
    rw [this]; rfl
  | some m =>
    rw [maxList_eq_some_iff] at hl
    symm; rw [maxList_eq_some_iff]
    exact ⟨(h m).mp hl.1, fun x hx => hl.2 x ((h x).mpr hx)⟩

theorem maxList_perm {l l' : List α} (h : l.Perm l') : maxList l = maxList l' :=
  maxList_congr_mem fun _ => h.mem_iff

theorem foldl_min_spec (r : List α) (a : α) :
    (r.foldl (fun m x => if x < m then x else m) a ∈ a :: r) ∧
      ∀ x ∈ a :: r, r.foldl (fun m x => if x < m then x else m) a ≤ x := by
  induction r generalizing a with
  | nil => simp
  | cons b r ih =>
    simp only [List.foldl_cons]
    obtain ⟨hm, hle⟩ := ih (if b < a then b else a)
    refine ⟨?_, ?_⟩
    · rcases List.mem_cons.mp hm with h | h
      · rw [h]; split <;> simp
      · exact List.mem_cons_of_mem _ (List.mem_cons_of_mem _ h)
    · intro x hx
      have h0 := hle (if b < a then b else a) (List.mem_cons_self ..)
      rcases List.mem_cons.mp hx with rfl | hx
      · refine le_trans h0 ?_; split <;> [exact le_of_lt ‹_›; exact le_rfl]
      · rcases List.mem_cons.mp hx with rfl | hx
        · refine le_trans h0 ?_; split <;> [exact le_rfl; exact not_lt.mp ‹_›]
        · exact hle x (List.mem_cons_of_mem _ hx)

theorem minList_eq_some_iff {l : List α} {m : α} : minList l = some m ↔ m ∈ l ∧ ∀ x ∈ l, m ≤ x := by
  cases l with
  | nil => simp [minList]
  | cons a r =>
    obtain ⟨hm, hle⟩ := foldl_min_spec r a
    simp only [minList, Option.some.injEq]
    constructor
    · rintro rfl; exact ⟨hm, hle⟩
    · rintro ⟨h1, h2⟩; exact le_antisymm (hle _ h1) (h2 _ hm)

theorem minList_perm {l l' : List α} (h : l.Perm l') : minList l = minList l' := by
  cases hl : minList l with
  | none =>
    have : l = [] := by cases l <;> simp_all [minList]
    subst this; rw [h.symm.eq_nil]; rfl
  | some m =>
    rw [minList_eq_some_iff] at hl
    symm; rw [minList_eq_some_iff]
    exact ⟨h.mem_iff.mp hl.1, fun x hx => hl.2 x (h.mem_iff.mpr hx)⟩

/-- invariant of the `np.argmax` loop -/
theorem argmaxFrom_spec (pre r : List α) (b : Nat) (bv : α)
    (hb : b < pre.length) (hbv : pre[b]? = some bv)
    (hmax : ∀ (j : Nat) x, pre[j]? = some x → x ≤ bv) (hfirst : ∀ (j : Nat) x, j < b → pre[j]? = some x → x < bv) :
    let i := argmaxFrom b bv pre.length r
    ∃ v, (pre ++ r)[i]? = some v ∧ (∀ (j : Nat) x, (pre ++ r)[j]? = some x → x ≤ v) ∧
      ∀ (j : Nat) x, j < i → (pre ++ r)[j]? = some x → x < v := by
  induction r generalizing pre b bv with
  | nil =>
    simp only [argmaxFrom, List.append_nil]
    exact ⟨bv, hbv, hmax, hfirst⟩
  | cons x r ih =>
    simp only [argmaxFrom]
    have hlen : (pre ++ [x]).length = pre.length + 1 := by simp
    have happ : pre ++ x :: r = (pre ++ [x]) ++ r := by simp
    split
    · rename_i hlt
      have := ih (pre ++ [x]) pre.length x (by simp) (by simp)
        (by
          intro j y hj
          rcases Nat.lt_or_ge j pre.length with h | h
          · rw [List.getElem?_append_left h] at hj; exact le_trans (hmax j y hj) (le_of_lt hlt)
          · rw [List.getElem?_append_right h] at hj
            rcases Nat.eq_zero_or_pos (j - pre.length) with h0 | h0
            · rw [h0] at hj; simp at hj; rw [hj]
            · have : [x][j - pre.length]? = none := by
                apply List.getElem?_eq_none; simp; omega
              rw [this] at hj; cases hj)
        (by
          intro j y hj hy
          rw [List.getElem?_append_left hj] at hy
          exact lt_of_le_of_lt (hmax j y hy) hlt)
      rw [hlen] at this; rw [happ]; exact this
    · rename_i hnlt
      have hxle : x ≤ bv := not_lt.mp hnlt
      have := ih (pre ++ [x]) b bv (by simp; omega) (by rw [List.getElem?_append_left hb]; exact hbv)
        (by
          intro j y hj
          rcases Nat.lt_or_ge j pre.length with h | h
          · rw [List.getElem?_append_left h] at hj; exact hmax j y hj
          · rw [List.getElem?_append_right h] at hj
            rcases Nat.eq_zero_or_pos (j - pre.length) with h0 | h0
            · rw [h0] at hj; simp at hj; rw [← hj]; exact hxle
            · have : [x][j - pre.length]? = none := by
                apply List.getElem?_eq_none; simp; omega
              rw [this] at hj; cases hj)
        (by
          intro j y hj hy
          rw [List.getElem?_append_left (by omega)] at hy
          exact hfirst j y hj hy)
      rw [hlen] at this; rw [happ]; exact this

/-- `np.argmax`: the index is in range, its value is maximal, and it is the FIRST maximiser -/
theorem argmax_spec {l : List α} {i : Nat} (h : argmax l = some i) :
    ∃ v, l[i]? = some v ∧ (∀ (j : Nat) x, l[j]? = some x → x ≤ v) ∧ ∀ (j : Nat) x, j < i → l[j]? = some x → x < v := by
  cases l with
  | nil => simp [argmax] at h
  | cons a r =>
    simp only [argmax, Option.some.injEq] at h
    have := argmaxFrom_spec [a] r 0 a (by simp) (by simp)
      (by
        intro j x hj
        cases j with
        | zero => simp at hj; rw [hj]
        | succ j => simp at hj)
      (by intro j x hj; omega)
    simp only [List.length_singleton, List.singleton_append] at this
    rw [h] at this
    exact this

theorem argmax_isSome {l : List α} (h : l ≠ []) : ∃ i, argmax l = some i := by
  cases l with
  | nil => exact absurd rfl h
  | cons a r => exact ⟨_, rfl⟩
end maxmin

end Diag

/-! ### consecutive differences and the cyclic gap list -/
namespace Diag
section gaps
variable {α : Type} [Field α] [LinearOrder α] [IsStrictOrderedRing α]

@[simp] theorem gaps_nil : gaps ([] : List α) = [] := rfl
@[simp] theorem gaps_singleton (a : α) : gaps [a] = [] := rfl
@[simp] theorem gaps_cons_cons (a b : α) (r : List α) : gaps (a :: b :: r) = (b - a) :: gaps (b :: r) := rfl

theorem gaps_append_mid (X : List α) (p q : α) (Y : List α) :
    gaps (X ++ p :: q :: Y) = gaps (X ++ [p]) ++ (q - p) :: gaps (q :: Y) := by
  induction X with
  | nil => simp
  | cons c X ih =>
    cases X with
    | nil => simp
    | cons d X' =>
      simp only [List.cons_append, gaps_cons_cons] at ih ⊢
      rw [ih]

theorem gaps_concat2 (X : List α) (p q : α) : gaps (X ++ [p, q]) = gaps (X ++ [p]) ++ [q - p] := by
  simpa using gaps_append_mid X p q []

theorem gaps_map_add (c : α) (l : List α) : gaps (l.map (· + c)) = gaps l := by
  induction l with
  | nil => rfl
  | cons a l ih =>
    cases l with
    | nil => rfl
    | cons b r =>
      simp only [List.map_cons, gaps_cons_cons] at ih ⊢
      rw [ih]; congr 1; ring

theorem gaps_reverse_map_sub (c : α) (l : List α) :
    gaps ((l.map (c - ·)).reverse) = (gaps l).reverse := by
  induction l with
  | nil => rfl
  | cons a l ih =>
    cases l with
    | nil => rfl
    | cons b r =>
      have e : ((a :: b :: r).map (c - ·)).reverse = ((r.map (c - ·)).reverse) ++ [c - b, c - a] := by
        simp
      rw [e, gaps_concat2]
      have e2 : (r.map (c - ·)).reverse ++ [c - b] = ((b :: r).map (c - ·)).reverse := by simp
      rw [e2, ih, gaps_cons_cons, List.reverse_cons]
      congr 2; ring

/-- every gap of a sorted list is non-negative -/
theorem gaps_nonneg {l : List α} (h : l.Pairwise (· ≤ ·)) : ∀ g ∈ gaps l, 0 ≤ g := by
  induction l with
  | nil => simp
  | cons a l ih =>
    cases l with
    | nil => simp
    | cons b r =>
      intro g hg
      rw [gaps_cons_cons, List.mem_cons] at hg
      rcases hg with rfl | hg
      · have := (List.pairwise_cons.mp h).1 b (List.mem_cons_self ..); linarith
      · exact ih (List.pairwise_cons.mp h).2 g hg

theorem circGaps_map_add (c : α) (l : List α) : circGaps (l.map (· + c)) = circGaps l := by
  cases l with
  | nil => rfl
  | cons a r =>
    show gaps ((a + c) :: r.map (· + c) ++ [a + c + 1]) = gaps (a :: r ++ [a + 1])
    have : (a + c) :: r.map (· + c) ++ [a + c + 1] = (a :: r ++ [a + 1]).map (· + c) := by
      simp; ring
    rw [this, gaps_map_add]

/-- the cyclic gaps are the interior gaps followed by the arc through phase 1 → 0 -/
theorem circGaps_eq (a : α) (r : List α) :
    circGaps (a :: r) = gaps (a :: r) ++ [a + 1 - (a :: r).getLast (List.cons_ne_nil _ _)] := by
  obtain ⟨X, p, hX⟩ : ∃ X p, a :: r = X ++ [p] := by
    refine ⟨(a :: r).dropLast, (a :: r).getLast (List.cons_ne_nil _ _), ?_⟩
    exact (List.dropLast_append_getLast _).symm
  show gaps (a :: r ++ [a + 1]) = _
  have hl : (a :: r).getLast (List.cons_ne_nil _ _) = p := by
    simp only [hX]; simp
  rw [hl]
  have : a :: r ++ [a + 1] = X ++ [p, a + 1] := by rw [hX]; simp
  rw [this, gaps_concat2, ← hX]

theorem circGaps_length (l : List α) : (circGaps l).length = l.length := by
  cases l with
  | nil => rfl
  | cons a r =>
    rw [circGaps_eq]
    have : ∀ l : List α, (gaps l).length = l.length - 1 := by
      intro l
      induction l with
      | nil => rfl
      | cons a l ih =>
        cases l with
        | nil => rfl
        | cons b r => simp only [gaps_cons_cons, List.length_cons, ih]; omega
    simp [this]

/-- rotating one point across the 0/1 boundary permutes the cyclic gaps -/
theorem circGaps_rotate_one (y h : α) (X : List α) :
    (circGaps ((y - 1) :: h :: X)).Perm (circGaps (h :: X ++ [y])) := by
  have e1 : circGaps ((y - 1) :: h :: X) = (h - (y - 1)) :: gaps (h :: X ++ [y]) := by
    simp [circGaps]
  have e2 : circGaps (h :: X ++ [y]) = gaps (h :: X ++ [y]) ++ [h + 1 - y] := by
    show gaps (h :: X ++ [y] ++ [h + 1]) = _
    have : h :: X ++ [y] ++ [h + 1] = (h :: X) ++ [y, h + 1] := by simp
    rw [this, gaps_concat2]
  rw [e1, e2, show h - (y - 1) = h + 1 - y by ring]
  exact (List.perm_append_singleton _ _).symm

/-- moving a whole block `B` from the end of the list across the 0/1 boundary (each point loses one turn)
permutes the cyclic gaps -/
theorem circGaps_rotate_block (B : List α) : ∀ A : List α,
    (circGaps (A ++ B)).Perm (circGaps (B.map (· - 1) ++ A)) := by
  induction B using List.reverseRecOn with
  | nil => intro A; simp
  | append_singleton B' y ih =>
    intro A
    have e : (B' ++ [y]).map (· - 1) ++ A = B'.map (· - 1) ++ ((y - 1) :: A) := by simp
    rw [e]
    refine List.Perm.trans ?_ (ih ((y - 1) :: A))
    cases hAB : A ++ B' with
    | nil =>
      have hA : A = [] := (List.append_eq_nil_iff.mp hAB).1
      have hB : B' = [] := (List.append_eq_nil_iff.mp hAB).2
      subst hA; subst hB
      simp [circGaps]
    | cons h X =>
      have e1 : A ++ (B' ++ [y]) = h :: X ++ [y] := by rw [← List.append_assoc, hAB]
      have e2 : (y - 1) :: A ++ B' = (y - 1) :: h :: X := by simp [hAB]
      rw [e1, e2]
      exact (circGaps_rotate_one y h X).symm

/-- mirroring the phases (φ ↦ 1 - φ) permutes the cyclic gaps -/
theorem circGaps_mirror (s : List α) : (circGaps ((s.map (1 - ·)).reverse)).Perm (circGaps s) := by
  cases s with
  | nil => simp [circGaps]
  | cons a r =>
    set Y := (r.map (1 - ·)).reverse with hY
    have hms : ((a :: r).map (1 - ·)).reverse = Y ++ [1 - a] := by simp [hY]
    have hT : gaps (((a :: r ++ [a + 1]).map (1 - ·)).reverse) = (gaps (a :: r ++ [a + 1])).reverse :=
      gaps_reverse_map_sub 1 _
    have hTl : ((a :: r ++ [a + 1]).map (1 - ·)).reverse = (1 - (a + 1)) :: (Y ++ [1 - a]) := by
      simp [hY]
    rw [hms]
    obtain ⟨h, X, hX⟩ : ∃ h X, Y ++ [1 - a] = h :: X := by
      cases Y with
      | nil => exact ⟨_, _, rfl⟩
      | cons y Y' => exact ⟨_, _, rfl⟩
    have e1 : circGaps (Y ++ [1 - a]) = gaps (Y ++ [1 - a]) ++ [h + 1 - (1 - a)] := by
      rw [hX]
      show gaps (h :: X ++ [h + 1]) = _
      rw [← hX]
      have : Y ++ [1 - a] ++ [h + 1] = Y ++ [1 - a, h + 1] := by simp
      rw [this, gaps_concat2]
    have e2 : (gaps (a :: r ++ [a + 1])).reverse = (h - (1 - (a + 1))) :: gaps (Y ++ [1 - a]) := by
      rw [← hT, hTl, hX, gaps_cons_cons]
    have e3 : circGaps (a :: r) = gaps (a :: r ++ [a + 1]) := rfl
    rw [e1, e3]
    have : h + 1 - (1 - a) = h - (1 - (a + 1)) := by ring
    rw [this]
    refine (List.perm_append_singleton _ _).trans ?_
    rw [← e2]
    exact List.reverse_perm _

/-- moving `z` points sitting at phase 1 back to phase 0 permutes the cyclic gaps -/
theorem circGaps_rotate_zeros (z : Nat) (h : α) (X : List α) :
    (circGaps (List.replicate z 0 ++ h :: X)).Perm (circGaps (h :: X ++ List.replicate z 1)) := by
  have := circGaps_rotate_block (List.replicate z (1 : α)) (h :: X)
  have e : (List.replicate z (1 : α)).map (· - 1) = List.replicate z 0 := by simp
  rw [e] at this
  exact this.symm

/-- the doubled list of the repaired code has the cyclic gaps' elements (interior gaps twice) -/
theorem gaps_doubled (a : α) (r : List α) :
    gaps ((a :: r) ++ (a :: r).map (· + 1)) =
      gaps (a :: r) ++ (a + 1 - (a :: r).getLast (List.cons_ne_nil _ _)) :: gaps (a :: r) := by
  obtain ⟨X, p, hX⟩ : ∃ X p, a :: r = X ++ [p] := by
    refine ⟨(a :: r).dropLast, (a :: r).getLast (List.cons_ne_nil _ _), ?_⟩
    exact (List.dropLast_append_getLast _).symm
  have hl : (a :: r).getLast (List.cons_ne_nil _ _) = p := by
    simp only [hX]; simp
  rw [hl]
  have e : (a :: r) ++ (a :: r).map (· + 1) = X ++ p :: (a + 1) :: r.map (· + 1) := by
    have : (a :: r).map (· + 1) = (a + 1) :: r.map (· + 1) := by simp
    rw [this]; rw [hX]; simp
  rw [e, gaps_append_mid, ← hX]
  have : (a + 1) :: r.map (· + 1) = (a :: r).map (· + 1) := by simp
  rw [this, gaps_map_add]

/-- the pinned code's doubled list: the wrap-around arc is replaced by `first - last` -/
theorem gaps_doubled_pinned (a : α) (r : List α) :
    gaps ((a :: r) ++ (a :: r)) =
      gaps (a :: r) ++ (a - (a :: r).getLast (List.cons_ne_nil _ _)) :: gaps (a :: r) := by
  obtain ⟨X, p, hX⟩ : ∃ X p, a :: r = X ++ [p] := by
    refine ⟨(a :: r).dropLast, (a :: r).getLast (List.cons_ne_nil _ _), ?_⟩
    exact (List.dropLast_append_getLast _).symm
  have hl : (a :: r).getLast (List.cons_ne_nil _ _) = p := by
    simp only [hX]; simp
  rw [hl]
  have e : (a :: r) ++ (a :: r) = X ++ p :: a :: r := by
    rw [hX]; simp
  rw [e, gaps_append_mid, ← hX]

end gaps
end Diag

/-! ### the largest cyclic gap: code formula, symmetries -/
namespace Diag
section circ
variable {α : Type} [Field α] [LinearOrder α] [IsStrictOrderedRing α]

theorem circGap_eq_none_iff {l : List α} : circGap l = none ↔ l = [] := by
  unfold circGap
  rw [maxList_eq_none_iff]
  constructor
  · intro h
    have := congrArg List.length h
    rw [circGaps_length, isort_length] at this
    exact List.eq_nil_of_length_eq_zero this
  · rintro rfl; rfl

theorem maxPhaseGap_eq_circGap' (l : List α) : maxPhaseGap l = circGap l := by
  unfold maxPhaseGap circGap
  cases hs : isort l with
  | nil => rfl
  | cons a r =>
    show maxList (gaps ((a :: r) ++ (a :: r).map (· + 1))) = maxList (circGaps (a :: r))
    rw [gaps_doubled, circGaps_eq]
    apply maxList_congr_mem
    intro x
    simp only [List.mem_append, List.mem_cons, List.not_mem_nil, or_false]
    tauto

theorem maxPhaseGapHead_eq_circGap' (l : List α) : maxPhaseGapHead l = circGap l := by
  unfold maxPhaseGapHead circGap
  cases hs : isort l with
  | nil => rfl
  | cons a r => rfl

/-- what the pinned code computes: the largest INTERIOR gap (or `first - last ≤ 0` when that is larger,
i.e. for a single distinct phase); the wrap-around arc never enters -/
theorem maxPhaseGapPinned_eq (l : List α) (a : α) (r : List α) (hs : isort l = a :: r) :
    maxPhaseGapPinned l = maxList (gaps (a :: r) ++ [a - (a :: r).getLast (List.cons_ne_nil _ _)]) := by
  unfold maxPhaseGapPinned
  rw [hs]
  show maxList (gaps ((a :: r) ++ (a :: r))) = _
  rw [gaps_doubled_pinned]
  apply maxList_congr_mem
  intro x
  simp only [List.mem_append, List.mem_cons, List.not_mem_nil, or_false]
  tauto

theorem circGap_perm' {l l' : List α} (h : l.Perm l') : circGap l = circGap l' := by
  unfold circGap; rw [isort_congr h]

/-- time reversal on the phase circle: `φ ↦ frac (-φ)` for `φ ∈ [0,1)` -/
def refl (φ : α) : α := if φ = 0 then 0 else 1 - φ

/-- a common phase shift by `c ∈ [0,1)`: `φ ↦ frac (φ + c)` for `φ ∈ [0,1)` -/
def rot (c φ : α) : α := if φ + c < 1 then φ + c else φ + c - 1

/-- in a sorted list, everything after the longest prefix satisfying a downward-closed predicate fails it -/
theorem dropWhile_sorted_not {p : α → Bool} (hp : ∀ x y, x ≤ y → p y = true → p x = true) :
    ∀ {s : List α}, s.Pairwise (· ≤ ·) → ∀ x ∈ s.dropWhile p, p x = false := by
  intro s
  induction s with
  | nil => intro _ x hx; simp at hx
  | cons a r ih =>
    intro hs x hx
    rw [List.dropWhile_cons] at hx
    split at hx
    · exact ih (List.pairwise_cons.mp hs).2 x hx
    · rename_i hpa
      have hax : a ≤ x := by
        rcases List.mem_cons.mp hx with rfl | h
        · exact le_rfl
        · exact (List.pairwise_cons.mp hs).1 x h
      by_contra hpx
      exact hpa (hp a x hax (by simpa using hpx))

theorem circGap_reflect' (l : List α) (hl : ∀ φ ∈ l, 0 ≤ φ ∧ φ < 1) :
    circGap (l.map refl) = circGap l := by
  set s := isort l with hs
  have hsP : s.Pairwise (· ≤ ·) := isort_pairwise _
  have hsl : s.Perm l := isort_perm l
  have hsr : ∀ φ ∈ s, 0 ≤ φ ∧ φ < 1 := fun φ h => hl φ (hsl.subset h)
  set Z := s.takeWhile (fun x => decide (x ≤ 0)) with hZ
  set Pz := s.dropWhile (fun x => decide (x ≤ 0)) with hPz
  have hsplit : s = Z ++ Pz := (List.takeWhile_append_dropWhile).symm
  have hZ0 : ∀ x ∈ Z, x = 0 := by
    intro x hx
    have h1 := List.mem_takeWhile_imp hx
    have h2 := (hsr x (by rw [hsplit]; exact List.mem_append_left _ hx)).1
    exact le_antisymm (by simpa using h1) h2
  have hZrep : Z = List.replicate Z.length 0 := List.eq_replicate_iff.mpr ⟨rfl, hZ0⟩
  have hPzP : Pz.Pairwise (· ≤ ·) := by
    have := hsP; rw [hsplit] at this; exact (List.pairwise_append.mp this).2.1
  have hPzpos : ∀ x ∈ Pz, 0 < x := by
    intro x hx
    have := dropWhile_sorted_not (p := fun x : α => decide (x ≤ 0))
      (by intro x y hxy hy; simp only [decide_eq_true_eq] at hy ⊢; exact le_trans hxy hy) hsP x hx
    simpa using this
  have hPzlt : ∀ x ∈ Pz, x < 1 := fun x hx => (hsr x (by rw [hsplit]; exact List.mem_append_right _ hx)).2
  set mP := (Pz.map (1 - ·)).reverse with hmP
  have hmPmem : ∀ y ∈ mP, 0 < y := by
    intro y hy
    rw [hmP, List.mem_reverse, List.mem_map] at hy
    obtain ⟨x, hx, rfl⟩ := hy
    linarith [hPzlt x hx]
  have hmPsorted : mP.Pairwise (· ≤ ·) := by
    rw [hmP, List.pairwise_reverse, List.pairwise_map]
    exact hPzP.imp (fun {a b} hab => by linarith)
  have hRsorted : (Z ++ mP).Pairwise (· ≤ ·) := by
    rw [List.pairwise_append]
    refine ⟨?_, hmPsorted, ?_⟩
    · rw [hZrep]; exact List.pairwise_replicate.mpr (Or.inr le_rfl)
    · intro x hx y hy; rw [hZ0 x hx]; exact (hmPmem y hy).le
  have hRperm : (Z ++ mP).Perm (l.map refl) := by
    have h1 : (s.map refl).Perm (l.map refl) := hsl.map _
    refine List.Perm.trans ?_ h1
    rw [hsplit, List.map_append]
    refine List.Perm.append ?_ ?_
    · have : Z.map refl = Z := by
        conv_rhs => rw [← List.map_id Z]
        apply List.map_congr_left
        intro x hx; simp [refl, hZ0 x hx]
      rw [this]
    · have : Pz.map refl = Pz.map (1 - ·) := by
        apply List.map_congr_left
        intro x hx; simp [refl, (hPzpos x hx).ne']
      rw [this, hmP]; exact List.reverse_perm _
  have hsortR : isort (l.map refl) = Z ++ mP := isort_eq_of_sorted_perm hRsorted hRperm
  unfold circGap
  rw [hsortR, ← hs]
  apply maxList_perm
  have hmirror : (s.map (1 - ·)).reverse = mP ++ List.replicate Z.length 1 := by
    rw [hsplit, List.map_append, List.reverse_append, ← hmP]
    congr 1
    rw [hZrep]; simp
  cases hm : mP with
  | nil =>
    have hPznil : Pz = [] := by
      have : (Pz.map (1 - ·)).reverse = [] := by rw [← hmP, hm]
      simpa using this
    rw [hsplit, hPznil]
  | cons h X =>
    rw [hZrep]
    refine (circGaps_rotate_zeros Z.length h X).trans ?_
    rw [← hm, ← hmirror]
    exact circGaps_mirror s

theorem circGap_rotate' (c : α) (l : List α) (hl : ∀ φ ∈ l, 0 ≤ φ ∧ φ < 1) :
    circGap (l.map (rot c)) = circGap l := by
  set s := isort l with hs
  have hsP : s.Pairwise (· ≤ ·) := isort_pairwise _
  have hsl : s.Perm l := isort_perm l
  have hsr : ∀ φ ∈ s, 0 ≤ φ ∧ φ < 1 := fun φ h => hl φ (hsl.subset h)
  set A := s.takeWhile (fun x => decide (x + c < 1)) with hA
  set B := s.dropWhile (fun x => decide (x + c < 1)) with hB
  have hsplit : s = A ++ B := (List.takeWhile_append_dropWhile).symm
  have hAlt : ∀ x ∈ A, x + c < 1 := by
    intro x hx; simpa using List.mem_takeWhile_imp hx
  have hBge : ∀ x ∈ B, ¬ (x + c < 1) := by
    intro x hx
    have := dropWhile_sorted_not (p := fun x : α => decide (x + c < 1))
      (by intro x y hxy hy; simp only [decide_eq_true_eq] at hy ⊢; linarith) hsP x hx
    simpa using this
  have hAP : A.Pairwise (· ≤ ·) := by
    have := hsP; rw [hsplit] at this; exact (List.pairwise_append.mp this).1
  have hBP : B.Pairwise (· ≤ ·) := by
    have := hsP; rw [hsplit] at this; exact (List.pairwise_append.mp this).2.1
  have hAr : ∀ x ∈ A, 0 ≤ x := fun x hx => (hsr x (by rw [hsplit]; exact List.mem_append_left _ hx)).1
  have hBr : ∀ x ∈ B, x < 1 := fun x hx => (hsr x (by rw [hsplit]; exact List.mem_append_right _ hx)).2
  -- the rotated, sorted list
  set R := (B.map (· - 1) ++ A).map (· + c) with hR
  have hRsorted : R.Pairwise (· ≤ ·) := by
    rw [hR, List.pairwise_map, List.pairwise_append]
    refine ⟨?_, ?_, ?_⟩
    · rw [List.pairwise_map]; exact hBP.imp (fun {a b} hab => by linarith)
    · exact hAP.imp (fun {a b} hab => by linarith)
    · intro x hx y hy
      rw [List.mem_map] at hx
      obtain ⟨b, hb, rfl⟩ := hx
      linarith [hBr b hb, hAr y hy]
  have hRperm : R.Perm (l.map (rot c)) := by
    have h1 : (s.map (rot c)).Perm (l.map (rot c)) := hsl.map _
    refine List.Perm.trans ?_ h1
    rw [hsplit, List.map_append, hR, List.map_append]
    refine List.Perm.trans List.perm_append_comm ?_
    refine List.Perm.append ?_ ?_
    · have : A.map (rot c) = A.map (· + c) := by
        apply List.map_congr_left
        intro x hx; simp [rot, hAlt x hx]
      rw [this]
    · have : B.map (rot c) = (B.map (· - 1)).map (· + c) := by
        rw [List.map_map]
        apply List.map_congr_left
        intro x hx; simp only [rot, hBge x hx, if_false, Function.comp]; ring
      rw [this]
  have hsortR : isort (l.map (rot c)) = R := isort_eq_of_sorted_perm hRsorted hRperm
  unfold circGap
  rw [hsortR, ← hs, hR, circGaps_map_add]
  apply maxList_perm
  rw [hsplit]
  exact (circGaps_rotate_block B A).symm

/-- every cyclic gap of sorted phases in `[0,1)` is an arc length in `[0,1]`, and they add up to the full circle
only through the list structure; here: each is non-negative -/
theorem circGaps_nonneg {s : List α} (hs : s.Pairwise (· ≤ ·)) (hr : ∀ φ ∈ s, 0 ≤ φ ∧ φ < 1) :
    ∀ g ∈ circGaps s, 0 ≤ g := by
  cases s with
  | nil => simp [circGaps]
  | cons a r =>
    show ∀ g ∈ gaps (a :: r ++ [a + 1]), 0 ≤ g
    apply gaps_nonneg
    have : a :: r ++ [a + 1] = (a :: r) ++ [a + 1] := rfl
    rw [this, List.pairwise_append]
    refine ⟨hs, List.pairwise_singleton _ _, ?_⟩
    intro x hx y hy
    simp only [List.mem_singleton] at hy
    subst hy
    have := (hr x hx).2
    have := (hr a (List.mem_cons_self ..)).1
    linarith
end circ

/-! ### phases (needs a floor) -/
section phase
variable {α : Type} [Field α] [LinearOrder α] [IsStrictOrderedRing α] [FloorRing α]

theorem frac_eq_fract (x : α) : frac Int.floor x = Int.fract x := Int.self_sub_floor x

theorem phase_eq_fract (tref P t : α) : phase Int.floor tref P t = Int.fract ((t - tref) / P) :=
  frac_eq_fract _

theorem refl_eq_fract {φ : α} (h0 : 0 ≤ φ) (h1 : φ < 1) : refl φ = Int.fract (-φ) := by
  unfold refl
  split
  · rename_i h; subst h; simp
  · rename_i h
    symm
    rw [Int.fract_eq_iff]
    refine ⟨by linarith, ?_, ⟨-1, by push_cast; ring⟩⟩
    have : 0 < φ := lt_of_le_of_ne h0 (Ne.symm h)
    linarith

theorem rot_eq_fract {c φ : α} (hc0 : 0 ≤ c) (hc1 : c < 1) (h0 : 0 ≤ φ) (h1 : φ < 1) :
    rot c φ = Int.fract (φ + c) := by
  unfold rot
  split
  · rename_i h
    symm; rw [Int.fract_eq_iff]
    exact ⟨by linarith, h, ⟨0, by simp⟩⟩
  · rename_i h
    symm; rw [Int.fract_eq_iff]
    exact ⟨by linarith [not_lt.mp h], by linarith, ⟨1, by push_cast; ring⟩⟩

/-- shifting by any amount is a rotation by its fractional part -/
theorem fract_add_eq_rot (x d : α) : Int.fract (x + d) = rot (Int.fract d) (Int.fract x) := by
  rw [rot_eq_fract (Int.fract_nonneg _) (Int.fract_lt_one _) (Int.fract_nonneg _) (Int.fract_lt_one _)]
  rw [Int.fract_eq_fract]
  refine ⟨⌊x⌋ + ⌊d⌋, ?_⟩
  push_cast
  rw [← Int.self_sub_floor x, ← Int.self_sub_floor d]; ring

theorem fract_neg_eq_refl (x : α) : Int.fract (-x) = refl (Int.fract x) := by
  rw [refl_eq_fract (Int.fract_nonneg _) (Int.fract_lt_one _), Int.fract_eq_fract]
  refine ⟨-⌊x⌋, ?_⟩
  push_cast
  rw [← Int.self_sub_floor x]; ring
end phase

/-! ### histogram bins -/
section bins
variable {α : Type} [Field α] [LinearOrder α] [IsStrictOrderedRing α]

theorem hist_perm (n : Nat) {l l' : List α} (h : l.Perm l') : hist n l = hist n l' := by
  unfold hist
  apply List.map_congr_left
  intro k _
  exact (h.filter _).length_eq

theorem occupied_eq_card (n : Nat) (l : List α) :
    occupied n l = ((Finset.range n).filter (fun k => ∃ φ ∈ l, inBin n k φ = true)).card := by
  unfold occupied hist
  rw [List.filter_map, List.length_map]
  have hnd : ((List.range n).filter ((fun x => decide (0 < x)) ∘ fun k => (l.filter (inBin n k)).length)).Nodup :=
    (List.nodup_range).filter _
  rw [← List.toFinset_card_of_nodup hnd]
  congr 1
  ext k
  simp only [List.mem_toFinset, List.mem_filter, List.mem_range, Function.comp, decide_eq_true_eq,
    Finset.mem_filter, Finset.mem_range, List.length_pos_iff_exists_mem]

theorem inBin_iff (n k : Nat) (φ : α) :
    inBin n k φ = true ↔ edge n k ≤ φ ∧ (φ < edge n (k + 1) ∨ (k + 1 = n ∧ φ ≤ edge n (k + 1))) := by
  simp [inBin]

theorem edge_self {n : Nat} (hn : n ≠ 0) : edge (α := α) n n = 1 := by
  unfold edge
  have : (n : α) ≠ 0 := Nat.cast_ne_zero.mpr hn
  exact div_self this

theorem edge_mono {n : Nat} (hn : n ≠ 0) {j k : Nat} (h : j ≤ k) : edge (α := α) n j ≤ edge n k := by
  unfold edge
  have : (0 : α) < n := Nat.cast_pos.mpr (Nat.pos_of_ne_zero hn)
  exact div_le_div_of_nonneg_right (Nat.cast_le.mpr h) this.le

/-- the bins are disjoint -/
theorem inBin_unique {n : Nat} (hn : n ≠ 0) {j k : Nat} (hj : j < n) (hk : k < n) {φ : α}
    (h1 : inBin n j φ = true) (h2 : inBin n k φ = true) : j = k := by
  rw [inBin_iff] at h1 h2
  by_contra hne
  rcases Nat.lt_or_gt_of_ne hne with h | h
  · have := edge_mono (α := α) hn (Nat.succ_le_of_lt h)
    rcases h1.2 with h3 | ⟨h3, _⟩
    · exact absurd (lt_of_lt_of_le h3 (le_trans this h2.1)) (lt_irrefl _)
    · omega
  · have := edge_mono (α := α) hn (Nat.succ_le_of_lt h)
    rcases h2.2 with h3 | ⟨h3, _⟩
    · exact absurd (lt_of_lt_of_le h3 (le_trans this h1.1)) (lt_irrefl _)
    · omega
end bins

section binsfloor
variable {α : Type} [Field α] [LinearOrder α] [IsStrictOrderedRing α] [FloorRing α]

/-- every phase in `[0,1]` falls into some bin -/
theorem inBin_exists {n : Nat} (hn : n ≠ 0) {φ : α} (h0 : 0 ≤ φ) (h1 : φ ≤ 1) :
    ∃ k, k < n ∧ inBin n k φ = true := by
  have hnpos : (0 : α) < n := Nat.cast_pos.mpr (Nat.pos_of_ne_zero hn)
  rcases eq_or_lt_of_le h1 with rfl | hlt
  · refine ⟨n - 1, by omega, ?_⟩
    rw [inBin_iff]
    have e : n - 1 + 1 = n := by omega
    rw [e, edge_self hn]
    refine ⟨?_, Or.inr ⟨rfl, le_rfl⟩⟩
    rw [← edge_self (α := α) hn]; exact edge_mono hn (by omega)
  · have hx : 0 ≤ φ * n := mul_nonneg h0 hnpos.le
    refine ⟨⌊φ * n⌋₊, ?_, ?_⟩
    · rw [Nat.floor_lt hx]
      calc φ * n < 1 * n := by exact mul_lt_mul_of_pos_right hlt hnpos
        _ = n := one_mul _
    · rw [inBin_iff]
      unfold edge
      refine ⟨?_, Or.inl ?_⟩
      · rw [div_le_iff₀ hnpos]; exact Nat.floor_le hx
      · rw [lt_div_iff₀ hnpos]; push_cast; exact Nat.lt_floor_add_one _

theorem sum_indicator_eq_countP {β : Type} (p : β → Bool) (l : List β) :
    (l.map fun k => if p k then 1 else 0).sum = l.countP p := by
  induction l with
  | nil => rfl
  | cons a l ih =>
    simp only [List.map_cons, List.sum_cons, List.countP_cons, ih]
    split <;> omega

theorem nodup_all_eq_singleton {β : Type} {f : List β} {k0 : β} (hn : f.Nodup) (hall : ∀ x ∈ f, x = k0)
    (hmem : k0 ∈ f) : f.length = 1 := by
  cases f with
  | nil => cases hmem
  | cons a t =>
    cases t with
    | nil => rfl
    | cons b t' =>
      exfalso
      have ha := hall a (List.mem_cons_self ..)
      have hb := hall b (List.mem_cons_of_mem _ (List.mem_cons_self ..))
      have := (List.nodup_cons.mp hn).1
      apply this
      rw [ha, ← hb]; exact List.mem_cons_self ..

/-- every observation with phase in `[0,1]` is counted in exactly one bin: the histogram adds up to the number of
observations -/
theorem hist_total' {n : Nat} (hn : n ≠ 0) (l : List α) (hl : ∀ φ ∈ l, 0 ≤ φ ∧ φ ≤ 1) :
    (hist n l).sum = l.length := by
  induction l with
  | nil => simp [hist]
  | cons φ l ih =>
    have ih' := ih (fun ψ hψ => hl ψ (List.mem_cons_of_mem _ hψ))
    obtain ⟨k0, hk0, hb0⟩ := inBin_exists hn (hl φ (List.mem_cons_self ..)).1 (hl φ (List.mem_cons_self ..)).2
    unfold hist at ih' ⊢
    have e : (List.range n).map (fun k => ((φ :: l).filter (inBin n k)).length) =
        (List.range n).map (fun k => (if inBin n k φ then 1 else 0) + (l.filter (inBin n k)).length) := by
      apply List.map_congr_left
      intro k _
      rw [List.filter_cons]
      split <;> simp <;> omega
    rw [e, List.sum_map_add, ih', sum_indicator_eq_countP, List.countP_eq_length_filter]
    have : ((List.range n).filter (fun k => inBin n k φ)).length = 1 := by
      apply nodup_all_eq_singleton (k0 := k0) ((List.nodup_range).filter _)
      · intro x hx
        obtain ⟨hx1, hx2⟩ := List.mem_filter.mp hx
        exact inBin_unique hn (List.mem_range.mp hx1) hk0 hx2 hb0
      · exact List.mem_filter.mpr ⟨List.mem_range.mpr hk0, hb0⟩
    rw [this, List.length_cons]; omega
end binsfloor

/-! ### the arcs add up to the circle; bounds of the largest arc -/
section circsum
variable {α : Type} [Field α] [LinearOrder α] [IsStrictOrderedRing α]

/-- consecutive differences telescope -/
theorem gaps_sum_concat : ∀ (r : List α) (a b : α), (gaps (a :: r ++ [b])).sum = b - a := by
  intro r
  induction r with
  | nil => intro a b; simp [gaps]
  | cons c r ih =>
    intro a b
    show (gaps (a :: c :: (r ++ [b]))).sum = b - a
    rw [gaps, List.sum_cons]
    have := ih c b
    simp only [List.cons_append] at this
    rw [this]; ring

/-- the arcs between consecutive observations make up the whole circle -/
theorem circGaps_sum {s : List α} (h : s ≠ []) : (circGaps s).sum = 1 := by
  cases s with
  | nil => exact absurd rfl h
  | cons a r =>
    show (gaps (a :: r ++ [a + 1])).sum = 1
    rw [gaps_sum_concat]; ring

theorem sum_le_length_mul {l : List α} {m : α} (h : ∀ x ∈ l, x ≤ m) : l.sum ≤ l.length * m := by
  induction l with
  | nil => simp
  | cons x r ih =>
    have h1 := h x (List.mem_cons_self ..)
    have h2 := ih (fun y hy => h y (List.mem_cons_of_mem _ hy))
    simp only [List.sum_cons, List.length_cons, Nat.cast_add, Nat.cast_one]
    linarith

theorem le_sum_of_mem_nonneg {l : List α} (h : ∀ x ∈ l, 0 ≤ x) : 0 ≤ l.sum ∧ ∀ x ∈ l, x ≤ l.sum := by
  induction l with
  | nil => simp
  | cons y r ih =>
    have hy := h y (List.mem_cons_self ..)
    obtain ⟨hr, ihr⟩ := ih (fun z hz => h z (List.mem_cons_of_mem _ hz))
    simp only [List.sum_cons]
    refine ⟨by linarith, ?_⟩
    intro x hx
    rcases List.mem_cons.mp hx with rfl | hx
    · linarith
    · have := ihr x hx
      linarith

/-- bounds of the definition: with `n ≥ 1` observations at phases in `[0,1)` the largest empty arc is at least
`1/n` (pigeonhole on the circle) and at most the whole circle -/
theorem circGap_bounds' (l : List α) (hl : ∀ φ ∈ l, 0 ≤ φ ∧ φ < 1) (g : α) (hg : circGap l = some g) :
    1 ≤ (l.length : α) * g ∧ g ≤ 1 := by
  unfold circGap at hg
  rw [maxList_eq_some_iff] at hg
  obtain ⟨hmem, hmax⟩ := hg
  have hne : isort l ≠ [] := by
    intro h0; rw [h0] at hmem; simp [circGaps] at hmem
  have hsum := circGaps_sum hne
  have hnn := circGaps_nonneg (isort_pairwise l)
    (fun φ hφ => hl φ ((isort_perm l).mem_iff.mp hφ))
  constructor
  · have := sum_le_length_mul hmax
    rw [hsum, circGaps_length, isort_length] at this
    exact this
  · have := (le_sum_of_mem_nonneg hnn).2 g hmem
    rw [hsum] at this; exact this
end circsum

end Diag
