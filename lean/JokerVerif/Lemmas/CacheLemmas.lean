import JokerVerif.Model.Cache
/-! Helper lemmas for C13 (core Lean only). -/
namespace Cache

theorem mem_cut {fl : Fault} {l : List Step} {st : Step} (h : st ∈ cut fl l) : st ∈ l := by
  cases fl with
  | none => exact h
  | create => simp [cut] at h
  | step k => exact List.mem_of_mem_take h

/-! ### file-name input: allowed steps do not change the state at all -/

theorem apply_ok (s : St) (st : Step) (h : stepOK st = true) : apply s st = s := by
  cases st with
  | mkTemp f => simp [stepOK] at h
  | unlink f => simp [stepOK] at h
  | openUser p m =>
    cases m with
    | ro => rfl
    | rw => simp [stepOK] at h
  | writeTemp f => rfl
  | openTemp f m => rfl
  | body l => rfl

theorem foldl_ok (steps : List Step) (h : ∀ st ∈ steps, stepOK st = true) (s : St) :
    steps.foldl apply s = s := by
  induction steps generalizing s with
  | nil => rfl
  | cons st rest ih =>
    simp only [List.foldl_cons]
    rw [apply_ok s st (h st List.mem_cons_self)]
    exact ih (fun x hx => h x (List.mem_cons_of_mem _ hx)) s

theorem fileCall_state (s0 : St) (inner : List Step) (h : InnerOK inner) (fl : Fault) :
    (fileCall s0 inner fl).1 = s0 := by
  unfold fileCall fileTrace
  exact foldl_ok _ (fun st hst => h st (mem_cut hst)) s0

/-! ### object input: allowed steps only ever add / remove the cache file `f` itself -/

/-- the part of the state the try block cannot change: the other temp files and the user flag -/
def others (f : Nat) (s : St) : List Nat × Bool := (s.tmp.filter (· ≠ f), s.userWritten)

theorem apply_okFor (f : Nat) (s : St) (st : Step) (h : okFor f st = true) :
    others f (apply s st) = others f s := by
  cases st with
  | mkTemp g =>
    have hg : g = f := by simpa [okFor] using h
    subst hg
    simp [apply, others]
  | unlink g =>
    have hg : g = f := by simpa [okFor] using h
    subst hg
    simp [apply, others, List.filter_filter]
  | openUser p m =>
    cases m with
    | ro => rfl
    | rw => simp [okFor] at h
  | writeTemp g => rfl
  | openTemp g m => rfl
  | body l => rfl

theorem foldl_okFor (f : Nat) (steps : List Step) (h : ∀ st ∈ steps, okFor f st = true) (s : St) :
    others f (steps.foldl apply s) = others f s := by
  induction steps generalizing s with
  | nil => rfl
  | cons st rest ih =>
    simp only [List.foldl_cons]
    rw [ih (fun x hx => h x (List.mem_cons_of_mem _ hx)), apply_okFor f s st (h st List.mem_cons_self)]

theorem filter_ne_of_not_mem (f : Nat) (l : List Nat) (h : f ∉ l) : l.filter (· ≠ f) = l := by
  rw [List.filter_eq_self]
  intro a ha
  have : a ≠ f := fun e => h (e ▸ ha)
  simpa using this

theorem objectPre_ok (f : Nat) (blk : List Step) (h : BlockOK f blk) (fl : Fault) :
    ∀ st ∈ objectPre f blk fl, okFor f st = true := by
  intro st hst
  unfold objectPre at hst
  rcases List.mem_cons.mp hst with rfl | hin
  · simp [okFor]
  · exact h st (mem_cut hin)

/-- after the clean-up the state is the initial one -/
theorem cleanup_state (s0 s1 : St) (f : Nat) (hf : f ∉ s0.tmp) (ho : others f s1 = others f s0) :
    (cleanup s1 f).foldl apply s1 = s0 := by
  have h0 : s0.tmp.filter (· ≠ f) = s0.tmp := filter_ne_of_not_mem f s0.tmp hf
  simp only [others, Prod.mk.injEq] at ho
  obtain ⟨ht, hu⟩ := ho
  unfold cleanup
  cases s0 with
  | mk tmp0 uw0 =>
    cases s1 with
    | mk tmp1 uw1 =>
      simp only at ht hu h0 hf ⊢
      by_cases hc : tmp1.contains f = true
      · simp only [hc, if_true, List.foldl_cons, List.foldl_nil, apply]
        rw [ht, h0, hu]
      · have hc' : tmp1.contains f = false := by simpa using hc
        simp only [hc']
        have hnm : f ∉ tmp1 := by
          intro hm
          exact hc (List.contains_iff_mem.mpr hm)
        rw [filter_ne_of_not_mem f tmp1 hnm] at ht
        show ({ tmp := tmp1, userWritten := uw1 } : St) = { tmp := tmp0, userWritten := uw0 }
        rw [ht, h0, hu]

/-- the whole object call returns the machine to its initial state -/
theorem objectCall_state (s0 : St) (f : Nat) (hf : f ∉ s0.tmp) (blk : List Step) (h : BlockOK f blk)
    (fl : Fault) : (objectCall s0 f blk fl).1 = s0 := by
  unfold objectCall
  cases fl with
  | create => rfl
  | none =>
    simp only [objectTrace, List.foldl_append]
    exact cleanup_state s0 _ f hf (foldl_okFor f _ (objectPre_ok f blk h .none) s0)
  | step k =>
    simp only [objectTrace, List.foldl_append]
    exact cleanup_state s0 _ f hf (foldl_okFor f _ (objectPre_ok f blk h (.step k)) s0)

/-! ### soundness of the trace recogniser -/

theorem all_stepOK {l : List Step} (h : l.all stepOK = true) : InnerOK l := by
  intro st hst
  exact List.all_eq_true.mp h st hst

theorem all_okFor {f : Nat} {l : List Step} (h : l.all (okFor f) = true) : BlockOK f l := by
  intro st hst
  exact List.all_eq_true.mp h st hst

theorem faultOf_raised (r : Bool) (blk : List Step) : (faultOf r blk).raised = r := by
  cases r <;> simp [faultOf, Fault.raised]

theorem objectPre_faultOf (f : Nat) (blk : List Step) (r : Bool) :
    objectPre f blk (faultOf r blk) = Step.mkTemp f :: blk := by
  cases r <;> simp [objectPre, faultOf, cut, List.take_of_length_le]

theorem objectTrace_faultOf (s0 : St) (f : Nat) (blk : List Step) (r : Bool) :
    objectTrace s0 f blk (faultOf r blk) =
      (Step.mkTemp f :: blk) ++
        cleanup ((Step.mkTemp f :: blk).foldl apply s0) f := by
  have hp := objectPre_faultOf f blk r
  cases r with
  | false =>
    have e : faultOf false blk = Fault.none := rfl
    rw [e] at hp ⊢
    show objectPre f blk Fault.none ++ cleanup ((objectPre f blk Fault.none).foldl apply s0) f = _
    rw [hp]
  | true =>
    have e : faultOf true blk = Fault.step blk.length := rfl
    rw [e] at hp ⊢
    show objectPre f blk (Fault.step blk.length) ++
      cleanup ((objectPre f blk (Fault.step blk.length)).foldl apply s0) f = _
    rw [hp]

theorem candA_sound (s0 : St) (f : Nat) (rest : List Step) (r : Bool) (f₁ : Nat) (blk : List Step) (fl : Fault)
    (h : candA s0 f rest r = some (f₁, blk, fl)) :
    f₁ = f ∧ BlockOK f blk ∧ objectTrace s0 f blk fl = Step.mkTemp f :: rest ∧ fl.raised = r := by
  unfold candA at h
  split at h
  · rename_i g hlast
    split at h
    · rename_i hc
      obtain ⟨hg, hall, hcont⟩ := hc
      simp only [Option.some.injEq, Prod.mk.injEq] at h
      obtain ⟨h1, h2, h3⟩ := h
      subst h1; subst h2; subst h3; subst hg
      obtain ⟨ys, hys⟩ := List.getLast?_eq_some_iff.mp hlast
      have hd : rest.dropLast = ys := by rw [hys]; simp
      refine ⟨rfl, all_okFor hall, ?_, faultOf_raised r _⟩
      rw [objectTrace_faultOf]
      unfold cleanup
      rw [hcont]
      simp only [if_true]
      rw [hd]
      rw [hys]
      simp
    · simp at h
  · simp at h

theorem candB_sound (s0 : St) (f : Nat) (rest : List Step) (r : Bool) (f₁ : Nat) (blk : List Step) (fl : Fault)
    (h : candB s0 f rest r = some (f₁, blk, fl)) :
    f₁ = f ∧ BlockOK f blk ∧ objectTrace s0 f blk fl = Step.mkTemp f :: rest ∧ fl.raised = r := by
  unfold candB at h
  split at h
  · rename_i hc
    obtain ⟨hall, hcont⟩ := hc
    simp only [Option.some.injEq, Prod.mk.injEq] at h
    obtain ⟨h1, h2, h3⟩ := h
    subst h1; subst h2; subst h3
    refine ⟨rfl, all_okFor hall, ?_, faultOf_raised r _⟩
    rw [objectTrace_faultOf]
    unfold cleanup
    rw [hcont]
    simp
  · simp at h

/-- an observed trace accepted by `matchObject` IS the trace of the model run it returns -/
theorem matchObject_sound (s0 : St) (tr : List Step) (r : Bool) (f : Nat) (blk : List Step) (fl : Fault)
    (h : matchObject s0 tr r = some (f, blk, fl)) :
    BlockOK f blk ∧ objectTrace s0 f blk fl = tr ∧ fl.raised = r := by
  unfold matchObject at h
  split at h
  · split at h
    · rename_i hr
      simp only [Option.some.injEq, Prod.mk.injEq] at h
      obtain ⟨h1, h2, h3⟩ := h
      subst h1; subst h2; subst h3
      exact ⟨fun _ hst => by simp at hst, rfl, by simp [Fault.raised, hr]⟩
    · simp at h
  · rename_i f' rest
    split at h
    · rename_i res hA
      simp only [Option.some.injEq] at h
      subst h
      obtain ⟨h1, h2, h3, h4⟩ := candA_sound s0 f' rest r f blk fl hA
      subst h1
      exact ⟨h2, h3, h4⟩
    · obtain ⟨h1, h2, h3, h4⟩ := candB_sound s0 f' rest r f blk fl h
      subst h1
      exact ⟨h2, h3, h4⟩
  · simp at h

theorem matchFile_sound (tr : List Step) (r : Bool) (inner : List Step) (fl : Fault)
    (h : matchFile tr r = some (inner, fl)) :
    InnerOK inner ∧ fileTrace inner fl = tr ∧ fl.raised = r := by
  unfold matchFile at h
  split at h
  · rename_i hall
    simp only [Option.some.injEq, Prod.mk.injEq] at h
    obtain ⟨h1, h2⟩ := h
    subst h1; subst h2
    refine ⟨all_stepOK hall, ?_, ?_⟩
    · cases r <;> simp [fileTrace, cut, List.take_of_length_le]
    · cases r <;> simp [Fault.raised]
  · simp at h

end Cache
