import JokerVerif.Model.Cache
/-! Helper lemmas for C13 (core Lean only). -/
namespace Cache

theorem mem_cut {fl : Fault} {l : List Step} {st : Step} (h : st ∈ cut fl l) : st ∈ l := by
  cases fl with
  | none => exact h
  | create => simp [cut] at h
  | step k => exact List.mem_of_mem_take h

theorem apply_ok (s : St) (st : Step) (h : stepOK st = true) : apply s st = s := by
  cases st with
  | mkTemp f => simp [stepOK] at h
  | unlink f => simp [stepOK] at h
  | openUser p m =>
    cases m with
    | ro => rfl
    | rw => simp [stepOK] at h
  | writeTemp f => rfl
  | openTemp f m => rfl
  | body l => rfl

theorem foldl_ok (steps : List Step) (h : ∀ st ∈ steps, stepOK st = true) (s : St) :
    steps.foldl apply s = s := by
  induction steps generalizing s with
  | nil => rfl
  | cons st rest ih =>
    simp only [List.foldl_cons]
    rw [apply_ok s st (h st List.mem_cons_self)]
    exact ih (fun x hx => h x (List.mem_cons_of_mem _ hx)) s

theorem tryBlock_ok (f : Nat) (inner : List Step) (h : InnerOK inner) (fl : Fault) :
    ∀ st ∈ cut fl (Step.writeTemp f :: inner), stepOK st = true := by
  intro st hst
  rcases List.mem_cons.mp (mem_cut hst) with rfl | hin
  · rfl
  · exact h st hin

theorem filter_ne_of_not_mem (f : Nat) (l : List Nat) (h : f ∉ l) : l.filter (· ≠ f) = l := by
  rw [List.filter_eq_self]
  intro a ha
  have : a ≠ f := fun e => h (e ▸ ha)
  simpa using this

theorem filter_cons_self (f : Nat) (l : List Nat) (h : f ∉ l) : (f :: l).filter (· ≠ f) = l := by
  rw [List.filter_cons_of_neg (by simp)]
  exact filter_ne_of_not_mem f l h

/-- create, run any allowed steps, unlink: back to the initial state -/
theorem bracket_state (s0 : St) (f : Nat) (hf : f ∉ s0.tmp) (mid : List Step)
    (h : ∀ st ∈ mid, stepOK st = true) :
    (Step.mkTemp f :: mid ++ [Step.unlink f]).foldl apply s0 = s0 := by
  simp only [List.cons_append, List.foldl_cons, List.foldl_append, List.foldl_nil]
  rw [foldl_ok _ h]
  cases s0 with
  | mk tmp uw =>
    simp only [apply]
    rw [filter_cons_self f tmp hf]

/-- the whole object call returns the machine to its initial state -/
theorem objectCall_state (s0 : St) (f : Nat) (hf : f ∉ s0.tmp) (inner : List Step) (h : InnerOK inner)
    (fl : Fault) : (objectCall s0 f inner fl).1 = s0 := by
  unfold objectCall
  cases fl with
  | create => rfl
  | none => exact bracket_state s0 f hf _ (tryBlock_ok f inner h .none)
  | step k => exact bracket_state s0 f hf _ (tryBlock_ok f inner h (.step k))

theorem fileCall_state (s0 : St) (inner : List Step) (h : InnerOK inner) (fl : Fault) :
    (fileCall s0 inner fl).1 = s0 := by
  unfold fileCall fileTrace
  exact foldl_ok _ (fun st hst => h st (mem_cut hst)) s0

end Cache

namespace Cache

theorem all_stepOK {l : List Step} (h : l.all stepOK = true) : InnerOK l := by
  intro st hst
  exact List.all_eq_true.mp h st hst

/-- an observed trace accepted by `matchObject` IS the trace of the model run it returns -/
theorem matchObject_sound (tr : List Step) (r : Bool) (f : Nat) (inner : List Step) (fl : Fault)
    (h : matchObject tr r = some (f, inner, fl)) :
    InnerOK inner ∧ objectTrace f inner fl = tr ∧ fl.raised = r := by
  unfold matchObject at h
  split at h
  · -- empty trace
    split at h
    · rename_i hr
      simp only [Option.some.injEq, Prod.mk.injEq] at h
      obtain ⟨h1, h2, h3⟩ := h
      subst h1; subst h2; subst h3
      exact ⟨fun _ hst => by simp at hst, rfl, by simp [Fault.raised, hr]⟩
    · simp at h
  · rename_i f0 rest
    split at h
    · rename_i f' hlast
      split at h
      · rename_i f'' inner0 hdrop
        split at h
        · rename_i hc
          obtain ⟨hf', hf'', hall⟩ := hc
          simp only [Option.some.injEq, Prod.mk.injEq] at h
          obtain ⟨h1, h2, h3⟩ := h
          subst h1; subst h2; subst hf'; subst hf''
          obtain ⟨ys, hys⟩ := List.getLast?_eq_some_iff.mp hlast
          have hd : rest.dropLast = ys := by rw [hys]; simp
          have hrest : rest = (Step.writeTemp f'' :: inner0) ++ [Step.unlink f''] := by
            rw [hys, ← hd, hdrop]
          refine ⟨all_stepOK hall, ?_, ?_⟩
          · subst h3
            cases r with
            | false => simp [objectTrace, cut, hrest]
            | true => simp [objectTrace, cut, hrest]
          · subst h3
            cases r <;> simp [Fault.raised]
        · simp at h
      · simp at h
    · simp at h
  · simp at h

theorem matchFile_sound (tr : List Step) (r : Bool) (inner : List Step) (fl : Fault)
    (h : matchFile tr r = some (inner, fl)) :
    InnerOK inner ∧ fileTrace inner fl = tr ∧ fl.raised = r := by
  unfold matchFile at h
  split at h
  · rename_i hall
    simp only [Option.some.injEq, Prod.mk.injEq] at h
    obtain ⟨h1, h2⟩ := h
    subst h1; subst h2
    refine ⟨all_stepOK hall, ?_, ?_⟩
    · cases r <;> simp [fileTrace, cut, List.take_of_length_le]
    · cases r <;> simp [Fault.raised]
  · simp at h

end Cache
