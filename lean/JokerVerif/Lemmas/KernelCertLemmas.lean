import JokerVerif.Model.KernelCert
import JokerVerif.Lemmas.KernelModel
/-! Soundness of the certificate checks of `Model/KernelCert.lean`. -/
open Matrix

namespace Kernel
variable {α : Type} [Field α] [DecidableEq α] {n k : Nat}

theorem checkInv_sound (x : KIn n k α) (X : Mat k k α) (h : checkInv x X = true) : X.toM = (kA x).toM := by
  have h1 : (kAinv x).toM * X.toM = 1 := by simpa [checkInv] using h
  rw [kA_toM]
  exact (inv_eq_right_inv h1).symm

theorem kBinvWith_congr (x : KIn n k α) (A A' : Mat k k α) (h : A.toM = A'.toM) :
    (kBinvWith x A).toM = (kBinvWith x A').toM := by
  simp only [kBinvWith, Mat.toM_ofM, h]

theorem kBinvWith_kA (x : KIn n k α) : (kBinvWith x (kA x)).toM = (kBinv x).toM := by
  simp only [kBinvWith, kBinv, Mat.toM_ofM]

theorem kchi2With_eq (x : KIn n k α) (X : Mat k k α) (h : checkInv x X = true) : kchi2With x X = kchi2 x := by
  have hX := checkInv_sound x X h
  have hB : (kBinvWith x X).toM = (kBinv x).toM := by rw [kBinvWith_congr x X (kA x) hX, kBinvWith_kA]
  simp only [kchi2With, kchi2, hB]

theorem kaWith_eq (x : KIn n k α) (X : Mat k k α) (h : checkInv x X = true) : kaWith x X = ka x := by
  have hX := checkInv_sound x X h
  simp only [kaWith, ka, hX]

theorem checkLU_det (x : KIn n k α) (L U : Mat k k α) (h : checkLU x L U = true) :
    (kAinv x).toM.det = ∏ j : Fin k, U.toM j j := by
  simp only [checkLU, Bool.and_eq_true, decide_eq_true_eq] at h
  obtain ⟨⟨⟨hLU, hL0⟩, hL1⟩, hU0⟩ := h
  have hU : U.toM.IsUpperTriangular := by
    intro i j hij
    have := hU0 i j
    have hji : j < i := hij
    simpa [hji] using this
  have hL : L.toM.IsLowerTriangular := by
    intro i j hij
    have := hL0 i j
    have hij' : i < j := by simpa using hij
    simpa [hij'] using this
  rw [← hLU, det_mul, det_of_isLowerTriangular _ hL, det_of_isUpperTriangular hU]
  simp [hL1]

theorem kdetCert_eq (x : KIn n k α) (L U : Mat k k α) (h : checkLU x L U = true) : kdetCert x U = kdetFast x := by
  unfold kdetCert kdetFast
  rw [checkLU_det x L U h]

end Kernel
