import Mathlib.LinearAlgebra.Matrix.NonsingularInverse
import Mathlib.LinearAlgebra.Matrix.SchurComplement
/-! Linear-algebra lemmas behind C01 / C03 / C04: completion of the square, Woodbury in the kernel's shape,
the determinant identity.  All over an arbitrary field. -/
open Matrix

namespace KernelLemmas
variable {α : Type} [Field α] {n k : ℕ}

theorem dot_mulVec_symm {m : ℕ} (S : Matrix (Fin m) (Fin m) α) (hS : Sᵀ = S) (u w : Fin m → α) :
    u ⬝ᵥ (S *ᵥ w) = w ⬝ᵥ (S *ᵥ u) := by
  rw [dotProduct_mulVec, ← hS, vecMul_transpose, dotProduct_comm, hS]

theorem dot_M (M : Matrix (Fin n) (Fin k) α) (u : Fin n → α) (w : Fin k → α) :
    u ⬝ᵥ (M *ᵥ w) = w ⬝ᵥ (Mᵀ *ᵥ u) := by
  rw [dotProduct_mulVec, ← vecMul_transpose, transpose_transpose, dotProduct_comm]

theorem inv_diag {m : ℕ} (v : Fin m → α) (hv : ∀ i, v i ≠ 0) :
    (diagonal v)⁻¹ = diagonal (fun i => (v i)⁻¹) := by
  apply inv_eq_right_inv
  simp [diagonal_mul_diagonal, hv, ← diagonal_one]

/-- completion of the square, abstract form -/
theorem quad_identity
    (M : Matrix (Fin n) (Fin k) α) (C : Matrix (Fin n) (Fin n) α) (Li A : Matrix (Fin k) (Fin k) α)
    (hC : Cᵀ = C) (hLi : Liᵀ = Li)
    (hA1 : A * (Li + Mᵀ * C * M) = 1) (hA2 : (Li + Mᵀ * C * M) * A = 1)
    (y : Fin n → α) (mu x : Fin k → α) :
    let Ainv := Li + Mᵀ * C * M
    let a := A *ᵥ (Li *ᵥ mu + Mᵀ *ᵥ (C *ᵥ y))
    let Binv := C - C * M * A * Mᵀ * C
    (y - M *ᵥ x) ⬝ᵥ (C *ᵥ (y - M *ᵥ x)) + (x - mu) ⬝ᵥ (Li *ᵥ (x - mu))
      = (y - M *ᵥ mu) ⬝ᵥ (Binv *ᵥ (y - M *ᵥ mu)) + (x - a) ⬝ᵥ (Ainv *ᵥ (x - a)) := by
  intro Ainv a Binv
  set z := x - mu with hz
  set r := y - M *ᵥ mu with hr
  set g := Mᵀ *ᵥ (C *ᵥ r) with hg
  have hAinvT : Ainvᵀ = Ainv := by
    simp only [Ainv, transpose_add, transpose_mul, transpose_transpose, hC, hLi, Matrix.mul_assoc]
  have e1 : y - M *ᵥ x = r - M *ᵥ z := by
    simp only [hr, hz, mulVec_sub]; abel
  have e2 : a = mu + A *ᵥ g := by
    have : Li *ᵥ mu + Mᵀ *ᵥ (C *ᵥ y) = Ainv *ᵥ mu + g := by
      simp only [hg, hr, Ainv, mulVec_sub, add_mulVec, mulVec_mulVec, Matrix.mul_assoc]
      abel
    simp only [a]
    rw [this, mulVec_add, mulVec_mulVec, hA1, one_mulVec]
  have e3 : x - a = z - A *ᵥ g := by rw [e2, hz]; abel
  have e4 : Binv *ᵥ r = C *ᵥ r - C *ᵥ (M *ᵥ (A *ᵥ g)) := by
    simp only [Binv, sub_mulVec, hg, mulVec_mulVec, Matrix.mul_assoc]
  have h2 : ∀ w : Fin k → α, (M *ᵥ w) ⬝ᵥ (C *ᵥ r) = w ⬝ᵥ g := by
    intro w; rw [dotProduct_comm, dot_M, hg]
  have h1 : ∀ w : Fin k → α, r ⬝ᵥ (C *ᵥ (M *ᵥ w)) = w ⬝ᵥ g := by
    intro w
    rw [dot_mulVec_symm C hC r (M *ᵥ w)]
    exact h2 w
  have h3 : ∀ w : Fin k → α, (M *ᵥ w) ⬝ᵥ (C *ᵥ (M *ᵥ w)) = w ⬝ᵥ ((Mᵀ * C * M) *ᵥ w) := by
    intro w; rw [dotProduct_comm, dot_M]
    simp only [mulVec_mulVec, Matrix.mul_assoc]
  have h4 : Ainv *ᵥ (A *ᵥ g) = g := by rw [mulVec_mulVec, hA2, one_mulVec]
  have h5 : ∀ w : Fin k → α, w ⬝ᵥ (Ainv *ᵥ w) = w ⬝ᵥ (Li *ᵥ w) + w ⬝ᵥ ((Mᵀ * C * M) *ᵥ w) := by
    intro w; simp only [Ainv, add_mulVec, dotProduct_add]
  rw [e1, e3, e4]
  simp only [mulVec_sub, sub_dotProduct, dotProduct_sub, h1, h2, h3, h4]
  rw [dot_mulVec_symm Ainv hAinvT (A *ᵥ g) z, h4, h5 z]
  rw [dotProduct_comm (A *ᵥ g) g]
  ring

/-- Woodbury in the shape the kernel uses (`c` = inverse variances, `lam` = prior variances). -/
theorem kernel_woodbury (M : Matrix (Fin n) (Fin k) α) (c : Fin n → α) (lam : Fin k → α)
    (hc : ∀ i, c i ≠ 0) (hl : ∀ j, lam j ≠ 0)
    (hA : IsUnit (diagonal (fun j => (lam j)⁻¹) + Mᵀ * diagonal c * M).det) :
    (diagonal c - diagonal c * M * (diagonal (fun j => (lam j)⁻¹) + Mᵀ * diagonal c * M)⁻¹ * Mᵀ * diagonal c)
      * (diagonal (fun i => (c i)⁻¹) + M * diagonal lam * Mᵀ) = 1 := by
  set C := diagonal c with hC
  set Ci := diagonal (fun i => (c i)⁻¹) with hCi
  set L := diagonal lam with hL
  set Li := diagonal (fun j => (lam j)⁻¹) with hLi
  have h1 : C * Ci = 1 := by
    simp [hC, hCi, diagonal_mul_diagonal, hc, ← diagonal_one]
  have h2' : Li * L = 1 := by
    simp [hL, hLi, diagonal_mul_diagonal, hl, ← diagonal_one]
  set A := (Li + Mᵀ * C * M)⁻¹ with hAdef
  have hAinv : A * (Li + Mᵀ * C * M) = 1 := Matrix.nonsing_inv_mul _ hA
  have key : A * Mᵀ * C * (Ci + M * L * Mᵀ) = L * Mᵀ := by
    have : Mᵀ * C * (Ci + M * L * Mᵀ) = (Li + Mᵀ * C * M) * (L * Mᵀ) := by
      rw [Matrix.mul_add, Matrix.add_mul]
      rw [Matrix.mul_assoc Mᵀ C Ci, h1, Matrix.mul_one]
      rw [← Matrix.mul_assoc Li L, h2', Matrix.one_mul]
      simp only [Matrix.mul_assoc]
    calc A * Mᵀ * C * (Ci + M * L * Mᵀ) = A * (Mᵀ * C * (Ci + M * L * Mᵀ)) := by
          simp only [Matrix.mul_assoc]
      _ = A * ((Li + Mᵀ * C * M) * (L * Mᵀ)) := by rw [this]
      _ = (A * (Li + Mᵀ * C * M)) * (L * Mᵀ) := (Matrix.mul_assoc _ _ _).symm
      _ = L * Mᵀ := by rw [hAinv, Matrix.one_mul]
  calc (C - C * M * A * Mᵀ * C) * (Ci + M * L * Mᵀ)
      = C * (Ci + M * L * Mᵀ) - C * M * (A * Mᵀ * C * (Ci + M * L * Mᵀ)) := by
        rw [Matrix.sub_mul]; simp only [Matrix.mul_assoc]
    _ = C * (Ci + M * L * Mᵀ) - C * M * (L * Mᵀ) := by rw [key]
    _ = 1 := by
        rw [Matrix.mul_add, h1]; simp only [Matrix.mul_assoc]; abel

/-- determinant identity: det B = det C⁻¹ · det Λ · det A⁻¹ (code's shapes; c = inverse variances) -/
theorem det_identity (M : Matrix (Fin n) (Fin k) α) (c : Fin n → α) (lam : Fin k → α)
    (hc : ∀ i, c i ≠ 0) (hl : ∀ j, lam j ≠ 0) :
    (diagonal (fun i => (c i)⁻¹) + M * diagonal lam * Mᵀ).det
      = (∏ i, (c i)⁻¹) * (∏ j, lam j) * (diagonal (fun j => (lam j)⁻¹) + Mᵀ * diagonal c * M).det := by
  set Ci := diagonal (fun i => (c i)⁻¹) with hCi
  set C := diagonal c with hC
  set L := diagonal lam with hL
  set Li := diagonal (fun j => (lam j)⁻¹) with hLi
  have hCiu : IsUnit Ci.det := by
    rw [hCi, det_diagonal]; exact isUnit_iff_ne_zero.mpr (Finset.prod_ne_zero_iff.mpr fun i _ => inv_ne_zero (hc i))
  have hCiinv : Ci⁻¹ = C := by
    apply inv_eq_right_inv
    simp [hC, hCi, diagonal_mul_diagonal, hc, ← diagonal_one]
  have h2' : Li * L = 1 := by
    simp [hL, hLi, diagonal_mul_diagonal, hl, ← diagonal_one]
  have e1 : (Ci + M * L * Mᵀ).det = Ci.det * (1 + Mᵀ * C * (M * L)).det := by
    have := det_add_mul (A := Ci) (M * L) Mᵀ hCiu
    rw [hCiinv] at this
    exact this
  have e2 : (Li + Mᵀ * C * M) * L = 1 + Mᵀ * C * (M * L) := by
    rw [Matrix.add_mul, h2']; simp only [Matrix.mul_assoc]
  have e3 : (1 + Mᵀ * C * (M * L)).det = (Li + Mᵀ * C * M).det * L.det := by
    rw [← e2, det_mul]
  rw [e1, e3, hCi, hL, det_diagonal, det_diagonal]
  ring

end KernelLemmas
