import JokerVerif.Lemmas.KernelModel
import Mathlib.Analysis.SpecialFunctions.Log.Basic
import Mathlib.Analysis.SpecialFunctions.Trigonometric.Basic
import Mathlib.Analysis.SpecialFunctions.Pow.Real
import Mathlib.LinearAlgebra.Matrix.PosDef
import Mathlib.Analysis.Matrix.PosDef
import Mathlib.Algebra.Order.Star.Real
/-! Real-number lemmas for the kernel properties: the Gaussian log-density, positive definiteness,
the abstract marginalisation identity, the unit Jacobian. -/
open Matrix

namespace Kernel
noncomputable section
variable {n k : ℕ}

/-- log-density of a multivariate normal `N(m, S)` at `y` -/
def lnN {n : ℕ} (y m : Fin n → ℝ) (S : Matrix (Fin n) (Fin n) ℝ) : ℝ :=
  -(1/2) * ((y - m) ⬝ᵥ (S⁻¹ *ᵥ (y - m)) + Real.log ((2 * Real.pi) ^ n * S.det))

theorem kernel_posdef (M : Matrix (Fin n) (Fin k) ℝ) (v : Fin n → ℝ) (lam : Fin k → ℝ)
    (hv : ∀ i, 0 < v i) (hl : ∀ j, 0 < lam j) :
    (diagonal v + M * diagonal lam * Mᵀ).PosDef ∧
    (diagonal (fun j => (lam j)⁻¹) + Mᵀ * diagonal (fun i => (v i)⁻¹) * M).PosDef := by
  constructor
  · apply PosDef.add_posSemidef (PosDef.diagonal hv)
    have h := (PosSemidef.diagonal (n := Fin k) (d := lam) (fun j => (hl j).le)).mul_mul_conjTranspose_same M
    simpa [conjTranspose_eq_transpose_of_trivial] using h
  · apply PosDef.add_posSemidef (PosDef.diagonal (fun j => inv_pos.mpr (hl j)))
    have h := (PosSemidef.diagonal (n := Fin n) (d := fun i => (v i)⁻¹) (fun i => (inv_pos.mpr (hv i)).le)).conjTranspose_mul_mul_same M
    simpa [conjTranspose_eq_transpose_of_trivial] using h

/-- the abstract identity behind C01 / C03 / C04: likelihood × prior = marginal × conditional posterior -/
theorem marginalisation_identity_abstract
    (M : Matrix (Fin n) (Fin k) ℝ) (y : Fin n → ℝ) (v : Fin n → ℝ) (mu lam : Fin k → ℝ) (x : Fin k → ℝ)
    (hv : ∀ i, v i ≠ 0) (hl : ∀ j, lam j ≠ 0)
    (hA : IsUnit ((diagonal lam)⁻¹ + Mᵀ * (diagonal v)⁻¹ * M).det) :
    let Cs := diagonal v
    let L := diagonal lam
    let Ainv := L⁻¹ + Mᵀ * Cs⁻¹ * M
    let A := Ainv⁻¹
    let a := A *ᵥ (L⁻¹ *ᵥ mu + Mᵀ *ᵥ (Cs⁻¹ *ᵥ y))
    let B := Cs + M * L * Mᵀ
    lnN y (M *ᵥ x) Cs + lnN x mu L = lnN y (M *ᵥ mu) B + lnN x a A := by
  intro Cs L Ainv A a B
  set c : Fin n → ℝ := fun i => (v i)⁻¹ with hcdef
  have hc : ∀ i, c i ≠ 0 := fun i => inv_ne_zero (hv i)
  have hCsinv : Cs⁻¹ = diagonal c := KernelLemmas.inv_diag v hv
  have hLinv : L⁻¹ = diagonal (fun j => (lam j)⁻¹) := KernelLemmas.inv_diag lam hl
  have hCs' : Cs = diagonal (fun i => (c i)⁻¹) := by simp [Cs, hcdef]
  have hAinv : Ainv = diagonal (fun j => (lam j)⁻¹) + Mᵀ * diagonal c * M := by
    simp only [Ainv, hCsinv, hLinv]
  have hAu : IsUnit (diagonal (fun j => (lam j)⁻¹) + Mᵀ * diagonal c * M).det := by
    rw [← hAinv]; exact hA
  have hW := KernelLemmas.kernel_woodbury M c lam hc hl hAu
  have hBeq : B = diagonal (fun i => (c i)⁻¹) + M * diagonal lam * Mᵀ := by simp only [B, hCs', L]
  have hBinv : B⁻¹ = diagonal c - diagonal c * M * A * Mᵀ * diagonal c := by
    rw [hBeq]; apply inv_eq_left_inv
    have : A = (diagonal (fun j => (lam j)⁻¹) + Mᵀ * diagonal c * M)⁻¹ := by simp only [A, hAinv]
    rw [this]; exact hW
  have hA1 : A * (diagonal (fun j => (lam j)⁻¹) + Mᵀ * diagonal c * M) = 1 := by
    rw [← hAinv]; exact Matrix.nonsing_inv_mul _ (by rw [hAinv]; exact hAu)
  have hA2 : (diagonal (fun j => (lam j)⁻¹) + Mᵀ * diagonal c * M) * A = 1 := by
    rw [← hAinv]; exact Matrix.mul_nonsing_inv _ (by rw [hAinv]; exact hAu)
  have hAinvinv : A⁻¹ = Ainv := Matrix.nonsing_inv_nonsing_inv _ (by rw [hAinv]; exact hAu)
  have hQ := KernelLemmas.quad_identity M (diagonal c) (diagonal (fun j => (lam j)⁻¹)) A
    (diagonal_transpose _) (diagonal_transpose _) hA1 hA2 y mu x
  simp only at hQ
  have hD := KernelLemmas.det_identity M c lam hc hl
  have hdetA : A.det = (Ainv.det)⁻¹ := by
    simp only [A]; rw [Matrix.det_nonsing_inv, Ring.inverse_eq_inv']
  have hdetCs : Cs.det = ∏ i, (c i)⁻¹ := by rw [hCs', det_diagonal]
  have hdetL : L.det = ∏ j, lam j := det_diagonal
  have hdAinv : Ainv.det ≠ 0 := by rw [hAinv]; exact hAu.ne_zero
  have hdCs : Cs.det ≠ 0 := by
    rw [hdetCs]; exact Finset.prod_ne_zero_iff.mpr fun i _ => inv_ne_zero (hc i)
  have hdL : L.det ≠ 0 := by rw [hdetL]; exact Finset.prod_ne_zero_iff.mpr fun j _ => hl j
  have hdetB : B.det = Cs.det * L.det * Ainv.det := by
    rw [hBeq, hD, hdetCs, hdetL, hAinv]
  have hdB : B.det ≠ 0 := by rw [hdetB]; exact mul_ne_zero (mul_ne_zero hdCs hdL) hdAinv
  have hdA : A.det ≠ 0 := by rw [hdetA]; exact inv_ne_zero hdAinv
  have hpn : ((2 * Real.pi) ^ n : ℝ) ≠ 0 := pow_ne_zero _ (by positivity)
  have hpk : ((2 * Real.pi) ^ k : ℝ) ≠ 0 := pow_ne_zero _ (by positivity)
  have hlog : Real.log ((2 * Real.pi) ^ n * Cs.det) + Real.log ((2 * Real.pi) ^ k * L.det)
      = Real.log ((2 * Real.pi) ^ n * B.det) + Real.log ((2 * Real.pi) ^ k * A.det) := by
    rw [Real.log_mul hpn hdCs, Real.log_mul hpk hdL, Real.log_mul hpn hdB, Real.log_mul hpk hdA]
    have : Real.log B.det + Real.log A.det = Real.log Cs.det + Real.log L.det := by
      rw [← Real.log_mul hdB hdA, ← Real.log_mul hdCs hdL, hdetB, hdetA]
      congr 1; field_simp
    linarith
  unfold lnN
  rw [hBinv, hAinvinv, hCsinv, hLinv]
  have ha : a = A *ᵥ ((diagonal fun j => (lam j)⁻¹) *ᵥ mu + Mᵀ *ᵥ (diagonal c *ᵥ y)) := by
    simp only [a, hCsinv, hLinv]
  rw [ha, hAinv]
  linarith [hQ, hlog]

/-- re-expressing the data in a unit that is `c` times smaller (values × c) shifts the log-density by the
Jacobian constant `-n ln c` and nothing else -/
theorem lnN_unit_jacobian {n : ℕ} (y m : Fin n → ℝ) (S : Matrix (Fin n) (Fin n) ℝ) (c : ℝ) (hc : 0 < c)
    (hS : S.det ≠ 0) :
    lnN (c • y) (c • m) ((c ^ 2) • S) = lnN y m S - n * Real.log c := by
  unfold lnN
  have hc2 : (c ^ 2) ≠ 0 := pow_ne_zero 2 hc.ne'
  have hinv : ((c ^ 2) • S)⁻¹ = (c ^ 2)⁻¹ • S⁻¹ := by
    apply inv_eq_right_inv
    rw [smul_mul_smul_comm, Matrix.mul_nonsing_inv S (isUnit_iff_ne_zero.mpr hS), mul_inv_cancel₀ hc2, one_smul]
  have hq : (c • y - c • m) ⬝ᵥ (((c ^ 2) • S)⁻¹ *ᵥ (c • y - c • m)) = (y - m) ⬝ᵥ (S⁻¹ *ᵥ (y - m)) := by
    rw [hinv, ← smul_sub, smul_mulVec, mulVec_smul, dotProduct_smul, dotProduct_smul, smul_dotProduct]
    simp only [smul_eq_mul]
    field_simp
  have hdet : ((c ^ 2) • S).det = c ^ (2 * n) * S.det := by
    rw [det_smul, Fintype.card_fin, ← pow_mul]
  have hpi : (0:ℝ) < (2 * Real.pi) ^ n := pow_pos (by positivity) n
  rw [hq, hdet]
  have hcn : (0:ℝ) < c ^ (2 * n) := pow_pos hc _
  rw [show (2 * Real.pi) ^ n * (c ^ (2 * n) * S.det) = c ^ (2 * n) * ((2 * Real.pi) ^ n * S.det) by ring]
  rw [Real.log_mul hcn.ne' (mul_ne_zero hpi.ne' hS), Real.log_pow]
  push_cast
  ring

/-- uncapped branch of the K-variance rule is the square of the declared sigma -/
theorem lambdaK_eq_sigma_sq (s0 P P0 e : ℝ) (hP : 0 < P) (hP0 : 0 < P0) (he : e ^ 2 < 1) :
    s0 ^ 2 / (1 - e ^ 2) * (P / P0) ^ (-(2:ℝ) / 3) = (s0 * (P / P0) ^ (-(1:ℝ) / 3) / Real.sqrt (1 - e ^ 2)) ^ 2 := by
  have hq : 0 < P / P0 := div_pos hP hP0
  have h1 : 0 < 1 - e ^ 2 := by linarith
  rw [div_pow, mul_pow, Real.sq_sqrt h1.le, ← Real.rpow_natCast ((P / P0) ^ (-(1:ℝ) / 3)) 2, ← Real.rpow_mul hq.le]
  norm_num
  ring

end
end Kernel
