import JokerVerif.Lemmas.SamplesLemmas
import Mathlib.Analysis.SpecialFunctions.Trigonometric.Basic
import Mathlib.Data.Rat.Floor
import Mathlib.Algebra.Order.Field.Rat
import Mathlib.Tactic.NormNum
/-!
# C17 — sample-table operations preserve the physical orbit and its metadata

Property theorems only.  Tables have any number of rows and columns; index expressions are arbitrary.
`wrap_K` is treated for an `omega` column in any angular unit: `h` is half a turn in that unit (π for rad, 180
for deg) and `c = π / h` converts it to radians.
-/
set_option linter.unusedSectionVars false
namespace Samples
open Real

/-! ## wrap_K -/
section wrap
variable {α : Type} [Field α] [LinearOrder α] [IsStrictOrderedRing α] [FloorRing α]

/-- after `wrap_K` every amplitude is non-negative -/
theorem wrapK_nonneg (h K ω : α) : 0 ≤ (wrapK Int.floor h K ω).1 := by
  unfold wrapK
  split
  · rename_i hK; simp only; linarith
  · rename_i hK; exact not_lt.mp hK

/-- rows with `K ≥ 0` are not touched at all -/
theorem wrapK_unchanged (h K ω : α) (hK : 0 ≤ K) : wrapK Int.floor h K ω = (K, ω) := by
  unfold wrapK; rw [if_neg (not_lt.mpr hK)]

/-- rows with `K < 0`: `K ↦ -K`, and `ω` moves by half a turn modulo a full turn, into `[0, full turn)` -/
theorem wrapK_moved (h K ω : α) (hh : 0 < h) (hK : K < 0) :
    (wrapK Int.floor h K ω).1 = -K ∧
      0 ≤ (wrapK Int.floor h K ω).2 ∧ (wrapK Int.floor h K ω).2 < 2 * h ∧
      ∃ m : ℤ, (wrapK Int.floor h K ω).2 = ω + h - m * (2 * h) := by
  unfold wrapK
  rw [if_pos hK]
  have h2 : 0 < h + h := by linarith
  refine ⟨rfl, fmod_nonneg _ h2, ?_, ⌊(ω + h) / (h + h)⌋, ?_⟩
  · have := fmod_lt (ω + h) h2; simpa [two_mul] using this
  · simp only [fmod_eq, two_mul]

/-- `wrap_K` is idempotent -/
theorem wrapK_idem (h K ω : α) :
    wrapK Int.floor h (wrapK Int.floor h K ω).1 (wrapK Int.floor h K ω).2 = wrapK Int.floor h K ω :=
  wrapK_unchanged h _ _ (wrapK_nonneg h K ω)
end wrap

/-- `wrap_K` does not change the RV curve of any row: for every eccentricity `e` and every true anomaly `f`,
`K' (cos (ω' + f) + e cos ω') = K (cos (ω + f) + e cos ω)` (angles converted to radians by `c = π/h`) -/
theorem wrapK_same_curve (h c : ℝ) (hh : 0 < h) (hc : c * h = π) (K e ω f : ℝ) :
    curve Real.cos c (wrapK Int.floor h K ω).1 e (wrapK Int.floor h K ω).2 f = curve Real.cos c K e ω f := by
  rcases lt_or_ge K 0 with hK | hK
  · obtain ⟨h1, _, _, m, h4⟩ := wrapK_moved h K ω hh hK
    rw [h1, h4]
    unfold curve
    have e1 : c * (ω + h - m * (2 * h)) = (c * ω + π) - m * (2 * π) := by
      rw [← hc]; ring
    have e2 : c * (ω + h - m * (2 * h)) + f = ((c * ω + f) + π) - m * (2 * π) := by
      rw [← hc]; ring
    rw [e2, e1, Real.cos_sub_int_mul_two_pi, Real.cos_sub_int_mul_two_pi, Real.cos_add_pi, Real.cos_add_pi]
    ring
  · rw [wrapK_unchanged h K ω hK]

/-- the same in radians (`h = π`) and in degrees (`h = 180`) -/
theorem wrapK_same_curve_rad (K e ω f : ℝ) :
    curve Real.cos 1 (wrapK Int.floor π K ω).1 e (wrapK Int.floor π K ω).2 f = curve Real.cos 1 K e ω f :=
  wrapK_same_curve π 1 Real.pi_pos (one_mul _) K e ω f

theorem wrapK_same_curve_deg (K e ω f : ℝ) :
    curve Real.cos (π / 180) (wrapK Int.floor 180 K ω).1 e (wrapK Int.floor 180 K ω).2 f =
      curve Real.cos (π / 180) K e ω f :=
  wrapK_same_curve 180 (π / 180) (by norm_num) (by ring) K e ω f

/-! ## get_time_with_phase / get_t0 -/
section phase
variable {α : Type} [Field α]

/-- at the time returned for phase `φ` the mean anomaly `2π (t − t_ref)/P − M0` equals `φ` -/
theorem time_with_phase_has_phase (twoPi tref P M0 φ : α) (hP : P ≠ 0) (hpi : twoPi ≠ 0) :
    meanAnomaly twoPi tref P M0 (timeWithPhase twoPi tref P M0 φ) = φ := by
  unfold meanAnomaly timeWithPhase; field_simp; ring

/-- `get_t0`: mean anomaly zero -/
theorem t0_has_phase_zero (twoPi tref P M0 : α) (hP : P ≠ 0) (hpi : twoPi ≠ 0) :
    meanAnomaly twoPi tref P M0 (t0 twoPi tref P M0) = 0 :=
  time_with_phase_has_phase twoPi tref P M0 0 hP hpi
end phase

/-- over the reals, with the true `2π` -/
theorem time_with_phase_has_phase_real (tref P M0 φ : ℝ) (hP : P ≠ 0) :
    meanAnomaly (2 * π) tref P M0 (timeWithPhase (2 * π) tref P M0 φ) = φ :=
  time_with_phase_has_phase _ _ _ _ _ hP (by positivity)

/-! ## indexing, masking, copy, mean / std, median_period -/
section ops
variable {α : Type}

/-- `samples[i]` (also negative `i`): the one row asked for, all columns from that same row -/
theorem getInt_rows (t t' : Table α) (i : Int) (h : getInt t i = .ok t') :
    ∃ k, resolveIndex t.nrows i = .ok k ∧ RowsOf t [k] t' := by
  unfold getInt at h
  obtain ⟨k, hk, h2⟩ := bind_ok h
  exact ⟨k, hk, rowsOf_of_take t t' [k] h2⟩

/-- `samples[index_array]`: rows in the order of the index array, repeated indices repeat the row -/
theorem getIdx_rows (t t' : Table α) (idx : List Int) (h : getIdx t idx = .ok t') :
    ∃ ks, List.Forall₂ (fun i k => resolveIndex t.nrows i = .ok k) idx ks ∧ RowsOf t ks t' := by
  unfold getIdx at h
  obtain ⟨ks, hk, h2⟩ := bind_ok h
  exact ⟨ks, mapM_except_forall₂ _ _ _ hk, rowsOf_of_take t t' ks h2⟩

/-- `samples[mask]`: exactly the rows where the mask is true, in table order -/
theorem getMask_rows (t t' : Table α) (mask : List Bool) (h : getMask t mask = .ok t') :
    mask.length = t.nrows ∧ RowsOf t (maskPositions mask) t' := by
  unfold getMask at h
  split at h
  · cases h
  · rename_i hl
    exact ⟨not_not.mp hl, rowsOf_of_take t t' _ h⟩

/-- `samples[a:b:c]` -/
theorem getSlice_rows (t t' : Table α) (a b : Option Int) (c : Int) (h : getSlice t a b c = .ok t') :
    ∃ ks, sliceIndices t.nrows a b c = .ok ks ∧ RowsOf t ks t' := by
  unfold getSlice at h
  obtain ⟨ks, hk, h2⟩ := bind_ok h
  exact ⟨ks, hk, rowsOf_of_take t t' ks h2⟩

/-- a slice (any start / stop / step ≠ 0, Python semantics) only ever selects rows of the table -/
theorem slice_rows_in_table (n : Nat) (a b : Option Int) (c : Int) (ks : List Nat)
    (h : sliceIndices n a b c = .ok ks) : ∀ k ∈ ks, k < n := sliceIndices_lt' n a b c ks h

/-- every operation of the property returns a table with the same units, reference epoch, `poly_trend` and
`n_offsets` (and column names) -/
theorem ops_preserve_meta [Field α] [LinearOrder α] (sqrt : α → α) (t t' : Table α) :
    (∀ i, getInt t i = .ok t' → t'.md = t.md ∧ t'.headers = t.headers) ∧
    (∀ a b c, getSlice t a b c = .ok t' → t'.md = t.md ∧ t'.headers = t.headers) ∧
    (∀ mask, getMask t mask = .ok t' → t'.md = t.md ∧ t'.headers = t.headers) ∧
    (∀ idx, getIdx t idx = .ok t' → t'.md = t.md ∧ t'.headers = t.headers) ∧
    ((copy t).md = t.md ∧ (copy t).headers = t.headers ∧ (copy t).cols = t.cols) ∧
    (mean t = .ok t' → t'.md = t.md ∧ t'.headers = t.headers) ∧
    (std sqrt t = .ok t' → t'.md = t.md ∧ t'.headers = t.headers) ∧
    (∀ i, medianPeriod t i = .ok t' → t'.md = t.md ∧ t'.headers = t.headers) := by
  refine ⟨?_, ?_, ?_, ?_, ?_, ?_, ?_, ?_⟩
  · intro i h; obtain ⟨k, _, hr⟩ := getInt_rows t t' i h; exact hr.meta
  · intro a b c h; obtain ⟨k, _, hr⟩ := getSlice_rows t t' a b c h; exact hr.meta
  · intro m h; exact (getMask_rows t t' m h).2.meta
  · intro idx h; obtain ⟨k, _, hr⟩ := getIdx_rows t t' idx h; exact hr.meta
  · refine ⟨rfl, ?_, ?_⟩
    · simp [copy, Table.headers]
    · simp [copy]
  · intro h; exact mapCols_meta _ t t' h
  · intro h; exact mapCols_meta _ t t' h
  · intro i h
    unfold medianPeriod at h
    split at h
    · cases h
    · split at h
      · obtain ⟨k, _, hr⟩ := getInt_rows t t' _ h; exact hr.meta
      · cases h

/-- `wrap_K` keeps the metadata, names and units, and touches only the `K` and `omega` columns -/
theorem wrapK_preserves_meta [Field α] [LinearOrder α] [IsStrictOrderedRing α] [FloorRing α]
    (h : α) (t t' : Table α) (hw : wrapKTable Int.floor h t = .ok t') :
    t'.md = t.md ∧ t'.headers = t.headers ∧
      List.Forall₂ (fun c c' => c.name ≠ "K" → c.name ≠ "omega" → c' = c) t.cols t'.cols := by
  unfold wrapKTable at hw
  split at hw
  · split at hw
    · cases hw
    · simp only [Except.ok.injEq] at hw
      subst hw
      refine ⟨rfl, ?_, ?_⟩
      · simp only [Table.headers, List.map_map]
        apply List.map_congr_left
        intro c _
        simp only [Function.comp, Col.header]
        split
        · rfl
        · split <;> rfl
      · rw [List.forall₂_map_right_iff]
        apply List.forall₂_same.mpr
        intro c _ h1 h2
        simp [h1, h2]
  · cases hw

/-- `mean` returns the arithmetic mean of every column as a one-row table -/
theorem mean_values [Field α] (t t' : Table α) (h : mean t = .ok t') :
    List.Forall₂ (fun c c' => c.vals ≠ [] ∧ c'.vals = [c.vals.foldl (· + ·) 0 / (c.vals.length : α)]) t.cols t'.cols := by
  obtain ⟨_, h2⟩ := mapCols_spec _ t t' h
  refine h2.imp ?_
  intro c c' hc
  have := hc.2.2
  unfold meanOf at this
  split at this
  · cases this
  · rename_i hne
    simp only [Except.ok.injEq] at this
    exact ⟨by simpa using hne, this.symm⟩
end ops

/-- `median_period` returns an actual member row: row `i` of the table, whole, where `P[i]` is the `⌊N/2⌋`-th
order statistic of the `P` column -/
theorem median_period_is_member {α : Type} [LinearOrder α] (t t' : Table α) (i : Nat)
    (h : medianPeriod t i = .ok t') :
    ∃ cP, t.col? "P" = some cP ∧ i < cP.vals.length ∧
      (∃ v, medianValue cP.vals = some v ∧ cP.vals[i]? = some v) ∧
      ∃ k, resolveIndex t.nrows (i : Int) = .ok k ∧ k = i ∧ RowsOf t [k] t' := by
  unfold medianPeriod at h
  split at h
  · cases h
  · rename_i cP hcP
    split at h
    · rename_i hi
      obtain ⟨hlt, hv⟩ := mem_medianCandidates.mp hi
      obtain ⟨k, hk, hr⟩ := getInt_rows t t' _ h
      have := resolveIndex_spec _ _ _ hk
      exact ⟨cP, hcP, hlt, hv, k, hk, by omega, hr⟩
    · cases h

/-- and there always is such a row when the table is not empty -/
theorem median_period_exists {α : Type} [LinearOrder α] (Ps : List α) (h : Ps ≠ []) :
    ∃ i, i ∈ medianCandidates Ps := List.exists_mem_of_ne_nil _ (medianCandidates_ne_nil h)

/-! ## pack ∘ unpack -/
section pack
variable {α : Type} [Field α]

/-- `unpack (pack s)` reproduces, in packing order, the requested names, the units reported by `pack`, and for
every column the values of the table's column of that name converted to that unit -/
theorem unpack_pack (t : Table α) (names : List String) (units : String → Option (QUnit α)) (md : Meta α)
    (rows : List (List α)) (us : List (String × QUnit α)) (h : pack t names units = .ok (rows, us)) :
    us.map (·.1) = names ∧ (unpack rows us md).md = md ∧
    List.Forall₂ (fun nm c' => ∃ c, t.col? nm = some c ∧ c'.name = nm ∧
        c'.unit = (units nm).getD c.unit ∧ c'.vals = c.vals.map (convert c.unit c'.unit))
      names (unpack rows us md).cols := by
  unfold pack at h
  obtain ⟨cols, hcols, h2⟩ := bind_ok h
  obtain ⟨rows', hrows, h3⟩ := bind_ok h2
  simp only [pure, Except.pure, Except.ok.injEq, Prod.mk.injEq] at h3
  obtain ⟨rfl, rfl⟩ := h3
  have hF := mapM_except_forall₂ _ _ _ hcols
  have hF' : List.Forall₂ (fun nm (c : String × QUnit α × List α) => ∃ c0, t.col? nm = some c0 ∧
      c = (nm, (units nm).getD c0.unit, c0.vals.map (convert c0.unit ((units nm).getD c0.unit)))) names cols := by
    refine hF.imp ?_
    intro nm c hc
    unfold packedCol at hc
    cases hcol : t.col? nm with
    | none => simp [hcol] at hc
    | some c0 =>
      simp only [hcol, Except.ok.injEq] at hc
      exact ⟨c0, rfl, hc.symm⟩
  refine ⟨?_, rfl, ?_⟩
  · rw [List.map_map]
    have : List.Forall₂ (fun nm x => nm = x) names (cols.map ((fun x : String × QUnit α => x.1) ∘ fun c => (c.1, c.2.1))) := by
      rw [List.forall₂_map_right_iff]
      refine hF'.imp ?_
      rintro nm c ⟨c0, _, rfl⟩; rfl
    rw [List.forall₂_eq_eq_eq] at this
    exact this.symm
  · rw [unpack_cols _ _ _ _ hrows, List.forall₂_map_right_iff]
    refine hF'.imp ?_
    rintro nm c ⟨c0, hc0, rfl⟩
    exact ⟨c0, hc0, rfl, rfl, rfl⟩

/-- the converted values denote the same physical quantities, and are the very same numbers when the unit is kept -/
theorem pack_values_physical (src dst : QUnit α) (v : α) (h : dst.scale ≠ 0) :
    convert src dst v * dst.scale = v * src.scale ∧ (dst = src → convert src dst v = v) :=
  ⟨convert_physical src dst v h, fun e => by subst e; exact convert_self _ v h⟩
end pack

/-! ## non-vacuity -/

-- K < 0 with omega in degrees: K flips, omega moves by 180 modulo 360 into [0, 360)
example : wrapK Int.floor (180 : ℚ) (-2) 200 = (2, 20) := by
  have : ⌊((200 : ℚ) + 180) / (180 + 180)⌋ = 1 := by rw [Int.floor_eq_iff]; norm_num
  simp only [wrapK, fmod, this]; norm_num
example : wrapK Int.floor (180 : ℚ) 3 400 = (3, 400) := by norm_num [wrapK]
-- hypotheses of the phase theorem are satisfiable
example : meanAnomaly (44/7 : ℚ) 55000 3 (1/2) (timeWithPhase (44/7) 55000 3 (1/2) (1/4)) = 1/4 :=
  time_with_phase_has_phase _ _ _ _ _ (by norm_num) (by norm_num)
-- a two-column, three-row table with metadata (`Samples.exTable`): index array [-1, 0], mask, reversed slice
example : (getIdx exTable [-1, 0]).toOption.map (·.cols.map (·.vals)) = some [[2, 3], [7, -1]] := by decide +kernel
example : (getMask exTable [true, false, true]).toOption.map (·.cols.map (·.vals)) = some [[3, 2], [-1, 7]] := by
  decide +kernel
example : (getSlice exTable none none (-1)).toOption.map (·.cols.map (·.vals)) = some [[2, 1, 3], [7, 5, -1]] := by
  decide +kernel
example : (getIdx exTable [-1, 0]).toOption.map (·.md.polyTrend) = some 2 := by decide +kernel

end Samples
