/-! # C17 — property theorems (to be filled in) -/
