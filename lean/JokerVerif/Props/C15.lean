import JokerVerif.Lemmas.DataLemmas
import Mathlib.Algebra.Field.Basic
/-!
# C15 — RVData preserves the observations it is given

Property theorems only.  All statements hold for every input length, every placement of non-finite values,
every `clean`, every `t_ref` argument and **every** permutation `perm` the model accepts as the result of
`argsort` (numpy's default sort is not stable, so on tied times several permutations are possible).
`fint`/`finv` = "is finite" on times / velocities, `le` = the order on times (hypotheses on it are stated where
needed).  `selection keep perm` is the list of input positions that make up the output, in output order.
-/
namespace Data
variable {τ ν υ : Type} (fint : τ → Bool) (finv : ν → Bool) (le : τ → τ → Bool)

/-- each time stays paired with its own velocity and uncertainty: the zipped output arrays are the zipped
input arrays indexed by the one selection list -/
theorem pairing_preserved (ts : List τ) (rvs es : List ν) (uRv uErr : υ) (clean : Bool) (tref : TRefArg τ)
    (perm : List Nat) (d : RV τ ν υ)
    (h : init fint finv le ts rvs (.std es) uRv uErr clean tref perm = .ok d) :
    ∃ es', d.unc = .std es' ∧
      d.t.zip (d.rv.zip es')
        = gather (selection (keepMask fint finv clean ts rvs (.std es)) perm) (ts.zip (rvs.zip es)) := by
  obtain ⟨hs, _, ht, hr, hu, _, _, _⟩ := init_ok fint finv le ts rvs (.std es) uRv uErr clean tref perm d h
  have hk := keepMask_length fint finv clean ts rvs (.std es) hs
  obtain ⟨he, htl⟩ := shapeOk_std hs
  refine ⟨gather (selection (keepMask fint finv clean ts rvs (.std es)) perm) es, ?_, ?_⟩
  · rw [hu]; exact unc_std_gather _ perm es (by omega)
  · rw [ht, hr, gather_zip _ ts _ (by rw [List.length_zip]; omega), gather_zip _ rvs es he.symm]

/-- covariance input: time and velocity stay paired and the covariance is re-indexed in rows **and**
columns by the same list: `cov'[i][j] = cov[π i][π j]` -/
theorem pairing_preserved_cov (ts : List τ) (rvs : List ν) (c : Cov ν) (uRv uErr : υ) (clean : Bool)
    (tref : TRefArg τ) (perm : List Nat) (d : RV τ ν υ)
    (h : init fint finv le ts rvs (.cov c) uRv uErr clean tref perm = .ok d) :
    let π := selection (keepMask fint finv clean ts rvs (.cov c)) perm
    ∃ c', d.unc = .cov c' ∧ d.t.zip d.rv = gather π (ts.zip rvs) ∧
      ∀ i j, entry c' i j = (π[i]?).bind (fun a => (π[j]?).bind (fun b => entry c a b)) := by
  intro π
  obtain ⟨hs, _, ht, hr, hu, _, _, _⟩ := init_ok fint finv le ts rvs (.cov c) uRv uErr clean tref perm d h
  have hk := keepMask_length fint finv clean ts rvs (.cov c) hs
  obtain ⟨hc, hrow, htl⟩ := shapeOk_cov hs
  refine ⟨(gather π c).map (gather π), ?_, ?_, ?_⟩
  · rw [hu]; exact unc_cov_gather _ perm c (by omega) (fun row hr => by rw [hrow row hr]; omega)
  · rw [ht, hr, gather_zip _ ts rvs htl]
  · intro i j
    exact entry_gather π c rvs.length hc hrow
      (fun a ha => by have := selection_lt _ perm a ha; omega) i j

/-- exactly the finite input observations are kept (all of them when `clean = false`): nothing lost,
duplicated or invented, whatever permutation the sort produced -/
theorem kept_are_finite_inputs (ts : List τ) (rvs es : List ν) (uRv uErr : υ) (clean : Bool) (tref : TRefArg τ)
    (perm : List Nat) (d : RV τ ν υ)
    (h : init fint finv le ts rvs (.std es) uRv uErr clean tref perm = .ok d) :
    ∃ es', d.unc = .std es' ∧
      (d.t.zip (d.rv.zip es')).Perm
        (if clean then (ts.zip (rvs.zip es)).filter (fun x => fint x.1 && finv x.2.1 && finv x.2.2)
         else ts.zip (rvs.zip es)) := by
  obtain ⟨es', hu', hz⟩ := pairing_preserved fint finv le ts rvs es uRv uErr clean tref perm d h
  obtain ⟨hs, hv, _, _, _, _, _, _⟩ := init_ok fint finv le ts rvs (.std es) uRv uErr clean tref perm d h
  have hk := keepMask_length fint finv clean ts rvs (.std es) hs
  obtain ⟨he, htl⟩ := shapeOk_std hs
  refine ⟨es', hu', ?_⟩
  rw [hz]
  have hzl : (ts.zip (rvs.zip es)).length = ts.length := by simp [List.length_zip]; omega
  rw [← gather_maskSel _ perm _ (by omega)]
  simp only [validPerm, Bool.and_eq_true] at hv
  have hlen := maskSel_length_eq (keepMask fint finv clean ts rvs (.std es)) (ts.zip (rvs.zip es)) ts hzl
  have hp := gather_perm perm (maskSel (keepMask fint finv clean ts rvs (.std es)) (ts.zip (rvs.zip es)))
    (by rw [hlen]; exact isPermOfRange_perm _ _ hv.1)
  refine hp.trans ?_
  cases clean with
  | true =>
    simp only [keepMask, finMask, if_true]
    rw [maskSel_map_eq_filter]
  | false =>
    simp only [keepMask, Bool.false_eq_true, if_false]
    rw [maskSel_all_true ts _ hzl]

/-- **missing (masked) entries.**  An input whose entries may be missing (`none`: a masked epoch, velocity or uncertainty, as a table
with blank cells gives) and where "finite" means "present and finite" - which is what turning masks into NaN before the filter
achieves: with `clean = true` the object holds exactly the complete finite rows, and no held epoch, velocity or uncertainty is a
missing one -/
theorem missing_entries_dropped {T V : Type} (finT : T → Bool) (finV : V → Bool) (le : Option T → Option T → Bool)
    (ts : List (Option T)) (rvs es : List (Option V)) (uRv uErr : υ) (tref : TRefArg (Option T)) (perm : List Nat)
    (d : RV (Option T) (Option V) υ)
    (h : init (fun o => o.elim false finT) (fun o => o.elim false finV) le ts rvs (.std es) uRv uErr true tref perm = .ok d) :
    ∃ es', d.unc = .std es' ∧
      (d.t.zip (d.rv.zip es')).Perm
        ((ts.zip (rvs.zip es)).filter (fun x => x.1.elim false finT && x.2.1.elim false finV && x.2.2.elim false finV)) ∧
      ∀ x ∈ d.t.zip (d.rv.zip es'), x.1.isSome = true ∧ x.2.1.isSome = true ∧ x.2.2.isSome = true := by
  obtain ⟨es', hu, hp⟩ := kept_are_finite_inputs (fun o => o.elim false finT) (fun o => o.elim false finV) le ts rvs es uRv uErr
    true tref perm d h
  simp only [if_true] at hp
  refine ⟨es', hu, hp, ?_⟩
  intro x hx
  have hm := (hp.mem_iff).mp hx
  rw [List.mem_filter] at hm
  obtain ⟨_, hf⟩ := hm
  simp only [Bool.and_eq_true] at hf
  obtain ⟨⟨h1, h2⟩, h3⟩ := hf
  refine ⟨?_, ?_, ?_⟩
  · cases hx1 : x.1 with
    | none => rw [hx1] at h1; simp at h1
    | some _ => rfl
  · cases hx2 : x.2.1 with
    | none => rw [hx2] at h2; simp at h2
    | some _ => rfl
  · cases hx3 : x.2.2 with
    | none => rw [hx3] at h3; simp at h3
    | some _ => rfl

/-- covariance input: the positions kept are a permutation (no repeats, none missing) of the positions whose
time, velocity and covariance column are finite (all positions when `clean = false`) -/
theorem kept_are_finite_inputs_cov (ts : List τ) (rvs : List ν) (c : Cov ν) (uRv uErr : υ) (clean : Bool)
    (tref : TRefArg τ) (perm : List Nat) (d : RV τ ν υ)
    (h : init fint finv le ts rvs (.cov c) uRv uErr clean tref perm = .ok d) :
    let π := selection (keepMask fint finv clean ts rvs (.cov c)) perm
    π.Nodup ∧ ∀ j, j ∈ π ↔ ∃ t r, ts[j]? = some t ∧ rvs[j]? = some r ∧
      (clean = true → (fint t && finv r && colFinite finv c j) = true) := by
  intro π
  obtain ⟨hs, hv, _, _, _, _, _, _⟩ := init_ok fint finv le ts rvs (.cov c) uRv uErr clean tref perm d h
  have hk := keepMask_length fint finv clean ts rvs (.cov c) hs
  obtain ⟨hc, hrow, htl⟩ := shapeOk_cov hs
  simp only [validPerm, Bool.and_eq_true] at hv
  have hkl := keptIdx_length (keepMask fint finv clean ts rvs (.cov c)) ts (by omega)
  have hp : π.Perm (keptIdx (keepMask fint finv clean ts rvs (.cov c))) :=
    selection_perm _ perm (by rw [hkl]; exact hv.1)
  refine ⟨(hp.nodup_iff).mpr (keptIdx_nodup _), ?_⟩
  intro j
  rw [hp.mem_iff, mem_keptIdx]
  cases clean with
  | true =>
    simp only [keepMask, finMask, if_true, List.getElem?_map, List.getElem?_zipIdx, List.getElem?_zip_eq_some,
      Option.map_eq_some_iff, Nat.zero_add]
    constructor
    · rintro ⟨⟨⟨t, r⟩, k⟩, ⟨⟨t', r'⟩, ⟨h1, h2⟩, h3⟩, h4⟩
      simp only [Prod.mk.injEq] at h3
      obtain ⟨⟨rfl, rfl⟩, rfl⟩ := h3
      exact ⟨t', r', h1, h2, fun _ => h4⟩
    · rintro ⟨t, r, h1, h2, h3⟩
      exact ⟨((t, r), j), ⟨(t, r), ⟨h1, h2⟩, rfl⟩, h3 trivial⟩
  | false =>
    simp only [keepMask, Bool.false_eq_true, if_false, List.getElem?_map, Option.map_eq_some_iff, and_true,
      false_imp_iff]
    constructor
    · rintro ⟨t, ht⟩
      have hj : j < rvs.length := by rw [← htl]; exact (List.getElem?_eq_some_iff.mp ht).1
      exact ⟨t, rvs[j], ht, List.getElem?_eq_getElem hj⟩
    · rintro ⟨t, r, h1, _⟩
      exact ⟨t, h1⟩

/-- the stored times are in non-decreasing order -/
theorem sorted_by_time (htrans : ∀ a b c, le a b = true → le b c = true → le a c = true)
    (ts : List τ) (rvs : List ν) (unc : Unc ν) (uRv uErr : υ) (clean : Bool) (tref : TRefArg τ)
    (perm : List Nat) (d : RV τ ν υ)
    (h : init fint finv le ts rvs unc uRv uErr clean tref perm = .ok d) :
    d.t.Pairwise (fun a b => le a b = true) := by
  obtain ⟨hs, hv, ht, _, _, _, _, _⟩ := init_ok fint finv le ts rvs unc uRv uErr clean tref perm d h
  have hk := keepMask_length fint finv clean ts rvs unc hs
  have htl := shapeOk_t hs
  simp only [validPerm, Bool.and_eq_true] at hv
  rw [ht, ← gather_maskSel _ perm ts (by omega)]
  exact isSorted_pairwise le htrans _ hv.2

/-- velocities and uncertainties stay in the units supplied -/
theorem units_unchanged (ts : List τ) (rvs : List ν) (unc : Unc ν) (uRv uErr : υ) (clean : Bool)
    (tref : TRefArg τ) (perm : List Nat) (d : RV τ ν υ)
    (h : init fint finv le ts rvs unc uRv uErr clean tref perm = .ok d) :
    d.rvUnit = uRv ∧ d.errUnit = uErr := by
  obtain ⟨_, _, _, _, _, h1, h2, _⟩ := init_ok fint finv le ts rvs unc uRv uErr clean tref perm d h
  exact ⟨h1, h2⟩

/-- 1-D errors: `ivar` is the reciprocal variance of each stored uncertainty -/
theorem ivar_is_reciprocal_variance [Field ν] (inv : Cov ν → Cov ν) (d : RV τ ν υ) (e : List ν)
    (h : d.unc = .std e) : d.ivar inv = .std (e.map (fun x => (x ^ 2)⁻¹)) := by
  simp only [RV.ivar, h, ivarStd, one_div, sq]

/-- … so that `ivar · σ² = 1` for every non-zero uncertainty -/
theorem ivar_mul_variance [Field ν] (e : List ν) (x : ν) (i : Nat) (hx : e[i]? = some x) (hne : x ≠ 0) :
    ∃ w, (ivarStd e)[i]? = some w ∧ w * x ^ 2 = 1 := by
  refine ⟨1 / (x * x), by simp [ivarStd, hx], ?_⟩
  rw [sq, one_div, inv_mul_cancel₀ (mul_ne_zero hne hne)]

/-- covariance input: `ivar` is the inverse (oracle `inv` with contract `IsInv (inv c) c`) of the *stored*
covariance, i.e. by `pairing_preserved_cov` of the input covariance re-indexed by the selection list in rows and
columns -/
theorem ivar_cov_is_inverse [Mul ν] [Div ν] [OfNat ν 1] (inv : Cov ν → Cov ν) (IsInv : Cov ν → Cov ν → Prop)
    (hinv : ∀ c, IsInv (inv c) c) (d : RV τ ν υ) (c : Cov ν) (h : d.unc = .cov c) :
    ∃ w, d.ivar inv = .cov w ∧ IsInv w c := by
  exact ⟨inv c, by simp [RV.ivar, h, ivarCov], hinv c⟩

/-- the reference epoch defaults to the earliest kept time -/
theorem tref_default_is_min_time (hrefl : ∀ a, le a a = true)
    (htrans : ∀ a b c, le a b = true → le b c = true → le a c = true)
    (ts : List τ) (rvs : List ν) (unc : Unc ν) (uRv uErr : υ) (clean : Bool) (perm : List Nat) (d : RV τ ν υ)
    (h : init fint finv le ts rvs unc uRv uErr clean .default perm = .ok d) :
    ∃ m, d.tref = some m ∧ m ∈ d.t ∧ (∀ x ∈ d.t, le m x = true) ∧
      m ∈ maskSel (keepMask fint finv clean ts rvs unc) ts ∧
      ∀ x ∈ maskSel (keepMask fint finv clean ts rvs unc) ts, le m x = true := by
  have hsorted := sorted_by_time fint finv le htrans ts rvs unc uRv uErr clean .default perm d h
  obtain ⟨hs, hv, ht, _, _, _, _, hr⟩ := init_ok fint finv le ts rvs unc uRv uErr clean .default perm d h
  have hk := keepMask_length fint finv clean ts rvs unc hs
  have htl := shapeOk_t hs
  simp only [validPerm, Bool.and_eq_true] at hv
  have hp : d.t.Perm (maskSel (keepMask fint finv clean ts rvs unc) ts) := by
    rw [ht, ← gather_maskSel _ perm ts (by omega)]
    exact gather_perm perm _ (isPermOfRange_perm _ _ hv.1)
  cases hd : d.t with
  | nil => rw [hd] at hr; simp [resolveTRef] at hr
  | cons m r =>
    rw [hd] at hr hsorted hp
    simp only [resolveTRef] at hr
    have hm : d.tref = some m := by injection hr with hr; exact hr.symm
    have hall : ∀ x ∈ m :: r, le m x = true := by
      intro x hx
      rcases List.mem_cons.mp hx with rfl | hx
      · exact hrefl _
      · exact (List.pairwise_cons.mp hsorted).1 x hx
    exact ⟨m, hm, List.mem_cons_self, hall, hp.subset List.mem_cons_self,
      fun x hx => hall x (hp.symm.subset hx)⟩

/-- an explicit reference epoch is stored as given, `t_ref=False` stores none -/
theorem tref_explicit_kept (ts : List τ) (rvs : List ν) (unc : Unc ν) (uRv uErr : υ) (clean : Bool)
    (perm : List Nat) (d : RV τ ν υ) :
    (∀ x, init fint finv le ts rvs unc uRv uErr clean (.explicit x) perm = .ok d → d.tref = some x) ∧
    (init fint finv le ts rvs unc uRv uErr clean .disabled perm = .ok d → d.tref = none) := by
  constructor
  · intro x h
    obtain ⟨_, _, _, _, _, _, _, hr⟩ := init_ok fint finv le ts rvs unc uRv uErr clean _ perm d h
    simp only [resolveTRef] at hr
    injection hr with hr; exact hr.symm
  · intro h
    obtain ⟨_, _, _, _, _, _, _, hr⟩ := init_ok fint finv le ts rvs unc uRv uErr clean _ perm d h
    simp only [resolveTRef] at hr
    injection hr with hr; exact hr.symm

/-- what `copy` does to the arrays: every array (rows and columns of a covariance) is re-indexed by the one
permutation `perm` of the positions, nothing is filtered, units and reference epoch are carried over -/
theorem copy_arrays (d : RV τ ν υ) (perm : List Nat) (d' : RV τ ν υ)
    (h : copy fint finv le d perm = .ok d') :
    perm.Perm (List.range d.t.length) ∧ d'.t = gather perm d.t ∧ d'.rv = gather perm d.rv ∧
    d'.unc = d.unc.gather perm ∧ d'.tref = d.tref ∧ d'.rvUnit = d.rvUnit ∧ d'.errUnit = d.errUnit := by
  unfold copy at h
  obtain ⟨hs, hv, ht, hr, hu, h1, h2, hres⟩ := init_ok fint finv le _ _ _ _ _ _ _ perm d' h
  have htl := shapeOk_t hs
  simp only [validPerm, Bool.and_eq_true] at hv
  have hkeep : keepMask fint finv false d.t d.rv d.unc = d.t.map (fun _ => true) := by simp [keepMask]
  rw [hkeep] at hv ht hr hu
  rw [maskSel_all_true d.t d.t rfl] at hv
  have hperm := isPermOfRange_perm _ _ hv.1
  have hlt : ∀ i ∈ perm, i < d.t.length := perm_lt_of_isPermOfRange _ _ hv.1
  rw [selection_all_true d.t perm hlt] at ht hr
  refine ⟨hperm, ht, hr, ?_, ?_, h1, h2⟩
  · rw [hu]
    cases hunc : d.unc with
    | std e =>
      rw [hunc] at hs
      have := shapeOk_std hs
      simp only [Unc.mask, Unc.gather]
      rw [maskSel_all_true d.t e (by omega)]
    | cov c =>
      rw [hunc] at hs
      obtain ⟨hc, hrow, _⟩ := shapeOk_cov hs
      simp only [Unc.mask, Unc.gather]
      rw [maskSel_all_true d.t c (by omega)]
      have : c.map (maskSel (d.t.map (fun _ => true))) = c := by
        conv => rhs; rw [← List.map_id c]
        apply List.map_congr_left
        intro row hr
        rw [maskSel_all_true d.t row (by rw [hrow row hr]; omega)]; rfl
      rw [this]
  · cases htr : d.tref with
    | none => rw [htr] at hres; simp only [trefArgOf, resolveTRef] at hres; injection hres with e; exact e.symm
    | some x => rw [htr] at hres; simp only [trefArgOf, resolveTRef] at hres; injection hres with e; exact e.symm

/-- `copy()` preserves the observations (same multiset of `(t, rv, err)` triples, in time order), the units
**and the reference epoch** (also "no reference epoch") -/
theorem copy_preserves (htrans : ∀ a b c, le a b = true → le b c = true → le a c = true)
    (d : RV τ ν υ) (e : List ν) (hu : d.unc = .std e) (perm : List Nat) (d' : RV τ ν υ)
    (h : copy fint finv le d perm = .ok d') :
    d'.tref = d.tref ∧ d'.rvUnit = d.rvUnit ∧ d'.errUnit = d.errUnit ∧
    d'.t.Pairwise (fun a b => le a b = true) ∧
    ∃ e', d'.unc = .std e' ∧ (d'.t.zip (d'.rv.zip e')).Perm (d.t.zip (d.rv.zip e)) := by
  obtain ⟨_, _, _, _, htr, h1, h2⟩ := copy_arrays fint finv le d perm d' h
  refine ⟨htr, h1, h2, sorted_by_time fint finv le htrans _ _ _ _ _ _ _ perm d' h, ?_⟩
  unfold copy at h
  rw [hu] at h
  obtain ⟨e', he', hp⟩ := kept_are_finite_inputs fint finv le _ _ _ _ _ _ _ perm d' h
  exact ⟨e', he', by simpa using hp⟩

/-- covariance: `copy()` re-indexes rows and columns by the same permutation of the positions -/
theorem copy_preserves_cov (d : RV τ ν υ) (c : Cov ν) (hu : d.unc = .cov c) (perm : List Nat) (d' : RV τ ν υ)
    (h : copy fint finv le d perm = .ok d') :
    d'.tref = d.tref ∧ perm.Perm (List.range d.t.length) ∧ d'.t.zip d'.rv = gather perm (d.t.zip d.rv) ∧
    ∃ c', d'.unc = .cov c' ∧
      ∀ i j, entry c' i j = (perm[i]?).bind (fun a => (perm[j]?).bind (fun b => entry c a b)) := by
  obtain ⟨hperm, ht, hr, hunc, htr, _, _⟩ := copy_arrays fint finv le d perm d' h
  unfold copy at h
  obtain ⟨hs, _⟩ := init_ok fint finv le _ _ _ _ _ _ _ perm d' h
  rw [hu] at hs hunc
  obtain ⟨hc, hrow, htl⟩ := shapeOk_cov hs
  refine ⟨htr, hperm, ?_, (gather perm c).map (gather perm), hunc, ?_⟩
  · rw [ht, hr, gather_zip _ _ _ htl]
  · intro i j
    exact entry_gather perm c d.rv.length hc hrow
      (fun a ha => by have := List.mem_range.mp (hperm.mem_iff.mp ha); omega) i j

/-- time-sorted data whose times are distinct: the copy is the object itself, bit for bit -/
theorem copy_eq_of_sorted (hanti : ∀ a b, le a b = true → le b a = true → a = b)
    (htrans : ∀ a b c, le a b = true → le b c = true → le a c = true)
    (d : RV τ ν υ) (hsorted : d.t.Pairwise (fun a b => le a b = true)) (perm : List Nat) (d' : RV τ ν υ)
    (h : copy fint finv le d perm = .ok d') : d'.t = d.t := by
  obtain ⟨hperm, ht, _⟩ := copy_arrays fint finv le d perm d' h
  have hs' := sorted_by_time fint finv le htrans _ _ _ _ _ _ _ perm d' h
  have hp : d'.t.Perm d.t := by rw [ht]; exact gather_perm perm d.t hperm
  exact List.Perm.eq_of_pairwise (le := fun a b => le a b = true) (fun a b _ _ => hanti a b) hs' hsorted hp

/-- slicing: `data[sel]` holds the triples at the positions `sel` of the (sorted) data — a permutation `σ` of
`sel` indexes every array -/
theorem slice_pairs (d : RV τ ν υ) (e : List ν) (hu : d.unc = .std e)
    (hrv : d.rv.length = d.t.length) (hel : e.length = d.t.length)
    (sel : List Nat) (hsel : ∀ i ∈ sel, i < d.t.length) (perm : List Nat) (d' : RV τ ν υ)
    (h : getitem fint finv le d sel perm = .ok d') :
    let σ := gather perm sel
    σ.Perm sel ∧ d'.rvUnit = d.rvUnit ∧ d'.errUnit = d.errUnit ∧
    ∃ e', d'.unc = .std e' ∧ d'.t.zip (d'.rv.zip e') = gather σ (d.t.zip (d.rv.zip e)) := by
  intro σ
  unfold getitem at h
  rw [hu] at h
  simp only [Unc.gather] at h
  obtain ⟨es', hes', hz⟩ := pairing_preserved fint finv le _ _ _ _ _ _ _ perm d' h
  obtain ⟨hs, hv, _, _, _, h1, h2, _⟩ := init_ok fint finv le _ _ _ _ _ _ _ perm d' h
  simp only [validPerm, Bool.and_eq_true] at hv
  have hkeep : keepMask fint finv false (gather sel d.t) (gather sel d.rv) (.std (gather sel e))
      = (gather sel d.t).map (fun _ => true) := by simp [keepMask]
  rw [hkeep] at hv hz
  rw [maskSel_all_true _ _ rfl] at hv
  have hlen : (gather sel d.t).length = sel.length := gather_length sel d.t hsel
  have hperm := isPermOfRange_perm _ _ hv.1
  have hlt : ∀ i ∈ perm, i < (gather sel d.t).length := perm_lt_of_isPermOfRange _ _ hv.1
  rw [selection_all_true _ perm hlt] at hz
  refine ⟨?_, h1, h2, es', hes', ?_⟩
  · exact gather_perm perm sel (by rw [← hlen]; exact hperm)
  · rw [hz, ← gather_zip sel d.rv e (by omega), ← gather_zip sel d.t _ (by rw [List.length_zip]; omega)]
    exact gather_gather perm sel _ (fun i hi => by
      have := hsel i hi
      simp only [List.length_zip]; omega)

/-- slicing with a covariance: restricted to `sel × sel`, rows and columns by the same list -/
theorem slice_pairs_cov (d : RV τ ν υ) (c : Cov ν) (hu : d.unc = .cov c)
    (hrv : d.rv.length = d.t.length) (hc : c.length = d.t.length) (hrow : ∀ row ∈ c, row.length = d.t.length)
    (sel : List Nat) (hsel : ∀ i ∈ sel, i < d.t.length) (perm : List Nat) (d' : RV τ ν υ)
    (h : getitem fint finv le d sel perm = .ok d') :
    let σ := gather perm sel
    σ.Perm sel ∧ d'.t.zip d'.rv = gather σ (d.t.zip d.rv) ∧
    ∃ c', d'.unc = .cov c' ∧
      ∀ i j, entry c' i j = (σ[i]?).bind (fun a => (σ[j]?).bind (fun b => entry c a b)) := by
  intro σ
  unfold getitem at h
  rw [hu] at h
  simp only [Unc.gather] at h
  obtain ⟨c', hc', hz, hent⟩ := pairing_preserved_cov fint finv le _ _ _ _ _ _ _ perm d' h
  obtain ⟨hs, hv, _, _, _, _, _, _⟩ := init_ok fint finv le _ _ _ _ _ _ _ perm d' h
  simp only [validPerm, Bool.and_eq_true] at hv
  have hkeep : keepMask fint finv false (gather sel d.t) (gather sel d.rv)
      (.cov ((gather sel c).map (gather sel))) = (gather sel d.t).map (fun _ => true) := by simp [keepMask]
  rw [hkeep] at hv hz hent
  rw [maskSel_all_true _ _ rfl] at hv
  have hlen : (gather sel d.t).length = sel.length := gather_length sel d.t hsel
  have hperm := isPermOfRange_perm _ _ hv.1
  have hlt : ∀ i ∈ perm, i < (gather sel d.t).length := perm_lt_of_isPermOfRange _ _ hv.1
  rw [selection_all_true _ perm hlt] at hz hent
  have hσ : ∀ r, σ[r]? = (perm[r]?).bind (fun a => sel[a]?) :=
    gather_getElem? perm sel (fun i hi => by rw [← hlen]; exact hlt i hi)
  refine ⟨gather_perm perm sel (by rw [← hlen]; exact hperm), ?_, c', hc', ?_⟩
  · rw [hz, ← gather_zip sel d.t d.rv hrv.symm]
    exact gather_gather perm sel _ (fun i hi => by
      have := hsel i hi
      simp only [List.length_zip]; omega)
  · intro i j
    rw [hent i j, hσ i, hσ j]
    cases hi : perm[i]? with
    | none => simp
    | some a =>
      cases hj : perm[j]? with
      | none => cases sel[a]? <;> simp
      | some b =>
        simp only [Option.bind_some]
        exact entry_gather sel c d.t.length hc hrow hsel a b

/-- the nondeterministic model is not vacuous: for a total transitive order on times every well-shaped input
(with a usable `t_ref` argument) has an accepted sorting permutation, i.e. a run of the model to which all the
theorems above apply -/
theorem init_accepts_some_permutation (htrans : ∀ a b c, le a b = true → le b c = true → le a c = true)
    (htotal : ∀ a b, (le a b || le b a) = true)
    (ts : List τ) (rvs : List ν) (unc : Unc ν) (uRv uErr : υ) (clean : Bool) (tref : TRefArg τ)
    (hs : shapeOk ts rvs unc = true) (htr : tref ≠ .notTime)
    (hne : tref = .default → maskSel (keepMask fint finv clean ts rvs unc) ts ≠ []) :
    ∃ perm d, init fint finv le ts rvs unc uRv uErr clean tref perm = .ok d := by
  obtain ⟨perm, hv⟩ := exists_validPerm le htrans htotal (maskSel (keepMask fint finv clean ts rvs unc) ts)
  refine ⟨perm, ?_⟩
  have hv' := hv
  simp only [validPerm, Bool.and_eq_true] at hv'
  have hp := gather_perm perm _ (isPermOfRange_perm _ _ hv'.1)
  unfold init
  simp only [hs, hv, Bool.not_true, Bool.false_eq_true, if_false]
  cases tref with
  | default =>
    cases hg : gather perm (maskSel (keepMask fint finv clean ts rvs unc) ts) with
    | nil =>
      rw [hg] at hp
      exact absurd hp.symm.eq_nil (hne rfl)
    | cons m r => simp [resolveTRef]
  | disabled => simp [resolveTRef]
  | explicit x => simp [resolveTRef]
  | notTime => exact absurd rfl htr

/-! ### non-vacuity: concrete inputs on which the model runs and the hypotheses hold -/

section Examples

/-- 5 epochs, unsorted with a tie (times 7 and 7), one non-finite velocity (`none`); sorted by `[2,0,3,1]` -/
example :
    (init (fun (_ : Nat) => true) (fun (v : Option Nat) => v.isSome) (fun a b => decide (a ≤ b))
        [7, 9, 3, 7, 5] [some 70, some 90, some 30, some 71, none] (.std [some 1, some 2, some 3, some 4, some 5])
        "km/s" "m/s" true .default [2, 0, 3, 1]).toOption.map (fun d => (d.t, d.rv, d.tref, d.rvUnit))
      = some ([3, 7, 7, 9], [some 30, some 70, some 71, some 90], some 3, "km/s") := by decide

/-- the other order of the tied epochs is accepted as well … -/
example :
    (init (fun (_ : Nat) => true) (fun (v : Option Nat) => v.isSome) (fun a b => decide (a ≤ b))
        [7, 9, 3, 7, 5] [some 70, some 90, some 30, some 71, none] (.std [some 1, some 2, some 3, some 4, some 5])
        "km/s" "m/s" true .default [2, 3, 0, 1]).toOption.map (fun d => (d.t, d.rv))
      = some ([3, 7, 7, 9], [some 30, some 71, some 70, some 90]) := by decide

/-- … a non-sorting permutation is not -/
example :
    (init (fun (_ : Nat) => true) (fun (v : Option Nat) => v.isSome) (fun a b => decide (a ≤ b))
        [7, 9, 3, 7, 5] [some 70, some 90, some 30, some 71, none] (.std [some 1, some 2, some 3, some 4, some 5])
        "km/s" "m/s" true .default [0, 1, 2, 3]).toOption.isNone = true := by decide

/-- a covariance is filtered and permuted in rows and columns -/
example :
    (init (fun (_ : Nat) => true) (fun (v : Option Nat) => v.isSome) (fun a b => decide (a ≤ b))
        [5, 1, 3] [some 50, some 10, none]
        (.cov [[some 11, some 12, some 13], [some 21, some 22, some 23], [some 31, some 32, some 33]])
        "km/s" "km2/s2" true (.explicit 0) [1, 0]).toOption.map
          (fun d => (d.t, d.rv, match d.unc with | .cov c => c | .std _ => [], d.tref))
      = some ([1, 5], [some 10, some 50], [[some 22, some 21], [some 12, some 11]], some 0) := by decide

/-- copy keeps "no reference epoch"; a slice holds the selected positions -/
example :
    let d : RV Nat Nat String := { t := [1, 2, 2, 4], rv := [10, 20, 21, 40], unc := .std [1, 2, 3, 4], tref := none,
                                   rvUnit := "km/s", errUnit := "km/s" }
    ((copy (fun _ => true) (fun _ => true) (fun a b => decide (a ≤ b)) d [0, 1, 2, 3]).toOption.map
        (fun c => (c.t, c.rv, c.tref)) = some ([1, 2, 2, 4], [10, 20, 21, 40], none)) ∧
    ((getitem (fun _ => true) (fun _ => true) (fun a b => decide (a ≤ b)) d [3, 1] [1, 0]).toOption.map
        (fun c => (c.t, c.rv, c.tref)) = some ([2, 4], [20, 40], some 2)) := by decide

end Examples

end Data
