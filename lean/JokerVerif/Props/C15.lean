/-! # C15 — property theorems (to be filled in) -/
