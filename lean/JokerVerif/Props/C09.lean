/-! # C09 — property theorems (to be filled in) -/
