import JokerVerif.Lemmas.PriorLemmas
/-!
# C09 — prior draws and reported ln_prior follow the declared densities

Property theorems only, over `ℝ` (the model of `Model/Prior.lean` instantiated with `Prior.realFn`).
All statements are for every admissible parameter value (`0 < a < b`, `σ_K0 ≥ 0`, `0 < P, P0`, `e² < 1`, …) and
every evaluation point.
-/
namespace Prior
open Real MeasureTheory

/-- the sampler inverts the CDF `F(x) = (ln x − ln a)/(ln b − ln a)`: `F(draw(u)) = u` for every `u` -/
theorem logUniform_cdf_inverse (a b u : ℝ) (ha : 0 < a) (hab : a < b) :
    logUniformCdf realFn a b (logUniformDraw realFn a b u) = u := by
  have h : Real.log b - Real.log a ≠ 0 := (log_sub_pos ha hab).ne'
  simp only [logUniformCdf, logUniformDraw, realFn_log, realFn_exp, Real.log_exp]
  field_simp; ring

/-- draws stay inside the support `[a, b]` for every uniform `u ∈ [0, 1]` -/
theorem logUniform_draw_support (a b u : ℝ) (ha : 0 < a) (hab : a < b) (hu0 : 0 ≤ u) (hu1 : u ≤ 1) :
    a ≤ logUniformDraw realFn a b u ∧ logUniformDraw realFn a b u ≤ b := by
  have hL := log_sub_pos ha hab
  have hb : 0 < b := lt_trans ha hab
  simp only [logUniformDraw, realFn_log, realFn_exp]
  constructor
  · calc a = Real.exp (Real.log a) := (Real.exp_log ha).symm
      _ ≤ _ := Real.exp_le_exp.mpr (by nlinarith)
  · calc _ ≤ Real.exp (Real.log b) := Real.exp_le_exp.mpr (by nlinarith)
      _ = b := Real.exp_log hb

/-- inside the support the declared log-density exists and is the log of the derivative of that CDF -/
theorem logUniform_density (a b x : ℝ) (ha : 0 < a) (hab : a < b) (hax : a ≤ x) (hxb : x ≤ b) :
    ∃ lp, logUniformLogp realFn a b x = some lp ∧
      HasDerivAt (logUniformCdf realFn a b) (Real.exp lp) x := by
  refine ⟨-Real.log x - Real.log (Real.log b - Real.log a), ?_, ?_⟩
  · simp [logUniformLogp, hax, hxb]
  · exact hasDerivAt_logUniformCdf a b x ha hab (lt_of_lt_of_le ha hax)

/-- outside `[a, b]` the log-density is `-∞` -/
theorem logUniform_logp_outside (a b x : ℝ) (h : x < a ∨ b < x) : logUniformLogp realFn a b x = none := by
  unfold logUniformLogp
  rw [if_neg]
  rintro ⟨h1, h2⟩
  rcases h with h | h <;> linarith

/-- the density is normalised: `∫_a^b exp(logp) = 1` -/
theorem logUniform_normalised (a b : ℝ) (ha : 0 < a) (hab : a < b) :
    ∫ x in a..b, Real.exp (-Real.log x - Real.log (Real.log b - Real.log a)) = 1 := by
  have hL := log_sub_pos ha hab
  have hpos : ∀ x ∈ Set.uIcc a b, 0 < x := by
    intro x hx
    rw [Set.uIcc_of_le hab.le] at hx
    exact lt_of_lt_of_le ha hx.1
  have hderiv : ∀ x ∈ Set.uIcc a b, HasDerivAt (fun x => (Real.log x - Real.log a) / (Real.log b - Real.log a))
      (Real.exp (-Real.log x - Real.log (Real.log b - Real.log a))) x :=
    fun x hx => hasDerivAt_logUniformCdf a b x ha hab (hpos x hx)
  have hcont : ContinuousOn (fun x => Real.exp (-Real.log x - Real.log (Real.log b - Real.log a))) (Set.uIcc a b) := by
    apply Real.continuous_exp.comp_continuousOn
    apply ContinuousOn.sub
    · exact (Real.continuousOn_log.mono (fun x hx => (hpos x hx).ne')).neg
    · exact continuousOn_const
  rw [intervalIntegral.integral_eq_sub_of_hasDerivAt hderiv hcont.intervalIntegrable]
  rw [sub_self, zero_div, sub_zero, div_self hL.ne']

/-- Lebesgue measure of an initial piece of the unit interval -/
theorem volume_unit_le (c : ℝ) (h0 : 0 ≤ c) (h1 : c ≤ 1) :
    volume {u : ℝ | u ∈ Set.Ico (0 : ℝ) 1 ∧ u ≤ c} = ENNReal.ofReal c := by
  rcases lt_or_eq_of_le h1 with hlt | heq
  · have : {u : ℝ | u ∈ Set.Ico (0 : ℝ) 1 ∧ u ≤ c} = Set.Icc 0 c := by
      ext u; simp only [Set.mem_ofPred_eq, Set.mem_Ico, Set.mem_Icc]
      constructor
      · rintro ⟨⟨a, _⟩, b⟩; exact ⟨a, b⟩
      · rintro ⟨a, b⟩; exact ⟨⟨a, lt_of_le_of_lt b hlt⟩, b⟩
    rw [this, Real.volume_Icc, sub_zero]
  · subst heq
    have : {u : ℝ | u ∈ Set.Ico (0 : ℝ) 1 ∧ u ≤ 1} = Set.Ico 0 1 := by
      ext u; simp only [Set.mem_ofPred_eq, Set.mem_Ico]
      constructor
      · rintro ⟨h, _⟩; exact h
      · intro h; exact ⟨h, h.2.le⟩
    rw [this, Real.volume_Ico, sub_zero]

/-- **the period draw follows the declared density**: with `u` uniform on `[0, 1)`, the probability that the drawn period
is `≤ x` is the declared CDF `(ln x − ln a)/(ln b − ln a)` for every `x` in the support (whose derivative is the
declared density, `logUniform_density`) -/
theorem logUniform_draw_law (a b x : ℝ) (ha : 0 < a) (hab : a < b) (hax : a ≤ x) (hxb : x ≤ b) :
    volume {u : ℝ | u ∈ Set.Ico (0 : ℝ) 1 ∧ logUniformDraw realFn a b u ≤ x} =
      ENNReal.ofReal (logUniformCdf realFn a b x) := by
  have hL : 0 < Real.log b - Real.log a := log_sub_pos ha hab
  have hx : 0 < x := lt_of_lt_of_le ha hax
  have hb : 0 < b := lt_trans ha hab
  have hc0 : 0 ≤ logUniformCdf realFn a b x := by
    simp only [logUniformCdf, realFn_log]
    exact div_nonneg (sub_nonneg.mpr (Real.log_le_log ha hax)) hL.le
  have hc1 : logUniformCdf realFn a b x ≤ 1 := by
    simp only [logUniformCdf, realFn_log]
    rw [div_le_one hL]
    exact sub_le_sub_right (Real.log_le_log hx hxb) _
  rw [← volume_unit_le _ hc0 hc1]
  congr 1
  ext u
  simp only [Set.mem_ofPred_eq]
  have key : logUniformDraw realFn a b u ≤ x ↔ u ≤ logUniformCdf realFn a b x := by
    simp only [logUniformDraw, logUniformCdf, realFn_log, realFn_exp]
    rw [← Real.le_log_iff_exp_le hx, le_div_iff₀ hL]
    constructor <;> intro h <;> linarith
  rw [key]

/-- the value in the support is exactly `-ln x - ln ln(b/a)` -/
theorem logUniform_logp_value (a b x : ℝ) (ha : 0 < a) (hab : a < b) (hax : a ≤ x) (hxb : x ≤ b) :
    logUniformLogp realFn a b x = some (-Real.log x - Real.log (Real.log (b / a))) := by
  have hb : 0 < b := lt_trans ha hab
  simp [logUniformLogp, hax, hxb, Real.log_div hb.ne' ha.ne']

/-- FixedCompanionMass: the scale is `σ_K0 (P/P0)^(-1/3) / √(1−e²)`, capped at `max_K` (and never negative) -/
theorem sigmaK_formula (s0 P0 maxK P e : ℝ) (hs : 0 ≤ s0) (hP : 0 < P) (hP0 : 0 < P0) :
    sigmaK realFn s0 P0 maxK P e = min (s0 * (P / P0) ^ (-(1 / 3) : ℝ) / Real.sqrt (1 - e * e)) maxK := by
  have h0 := sigmaKRaw_nonneg s0 P0 P e hs hP hP0
  unfold sigmaK clip
  rw [minOf_eq_min, maxOf_eq_max, max_eq_left h0]
  rfl

/-- the variance the likelihood kernel uses for `K` is the square of the declared (clipped) scale -/
theorem lambdaK_eq_clip_sq (s0 P0 maxK P e : ℝ) (hs : 0 ≤ s0) (hm : 0 ≤ maxK) (hP : 0 < P) (hP0 : 0 < P0)
    (he : e * e < 1) :
    (sigmaK realFn s0 P0 maxK P e) ^ 2 = lambdaK realFn s0 P0 maxK P e := by
  have h0 := sigmaKRaw_nonneg s0 P0 P e hs hP hP0
  unfold sigmaK clip lambdaK
  rw [minOf_eq_min, minOf_eq_min, maxOf_eq_max, max_eq_left h0, min_sq_of_nonneg h0 hm,
    sigmaKRaw_sq s0 P0 P e hP hP0 he, min_comm]
  simp only [realFn_pow]
  congr 1
  ring

/-- `K | P, e` has a normalised density: `exp(kLogp)` integrates to one over `K` -/
theorem fcm_density_normalised (mu s0 P0 maxK P e : ℝ) (hσ : 0 < sigmaK realFn s0 P0 maxK P e) :
    ∫ K, Real.exp (kLogp realFn (.fcm mu s0 P0 maxK) P e K) = 1 := by
  simp only [kLogp]
  simp_rw [exp_normalLogp mu _ _ hσ]
  apply ProbabilityTheory.integral_gaussianPDFReal_eq_one
  intro h
  have : (0 : ℝ) < sigmaK realFn s0 P0 maxK P e ^ 2 := by positivity
  have h2 := congrArg (fun v : NNReal => (v : ℝ)) h
  simp only [Real.coe_toNNReal _ (sq_nonneg _), NNReal.coe_zero] at h2
  linarith

/-- the three `(α, β)` pairs are the published values of Kipping (2013), Table 1 -/
theorem kipping_constants :
    kipping .long = (1120, 3090) ∧ kipping .short = (697, 3270) ∧ kipping .global = (867, 3030) := by decide

/-- `ln_prior` (nonlinear parameters only) is the log of the joint density of `(P, e, ω, M0[, s])` up to the
row-independent constant `2·ln p(angle) = −2 ln 2π`; outside the support both are `-∞` -/
theorem lnPrior_is_joint_up_to_const (c : Cfg ℝ) (r : Row ℝ) :
    jointNonlinear realFn c r = (lnPriorNonlinear realFn c r).map (· + (-(2 * Real.log (2 * Real.pi)))) := by
  unfold jointNonlinear angleLogp
  simp only [realFn_log, realFn_pi]
  congr 1; funext x; ring

/-- with `generate_linear=True`: `ln_prior = ln p(P) + ln p(e) [+ ln p(s)] + ln p(K | P, e) + Σ ln p(v_l) +
Σ ln p(dv0_i)`, which is the joint log-density up to the same constant -/
theorem lnPriorFull_is_joint_up_to_const (c : Cfg ℝ) (r : Row ℝ) :
    jointFull realFn c r = (lnPriorFull realFn c r).map (· + (-(2 * Real.log (2 * Real.pi)))) := by
  unfold jointFull lnPriorFull angleLogp
  simp only [realFn_log, realFn_pi, Option.map_map]
  congr 1; funext x; simp only [Function.comp]; ring

/-- the `K` term of a row is conditional on *that row's* period and eccentricity -/
theorem lnPriorFull_K_term (c : Cfg ℝ) (r : Row ℝ) (mu s0 P0 maxK : ℝ) (hk : c.kPrior = .fcm mu s0 P0 maxK) (x : ℝ)
    (h : lnPriorNonlinear realFn c r = some x) :
    lnPriorFull realFn c r = some (x + (normalLogp realFn mu (sigmaK realFn s0 P0 maxK r.P r.e) r.K
      + normalsLogp realFn c.vPrior r.v + normalsLogp realFn c.dvPrior r.dv)) := by
  simp [lnPriorFull, h, lnPriorLinear, kLogp, hk]

/-! ### non-vacuity -/
example : logUniformLogp realFn 2 100 10 = some (-Real.log 10 - Real.log (Real.log 100 - Real.log 2)) := by
  simp [logUniformLogp]; norm_num
example : logUniformLogp realFn 2 100 150 = none := logUniform_logp_outside 2 100 150 (Or.inr (by norm_num))
example : sigmaK realFn 30 365 500 365 0 = 30 := by
  rw [sigmaK_formula 30 365 500 365 0 (by norm_num) (by norm_num) (by norm_num)]
  norm_num
example : (0 : ℝ) < 2 ∧ (2 : ℝ) < 100 := by norm_num

end Prior
