/-! # C03 — property theorems (to be filled in) -/
