import JokerVerif.Lemmas.KernelReal
import JokerVerif.Props.C01
/-!
# C03 — linear parameters are drawn from the exact conditional posterior

The sampler hands `(a, A)` to numpy's `multivariate_normal`; that numpy then returns independent `N(a, A)` draws is
numpy's contract (trusted base).  What is proved: the `(a, A)` the kernel computes are the conditional-posterior
parameters, built from the *same* jitter-inflated covariance and the *same* prior slots as the marginal likelihood,
and that `N(a, A)` is exactly the conditional posterior of the linear parameters.
-/
open Matrix

namespace Kernel

section Field
variable {α : Type} [Field α] {n k : Nat}

/-- `A = (Λ⁻¹ + Mᵀ C_s⁻¹ M)⁻¹` and `a = A (Λ⁻¹ μ + Mᵀ C_s⁻¹ y)` -/
theorem post_mean_cov (x : KIn n k α) :
    (kA x).toM = (diagonal (fun j => (vfun x.lam j)⁻¹) + x.M.toMᵀ * diagonal (cs x) * x.M.toM)⁻¹ ∧
    vfun (ka x) = (kA x).toM *ᵥ
      (diagonal (fun j => (vfun x.lam j)⁻¹) *ᵥ vfun x.mu + x.M.toMᵀ *ᵥ (diagonal (cs x) *ᵥ vfun x.y)) := by
  constructor
  · rw [kA_toM, kAinv_toM]
  · rw [ka_fun, kA_toM]

/-- `a` solves the linear system the code hands to `dsysv`: `A⁻¹ a = Λ⁻¹ μ + Mᵀ C_s⁻¹ y` -/
theorem post_mean_solves (x : KIn n k α) (h : Valid x) :
    (kAinv x).toM *ᵥ vfun (ka x) =
      diagonal (fun j => (vfun x.lam j)⁻¹) *ᵥ vfun x.mu + x.M.toMᵀ *ᵥ (diagonal (cs x) *ᵥ vfun x.y) := by
  rw [ka_fun, mulVec_mulVec, Matrix.mul_nonsing_inv _ h.unit, one_mulVec]

/-- the posterior and the marginal likelihood use one and the same `(μ, Λ, C_s)`: the `A` that is the posterior
covariance is the very matrix inside the Woodbury form of `B⁻¹` used for `χ²`, and its inverse is the matrix
whose determinant enters `det B` -/
theorem post_same_prior_as_marginal (x : KIn n k α) :
    (kBinv x).toM = diagonal (cs x) - diagonal (cs x) * x.M.toM * (kA x).toM * x.M.toMᵀ * diagonal (cs x) ∧
    kdetFast x = (∏ i : Fin n, (cs x i)⁻¹) * (∏ j : Fin k, vfun x.lam j) * ((kA x).toM)⁻¹.det ∨
      ¬ IsUnit (kAinv x).toM.det := by
  by_cases hu : IsUnit (kAinv x).toM.det
  · left
    refine ⟨kBinv_toM x, ?_⟩
    rw [kA_toM, Matrix.nonsing_inv_nonsing_inv _ hu]
    rfl
  · right; exact hu

/-- with a passing inverse certificate the certified posterior parameters are the model's `(a, A)` -/
theorem certified_posterior_sound [DecidableEq α] (x : KIn n k α) (X : Mat k k α) (hX : checkInv x X = true) :
    X.toM = (kA x).toM ∧ kaWith x X = ka x :=
  ⟨checkInv_sound x X hX, kaWith_eq x X hX⟩

omit [Field α] in
/-- output layout: every emitted row is the unchanged nonlinear block followed by one draw, `nLinear`
consecutive rows per sample, in draw order -/
theorem emit_layout (theta : List α) (draws : List (List α)) :
    (emitRows theta draws).length = draws.length ∧
    ∀ r (hr : r < draws.length), (emitRows theta draws)[r]? = some (theta ++ draws[r]) := by
  refine ⟨by simp [emitRows], ?_⟩
  intro r hr
  simp [emitRows, hr]

omit [Field α] in
theorem emit_row_split (theta draw : List α) :
    (theta ++ draw).take theta.length = theta ∧ (theta ++ draw).drop theta.length = draw := by
  simp

end Field

noncomputable section
variable {n k : ℕ}

/-- `N(a, A)` is exactly the conditional posterior of the linear parameters: as a function of `x`,
`ln p(y | θ, x) + ln p(x | θ) − ln N(x | a, A)` is constant (and equals the marginal likelihood) -/
theorem post_is_conditional
    (M : Matrix (Fin n) (Fin k) ℝ) (y : Fin n → ℝ) (v : Fin n → ℝ) (mu lam : Fin k → ℝ)
    (hv : ∀ i, 0 < v i) (hl : ∀ j, 0 < lam j) (x₁ x₂ : Fin k → ℝ) :
    let Cs := diagonal v
    let L := diagonal lam
    let A := (L⁻¹ + Mᵀ * Cs⁻¹ * M)⁻¹
    let a := A *ᵥ (L⁻¹ *ᵥ mu + Mᵀ *ᵥ (Cs⁻¹ *ᵥ y))
    lnN y (M *ᵥ x₁) Cs + lnN x₁ mu L - lnN x₁ a A = lnN y (M *ᵥ x₂) Cs + lnN x₂ mu L - lnN x₂ a A := by
  intro Cs L A a
  have h1 := marginalisation_identity M y v mu lam x₁ hv hl
  have h2 := marginalisation_identity M y v mu lam x₂ hv hl
  simp only at h1 h2
  linarith

end

-- non-vacuity: on the concrete input of C01 the posterior parameters evaluate and solve the system
example : (kAinv exIn).toM *ᵥ vfun (ka exIn) = vfun (krhs exIn) := by decide +kernel
example : emitRows [1, 2] [[3], [4]] = [[1, 2, 3], [1, 2, 4]] := by decide

end Kernel
