/-! # C01 — property theorems (to be filled in) -/
