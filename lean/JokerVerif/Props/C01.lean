import JokerVerif.Lemmas.KernelReal
import JokerVerif.Lemmas.SlotLemmas
import JokerVerif.Lemmas.KernelCertLemmas
/-!
# C01 — marginal log-likelihood equals the analytic Gaussian marginal

Property theorems only.  `n`, `k`, the design matrix `M`, the data, the jitter, the prior means and variances
are universally quantified; nothing is bounded.
-/
open Matrix

namespace Kernel

section Field
variable {α : Type} [Field α] {n k : Nat}

/-- the jitter is folded in as *added variance*: `iv / (1 + s² iv) = 1 / (1/iv + s²)` -/
theorem getIvar_is_inverse_of_sum (iv s : α) (h1 : iv ≠ 0) (h2 : 1 + s * s * iv ≠ 0) :
    getIvar iv s = (iv⁻¹ + s ^ 2)⁻¹ := by
  unfold getIvar
  have h3 : iv⁻¹ + s ^ 2 ≠ 0 := by
    intro h
    apply h2
    have : (iv⁻¹ + s ^ 2) * iv = 0 := by rw [h, zero_mul]
    rw [add_mul, inv_mul_cancel₀ h1] at this
    rw [← this]; ring
  field_simp

/-- … and it is safe for a zeroed-out inverse variance -/
theorem getIvar_zero (s : α) : getIvar 0 s = 0 := by simp [getIvar]

/-- what a valid input means over a field: non-zero (jitter-inflated) inverse variances, non-zero prior
variances, invertible `A⁻¹` -/
structure Valid (x : KIn n k α) : Prop where
  cs_ne : ∀ i, cs x i ≠ 0
  lam_ne : ∀ j, vfun x.lam j ≠ 0
  unit : IsUnit (kAinv x).toM.det

/-- Woodbury, in the code's shape: the matrix `make_bBBinv` stores in `Binv` is the inverse of the one it
stores in `B` -/
theorem kernel_Binv_mul_B (x : KIn n k α) (h : Valid x) : (kBinv x).toM * (kB x).toM = 1 := by
  rw [kBinv_toM, kB_toM, kA_toM, kAinv_toM]
  have hu : IsUnit (diagonal (fun j => (vfun x.lam j)⁻¹) + x.M.toMᵀ * diagonal (cs x) * x.M.toM).det := by
    rw [← kAinv_toM]; exact h.unit
  exact KernelLemmas.kernel_woodbury x.M.toM (cs x) (vfun x.lam) h.cs_ne h.lam_ne hu

theorem kernel_B_inv (x : KIn n k α) (h : Valid x) : ((kB x).toM)⁻¹ = (kBinv x).toM :=
  inv_eq_left_inv (kernel_Binv_mul_B x h)

/-- the `χ²` the kernel computes is `(y − Mμ)ᵀ B⁻¹ (y − Mμ)` with `B = C_s + M Λ Mᵀ` -/
theorem kernel_chi2_eq (x : KIn n k α) (h : Valid x) :
    kchi2 x = (vfun x.y - x.M.toM *ᵥ vfun x.mu) ⬝ᵥ (((kB x).toM)⁻¹ *ᵥ (vfun x.y - x.M.toM *ᵥ vfun x.mu)) := by
  rw [kchi2_def, kernel_B_inv x h]
  have e : x.M.toM *ᵥ vfun x.mu - vfun x.y = -(vfun x.y - x.M.toM *ᵥ vfun x.mu) := by abel
  rw [e, mulVec_neg, neg_dotProduct, dotProduct_neg, neg_neg]

/-- the determinant the driver evaluates (`∏ σ_s² · ∏ λ · det A⁻¹`) is `det B` -/
theorem detB_eq_fast (x : KIn n k α) (h : Valid x) : kdetB x = kdetFast x := by
  unfold kdetB kdetFast
  rw [kB_toM, kAinv_toM]
  have := KernelLemmas.det_identity x.M.toM (cs x) (vfun x.lam) h.cs_ne h.lam_ne
  rw [this]
  rfl

omit [Field α] in
/-- prior slots are in design-matrix column order `[K | v0 | dv0_1 … dv0_q | v1 … v_{p-1}]` … -/
theorem slots_column_order (pr : LinPrior α) :
    (slots pr).length = 2 + pr.offsets.length + pr.trend.length ∧
    (slots pr)[0]? = some pr.K ∧ (slots pr)[1]? = some pr.v0 ∧
    (∀ i, i < pr.offsets.length → (slots pr)[2 + i]? = pr.offsets[i]?) ∧
    (∀ l, l < pr.trend.length → (slots pr)[2 + pr.offsets.length + l]? = pr.trend[l]?) := by
  refine ⟨by simp [slots]; omega, by simp [slots], by simp [slots], ?_, ?_⟩
  · intro i hi
    have : 2 + i = i + 1 + 1 := by omega
    simp [slots, this, List.getElem?_append_left hi]
  · intro l _
    have : 2 + pr.offsets.length + l = (pr.offsets.length + l) + 1 + 1 := by omega
    simp [slots, this, List.getElem?_append_right]

omit [Field α] in
/-- **the index arithmetic of `CJokerHelper.__init__` realises that order**: the `mu` / `Lambda` arrays as the
constructor fills them (zero-initialised, offsets written at `2 + i`, linear parameter number `i` written at
`i` for `K`, `v0` and at `i + n_offsets` for `v1, v2, …`) agree, on the `n_linear` positions the kernel reads,
with the column-order slots — for every `poly_trend`, every number of offsets and both K-prior kinds -/
theorem init_slots_refine_column_order [Zero α] (pr : LinPrior α) :
    (slotsImp pr).take (2 + pr.offsets.length + pr.trend.length) = slots pr := by
  apply List.ext_getElem?
  intro j
  by_cases hj : j < 2 + pr.offsets.length + pr.trend.length
  · rw [List.getElem?_take_of_lt hj, slotsImp_get pr j hj]
  · have h1 : (slots pr).length = 2 + pr.offsets.length + pr.trend.length := by simp [slots]; omega
    rw [List.getElem?_eq_none (by simp; omega), List.getElem?_eq_none (by omega)]

/-- … and so are the columns of a design-matrix row: Kepler term, constant, one indicator per non-reference
survey, then the powers of `t − t_ref` — column `j` multiplies exactly the parameter whose prior is in slot `j` -/
theorem designRow_columns (kep dt : α) (id q p : Nat) :
    (designRow kep dt id q p).length = 2 + q + (p - 1) ∧
    (designRow kep dt id q p)[0]? = some kep ∧ (designRow kep dt id q p)[1]? = some 1 ∧
    (∀ j, j < q → (designRow kep dt id q p)[2 + j]? = some (if id = j + 1 then 1 else 0)) ∧
    (∀ l, l < p - 1 → (designRow kep dt id q p)[2 + q + l]? = some (dt ^ (l + 1))) := by
  refine ⟨by simp [designRow]; omega, by simp [designRow], by simp [designRow], ?_, ?_⟩
  · intro j hj
    have : 2 + j = j + 1 + 1 := by omega
    simp [designRow, this, List.getElem?_append_left, hj]
  · intro l hl
    have : 2 + q + l = (q + l) + 1 + 1 := by omega
    simp [designRow, this, hl]

/-- **certified evaluation is sound**: when the driver is handed an inverse certificate `X` and an LU certificate
`(L, U)` for `A⁻¹` (computed outside, untrusted) and both checks pass, the `χ²` and `det B` it reports are exactly
the model's `kchi2` and `kdetB` — this is what lets the model be executed for problems with a dozen linear
parameters, where the adjugate / Leibniz forms are out of reach -/
theorem certified_eval_sound [DecidableEq α] (x : KIn n k α) (h : Valid x) (X L U : Mat k k α)
    (hX : checkInv x X = true) (hLU : checkLU x L U = true) :
    kchi2With x X = kchi2 x ∧ kdetCert x U = kdetB x := by
  refine ⟨kchi2With_eq x X hX, ?_⟩
  rw [kdetCert_eq x L U hLU, detB_eq_fast x h]

end Field

noncomputable section
variable {n k : ℕ}

/-- the value `likelihood_worker` returns: `−½ (χ² + Σ_i log(2π |U_ii|))`, the `U_ii` being the pivots of the LU
factorisation of `B` (LAPACK contract: `∏ |U_ii| = |det B|`) -/
def kll (x : KIn n k ℝ) : ℝ :=
  -(1/2) * (kchi2 x + Real.log ((2 * Real.pi) ^ n * |kdetB x|))

/-- the code's log-determinant loop: `Σ_i log(2π |U_ii|)` over the pivots of the LU factorisation equals
`log((2π)^n |∏ U_ii|)`, i.e. (LAPACK contract `∏ U_ii = ± det B`) the `log((2π)^n |det B|)` used in `kll` -/
theorem logdet_sum_eq (u : Fin n → ℝ) (hu : ∀ i, u i ≠ 0) :
    ∑ i, Real.log (2 * Real.pi * |u i|) = Real.log ((2 * Real.pi) ^ n * |∏ i, u i|) := by
  have hpi : (2 * Real.pi) ≠ 0 := by positivity
  rw [Finset.abs_prod, Real.log_mul (pow_ne_zero _ hpi)
    (Finset.prod_ne_zero_iff.mpr fun i _ => abs_ne_zero.mpr (hu i)), Real.log_pow, Real.log_prod]
  · simp only [Real.log_mul hpi (abs_ne_zero.mpr (hu _)), Finset.sum_add_distrib, Finset.sum_const,
      Finset.card_univ, Fintype.card_fin, nsmul_eq_mul]
  · intro i _; exact abs_ne_zero.mpr (hu i)

/-- a physically valid input: `ivar_i = 1/σ_i²` with `σ_i > 0`, prior variances `λ_j > 0`, any real jitter -/
structure Phys (x : KIn n k ℝ) (σ : Fin n → ℝ) : Prop where
  sig_pos : ∀ i, 0 < σ i
  ivar_eq : ∀ i, vfun x.ivar i = ((σ i) ^ 2)⁻¹
  lam_pos : ∀ j, 0 < vfun x.lam j

theorem Phys.cs_eq {x : KIn n k ℝ} {σ : Fin n → ℝ} (h : Phys x σ) (i : Fin n) :
    cs x i = ((σ i) ^ 2 + x.s ^ 2)⁻¹ := by
  have hs : 0 < (σ i) ^ 2 := pow_pos (h.sig_pos i) 2
  have hiv := h.ivar_eq i
  simp only [vfun] at hiv
  rw [cs_apply, hiv]
  have h2 : 1 + x.s * x.s * ((σ i) ^ 2)⁻¹ ≠ 0 := by
    have : 0 ≤ x.s * x.s * ((σ i) ^ 2)⁻¹ := mul_nonneg (mul_self_nonneg _) (inv_nonneg.mpr hs.le)
    linarith
  rw [getIvar_is_inverse_of_sum _ _ (inv_ne_zero hs.ne') h2, inv_inv]

theorem Phys.valid {x : KIn n k ℝ} {σ : Fin n → ℝ} (h : Phys x σ) : Valid x := by
  have hv : ∀ i, 0 < (σ i) ^ 2 + x.s ^ 2 := fun i => by
    have := pow_pos (h.sig_pos i) 2; positivity
  refine ⟨fun i => ?_, fun j => (h.lam_pos j).ne', ?_⟩
  · rw [h.cs_eq i]; exact inv_ne_zero (hv i).ne'
  · rw [kAinv_toM]
    have hcs : cs x = fun i => ((σ i) ^ 2 + x.s ^ 2)⁻¹ := funext h.cs_eq
    rw [hcs]
    exact ((kernel_posdef x.M.toM (fun i => (σ i) ^ 2 + x.s ^ 2) (vfun x.lam) hv h.lam_pos).2.det_pos).ne'.isUnit

/-- `B` is the marginal covariance `C + s² I + M Λ Mᵀ` -/
theorem Phys.B_eq {x : KIn n k ℝ} {σ : Fin n → ℝ} (h : Phys x σ) :
    (kB x).toM = diagonal (fun i => (σ i) ^ 2) + (x.s ^ 2) • (1 : Matrix (Fin n) (Fin n) ℝ)
      + x.M.toM * diagonal (vfun x.lam) * x.M.toMᵀ := by
  rw [kB_toM]
  congr 1
  have : (fun i => (cs x i)⁻¹) = fun i => (σ i) ^ 2 + x.s ^ 2 := by
    funext i; rw [h.cs_eq i, inv_inv]
  rw [this, ← diagonal_one, ← diagonal_smul, diagonal_add]
  congr 1
  funext i
  simp

/-- **finite for every finite valid input** (real-number content): with `σ_i > 0`, `λ_j > 0` and any jitter, `B`
and `A⁻¹` are positive definite, `det B > 0`, and no division by zero occurs -/
theorem kernel_welldefined (x : KIn n k ℝ) (σ : Fin n → ℝ) (h : Phys x σ) :
    (kB x).toM.PosDef ∧ (kAinv x).toM.PosDef ∧ 0 < kdetB x ∧ Valid x := by
  have hv : ∀ i, 0 < (σ i) ^ 2 + x.s ^ 2 := fun i => by
    have := pow_pos (h.sig_pos i) 2; positivity
  have hcs : cs x = fun i => ((σ i) ^ 2 + x.s ^ 2)⁻¹ := funext h.cs_eq
  have hp := kernel_posdef x.M.toM (fun i => (σ i) ^ 2 + x.s ^ 2) (vfun x.lam) hv h.lam_pos
  have hB : (kB x).toM = diagonal (fun i => (σ i) ^ 2 + x.s ^ 2) + x.M.toM * diagonal (vfun x.lam) * x.M.toMᵀ := by
    rw [kB_toM, hcs]; simp
  have hA : (kAinv x).toM = diagonal (fun j => (vfun x.lam j)⁻¹)
      + x.M.toMᵀ * diagonal (fun i => ((σ i) ^ 2 + x.s ^ 2)⁻¹) * x.M.toM := by
    rw [kAinv_toM, hcs]
  refine ⟨hB ▸ hp.1, hA ▸ hp.2, ?_, h.valid⟩
  unfold kdetB; rw [hB]; exact hp.1.det_pos

/-- **the statement of C01**: for every `n`, `k`, design matrix, data, errors `σ > 0`, jitter `s`, prior means
`μ` and prior variances `λ > 0`, the value the kernel's algorithm produces is
`ln N(y | M μ, C + s² I + M Λ Mᵀ)` -/
theorem kernel_ll_eq_lnN (x : KIn n k ℝ) (σ : Fin n → ℝ) (h : Phys x σ) :
    kll x = lnN (vfun x.y) (x.M.toM *ᵥ vfun x.mu)
      (diagonal (fun i => (σ i) ^ 2) + (x.s ^ 2) • (1 : Matrix (Fin n) (Fin n) ℝ)
        + x.M.toM * diagonal (vfun x.lam) * x.M.toMᵀ) := by
  obtain ⟨_, _, hdet, hval⟩ := kernel_welldefined x σ h
  unfold kll lnN
  rw [kernel_chi2_eq x hval, abs_of_pos hdet, ← h.B_eq]
  rfl

/-- `N(y | Mμ, B)` *is* the likelihood with the linear parameters integrated out against their Normal prior:
for every `x`, likelihood × prior = marginal × a normalised Gaussian in `x` (the only analytic fact not
re-proved here is that a multivariate normal density integrates to one) -/
theorem marginalisation_identity
    (M : Matrix (Fin n) (Fin k) ℝ) (y : Fin n → ℝ) (v : Fin n → ℝ) (mu lam : Fin k → ℝ) (x : Fin k → ℝ)
    (hv : ∀ i, 0 < v i) (hl : ∀ j, 0 < lam j) :
    let Cs := diagonal v
    let L := diagonal lam
    let A := (L⁻¹ + Mᵀ * Cs⁻¹ * M)⁻¹
    let a := A *ᵥ (L⁻¹ *ᵥ mu + Mᵀ *ᵥ (Cs⁻¹ *ᵥ y))
    lnN y (M *ᵥ x) Cs + lnN x mu L = lnN y (M *ᵥ mu) (Cs + M * L * Mᵀ) + lnN x a A := by
  have hu : IsUnit ((diagonal lam)⁻¹ + Mᵀ * (diagonal v)⁻¹ * M).det := by
    rw [KernelLemmas.inv_diag v (fun i => (hv i).ne'), KernelLemmas.inv_diag lam (fun j => (hl j).ne')]
    exact ((kernel_posdef M v lam hv hl).2.det_pos).ne'.isUnit
  exact marginalisation_identity_abstract M y v mu lam x (fun i => (hv i).ne') (fun j => (hl j).ne') hu

/-- the kernel's per-sample variance of `K` is the square of the `σ_K` that `distributions.py` declares:
`min(max_K², σ_K0² (P/P0)^{-2/3} / (1−e²)) = (clip(σ_K0 (P/P0)^{-1/3} / √(1−e²), 0, max_K))²` -/
theorem lambdaK_eq_clip_sq (s0 maxK P P0 e : ℝ) (hs : 0 ≤ s0) (hm : 0 ≤ maxK) (hP : 0 < P) (hP0 : 0 < P0)
    (he : e ^ 2 < 1) :
    lambdaK s0 maxK e ((P / P0) ^ (-(2:ℝ) / 3)) =
      (min (max (s0 * (P / P0) ^ (-(1:ℝ) / 3) / Real.sqrt (1 - e ^ 2)) 0) maxK) ^ 2 := by
  unfold lambdaK
  rw [lambdaK_eq_sigma_sq s0 P P0 e hP hP0 he]
  set S := s0 * (P / P0) ^ (-(1:ℝ) / 3) / Real.sqrt (1 - e ^ 2) with hS
  have hS0 : 0 ≤ S := by
    have h1 : 0 < 1 - e ^ 2 := by linarith
    have : 0 < (P / P0) ^ (-(1:ℝ) / 3) := Real.rpow_pos_of_pos (div_pos hP hP0) _
    positivity
  rw [max_eq_left hS0]
  rcases le_total S maxK with h | h
  · rw [min_eq_left h, min_eq_right (pow_le_pow_left₀ hS0 h 2)]
  · rw [min_eq_right h, min_eq_left (pow_le_pow_left₀ hm h 2)]

end

-- non-vacuity: a concrete valid input (2 epochs, 2 linear parameters) over ℚ evaluates, and satisfies `Valid`'s
-- decidable ingredients; the closed form's pieces are the expected numbers
def exIn : KIn 2 2 ℚ :=
  { M := .ofFn fun i j => if j.val = 0 then (if i.val = 0 then 1/2 else -1/3) else 1,
    y := #v[1, 2], ivar := #v[4, 1], s := 1/2, mu := #v[0, 1/10], lam := #v[100, 9] }
example : (sIvar exIn).toList = [2, 4/5] := by decide +kernel
example : (kAinv exIn).toM.det ≠ 0 := by decide +kernel
example : kdetB exIn = kdetFast exIn := by decide +kernel
-- a certificate for the concrete input passes the checks (inverse by adjugate; LU of the 2x2 matrix by hand)
example : checkInv exIn (kA exIn) = true := by decide +kernel
example : slotsImp (⟨(1, 2), (3, 4), [(5, 6)], [(7, 8), (9, 10)]⟩ : LinPrior ℚ) =
    [(1, 2), (3, 4), (5, 6), (7, 8), (9, 10), (0, 0)] := by decide +kernel

end Kernel
