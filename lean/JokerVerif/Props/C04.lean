import JokerVerif.Props.C03
/-!
# C04 — a sample row denotes one RV curve everywhere; the Bayes identity holds

`kep` (the unit-amplitude Kepler curve) is an uninterpreted oracle: the theorems are about argument plumbing —
the kernel's design-matrix row dotted with a row's linear parameters is the RV of the orbit that the same row
reconstructs (same Kepler term, trend expanded about the same `t_ref`, the epoch's own survey offset) — and
about the consistency of marginal likelihood, unmarginalised likelihood, linear prior and conditional posterior.
-/
open Matrix

namespace Kernel

section Field
variable {α : Type} [Field α]

theorem rowDot_cons (r x : α) (rs xs : List α) : rowDot (r :: rs) (x :: xs) = r * x + rowDot rs xs := by
  simp [rowDot]

theorem rowDot_append (r1 r2 x1 x2 : List α) (h : r1.length = x1.length) :
    rowDot (r1 ++ r2) (x1 ++ x2) = rowDot r1 x1 + rowDot r2 x2 := by
  unfold rowDot
  rw [List.zipWith_append h, List.sum_append]

/-- indicator columns pick out exactly the epoch's own survey offset -/
theorem rowDot_indicators (id : Nat) : ∀ (offsets : List α) (base : Nat),
    rowDot ((List.range' base offsets.length).map fun j => if id = j + 1 then (1 : α) else 0) offsets
      = if h : base + 1 ≤ id ∧ id < base + 1 + offsets.length then offsets.getD (id - 1 - base) 0 else 0 := by
  intro offsets
  induction offsets with
  | nil => intro base; simp [rowDot]
  | cons o os ih =>
    intro base
    simp only [List.length_cons, List.range'_succ, List.map_cons, rowDot_cons]
    rw [ih (base + 1)]
    by_cases h1 : id = base + 1
    · subst h1; simp
    · simp only [h1, if_false, zero_mul, zero_add]
      by_cases h2 : base + 1 + 1 ≤ id ∧ id < base + 1 + 1 + os.length
      · have h3 : base + 1 ≤ id ∧ id < base + 1 + (os.length + 1) := by omega
        rw [dif_pos h2, dif_pos h3]
        have : id - 1 - base = (id - 1 - (base + 1)) + 1 := by omega
        rw [this]; simp
      · have h3 : ¬ (base + 1 ≤ id ∧ id < base + 1 + (os.length + 1)) := by omega
        rw [dif_neg h2, dif_neg h3]

/-- trend columns reproduce the polynomial about `t_ref` -/
theorem rowDot_powers (dt : α) : ∀ (vtrend : List α) (base : Nat),
    rowDot ((List.range' base vtrend.length).map fun l => dt ^ (l + 1)) vtrend = polyFrom dt (base + 1) vtrend := by
  intro vtrend
  induction vtrend with
  | nil => intro base; simp [rowDot, polyFrom]
  | cons c cs ih =>
    intro base
    simp only [List.length_cons, List.range'_succ, List.map_cons, rowDot_cons, polyFrom]
    rw [ih (base + 1)]; ring

/-- **the kernel's RV model is the reconstructed orbit's RV**: for every epoch (Kepler term `kep`, time offset
`dt = t − t_ref`, survey label `id ≤ q`) and every linear-parameter vector `[K, v0, dv0_1..dv0_q, v1..v_{p-1}]`,
`design row · x = K·kep + Σ_l v_l dt^l + offset(id)` -/
theorem design_row_eq_orbit (kep dt K v0 : α) (offsets vtrend : List α) (id q p : Nat)
    (hq : offsets.length = q) (hp : vtrend.length = p - 1) (hid : id ≤ q) :
    rowDot (designRow kep dt id q p) (K :: v0 :: (offsets ++ vtrend)) = orbitRV K kep dt v0 vtrend offsets id := by
  unfold designRow orbitRV
  rw [rowDot_cons, rowDot_cons, rowDot_append _ _ _ _ (by simp [hq])]
  have e1 : (List.range q) = List.range' 0 offsets.length := by rw [hq, List.range_eq_range']
  have e2 : (List.range (p - 1)) = List.range' 0 vtrend.length := by rw [hp, List.range_eq_range']
  rw [e1, e2, rowDot_indicators id offsets 0, rowDot_powers dt vtrend 0]
  have hoff : (if h : 0 + 1 ≤ id ∧ id < 0 + 1 + offsets.length then offsets.getD (id - 1 - 0) 0 else 0)
      = offsetOf offsets id := by
    cases id with
    | zero => simp [offsetOf]
    | succ j =>
      have : 0 + 1 ≤ j + 1 ∧ j + 1 < 0 + 1 + offsets.length := by omega
      rw [dif_pos this]; simp [offsetOf]
  rw [hoff]; ring

end Field

section Ordered
variable {α : Type} [LinearOrder α]

theorem foldl_min_le (r : List α) (m0 : α) : r.foldl min m0 ≤ m0 ∧ ∀ t ∈ r, r.foldl min m0 ≤ t := by
  induction r generalizing m0 with
  | nil => simp
  | cons x xs ih =>
    obtain ⟨h1, h2⟩ := ih (min m0 x)
    simp only [List.foldl_cons]
    refine ⟨le_trans h1 (min_le_left _ _), ?_⟩
    intro t ht
    rcases List.mem_cons.mp ht with rfl | hx
    · exact le_trans h1 (min_le_right _ _)
    · exact h2 t hx

theorem foldl_min_mem (r : List α) (m0 : α) : r.foldl min m0 = m0 ∨ r.foldl min m0 ∈ r := by
  induction r generalizing m0 with
  | nil => simp
  | cons x xs ih =>
    simp only [List.foldl_cons]
    rcases ih (min m0 x) with h | h
    · rcases min_choice m0 x with hm | hm
      · left; rw [h, hm]
      · right; rw [h, hm]; exact List.mem_cons_self
    · right; exact List.mem_cons_of_mem _ h

/-- the reference epoch of merged data is its earliest time: a member, and a lower bound of every time -/
theorem tref_is_min (ts : List α) (t0 : α) (h : tRef ts = some t0) : t0 ∈ ts ∧ ∀ t ∈ ts, t0 ≤ t := by
  cases ts with
  | nil => simp [tRef] at h
  | cons t r =>
    simp only [tRef, Option.some.injEq] at h
    subst h
    obtain ⟨h1, h2⟩ := foldl_min_le r t
    constructor
    · rcases foldl_min_mem r t with h | h
      · rw [h]; exact List.mem_cons_self
      · exact List.mem_cons_of_mem _ h
    · intro u hu
      rcases List.mem_cons.mp hu with rfl | hx
      · exact h1
      · exact h2 u hx

/-- … so it does not depend on the order in which surveys (or epochs) are merged -/
theorem tref_merge_perm (ts ts' : List α) (hp : ts.Perm ts') : tRef ts = tRef ts' := by
  cases h : tRef ts with
  | none =>
    cases ts with
    | nil =>
      have : ts' = [] := by simpa using hp
      subst this; rfl
    | cons t r => simp [tRef] at h
  | some a =>
    obtain ⟨ha1, ha2⟩ := tref_is_min ts a h
    cases h' : tRef ts' with
    | none =>
      cases ts' with
      | nil => exact absurd (hp.subset ha1) (by simp)
      | cons t r => simp [tRef] at h'
    | some b =>
      obtain ⟨hb1, hb2⟩ := tref_is_min ts' b h'
      have h1 : a ≤ b := ha2 b (hp.symm.subset hb1)
      have h2 : b ≤ a := hb2 a (hp.subset ha1)
      rw [le_antisymm h1 h2]

end Ordered

noncomputable section
variable {n k : ℕ}

/-- **Bayes identity** for the kernel's own quantities: for *every* linear-parameter vector `xl` (not only drawn
ones), `marginal ln-likelihood(θ) = ln p(y | θ, xl) + ln p(xl | θ) − ln N(xl | a, A)` with `(a, A)` the
posterior parameters the kernel computes -/
theorem bayes_identity (x : KIn n k ℝ) (σ : Fin n → ℝ) (h : Phys x σ) (xl : Fin k → ℝ) :
    kll x = lnN (vfun x.y) (x.M.toM *ᵥ xl) (diagonal fun i => (σ i) ^ 2 + x.s ^ 2)
          + lnN xl (vfun x.mu) (diagonal (vfun x.lam))
          - lnN xl (vfun (ka x)) (kA x).toM := by
  have hv : ∀ i, 0 < (σ i) ^ 2 + x.s ^ 2 := fun i => by
    have := pow_pos (h.sig_pos i) 2; positivity
  have hm := marginalisation_identity x.M.toM (vfun x.y) (fun i => (σ i) ^ 2 + x.s ^ 2) (vfun x.mu) (vfun x.lam) xl
    hv h.lam_pos
  simp only at hm
  have hcs : cs x = fun i => ((σ i) ^ 2 + x.s ^ 2)⁻¹ := funext h.cs_eq
  have hCi : (diagonal fun i => (σ i) ^ 2 + x.s ^ 2)⁻¹ = diagonal (cs x) := by
    rw [KernelLemmas.inv_diag _ (fun i => (hv i).ne'), hcs]
  have hLi : (diagonal (vfun x.lam))⁻¹ = diagonal (fun j => (vfun x.lam j)⁻¹) :=
    KernelLemmas.inv_diag _ (fun j => (h.lam_pos j).ne')
  have hA : (kA x).toM = ((diagonal (vfun x.lam))⁻¹ + x.M.toMᵀ * (diagonal fun i => (σ i) ^ 2 + x.s ^ 2)⁻¹ * x.M.toM)⁻¹ := by
    rw [kA_toM, kAinv_toM, hCi, hLi]
  have ha : vfun (ka x) = ((diagonal (vfun x.lam))⁻¹ + x.M.toMᵀ * (diagonal fun i => (σ i) ^ 2 + x.s ^ 2)⁻¹ * x.M.toM)⁻¹ *ᵥ
      ((diagonal (vfun x.lam))⁻¹ *ᵥ vfun x.mu + x.M.toMᵀ *ᵥ ((diagonal fun i => (σ i) ^ 2 + x.s ^ 2)⁻¹ *ᵥ vfun x.y)) := by
    rw [ka_fun, kAinv_toM, hCi, hLi]
  have hB : diagonal (fun i => (σ i) ^ 2) + (x.s ^ 2) • (1 : Matrix (Fin n) (Fin n) ℝ)
      + x.M.toM * diagonal (vfun x.lam) * x.M.toMᵀ
      = diagonal (fun i => (σ i) ^ 2 + x.s ^ 2) + x.M.toM * diagonal (vfun x.lam) * x.M.toMᵀ := by
    congr 1
    rw [← diagonal_one, ← diagonal_smul, diagonal_add]
    congr 1; funext i; simp
  rw [kernel_ll_eq_lnN x σ h, hB, hA, ha]
  linarith

end

-- non-vacuity: a concrete row (q = 2 offsets, p = 3 trend terms, epoch of survey 2)
example : rowDot (designRow (1/2 : ℚ) 3 2 2 3) [10, 1, 5, 7, 2, 1] = orbitRV 10 (1/2) 3 1 [2, 1] [5, 7] 2 := by
  decide +kernel
example : orbitRV (10 : ℚ) (1/2) 3 1 [2, 1] [5, 7] 2 = 5 + (1 + 2 * 3 + 1 * 9) + 7 := by decide +kernel

end Kernel
