/-! # C04 — property theorems (to be filled in) -/
