/-! # C05 — property theorems (to be filled in) -/
