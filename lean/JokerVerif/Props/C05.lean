import JokerVerif.Lemmas.HistLemmas
import JokerVerif.Props.C16
/-!
# C05 — results do not depend on batching, pool, cache path or call history

Property theorems only (model: `Model/Hist.lean`).  All statements hold for every scalar type `α`, every
choice of the external routines `X : Ext α`, every numeric core `w : Worker α` / `wp : PostWorker α` that
respects the declared read-set (immutable part + the three buffers a step rewrites first), every library,
every history and every partition — no bound on any size.
-/
namespace Hist

variable {α : Type}

/-- every scratch cell read by a step is written earlier in the same step: two helpers that agree on the
immutable part return the same value, whatever their scratch buffers contain (marginal likelihood and
posterior draw) -/
theorem step_out_indep_of_scratch (X : Ext α) (w : Worker α) (wp : PostWorker α) (h h' : Helper α)
    (op : Op α) (himm : h.imm = h'.imm) :
    (stepOp X w wp h op).2 = (stepOp X w wp h' op).2 :=
  stepOp_out X w wp h h' op himm

/-- no step writes the immutable part -/
theorem step_preserves_imm (X : Ext α) (w : Worker α) (wp : PostWorker α) (h : Helper α) (op : Op α) :
    (stepOp X w wp h op).1.imm = h.imm :=
  stepOp_imm X w wp h op

/-- for every list of earlier operations `ops` (marginal likelihoods and posterior draws of any samples, in
any order) on a helper in any initial scratch state, the next operation returns what a pristine helper
returns for it alone -/
theorem history_independence (X : Ext α) (w : Worker α) (wp : PostWorker α) (scr0 : Scratch α)
    (ops : List (Op α)) (h : Helper α) (op : Op α) :
    (stepOp X w wp (runOps X w wp h ops).1 op).2 = evalFresh X w wp h.imm scr0 op := by
  have := (runOps_spec X w wp scr0 ops h).2
  exact stepOp_out X w wp _ ⟨h.imm, scr0⟩ op this

/-- the outputs of a whole history are the fresh values, in order -/
theorem history_outputs (X : Ext α) (w : Worker α) (wp : PostWorker α) (scr0 : Scratch α)
    (ops : List (Op α)) (h : Helper α) :
    (runOps X w wp h ops).2 = ops.map (evalFresh X w wp h.imm scr0) :=
  (runOps_spec X w wp scr0 ops h).1

/-- a helper rebuilt from `__reduce__` in a worker process has the immutable part of the original, whatever
the original went through before it was pickled -/
theorem rebuild_reduce_imm (X : Ext α) (w : Worker α) (wp : PostWorker α) (zero : α) (ops : List (Op α))
    (h : Helper α) : (rebuild zero (reduce (runOps X w wp h ops).1)).imm = h.imm :=
  (runOps_spec X w wp h.scr ops h).2

/-- for EVERY partition of the rows into consecutive blocks, each block evaluated on ANY helper with the
same immutable part (fresh, reused after arbitrary work, or rebuilt from `__reduce__`), the concatenation in
task order equals the per-row fresh values in input order -/
theorem batching_independence (X : Ext α) (w : Worker α) (scr0 : Scratch α) (i : Imm α)
    (parts : List (List (Theta α))) (helpers : List (Helper α))
    (hlen : helpers.length = parts.length) (himm : ∀ h ∈ helpers, h.imm = i) :
    runBatches X w helpers parts = parts.flatten.map (llFresh X w i scr0) :=
  runBatches_spec X w scr0 i parts helpers hlen himm

/-- in particular for the partition `batch_tasks` produces (C16), for every integer `n_batches`:
the result is `lib.map fresh`, i.e. one value per library row, in input order -/
theorem batching_independence_batch_tasks (X : Ext α) (w : Worker α) (scr0 : Scratch α) (i : Imm α)
    (lib : List (Theta α)) (hn : 1 ≤ lib.length) (nBatches : Int) (helpers : List (Helper α))
    (hlen : helpers.length = (blocks lib nBatches).length) (himm : ∀ h ∈ helpers, h.imm = i) :
    runBatches X w helpers (blocks lib nBatches) = lib.map (llFresh X w i scr0) := by
  rw [batching_independence X w scr0 i _ helpers hlen himm]
  congr 1
  have := Batch.batches_cover_whole_arr lib nBatches hn
  unfold blocks
  rw [← List.flatMap_id', List.flatMap_map] at *
  simpa using this

/-- two execution paths (different `n_batches`, different helpers — serial reuse or per-task rebuilds) give
the same list of likelihoods -/
theorem paths_agree (X : Ext α) (w : Worker α) (scr0 : Scratch α) (i : Imm α)
    (lib : List (Theta α)) (hn : 1 ≤ lib.length) (nb₁ nb₂ : Int) (hs₁ hs₂ : List (Helper α))
    (hl₁ : hs₁.length = (blocks lib nb₁).length) (hl₂ : hs₂.length = (blocks lib nb₂).length)
    (hi₁ : ∀ h ∈ hs₁, h.imm = i) (hi₂ : ∀ h ∈ hs₂, h.imm = i) :
    runBatches X w hs₁ (blocks lib nb₁) = runBatches X w hs₂ (blocks lib nb₂) := by
  rw [batching_independence_batch_tasks X w scr0 i lib hn nb₁ hs₁ hl₁ hi₁,
      batching_independence_batch_tasks X w scr0 i lib hn nb₂ hs₂ hl₂ hi₂]

/-- equal seeds (the same recorded uniforms `uu`) ⇒ the same accepted positions on every path -/
theorem accepted_set_path_independent (X : Ext α) (w : Worker α) (scr0 : Scratch α) (i : Imm α)
    (lib : List (Theta α)) (hn : 1 ≤ lib.length) (nb₁ nb₂ : Int) (hs₁ hs₂ : List (Helper α))
    (hl₁ : hs₁.length = (blocks lib nb₁).length) (hl₂ : hs₂.length = (blocks lib nb₂).length)
    (hi₁ : ∀ h ∈ hs₁, h.imm = i) (hi₂ : ∀ h ∈ hs₂, h.imm = i)
    (acc : α → α → α → Bool) (mx : List α → α) (uu : List α) (maxPost : Nat) :
    accepted acc mx (runBatches X w hs₁ (blocks lib nb₁)) uu maxPost =
      accepted acc mx (runBatches X w hs₂ (blocks lib nb₂)) uu maxPost :=
  accepted_congr acc mx _ _ uu maxPost (paths_agree X w scr0 i lib hn nb₁ nb₂ hs₁ hs₂ hl₁ hl₂ hi₁ hi₂)

/-! ### non-vacuity: a concrete machine over `Nat` whose work buffers really carry the previous sample -/

private def xN : Ext Nat := ⟨fun t t0 θ => t.map (· + t0 + θ.P), fun a b c P e => a + b + c + P + e, fun iv s => iv + s⟩
private def wN : Worker Nat := fun i r s l => (r.sum + s.sum + l + i.mu.sum, r ++ s)
private def wpN : PostWorker Nat := fun _ r s l z => (z.map (· + r.sum + l), s ++ r)
private def iN : Imm Nat := ⟨[1, 2], [5, 6], [3, 4], 7, [[1, 1]], [0, 0], [9], false, 0, 2, 3, 4⟩
private def th (p : Nat) : Theta Nat := ⟨p, 1, 2, 3, p + 1⟩
private def scrA : Scratch Nat := ⟨[], [], 0, []⟩
private def scrB : Scratch Nat := ⟨[99, 98], [97], 96, [95, 94]⟩

example : (runOps xN wN wpN ⟨iN, scrB⟩ [.marg (th 1), .post (th 5) [1, 2], .marg (th 2)]).2
    = [.marg (th 1), .post (th 5) [1, 2], .marg (th 2)].map (evalFresh xN wN wpN iN scrA) := by decide
example : (runOps xN wN wpN ⟨iN, scrB⟩ [.marg (th 1)]).1.scr ≠ scrB := by decide
example : runBatches xN wN [⟨iN, scrA⟩, ⟨iN, scrB⟩] (blocks [th 1, th 2, th 3] 2)
    = [th 1, th 2, th 3].map (llFresh xN wN iN scrA) := by decide
example : blocks [th 1, th 2, th 3] 2 = [[th 1, th 2], [th 3]] := by decide

end Hist
