/-! # C12 — property theorems (to be filled in) -/
