import JokerVerif.Lemmas.StoreLemmas
/-!
# C12 — sample files round-trip exactly; appends concatenate; incompatible appends are refused without
altering the file; batch reads return exactly the rows / columns / units asked for

Property theorems only (model: `Model/Store.lean`, helper lemmas: `Lemmas/StoreLemmas.lean`).  All statements
are for every table (any number of columns and rows, any headers, any metadata), every history of writes and
every selection; the value type `α` is arbitrary (`Float` when executed by the driver).
-/
namespace Store
variable {α : Type}

/-! ## Round trip -/

/-- `read (write t ∅) = t`: writing to a path that does not exist (any flags; FITS without `append`) succeeds
and reading gives back exactly the table — column names, order, dtypes, units, values, `t_ref`, `poly_trend`,
`n_offsets`. -/
theorem read_write_roundtrip (fmt : Fmt) (t : Table α) (ov ap : Bool) (h : fmt = .fits → ap = false) :
    (write fmt none t ov ap).2 = .ok () ∧ read (write fmt none t ov ap).1 = .ok t := by
  cases fmt with
  | hdf5 => simp [write, read]
  | fits => simp [write, read, h rfl]

/-- the same over an existing file, for every replacing write (`overwrite=True`, with or without `append` for
HDF5): the old content is gone, the new table is read back exactly -/
theorem read_overwrite_roundtrip (fmt : Fmt) (s : State α) (t : Table α) (ap : Bool)
    (h : fmt = .fits → ap = false) :
    (write fmt s t true ap).2 = .ok () ∧ read (write fmt s t true ap).1 = .ok t := by
  cases fmt with
  | hdf5 => cases s <;> cases ap <;> simp [write, read]
  | fits => cases s <;> simp [write, read, h rfl]

/-- every successful write is either a replacement (read gives the table) or a compatible append to an
existing HDF5 file (read gives old content followed by the table); nothing else can happen -/
theorem read_after_write (fmt : Fmt) (s : State α) (t : Table α) (ov ap : Bool)
    (hok : (write fmt s t ov ap).2 = .ok ()) :
    read (write fmt s t ov ap).1 = .ok t ∨
    ∃ f, s = some f ∧ fmt = .hdf5 ∧ ap = true ∧ ov = false ∧ compatible f t = true ∧
      read (write fmt s t ov ap).1 = .ok (f.append t) := by
  cases fmt with
  | fits =>
    left
    cases ap with
    | true => simp [write] at hok
    | false =>
      cases s with
      | none => simp [write, read]
      | some f => cases ov <;> simp [write, read] at hok ⊢
  | hdf5 =>
    cases s with
    | none => left; simp [write, read]
    | some f =>
      cases ap <;> cases ov <;> simp [write, read] at hok ⊢
      by_cases hc : compatible f t = true
      · right; simp [hc]
      · simp [hc] at hok

/-- a refused write (file exists, no `overwrite`, no `append`) leaves the file as it was -/
theorem exists_no_change (fmt : Fmt) (f t : Table α) :
    write fmt (some f) t false false = (some f, .error .exists) := by
  cases fmt <;> simp [write]

/-- FITS files cannot be appended to, and the attempt leaves the state as it was -/
theorem fits_append_no_change (s : State α) (t : Table α) (ov : Bool) :
    write .fits s t ov true = (s, .error .notImpl) := by
  simp [write]

/-! ## Appends concatenate -/

/-- **Refinement to the list specification.**  For every history of writes (any mixture of plain writes,
overwrites, appends, both flags; successful or refused) starting from "no file": the file equals the content
denoted by the log `specRun` keeps — the list of tables written since the last replacing write, oldest first —
the outcomes (ok / which error) agree call by call, and every table in the log was accepted against the first. -/
theorem append_concat (fmt : Fmt) (ws : List (Table α × Bool × Bool)) :
    writeRun fmt none ws = (content (specRun fmt [] ws).1, (specRun fmt [] ws).2) ∧
    LogOK (specRun fmt [] ws).1 :=
  writeRun_refines fmt ws [] trivial

/-- … and the same from any reachable state (any log) -/
theorem append_concat_from (fmt : Fmt) (log : Log α) (hlog : LogOK log) (ws : List (Table α × Bool × Bool)) :
    writeRun fmt (content log) ws = (content (specRun fmt log ws).1, (specRun fmt log ws).2) ∧
    LogOK (specRun fmt log ws).1 :=
  writeRun_refines fmt ws log hlog

/-- what a log denotes: the header (names, order, dtypes, units) and metadata of the first table, and column
`i` holds the concatenation, in write order, of column `i` of every table of the log -/
theorem content_is_concat (t₀ : Table α) (ts : List (Table α)) (h : LogOK (t₀ :: ts)) :
    ∃ T, content (t₀ :: ts) = some T ∧ T.hdrs = t₀.hdrs ∧ T.md = t₀.md ∧
      ∀ i, T.colVals i = (t₀ :: ts).flatMap (·.colVals i) := by
  have s := foldl_append_spec ts t₀ (LogOK_hdrs h)
  exact ⟨_, rfl, s.1, s.2.1, fun i => by simp [s.2.2 i]⟩

/-- every table of an accepted log has the same header and metadata as the file, so the concatenation above is
a concatenation of like columns -/
theorem log_uniform (t₀ : Table α) (ts : List (Table α)) (h : LogOK (t₀ :: ts)) :
    ∀ t ∈ ts, t.hdrs = t₀.hdrs ∧ t.md = t₀.md := by
  intro t ht
  have := (compatible_iff t₀ t).1 (h t ht)
  exact ⟨this.1.symm, this.2.symm⟩

/-- row view: the file stays well-formed (all columns equally long) and its number of rows is the sum of the
rows of everything in the log -/
theorem append_concat_rows (t₀ : Table α) (ts : List (Table α)) (h : LogOK (t₀ :: ts))
    (hwf : ∀ t ∈ t₀ :: ts, t.WF) :
    ∃ T, content (t₀ :: ts) = some T ∧ T.WF ∧ T.nRows = ((t₀ :: ts).map (·.nRows)).sum := by
  have s := foldl_append_WF ts t₀ (LogOK_hdrs h) (hwf t₀ (by simp))
    (fun t ht => hwf t (List.mem_cons_of_mem _ ht))
  exact ⟨_, rfl, s.1, by simp [s.2]⟩

/-- one compatible append: the rows of the new table come after the rows already there, cell by cell -/
theorem append_cells (f t : Table α) (hc : compatible f t = true) (hf : f.WF) (i : Nat)
    (hi : i < f.cols.length) (r : Nat) :
    (write .hdf5 (some f) t false true) = (some (f.append t), .ok ()) ∧
    ((f.append t).colVals i)[r]? =
      if r < f.nRows then (f.colVals i)[r]? else (t.colVals i)[r - f.nRows]? := by
  have hh := ((compatible_iff f t).1 hc).1
  refine ⟨by simp [write, hc], ?_⟩
  rw [append_colVals f t hh i, List.getElem?_append]
  have hlen : (f.colVals i).length = f.nRows := by
    simp only [Table.colVals, List.getElem?_eq_getElem hi]
    exact hf _ (List.getElem_mem hi)
  simp [hlen]

/-- reads (of the table or of batches) never change the file: the state after a mixed history is the state
after its writes alone -/
theorem reads_do_not_write [Mul α] (fmt : Fmt) (conv : String → String → Option α) :
    ∀ (ops : List (Op α)) (s : State α),
      (run fmt conv s ops).1 =
        (writeRun fmt s (ops.filterMap fun op => match op with
          | .write t ov ap => some (t, ov, ap) | _ => none)).1
  | [], s => rfl
  | op :: ops, s => by
    cases op with
    | write t ov ap =>
      have ih := reads_do_not_write fmt conv ops (write fmt s t ov ap).1
      simp only [run, step, List.filterMap_cons, writeRun]
      rcases hw : write fmt s t ov ap with ⟨s', r⟩
      rw [hw] at ih
      cases r <;> simpa using ih
    | read =>
      have ih := reads_do_not_write fmt conv ops s
      simp only [run, step, List.filterMap_cons]
      cases read s <;> simpa using ih
    | batch q ch =>
      have ih := reads_do_not_write fmt conv ops s
      simp only [run, step, List.filterMap_cons]
      cases readBatch (fun _ _ => ch) conv s q <;> simpa using ih

/-! ## Incompatible appends are refused and change nothing -/

/-- an append whose header (column names / order / dtypes / units) or metadata (`t_ref`, `poly_trend`,
`n_offsets`) differs from the file's is refused, and the state is the old state -/
theorem bad_append_no_change (f t : Table α) (h : f.hdrs ≠ t.hdrs ∨ f.md ≠ t.md) :
    write .hdf5 (some f) t false true = (some f, .error .incompatible) := by
  have hc : compatible f t = false := by
    rcases h with h | h <;> simp [compatible, h]
  simp [write, hc]

/-- … in particular a table with an extra or a missing column -/
theorem bad_append_column_count (f t : Table α) (h : f.cols.length ≠ t.cols.length) :
    write .hdf5 (some f) t false true = (some f, .error .incompatible) :=
  bad_append_no_change f t (.inl fun e => h (cols_length_of_hdrs e))

/-- … a table that differs in the name, the unit or the dtype of some column position (this covers a renamed
column and a different column order) -/
theorem bad_append_column_differs (f t : Table α) (i : Nat)
    (h : (f.cols[i]?).map (·.hdr) ≠ (t.cols[i]?).map (·.hdr)) :
    write .hdf5 (some f) t false true = (some f, .error .incompatible) := by
  refine bad_append_no_change f t (.inl fun e => h ?_)
  have := congrArg (·[i]?) e
  simpa [Table.hdrs, List.getElem?_map] using this

/-- … and a table whose reference epoch, `poly_trend` or `n_offsets` differ (a missing epoch differs from
every epoch) -/
theorem bad_append_metadata (f t : Table α)
    (h : f.md.tRef ≠ t.md.tRef ∨ f.md.polyTrend ≠ t.md.polyTrend ∨ f.md.nOffsets ≠ t.md.nOffsets) :
    write .hdf5 (some f) t false true = (some f, .error .incompatible) := by
  refine bad_append_no_change f t (.inr fun e => ?_)
  rcases h with h | h | h <;> exact h (by rw [e])

/-- conversely an append is accepted exactly when header and metadata agree -/
theorem good_append (f t : Table α) (h : f.hdrs = t.hdrs ∧ f.md = t.md) :
    write .hdf5 (some f) t false true = (some (f.append t), .ok ()) := by
  simp [write, (compatible_iff f t).2 h]

/-- after a refused append a read returns the old content -/
theorem bad_append_then_read (f t : Table α) (h : f.hdrs ≠ t.hdrs ∨ f.md ≠ t.md) :
    read (write .hdf5 (some f) t false true).1 = .ok f := by
  rw [bad_append_no_change f t h]; rfl

/-! ## Batch reads -/

/-- **slice**: a successful `read_batch(file, cols, slice(a, b, st), units)` returns, for each requested
column in the requested order, the stored values at exactly the rows of `range(n)[a:b:st]`, converted.  -/
theorem readBatch_slice [Mul α] (choose : Nat → Nat → Option (List Nat)) (conv : String → String → Option α)
    (t : Table α) (cols : List String) (a b st : Option Int) (units : List (String × String))
    (out : List (List α))
    (h : readBatch choose conv (some t) ⟨cols, .slice a b st, units⟩ = .ok out) :
    ∃ step : Nat, 0 < step ∧ (st = none ∧ step = 1 ∨ st = some (step : Int)) ∧
      out.length = cols.length ∧
      ∀ (j : Nat) name, cols[j]? = some name →
        ∃ col, out[j]? = some col ∧ IsBatchCol conv units t (sliceRows t.nRows a b step) name col := by
  obtain ⟨rows, hres, hlen, hcols⟩ := readBatch_spec choose conv t _ out h
  cases st with
  | none =>
    simp [resolve] at hres; subst hres
    exact ⟨1, by decide, .inl ⟨rfl, rfl⟩, hlen, hcols⟩
  | some k =>
    simp only [resolve] at hres
    split at hres
    · rename_i hk
      simp at hres; subst hres
      exact ⟨k.toNat, by omega, .inr (by congr 1; omega), hlen, hcols⟩
    · simp at hres

/-- the rows of a slice are exactly `lo, lo+step, … < hi` (Python's clamped bounds), all valid row numbers, in
increasing order; for step 1 they are the contiguous range `lo … hi−1` -/
theorem slice_rows_exact (n : Nat) (a b : Option Int) (step : Nat) (hs : 0 < step) :
    (∀ r, r ∈ sliceRows n a b step ↔
      clampIdx n 0 a ≤ r ∧ r < clampIdx n n b ∧ (r - clampIdx n 0 a) % step = 0) ∧
    (∀ r ∈ sliceRows n a b step, r < n) ∧
    (sliceRows n a b step).Pairwise (· < ·) ∧
    (step = 1 → sliceRows n a b step = List.range' (clampIdx n 0 a) (clampIdx n n b - clampIdx n 0 a)) :=
  ⟨mem_sliceRows n a b step hs, sliceRows_lt n a b step hs, sliceRows_increasing n a b step hs,
   fun h => h ▸ sliceRows_step_one n a b⟩

/-- contiguous range on a column = the Python slice `vals[lo:hi]` of that column -/
theorem slice_contiguous_values (vals : List α) (a b : Option Int) :
    gather vals (sliceRows vals.length a b 1) =
      some ((vals.drop (clampIdx vals.length 0 a)).take
        (clampIdx vals.length vals.length b - clampIdx vals.length 0 a)) := by
  rw [sliceRows_step_one]
  apply gather_range'
  have := clampIdx_le vals.length vals.length (Nat.le_refl _) b
  have := clampIdx_le vals.length 0 (Nat.zero_le _) a
  omega

/-- **index array**: the rows are the given indices, in the given order, repeats kept (negative indices count
from the end as in numpy); the result has one entry per index -/
theorem readBatch_idx [Mul α] (choose : Nat → Nat → Option (List Nat)) (conv : String → String → Option α)
    (t : Table α) (cols : List String) (l : List Int) (units : List (String × String))
    (out : List (List α))
    (h : readBatch choose conv (some t) ⟨cols, .idx l, units⟩ = .ok out) :
    ∃ rows : List Nat, rows.length = l.length ∧
      (∀ (k : Nat) i, l[k]? = some i → ∃ r, rows[k]? = some r ∧ r < t.nRows ∧
        ((0 ≤ i ∧ i = (r : Int)) ∨ (i < 0 ∧ i + (t.nRows : Int) = (r : Int)))) ∧
      out.length = cols.length ∧
      ∀ (j : Nat) name, cols[j]? = some name →
        ∃ col, out[j]? = some col ∧ IsBatchCol conv units t rows name col := by
  obtain ⟨rows, hres, hlen, hcols⟩ := readBatch_spec choose conv t _ out h
  simp only [resolve] at hres
  split at hres
  · rename_i rows' hr
    simp at hres; subst hres
    have hall := normAll_spec t.nRows l rows' hr
    refine ⟨rows', hall.length_eq.symm, fun k i hk => ?_, hlen, hcols⟩
    obtain ⟨r, hr', hR⟩ := hall.get k i hk
    exact ⟨r, hr', normIdx_spec t.nRows i r hR⟩
  · simp at hres

/-- an index outside `-n … n-1` is refused -/
theorem readBatch_idx_out_of_range [Mul α] (choose : Nat → Nat → Option (List Nat))
    (conv : String → String → Option α) (t : Table α) (cols : List String) (l : List Int)
    (units : List (String × String)) (i : Int) (hi : i ∈ l)
    (hbad : (t.nRows : Int) ≤ i ∨ i < -(t.nRows : Int)) :
    readBatch choose conv (some t) ⟨cols, .idx l, units⟩ = .error .index := by
  have hnone : normAll t.nRows l = none := by
    induction l with
    | nil => simp at hi
    | cons x xs ih =>
      simp only [List.mem_cons] at hi
      simp only [normAll]
      rcases hi with rfl | hi
      · have : normIdx t.nRows i = none := by
          unfold normIdx
          split
          · split
            · omega
            · rfl
          · split
            · omega
            · rfl
        simp [this]
      · rw [ih hi]
        split <;> simp_all
  simp [readBatch, resolve, hnone]

/-- **random subset**: whatever the generator does, a successful read used `size` *distinct* valid rows — the
map position ↦ row is injective — and returns them in the order drawn -/
theorem readBatch_random [Mul α] (choose : Nat → Nat → Option (List Nat)) (conv : String → String → Option α)
    (t : Table α) (cols : List String) (size : Nat) (units : List (String × String))
    (out : List (List α))
    (h : readBatch choose conv (some t) ⟨cols, .random size, units⟩ = .ok out) :
    ∃ rows : List Nat, choose t.nRows size = some rows ∧ rows.length = size ∧ rows.Nodup ∧
      (∀ r ∈ rows, r < t.nRows) ∧
      (∀ (k₁ k₂ : Nat) r, rows[k₁]? = some r → rows[k₂]? = some r → k₁ = k₂) ∧
      out.length = cols.length ∧
      ∀ (j : Nat) name, cols[j]? = some name →
        ∃ col, out[j]? = some col ∧ IsBatchCol conv units t rows name col := by
  obtain ⟨rows, hres, hlen, hcols⟩ := readBatch_spec choose conv t _ out h
  simp only [resolve] at hres
  split at hres
  · simp at hres
  · split at hres
    · rename_i idx hch
      split at hres
      · rename_i hv
        simp at hres; subst hres
        obtain ⟨h1, h2, h3⟩ := (validChoice_iff t.nRows size idx).1 hv
        refine ⟨idx, hch, h1, h2, h3, ?_, hlen, hcols⟩
        intro k₁ k₂ r hk1 hk2
        obtain ⟨hl1, he1⟩ := List.getElem?_eq_some_iff.1 hk1
        obtain ⟨hl2, he2⟩ := List.getElem?_eq_some_iff.1 hk2
        exact (List.getElem_inj h2).1 (he1.trans he2.symm)
      · simp at hres
    · simp at hres

/-- asking for more random rows than the file has is refused -/
theorem readBatch_random_too_many [Mul α] (choose : Nat → Nat → Option (List Nat))
    (conv : String → String → Option α) (t : Table α) (cols : List String) (size : Nat)
    (units : List (String × String)) (h : t.nRows < size) :
    readBatch choose conv (some t) ⟨cols, .random size, units⟩ = .error .value := by
  simp [readBatch, resolve, h]

/-- the contract asked of the generator is satisfiable for every request `size ≤ n`: drawing without
replacement from `0 … n-1`, driven by any stream of raw draws, yields `size` distinct valid rows -/
theorem draw_without_replacement_valid (draws : List Nat) (n size : Nat) (hs : size ≤ n)
    (hd : size ≤ draws.length) :
    ∃ rows, chooseFrom draws n size = some rows ∧ validChoice n size rows = true := by
  have s := drawNoRepl_spec (draws.take size) (List.range n) List.nodup_range
  refine ⟨_, rfl, (validChoice_iff n size _).2 ⟨?_, s.1, ?_⟩⟩
  · rw [s.2.2 (by simp; omega)]
    simp; omega
  · intro i hi
    simpa using s.2.1 i hi

/-- **units**: the factor applied to a column is `conv stored_unit requested_unit` when the column is named in
`units`, and the column is returned untouched (bit-identical) when it is not -/
theorem batch_unit_conversion [Mul α] (conv : String → String → Option α) (units : List (String × String))
    (h : ColHdr) (f : Option α) (hf : factorFor conv units h = .ok f) :
    (units.lookup h.name = none ∧ f = none ∧ ∀ v : α, applyConv f v = v) ∨
    (∃ target g, units.lookup h.name = some target ∧ conv h.unit target = some g ∧ f = some g ∧
      ∀ v : α, applyConv f v = v * g) := by
  unfold factorFor at hf
  split at hf
  · rename_i hl
    simp at hf; subst hf
    exact .inl ⟨hl, rfl, fun _ => rfl⟩
  · rename_i target hl
    split at hf
    · rename_i g hg
      simp at hf; subst hf
      exact .inr ⟨target, g, hl, hg, rfl, fun _ => rfl⟩
    · simp at hf

/-- a unit that cannot be converted is refused -/
theorem batch_unit_not_convertible [Mul α] (conv : String → String → Option α)
    (units : List (String × String)) (h : ColHdr) (target : String)
    (hl : units.lookup h.name = some target) (hc : conv h.unit target = none) :
    factorFor conv units h = .error .units := by
  simp [factorFor, hl, hc]

/-- progress: on a well-formed file, a request whose selection resolves, whose columns exist and whose units
are convertible is answered -/
theorem readBatch_succeeds [Mul α] (choose : Nat → Nat → Option (List Nat)) (conv : String → String → Option α)
    (t : Table α) (q : Query) (rows : List Nat) (hwf : t.WF)
    (hsel : resolve choose t.nRows q.sel = .ok rows)
    (hcols : ∀ name ∈ q.cols, ∃ c f, findCol t name = some c ∧ factorFor conv q.units c.hdr = .ok f) :
    ∃ out, readBatch choose conv (some t) q = .ok out :=
  readBatch_total choose conv t q rows hwf hsel hcols

/-! ## Non-vacuity: concrete non-trivial instances -/

section Examples

private def hP : ColHdr := ⟨"P", "d", "float64"⟩
private def hE : ColHdr := ⟨"e", "", "float64"⟩
private def m0 : Meta := ⟨some "tcb:55000", 1, 0⟩
private def tA : Table Int := ⟨[⟨hP, [10, 11, 12]⟩, ⟨hE, [1, 2, 3]⟩], m0⟩
private def tB : Table Int := ⟨[⟨hP, [20, 21]⟩, ⟨hE, [4, 5]⟩], m0⟩
/-- extra column -/
private def tX : Table Int := ⟨[⟨hP, [30]⟩, ⟨hE, [6]⟩, ⟨⟨"ln_prior", "", "float64"⟩, [7]⟩], m0⟩
/-- no reference epoch -/
private def tN : Table Int := ⟨[⟨hP, [30]⟩, ⟨hE, [6]⟩], ⟨none, 1, 0⟩⟩

private def convI : String → String → Option Int := fun a b =>
  if a = b then some 1 else if a = "d" ∧ b = "h" then some 24 else none

-- write, append, refused append (extra column / other epoch), append again: content is the concatenation
example : (writeRun .hdf5 none [(tA, false, false), (tB, false, true), (tX, false, true), (tN, false, true),
      (tB, false, true)]).2 = [.ok (), .ok (), .error .incompatible, .error .incompatible, .ok ()] := by
  rfl
example : ((writeRun .hdf5 none [(tA, false, false), (tB, false, true), (tX, false, true),
      (tB, false, true)]).1.map fun T => (T.colVals 0, T.colVals 1)) =
    some ([10, 11, 12, 20, 21, 20, 21], [1, 2, 3, 4, 5, 4, 5]) := by
  rfl
example : LogOK [tA, tB, tB] := by
  intro t ht
  simp at ht
  rcases ht with rfl | rfl <;> decide
example : tA.WF ∧ tB.WF := by
  constructor <;> (intro c hc; simp [tA, tB] at hc; rcases hc with rfl | rfl <;> rfl)
-- batch reads on the 5-row file: stepped slice with a negative start, repeated unsorted indices with a
-- negative one, unit conversion d -> h on column P only, columns in the requested order
example : readBatch (fun _ _ => none) convI (some (tA.append tB))
    ⟨["e", "P"], .slice (some (-4)) none (some 2), [("P", "h")]⟩ = .ok [[2, 4], [264, 480]] := by rfl
example : readBatch (fun _ _ => none) convI (some (tA.append tB))
    ⟨["P"], .idx [3, 0, 0, -1], []⟩ = .ok [[20, 10, 10, 21]] := by rfl
example : readBatch (chooseFrom [7, 7, 7]) convI (some (tA.append tB)) ⟨["P"], .random 3, []⟩ =
    .ok [[12, 21, 11]] := by rfl
example : readBatch (fun _ _ => some [1, 1, 2]) convI (some (tA.append tB)) ⟨["P"], .random 3, []⟩ =
    .error .choice := by rfl
example : readBatch (fun _ _ => none) convI (some tA) ⟨["P"], .slice none none none, [("P", "km")]⟩ =
    .error .units := by rfl

end Examples

end Store
