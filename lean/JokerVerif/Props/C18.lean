import JokerVerif.Lemmas.PriorValidateLemmas
/-!
# C18 — only priors and data satisfying the sampler's assumptions are accepted

Property theorems only.  All are for every input (any number of parameters, any `poly_trend : Int`, any number
of offsets / data sources).  `PriorV.WellFormed` (in `Lemmas/PriorValidateLemmas.lean`) is the property's notion
of an admissible prior: every required parameter present with a unit of the canonical dimension, every linear
parameter (K, v_i, offsets) Normal.
-/
namespace PriorV

/-- `JokerPrior(...)` succeeds **iff** the prior is well-formed — both directions, so dropping or weakening any
branch of the validation is a counterexample to this theorem's tie -/
theorem accept_iff_wellformed (i : PriorInput) : (∃ names, validate i = .ok names) ↔ WellFormed i := by
  constructor
  · rintro ⟨names, h⟩
    obtain ⟨hm, hps, p, hp, ho, h1, h2, _⟩ := (validate_ok_iff i names).mp h
    exact ⟨hm, hps, ho, p, hp, (checkPresence_ok_iff _ _).mp h1, (checkLinear_ok_iff _ _).mp h2⟩
  · rintro ⟨hm, hps, ho, p, hp, h1, h2⟩
    exact ⟨parNames p i.offsets.length, (validate_ok_iff i _).mpr
      ⟨hm, hps, p, hp, ho, (checkPresence_ok_iff _ _).mpr h1, (checkLinear_ok_iff _ _).mpr h2, rfl⟩⟩

/-- what is returned on success is the canonical parameter list of `(poly_trend, #offsets)` -/
theorem accepted_names (i : PriorInput) (names : List Name) (h : validate i = .ok names) :
    ∃ p, i.polyTrend = some p ∧ names = parNames p i.offsets.length := by
  obtain ⟨_, _, p, hp, _, _, _, hn⟩ := (validate_ok_iff i names).mp h
  exact ⟨p, hp, hn⟩

/-- accepted priors list their parameters as: nonlinear `P, e, omega, M0, s`; then `K, v0 … v_{p-1}`; then the
offsets `dv0_1 … dv0_q` -/
theorem par_names_order (i : PriorInput) (names : List Name) (h : validate i = .ok names) :
    ∃ p, i.polyTrend = some p ∧
      names = [Name.P, .e, .omega, .M0, .s] ++ (Name.K :: (List.range p.toNat).map Name.v)
        ++ (List.range i.offsets.length).map (fun j => Name.dv0 (j + 1)) := by
  obtain ⟨p, hp, hn⟩ := accepted_names i names h
  exact ⟨p, hp, by rw [hn, parNames_eq]; simp⟩

/-- positional form of the same statement -/
theorem par_names_positions (i : PriorInput) (names : List Name) (h : validate i = .ok names) :
    ∃ p : Int, i.polyTrend = some p ∧ names.length = 6 + p.toNat + i.offsets.length ∧
      names.take 6 = [Name.P, .e, .omega, .M0, .s, .K] ∧
      (∀ l, l < p.toNat → names[6 + l]? = some (Name.v l)) ∧
      (∀ j, j < i.offsets.length → names[6 + p.toNat + j]? = some (Name.dv0 (j + 1))) := by
  obtain ⟨p, hp, hn⟩ := par_names_order i names h
  refine ⟨p, hp, ?_, ?_, ?_, ?_⟩
  · subst hn; simp; omega
  · subst hn; simp
  · intro l hl
    subst hn
    simp only [List.cons_append, List.nil_append]
    have e : 6 + l = l + 6 := by omega
    rw [e]
    simp only [List.getElem?_cons_succ]
    rw [List.getElem?_append_left (by simpa using hl)]
    simp [hl]
  · intro j hj
    subst hn
    simp only [List.cons_append, List.nil_append]
    have e : 6 + p.toNat + j = (p.toNat + j) + 6 := by omega
    rw [e]
    simp only [List.getElem?_cons_succ]
    rw [List.getElem?_append_right (by simp)]
    simp [hj]

/-- rejections are `ValueError`s in the presence / unit loop -/
theorem presence_failures_are_value_errors (env : List Param) (req : List (Name × Dim)) (e : Err)
    (h : checkPresence env req = .error e) : e = .value :=
  checkPresence_error_value env req e h

/-! ### every way of breaking a prior is rejected (corollaries of `accept_iff_wellformed`) -/

/-- a required parameter that nobody defines -/
theorem omitted_rejected (i : PriorInput) (p : Int) (hp : i.polyTrend = some p) (n : Name)
    (hreq : n ∈ parNames p i.offsets.length) (hmiss : ∀ par ∈ envOf i, par.name ≠ n) :
    ∃ e, validate i = .error e := by
  cases hv : validate i with
  | error e => exact ⟨e, rfl⟩
  | ok names =>
    exfalso
    obtain ⟨_, _, _, p', hp', hpres, _⟩ := (accept_iff_wellformed i).mp ⟨names, hv⟩
    rw [hp] at hp'; cases hp'
    obtain ⟨nd, hnd, rfl⟩ := List.mem_map.mp hreq
    obtain ⟨par, hl, _⟩ := hpres nd hnd
    obtain ⟨hname, hmem⟩ := lookup_name _ _ _ hl
    exact hmiss par hmem hname

/-- a required parameter whose (effective) entry has no unit, or a unit of the wrong dimension -/
theorem bad_unit_rejected (i : PriorInput) (p : Int) (hp : i.polyTrend = some p) (n : Name) (d : Dim)
    (hreq : (n, d) ∈ required p i.offsets.length) (par : Param) (hl : lookup (envOf i) n = some par)
    (hbad : par.unit ≠ some d) : ∃ e, validate i = .error e := by
  cases hv : validate i with
  | error e => exact ⟨e, rfl⟩
  | ok names =>
    exfalso
    obtain ⟨_, _, _, p', hp', hpres, _⟩ := (accept_iff_wellformed i).mp ⟨names, hv⟩
    rw [hp] at hp'; cases hp'
    obtain ⟨par', hl', hu'⟩ := hpres (n, d) hreq
    rw [hl] at hl'; cases hl'
    exact hbad hu'.1

/-- a required parameter whose entry holds a variable that is called something else in the pymc model (the likelihood
helper fetches `prior.model[name]`: it would marginalise over another, unvalidated prior) -/
theorem misnamed_variable_rejected (i : PriorInput) (p : Int) (hp : i.polyTrend = some p) (n : Name) (d : Dim)
    (hreq : (n, d) ∈ required p i.offsets.length) (par : Param) (hl : lookup (envOf i) n = some par)
    (hbad : par.named = false) : ∃ e, validate i = .error e := by
  cases hv : validate i with
  | error e => exact ⟨e, rfl⟩
  | ok names =>
    exfalso
    obtain ⟨_, _, _, p', hp', hpres, _⟩ := (accept_iff_wellformed i).mp ⟨names, hv⟩
    rw [hp] at hp'; cases hp'
    obtain ⟨par', hl', hu'⟩ := hpres (n, d) hreq
    rw [hl] at hl'; cases hl'
    rw [hbad] at hu'
    exact Bool.noConfusion hu'.2

/-- a linear parameter (K, v_i, offset) whose prior is not Normal / FixedCompanionMass -/
theorem non_normal_rejected (i : PriorInput) (p : Int) (hp : i.polyTrend = some p) (n : Name)
    (hlin : n ∈ linearNames p i.offsets.length) (par : Param) (hl : lookup (envOf i) n = some par)
    (hk : par.kind ≠ .normal ∧ par.kind ≠ .fcm) : ∃ e, validate i = .error e := by
  cases hv : validate i with
  | error e => exact ⟨e, rfl⟩
  | ok names =>
    exfalso
    obtain ⟨_, _, _, p', hp', _, hlinAll⟩ := (accept_iff_wellformed i).mp ⟨names, hv⟩
    rw [hp] at hp'; cases hp'
    obtain ⟨par', hl', _, hk'⟩ := hlinAll n hlin
    rw [hl] at hl'; cases hl'
    rcases hk' with h | ⟨h, _⟩
    · exact hk.1 h
    · exact hk.2 h

/-- a linear parameter whose prior is a Normal all right, but not the variable the prior's pymc model holds under that name
(a same-named variable of another model, an unregistered `.dist()`): the likelihood helper would marginalise over
`prior.model[name]`, whatever that is - refused -/
theorem foreign_variable_rejected (i : PriorInput) (p : Int) (hp : i.polyTrend = some p) (n : Name)
    (hlin : n ∈ linearNames p i.offsets.length) (par : Param) (hl : lookup (envOf i) n = some par)
    (hr : par.registered = false) : ∃ e, validate i = .error e := by
  cases hv : validate i with
  | error e => exact ⟨e, rfl⟩
  | ok names =>
    exfalso
    obtain ⟨_, _, _, p', hp', _, hlinAll⟩ := (accept_iff_wellformed i).mp ⟨names, hv⟩
    rw [hp] at hp'; cases hp'
    obtain ⟨par', hl', hr', _⟩ := hlinAll n hlin
    rw [hl] at hl'; cases hl'
    rw [hr] at hr'
    exact Bool.noConfusion hr'

/-- a Normal prior on a linear parameter whose mean / width depends on another random variable of the model is not an
*independent* Normal: refused (the marginalisation would freeze the parent at one draw) -/
theorem dependent_normal_rejected (i : PriorInput) (p : Int) (hp : i.polyTrend = some p) (n : Name)
    (hlin : n ∈ linearNames p i.offsets.length) (par : Param) (hl : lookup (envOf i) n = some par)
    (hk : par.kind = .normalDep) : ∃ e, validate i = .error e :=
  non_normal_rejected i p hp n hlin par hl (by rw [hk]; exact ⟨by decide, by decide⟩)

/-- `FixedCompanionMass` is accepted for `K` only (the kernel implements its dependence on `P, e` for `K`) -/
theorem fcm_only_for_K (i : PriorInput) (p : Int) (hp : i.polyTrend = some p) (n : Name)
    (hlin : n ∈ linearNames p i.offsets.length) (par : Param) (hl : lookup (envOf i) n = some par)
    (hk : par.kind = .fcm) (hn : n ≠ .K) : ∃ e, validate i = .error e := by
  cases hv : validate i with
  | error e => exact ⟨e, rfl⟩
  | ok names =>
    exfalso
    obtain ⟨_, _, _, p', hp', _, hlinAll⟩ := (accept_iff_wellformed i).mp ⟨names, hv⟩
    rw [hp] at hp'; cases hp'
    obtain ⟨par', hl', _, hk'⟩ := hlinAll n hlin
    rw [hl] at hl'; cases hl'
    rcases hk' with h | ⟨_, h⟩
    · rw [hk] at h; cases h
    · exact hn h

/-- `JokerPrior.default` never accepts what the core validator would refuse: acceptance means the assembled
prior is well-formed -/
theorem default_accept_wellformed (d : DefaultInput) (names : List Name) (h : defaultValidate d = .ok names) :
    ∃ i, assemble d = .ok i ∧ WellFormed i ∧ validate i = .ok names := by
  unfold defaultValidate at h
  cases ha : assemble d with
  | error e => rw [ha] at h; cases h
  | ok i =>
    rw [ha] at h
    exact ⟨i, rfl, (accept_iff_wellformed i).mp ⟨names, h⟩, h⟩

/-! ### data sources -/

/-- the sampler accepts data exactly when: a single `RVData` and no offsets, or `q+1` sources that are all
plain `RVData` without covariance -/
theorem data_accept_iff (d : DataInput) (q : Nat) :
    (∃ n, validateData d q = .ok n) ↔
      (d = .single ∧ q = 0) ∨ (∃ srcs, d = .multi srcs ∧ (∀ s ∈ srcs, s = Source.rv false) ∧ srcs.length = q + 1) := by
  cases d with
  | single =>
    by_cases hq : q = 0 <;> simp [validateData, hq]
  | notIterable => simp [validateData]
  | multi srcs =>
    simp only [validateData, reduceCtorEq, false_and, DataInput.multi.injEq, exists_eq_left', false_or]
    cases hc : checkSources srcs with
    | error e =>
      have : ¬ ∀ s ∈ srcs, s = Source.rv false := by
        rw [← checkSources_ok_iff, hc]; intro h; cases h
      simp [this]
    | ok u =>
      cases u
      have hs := (checkSources_ok_iff srcs).mp hc
      by_cases hl : srcs.length = q + 1
      · simp only [hl, if_true, Except.ok.injEq, exists_eq', and_true, true_iff]; exact hs
      · simp [hl]

/-- number of surveys − 1 ≠ number of offset priors ⇒ error (any sources) -/
theorem count_mismatch_rejected (srcs : List Source) (q : Nat) (h : srcs.length ≠ q + 1) :
    ∃ e, validateData (.multi srcs) q = .error e := by
  cases hv : validateData (.multi srcs) q with
  | error e => exact ⟨e, rfl⟩
  | ok n =>
    exfalso
    rcases (data_accept_iff _ q).mp ⟨n, hv⟩ with ⟨h1, _⟩ | ⟨s', h1, _, h3⟩
    · cases h1
    · cases h1; exact h h3

/-- a single `RVData` together with offset priors ⇒ `ValueError` -/
theorem single_with_offsets_rejected (q : Nat) (h : q ≠ 0) : validateData .single q = .error .value := by
  simp [validateData, h]

/-- a non-`RVData` source, or a covariance source, anywhere in a multi-survey input ⇒ error -/
theorem bad_source_rejected (srcs : List Source) (q : Nat) (s : Source) (hs : s ∈ srcs) (hbad : s ≠ .rv false) :
    ∃ e, validateData (.multi srcs) q = .error e := by
  cases hv : validateData (.multi srcs) q with
  | error e => exact ⟨e, rfl⟩
  | ok n =>
    exfalso
    rcases (data_accept_iff _ q).mp ⟨n, hv⟩ with ⟨h1, _⟩ | ⟨s', h1, h2, _⟩
    · cases h1
    · cases h1; exact hbad (h2 s hs)

/-- the class of the error is decided by the first offending source -/
theorem bad_source_class (pre : List Source) (rest : List Source) (q : Nat)
    (hpre : ∀ s ∈ pre, s = Source.rv false) :
    validateData (.multi (pre ++ Source.notRV :: rest)) q = .error .type ∧
    validateData (.multi (pre ++ Source.rv true :: rest)) q = .error .notimpl := by
  have h : checkSources (pre ++ Source.notRV :: rest) = .error .type ∧
      checkSources (pre ++ Source.rv true :: rest) = .error .notimpl := by
    induction pre with
    | nil => simp [checkSources]
    | cons a tl ih =>
      have ha : a = Source.rv false := hpre a (List.mem_cons_self)
      subst ha
      simpa [checkSources] using ih (fun s hs => hpre s (List.mem_cons_of_mem _ hs))
  simp [validateData, h.1, h.2]

/-- marginalisation is only ever run with a design matrix of the exact shape: data accepted and `poly_trend ≥ 1` -/
theorem sampler_accepts_iff (p : Int) (q : Nat) (d : DataInput) :
    samplerAccepts p q d = .ok () ↔ (∃ n, validateData d q = .ok n) ∧ 1 ≤ p := by
  unfold samplerAccepts
  cases hv : validateData d q with
  | error e => simp
  | ok n => by_cases hp : 1 ≤ p <;> simp [hp]

/-- `TheJoker(...)` refuses anything but a `JokerPrior`, a pool with map/close and a numpy Generator -/
theorem joker_init_iff (poolOk rngOk priorOk : Bool) :
    jokerInit poolOk rngOk priorOk = .ok () ↔ poolOk = true ∧ rngOk = true ∧ priorOk = true := by
  cases poolOk <;> cases rngOk <;> cases priorOk <;> simp [jokerInit]

/-! ### non-vacuity: concrete inputs -/

/-- a valid prior with a quadratic trend and one offset; the offset is given through `v0_offsets`, `K` is first
defined with a Uniform prior and then redefined (later dict entry wins) as FixedCompanionMass -/
def exGood : PriorInput :=
  { modelOk := true, parsStatus := .ok, polyTrend := some 2, offsetsIterable := true,
    pars := [⟨.K, some (Dim.vel 0), .otherRV, true, true⟩, ⟨.P, some Dim.time1, .otherRV, true, true⟩, ⟨.e, some Dim.one, .otherRV, true, true⟩,
             ⟨.omega, some Dim.angle1, .unnamedOp, true, true⟩, ⟨.M0, some Dim.angle1, .unnamedOp, true, true⟩, ⟨.s, some (Dim.vel 0), .noOwner, true, true⟩,
             ⟨.K, some (Dim.vel 0), .fcm, true, true⟩, ⟨.v 0, some (Dim.vel 0), .normal, true, true⟩, ⟨.v 1, some (Dim.vel 1), .normal, true, true⟩],
    offsets := [⟨.dv0 1, some (Dim.vel 0), .normal, true, true⟩] }

example : validate exGood = .ok [.P, .e, .omega, .M0, .s, .K, .v 0, .v 1, .dv0 1] := by decide
example : WellFormed exGood := (accept_iff_wellformed exGood).mp ⟨[.P, .e, .omega, .M0, .s, .K, .v 0, .v 1, .dv0 1], by decide⟩
-- one broken branch each
example : validate { exGood with pars := exGood.pars.filter (fun p => p.name ≠ .e) } = .error .value := by decide
example : validate { exGood with offsets := [⟨.dv0 2, some (Dim.vel 0), .normal, true, true⟩] } = .error .value := by decide
example : validate { exGood with pars := exGood.pars ++ [⟨.v 0, some (Dim.vel 0), .normal, false, true⟩] } = .error .value := by decide
example : validate { exGood with pars := exGood.pars ++ [⟨.v 0, some (Dim.vel 0), .normal, true, false⟩] } = .error .value := by decide
example : validate { exGood with offsets := [⟨.dv0 1, some (Dim.vel 0), .otherRV, true, true⟩] } = .error .value := by decide
example : validate { exGood with pars := exGood.pars ++ [⟨.v 1, some (Dim.vel 0), .normal, true, true⟩] } = .error .value := by decide
example : validate { exGood with pars := exGood.pars ++ [⟨.v 0, some (Dim.vel 0), .unnamedOp, true, true⟩] } = .error .unspecified := by decide
example : validateData (.multi [.rv false, .rv false]) 1 = .ok 2 := by decide
example : validateData (.multi [.rv false, .rv false, .rv false]) 1 = .error .value := by decide
example : validateData (.multi [.rv false, .rv true, .notRV]) 2 = .error .notimpl := by decide
def exDefault : DefaultInput where
  modelOk := true
  pMin := .qty Dim.time1
  pMax := .qty Dim.time1
  sigmaK0 := .qty (Dim.vel 0)
  p0 := .qty Dim.time1
  s := .missing
  sigmaV := .list [.qty (Dim.vel 0), .qty (Dim.vel 1)]
  polyTrend := some 2
  offsetsIterable := true
  offsets := []
  userPars := []

example : defaultValidate exDefault = .ok [.P, .e, .omega, .M0, .s, .K, .v 0, .v 1] := by decide
example : defaultValidate { exDefault with sigmaV := .scalarQty (Dim.vel 0) } = .error .value := by decide
example : defaultValidate { exDefault with sigmaV := .list [.qty (Dim.vel 0), .qty (Dim.vel 0)] } = .error .value := by decide
example : defaultValidate { exDefault with pMin := .qty (Dim.vel 0) } = .error .units := by decide

end PriorV
