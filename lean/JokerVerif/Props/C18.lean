/-! # C18 — property theorems (to be filled in) -/
