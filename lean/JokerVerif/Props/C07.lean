/-! # C07 — property theorems (to be filled in) -/
