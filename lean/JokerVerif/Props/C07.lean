import JokerVerif.Model.Units
import JokerVerif.Props.C01
import JokerVerif.Model.Reject
/-!
# C07 — physical results are invariant under the choice of units
-/
open Matrix

namespace Units
variable {α : Type} [Field α]

/-- re-expressing a quantity in another unit does not change any internal number -/
theorem conv_invariant (q : Quantity α) (c target : α) (hc : c ≠ 0) :
    conv (reexpress c q) target = conv q target := by
  unfold conv reexpress
  field_simp

/-- hence the whole internal state (data in the data unit, prior means / widths, `σ_K0`, `max_K`, `P0` in days,
every packed sample column) is identical for two unit-transformed twins of one problem -/
theorem internal_state_unit_free : ∀ (qs : List (Quantity α)) (cs targets : List α),
    (∀ c ∈ cs, c ≠ 0) → cs.length = qs.length →
    internalize (reexpressAll cs qs) targets = internalize qs targets := by
  intro qs
  induction qs with
  | nil => intro cs targets _ h; simp [internalize, reexpressAll]
  | cons q qs ih =>
    intro cs targets hcs hlen
    cases cs with
    | nil => simp at hlen
    | cons c cs =>
      cases targets with
      | nil => simp [internalize]
      | cons t ts =>
        simp only [internalize, reexpressAll, List.zipWith_cons_cons]
        rw [conv_invariant q c t (hcs c List.mem_cons_self)]
        congr 1
        exact ih cs ts (fun c' hc' => hcs c' (List.mem_cons_of_mem _ hc')) (by simpa using hlen)

end Units

namespace Kernel
noncomputable section
variable {n k : ℕ}

/-- the same problem with the *data unit* `c` times smaller: velocities, errors, jitter and prior means are
multiplied by `c`, prior variances by `c²`, the design matrix is unchanged -/
def scaleIn (c : ℝ) (x : KIn n k ℝ) : KIn n k ℝ :=
  { M := x.M, y := Vector.ofFn fun i => c * x.y[i], ivar := Vector.ofFn fun i => x.ivar[i] / c ^ 2,
    s := c * x.s, mu := Vector.ofFn fun j => c * x.mu[j], lam := Vector.ofFn fun j => c ^ 2 * x.lam[j] }

theorem scaleIn_phys (c : ℝ) (hc : 0 < c) (x : KIn n k ℝ) (σ : Fin n → ℝ) (h : Phys x σ) :
    Phys (scaleIn c x) (fun i => c * σ i) := by
  refine ⟨fun i => mul_pos hc (h.sig_pos i), fun i => ?_, fun j => ?_⟩
  · have := h.ivar_eq i
    have e : vfun (scaleIn c x).ivar i = vfun x.ivar i / c ^ 2 := by
      simp only [scaleIn, vfun_ofFn]; rfl
    rw [e, this, mul_pow]
    have h1 : (σ i) ^ 2 ≠ 0 := pow_ne_zero 2 (h.sig_pos i).ne'
    have h2 : c ^ 2 ≠ 0 := pow_ne_zero 2 hc.ne'
    field_simp
  · have := h.lam_pos j
    have e : vfun (scaleIn c x).lam j = c ^ 2 * vfun x.lam j := by
      simp only [scaleIn, vfun_ofFn]; rfl
    rw [e]
    positivity

/-- **Jacobian constant**: changing the data unit by the factor `c` changes the marginal ln-likelihood by exactly
`− n · ln c`, for every data set, prior and nonlinear sample -/
theorem ll_data_unit_jacobian (c : ℝ) (hc : 0 < c) (x : KIn n k ℝ) (σ : Fin n → ℝ) (h : Phys x σ) :
    kll (scaleIn c x) = kll x - n * Real.log c := by
  have h' := scaleIn_phys c hc x σ h
  rw [kernel_ll_eq_lnN x σ h, kernel_ll_eq_lnN (scaleIn c x) _ h']
  obtain ⟨_, _, hdet, _⟩ := kernel_welldefined x σ h
  have hB := h.B_eq
  have hy : vfun (scaleIn c x).y = c • vfun x.y := by
    funext i; simp only [scaleIn, vfun_ofFn]; rfl
  have hmu : (scaleIn c x).M.toM *ᵥ vfun (scaleIn c x).mu = c • (x.M.toM *ᵥ vfun x.mu) := by
    have : vfun (scaleIn c x).mu = c • vfun x.mu := by funext j; simp only [scaleIn, vfun_ofFn]; rfl
    rw [this, mulVec_smul]; rfl
  have hS : diagonal (fun i => (c * σ i) ^ 2) + ((scaleIn c x).s ^ 2) • (1 : Matrix (Fin n) (Fin n) ℝ)
        + (scaleIn c x).M.toM * diagonal (vfun (scaleIn c x).lam) * (scaleIn c x).M.toMᵀ
      = (c ^ 2) • (diagonal (fun i => (σ i) ^ 2) + (x.s ^ 2) • (1 : Matrix (Fin n) (Fin n) ℝ)
        + x.M.toM * diagonal (vfun x.lam) * x.M.toMᵀ) := by
    have hl : vfun (scaleIn c x).lam = fun j => c ^ 2 * vfun x.lam j := by funext j; simp only [scaleIn, vfun_ofFn]; rfl
    have hd : diagonal (fun j => c ^ 2 * vfun x.lam j) = (c ^ 2) • diagonal (vfun x.lam) := by
      rw [← diagonal_smul]; rfl
    have hs : (scaleIn c x).s = c * x.s := rfl
    have hM : (scaleIn c x).M = x.M := rfl
    rw [hl, hd, hs, hM, smul_add, smul_add, Matrix.mul_smul, Matrix.smul_mul, smul_smul]
    congr 2
    · rw [← diagonal_smul]; congr 1; funext i; simp [mul_pow]
    · rw [mul_pow]
  rw [hy, hmu, hS]
  rw [lnN_unit_jacobian _ _ _ c hc]
  rw [← hB]; exact hdet.ne'

/-- the acceptance rule only sees differences `ll_i − ll_j`, and those are unit-free: the set of accepted prior
samples does not depend on the unit of the data -/
theorem accepted_set_unit_invariant (c : ℝ) (hc : 0 < c) (x₁ x₂ : KIn n k ℝ) (σ₁ σ₂ : Fin n → ℝ)
    (h₁ : Phys x₁ σ₁) (h₂ : Phys x₂ σ₂) :
    kll (scaleIn c x₁) - kll (scaleIn c x₂) = kll x₁ - kll x₂ := by
  rw [ll_data_unit_jacobian c hc x₁ σ₁ h₁, ll_data_unit_jacobian c hc x₂ σ₂ h₂]; ring

end
end Kernel

-- non-vacuity
example : Units.conv (Units.reexpress (1000 : ℚ) ⟨2500, 1⟩) 1 = Units.conv ⟨2500, 1⟩ 1 := by decide +kernel
example : Units.conv (⟨5/2, 1000⟩ : Units.Quantity ℚ) 1 = 2500 := by decide +kernel

/-! ### The rejection step only sees likelihood differences

Together with `Kernel.ll_data_unit_jacobian` (every marginal ln-likelihood shifts by the same constant `−n ln c`
when the data unit changes) this closes the argument for "the accepted set is unchanged for equal seeds":
the accepted positions computed by the sampler's rule are invariant under a common shift of all
ln-likelihoods. Stated for the executable rejection model of C02 over any ordered field. -/
namespace Reject
variable {α : Type} [Field α] [LinearOrder α] [IsStrictOrderedRing α]

theorem foldl_max_shift (c : α) : ∀ (ls : List α) (l : α),
    (ls.map (· + c)).foldl max (l + c) = ls.foldl max l + c := by
  intro ls
  induction ls with
  | nil => intro l; rfl
  | cons x xs ih =>
    intro l
    simp only [List.map_cons, List.foldl_cons]
    rw [max_add_add_right, ih (max l x)]

theorem maxOf_shift (c : α) (lls : List α) : maxOf (lls.map (· + c)) = (maxOf lls).map (· + c) := by
  cases lls with
  | nil => rfl
  | cons l ls => simp only [List.map_cons, maxOf, Option.map_some, foldl_max_shift]

theorem maskFrom_shift (expf : α → α) (c m : α) : ∀ (pos : Nat) (lls uu : List α),
    maskFrom expf (m + c) pos (lls.map (· + c)) uu = maskFrom expf m pos lls uu := by
  intro pos lls
  induction lls generalizing pos with
  | nil => intro uu; simp [maskFrom]
  | cons l ls ih =>
    intro uu
    cases uu with
    | nil => simp [maskFrom]
    | cons u us =>
      simp only [List.map_cons, maskFrom, add_sub_add_right_eq_sub]
      rw [ih (pos + 1) us]

/-- **accepted positions are invariant under a common shift of the ln-likelihoods** (e.g. the unit Jacobian
`−n ln c`), for the same uniform draws -/
theorem goodPos_shift_invariant (expf : α → α) (c : α) (lls uu : List α) :
    goodPos expf (lls.map (· + c)) uu = goodPos expf lls uu := by
  unfold goodPos
  rw [maxOf_shift]
  cases h : maxOf lls with
  | none => rfl
  | some m => simp only [Option.map_some]; exact maskFrom_shift expf c m 0 lls uu

example : goodPos (fun x : ℚ => 1 + x / 4) [-3, -1, -2] [1/2, 99/100, 1/5]
    = goodPos (fun x : ℚ => 1 + x / 4) ([-3, -1, -2].map (· + 7)) [1/2, 99/100, 1/5] := by decide +kernel

end Reject

/-! ### End to end: the sampler's accepted set does not depend on the unit of the data -/
namespace Kernel
noncomputable section
open Classical in
/-- **the accepted set is unit-free**: for any library of nonlinear samples (each giving a kernel input with the
same `n` epochs), any uniform draws and any data-unit factor `c > 0`, the positions accepted by the rejection
rule applied to the kernel's marginal ln-likelihoods are the same before and after re-expressing the data —
composition of `ll_data_unit_jacobian` (kernel) with `Reject.goodPos_shift_invariant` (rejection rule) -/
theorem sampler_accepted_set_unit_invariant {n k : ℕ} (expf : ℝ → ℝ) (c : ℝ) (hc : 0 < c)
    (lib : List (KIn n k ℝ × (Fin n → ℝ))) (hphys : ∀ p ∈ lib, Phys p.1 p.2) (uu : List ℝ) :
    Reject.goodPos expf (lib.map fun p => kll (scaleIn c p.1)) uu =
      Reject.goodPos expf (lib.map fun p => kll p.1) uu := by
  have h : (lib.map fun p => kll (scaleIn c p.1)) = (lib.map fun p => kll p.1).map (· + (-(n * Real.log c))) := by
    rw [List.map_map]
    apply List.map_congr_left
    intro p hp
    simp only [Function.comp]
    rw [ll_data_unit_jacobian c hc p.1 p.2 (hphys p hp)]
    ring
  rw [h, Reject.goodPos_shift_invariant]

end
end Kernel
