import JokerVerif.Lemmas.RejectLemmas
/-!
# C14 — iterative rejection sampling respects request, budget and acceptance rule

Property theorems only (model: `Model/Iter.lean`).  Every statement is for **every growth policy** `grow`,
every library, every option combination, every recorded draw (`idx`, `uus`), every likelihood function and
every `expf`.  `res` is what `Iter.iterativeSample` returns; `budget = max_prior_samples` or the library size.
-/
set_option linter.unusedSectionVars false
namespace Iter
open Reject

section Generic
variable {α ρ : Type} [LT α] [DecidableLT α] [Sub α] [Max α]
variable {expf : α → α} {nonFinite : α → Bool} {llf : ρ → α} {lib : List (LibRow ρ α)} {c : Cfg}
  {idx : Option (List Nat)} {grow : Nat → Nat → Nat → Nat → Nat} {uus : List (List α)} {res : Res ρ α}

/-- Budget: never more than `max_prior_samples` **or the library size** evaluations (`Cfg.budget = min` of the two: a budget
above the library size means the whole library, on both code paths); the number evaluated is the sum of the batch sizes of
the rounds and the number of evaluated rows reported. -/
theorem budget (h : iterativeSample expf nonFinite llf lib c idx grow uus = .ok res) :
    res.evaluated ≤ c.budget lib.length ∧ c.budget lib.length ≤ lib.length ∧
    (∀ m, c.maxPrior = some m → res.evaluated ≤ m) ∧
    (res.blocks.map (·.2)).sum = res.evaluated ∧ res.out.evalRows.length = res.evaluated ∧
    res.out.allLls.length = res.evaluated := by
  obtain ⟨h1, _, h3, h4, h5, h6, h7, _⟩ := iterativeSample_facts h
  have hlen : res.out.evalRows.length = res.evaluated := by
    rw [h6, List.length_take, h3]; omega
  refine ⟨h4, h1, ?_, by simpa using (tiles_cover _ _ _ h5).2, hlen, ?_⟩
  · intro m hm
    have : c.budget lib.length ≤ m := by
      unfold Cfg.budget; rw [hm]; exact Nat.min_le_left _ _
    omega
  rw [gather_length h7, hlen]

/-- No library row is evaluated twice: the rounds evaluate consecutive, disjoint blocks of positions of
`all_idx` that together enumerate `0 … evaluated−1` exactly once in order; the evaluated rows are that prefix of
`all_idx`, hence pairwise distinct whenever `all_idx` is (always without shuffling; with shuffling because
`choice(replace=False)` is duplicate-free). -/
theorem no_row_twice (h : iterativeSample expf nonFinite llf lib c idx grow uus = .ok res) :
    Tiles res.blocks 0 res.evaluated ∧
    res.blocks.flatMap (fun b => List.range' b.1 b.2) = List.range res.evaluated ∧
    res.out.evalRows = (evalOrder (c.budget lib.length) idx).take res.evaluated ∧
    (idx = none → res.out.evalRows = List.range res.evaluated ∧ res.out.evalRows.Nodup) ∧
    (∀ ix, idx = some ix → ix.Nodup → res.out.evalRows.Nodup) := by
  obtain ⟨_, _, _, h4, h5, h6, _⟩ := iterativeSample_facts h
  refine ⟨h5, ?_, h6, ?_, ?_⟩
  · rw [(tiles_cover _ _ _ h5).1, List.range_eq_range']; simp
  · intro hi
    have : res.out.evalRows = List.range res.evaluated := by
      rw [h6, hi]; simp only [evalOrder]; rw [List.take_range]; congr 1; omega
    exact ⟨this, this ▸ List.nodup_range⟩
  · intro ix hi hnd
    rw [h6, hi]
    simp only [evalOrder]
    exact (hnd.sublist (List.take_sublist _ _)).sublist (List.take_sublist _ _)

/-- At most `n_requested_samples` nonlinear samples, each with exactly `n_linear_samples` rows. -/
theorem at_most_requested (h : iterativeSample expf nonFinite llf lib c idx grow uus = .ok res) :
    res.out.good.length ≤ c.req ∧ res.out.rows.length = res.out.good.length * c.nLinear ∧
    res.out.rows.length ≤ c.req * c.nLinear := by
  obtain ⟨_, _, _, _, _, _, _, _, _, h10, _, _, h13, recs, a5, a6, _, _⟩ := iterativeSample_facts h
  have hg : res.out.good.length ≤ c.req := by rw [h10]; exact List.length_take_le _ _
  have hr : res.out.rows.length = res.out.good.length * c.nLinear := by
    rw [a6, rep_length, List.length_map, gather_length a5, gather_length h13]
  exact ⟨hg, hr, by rw [hr]; exact Nat.mul_le_mul_right _ hg⟩

/-- Exactly `n_requested_samples` whenever at least that many evaluated samples pass (in the last round). -/
theorem exactly_when_enough (h : iterativeSample expf nonFinite llf lib c idx grow uus = .ok res)
    (henough : c.req ≤ (goodPos expf res.out.allLls res.uuLast).length) :
    res.out.good.length = c.req ∧ res.out.rows.length = c.req * c.nLinear := by
  obtain ⟨_, _, _, _, _, _, _, _, _, h10, _⟩ := iterativeSample_facts h
  obtain ⟨_, hr, _⟩ := at_most_requested h
  have : res.out.good.length = c.req := by rw [h10, List.length_take]; omega
  exact ⟨this, by rw [hr, this]⟩

/-- Every returned sample is an evaluated prior sample accepted by the rule of C02 against the maximum over
**everything evaluated so far**, with the uniforms of the **last** round (`uus[#rounds − 1]`): the selection is
the first `n_requested_samples` positions of the C02 mask of all likelihoods; it is never empty; the rows are
`lib[evalRows[good]]`, a sub-sequence of the evaluated rows, `n_linear_samples` copies each. -/
theorem accepted_by_rule (h : iterativeSample expf nonFinite llf lib c idx grow uus = .ok res) :
    (∃ k, uus[k]? = some res.uuLast ∧ res.blocks.length = k + 1) ∧
    res.uuLast.length = res.out.allLls.length ∧
    gather (lib.map (fun r => llf r.nonlin)) res.out.evalRows = some res.out.allLls ∧
    res.out.good = (goodPos expf res.out.allLls res.uuLast).take c.req ∧
    (∀ p ∈ res.out.good, ∃ m l u, maxOf res.out.allLls = some m ∧ res.out.allLls[p]? = some l ∧
        res.uuLast[p]? = some u ∧ u < expf (l - m)) ∧
    goodPos expf res.out.allLls res.uuLast ≠ [] ∧
    gather res.out.evalRows res.out.good = some res.out.full ∧ res.out.full.Sublist res.out.evalRows ∧
    ∃ recs, gather lib res.out.full = some recs ∧ res.out.rows = rep c.nLinear (recs.map (·.nonlin)) := by
  obtain ⟨_, _, _, _, _, _, h7, h8, h9, h10, h11, _, h13, recs, a5, a6, _, _⟩ := iterativeSample_facts h
  have hpw : res.out.good.Pairwise (· < ·) := by
    rw [h10]; exact (goodPos_pairwise expf _ _).sublist (List.take_sublist _ _)
  refine ⟨h8, h9, h7, h10, ?_, h11, h13, gather_sublist _ _ _ _ rfl hpw h13, recs, a5, a6⟩
  intro p hp
  rw [h10] at hp
  exact (mem_goodPos expf _ _ p).mp (List.mem_of_mem_take hp)

/-- A library too small for the request makes it raise (`ValueError`), before anything is evaluated. -/
theorem small_library_raises (expf : α → α) (nonFinite : α → Bool) (llf : ρ → α) (lib : List (LibRow ρ α))
    (c : Cfg) (idx : Option (List Nat)) (grow : Nat → Nat → Nat → Nat → Nat) (uus : List (List α))
    (hs : c.budget lib.length < c.initBatch.getD (c.growth * c.req)) :
    iterativeSample expf nonFinite llf lib c idx grow uus = .error .value := by
  unfold iterativeSample
  simp [hs]

/-- The call yields a sample table or an error — there is no third kind of result; and on the guarded
(in-memory) path a successful call has seen only finite likelihoods. -/
theorem result_is_samples_or_error (expf : α → α) (nonFinite : α → Bool) (llf : ρ → α) (lib : List (LibRow ρ α))
    (c : Cfg) (idx : Option (List Nat)) (grow : Nat → Nat → Nat → Nat → Nat) (uus : List (List α)) :
    (∃ e, iterativeSample expf nonFinite llf lib c idx grow uus = .error e) ∨
    (∃ res, iterativeSample expf nonFinite llf lib c idx grow uus = .ok res ∧
        (c.guard = true → ∀ l ∈ res.out.allLls, nonFinite l = false)) := by
  cases hr : iterativeSample expf nonFinite llf lib c idx grow uus with
  | error e => exact Or.inl ⟨e, rfl⟩
  | ok res =>
    obtain ⟨_, _, _, _, _, _, _, _, _, _, _, h12, _⟩ := iterativeSample_facts hr
    exact Or.inr ⟨res, rfl, h12⟩

/-- No early stop: a successful call returns **fewer** than `n_requested_samples` samples only from the exit where the
growth policy's wish, clamped to what is left of the budget, is 0 — stated for every policy. -/
theorem fewer_only_from_zero_growth (h : iterativeSample expf nonFinite llf lib c idx grow uus = .ok res)
    (hshort : res.out.good.length < c.req) :
    ∃ r, clamp (c.budget lib.length) res.evaluated
      (grow r (goodPos expf res.out.allLls res.uuLast).length res.out.allLls.length
        (c.req - (goodPos expf res.out.allLls res.uuLast).length)) = 0 :=
  iterativeSample_short h hshort

/-- … hence, for every policy that asks for at least one more prior sample whenever samples are still missing (the
code's `int(safety_factor · n_need / n_good · n_evaluated)` with `safety_factor ≥ 1` does: `n_evaluated ≥ n_good ≥ 1`),
fewer than requested are returned only when the **whole budget** has been evaluated. -/
theorem fewer_only_when_budget_spent (h : iterativeSample expf nonFinite llf lib c idx grow uus = .ok res)
    (hgrow : ∀ r g e n, 0 < n → 0 < grow r g e n) (hshort : res.out.good.length < c.req) :
    res.evaluated = c.budget lib.length := by
  obtain ⟨r, hr⟩ := iterativeSample_short h hshort
  obtain ⟨_, _, _, h4, _, _, _, _, _, h10, _⟩ := iterativeSample_facts h
  have hG : (goodPos expf res.out.allLls res.uuLast).length < c.req := by
    rw [h10, List.length_take] at hshort; omega
  have hpos := hgrow r (goodPos expf res.out.allLls res.uuLast).length res.out.allLls.length
    (c.req - (goodPos expf res.out.allLls res.uuLast).length) (by omega)
  unfold clamp at hr
  split at hr <;> omega

end Generic

/-! ### non-vacuity: two growth rounds over ℤ (thresholds scaled by 10), 6-row library, request 2 -/
section Examples

def toyExp (x : ℤ) : ℤ := if x = 0 then 10 else if x = -1 then 5 else 1
def toyLib : List (LibRow ℤ ℤ) := [⟨-5, 0⟩, ⟨-1, 1⟩, ⟨-9, 2⟩, ⟨-2, 3⟩, ⟨-8, 4⟩, ⟨0, 5⟩]
def toyCfg : Cfg := ⟨2, none, some 3, 128, 1, 128, false⟩

example : (match iterativeSample toyExp (fun _ => false) id toyLib toyCfg none (fun _ _ _ _ => 3)
      [[9, 1, 9], [9, 1, 9, 2, 5, 5]] with
    | .ok res => (res.blocks, res.evaluated, res.out.good, res.out.full, res.out.rows, res.out.lnPrior)
    | .error _ => ([], 0, [], [], [], [])) = ([(0, 3), (3, 3)], 6, [1, 5], [1, 5], [-1, 0], [1, 5]) := by decide

example : iterativeSample toyExp (fun _ => false) id toyLib ⟨2, none, some 7, 128, 1, 128, false⟩ none
    (fun _ _ _ _ => 3) [] = .error .value :=
  small_library_raises _ _ _ _ _ _ _ _ (by decide)

/-- a budget above the library size is the library size: the request is served from the whole library -/
example : (match iterativeSample toyExp (fun _ => false) id toyLib ⟨2, some 50, some 3, 128, 1, 128, false⟩ none
      (fun _ _ _ _ => 3) [[9, 1, 9], [9, 1, 9, 2, 5, 5]] with
    | .ok res => (res.evaluated, res.out.full)
    | .error _ => (0, [])) = (6, [1, 5]) := by decide

/-- a short result (request 3, only 2 of the 6 rows pass): the whole budget was evaluated, as `fewer_only_when_budget_spent` says -/
example : (match iterativeSample toyExp (fun _ => false) id toyLib ⟨3, none, some 3, 128, 1, 128, false⟩ none
      (fun _ _ _ _ => 3) [[9, 1, 9], [9, 1, 9, 2, 5, 5]] with
    | .ok res => (res.evaluated, res.out.good, decide (res.out.good.length < 3))
    | .error _ => (0, [], false)) = (6, [1, 5], true) := by decide

end Examples
end Iter
