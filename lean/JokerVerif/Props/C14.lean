/-! # C14 — property theorems (to be filled in) -/
