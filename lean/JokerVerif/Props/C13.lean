/-! # C13 — property theorems (to be filled in) -/
