import JokerVerif.Lemmas.CacheLemmas
/-!
# C13 — failures propagate and never leak cache files or damage user files

Property theorems only (model: `Model/Cache.lean`).  Every statement is for every initial file-system state
`s0`, every temp-file name `f` not already in use, every list of inner steps allowed inside the decorated
function (`InnerOK`: no temp-file creation / deletion, user paths opened read-only) — of any length — and
every fault: none, at the creation of the temp file, or at ANY step `k` of the `try` block.
Crashes that are not Python exceptions (SIGKILL, power loss) are outside model and property.
-/
namespace Cache

/-- no temporary file survives the call, whatever the fault position: final `tmp` = initial `tmp` -/
theorem no_leak (s0 : St) (f : Nat) (hf : f ∉ s0.tmp) (inner : List Step) (h : InnerOK inner) (fl : Fault) :
    (objectCall s0 f inner fl).1.tmp = s0.tmp := by
  rw [objectCall_state s0 f hf inner h fl]

/-- a fault yields an exception at the top level (nothing swallows it); no fault yields a value -/
theorem exception_propagates (s0 : St) (f : Nat) (inner : List Step) (fl : Fault) :
    ((objectCall s0 f inner fl).2 = true ↔ fl ≠ Fault.none) ∧
    ((fileCall s0 inner fl).2 = true ↔ fl ≠ Fault.none) := by
  cases fl <;> simp [objectCall, fileCall, Fault.raised]

/-- user files are only ever opened read-only: the "written" flag is unchanged, for object input (where the
call never needs the user's file) and for file-name input (where it reads it) -/
theorem user_file_untouched (s0 : St) (f : Nat) (hf : f ∉ s0.tmp) (inner : List Step) (h : InnerOK inner)
    (fl : Fault) :
    (objectCall s0 f inner fl).1.userWritten = s0.userWritten ∧
    (fileCall s0 inner fl).1.userWritten = s0.userWritten := by
  rw [objectCall_state s0 f hf inner h fl, fileCall_state s0 inner h fl]
  exact ⟨rfl, rfl⟩

/-- the machine's post-state equals its pre-state, failing or not: the next call starts exactly where a
first call would (history independence of the helper itself is C05) -/
theorem next_call_clean (s0 : St) (f : Nat) (hf : f ∉ s0.tmp) (inner : List Step) (h : InnerOK inner)
    (fl : Fault) :
    (objectCall s0 f inner fl).1 = s0 ∧ (fileCall s0 inner fl).1 = s0 :=
  ⟨objectCall_state s0 f hf inner h fl, fileCall_state s0 inner h fl⟩

/-- trace inclusion, object input: every observed trace (with its "an exception reached the caller" flag)
that the driver's recogniser accepts is the trace of a model run with allowed inner steps, so the theorems
above apply to it: replaying the OBSERVED steps from `s0` ends in `s0` -/
theorem observed_object_trace_is_run (s0 : St) (tr : List Step) (r : Bool) (f : Nat) (inner : List Step)
    (fl : Fault) (hm : matchObject tr r = some (f, inner, fl)) (hf : f ∉ s0.tmp) :
    tr.foldl apply s0 = s0 ∧ (objectCall s0 f inner fl).2 = r := by
  obtain ⟨hok, htr, hr⟩ := matchObject_sound tr r f inner fl hm
  refine ⟨?_, hr⟩
  have := objectCall_state s0 f hf inner hok fl
  unfold objectCall at this
  rw [htr] at this
  exact this

/-- trace inclusion, file-name input -/
theorem observed_file_trace_is_run (s0 : St) (tr : List Step) (r : Bool) (inner : List Step) (fl : Fault)
    (hm : matchFile tr r = some (inner, fl)) :
    tr.foldl apply s0 = s0 ∧ (fileCall s0 inner fl).2 = r := by
  obtain ⟨hok, htr, hr⟩ := matchFile_sound tr r inner fl hm
  refine ⟨?_, hr⟩
  have := fileCall_state s0 inner hok fl
  unfold fileCall at this
  rw [htr] at this
  exact this

-- non-vacuity: a realistic inner trace, fault at the third step of the try block, other temp files present
private def innerEx : List Step :=
  [.openTemp 7 .ro, .openTemp 7 .ro, .body "read_batch", .body "pool.map", .body "unpack"]
example : InnerOK innerEx := all_stepOK (by decide)
example : objectCall ⟨[3, 4], false⟩ 7 innerEx (.step 2) = (⟨[3, 4], false⟩, true) := by decide
example : objectTrace 7 innerEx (.step 2) = [.mkTemp 7, .writeTemp 7, .openTemp 7 .ro, .openTemp 7 .ro, .unlink 7] := by decide
example : matchObject [.mkTemp 7, .writeTemp 7, .openTemp 7 .ro, .openTemp 7 .ro, .unlink 7] true
    = some (7, [.openTemp 7 .ro, .openTemp 7 .ro], .step 2) := by decide
-- and the recogniser refuses a leaking trace and a trace that opens the user's file writable
example : matchObject [.mkTemp 7, .writeTemp 7, .body "pool.map"] true = none := by decide
example : matchFile [.openUser 1 .ro, .openUser 1 .rw] false = none := by decide
-- without the `finally` the state is NOT restored (the theorem is not trivially true of any machine)
example : ([Step.mkTemp 7, .writeTemp 7, .body "pool.map"].foldl apply ⟨[3], false⟩).tmp = [7, 3] := by decide

end Cache
