import JokerVerif.Lemmas.CacheLemmas
/-!
# C13 — failures propagate and never leak cache files or damage user files

Property theorems only (model: `Model/Cache.lean`).  Every statement is for every initial file-system state
`s0`, every temp-file name `f` not already in use, every list of steps allowed in the `try` block (`BlockOK f`:
only the cache file `f` itself may be re-created / removed, user paths are opened read-only; for file-name
input `InnerOK`: no temp-file steps at all) — of any length — and every fault: none, at the creation of the temp file, or at ANY step `k` of the `try` block.
Crashes that are not Python exceptions (SIGKILL, power loss) are outside model and property.
-/
namespace Cache

/-- no temporary file survives the call, whatever the fault position: final `tmp` = initial `tmp` -/
theorem no_leak (s0 : St) (f : Nat) (hf : f ∉ s0.tmp) (blk : List Step) (h : BlockOK f blk) (fl : Fault) :
    (objectCall s0 f blk fl).1.tmp = s0.tmp := by
  rw [objectCall_state s0 f hf blk h fl]

/-- a fault yields an exception at the top level (nothing swallows it); no fault yields a value -/
theorem exception_propagates (s0 : St) (f : Nat) (blk : List Step) (fl : Fault) :
    ((objectCall s0 f blk fl).2 = true ↔ fl ≠ Fault.none) ∧
    ((fileCall s0 blk fl).2 = true ↔ fl ≠ Fault.none) := by
  cases fl <;> simp [objectCall, fileCall, Fault.raised]

/-- user files are only ever opened read-only: the "written" flag is unchanged, for object input (where the
call never needs the user's file) and for file-name input (where it reads it) -/
theorem user_file_untouched (s0 : St) (f : Nat) (hf : f ∉ s0.tmp) (blk : List Step) (h : BlockOK f blk)
    (inner : List Step) (hi : InnerOK inner) (fl : Fault) :
    (objectCall s0 f blk fl).1.userWritten = s0.userWritten ∧
    (fileCall s0 inner fl).1.userWritten = s0.userWritten := by
  rw [objectCall_state s0 f hf blk h fl, fileCall_state s0 inner hi fl]
  exact ⟨rfl, rfl⟩

/-- the machine's post-state equals its pre-state, failing or not: the next call starts exactly where a
first call would (history independence of the helper itself is C05) -/
theorem next_call_clean (s0 : St) (f : Nat) (hf : f ∉ s0.tmp) (blk : List Step) (h : BlockOK f blk)
    (inner : List Step) (hi : InnerOK inner) (fl : Fault) :
    (objectCall s0 f blk fl).1 = s0 ∧ (fileCall s0 inner fl).1 = s0 :=
  ⟨objectCall_state s0 f hf blk h fl, fileCall_state s0 inner hi fl⟩

/-- trace inclusion, object input: every observed trace (with its "an exception reached the caller" flag)
that the driver's recogniser accepts is the trace of a model run with an allowed try block, so the theorems
above apply to it: replaying the OBSERVED steps from `s0` ends in `s0` -/
theorem observed_object_trace_is_run (s0 : St) (tr : List Step) (r : Bool) (f : Nat) (blk : List Step)
    (fl : Fault) (hm : matchObject s0 tr r = some (f, blk, fl)) (hf : f ∉ s0.tmp) :
    tr.foldl apply s0 = s0 ∧ (objectCall s0 f blk fl).2 = r := by
  obtain ⟨hok, htr, hr⟩ := matchObject_sound s0 tr r f blk fl hm
  refine ⟨?_, hr⟩
  have := objectCall_state s0 f hf blk hok fl
  unfold objectCall at this
  rw [htr] at this
  exact this

/-- trace inclusion, file-name input -/
theorem observed_file_trace_is_run (s0 : St) (tr : List Step) (r : Bool) (inner : List Step) (fl : Fault)
    (hm : matchFile tr r = some (inner, fl)) :
    tr.foldl apply s0 = s0 ∧ (fileCall s0 inner fl).2 = r := by
  obtain ⟨hok, htr, hr⟩ := matchFile_sound tr r inner fl hm
  refine ⟨?_, hr⟩
  have := fileCall_state s0 inner hok fl
  unfold fileCall at this
  rw [htr] at this
  exact this

-- non-vacuity: the try block the real code runs (the HDF5 writer removes and re-creates the cache file),
-- other temp files present, faults at several positions
private def blkEx : List Step :=
  [.writeTemp 7, .unlink 7, .openTemp 7 .rw, .mkTemp 7, .openTemp 7 .ro, .body "read_batch", .body "pool.map", .body "unpack"]
private def s3 : St := ⟨[3, 4], false⟩
example : BlockOK 7 blkEx := all_okFor (by decide)
-- no fault
example : objectTrace s3 7 blkEx .none = [.mkTemp 7] ++ blkEx ++ [.unlink 7] := by decide
example : objectCall s3 7 blkEx .none = (s3, false) := by decide
-- fault while reading: the file exists, it is unlinked
example : objectTrace s3 7 blkEx (.step 5)
    = [.mkTemp 7, .writeTemp 7, .unlink 7, .openTemp 7 .rw, .mkTemp 7, .openTemp 7 .ro, .body "read_batch", .unlink 7] := by
  decide
-- fault between the writer's remove and re-create: nothing left to unlink, still no leak
example : objectTrace s3 7 blkEx (.step 2) = [.mkTemp 7, .writeTemp 7, .unlink 7, .openTemp 7 .rw] := by decide
example : objectCall s3 7 blkEx (.step 2) = (s3, true) := by decide
example : matchObject s3 [.mkTemp 7, .writeTemp 7, .unlink 7, .openTemp 7 .rw] true
    = some (7, [.writeTemp 7, .unlink 7, .openTemp 7 .rw], .step 3) := by decide
-- the recogniser refuses a leaking trace, a foreign temp file and a user file opened writable
example : matchObject s3 [.mkTemp 7, .writeTemp 7, .body "pool.map"] true = none := by decide
example : matchObject s3 [.mkTemp 7, .writeTemp 7, .mkTemp 8, .unlink 7] false = none := by decide
example : matchFile [.openUser 1 .ro, .openUser 1 .rw] false = none := by decide
-- without the `finally` the state is NOT restored (the theorem is not trivially true of any machine)
example : ([Step.mkTemp 7, .writeTemp 7, .body "pool.map"].foldl apply ⟨[3], false⟩).tmp = [7, 3] := by decide

end Cache
