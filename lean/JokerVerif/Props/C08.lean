/-! # C08 — property theorems (to be filled in) -/
