import JokerVerif.Lemmas.DataLemmas
/-!
# C08 — multi-survey data keep every observation tied to its own survey offset

Property theorems only.  `svs` = the sources in the order given (`(key, survey)`; for list input the keys are
`0, 1, …`), each source an `RVData` with 1-D errors (`WellFormed`: its three arrays have one length).

The property does not fix the order of the merged rows (time-sorted or concatenation order are both fine); what it
demands is that rows and labels move together.  `perm` is therefore ANY permutation of the positions of the
concatenation — the order in which the implementation holds the merged rows — and every theorem below holds for
every such permutation, every number of sources, every size and every time layout (disjoint, interleaved,
identical epochs in several sources).  `merge_sorted` of the design is kept in conditional form
(`merge_sorted_of_sorting_perm`: the merged times are non-decreasing iff the implementation chose a sorting
permutation) because sortedness is not part of C08 (for a single `RVData` it is C15's `sorted_by_time`).
-/
namespace Data
variable {κ τ ν : Type} [LinearOrder κ] (le : τ → τ → Bool)

/-- the merged arrays, zipped, are the labelled input observations indexed by the one sorting permutation:
time, velocity, error **and survey key** of a row all come from the same input observation -/
theorem merge_pairing (svs : List (κ × Survey τ ν)) (hwf : WellFormed svs) (nOffsets : Nat) (perm : List Nat)
    (m : Merged κ τ ν) (h : merge le svs nOffsets perm = .ok m) :
    m.t.zip (m.rv.zip (m.err.zip m.ids)) = gather perm (labelled svs) := by
  obtain ⟨_, _, _, ht, hr, he, hi, _⟩ := merge_ok le svs nOffsets perm m h
  obtain ⟨l1, l2, l3⟩ := cat_lengths svs hwf
  rw [ht, hr, he, hi, labelled_eq_zip svs hwf,
    gather_zip perm (catT svs) _ (by simp only [List.length_zip]; omega),
    gather_zip perm (catRv svs) _ (by simp only [List.length_zip]; omega),
    gather_zip perm (catErr svs) _ (by omega)]

/-- the merged data set is exactly the union (as a multiset) of the input observations, each tagged with the
key of the source it came from — also when different sources share identical epochs -/
theorem merge_is_union (svs : List (κ × Survey τ ν)) (hwf : WellFormed svs) (nOffsets : Nat) (perm : List Nat)
    (m : Merged κ τ ν) (h : merge le svs nOffsets perm = .ok m) :
    (m.t.zip (m.rv.zip (m.err.zip m.ids))).Perm (labelled svs) := by
  rw [merge_pairing le svs hwf nOffsets perm m h]
  obtain ⟨_, _, hv, _⟩ := merge_ok le svs nOffsets perm m h
  obtain ⟨l1, l2, l3⟩ := cat_lengths svs hwf
  have hl : (labelled svs).length = (catT svs).length := by
    rw [labelled_eq_zip svs hwf]; simp only [List.length_zip]; omega
  exact gather_perm perm _ (by rw [hl]; exact isPermOfRange_perm _ _ hv)

/-- (conditional form of the design's `merge_sorted`) if the order the implementation chose sorts the times, the
merged times are non-decreasing; nothing in C08 requires that choice -/
theorem merge_sorted_of_sorting_perm (htrans : ∀ a b c, le a b = true → le b c = true → le a c = true)
    (svs : List (κ × Survey τ ν)) (nOffsets : Nat) (perm : List Nat)
    (m : Merged κ τ ν) (h : merge le svs nOffsets perm = .ok m)
    (hsort : validPerm le (catT svs) perm = true) :
    m.t.Pairwise (fun a b => le a b = true) := by
  obtain ⟨_, _, _, ht, _⟩ := merge_ok le svs nOffsets perm m h
  simp only [validPerm, Bool.and_eq_true] at hsort
  rw [ht]; exact isSorted_pairwise le htrans _ hsort.2

/-- the keys that get a column are the keys of the sources, in increasing key order, each once -/
theorem offset_order_is_key_order (svs : List (κ × Survey τ ν)) (nOffsets : Nat) (perm : List Nat)
    (m : Merged κ τ ν) (h : merge le svs nOffsets perm = .ok m) :
    uniq m.ids = uniq (catIds svs) ∧ (uniq (catIds svs)).Pairwise (· < ·) ∧
    (uniq (catIds svs)).length = nOffsets + 1 ∧
    ∀ a, a ∈ uniq (catIds svs) ↔ ∃ p ∈ svs, p.1 = a ∧ p.2.t ≠ [] := by
  obtain ⟨_, hn, hv, _, _, _, hi, _⟩ := merge_ok le svs nOffsets perm m h
  refine ⟨?_, uniq_sorted _, hn, ?_⟩
  · rw [hi]
    apply uniq_congr
    intro k
    constructor
    · exact mem_gather _ _ _
    · intro hk
      obtain ⟨i, hi'⟩ := List.mem_iff_getElem?.mp hk
      have hlt : i < (catIds svs).length := (List.getElem?_eq_some_iff.mp hi').1
      -- every position occurs in an accepted permutation
      have hlen : (catIds svs).length = (catT svs).length := by
        simp only [catIds, catT, List.length_flatMap, List.length_replicate]
      have hmem : i ∈ perm := (isPermOfRange_perm _ _ hv).mem_iff.mpr (List.mem_range.mpr (by omega))
      unfold gather
      rw [List.mem_filterMap]
      exact ⟨i, hmem, hi'⟩
  · intro a
    rw [mem_uniq]
    simp only [catIds, List.mem_flatMap, List.mem_replicate]
    constructor
    · rintro ⟨p, hp, hne, rfl⟩
      exact ⟨p, hp, rfl, fun h0 => hne (by simp [h0])⟩
    · rintro ⟨p, hp, rfl, hne⟩
      exact ⟨p, hp, fun h0 => hne (List.length_eq_zero_iff.mp h0), rfl⟩

/-- the constant block: column 0 is one in every row; column `1+j` of a row is one exactly when the row's
key is the `(j+1)`-th key — which, by `merge_pairing`, is the key of the source the row's `(t, rv, err)` came
from.  Hence column `1+j` is one on all epochs of that source and only on those. -/
theorem offset_columns_are_indicators [OfNat τ 0] [OfNat τ 1] [Sub τ] [Mul τ]
    (svs : List (κ × Survey τ ν)) (nOffsets : Nat) (perm : List Nat)
    (m : Merged κ τ ν) (h : merge le svs nOffsets perm = .ok m) (p : Nat)
    (i : Nat) (t : τ) (k : κ) (hi : (m.t.zip m.ids)[i]? = some (t, k)) :
    ∃ row, (m.design p)[i]? = some row ∧ row[0]? = some 1 ∧
      ∀ j, j < nOffsets → ∃ a, (uniq (catIds svs))[j + 1]? = some a ∧
        row[j + 1]? = some (if k = a then 1 else 0) := by
  obtain ⟨hu, _, hn, _⟩ := offset_order_is_key_order le svs nOffsets perm m h
  refine ⟨designRow (uniq m.ids) p m.tref t k, ?_, ?_, ?_⟩
  · simp [Merged.design, designOfRows, hi]
  · simp [designRow, constRow]
  · intro j hj
    rw [hu]
    have hlt : j + 1 < (uniq (catIds svs)).length := by omega
    refine ⟨(uniq (catIds svs))[j + 1], List.getElem?_eq_getElem hlt, ?_⟩
    have htl : j < (uniq (catIds svs)).tail.length := by simp; omega
    simp only [designRow, constRow, List.cons_append, List.getElem?_cons_succ]
    rw [List.getElem?_append_left (by simpa using htl), List.getElem?_map, List.getElem?_eq_getElem htl]
    simp [List.getElem_tail]

/-- exactly one source — the one with the smallest key — is the offset-free reference: its rows have zeros in
every offset column; every other source has exactly one offset column (the rank of its key) -/
theorem reference_is_smallest_key [OfNat τ 0] [OfNat τ 1]
    (svs : List (κ × Survey τ ν)) (nOffsets : Nat) (perm : List Nat)
    (m : Merged κ τ ν) (h : merge le svs nOffsets perm = .ok m) :
    ∃ r rest, uniq (catIds svs) = r :: rest ∧ rest.length = nOffsets ∧
      r ∈ catIds svs ∧ (∀ k ∈ catIds svs, r ≤ k) ∧
      (constRow (r :: rest) r : List τ) = 1 :: rest.map (fun _ => 0) ∧
      ∀ k ∈ catIds svs, k ≠ r → ∃ j, rest[j]? = some k ∧
        ∀ j', j' < rest.length → (constRow (r :: rest) k : List τ)[j' + 1]? = some (if j' = j then 1 else 0) := by
  obtain ⟨_, hsorted, hn, _⟩ := offset_order_is_key_order le svs nOffsets perm m h
  cases hq : uniq (catIds svs) with
  | nil => rw [hq] at hn; simp at hn
  | cons r rest =>
    rw [hq] at hn hsorted
    obtain ⟨hr1, hr2⟩ := uniq_head_le (catIds svs) r rest hq
    rw [List.pairwise_cons] at hsorted
    refine ⟨r, rest, rfl, by simpa using hn, hr1, hr2, ?_, ?_⟩
    · simp only [constRow, List.tail_cons, List.cons.injEq, true_and]
      apply List.map_congr_left
      intro a ha
      simp [ne_of_lt (hsorted.1 a ha)]
    · intro k hk hkr
      have hku : k ∈ r :: rest := by rw [← hq]; exact (mem_uniq _ k).mpr hk
      have hkrest : k ∈ rest := by
        rcases List.mem_cons.mp hku with rfl | h'
        · exact absurd rfl hkr
        · exact h'
      obtain ⟨j, hj⟩ := List.mem_iff_getElem?.mp hkrest
      refine ⟨j, hj, ?_⟩
      intro j' hj'
      have hnd : rest.Nodup := hsorted.2.imp (fun h => ne_of_lt h)
      obtain ⟨hjlt, hjeq⟩ := List.getElem?_eq_some_iff.mp hj
      simp only [constRow, List.tail_cons, List.getElem?_cons_succ, List.getElem?_map,
        List.getElem?_eq_getElem hj', Option.map_some, Option.some.injEq]
      by_cases hjj : j' = j
      · subst hjj; simp [hjeq]
      · have : k ≠ rest[j'] := by
          intro he
          apply hjj
          have := (List.Nodup.getElem_inj_iff hnd (hi := hj') (hj := hjlt)).mp (by rw [hjeq, ← he])
          exact this
        simp [this, hjj]

/-- list input `[d0, d1, …]` (every source non-empty): the keys with a column are `0, 1, …` in list order -/
theorem list_input_keys (ds : List (Survey τ ν)) (hne : ∀ d ∈ ds, d.t ≠ []) :
    uniq (catIds (listInput ds)) = List.range ds.length := by
  rw [← uniq_of_sorted (List.range ds.length) List.pairwise_lt_range]
  apply uniq_congr
  intro k
  simp only [catIds, listInput, List.mem_flatMap, List.mem_map, List.mem_replicate, List.mem_range]
  constructor
  · rintro ⟨p, ⟨x, hx, rfl⟩, _, rfl⟩
    have := List.mem_zipIdx_iff_getElem?.mp hx
    exact (List.getElem?_eq_some_iff.mp this).1
  · intro hk
    refine ⟨(k, ds[k]), ⟨(ds[k], k), ?_, rfl⟩, ?_, rfl⟩
    · exact List.mem_zipIdx_iff_getElem?.mpr (List.getElem?_eq_getElem hk)
    · intro h0
      exact hne _ (List.getElem_mem hk) (List.length_eq_zero_iff.mp h0)

/-- … so for list input the first source is the reference and the `c`-th further source gets column `c`,
i.e. the offset parameter `dv0_c`: in the row of an epoch of source `s`, column `c` is one iff `c = 0 ∨ c = s` -/
theorem list_input_rule [OfNat τ 0] [OfNat τ 1] (n s c : Nat) (hc : c < n) :
    (constRow (List.range n) s : List τ)[c]? = some (if c = 0 ∨ s = c then 1 else 0) := by
  cases c with
  | zero => simp [constRow]
  | succ c =>
    have hc' : c < n - 1 := by omega
    simp only [constRow, List.tail_range, List.getElem?_cons_succ, List.getElem?_map,
      List.getElem?_range' hc', Option.map_some]
    have e : 1 + c = c + 1 := by omega
    simp [e]

/-- consequently the design matrix handed to the likelihood is the design matrix of the correctly labelled
data: row `i` is built from the time **and the key of the very observation** stored in row `i`, relative to the
earliest epoch of all sources — in whatever order the rows are held -/
theorem likelihood_of_labelled_data [OfNat τ 0] [OfNat τ 1] [Sub τ] [Mul τ]
    (hrefl : ∀ a, le a a = true) (htrans : ∀ a b c, le a b = true → le b c = true → le a c = true)
    (htotal : ∀ a b, (le a b || le b a) = true)
    (svs : List (κ × Survey τ ν)) (hwf : WellFormed svs) (nOffsets : Nat) (perm : List Nat)
    (m : Merged κ τ ν) (h : merge le svs nOffsets perm = .ok m) (p : Nat) :
    m.design p = (gather perm (labelled svs)).map
        (fun o => designRow (uniq (catIds svs)) p m.tref o.1 o.2.2.2) ∧
    m.tref ∈ catT svs ∧ ∀ x ∈ catT svs, le m.tref x = true := by
  obtain ⟨hu, _, _, _⟩ := offset_order_is_key_order le svs nOffsets perm m h
  obtain ⟨_, _, hv, ht, hr, he, hi, hmin⟩ := merge_ok le svs nOffsets perm m h
  obtain ⟨l1, l2, l3⟩ := cat_lengths svs hwf
  have hlt : ∀ i ∈ perm, i < (catT svs).length := perm_lt_of_isPermOfRange _ _ hv
  refine ⟨?_, ?_⟩
  · rw [← merge_pairing le svs hwf nOffsets perm m h]
    simp only [Merged.design, designOfRows, hu]
    have hz := zip4_proj m.t m.rv m.err m.ids
      (by rw [hr, ht, gather_length _ _ hlt, gather_length _ _ (by rw [l1]; exact hlt)])
      (by rw [he, ht, gather_length _ _ hlt, gather_length _ _ (by rw [l2]; exact hlt)])
      (by rw [hi, ht, gather_length _ _ hlt, gather_length _ _ (by rw [l3]; exact hlt)])
    rw [← hz, List.map_map]
    rfl
  · have hp : m.t.Perm (catT svs) := by rw [ht]; exact gather_perm perm _ (isPermOfRange_perm _ _ hv)
    obtain ⟨h1, h2⟩ := minT_spec le htrans htotal hrefl m.t m.tref hmin
    exact ⟨hp.subset h1, fun x hx => h2 x (hp.symm.subset hx)⟩

/-- the model is not vacuous: sources without covariances, with at least one epoch and the declared number of
offsets are accepted in concatenation order (rows and labels exactly as concatenated) … -/
theorem merge_accepts_concatenation_order
    (svs : List (κ × Survey τ ν)) (nOffsets : Nat)
    (hcov : ∀ p ∈ svs, p.2.hasCov = false) (hn : (uniq (catIds svs)).length = nOffsets + 1)
    (hne : catT svs ≠ []) :
    ∃ m, merge le svs nOffsets (List.range (catT svs).length) = .ok m ∧ m.t = catT svs ∧ m.ids = catIds svs := by
  have hany : svs.any (fun p => p.2.hasCov) = false := by
    simp only [List.any_eq_false]
    intro p hp'
    simp [hcov p hp']
  have hg : gather (List.range (catT svs).length) (catT svs) = catT svs := gather_range _
  have hgi : gather (List.range (catT svs).length) (catIds svs) = catIds svs := by
    rw [← catIds_length]; exact gather_range _
  unfold merge
  simp only [hany, Bool.false_eq_true, if_false, hn, ne_eq, not_true_eq_false, isPermOfRange_range, Bool.not_true, hg, hgi]
  cases hc : catT svs with
  | nil => exact absurd hc hne
  | cons a r => simp [minT]

/-- … and, for a total transitive order on times, in time-sorted order as well -/
theorem merge_accepts_time_sorted_order (htrans : ∀ a b c, le a b = true → le b c = true → le a c = true)
    (htotal : ∀ a b, (le a b || le b a) = true)
    (svs : List (κ × Survey τ ν)) (nOffsets : Nat)
    (hcov : ∀ p ∈ svs, p.2.hasCov = false) (hn : (uniq (catIds svs)).length = nOffsets + 1)
    (hne : catT svs ≠ []) :
    ∃ perm m, merge le svs nOffsets perm = .ok m ∧ m.t.Pairwise (fun a b => le a b = true) := by
  obtain ⟨perm, hv⟩ := exists_validPerm le htrans htotal (catT svs)
  have hv' := hv
  simp only [validPerm, Bool.and_eq_true] at hv'
  have hp := gather_perm perm _ (isPermOfRange_perm _ _ hv'.1)
  have hany : svs.any (fun p => p.2.hasCov) = false := by
    simp only [List.any_eq_false]
    intro p hp'
    simp [hcov p hp']
  have hok : ∃ m, merge le svs nOffsets perm = .ok m := by
    unfold merge
    simp only [hany, Bool.false_eq_true, if_false, hn, ne_eq, not_true_eq_false, hv'.1, Bool.not_true]
    cases hg : gather perm (catT svs) with
    | nil =>
      rw [hg] at hp
      exact absurd hp.symm.eq_nil hne
    | cons a r => simp [minT]
  obtain ⟨m, hm⟩ := hok
  exact ⟨perm, m, hm, merge_sorted_of_sorting_perm le htrans svs nOffsets perm m hm hv⟩

/-! ### non-vacuity -/
section Examples

/-- two interleaved sources with a shared epoch (time 5): keys `"b"` (given first) and `"a"`; velocities
`1000·source + index`.  The reference is `"a"` (smallest key), `"b"` gets the offset column. -/
example :
    (merge (κ := String) (fun (a b : Nat) => decide (a ≤ b))
        [("b", { t := [1, 5, 9], rv := [1000, 1001, 1002], err := [1, 1, 1] }),
         ("a", { t := [3, 5], rv := [2000, 2001], err := [2, 2] })] 1 [0, 3, 1, 4, 2]).toOption.map
      (fun m => (m.t, m.rv, m.ids, (m.design 2 : List (List Nat))))
    = some ([1, 3, 5, 5, 9], [1000, 2000, 1001, 2001, 1002], ["b", "a", "b", "a", "b"],
            [[1, 1, 0], [1, 0, 2], [1, 1, 4], [1, 0, 4], [1, 1, 8]]) := by decide

/-- the other order of the tied epochs is accepted too, and the labels move with the rows -/
example :
    (merge (κ := String) (fun (a b : Nat) => decide (a ≤ b))
        [("b", { t := [1, 5, 9], rv := [1000, 1001, 1002], err := [1, 1, 1] }),
         ("a", { t := [3, 5], rv := [2000, 2001], err := [2, 2] })] 1 [0, 3, 4, 1, 2]).toOption.map
      (fun m => (m.rv, m.ids))
    = some ([1000, 2000, 2001, 1001, 1002], ["b", "a", "a", "b", "b"]) := by decide

/-- concatenation order (identity permutation) is accepted just as well: rows and labels as concatenated, the
reference epoch is still the earliest epoch (1) and the offset column follows the rows -/
example :
    (merge (κ := String) (fun (a b : Nat) => decide (a ≤ b))
        [("b", { t := [5, 1, 9], rv := [1001, 1000, 1002], err := [1, 1, 1] }),
         ("a", { t := [3, 5], rv := [2000, 2001], err := [2, 2] })] 1 [0, 1, 2, 3, 4]).toOption.map
      (fun m => (m.t, m.ids, m.tref, (m.design 2 : List (List Nat))))
    = some ([5, 1, 9, 3, 5], ["b", "b", "b", "a", "a"], 1,
            [[1, 1, 4], [1, 1, 0], [1, 1, 8], [1, 0, 2], [1, 0, 4]]) := by decide

/-- a list that is not a permutation of the positions (a row lost, another duplicated) is refused -/
example :
    (merge (κ := String) (fun (a b : Nat) => decide (a ≤ b))
        [("b", { t := [5, 1, 9], rv := [1001, 1000, 1002], err := [1, 1, 1] }),
         ("a", { t := [3, 5], rv := [2000, 2001], err := [2, 2] })] 1 [0, 1, 1, 3, 4]).toOption.isNone = true := by decide

/-- list input: three sources, keys 0,1,2 -/
example : uniq (catIds (listInput [({ t := [4, 6], rv := [0, 1], err := [1, 1] } : Survey Nat Nat),
    { t := [5], rv := [1000], err := [1] }, { t := [1, 2, 3], rv := [2000, 2001, 2002], err := [1, 1, 1] }]))
    = [0, 1, 2] := by decide

/-- a wrong number of declared offsets is refused -/
example :
    (merge (κ := Nat) (fun (a b : Nat) => decide (a ≤ b))
        [(0, { t := [1], rv := [10], err := [1] }), (1, { t := [2], rv := [20], err := [1] })] 2 [0, 1]).toOption.isNone
      = true := by decide

end Examples

end Data
