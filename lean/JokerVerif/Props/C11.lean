import JokerVerif.Lemmas.McmcKernelLemmas
import Mathlib.Analysis.SpecialFunctions.Complex.Arg
import Mathlib.Analysis.Real.Pi.Bounds
/-!
# C11 — MCMC continuation targets the same model and posterior

Property theorems only, over `ℝ` (for every true-anomaly function `ta`, i.e. whatever Kepler solver is used, as
long as both models call the same one), for all parameter values, epochs, trend orders and numbers of offsets.
-/
open Matrix

namespace Mcmc

/-- for any parameter values and any epoch the pymc model predicts the sampler's radial velocity: same phase
(`(x − P M0/2π)·2π/P = 2πx/P − M0`), same reference epoch (`x = t − t_ref`), `cos(ω+f)` expanded, same trend
matrix function, same offset columns -/
theorem mcmc_rv_eq_sampler_rv (ta : ℝ → ℝ → ℝ) (p : Par ℝ) (o : Obs ℝ) (hP : p.P ≠ 0) :
    mcmcRV (realFn ta) p o = samplerRV (realFn ta) p o := by
  unfold mcmcRV samplerRV
  simp only [meanAnomaly_eq ta p.P p.M0 o.x hP, realFn_cos, realFn_sin, realFn_trueAnom, Real.cos_add]

/-- in the declared units: converting the prior's units to internal ones first, the two models still agree -/
theorem mcmc_rv_eq_sampler_rv_declared (ta : ℝ → ℝ → ℝ) (u : Units ℝ) (p : Par ℝ) (o : Obs ℝ)
    (hP : u.cP * p.P ≠ 0) :
    mcmcRV (realFn ta) (toInternal u p) o = samplerRV (realFn ta) (toInternal u p) o :=
  mcmc_rv_eq_sampler_rv ta (toInternal u p) o hP

/-- hence the Gaussian data terms coincide on every data set -/
theorem dataTerm_eq (ta : ℝ → ℝ → ℝ) (p : Par ℝ) (obs : List (Obs ℝ)) (hP : p.P ≠ 0) :
    dataTerm (realFn ta) p (mcmcRV (realFn ta)) obs = dataTerm (realFn ta) p (samplerRV (realFn ta)) obs := by
  induction obs with
  | nil => rfl
  | cons o os ih => simp only [dataTerm, ih, mcmc_rv_eq_sampler_rv ta p o hP]

/-- `logp = ln prior(declared densities) + ln N(y | rv, σ² + s²)`; the stored `ln_likelihood` is that Gaussian
term; the stored `ln_prior = logp − ln_likelihood` is the prior term -/
theorem mcmc_logp_decomposition (lnPrior data : ℝ) :
    (diagnostics lnPrior data).logp = lnPrior + data ∧
    (diagnostics lnPrior data).lnLikelihood = data ∧
    (diagnostics lnPrior data).lnPrior = lnPrior := by
  refine ⟨rfl, rfl, ?_⟩
  simp [diagnostics]

/-- the density the chain targets is prior × Gaussian likelihood of the *sampler's* model -/
theorem logDensity_targets_sampler_posterior (ta : ℝ → ℝ → ℝ) (lnPrior : Par ℝ → Option ℝ) (u : Units ℝ)
    (obs : List (Obs ℝ)) (p : Par ℝ) (hP : u.cP * p.P ≠ 0) :
    logDensity (realFn ta) lnPrior u obs p =
      (lnPrior p).map (· + dataTerm (realFn ta) (toInternal u p) (samplerRV (realFn ta)) obs) := by
  unfold logDensity
  rw [dataTerm_eq ta (toInternal u p) obs hP]

/-- the data term is the sum of `ln N(y_i | rv_i, σ_i² + s²)`: jitter enters the variance -/
theorem dataTerm_cons (F : Fn ℝ) (p : Par ℝ) (rv : Par ℝ → Obs ℝ → ℝ) (o : Obs ℝ) (os : List (Obs ℝ)) :
    dataTerm F p rv (o :: os) =
      (-((o.y - rv p o) * (o.y - rv p o)) / (2 * (o.sigma * o.sigma + p.s * p.s))
        - F.log (2 * F.pi * (o.sigma * o.sigma + p.s * p.s)) / 2) + dataTerm F p rv os := rfl

/-- with several samples the initial point exists, is an actual member row, and its period is the `⌊N/2⌋`-th order
statistic of the periods; it is returned through the unit conversion `conv` (prior units) -/
theorem init_is_median_period_row {ρ : Type} (rows : List ρ) (period : ρ → ℝ) (conv : ρ → ρ) (hne : rows ≠ []) :
    ∃ (i : Nat) (hi : i < rows.length), initPoint rows period conv = some (conv rows[i]) ∧
      IsOrderStat (rows.map period) (rows.length / 2) (period rows[i]) := by
  have hne' : rows.map period ≠ [] := by simpa using hne
  obtain ⟨i, hi⟩ := medianIdx_isSome (rows.map period) hne'
  obtain ⟨hlt, hstat⟩ := medianIdx_spec (rows.map period) i hi
  have hlt' : i < rows.length := by simpa using hlt
  refine ⟨i, hlt', ?_, ?_⟩
  · simp [initPoint, hi, List.getElem?_eq_getElem hlt']
  · simpa using hstat

/-- the order statistic is unique: any two admissible choices have the same period -/
theorem median_period_unique (ps : List ℝ) (x y : ℝ) (hx : IsOrderStat ps (ps.length / 2) x)
    (hy : IsOrderStat ps (ps.length / 2) y) : x = y :=
  orderStat_unique ps _ x y hx hy

/-- a single sample is its own initial point -/
theorem init_single {ρ : Type} (r : ρ) (period : ρ → ℝ) (conv : ρ → ρ) : initPoint [r] period conv = some (conv r) := by
  obtain ⟨i, hi, h, _⟩ := init_is_median_period_row [r] period conv (by simp)
  have : i = 0 := by simpa using hi
  subst this
  simpa using h

/-! ### the MCMC model and the kernel (C01, C03, C04) are one model -/

/-- **the pymc model's RV is the kernel's design row dotted with the linear parameters**, in design-column order
`[K, v0, dv0_1.., v1..]`, with the Kepler term the sampler uses — so the matrix `M` of C01/C03/C04 is the Jacobian
of the chain's RV model in its linear parameters -/
theorem mcmc_rv_eq_design_row (ta : ℝ → ℝ → ℝ) (p : Par ℝ) (v0 : ℝ) (vtrend : List ℝ) (o : Obs ℝ)
    (hv : p.v = v0 :: vtrend) (hl : o.label ≤ p.dv.length) (hP : p.P ≠ 0) :
    mcmcRV (realFn ta) p o =
      Kernel.rowDot (Kernel.designRow (kepTerm ta p o.x) o.x o.label p.dv.length (vtrend.length + 1))
        (p.K :: v0 :: (p.dv ++ vtrend)) := by
  rw [Kernel.design_row_eq_orbit _ _ _ _ _ _ _ _ _ rfl (by simp) hl, mcmc_rv_eq_sampler_rv ta p o hP]
  unfold samplerRV Kernel.orbitRV trend kepTerm
  have h1 : polySum o.x p.v 1 = v0 + Kernel.polyFrom o.x 1 vtrend := by
    rw [hv]
    have := polySum_eq_polyFrom o.x (v0 :: vtrend) 0
    simp only [pow_zero] at this
    rw [this]; simp [Kernel.polyFrom]
  have h2 : offsetOf p.dv o.label = Kernel.offsetOf p.dv o.label := by
    cases o.label <;> rfl
  rw [h1, h2]
  simp only [realFn_cos, realFn_trueAnom]
  ring

/-- the pymc model's Gaussian data term, as a multivariate normal with diagonal covariance `σ² + s²` -/
theorem dataTerm_eq_lnN (ta : ℝ → ℝ → ℝ) (p : Par ℝ) (rv : Par ℝ → Obs ℝ → ℝ) :
    ∀ {n : ℕ} (obs : Fin n → Obs ℝ), (∀ i, 0 < (obs i).sigma) →
    dataTerm (realFn ta) p rv (List.ofFn obs) =
      Kernel.lnN (fun i => (obs i).y) (fun i => rv p (obs i)) (diagonal fun i => (obs i).sigma ^ 2 + p.s ^ 2) := by
  intro n obs hs
  have hv : ∀ i, 0 < (obs i).sigma ^ 2 + p.s ^ 2 := fun i => by
    have := pow_pos (hs i) 2; positivity
  rw [lnN_diagonal _ _ _ hv]
  clear hv hs
  induction n with
  | zero => simp [dataTerm]
  | succ n ih =>
    rw [List.ofFn_succ, Fin.sum_univ_succ]
    simp only [dataTerm]
    rw [ih (fun i => obs i.succ)]
    simp only [lnNormalVar, realFn_log, realFn_pi, pow_two]

/-- **the chain's joint density factorises into the sampler's posterior.**  Take any kernel input `x` whose design
matrix rows are the design rows of the epochs `obs i` at the nonlinear parameters of `p` (what `design_matrix`
builds, C04/C08) and whose `y`, `σ`, jitter are those of the pymc model; let `xl` be `p`'s linear parameters in
design-column order.  Then for every such point

  `ln p_mcmc(y | p) + ln N(xl | μ, Λ) = marginal ln-likelihood of the sampler (C01) + ln N(xl | a, A)` (C03):

the density the MCMC chain explores, with the linear parameters' Normal prior, is exactly (marginal posterior of the
nonlinear parameters that rejection sampling targets) × (conditional posterior the linear parameters are drawn from). -/
theorem mcmc_joint_eq_sampler_marginal_times_conditional {n k : ℕ} (ta : ℝ → ℝ → ℝ) (p : Par ℝ)
    (v0 : ℝ) (vtrend : List ℝ) (obs : Fin n → Obs ℝ) (x : Kernel.KIn n k ℝ) (xl : Fin k → ℝ)
    (hph : Kernel.Phys x (fun i => (obs i).sigma))
    (hv : p.v = v0 :: vtrend) (hl : ∀ i, (obs i).label ≤ p.dv.length) (hP : p.P ≠ 0)
    (hy : ∀ i, vfun x.y i = (obs i).y) (hs : x.s = p.s)
    (hM : ∀ i, List.ofFn (x.M.toM i) =
      Kernel.designRow (kepTerm ta p (obs i).x) (obs i).x (obs i).label p.dv.length (vtrend.length + 1))
    (hxl : List.ofFn xl = p.K :: v0 :: (p.dv ++ vtrend)) :
    dataTerm (realFn ta) p (mcmcRV (realFn ta)) (List.ofFn obs) + Kernel.lnN xl (vfun x.mu) (diagonal (vfun x.lam))
      = Kernel.kll x + Kernel.lnN xl (vfun (Kernel.ka x)) (Kernel.kA x).toM := by
  rw [dataTerm_eq_lnN ta p _ obs hph.sig_pos, ← hs, Kernel.bayes_identity x _ hph xl]
  have hmean : (fun i => mcmcRV (realFn ta) p (obs i)) = x.M.toM *ᵥ xl := by
    funext i
    rw [mcmc_rv_eq_design_row ta p v0 vtrend (obs i) hv (hl i) hP, ← hM i, ← hxl, rowDot_ofFn]
    rfl
  have hyy : (fun i => (obs i).y) = vfun x.y := funext fun i => (hy i).symm
  rw [hmean, hyy]
  abel

/-! ### non-vacuity -/
/-! non-vacuity of the factorisation theorem's hypotheses: one epoch, `(K, v0)`, circular orbit -/
noncomputable def exP : Par ℝ := ⟨1, 0, 0, 0, 1, 3, [2], []⟩
noncomputable def exObs : Fin 1 → Obs ℝ := fun _ => ⟨0, 0, 5, 1⟩
noncomputable def exK : Kernel.KIn 1 2 ℝ :=
  { M := .ofFn fun _ _ => 1, y := #v[5], ivar := #v[1], s := 1, mu := #v[0, 0], lam := #v[1, 1] }

example : Kernel.Phys exK (fun i => (exObs i).sigma) ∧ exP.v = 2 :: [] ∧ (∀ i, (exObs i).label ≤ exP.dv.length)
    ∧ exP.P ≠ 0 ∧ (∀ i, vfun exK.y i = (exObs i).y) ∧ exK.s = exP.s
    ∧ (∀ i, List.ofFn (exK.M.toM i) =
        Kernel.designRow (kepTerm (fun _ _ => 0) exP (exObs i).x) (exObs i).x (exObs i).label exP.dv.length (([] : List ℝ).length + 1))
    ∧ List.ofFn ![(3 : ℝ), 2] = exP.K :: 2 :: (exP.dv ++ []) := by
  refine ⟨⟨?_, ?_, ?_⟩, rfl, ?_, ?_, ?_, rfl, ?_, ?_⟩
  · intro i; simp [exObs]
  · intro i; fin_cases i; simp [exK, exObs, vfun]
  · intro j; fin_cases j <;> simp [exK, vfun]
  · intro i; simp [exObs, exP]
  · simp [exP]
  · intro i; fin_cases i; simp [exK, exObs, vfun]
  · intro i; simp [exK, exObs, exP, kepTerm, Kernel.designRow, List.ofFn_succ]
  · simp [exP]

example : medianIdx [5, 1, 9, 3] = some 0 := by decide
example : medianIdx [5, 1, 9, 3, 7] = some 0 := by decide
example : medianIdx [2, 8, 4] = some 2 := by decide
example : IsOrderStat [5, 1, 9, 3] 2 5 := by decide
example : trend (⟨1, 0, 0, 0, 0, 0, [10, 2, 1], [7, 8]⟩ : Par Int) ⟨3, 2, 0, 0⟩ = 10 + 2 * 3 + 1 * 9 + 8 := by decide
example : ∃ p : Par ℝ, p.P ≠ 0 := ⟨⟨1, 0, 0, 0, 0, 0, [], []⟩, one_ne_zero⟩

end Mcmc

/-! ### call history of `setup_mcmc` on one model -/
namespace Mcmc

/-- **call history.** Whatever sequence of `setup_mcmc` calls is made on one model: if none of them is refused, the
likelihood node of the model was built from the data of *every* one of those calls (so all of them passed the same data) —
a chain run on the model never samples another data set's posterior than the one just given. -/
theorem setup_history_consistent {δ : Type} [DecidableEq δ] :
    ∀ (ds : List δ) (m m' : MState δ), setupCalls m ds = .ok m' →
      (∀ d0, m.obs = some d0 → m'.obs = some d0) ∧ ∀ d ∈ ds, m'.obs = some d := by
  intro ds
  induction ds with
  | nil =>
    intro m m' h
    simp only [setupCalls, Except.ok.injEq] at h
    subst h
    exact ⟨fun _ h => h, by simp⟩
  | cons d ds ih =>
    intro m m' h
    simp only [setupCalls] at h
    cases hc : setupCall m d with
    | error e => rw [hc] at h; cases h
    | ok m1 =>
      rw [hc] at h
      obtain ⟨hkeep, hall⟩ := ih m1 m' h
      have h1 : m1.obs = some d ∧ ∀ d0, m.obs = some d0 → m1.obs = some d0 := by
        unfold setupCall at hc
        cases ho : m.obs with
        | none =>
          rw [ho] at hc; simp only [Except.ok.injEq] at hc; subst hc
          exact ⟨rfl, by intro d0 h0; cases h0⟩
        | some d0 =>
          rw [ho] at hc
          by_cases hd : d0 = d
          · simp only [hd, if_true, Except.ok.injEq] at hc; subst hc
            exact ⟨by rw [ho, hd], fun d1 h1 => by rw [ho]; exact h1⟩
          · simp [hd] at hc
      refine ⟨fun d0 h0 => hkeep d0 (h1.2 d0 h0), ?_⟩
      intro x hx
      rcases List.mem_cons.mp hx with rfl | hx
      · exact hkeep _ h1.1
      · exact hall x hx

/-! ## the initial point handed to pymc, and the reference epoch of the samples -/

/-- the default angles (`pymc_ext.angle`) are `arctan2(x1, x2)` of two free variables: started at
`(sin θ, cos θ)` they give back the chosen sample's angle, for every angle in `(−π, π]` exactly … -/
theorem start_angle_recovered (θ : ℝ) (h : θ ∈ Set.Ioc (-Real.pi) Real.pi) :
    Complex.arg (Real.cos θ + Real.sin θ * Complex.I) = θ := by
  rw [Complex.ofReal_cos, Complex.ofReal_sin]
  exact Complex.arg_cos_add_sin_mul_I h

/-- … and for every real `θ` (a sample's `M0 ∈ [0, 2π)`) up to a multiple of `2π`, i.e. the same orbit -/
theorem start_angle_recovered_mod (θ : ℝ) :
    ((Complex.arg (Real.cos θ + Real.sin θ * Complex.I) : ℝ) : Real.Angle) = (θ : Real.Angle) := by
  simpa using Complex.arg_cos_add_sin_mul_I_coe_angle (θ : Real.Angle)

/-- the same `M0` read about another reference epoch: the mean anomaly at every epoch `t` moves by `2π (r − r') / P`;
a point that is to describe the same orbit about `r'` needs `M0 + 2π (r − r') / P` -/
theorem epoch_shift (F : Fn ℝ) (P M0 t r r' : ℝ) (hP : P ≠ 0) :
    samplerMeanAnomaly F P M0 (t - r) = samplerMeanAnomaly F P (M0 + 2 * F.pi * (r - r') / P) (t - r') := by
  unfold samplerMeanAnomaly; field_simp; ring

/-- copying `M0` verbatim to a model built about another epoch changes the phase of every epoch by
`2π (r' − r) / P ≠ 0`: `setup_mcmc` must refuse such samples (or shift `M0`) -/
theorem verbatim_M0_other_epoch_differs (ta : ℝ → ℝ → ℝ) (P M0 t r r' : ℝ) (hP : P ≠ 0) (hr : r ≠ r') :
    samplerMeanAnomaly (realFn ta) P M0 (t - r') - samplerMeanAnomaly (realFn ta) P M0 (t - r) = 2 * Real.pi * (r - r') / P ∧
    samplerMeanAnomaly (realFn ta) P M0 (t - r') ≠ samplerMeanAnomaly (realFn ta) P M0 (t - r) := by
  have h1 : samplerMeanAnomaly (realFn ta) P M0 (t - r') - samplerMeanAnomaly (realFn ta) P M0 (t - r) = 2 * Real.pi * (r - r') / P := by
    unfold samplerMeanAnomaly realFn; field_simp; ring
  refine ⟨h1, fun h => ?_⟩
  rw [h, sub_self] at h1
  have : 2 * Real.pi * (r - r') = 0 := by
    have := h1.symm
    rwa [div_eq_zero_iff, or_iff_left hP] at this
  rcases mul_eq_zero.mp this with h2 | h2
  · exact (mul_ne_zero two_ne_zero Real.pi_ne_zero) h2
  · exact hr (sub_eq_zero.mp h2)

example : (0.5 : ℝ) ∈ Set.Ioc (-Real.pi) Real.pi := by
  constructor <;> linarith [Real.pi_gt_three]

/-- a call with other data than the model was set up for is refused -/
theorem setup_other_data_refused {δ : Type} [DecidableEq δ] (d0 d : δ) (h : d0 ≠ d) :
    setupCall (⟨some d0⟩ : MState δ) d = .error () := by
  simp [setupCall, h]

example : (match setupCalls (⟨none⟩ : MState Nat) [3, 3, 3] with | .ok m => m.obs | .error _ => none) = some 3 := by decide
example : (match setupCalls (⟨none⟩ : MState Nat) [3, 4] with | .ok _ => true | .error _ => false) = false := by decide
end Mcmc
