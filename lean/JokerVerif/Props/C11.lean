/-! # C11 — property theorems (to be filled in) -/
