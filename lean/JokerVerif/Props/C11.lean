import JokerVerif.Lemmas.McmcLemmas
/-!
# C11 — MCMC continuation targets the same model and posterior

Property theorems only, over `ℝ` (for every true-anomaly function `ta`, i.e. whatever Kepler solver is used, as
long as both models call the same one), for all parameter values, epochs, trend orders and numbers of offsets.
-/
namespace Mcmc

/-- for any parameter values and any epoch the pymc model predicts the sampler's radial velocity: same phase
(`(x − P M0/2π)·2π/P = 2πx/P − M0`), same reference epoch (`x = t − t_ref`), `cos(ω+f)` expanded, same trend
matrix function, same offset columns -/
theorem mcmc_rv_eq_sampler_rv (ta : ℝ → ℝ → ℝ) (p : Par ℝ) (o : Obs ℝ) (hP : p.P ≠ 0) :
    mcmcRV (realFn ta) p o = samplerRV (realFn ta) p o := by
  unfold mcmcRV samplerRV
  simp only [meanAnomaly_eq ta p.P p.M0 o.x hP, realFn_cos, realFn_sin, realFn_trueAnom, Real.cos_add]

/-- in the declared units: converting the prior's units to internal ones first, the two models still agree -/
theorem mcmc_rv_eq_sampler_rv_declared (ta : ℝ → ℝ → ℝ) (u : Units ℝ) (p : Par ℝ) (o : Obs ℝ)
    (hP : u.cP * p.P ≠ 0) :
    mcmcRV (realFn ta) (toInternal u p) o = samplerRV (realFn ta) (toInternal u p) o :=
  mcmc_rv_eq_sampler_rv ta (toInternal u p) o hP

/-- hence the Gaussian data terms coincide on every data set -/
theorem dataTerm_eq (ta : ℝ → ℝ → ℝ) (p : Par ℝ) (obs : List (Obs ℝ)) (hP : p.P ≠ 0) :
    dataTerm (realFn ta) p (mcmcRV (realFn ta)) obs = dataTerm (realFn ta) p (samplerRV (realFn ta)) obs := by
  induction obs with
  | nil => rfl
  | cons o os ih => simp only [dataTerm, ih, mcmc_rv_eq_sampler_rv ta p o hP]

/-- `logp = ln prior(declared densities) + ln N(y | rv, σ² + s²)`; the stored `ln_likelihood` is that Gaussian
term; the stored `ln_prior = logp − ln_likelihood` is the prior term -/
theorem mcmc_logp_decomposition (lnPrior data : ℝ) :
    (diagnostics lnPrior data).logp = lnPrior + data ∧
    (diagnostics lnPrior data).lnLikelihood = data ∧
    (diagnostics lnPrior data).lnPrior = lnPrior := by
  refine ⟨rfl, rfl, ?_⟩
  simp [diagnostics]

/-- the density the chain targets is prior × Gaussian likelihood of the *sampler's* model -/
theorem logDensity_targets_sampler_posterior (ta : ℝ → ℝ → ℝ) (lnPrior : Par ℝ → Option ℝ) (u : Units ℝ)
    (obs : List (Obs ℝ)) (p : Par ℝ) (hP : u.cP * p.P ≠ 0) :
    logDensity (realFn ta) lnPrior u obs p =
      (lnPrior p).map (· + dataTerm (realFn ta) (toInternal u p) (samplerRV (realFn ta)) obs) := by
  unfold logDensity
  rw [dataTerm_eq ta (toInternal u p) obs hP]

/-- the data term is the sum of `ln N(y_i | rv_i, σ_i² + s²)`: jitter enters the variance -/
theorem dataTerm_cons (F : Fn ℝ) (p : Par ℝ) (rv : Par ℝ → Obs ℝ → ℝ) (o : Obs ℝ) (os : List (Obs ℝ)) :
    dataTerm F p rv (o :: os) =
      (-((o.y - rv p o) * (o.y - rv p o)) / (2 * (o.sigma * o.sigma + p.s * p.s))
        - F.log (2 * F.pi * (o.sigma * o.sigma + p.s * p.s)) / 2) + dataTerm F p rv os := rfl

/-- with several samples the initial point exists, is an actual member row, and its period is the `⌊N/2⌋`-th order
statistic of the periods; it is returned through the unit conversion `conv` (prior units) -/
theorem init_is_median_period_row {ρ : Type} (rows : List ρ) (period : ρ → ℝ) (conv : ρ → ρ) (hne : rows ≠ []) :
    ∃ (i : Nat) (hi : i < rows.length), initPoint rows period conv = some (conv rows[i]) ∧
      IsOrderStat (rows.map period) (rows.length / 2) (period rows[i]) := by
  have hne' : rows.map period ≠ [] := by simpa using hne
  obtain ⟨i, hi⟩ := medianIdx_isSome (rows.map period) hne'
  obtain ⟨hlt, hstat⟩ := medianIdx_spec (rows.map period) i hi
  have hlt' : i < rows.length := by simpa using hlt
  refine ⟨i, hlt', ?_, ?_⟩
  · simp [initPoint, hi, List.getElem?_eq_getElem hlt']
  · simpa using hstat

/-- the order statistic is unique: any two admissible choices have the same period -/
theorem median_period_unique (ps : List ℝ) (x y : ℝ) (hx : IsOrderStat ps (ps.length / 2) x)
    (hy : IsOrderStat ps (ps.length / 2) y) : x = y :=
  orderStat_unique ps _ x y hx hy

/-- a single sample is its own initial point -/
theorem init_single {ρ : Type} (r : ρ) (period : ρ → ℝ) (conv : ρ → ρ) : initPoint [r] period conv = some (conv r) := by
  obtain ⟨i, hi, h, _⟩ := init_is_median_period_row [r] period conv (by simp)
  have : i = 0 := by simpa using hi
  subst this
  simpa using h

/-! ### non-vacuity -/
example : medianIdx [5, 1, 9, 3] = some 0 := by decide
example : medianIdx [5, 1, 9, 3, 7] = some 0 := by decide
example : medianIdx [2, 8, 4] = some 2 := by decide
example : IsOrderStat [5, 1, 9, 3] 2 5 := by decide
example : trend (⟨1, 0, 0, 0, 0, 0, [10, 2, 1], [7, 8]⟩ : Par Int) ⟨3, 2, 0, 0⟩ = 10 + 2 * 3 + 1 * 9 + 8 := by decide
example : ∃ p : Par ℝ, p.P ≠ 0 := ⟨⟨1, 0, 0, 0, 0, 0, [], []⟩, one_ne_zero⟩

end Mcmc
