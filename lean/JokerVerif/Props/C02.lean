import JokerVerif.Props.C01
import JokerVerif.Lemmas.RejectLemmas
import Mathlib.MeasureTheory.Measure.Lebesgue.Basic
import Mathlib.Analysis.SpecialFunctions.Log.Basic
import Mathlib.Analysis.SpecialFunctions.Log.ERealExp
import Mathlib.Data.EReal.Operations
/-!
# C02 — the rejection step keeps prior sample `i` with probability `L_i / L_max`, unaltered

Property theorems only (model: `Model/Reject.lean`, lemmas: `Lemmas/RejectLemmas.lean`).  All statements are
for every library, every option combination, every recorded draw of the generator (`idx`, `uu`), every
likelihood function `llf`, every `expf` — no bound on sizes.  `out` is what `Reject.rejectionSample` returns.
-/
set_option linter.unusedSectionVars false
namespace Reject

section Generic
variable {α ρ : Type} [LT α] [DecidableLT α] [Sub α] [Max α]

/-- Before truncation, position `p` (in evaluation order) is accepted **iff** its own uniform draw is below
`expf (ll_p − max_j ll_j)`. -/
theorem accept_iff (expf : α → α) (lls uu : List α) (p : Nat) :
    p ∈ goodPos expf lls uu ↔
      ∃ m l u, maxOf lls = some m ∧ lls[p]? = some l ∧ uu[p]? = some u ∧ u < expf (l - m) :=
  mem_goodPos expf lls uu p

/-- … and this mask, over the likelihoods of exactly the evaluated rows and one uniform per evaluated row, is
what the sampler uses: `good` is the (truncated) mask of `allLls` against `uu`, and `allLls[t]` is the
likelihood of library row `evalRows[t]`. -/
theorem sample_uses_rule {expf : α → α} {llf : ρ → α} {lib : List (LibRow ρ α)} {o : Opts}
    {idx : Option (List Nat)} {uu : List α} {out : Out ρ α}
    (h : rejectionSample expf llf lib o idx uu = .ok out) :
    out.good = truncate o.maxPost (goodPos expf out.allLls uu) ∧ uu.length = out.allLls.length ∧
    gather (lib.map (fun r => llf r.nonlin)) out.evalRows = some out.allLls := by
  obtain ⟨_, _, evRows, hev, hlen, hasm⟩ := rejectionSample_ok h
  obtain ⟨h1, h2, h3, _, _⟩ := assemble_attached llf hev hasm
  refine ⟨by rw [h3, h2], by rw [h2]; simpa using hlen, ?_⟩
  rw [h1, h2, gather_map, hev]; rfl

/-- A sample whose likelihood is "−∞" is never accepted: for any element `bot` absorbing under subtraction with
`expf bot = z` and no uniform below `z` (`z = 0`, `u ≥ 0`). -/
theorem neg_inf_never_accepted (expf : α → α) (bot z : α) (hb : ∀ m, bot - m = bot) (he : expf bot = z)
    (lls uu : List α) (hu : ∀ u ∈ uu, ¬ u < z) (p : Nat) (hp : lls[p]? = some bot) :
    p ∉ goodPos expf lls uu := by
  intro hmem
  obtain ⟨m, l, u, _, hl, hu', hc⟩ := (accept_iff expf lls uu p).mp hmem
  rw [hp] at hl
  simp only [Option.some.injEq] at hl
  subst hl
  rw [hb, he] at hc
  exact hu u (List.mem_of_getElem? hu') hc

/-- Truncation: `max_posterior_samples = k` keeps the **first** `k` accepted positions (`none`: all of them);
`n_prior_samples = N` evaluates exactly rows `0..N−1`, or the first `N` entries of the drawn permutation. -/
theorem truncation_first_accepted {expf : α → α} {llf : ρ → α} {lib : List (LibRow ρ α)} {o : Opts}
    {idx : Option (List Nat)} {uu : List α} {out : Out ρ α}
    (h : rejectionSample expf llf lib o idx uu = .ok out) :
    (∀ k, o.maxPost = some k → out.good = (goodPos expf out.allLls uu).take k) ∧
    (o.maxPost = none → out.good = goodPos expf out.allLls uu) ∧
    (idx = none → out.evalRows = List.range (o.nPrior.getD lib.length)) ∧
    (∀ ix, idx = some ix → out.evalRows = ix.take (o.nPrior.getD lib.length)) ∧
    out.evalRows.length = o.nPrior.getD lib.length ∧ o.nPrior.getD lib.length ≤ lib.length := by
  obtain ⟨hg, _, _⟩ := sample_uses_rule h
  obtain ⟨hn, hol, evRows, hev, _, hasm⟩ := rejectionSample_ok h
  obtain ⟨h1, _⟩ := assemble_attached llf hev hasm
  refine ⟨?_, ?_, ?_, ?_, by rw [h1]; exact hol, hn⟩
  · intro k hk; rw [hg, hk]; rfl
  · intro hk; rw [hg, hk]; rfl
  · intro hi; rw [h1, hi]; rfl
  · intro ix hi; rw [h1, hi]; rfl

/-- asking for more prior samples than the library holds is refused (`ValueError`) -/
theorem too_many_prior_samples_raises (expf : α → α) (llf : ρ → α) (lib : List (LibRow ρ α)) (o : Opts)
    (idx : Option (List Nat)) (uu : List α) (n : Nat) (hn : o.nPrior = some n) (h : lib.length < n) :
    rejectionSample expf llf lib o idx uu = .error .value := by
  unfold rejectionSample
  simp [hn, h]

/-- Returned rows are library rows, unmodified, in evaluation order, never duplicated or invented:
* the nonlinear block of the returned rows is `lib[full]`, each repeated `n_linear_samples` times;
* `full = evalRows[good]` with `good` strictly increasing positions of the evaluation order, hence `full` is a
  sub-sequence of the evaluated rows;
* without shuffling `full = good` is strictly increasing; with a duplicate-free permutation `full` has no
  duplicates. -/
theorem rows_are_library_rows {expf : α → α} {llf : ρ → α} {lib : List (LibRow ρ α)} {o : Opts}
    {idx : Option (List Nat)} {uu : List α} {out : Out ρ α}
    (h : rejectionSample expf llf lib o idx uu = .ok out) :
    (∃ recs, gather lib out.full = some recs ∧ out.rows = rep o.nLinear (recs.map (·.nonlin))) ∧
    gather out.evalRows out.good = some out.full ∧ out.good.Pairwise (· < ·) ∧
    out.full.Sublist out.evalRows ∧
    (idx = none → out.full = out.good ∧ out.full.Pairwise (· < ·)) ∧
    (out.evalRows.Nodup → out.full.Nodup) := by
  obtain ⟨hg, _, _⟩ := sample_uses_rule h
  obtain ⟨_, _, evRows, hev, _, hasm⟩ := rejectionSample_ok h
  obtain ⟨h1, _, h3, hfull, recs, hrecs, _, hrows, _, _⟩ := assemble_attached llf hev hasm
  have hpw : out.good.Pairwise (· < ·) := by
    rw [hg]; exact truncate_pairwise _ (goodPos_pairwise expf _ _)
  have hfull' : gather out.evalRows out.good = some out.full := by rw [h1, h3]; exact hfull
  refine ⟨⟨recs, hrecs, hrows⟩, hfull', hpw, gather_sublist _ _ _ _ rfl hpw hfull', ?_, ?_⟩
  · intro hi
    have : out.full = out.good := by
      rw [h1, hi] at hfull'
      exact gather_range_self hfull'
    exact ⟨this, this ▸ hpw⟩
  · intro hnd
    exact gather_nodup hnd (pairwise_lt_nodup hpw) hfull'

/-- In the valid domain the sampler does not fail: `n_prior_samples ≤ |library|`, a recorded permutation of
valid rows of sufficient length, one uniform per evaluated row. -/
theorem rejectionSample_total (expf : α → α) (llf : ρ → α) (lib : List (LibRow ρ α)) (o : Opts)
    (idx : Option (List Nat)) (uu : List α) (hn : o.nPrior.getD lib.length ≤ lib.length)
    (hidx : ∀ ix, idx = some ix → o.nPrior.getD lib.length ≤ ix.length ∧ ∀ j ∈ ix, j < lib.length)
    (hu : uu.length = o.nPrior.getD lib.length) :
    ∃ out, rejectionSample expf llf lib o idx uu = .ok out := by
  have hol : (evalOrder (o.nPrior.getD lib.length) idx).length = o.nPrior.getD lib.length := by
    cases idx with
    | none => simp [evalOrder]
    | some ix => simp [evalOrder]; exact (hidx ix rfl).1
  have hlt : ∀ j ∈ evalOrder (o.nPrior.getD lib.length) idx, j < lib.length := by
    cases idx with
    | none => intro j hj; simp [evalOrder] at hj; omega
    | some ix => intro j hj; exact (hidx ix rfl).2 j (List.mem_of_mem_take hj)
  obtain ⟨evRows, hev⟩ := gather_isSome_of_lt hlt
  have hel : evRows.length = o.nPrior.getD lib.length := by rw [gather_length hev, hol]
  obtain ⟨out, hout⟩ := assemble_isSome (ρ := ρ) (lib := lib)
    (order := evalOrder (o.nPrior.getD lib.length) idx) (lls := evRows.map (fun r => llf r.nonlin))
    (good := truncate o.maxPost (goodPos expf (evRows.map (fun r => llf r.nonlin)) uu)) o.nLinear
    (by
      intro p hp
      have := (goodPos_lt expf _ _ p (mem_of_mem_truncate hp)).1
      simpa [hol, hel] using this)
    hlt (by simp [hol, hel])
  refine ⟨out, ?_⟩
  unfold rejectionSample
  simp [Nat.not_lt.mpr hn, hev, hol, hu, hel, hout]

end Generic

/-! ### with a lawful order -/
section Ordered
variable {α ρ : Type} [Field α] [LinearOrder α]

/-- the normaliser really is the maximum of the evaluated likelihoods -/
theorem max_is_max {lls : List α} {m : α} (h : maxOf lls = some m) : (∀ l ∈ lls, l ≤ m) ∧ m ∈ lls :=
  maxOf_spec h

/-- The best sample always survives: with `expf 0 = 1` and every uniform `< 1`, **every** position holding the
maximum likelihood is accepted. -/
theorem best_always_survives (expf : α → α) (h0 : expf 0 = 1) (lls uu : List α) (hlen : uu.length = lls.length)
    (hu : ∀ u ∈ uu, u < 1) (m : α) (hm : maxOf lls = some m) (p : Nat) (hp : lls[p]? = some m) :
    p ∈ goodPos expf lls uu := by
  have hpl : p < uu.length := hlen ▸ (List.getElem?_eq_some_iff.mp hp).1
  refine (accept_iff expf lls uu p).mpr ⟨m, m, uu[p], hm, hp, by simp [hpl], ?_⟩
  rw [sub_self, h0]
  exact hu _ (List.getElem_mem hpl)

/-- corollary: a non-empty evaluation always accepts something … -/
theorem accepted_nonempty (expf : α → α) (h0 : expf 0 = 1) (lls uu : List α) (hlen : uu.length = lls.length)
    (hu : ∀ u ∈ uu, u < 1) (hne : lls ≠ []) : goodPos expf lls uu ≠ [] := by
  obtain ⟨m, hm⟩ := maxOf_isSome hne
  obtain ⟨p, hp⟩ := List.getElem?_of_mem (maxOf_spec hm).2
  exact List.ne_nil_of_mem (best_always_survives expf h0 lls uu hlen hu m hm p hp)

/-- … so the sampler's result is non-empty (library non-empty, `n_prior_samples ≠ 0`,
`max_posterior_samples ≠ 0`, `n_linear_samples ≥ 1`). -/
theorem result_nonempty {expf : α → α} (h0 : expf 0 = 1) {llf : ρ → α} {lib : List (LibRow ρ α)} {o : Opts}
    {idx : Option (List Nat)} {uu : List α} {out : Out ρ α}
    (h : rejectionSample expf llf lib o idx uu = .ok out) (hu : ∀ u ∈ uu, u < 1)
    (hN : 0 < o.nPrior.getD lib.length) (hk : o.maxPost ≠ some 0) (hl : 0 < o.nLinear) :
    out.rows ≠ [] := by
  obtain ⟨hg, hlen, _⟩ := sample_uses_rule h
  obtain ⟨⟨recs, hrecs, hrows⟩, hfull, _⟩ := rows_are_library_rows h
  obtain ⟨_, _, _, _, hel, _⟩ := truncation_first_accepted h
  have hne : out.allLls ≠ [] := by
    intro hnil
    have : out.evalRows.length = out.allLls.length := by
      obtain ⟨_, _, hgath⟩ := sample_uses_rule h
      exact (gather_length hgath).symm
    rw [hnil, hel] at this
    simp at this; omega
  have hacc := accepted_nonempty expf h0 out.allLls uu hlen hu hne
  have hgood : out.good ≠ [] := by
    rw [hg]
    cases hmp : o.maxPost with
    | none => exact hacc
    | some k =>
      have : k ≠ 0 := fun hk0 => hk (by rw [hmp, hk0])
      simp only [truncate]
      intro hnil
      rcases List.take_eq_nil_iff.mp hnil with h | h
      · exact this h
      · exact hacc h
  have hfl : out.full ≠ [] := by
    intro hnil
    have := gather_length hfull
    rw [hnil] at this
    exact hgood (List.length_eq_zero_iff.mp this.symm)
  have hrl : recs ≠ [] := by
    intro hnil
    have := gather_length hrecs
    rw [hnil] at this
    exact hfl (List.length_eq_zero_iff.mp this.symm)
  rw [hrows]
  intro hnil
  rw [rep_eq_nil_iff hl] at hnil
  exact hrl (List.map_eq_nil_iff.mp hnil)

end Ordered

/-! ### probability of survival (ℝ, Lebesgue measure of the acceptance interval) -/
section Probability
open MeasureTheory

/-- the threshold the code computes from the two likelihoods: `exp(ln L_i − ln L_max)`, with `exp(−∞) = 0` -/
noncomputable def threshold (Li Lmax : ℝ) : ℝ :=
  if Li = 0 then 0 else Real.exp (Real.log Li - Real.log Lmax)

theorem threshold_eq_ratio (Li Lmax : ℝ) (h0 : 0 ≤ Li) (hpos : 0 < Lmax) : threshold Li Lmax = Li / Lmax := by
  unfold threshold
  split
  · rename_i h; simp [h]
  · rename_i h
    have hLi : 0 < Li := lt_of_le_of_ne h0 (Ne.symm h)
    rw [Real.exp_sub, Real.exp_log hLi, Real.exp_log hpos]

/-- With `u` uniform on `[0,1)`, sample `i` survives with probability exactly `L_i / L_max`:
the set of draws for which `exp(ll_i − ll_max) > u` has Lebesgue measure `L_i / L_max`
(`0 ≤ L_i ≤ L_max`, `0 < L_max`; `L_i = 0` is the `−inf` case). -/
theorem accept_probability (Li Lmax : ℝ) (h0 : 0 ≤ Li) (h1 : Li ≤ Lmax) (hpos : 0 < Lmax) :
    volume {u : ℝ | u ∈ Set.Ico (0 : ℝ) 1 ∧ u < threshold Li Lmax} = ENNReal.ofReal (Li / Lmax) := by
  rw [threshold_eq_ratio Li Lmax h0 hpos]
  have hle : Li / Lmax ≤ 1 := (div_le_one hpos).mpr h1
  have : {u : ℝ | u ∈ Set.Ico (0 : ℝ) 1 ∧ u < Li / Lmax} = Set.Ico 0 (Li / Lmax) := by
    ext u
    simp only [Set.mem_ofPred_eq, Set.mem_Ico]
    constructor
    · rintro ⟨⟨hu0, _⟩, hu⟩; exact ⟨hu0, hu⟩
    · rintro ⟨hu0, hu⟩; exact ⟨⟨hu0, lt_of_lt_of_le hu hle⟩, hu⟩
  rw [this, Real.volume_Ico]
  simp

/-- the same in log form, as the code evaluates it: for `ll_i ≤ ll_max` the acceptance set
`{u ∈ [0,1) | u < exp(ll_i − ll_max)}` has measure `exp ll_i / exp ll_max` -/
theorem accept_probability_log (lli llmax : ℝ) (h : lli ≤ llmax) :
    volume {u : ℝ | u ∈ Set.Ico (0 : ℝ) 1 ∧ u < Real.exp (lli - llmax)} =
      ENNReal.ofReal (Real.exp lli / Real.exp llmax) := by
  have := accept_probability (Real.exp lli) (Real.exp llmax) (Real.exp_pos _).le (Real.exp_le_exp.mpr h)
    (Real.exp_pos _)
  simpa [threshold, (Real.exp_pos lli).ne'] using this

/-- the maximum-likelihood sample survives with probability one -/
theorem best_survives_with_probability_one (Lmax : ℝ) (hpos : 0 < Lmax) :
    volume {u : ℝ | u ∈ Set.Ico (0 : ℝ) 1 ∧ u < threshold Lmax Lmax} = 1 := by
  rw [accept_probability Lmax Lmax hpos.le le_rfl hpos, div_self hpos.ne']
  simp

/-- **joint law of the accepted set.**  `N` evaluated samples with acceptance thresholds `r i ∈ [0,1]`
(`r i = L_i / L_max`), one uniform per sample: the set of draws `uu ∈ [0,1)^N` for which the accepted set is
exactly `S` has (product Lebesgue) measure `∏_{i ∈ S} r_i · ∏_{i ∉ S} (1 − r_i)` — the samples are kept
independently of each other, each with its own probability. -/
theorem accepted_set_law {N : ℕ} (r : Fin N → ℝ) (h0 : ∀ i, 0 ≤ r i) (h1 : ∀ i, r i ≤ 1) (S : Finset (Fin N)) :
    volume {uu : Fin N → ℝ | (∀ i, uu i ∈ Set.Ico (0 : ℝ) 1) ∧ ∀ i, (i ∈ S ↔ uu i < r i)} =
      ∏ i, ENNReal.ofReal (if i ∈ S then r i else 1 - r i) := by
  have hset : {uu : Fin N → ℝ | (∀ i, uu i ∈ Set.Ico (0 : ℝ) 1) ∧ ∀ i, (i ∈ S ↔ uu i < r i)} =
      Set.pi Set.univ fun i => Set.Ico (if i ∈ S then 0 else r i) (if i ∈ S then r i else 1) := by
    ext uu
    simp only [Set.mem_ofPred_eq, Set.mem_pi, Set.mem_univ, true_implies, Set.mem_Ico]
    constructor
    · rintro ⟨hu, hS⟩ i
      by_cases hi : i ∈ S
      · simp only [hi, if_true]; exact ⟨(hu i).1, (hS i).mp hi⟩
      · simp only [hi, if_false]; exact ⟨not_lt.mp (fun h => hi ((hS i).mpr h)), (hu i).2⟩
    · intro h
      refine ⟨fun i => ?_, fun i => ?_⟩
      · have := h i
        by_cases hi : i ∈ S
        · simp only [hi, if_true] at this; exact ⟨this.1, lt_of_lt_of_le this.2 (h1 i)⟩
        · simp only [hi, if_false] at this; exact ⟨le_trans (h0 i) this.1, this.2⟩
      · have := h i
        by_cases hi : i ∈ S
        · simp only [hi, if_true] at this; simp [hi, this.2]
        · simp only [hi, if_false] at this; simp [hi, not_lt.mpr this.1]
  rw [hset, Real.volume_pi_Ico]
  apply Finset.prod_congr rfl
  intro i _
  by_cases hi : i ∈ S <;> simp [hi]

/-- the same for the sampler's own mask `goodPos` over the log-likelihoods `ll` with maximum `m`: the accepted set
is `S` with probability `∏_{i ∈ S} L_i/L_max · ∏_{i ∉ S} (1 − L_i/L_max)` -/
theorem sampler_accepted_set_law {N : ℕ} (ll : Fin N → ℝ) (m : ℝ) (hm : maxOf (List.ofFn ll) = some m)
    (S : Finset (Fin N)) :
    volume {uu : Fin N → ℝ | (∀ i, uu i ∈ Set.Ico (0 : ℝ) 1) ∧
        ∀ i : Fin N, (i ∈ S ↔ i.val ∈ goodPos Real.exp (List.ofFn ll) (List.ofFn uu))} =
      ∏ i, ENNReal.ofReal (if i ∈ S then Real.exp (ll i - m) else 1 - Real.exp (ll i - m)) := by
  have hle : ∀ i, ll i ≤ m := fun i => (max_is_max hm).1 (ll i) (by simp [List.mem_ofFn])
  rw [← accepted_set_law (fun i => Real.exp (ll i - m)) (fun i => (Real.exp_pos _).le)
    (fun i => by rw [← Real.exp_zero]; exact Real.exp_le_exp.mpr (by linarith [hle i])) S]
  congr 1
  ext uu
  simp only [Set.mem_ofPred_eq]
  have key : ∀ i : Fin N, (i.val ∈ goodPos Real.exp (List.ofFn ll) (List.ofFn uu)) ↔ uu i < Real.exp (ll i - m) := by
    intro i
    rw [accept_iff]
    constructor
    · rintro ⟨m', l, u, h1, h2, h3, h4⟩
      rw [hm] at h1
      simp only [List.getElem?_ofFn, i.isLt, dite_true, Option.some.injEq] at h2 h3
      cases h1; subst h2; subst h3
      exact h4
    · intro h
      exact ⟨m, ll i, uu i, hm, by simp, by simp, h⟩
  simp only [key]

/-- non-vacuity: two samples, `ll = (0, −1)`, maximum `0` -/
example : maxOf (List.ofFn ![(0 : ℝ), -1]) = some 0 := by
  simp [maxOf, List.ofFn_succ]

end Probability

/-! ### `−inf` likelihoods, concretely over the extended reals -/
section ExtendedReals

/-- `exp` on the extended reals, `exp(−∞) = 0` -/
noncomputable def eexp (x : EReal) : EReal := ((EReal.exp x : ENNReal) : EReal)

/-- a `−inf` likelihood (next to anything else) is never accepted when the uniforms are `≥ 0` -/
theorem neg_inf_never_accepted_ereal (lls uu : List EReal) (hu : ∀ u ∈ uu, 0 ≤ u) (p : Nat)
    (hp : lls[p]? = some ⊥) : p ∉ goodPos eexp lls uu :=
  neg_inf_never_accepted eexp ⊥ 0 EReal.bot_sub (by simp [eexp]) lls uu (fun u hu' => not_lt.mpr (hu u hu')) p hp

end ExtendedReals

/-! ### non-vacuity: a concrete run (library of 4 rows, shuffled order, truncation, 2 linear draws; scalars in
ℤ with thresholds scaled by 10 so that `decide` can evaluate everything) -/
section Examples

def toyExp (x : ℤ) : ℤ := if x = 0 then 10 else if x = -1 then 5 else 1

def toyLib : List (LibRow String ℤ) := [⟨"a", 5⟩, ⟨"b", 6⟩, ⟨"c", 7⟩, ⟨"d", 8⟩]
def toyLL : String → ℤ := fun s => if s = "a" then -3 else if s = "b" then -1 else if s = "c" then -2 else -3

example : (match rejectionSample toyExp toyLL toyLib ⟨some 3, some 2, 2⟩ (some [2, 1, 3, 0]) [7, 9, 0] with
    | .ok out => (out.evalRows, out.good, out.full, out.rows, out.lnPrior, out.lnLike)
    | .error _ => ([], [], [], [], [], [])) =
    ([2, 1, 3], [1, 2], [1, 3], ["b", "b", "d", "d"], [6, 6, 8, 8], [-1, -1, -3, -3]) := by decide

example : ∃ out, rejectionSample toyExp toyLL toyLib ⟨none, none, 1⟩ none [5, 5, 5, 5] = .ok out :=
  rejectionSample_total toyExp toyLL toyLib ⟨none, none, 1⟩ none _ (by decide) (by simp) (by decide)

/-- the hypotheses of `best_always_survives` are satisfiable (ℚ, `expf 0 = 1`, uniforms `< 1`) -/
example : (fun x : ℚ => if x = 0 then (1 : ℚ) else 0) 0 = 1 ∧ ∀ u ∈ [(1 : ℚ) / 2, 0], u < 1 := by
  constructor
  · simp
  · intro u hu; simp at hu; rcases hu with rfl | rfl <;> norm_num

end Examples

end Reject

/-! ### End to end: kernel ∘ rejection rule

Composition of C01 (`Kernel.kernel_ll_eq_lnN`: the kernel's value is the analytic Gaussian marginal) with the
acceptance rule: the sampler keeps prior sample `p` exactly when its uniform draw is below the ratio of the
*analytic* marginal likelihoods `N(y | Mμ, B)_p / max_j N(y | Mμ, B)_j`. -/
namespace Kernel
noncomputable section
open Matrix
open Classical in
theorem sampler_keeps_by_marginal_likelihood_ratio {n k : ℕ}
    (lib : List (KIn n k ℝ × (Fin n → ℝ))) (hphys : ∀ q ∈ lib, Phys q.1 q.2) (uu : List ℝ) (p : Nat) :
    let L : KIn n k ℝ × (Fin n → ℝ) → ℝ := fun q =>
      lnN (vfun q.1.y) (q.1.M.toM *ᵥ vfun q.1.mu)
        (Matrix.diagonal (fun i => (q.2 i) ^ 2) + (q.1.s ^ 2) • (1 : Matrix (Fin n) (Fin n) ℝ)
          + q.1.M.toM * Matrix.diagonal (vfun q.1.lam) * q.1.M.toMᵀ)
    p ∈ Reject.goodPos Real.exp (lib.map fun q => kll q.1) uu ↔
      ∃ m l u, Reject.maxOf (lib.map L) = some m ∧ (lib.map L)[p]? = some l ∧ uu[p]? = some u ∧
        u < Real.exp l / Real.exp m := by
  intro L
  have h : (lib.map fun q => kll q.1) = lib.map L := by
    apply List.map_congr_left
    intro q hq
    exact kernel_ll_eq_lnN q.1 q.2 (hphys q hq)
  rw [h, Reject.accept_iff]
  constructor
  · rintro ⟨m, l, u, hm, hl, hu, hlt⟩
    exact ⟨m, l, u, hm, hl, hu, by rwa [← Real.exp_sub]⟩
  · rintro ⟨m, l, u, hm, hl, hu, hlt⟩
    exact ⟨m, l, u, hm, hl, hu, by rwa [Real.exp_sub]⟩

end
end Kernel
