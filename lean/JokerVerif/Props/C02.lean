/-! # C02 — property theorems (to be filled in) -/
