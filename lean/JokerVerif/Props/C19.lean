import JokerVerif.Lemmas.DiagLemmas
import Mathlib.Data.Rat.Floor
import Mathlib.Algebra.Order.Field.Rat
import Mathlib.Tactic.NormNum
/-!
# C19 — time-sampling diagnostics equal their definitions

Property theorems only.  `α` is any linearly ordered field (in particular `ℚ`, the instance the driver executes,
and `ℝ`); where a floor is needed (`phase`, i.e. `% 1.0`) any `FloorRing`.  Lists are arbitrary (no bound on the
number of observations).  Phases are elements of `[0,1)`.
-/
set_option linter.unusedSectionVars false
namespace Diag

/-! ## MAP_sample -/
section map
variable {β : Type} [LinearOrder β] [Add β]

/-- `MAP_sample`: the index returned is in range, its `ln_prior + ln_likelihood` is ≥ every row's, and it is the
first such row (numpy's tie rule) -/
theorem map_is_argmax (lnPrior lnLike : List β) (i : Nat) (h : mapIndex lnPrior lnLike = some i) :
    ∃ v, (post lnPrior lnLike)[i]? = some v ∧
      (∀ (j : Nat) x, (post lnPrior lnLike)[j]? = some x → x ≤ v) ∧
      ∀ (j : Nat) x, j < i → (post lnPrior lnLike)[j]? = some x → x < v :=
  argmax_spec h

/-- the quantity maximised is the row-wise sum of the two columns -/
theorem post_row (lnPrior lnLike : List β) (j : Nat) (hj : j < lnPrior.length) (hj' : j < lnLike.length) :
    (post lnPrior lnLike)[j]? = some (lnPrior[j] + lnLike[j]) := by
  simp [post, List.getElem?_zipWith, List.getElem?_eq_getElem hj, List.getElem?_eq_getElem hj']

/-- a non-empty table has a MAP row -/
theorem map_defined (lnPrior lnLike : List β) (h1 : lnPrior ≠ []) (h2 : lnLike ≠ []) :
    ∃ i, mapIndex lnPrior lnLike = some i := by
  apply argmax_isSome
  cases lnPrior <;> cases lnLike <;> simp_all [post]
end map

section field
variable {α : Type} [Field α] [LinearOrder α] [IsStrictOrderedRing α]

/-! ## max_phase_gap -/

/-- the definition spelled out: with the phases sorted as `a :: r`, `circGap` is the maximum of the interior
arcs `x[i+1] - x[i]` AND the arc through phase 1 → 0, `a + 1 - last` -/
theorem circGap_is_largest_arc (l : List α) (a : α) (r : List α) (hs : isort l = a :: r) (g : α) :
    circGap l = some g ↔
      g ∈ gaps (a :: r) ++ [a + 1 - (a :: r).getLast (List.cons_ne_nil _ _)] ∧
      ∀ x ∈ gaps (a :: r) ++ [a + 1 - (a :: r).getLast (List.cons_ne_nil _ _)], x ≤ g := by
  unfold circGap; rw [hs, circGaps_eq, maxList_eq_some_iff]

/-- defined exactly when there is at least one observation -/
theorem circGap_defined (l : List α) : circGap l = none ↔ l = [] := circGap_eq_none_iff

/-- the (repaired) implementation formula `concatenate((phase, phase + 1))` computes the definition, for every
phase list -/
theorem maxPhaseGap_eq_circGap (l : List α) : maxPhaseGap l = circGap l := maxPhaseGap_eq_circGap' l

/-- so does the variant `concatenate((phase, phase[:1] + 1))` -/
theorem maxPhaseGapHead_eq_circGap (l : List α) : maxPhaseGapHead l = circGap l := maxPhaseGapHead_eq_circGap' l

/-- the formula of the pinned tree, `concatenate((phase, phase))`, computes the maximum of the interior arcs and
`first - last` instead: the arc through phase 1 → 0 is never considered (this is the defect) -/
theorem maxPhaseGapPinned_misses_wrap (l : List α) (a : α) (r : List α) (hs : isort l = a :: r) :
    maxPhaseGapPinned l = maxList (gaps (a :: r) ++ [a - (a :: r).getLast (List.cons_ne_nil _ _)]) :=
  maxPhaseGapPinned_eq l a r hs

/-- independent of the order of the observations -/
theorem circGap_perm {l l' : List α} (h : l.Perm l') : circGap l = circGap l' := circGap_perm' h

/-- invariant under time reversal of the phase pattern, `φ ↦ frac (-φ)`, including observations at phase 0 -/
theorem circGap_reflect (l : List α) (hl : ∀ φ ∈ l, 0 ≤ φ ∧ φ < 1) :
    circGap (l.map refl) = circGap l := circGap_reflect' l hl

/-- invariant under a common phase shift `φ ↦ frac (φ + c)` -/
theorem circGap_rotate (c : α) (l : List α) (hl : ∀ φ ∈ l, 0 ≤ φ ∧ φ < 1) :
    circGap (l.map (rot c)) = circGap l := circGap_rotate' c l hl

/-- the arcs of the definition make up the whole circle: they sum to 1, for any number of observations ≥ 1 -/
theorem circGaps_total (l : List α) (h : l ≠ []) : (circGaps (isort l)).sum = 1 :=
  circGaps_sum (fun h0 => h (isort_eq_nil.mp h0))

/-- bounds: with `n ≥ 1` observations the largest empty arc is at least `1/n` of the circle (pigeonhole) and at most
the whole circle -/
theorem circGap_bounds (l : List α) (hl : ∀ φ ∈ l, 0 ≤ φ ∧ φ < 1) (g : α) (hg : circGap l = some g) :
    1 ≤ (l.length : α) * g ∧ g ≤ 1 := circGap_bounds' l hl g hg

/-- a single observation leaves the whole circle empty: the gap is exactly 1 -/
theorem circGap_single (φ : α) (hφ : 0 ≤ φ ∧ φ < 1) : circGap [φ] = some 1 := by
  obtain ⟨g, hg⟩ : ∃ g, circGap [φ] = some g := by
    cases h : circGap [φ] with
    | none => exact absurd (circGap_eq_none_iff.mp h) (by simp)
    | some g => exact ⟨g, rfl⟩
  have hb := circGap_bounds [φ] (by intro x hx; simp at hx; subst hx; exact hφ) g hg
  simp at hb
  rw [hg, le_antisymm hb.2 hb.1]

/-! ## phase_coverage -/

/-- `phase_coverage` = number of occupied bins / number of bins -/
theorem phaseCoverage_def (n : Nat) (hn : n ≠ 0) (l : List α) :
    phaseCoverage n l =
      some ((((Finset.range n).filter (fun k => ∃ φ ∈ l, inBin n k φ = true)).card : α) / (n : α)) := by
  unfold phaseCoverage
  rw [if_neg hn, occupied_eq_card]

theorem occupied_le (n : Nat) (l : List α) : occupied n l ≤ n := by
  unfold occupied hist
  calc _ ≤ ((List.range n).map fun k => (l.filter (inBin n k)).length).length := List.length_filter_le _ _
    _ = n := by simp

/-- `phase_coverage` is a fraction: it lies in `[0, 1]`, for every observation list and every bin count ≥ 1 -/
theorem phaseCoverage_bounds (n : Nat) (l : List α) (c : α) (h : phaseCoverage n l = some c) : 0 ≤ c ∧ c ≤ 1 := by
  unfold phaseCoverage at h
  split at h
  · simp at h
  · rename_i hn
    simp only [Option.some.injEq] at h
    subst h
    have hpos : (0 : α) < (n : α) := by exact_mod_cast Nat.pos_of_ne_zero hn
    have hle : (occupied n l : α) ≤ (n : α) := by exact_mod_cast occupied_le n l
    constructor
    · exact div_nonneg (by exact_mod_cast Nat.zero_le _) hpos.le
    · rw [div_le_one hpos]; exact hle

/-- bin `k` is `[k/n, (k+1)/n)`, the last bin is closed at 1 -/
theorem inBin_def (n k : Nat) (φ : α) :
    inBin n k φ = true ↔
      (k : α) / n ≤ φ ∧ (φ < ((k + 1 : Nat) : α) / n ∨ (k + 1 = n ∧ φ ≤ ((k + 1 : Nat) : α) / n)) :=
  inBin_iff n k φ

/-- independent of the order of the observations -/
theorem phaseCoverage_perm (n : Nat) {l l' : List α} (h : l.Perm l') : phaseCoverage n l = phaseCoverage n l' := by
  unfold phaseCoverage occupied; rw [hist_perm n h]

/-- no phase is counted in two bins -/
theorem bins_disjoint {n : Nat} (hn : n ≠ 0) {j k : Nat} (hj : j < n) (hk : k < n) {φ : α}
    (h1 : inBin n j φ = true) (h2 : inBin n k φ = true) : j = k := inBin_unique hn hj hk h1 h2

/-! ## periods_spanned -/

/-- `periods_spanned` = (latest − earliest observation) / P -/
theorem periodsSpanned_def (ts : List α) (P : α) (hP : P ≠ 0) (M m : α)
    (hM : M ∈ ts ∧ ∀ x ∈ ts, x ≤ M) (hm : m ∈ ts ∧ ∀ x ∈ ts, m ≤ x) :
    periodsSpanned ts P = some ((M - m) / P) := by
  unfold periodsSpanned
  rw [if_neg hP, maxList_eq_some_iff.mpr hM, minList_eq_some_iff.mpr hm]

/-- independent of the order of the observations -/
theorem periodsSpanned_perm {ts ts' : List α} (P : α) (h : ts.Perm ts') :
    periodsSpanned ts P = periodsSpanned ts' P := by
  unfold periodsSpanned; rw [maxList_perm h, minList_perm h]

end field

/-! ## RVData.phase and the symmetries at the level of observation times -/
section floor
variable {α : Type} [Field α] [LinearOrder α] [IsStrictOrderedRing α] [FloorRing α]

/-- `RVData.phase` lies in `[0,1)` and differs from `(t - t_ref)/P` by an integer number of turns -/
theorem phase_def (tref P t : α) :
    0 ≤ phase Int.floor tref P t ∧ phase Int.floor tref P t < 1 ∧
      ∃ k : ℤ, (t - tref) / P = k + phase Int.floor tref P t := by
  rw [phase_eq_fract]
  exact ⟨Int.fract_nonneg _, Int.fract_lt_one _, ⌊(t - tref) / P⌋, (Int.floor_add_fract _).symm⟩

/-- every phase in `[0,1]` falls into exactly one bin -/
theorem bins_partition {n : Nat} (hn : n ≠ 0) {φ : α} (h0 : 0 ≤ φ) (h1 : φ ≤ 1) :
    ∃ k, (k < n ∧ inBin n k φ = true) ∧ ∀ j, (j < n ∧ inBin n j φ = true) → j = k := by
  obtain ⟨k, hk, hb⟩ := inBin_exists hn h0 h1
  exact ⟨k, ⟨hk, hb⟩, fun j hj => inBin_unique hn hj.1 hk hj.2 hb⟩

/-- … so the histogram behind `phase_coverage` counts every observation exactly once -/
theorem hist_total {n : Nat} (hn : n ≠ 0) (l : List α) (hl : ∀ φ ∈ l, 0 ≤ φ ∧ φ ≤ 1) :
    (hist n l).sum = l.length := hist_total' hn l hl

/-- `max_phase_gap` does not depend on the reference epoch used to fold the observations -/
theorem circGap_tref_shift (tref tref' P : α) (ts : List α) :
    circGap (ts.map (phase Int.floor tref' P)) = circGap (ts.map (phase Int.floor tref P)) := by
  have h : ts.map (phase Int.floor tref' P) =
      (ts.map (phase Int.floor tref P)).map (rot (Int.fract ((tref - tref') / P))) := by
    rw [List.map_map]
    apply List.map_congr_left
    intro t _
    simp only [Function.comp, phase_eq_fract]
    rw [← fract_add_eq_rot]
    congr 1; ring
  rw [h]
  apply circGap_rotate
  intro φ hφ
  obtain ⟨t, _, rfl⟩ := List.mem_map.mp hφ
  exact ⟨(phase_def tref P t).1, (phase_def tref P t).2.1⟩

/-- `max_phase_gap` is unchanged when the observing pattern is reversed in time (`t ↦ T - t`), whatever reference
epochs are used before and after -/
theorem circGap_time_reversal (T tref tref' P : α) (ts : List α) :
    circGap (ts.map (fun t => phase Int.floor tref' P (T - t))) = circGap (ts.map (phase Int.floor tref P)) := by
  have hmem : ∀ φ ∈ ts.map (phase Int.floor tref P), 0 ≤ φ ∧ φ < 1 := by
    intro φ hφ
    obtain ⟨t, _, rfl⟩ := List.mem_map.mp hφ
    exact ⟨(phase_def tref P t).1, (phase_def tref P t).2.1⟩
  have h : ts.map (fun t => phase Int.floor tref' P (T - t)) =
      ((ts.map (phase Int.floor tref P)).map refl).map (rot (Int.fract ((T - tref - tref') / P))) := by
    rw [List.map_map, List.map_map]
    apply List.map_congr_left
    intro t _
    simp only [Function.comp, phase_eq_fract]
    rw [← fract_neg_eq_refl, ← fract_add_eq_rot]
    congr 1; ring
  rw [h, circGap_rotate, circGap_reflect _ hmem]
  intro φ hφ
  obtain ⟨ψ, hψ, rfl⟩ := List.mem_map.mp hφ
  rw [refl_eq_fract (hmem ψ hψ).1 (hmem ψ hψ).2]
  exact ⟨Int.fract_nonneg _, Int.fract_lt_one _⟩

end floor

/-! ## non-vacuity: concrete instances over `ℚ` -/

-- three observations bunched at phases 0, 0.1, 0.2: the largest empty arc is the wrap-around arc, 0.8 …
example : circGap ([1/10, 0, 1/5] : List ℚ) = some (4/5) := by
  rw [circGap_is_largest_arc _ 0 [1/10, 1/5] (by norm_num [isort, ins])]
  norm_num [gaps]
example : maxPhaseGap ([1/10, 0, 1/5] : List ℚ) = some (4/5) := by
  rw [maxPhaseGap_eq_circGap, circGap_is_largest_arc _ 0 [1/10, 1/5] (by norm_num [isort, ins])]
  norm_num [gaps]
-- the three arcs of that pattern are 0.1, 0.1, 0.8: total 1, largest ≥ 1/3
example : (circGaps (isort ([1/10, 0, 1/5] : List ℚ))).sum = 1 := circGaps_total _ (by simp)
example : (1 : ℚ) ≤ (([1/10, 0, 1/5] : List ℚ).length : ℚ) * (4/5) ∧ (4/5 : ℚ) ≤ 1 := by norm_num
-- … while the pinned formula answers 0.1
example : maxPhaseGapPinned ([1/10, 0, 1/5] : List ℚ) = some (1/10) := by
  rw [maxPhaseGapPinned_misses_wrap _ 0 [1/10, 1/5] (by norm_num [isort, ins]), maxList_eq_some_iff]
  norm_num [gaps]
-- hypotheses of the symmetry theorems are satisfiable (phases in [0,1), one of them exactly 0)
example : ∀ φ ∈ ([1/10, 0, 1/5] : List ℚ), 0 ≤ φ ∧ φ < 1 := by norm_num
example : ([1/10, 0, 1/5] : List ℚ).map refl = [9/10, 0, 4/5] := by norm_num [refl]
example : ([1/10, 0, 1/5] : List ℚ).map (rot (17/20)) = [19/20, 17/20, 1/20] := by norm_num [rot]
-- MAP: the prior decides between equal likelihoods; ties go to the first row
example : mapIndex ([-3, -1, -1] : List ℚ) [-2, -2, -2] = some 1 := by decide +kernel
-- coverage: phases 0.05, 0.15, 0.95 and 1 with four bins occupy bins 0 and 3
example : hist 4 ([1/20, 3/20, 19/20, 1] : List ℚ) = [2, 0, 0, 2] := by
  norm_num [hist, List.range, List.range.loop, inBin, edge, List.filter]
example : periodsSpanned ([3, 1, 7] : List ℚ) 2 = some 3 := by
  rw [periodsSpanned_def _ _ (by norm_num) 7 1 (by norm_num) (by norm_num)]; norm_num

end Diag
