/-! # C19 — property theorems (to be filled in) -/
