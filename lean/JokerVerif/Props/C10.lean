import JokerVerif.Lemmas.RngLemmas
/-!
# C10 — seeded runs are reproducible; randomness is confined to the given generator

Property theorems only (model: `Model/Rng.lean`).  Every statement is for every initial generator, every
history of events (= any sequence of `rejection_sample` / `iterative_rejection_sample` /
`marginal_ln_likelihood` calls with any batching), no bound on lengths.

This property is *partial* by nature (DESIGN 3/C10): the theorems cover the RNG plumbing of the model; that
the Python runtime has no hidden source of nondeterminism is sampled by the harness, not proved.
-/
namespace Rng

/-- the sampler model is a function of `(inputs, g₀)` only: two runs from the same generator and the same
events give the same outputs and the same final generator whatever the global random state is, and that
global state is returned untouched -/
theorem output_function_of_seed {γ α : Type} (stream : List Nat → Nat → α) (w w' : γ) (g : Gen)
    (evs : List Ev) :
    (runWorld stream w g evs).2 = (runWorld stream w' g evs).2 ∧ (runWorld stream w g evs).1 = w :=
  ⟨rfl, rfl⟩

/-- over every history and every batching, all child spawn keys handed to tasks are pairwise distinct,
distinct from the parent's key, and carry the parent's entropy -/
theorem spawned_keys_distinct (g : Gen) (evs : List Ev) :
    ((kidsOf (run g evs).2).map (·.key)).Nodup ∧
    (∀ c ∈ kidsOf (run g evs).2, c.key ≠ g.ss.key) ∧
    (∀ c ∈ kidsOf (run g evs).2, c.entropy = g.ss.entropy) := by
  obtain ⟨hform, hnd⟩ := run_key_form evs g
  refine ⟨hnd, ?_, ?_⟩
  · intro c hc h
    obtain ⟨j, _, hkey, _⟩ := hform c hc
    rw [hkey] at h
    have := congrArg List.length h
    simp at this
  · intro c hc
    obtain ⟨_, _, _, hent⟩ := hform c hc
    exact hent

/-- successive calls: no child key of a later call equals a child key of an earlier call -/
theorem successive_calls_keys_disjoint (g : Gen) (call₁ call₂ : List Ev) :
    ∀ c₁ ∈ kidsOf (run g call₁).2, ∀ c₂ ∈ kidsOf (run (run g call₁).1 call₂).2, c₁.key ≠ c₂.key := by
  have hnd := (spawned_keys_distinct g (call₁ ++ call₂)).1
  rw [run_append] at hnd
  have hk : ∀ a b : List Obs, kidsOf (a ++ b) = kidsOf a ++ kidsOf b := by
    intro a b
    induction a with
    | nil => rfl
    | cons o r ih => cases o <;> simp [kidsOf, ih]
  simp only [hk, List.map_append] at hnd
  rw [List.nodup_append] at hnd
  intro c₁ h₁ c₂ h₂
  exact hnd.2.2 _ (List.mem_map_of_mem h₁) _ (List.mem_map_of_mem h₂)

/-- the parent's stream only moves forward: the segments handed out over a history are pairwise disjoint
(each ends before the next begins), and the final position is the initial one plus everything drawn -/
theorem parent_stream_advances (g : Gen) (evs : List Ev) :
    (segmentsOf (run g evs).2).Pairwise (fun a b => a.1 + a.2 ≤ b.1) ∧
    (run g evs).1.pos = g.pos + drawn evs ∧
    (run g evs).1.ss.nSpawned = g.ss.nSpawned + spawned evs :=
  ⟨(run_segments evs g).2.1, (run_segments evs g).2.2.1, (run_segments evs g).2.2.2⟩

/-- one file-path call consumes one uniform per likelihood of every round (plus the shuffle) and spawns one
child per task -/
theorem call_consumption (g : Gen) (nShuffle : Nat) (rounds : List Nat) (nTasks : Nat) :
    (run g (fileCallEvents nShuffle rounds nTasks)).1.pos = g.pos + nShuffle + rounds.sum ∧
    (run g (fileCallEvents nShuffle rounds nTasks)).1.ss.nSpawned = g.ss.nSpawned + nTasks := by
  have h := parent_stream_advances g (fileCallEvents nShuffle rounds nTasks)
  have hd : ∀ l : List Nat, drawn (l.map Ev.draw ++ [Ev.spawn nTasks]) = l.sum ∧
      spawned (l.map Ev.draw ++ [Ev.spawn nTasks]) = nTasks := by
    intro l
    induction l with
    | nil => simp [drawn, spawned]
    | cons a r ih => simp [drawn, spawned, ih]
  rw [h.2.1, h.2.2]
  unfold fileCallEvents
  split
  · rename_i h0; subst h0; simp [hd]
  · simp [drawn, spawned, hd]; omega

/-- one in-memory call consumes the same uniforms from the parent **and in addition** the `nMvn` variates of the linear-parameter
draws; it spawns nothing -/
theorem inmem_call_consumption (g : Gen) (nShuffle : Nat) (rounds : List Nat) (nMvn : Nat) :
    (run g (inmemCallEvents nShuffle rounds nMvn)).1.pos = g.pos + nShuffle + rounds.sum + nMvn ∧
    (run g (inmemCallEvents nShuffle rounds nMvn)).1.ss.nSpawned = g.ss.nSpawned := by
  have h := parent_stream_advances g (inmemCallEvents nShuffle rounds nMvn)
  have hd : ∀ l : List Nat, drawn (l.map Ev.draw ++ [Ev.draw nMvn]) = l.sum + nMvn ∧
      spawned (l.map Ev.draw ++ [Ev.draw nMvn]) = 0 := by
    intro l
    induction l with
    | nil => simp [drawn, spawned]
    | cons a r ih => simp [drawn, spawned, ih]; omega
  rw [h.2.1, h.2.2]
  unfold inmemCallEvents
  split
  · rename_i h0; subst h0; simp [hd]; omega
  · simp [drawn, spawned, hd]; omega

/-- **the known finding `C05-parent-generator-consumption-differs-by-path`, stated on the model**: after ONE call with equal
seeds, the parent generator of the in-memory path is `nMvn` variates further than that of the cache-file path, so (whenever at
least one sample was accepted, `nMvn > 0`) the uniforms of the NEXT call are different numbers on the two families of paths -
although the first calls saw the same ones -/
theorem parent_position_after_one_call_differs_by_path (g : Gen) (nShuffle : Nat) (rounds : List Nat) (nTasks nMvn : Nat)
    (h : 0 < nMvn) :
    (run g (inmemCallEvents nShuffle rounds nMvn)).1.pos
        = (run g (fileCallEvents nShuffle rounds nTasks)).1.pos + nMvn ∧
    (run g (inmemCallEvents nShuffle rounds nMvn)).1.pos ≠ (run g (fileCallEvents nShuffle rounds nTasks)).1.pos := by
  have h1 := (inmem_call_consumption g nShuffle rounds nMvn).1
  have h2 := (call_consumption g nShuffle rounds nTasks).1
  constructor <;> omega

/-- if different seed-sequence keys give different streams (numpy's contract for `SeedSequence`, modelled),
then the first variates of all children — across batches and across successive calls — are pairwise
different: linear-parameter draws are never repeated -/
theorem child_draws_distinct {α : Type} (stream : List Nat → Nat → α)
    (hinj : ∀ k k', stream k 0 = stream k' 0 → k = k') (g : Gen) (evs : List Ev) :
    ((kidsOf (run g evs).2).map (fun c => stream c.key 0)).Nodup := by
  have hnd := (spawned_keys_distinct g evs).1
  have : (kidsOf (run g evs).2).map (fun c => stream c.key 0)
      = ((kidsOf (run g evs).2).map (·.key)).map (fun k => stream k 0) := by
    rw [List.map_map]; rfl
  rw [this]
  show List.Pairwise (· ≠ ·) _
  rw [List.pairwise_map]
  exact hnd.imp (fun hab h => hab (hinj _ _ h))

-- non-vacuity: two calls (3 tasks, then 2 tasks) after a call that already spawned: concrete keys
example : (kidsOf (run ⟨⟨42, [7], 2⟩, 0⟩ (fileCallEvents 0 [5] 3 ++ fileCallEvents 4 [5, 9] 2)).2).map (·.key)
    = [[7, 2], [7, 3], [7, 4], [7, 5], [7, 6]] := by decide
example : segmentsOf (run ⟨⟨42, [], 0⟩, 10⟩ (fileCallEvents 0 [5] 3 ++ fileCallEvents 4 [5, 9] 2)).2
    = [(10, 5), (15, 4), (19, 5), (24, 9)] := by decide

end Rng
