/-! # C10 — property theorems (to be filled in) -/
