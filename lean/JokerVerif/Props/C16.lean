import JokerVerif.Lemmas.BatchLemmas
/-!
# C16 — work partitioning covers every prior sample exactly once, in order

Property theorems only.  All are for every `nTasks ≥ 1`, every integer `nBatches` (≤ 0, smaller, equal, larger
than `nTasks`) and every `start`.
-/
namespace Batch

/-- contiguous, ordered, non-overlapping: first lower bound is `start`, each upper bound is the next lower
bound, the last upper bound is `start + nTasks` -/
theorem batches_chain (nTasks : Nat) (nBatches : Int) (start : Nat) :
    Chain (batchTasks nTasks nBatches start) start (start + nTasks) := by
  unfold batchTasks
  split
  · rename_i h
    obtain ⟨h0, h1⟩ := h
    have hnb : 0 < nBatches.toNat := by omega
    have hle : nBatches.toNat ≤ nTasks := by omega
    have := batchLoop_chain (nTasks / nBatches.toNat) (nTasks % nBatches.toNat) nBatches.toNat 0 start
    have hmod : nTasks % nBatches.toNat < nBatches.toNat := Nat.mod_lt _ hnb
    have hdiv := Nat.div_add_mod nTasks nBatches.toNat
    have e : start + nTasks = start + nBatches.toNat * (nTasks / nBatches.toNat) +
      (min (0 + nBatches.toNat) (nTasks % nBatches.toNat) - min 0 (nTasks % nBatches.toNat)) := by
      generalize nBatches.toNat * (nTasks / nBatches.toNat) = q at *
      omega
    show Chain (batchLoop (nTasks / nBatches.toNat) (nTasks % nBatches.toNat) 0 nBatches.toNat start) start (start + nTasks)
    rw [e]; exact this
  · simp [Chain]; omega

/-- no batch is empty -/
theorem batches_nonempty (nTasks : Nat) (nBatches : Int) (start : Nat) (hn : 1 ≤ nTasks) :
    ∀ p ∈ batchTasks nTasks nBatches start, p.1 < p.2 := by
  unfold batchTasks
  split
  · rename_i h
    obtain ⟨h0, h1⟩ := h
    have hnb : 0 < nBatches.toNat := by omega
    have hle : nBatches.toNat ≤ nTasks := by omega
    have hb : 0 < nTasks / nBatches.toNat := Nat.div_pos hle hnb
    intro p hp
    rcases batchLoop_sizes _ _ _ _ _ p hp with h | h <;> omega
  · intro p hp; simp at hp; subst hp; simp; omega

/-- number of batches: `nBatches` when `0 < nBatches ≤ nTasks`, otherwise a single batch -/
theorem batches_count (nTasks : Nat) (nBatches : Int) (start : Nat) :
    (batchTasks nTasks nBatches start).length =
      if 0 < nBatches ∧ nBatches ≤ (nTasks : Int) then nBatches.toNat else 1 := by
  unfold batchTasks
  split
  · simp [batchLoop_length]
  · simp

/-- batch sizes are balanced: any two differ by at most one -/
theorem batches_balanced (nTasks : Nat) (nBatches : Int) (start : Nat) :
    ∀ p ∈ batchTasks nTasks nBatches start, ∀ q ∈ batchTasks nTasks nBatches start,
      (p.2 - p.1) ≤ (q.2 - q.1) + 1 := by
  unfold batchTasks
  split
  · intro p hp q hq
    rcases batchLoop_sizes _ _ _ _ _ p hp with h | h <;>
    rcases batchLoop_sizes _ _ _ _ _ q hq with h' | h' <;> omega
  · intro p hp q hq; simp at hp hq; subst hp; subst hq; omega

/-- index form: the batches together enumerate exactly `start, …, start+nTasks-1`, each once, in order -/
theorem batches_cover (nTasks : Nat) (nBatches : Int) (start : Nat) (hn : 1 ≤ nTasks) :
    (batchTasks nTasks nBatches start).flatMap (fun p => List.range' p.1 (p.2 - p.1)) =
      List.range' start nTasks := by
  have h := chain_cover _ _ _ (batches_chain nTasks nBatches start)
    (fun p hp => Nat.le_of_lt (batches_nonempty nTasks nBatches start hn p hp))
  rw [h.2]; congr 1; omega

/-- array form: the batches' slices concatenate to exactly `arr[start : start+nTasks]`;
in particular (`start = 0`, `nTasks = |arr|`) to exactly the elements of `arr`, in order -/
theorem batches_cover_arr {α : Type} (arr : List α) (nTasks : Nat) (nBatches : Int) (start : Nat) (hn : 1 ≤ nTasks) :
    (batchTasksArr arr nTasks nBatches start).flatMap (·.1) = pySlice arr start (start + nTasks) := by
  have h := chain_slices arr _ _ _ (batches_chain nTasks nBatches start)
    (fun p hp => Nat.le_of_lt (batches_nonempty nTasks nBatches start hn p hp))
  unfold batchTasksArr
  rw [List.flatMap_map]
  exact h.2

theorem batches_cover_whole_arr {α : Type} (arr : List α) (nBatches : Int) (hn : 1 ≤ arr.length) :
    (batchTasksArr arr arr.length nBatches 0).flatMap (·.1) = arr := by
  rw [batches_cover_arr arr arr.length nBatches 0 hn]
  simp [pySlice]

/-- each task carries its own start index -/
theorem task_id_is_lo {α : Type} (arr : List α) (nTasks : Nat) (nBatches : Int) (start : Nat) :
    (batchTasksArr arr nTasks nBatches start).map (·.2) = (batchTasks nTasks nBatches start).map (·.1) := by
  simp [batchTasksArr]

/-- mapping a per-row function over the batches and concatenating in task order equals mapping it over the
whole range: results come back in input order (used by C05) -/
theorem concat_in_task_order {β : Type} (f : Nat → β) (nTasks : Nat) (nBatches : Int) (start : Nat) (hn : 1 ≤ nTasks) :
    (batchTasks nTasks nBatches start).flatMap (fun p => (List.range' p.1 (p.2 - p.1)).map f) =
      (List.range' start nTasks).map f := by
  rw [← batches_cover nTasks nBatches start hn, List.map_flatMap]

/-- pointwise form of "exactly once": every row index `k` of the request lies in the half-open range of exactly
one batch, and an index outside the request lies in none — no row is evaluated twice, none is skipped, and no
batch reaches outside `[start, start+nTasks)` -/
theorem each_row_one_batch (nTasks : Nat) (nBatches : Int) (start : Nat) (hn : 1 ≤ nTasks) (k : Nat) :
    owners (batchTasks nTasks nBatches start) k = if start ≤ k ∧ k < start + nTasks then 1 else 0 :=
  chain_owners _ _ _ (batches_chain nTasks nBatches start)
    (fun p hp => Nat.le_of_lt (batches_nonempty nTasks nBatches start hn p hp)) k

/-- the owner of a row is found by its bounds: the batch that contains `k` is unique -/
theorem owner_unique (nTasks : Nat) (nBatches : Int) (start : Nat) (hn : 1 ≤ nTasks) (k : Nat)
    (p q : Nat × Nat) (hp : p ∈ batchTasks nTasks nBatches start) (hq : q ∈ batchTasks nTasks nBatches start)
    (hpk : p.1 ≤ k ∧ k < p.2) (hqk : q.1 ≤ k ∧ k < q.2) : p = q := by
  have h1 := each_row_one_batch nTasks nBatches start hn k
  have hle : owners (batchTasks nTasks nBatches start) k ≤ 1 := by rw [h1]; split <;> omega
  unfold owners at hle
  have hpf : p ∈ (batchTasks nTasks nBatches start).filter fun p => decide (p.1 ≤ k ∧ k < p.2) := by
    simp [List.mem_filter, hp, hpk]
  have hqf : q ∈ (batchTasks nTasks nBatches start).filter fun p => decide (p.1 ≤ k ∧ k < p.2) := by
    simp [List.mem_filter, hq, hqk]
  match hl : (batchTasks nTasks nBatches start).filter fun p => decide (p.1 ≤ k ∧ k < p.2) with
  | [] => rw [hl] at hpf; simp at hpf
  | [x] => rw [hl] at hpf hqf; simp at hpf hqf; rw [hpf, hqf]
  | x :: y :: r => rw [hl] at hle; simp at hle

/-- the batch sizes add up to the number of tasks: nothing is lost or invented by the partition -/
theorem batch_sizes_sum (nTasks : Nat) (nBatches : Int) (start : Nat) (hn : 1 ≤ nTasks) :
    ((batchTasks nTasks nBatches start).map (fun p => p.2 - p.1)).sum = nTasks := by
  have h := congrArg List.length (batches_cover nTasks nBatches start hn)
  rw [List.length_flatMap] at h
  simpa using h

/-! ### `run_worker`: what is handed to `batch_tasks` -/

/-- without an explicit `n_batches` the pool size is used, and never less than one batch -/
theorem run_worker_default_batches_pos (poolSize : Int) : 1 ≤ runWorkerNBatches none poolSize := by
  show 1 ≤ max 1 poolSize
  omega

/-- an explicit `n_batches` is passed through unchanged -/
theorem run_worker_explicit_batches (b poolSize : Int) : runWorkerNBatches (some b) poolSize = b := rfl

/-- `n_prior_samples` together with `samples_idx` is rejected; otherwise the number of rows is `len(samples_idx)`, else
`n_prior_samples`, else the number of rows of the file -/
theorem run_worker_n_samples (nFile : Nat) (nPrior idxLen : Option Nat) :
    runWorkerNSamples nFile nPrior idxLen =
      match nPrior, idxLen with
      | some _, some _ => .error "value"
      | none, some l => .ok l
      | some n, none => .ok n
      | none, none => .ok nFile := by
  cases nPrior <;> cases idxLen <;> rfl

/-- whatever `n_batches` the caller gives (also ≤ 0 or larger than the number of rows) and whatever the pool size, the
tasks `run_worker` builds cover rows `0 … nSamples−1` exactly once, in order, and there are at most `nSamples` of them -/
theorem run_worker_tasks_cover (nBatches : Option Int) (poolSize : Int) (ns : Nat) (hn : 1 ≤ ns) :
    (batchTasks ns (runWorkerNBatches nBatches poolSize) 0).flatMap (fun p => List.range' p.1 (p.2 - p.1)) =
      List.range' 0 ns ∧
    (batchTasks ns (runWorkerNBatches nBatches poolSize) 0).length ≤ ns ∧
    1 ≤ (batchTasks ns (runWorkerNBatches nBatches poolSize) 0).length := by
  refine ⟨batches_cover ns _ 0 hn, ?_, ?_⟩ <;>
  · rw [batches_count]; split <;> omega

-- non-vacuity: a concrete non-trivial instance (10 tasks, 3 batches, start 5; and more batches than tasks)
example : batchTasks 10 3 5 = [(5, 9), (9, 12), (12, 15)] := by decide
example : batchTasks 3 7 0 = [(0, 3)] := by decide
example : runWorkerNSamples 100 (some 10) none = .ok 10 ∧ runWorkerNBatches none 0 = 1 ∧ runWorkerNBatches none 4 = 4 :=
  ⟨rfl, by decide, by decide⟩
example : (List.range 20).map (owners (batchTasks 10 3 5)) = [0,0,0,0,0,1,1,1,1,1,1,1,1,1,1,0,0,0,0,0] := by decide
example : batchTasksArr [10, 11, 12, 13, 14] 5 2 0 = [([10, 11, 12], 0), ([13, 14], 3)] := by decide

end Batch
