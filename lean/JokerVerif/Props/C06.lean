import JokerVerif.Lemmas.RejectLemmas
import JokerVerif.Props.C01
/-!
# C06 — reported `ln_prior` / `ln_likelihood` stay attached to their own sample

Property theorems only.  The models (`Model/Reject.lean`, `Model/Iter.lean`) compute the columns the way the
code does — in three index spaces: `ln_likelihood = lls[good]` (accepted positions of the evaluation order),
`ln_prior = libLnPrior[full]` and rows `= lib[full]` with `full = order[good]` (library rows).  The theorems say
that these separately-indexed columns always describe ONE list of library records.
-/
set_option linter.unusedSectionVars false
namespace Reject

section Generic
variable {α ρ : Type} [LT α] [DecidableLT α] [Sub α] [Max α]

/-- **Rejection sampler.**  There is one list of library records `recs = lib[full]`, `full = evalRows[good]`,
such that the returned nonlinear blocks, the `ln_prior` column and the `ln_likelihood` column are — row by row,
`n_linear_samples` copies each — the block of `recs[r]`, the `ln_prior` stored with `recs[r]`, and the likelihood
function applied to the block of `recs[r]`.  Holds with and without shuffling, for every truncation
(`n_prior_samples`, `max_posterior_samples`) and every `n_linear_samples`. -/
theorem logprobs_attached {expf : α → α} {llf : ρ → α} {lib : List (LibRow ρ α)} {o : Opts}
    {idx : Option (List Nat)} {uu : List α} {out : Out ρ α}
    (h : rejectionSample expf llf lib o idx uu = .ok out) :
    gather out.evalRows out.good = some out.full ∧
    ∃ recs, gather lib out.full = some recs ∧
      out.rows = rep o.nLinear (recs.map (·.nonlin)) ∧
      out.lnPrior = rep o.nLinear (recs.map (·.lnPrior)) ∧
      out.lnLike = rep o.nLinear (recs.map (fun r => llf r.nonlin)) ∧
      out.rows.zip (out.lnPrior.zip out.lnLike) =
        rep o.nLinear (recs.map (fun r => (r.nonlin, r.lnPrior, llf r.nonlin))) := by
  obtain ⟨_, _, evRows, hev, _, hasm⟩ := rejectionSample_ok h
  obtain ⟨h1, _, h3, hfull, recs, hrecs, _, hrows, hlp, hll⟩ := assemble_attached llf hev hasm
  refine ⟨by rw [h1, h3]; exact hfull, recs, hrecs, hrows, hlp, hll, ?_⟩
  rw [hrows, hlp, hll, rep_zip_map, ← rep_zip_map (fun r : LibRow ρ α => r.nonlin)]

/-- With `return_all_logprobs` the extra array holds the ln-likelihood of every evaluated prior sample in
evaluation order: `allLls[t] = llf (lib[evalRows[t]])`, one entry per evaluated row. -/
theorem all_logprobs_in_eval_order {expf : α → α} {llf : ρ → α} {lib : List (LibRow ρ α)} {o : Opts}
    {idx : Option (List Nat)} {uu : List α} {out : Out ρ α}
    (h : rejectionSample expf llf lib o idx uu = .ok out) :
    gather (lib.map (fun r => llf r.nonlin)) out.evalRows = some out.allLls ∧
    out.allLls.length = out.evalRows.length := by
  obtain ⟨_, _, evRows, hev, _, hasm⟩ := rejectionSample_ok h
  obtain ⟨h1, h2, _⟩ := assemble_attached llf hev hasm
  have : gather (lib.map (fun r => llf r.nonlin)) out.evalRows = some out.allLls := by
    rw [h1, h2, gather_map, hev]; rfl
  exact ⟨this, gather_length this⟩

/-- The logprob columns are columns of scalars (`List α` — a structured row is a type error in the model), one
scalar per returned row. -/
theorem logprob_columns_scalar {expf : α → α} {llf : ρ → α} {lib : List (LibRow ρ α)} {o : Opts}
    {idx : Option (List Nat)} {uu : List α} {out : Out ρ α}
    (h : rejectionSample expf llf lib o idx uu = .ok out) :
    out.lnPrior.length = out.rows.length ∧ out.lnLike.length = out.rows.length ∧
    out.rows.length = out.good.length * o.nLinear := by
  obtain ⟨hfull, recs, hrecs, hrows, hlp, hll, _⟩ := logprobs_attached h
  refine ⟨by rw [hlp, hrows]; simp [rep_length], by rw [hll, hrows]; simp [rep_length], ?_⟩
  rw [hrows, rep_length, List.length_map, gather_length hrecs, gather_length hfull]

end Generic
end Reject

namespace Iter
open Reject

section Generic
variable {α ρ : Type} [LT α] [DecidableLT α] [Sub α] [Max α]

/-- **Iterative sampler**, at every normal exit (enough samples / budget exhausted / policy stops), for every
growth policy: the same attachment statement, plus the likelihoods accumulated over all rounds are those of
the evaluated rows in evaluation order. -/
theorem iter_logprobs_attached {expf : α → α} {nonFinite : α → Bool} {llf : ρ → α} {lib : List (LibRow ρ α)}
    {c : Cfg} {idx : Option (List Nat)} {grow : Nat → Nat → Nat → Nat → Nat} {uus : List (List α)}
    {res : Res ρ α} (h : iterativeSample expf nonFinite llf lib c idx grow uus = .ok res) :
    gather res.out.evalRows res.out.good = some res.out.full ∧
    gather (lib.map (fun r => llf r.nonlin)) res.out.evalRows = some res.out.allLls ∧
    ∃ recs, gather lib res.out.full = some recs ∧
      res.out.rows = rep c.nLinear (recs.map (·.nonlin)) ∧
      res.out.lnPrior = rep c.nLinear (recs.map (·.lnPrior)) ∧
      res.out.lnLike = rep c.nLinear (recs.map (fun r => llf r.nonlin)) ∧
      res.out.rows.zip (res.out.lnPrior.zip res.out.lnLike) =
        rep c.nLinear (recs.map (fun r => (r.nonlin, r.lnPrior, llf r.nonlin))) := by
  obtain ⟨_, _, _, _, _, _, h7, _, _, _, _, _, h13, recs, a5, a6, a7, a8⟩ := iterativeSample_facts h
  refine ⟨h13, h7, recs, a5, a6, a7, a8, ?_⟩
  rw [a6, a7, a8, rep_zip_map, ← rep_zip_map (fun r : LibRow ρ α => r.nonlin)]

theorem iter_logprob_columns_scalar {expf : α → α} {nonFinite : α → Bool} {llf : ρ → α}
    {lib : List (LibRow ρ α)} {c : Cfg} {idx : Option (List Nat)} {grow : Nat → Nat → Nat → Nat → Nat}
    {uus : List (List α)} {res : Res ρ α}
    (h : iterativeSample expf nonFinite llf lib c idx grow uus = .ok res) :
    res.out.lnPrior.length = res.out.rows.length ∧ res.out.lnLike.length = res.out.rows.length := by
  obtain ⟨_, _, recs, _, hrows, hlp, hll, _⟩ := iter_logprobs_attached h
  exact ⟨by rw [hlp, hrows]; simp [rep_length], by rw [hll, hrows]; simp [rep_length]⟩

end Generic
end Iter

/-! ### non-vacuity: shuffled order + truncation, distinct recognisable `ln_prior` values (ℤ, thresholds ×10) -/
namespace Reject
section Examples

def c06Exp (x : ℤ) : ℤ := if x = 0 then 10 else if x = -1 then 5 else 1
def c06Lib : List (LibRow String ℤ) := [⟨"a", 105⟩, ⟨"b", 106⟩, ⟨"c", 107⟩, ⟨"d", 108⟩]
def c06LL : String → ℤ := fun s => if s = "a" then -3 else if s = "b" then -1 else if s = "c" then -2 else -4

example : (match rejectionSample c06Exp c06LL c06Lib ⟨none, some 2, 1⟩ (some [3, 2, 0, 1]) [0, 7, 0, 9] with
    | .ok out => (out.good, out.full, out.rows.zip (out.lnPrior.zip out.lnLike), out.allLls)
    | .error _ => ([], [], [], [])) =
    ([0, 2], [3, 0], [("d", 108, -4), ("a", 105, -3)], [-4, -2, -3, -1]) := by decide

end Examples
end Reject

/-! ### composition with the kernel theorem of C01 -/
open Matrix

namespace Kernel
noncomputable section

/-- **C06 ∘ C01.**  With the kernel's value as the likelihood function and a physical library, the `ln_likelihood`
reported beside each returned row is the analytic Gaussian marginal `ln N(y | Mμ, C + s²I + MΛMᵀ)` evaluated at
that row's OWN parameters (and `ln_prior` is the value stored with that row). -/
theorem reported_ln_likelihood_is_own_analytic_marginal {n k : ℕ}
    (lib : List (Reject.LibRow (KIn n k ℝ × (Fin n → ℝ)) ℝ)) (hphys : ∀ r ∈ lib, Phys r.nonlin.1 r.nonlin.2)
    {o : Reject.Opts} {idx : Option (List Nat)} {uu : List ℝ}
    {out : Reject.Out (KIn n k ℝ × (Fin n → ℝ)) ℝ}
    (h : Reject.rejectionSample Real.exp (fun q => kll q.1) lib o idx uu = .ok out) :
    let L : KIn n k ℝ × (Fin n → ℝ) → ℝ := fun q =>
      lnN (vfun q.1.y) (q.1.M.toM *ᵥ vfun q.1.mu)
        (Matrix.diagonal (fun i => (q.2 i) ^ 2) + (q.1.s ^ 2) • (1 : Matrix (Fin n) (Fin n) ℝ)
          + q.1.M.toM * Matrix.diagonal (vfun q.1.lam) * q.1.M.toMᵀ)
    ∃ recs, Reject.gather lib out.full = some recs ∧
      out.rows.zip (out.lnPrior.zip out.lnLike) =
        Reject.rep o.nLinear (recs.map (fun r => (r.nonlin, r.lnPrior, L r.nonlin))) := by
  intro L
  obtain ⟨_, recs, hrecs, _, _, _, hzip⟩ := Reject.logprobs_attached h
  refine ⟨recs, hrecs, ?_⟩
  rw [hzip]
  congr 1
  apply List.map_congr_left
  intro r hr
  obtain ⟨i, _, hi⟩ := Reject.mem_of_gather hrecs r hr
  have hmem : r ∈ lib := List.mem_of_getElem? hi
  simp only [Prod.mk.injEq, true_and]
  exact kernel_ll_eq_lnN r.nonlin.1 r.nonlin.2 (hphys r hmem)

end
end Kernel
