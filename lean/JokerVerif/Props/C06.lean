/-! # C06 — property theorems (to be filled in) -/
