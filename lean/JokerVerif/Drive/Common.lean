import Lean.Data.Json
/-! JSON line-protocol helpers shared by all driver handlers. -/
open Lean

namespace Drive

abbrev H := Json → Except String Json

def getNat (j : Json) (k : String) : Except String Nat := j.getObjValAs? Nat k
def getInt (j : Json) (k : String) : Except String Int := j.getObjValAs? Int k
def getStr (j : Json) (k : String) : Except String String := j.getObjValAs? String k
def getBool (j : Json) (k : String) : Except String Bool := j.getObjValAs? Bool k
def getArr (j : Json) (k : String) : Except String (Array Json) := j.getObjValAs? (Array Json) k
def getNats (j : Json) (k : String) : Except String (Array Nat) := j.getObjValAs? (Array Nat) k
def getInts (j : Json) (k : String) : Except String (Array Int) := j.getObjValAs? (Array Int) k

def optNat (j : Json) (k : String) : Except String (Option Nat) :=
  match j.getObjVal? k with
  | .ok .null => .ok none
  | .ok v => (fromJson? v : Except String Nat).map some
  | .error _ => .ok none

def optInt (j : Json) (k : String) : Except String (Option Int) :=
  match j.getObjVal? k with
  | .ok .null => .ok none
  | .ok v => (fromJson? v : Except String Int).map some
  | .error _ => .ok none

/-- IEEE-754 binary64 from its bit pattern -/
def floatOfBits (b : Nat) : Float := Float.ofBits b.toUInt64
def bitsOfFloat (f : Float) : Nat := f.toBits.toNat

def getFloats (j : Json) (k : String) : Except String (Array Float) := do
  return (← getNats j k).map floatOfBits
def getFloat (j : Json) (k : String) : Except String Float := do
  return floatOfBits (← getNat j k)

def jNat (n : Nat) : Json := toJson n
def jInt (n : Int) : Json := toJson n
def jNats (a : List Nat) : Json := Json.arr (a.map jNat).toArray
def jFloats (a : List Float) : Json := Json.arr (a.map (fun f => jNat (bitsOfFloat f))).toArray
def jPairs (a : List (Nat × Nat)) : Json := Json.arr (a.map fun p => Json.arr #[jNat p.1, jNat p.2]).toArray

end Drive
