import JokerVerif.Drive.Common
import JokerVerif.Model.Prior
/-! Driver handlers for C09: the density model executed at `Float`. -/
open Lean Drive

namespace Drive
open Prior

/-- IEEE double instantiation (C `exp/log/sqrt/pow`) -/
def floatFn : Fn Float := ⟨Float.exp, Float.log, Float.sqrt, Float.pow, 3.141592653589793⟩

def jOptFloats (a : List (Option Float)) : Json :=
  Json.arr (a.map fun o => match o with | some f => jNat (bitsOfFloat f) | none => Json.null).toArray

def uniformLogOp : H := fun j => do
  let a ← getFloat j "a"; let b ← getFloat j "b"
  let xs ← getFloats j "xs"; let us ← getFloats j "us"
  return Json.mkObj [
    ("logp", jOptFloats (xs.toList.map (logUniformLogp floatFn a b))),
    ("cdf", jFloats (xs.toList.map (logUniformCdf floatFn a b))),
    ("draw", jFloats (us.toList.map (logUniformDraw floatFn a b)))]

def sigmaKOp : H := fun j => do
  let s0 ← getFloat j "s0"; let P0 ← getFloat j "P0"; let mk ← getFloat j "maxK"
  let Ps ← getFloats j "P"; let es ← getFloats j "e"
  let pe := Ps.toList.zip es.toList
  return Json.mkObj [
    ("sigma", jFloats (pe.map fun (p, e) => sigmaK floatFn s0 P0 mk p e)),
    ("lambda", jFloats (pe.map fun (p, e) => lambdaK floatFn s0 P0 mk p e))]

def normalLogpOp : H := fun j => do
  let mu ← getFloat j "mu"; let sg ← getFloat j "sigma"
  let xs ← getFloats j "xs"
  return Json.mkObj [("logp", jFloats (xs.toList.map (normalLogp floatFn mu sg)))]

def betaLogpOp : H := fun j => do
  let a ← getFloat j "a"; let b ← getFloat j "b"; let lnB ← getFloat j "lnB"
  let xs ← getFloats j "xs"
  return Json.mkObj [("logp", jOptFloats (xs.toList.map (betaLogp floatFn a b lnB)))]

def kippingOp : H := fun _ => do
  let f (k : Kipping) : Json := Json.arr #[jNat (kipping k).1, jNat (kipping k).2]
  return Json.mkObj [("long", f .long), ("short", f .short), ("global", f .global)]

def getPairs (j : Json) (k : String) : Except String (List (Float × Float)) := do
  let a ← getArr j k
  a.toList.mapM fun p => do
    let v ← (fromJson? p : Except String (Array Nat))
    if v.size != 2 then throw "pair expected"
    return (floatOfBits v[0]!, floatOfBits v[1]!)

def parseCfg (j : Json) : Except String (Cfg Float) := do
  let sP ← match j.getObjVal? "sPrior" with
    | .ok .null => pure none
    | .ok v => do
      let a ← (fromJson? v : Except String (Array Nat))
      if a.size != 2 then throw "sPrior pair expected"
      pure (some (floatOfBits a[0]!, floatOfBits a[1]!))
    | .error _ => pure none
  let kj ← j.getObjVal? "kPrior"
  let kind ← getStr kj "kind"
  let kP ← if kind == "fcm" then
      pure (KPrior.fcm (← getFloat kj "mu") (← getFloat kj "s0") (← getFloat kj "P0") (← getFloat kj "maxK"))
    else pure (KPrior.normal (← getFloat kj "mu") (← getFloat kj "sigma"))
  return { pMin := ← getFloat j "pMin", pMax := ← getFloat j "pMax", eA := ← getFloat j "eA", eB := ← getFloat j "eB",
           eLnB := ← getFloat j "eLnB", sPrior := sP, kPrior := kP, vPrior := ← getPairs j "vPrior",
           dvPrior := ← getPairs j "dvPrior" }

def parseRow (j : Json) : Except String (Row Float) := do
  return { P := ← getFloat j "P", e := ← getFloat j "e", s := ← getFloat j "s", K := ← getFloat j "K",
           v := (← getFloats j "v").toList, dv := (← getFloats j "dv").toList }

def lnPriorOp : H := fun j => do
  let c ← parseCfg (← j.getObjVal? "cfg")
  let rows ← (← getArr j "rows").toList.mapM parseRow
  return Json.mkObj [
    ("nonlinear", jOptFloats (rows.map (lnPriorNonlinear floatFn c))),
    ("full", jOptFloats (rows.map (lnPriorFull floatFn c)))]

def priorDensOps : List (String × H) :=
  [("prior.uniformlog", uniformLogOp), ("prior.sigmaK", sigmaKOp), ("prior.normalLogp", normalLogpOp),
   ("prior.betaLogp", betaLogpOp), ("prior.kipping", kippingOp), ("prior.lnprior", lnPriorOp)]

end Drive
