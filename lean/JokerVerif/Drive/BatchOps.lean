import JokerVerif.Drive.Common
import JokerVerif.Model.Batch
open Lean Drive

namespace Drive

def batchTasksOp : H := fun j => do
  let n ← getNat j "n"; let nb ← getInt j "nb"; let s ← getNat j "start"
  return Json.mkObj [("tasks", jPairs (Batch.batchTasks n nb s))]

def batchArrOp : H := fun j => do
  let arr ← getNats j "arr"
  let n ← getNat j "n"; let nb ← getInt j "nb"; let s ← getNat j "start"
  let r := Batch.batchTasksArr arr.toList n nb s
  return Json.mkObj [("tasks", Json.arr (r.map fun p => Json.arr #[jNats p.1, jNat p.2]).toArray)]

def runWorkerOp : H := fun j => do
  let nFile ← getNat j "nFile"
  let nPrior ← optNat j "nPrior"; let idxLen ← optNat j "idxLen"
  let nb ← optInt j "nBatches"; let ps ← getInt j "poolSize"
  match Batch.runWorkerNSamples nFile nPrior idxLen with
  | .error e => return Json.mkObj [("error", e)]
  | .ok ns =>
    let b := Batch.runWorkerNBatches nb ps
    return Json.mkObj [("nSamples", jNat ns), ("nBatches", jInt b), ("tasks", jPairs (Batch.batchTasks ns b 0))]

def batchOps : List (String × H) :=
  [("batch.tasks", batchTasksOp), ("batch.arr", batchArrOp), ("batch.runworker", runWorkerOp)]

end Drive
