import JokerVerif.Drive.Common
/-! Driver handlers for C13 (to be filled in). -/
open Lean Drive
namespace Drive

def cacheOps : List (String × H) := []

end Drive
