import JokerVerif.Drive.Common
import JokerVerif.Model.Cache
/-! Driver handlers for C13: recognise an observed step trace as a run of the `Cache` machine and execute
that run. -/
open Lean Drive

namespace Drive

private def getMode (j : Json) : Except String Cache.Mode := do
  let m ← getStr j "m"
  return if m == "r" then .ro else .rw

private def parseStep (j : Json) : Except String Cache.Step := do
  let s ← getStr j "s"
  match s with
  | "mkTemp" => return .mkTemp (← getNat j "f")
  | "writeTemp" => return .writeTemp (← getNat j "f")
  | "openUser" => return .openUser (← getNat j "p") (← getMode j)
  | "openTemp" => return .openTemp (← getNat j "f") (← getMode j)
  | "body" => return .body (← getStr j "l")
  | "unlink" => return .unlink (← getNat j "f")
  | _ => throw s!"unknown step {s}"

private def jFault : Cache.Fault → Json
  | .none => "none"
  | .create => "create"
  | .step k => Json.mkObj [("step", jNat k)]

private def jSt (s : Cache.St) : Json :=
  Json.mkObj [("tmp", jNats s.tmp), ("userWritten", s.userWritten)]

/-- `cache.run`: `{kind: "object"|"file", trace: [...], raised: bool, tmp0: [...]}`.
If the observed trace is a run of the machine: the decomposition `(f, inner, fault)`, the model's final
state and whether the model propagates an exception.  Also the state obtained by blindly replaying the
observed steps (so that a trace that is NOT a run still shows what it would leave behind). -/
def cacheRunOp : H := fun j => do
  let kind ← getStr j "kind"
  let raised ← getBool j "raised"
  let tmp0 ← getNats j "tmp0"
  let trJ ← getArr j "trace"
  let mut tr : List Cache.Step := []
  for s in trJ do
    tr := tr ++ [← parseStep s]
  let s0 : Cache.St := ⟨tmp0.toList, false⟩
  let replay := tr.foldl Cache.apply s0
  if kind == "object" then
    match Cache.matchObject s0 tr raised with
    | some (f, inner, fl) =>
      let r := Cache.objectCall s0 f inner fl
      return Json.mkObj [("isRun", true), ("f", jNat f), ("nInner", jNat inner.length), ("fault", jFault fl),
        ("final", jSt r.1), ("propagated", r.2), ("replay", jSt replay), ("fresh", !(tmp0.toList.contains f))]
    | none => return Json.mkObj [("isRun", false), ("replay", jSt replay)]
  else
    match Cache.matchFile tr raised with
    | some (inner, fl) =>
      let r := Cache.fileCall s0 inner fl
      return Json.mkObj [("isRun", true), ("nInner", jNat inner.length), ("fault", jFault fl),
        ("final", jSt r.1), ("propagated", r.2), ("replay", jSt replay), ("fresh", true)]
    | none => return Json.mkObj [("isRun", false), ("replay", jSt replay)]

def cacheOps : List (String × H) := [("cache.run", cacheRunOp)]

end Drive
