import JokerVerif.Drive.Common
import JokerVerif.Model.Store
/-! Driver handlers for C12: an operation history is run through the `Store` model (values are `Float`s
travelling as 64-bit patterns).

`store.run`:
```
{"op":"store.run","fmt":"hdf5"|"fits",
 "tables":[{"cols":[{"name":s,"unit":s,"dtype":s,"vals":[bits…]}…],"tref":s|null,"pt":n,"no":n}…],
 "conv":[[from,to,bits|null]…],
 "ops":[{"k":"write","t":i,"ov":b,"ap":b} | {"k":"read"} |
        {"k":"batch","cols":[s…],"units":[[name,unit]…],
         "sel":{"slice":[a|null,b|null,st|null]} | {"idx":[i…]} |
               {"random":size,"choice":[i…]|null,"n":recN,"size":recSize}}…]}
→ {"results":[{"ok":true} | {"err":kind} | {"table":T} | {"arr":[[bits…]…]}…],"state":T|null}
```
For a random read the harness passes what it recorded at the generator: the arguments `(n, size)` of the
`choice` call and its answer; the model's chooser answers only the call with exactly those arguments. -/
open Lean Drive
namespace Drive

private def errName : Store.Err → String
  | .exists => "exists" | .incompatible => "incompatible" | .noFile => "nofile" | .notImpl => "notimpl"
  | .key => "key" | .index => "index" | .value => "value" | .units => "units" | .choice => "choice"

def optStr (j : Json) (k : String) : Except String (Option String) :=
  match j.getObjVal? k with
  | .ok .null => .ok none
  | .ok v => (fromJson? v : Except String String).map some
  | .error _ => .ok none

def optIntJ (v : Json) : Except String (Option Int) :=
  match v with
  | .null => .ok none
  | v => (fromJson? v : Except String Int).map some

def parseCol (j : Json) : Except String (Store.Col Float) := do
  let name ← getStr j "name"; let unit ← getStr j "unit"; let dtype ← getStr j "dtype"
  let vals ← getFloats j "vals"
  return ⟨⟨name, unit, dtype⟩, vals.toList⟩

def parseTable (j : Json) : Except String (Store.Table Float) := do
  let cols ← (← getArr j "cols").toList.mapM parseCol
  let tref ← optStr j "tref"
  let pt ← getNat j "pt"; let no ← getNat j "no"
  return ⟨cols, ⟨tref, pt, no⟩⟩

def jTable (t : Store.Table Float) : Json :=
  Json.mkObj [
    ("cols", Json.arr (t.cols.map fun c => Json.mkObj [("name", c.hdr.name), ("unit", c.hdr.unit),
      ("dtype", c.hdr.dtype), ("vals", jFloats c.vals)]).toArray),
    ("tref", match t.md.tRef with | some s => Json.str s | none => Json.null),
    ("pt", jNat t.md.polyTrend), ("no", jNat t.md.nOffsets)]

def jState : Store.State Float → Json
  | none => Json.null
  | some t => jTable t

def parseConv (a : Array Json) : Except String (String → String → Option Float) := do
  let rows ← a.toList.mapM fun r => do
    let v ← (fromJson? r : Except String (Array Json))
    if v.size != 3 then throw "conv row" else
    let f ← (fromJson? v[0]! : Except String String)
    let t ← (fromJson? v[1]! : Except String String)
    let x ← match v[2]! with
      | .null => pure none
      | b => (fromJson? b : Except String Nat).map fun n => some (floatOfBits n)
    pure ((f, t), x)
  return fun f t => match rows.lookup (f, t) with
    | some x => x
    | none => none

def parsePairs (a : Array Json) : Except String (List (String × String)) :=
  a.toList.mapM fun r => do
    let v ← (fromJson? r : Except String (Array String))
    if v.size != 2 then throw "units row" else pure (v[0]!, v[1]!)

/-- selection + the chooser the random branch may consult -/
def parseSel (j : Json) : Except String (Store.Sel × (Nat → Nat → Option (List Nat))) := do
  let noChoice : Nat → Nat → Option (List Nat) := fun _ _ => none
  match j.getObjVal? "slice" with
  | .ok v =>
    let a ← (fromJson? v : Except String (Array Json))
    if a.size != 3 then throw "slice" else
    return (.slice (← optIntJ a[0]!) (← optIntJ a[1]!) (← optIntJ a[2]!), noChoice)
  | .error _ =>
  match j.getObjVal? "idx" with
  | .ok v => return (.idx (← (fromJson? v : Except String (Array Int))).toList, noChoice)
  | .error _ =>
    let size ← getNat j "random"
    let recN ← optNat j "n"; let recSize ← optNat j "size"
    let choice ← match j.getObjVal? "choice" with
      | .ok .null => pure none
      | .ok v => (fromJson? v : Except String (Array Nat)).map fun a => some a.toList
      | .error _ => pure none
    let chooser : Nat → Nat → Option (List Nat) := fun n s =>
      if recN == some n && recSize == some s then choice else none
    return (.random size, chooser)

def storeRunOp : H := fun j => do
  let fmt ← match (← getStr j "fmt") with
    | "hdf5" => pure Store.Fmt.hdf5
    | "fits" => pure Store.Fmt.fits
    | s => throw s!"fmt {s}"
  let tables ← (← getArr j "tables").mapM parseTable
  let conv ← parseConv (← getArr j "conv")
  let ops ← getArr j "ops"
  let mut s : Store.State Float := none
  let mut out : Array Json := #[]
  for o in ops do
    match (← getStr o "k") with
    | "write" =>
      let ti ← getNat o "t"; let ov ← getBool o "ov"; let ap ← getBool o "ap"
      match tables[ti]? with
      | none => throw "table index"
      | some t =>
        let (s', r) := Store.step fmt conv s (.write t ov ap)
        s := s'
        out := out.push (match r with
          | .done => Json.mkObj [("ok", true)]
          | .err e => Json.mkObj [("err", errName e)]
          | _ => Json.null)
    | "read" =>
      let (_, r) := Store.step fmt conv s .read
      out := out.push (match r with
        | .table t => Json.mkObj [("table", jTable t)]
        | .err e => Json.mkObj [("err", errName e)]
        | _ => Json.null)
    | "batch" =>
      let cols ← (o.getObjValAs? (Array String) "cols")
      let units ← parsePairs (← getArr o "units")
      let (sel, chooser) ← parseSel (← o.getObjVal? "sel")
      match Store.readBatch chooser conv s ⟨cols.toList, sel, units⟩ with
      | .ok a => out := out.push (Json.mkObj [("arr", Json.arr (a.map jFloats).toArray)])
      | .error e => out := out.push (Json.mkObj [("err", errName e)])
    | k => throw s!"op kind {k}"
  return Json.mkObj [("results", Json.arr out), ("state", jState s)]

/-- the rows a selection denotes (used by the harness to cross-check its own row oracle) -/
def storeRowsOp : H := fun j => do
  let n ← getNat j "n"
  let (sel, chooser) ← parseSel (← j.getObjVal? "sel")
  match Store.resolve chooser n sel with
  | .ok rows => return Json.mkObj [("rows", jNats rows)]
  | .error e => return Json.mkObj [("err", errName e)]

def storeOps : List (String × H) := [("store.run", storeRunOp), ("store.rows", storeRowsOp)]

end Drive
