import JokerVerif.Drive.Common
/-! Driver handlers for C12 (to be filled in). -/
open Lean Drive
namespace Drive

def storeOps : List (String × H) := []

end Drive
