import JokerVerif.Drive.Common
/-! Driver handlers for C10 (to be filled in). -/
open Lean Drive
namespace Drive

def rngOps : List (String × H) := []

end Drive
