import JokerVerif.Drive.Common
import JokerVerif.Model.Rng
/-! Driver handlers for C10: execute the seed-sequence / generator model of `Model/Rng.lean`. -/
open Lean Drive

namespace Drive

private def jKey (s : Rng.SeedSeq) : Json :=
  Json.mkObj [("key", jNats s.key), ("entropy", toString s.entropy), ("nSpawned", jNat s.nSpawned)]

/-- `rng.spawnTrace`: parent generator `(entropy, key, nSpawned, pos)` and the events of a whole history
(`{"draw": n}` / `{"spawn": m}`) → what an observer must record, and the final parent state -/
def rngSpawnTraceOp : H := fun j => do
  let ent ← getStr j "entropy"
  let some entropy := ent.toNat? | throw "entropy must be a decimal string"
  let key ← getNats j "key"
  let nsp ← getNat j "nSpawned"
  let pos ← getNat j "pos"
  let evsJ ← getArr j "events"
  let mut evs : List Rng.Ev := []
  for e in evsJ do
    match e.getObjValAs? Nat "draw" with
    | .ok n => evs := evs ++ [Rng.Ev.draw n]
    | .error _ =>
      let m ← getNat e "spawn"
      evs := evs ++ [Rng.Ev.spawn m]
  let g : Rng.Gen := ⟨⟨entropy, key.toList, nsp⟩, pos⟩
  let r := Rng.run g evs
  let obs := r.2.map fun
    | .segment s n => Json.mkObj [("segment", jNats [s, n])]
    | .children ks => Json.mkObj [("children", Json.arr (ks.map jKey).toArray)]
  return Json.mkObj [("obs", Json.arr obs.toArray), ("pos", jNat r.1.pos),
    ("nSpawned", jNat r.1.ss.nSpawned), ("key", jNats r.1.ss.key),
    ("childKeys", Json.arr ((Rng.kidsOf r.2).map (fun c => jNats c.key)).toArray)]

/-- `rng.callEvents`: the event encoding of one public call (file path / in-memory path) -/
def rngCallEventsOp : H := fun j => do
  let rounds ← getNats j "rounds"
  let inmem ← getBool j "inMemory"
  let evs ←
    if inmem then do
      let nMvn ← getNat j "nMvn"
      let nSh ← getNat j "nShuffle"
      pure (Rng.inmemCallEvents nSh rounds.toList nMvn)
    else do
      let nSh ← getNat j "nShuffle"
      let nT ← getNat j "nTasks"
      pure (Rng.fileCallEvents nSh rounds.toList nT)
  let out := evs.map fun
    | .draw n => Json.mkObj [("draw", jNat n)]
    | .spawn m => Json.mkObj [("spawn", jNat m)]
  return Json.mkObj [("events", Json.arr out.toArray)]

def rngOps : List (String × H) :=
  [("rng.spawnTrace", rngSpawnTraceOp), ("rng.callEvents", rngCallEventsOp)]

end Drive
