import JokerVerif.Drive.Common
import JokerVerif.Model.Hist
/-! Driver handlers for C05: execute the helper machine of `Model/Hist.lean`.

Scalars are tokens (`Nat`): a library row is represented by its index, the "fresh" value of a row (what a
pristine helper returns for that row alone, measured by the harness on the real code) by its 64-bit pattern.
The external routines and the numeric core are instantiated so that the three buffers a step rewrites carry
the identity of the current row and everything the previous rows left behind stays in `work` — the model's
answer is computed by really running `runMarg` / `runBatches` / `runOps` through dirty helpers. -/
open Lean Drive

namespace Drive

private def hX : Hist.Ext Nat :=
  ⟨fun _ _ θ => [θ.P], fun _ _ _ P e => P + e, fun iv s => iv + s⟩

private def hTheta (row : Nat) : Hist.Theta Nat := ⟨row, 0, 0, 0, row⟩

private def hImm : Hist.Imm Nat := ⟨[0], [0], [1], 0, [], [0], [], false, 0, 0, 0, 0⟩

private def hWorker (fresh : Array Nat) : Hist.Worker Nat :=
  fun _ row0 sIvar lam0 => (fresh.getD (row0.headD 0) 0, row0 ++ sIvar ++ [lam0])

private def hPostWorker (fresh : Array Nat) : Hist.PostWorker Nat :=
  fun _ row0 sIvar lam0 z => (fresh.getD (row0.headD 0) 0 :: z, sIvar ++ row0 ++ [lam0])

/-- helpers for the blocks of one call: `reuse` = one object serving every block in turn (serial pool),
otherwise a rebuilt helper per task (pickled to a worker process) -/
private def helpersFor (w : Hist.Worker Nat) (reuse : Bool) (h0 : Hist.Helper Nat) :
    List (List (Hist.Theta Nat)) → List (Hist.Helper Nat) × Hist.Helper Nat
  | [] => ([], h0)
  | p :: ps =>
    if reuse then
      let h1 := (Hist.runMarg hX w h0 p).1
      let r := helpersFor w reuse h1 ps
      (h0 :: r.1, r.2)
    else
      let r := helpersFor w reuse h0 ps
      (Hist.rebuild 0 (Hist.reduce h0) :: r.1, r.2)

/-- `hist.run`: a sequence of `marginal_ln_likelihood`-like calls on one sampler.
`rows` = library rows in request order, `nb` = n_batches (null → max(1, poolSize)), `reuse` as above. -/
def histRunOp : H := fun j => do
  let fresh ← getNats j "fresh"
  let calls ← getArr j "calls"
  let w := hWorker fresh
  let mut h : Hist.Helper Nat := ⟨hImm, ⟨[], [], 0, []⟩⟩
  let mut outs : Array Json := #[]
  for c in calls do
    let rows ← getNats c "rows"
    let nb ← optInt c "nb"
    let ps ← getInt c "poolSize"
    let reuse ← getBool c "reuse"
    let nbEff := Batch.runWorkerNBatches nb ps
    let lib := rows.toList.map hTheta
    let parts := Hist.blocks lib nbEff
    let (hs, hEnd) := helpersFor w reuse h parts
    let lls := Hist.runBatches hX w hs parts
    h := hEnd
    outs := outs.push (Json.mkObj [("lls", jNats lls),
      ("tasks", jPairs (Batch.batchTasks rows.size nbEff 0))])
  return Json.mkObj [("calls", Json.arr outs)]

/-- `hist.ops`: an arbitrary interleaving of marginal-likelihood and posterior-draw steps on ONE helper that
starts with garbage in its scratch buffers; answer = outputs in order -/
def histOpsOp : H := fun j => do
  let fresh ← getNats j "fresh"
  let pfresh ← getNats j "postFresh"
  let ops ← getArr j "ops"
  let mut l : List (Hist.Op Nat) := []
  for o in ops do
    let k ← getStr o "k"
    let row ← getNat o "row"
    l := l ++ [if k == "post" then Hist.Op.post (hTheta row) [] else Hist.Op.marg (hTheta row)]
  let h : Hist.Helper Nat := ⟨hImm, ⟨[77], [78], 79, [80, 81]⟩⟩
  let r := Hist.runOps hX (hWorker fresh) (hPostWorker pfresh) h l
  let out := r.2.map fun
    | .ll v => jNat v
    | .row rr => jNats rr
  return Json.mkObj [("out", Json.arr out.toArray)]

private def fmax (l : List Float) : Float :=
  match l with
  | [] => 0.0
  | a :: r => r.foldl (fun m x => if m < x then x else m) a

/-- `hist.accepted`: the rejection step on given likelihoods and uniforms (IEEE doubles),
`exp(ll - max) > u`, truncated to `maxPost` -/
def histAcceptedOp : H := fun j => do
  let lls ← getFloats j "lls"
  let uu ← getFloats j "uu"
  let mp ← getNat j "maxPost"
  let acc := Hist.accepted (fun ll mx u => decide (Float.exp (ll - mx) > u)) fmax lls.toList uu.toList mp
  return Json.mkObj [("accepted", jNats acc)]

def histOps : List (String × H) :=
  [("hist.run", histRunOp), ("hist.ops", histOpsOp), ("hist.accepted", histAcceptedOp)]

end Drive
