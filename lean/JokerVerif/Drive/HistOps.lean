import JokerVerif.Drive.Common
/-! Driver handlers for C05 (to be filled in). -/
open Lean Drive
namespace Drive

def histOps : List (String × H) := []

end Drive
