import JokerVerif.Drive.Common
import JokerVerif.Drive.SDCommon
import JokerVerif.Model.Samples
/-! Driver handlers for C17.  Doubles arrive as bit patterns and become exact rationals; unit scales arrive as
rational strings. -/
open Lean Drive Drive.SD
namespace Drive

/-- `samples.wrapK {K, omega, h}`: `h` = half a turn in the unit of the omega column -/
def samplesWrapKOp : H := fun j => do
  let K ← getRats j "K"; let om ← getRats j "omega"
  let h := (← getRat j "h") * (← optRatStr j "hscale" 1)
  if h ≤ 0 then throw "h<=0"
  let w := List.zipWith (Samples.wrapK Rat.floor h) K.toList om.toList
  return Json.mkObj [("K", jRats (w.map (·.1))), ("omega", jRats (w.map (·.2)))]

/-- `samples.timeWithPhase {tref, P, Pscale, M0, M0turn, phase, phaseturn}`: angles are sent with the size of a full
turn in their unit, the model works in turns (`twoPi = 1`) -/
def samplesTimeOp : H := fun j => do
  let tref ← getRat j "tref"
  let P ← getRats j "P"; let ps ← optRatStr j "Pscale" 1
  let M0 ← getRats j "M0"
  let m0turn := (← getRat j "M0turn") * (← optRatStr j "M0turnScale" 1)
  let ph ← getRat j "phase"
  let phturn := (← getRat j "phaseturn") * (← optRatStr j "phaseturnScale" 1)
  if m0turn == 0 || phturn == 0 then throw "turn=0"
  let ts := List.zipWith (fun p m => Samples.timeWithPhase 1 tref (p * ps) (m / m0turn) (ph / phturn)) P.toList M0.toList
  let back := List.zipWith (fun (pm : Rat × Rat) t => Samples.meanAnomaly 1 tref (pm.1 * ps) (pm.2 / m0turn) t)
    (List.zip P.toList M0.toList) ts
  return Json.mkObj [("t", jRats ts), ("meanAnomalyTurns", jRats back), ("phaseTurns", jRat (ph / phturn))]

private def idxTable (n p q : Nat) (tref : Option Rat) : Samples.Table Rat :=
  { cols := [{ name := "row", unit := ⟨"", 1⟩, vals := (List.range n).map fun (i : Nat) => (i : Rat) },
             { name := "P", unit := ⟨"d", 1⟩, vals := (List.range n).map fun (i : Nat) => (i : Rat) }],
    md := { tref := tref, polyTrend := p, nOffsets := q } }

private def jTableRows (r : Except String (Samples.Table Rat)) : Json :=
  match r with
  | .error e => Json.mkObj [("error", e)]
  | .ok t =>
    let rows := match t.cols with
      | [] => []
      | c :: _ => c.vals.map fun v => v.num.toNat
    let same := t.cols.all fun c => c.vals.map (fun v => v.num.toNat) == rows
    Json.mkObj [("rows", jNats rows), ("allColumnsSameRows", Json.bool same),
      ("headers", Json.arr (t.headers.map fun h => Json.arr #[Json.str h.1, Json.str h.2]).toArray),
      ("polyTrend", jNat t.md.polyTrend), ("nOffsets", jNat t.md.nOffsets), ("tref", jOptRat t.md.tref)]

/-- `samples.index {n, kind: int|idx|mask|slice|copy, ...}` on a table whose rows are numbered -/
def samplesIndexOp : H := fun j => do
  let n ← getNat j "n"; let kind ← getStr j "kind"
  let p ← getNat j "polyTrend"; let q ← getNat j "nOffsets"
  let tref ← match j.getObjVal? "tref" with
    | .ok .null => pure none
    | .ok _ => (some <$> getRat j "tref")
    | .error _ => pure none
  let t := idxTable n p q tref
  match kind with
  | "int" => return jTableRows (Samples.getInt t (← getInt j "i"))
  | "idx" => return jTableRows (Samples.getIdx t (← getInts j "idx").toList)
  | "mask" =>
    let m ← j.getObjValAs? (Array Bool) "mask"
    return jTableRows (Samples.getMask t m.toList)
  | "slice" => return jTableRows (Samples.getSlice t (← optInt j "start") (← optInt j "stop") ((← optInt j "step").getD 1))
  | "copy" => return jTableRows (.ok (Samples.copy t))
  | _ => throw "kind"

/-- `samples.median {P}`: the ⌊N/2⌋-th order statistic and the rows holding it -/
def samplesMedianOp : H := fun j => do
  let P ← getRats j "P"
  return Json.mkObj [("value", jOptRat (Samples.medianValue P.toList)),
    ("candidates", jNats (Samples.medianCandidates P.toList))]

/-- `samples.reduce {cols}`: exact mean and exact population variance of every column -/
def samplesReduceOp : H := fun j => do
  let cols ← getArr j "cols"
  let cs ← cols.toList.mapM fun c => do
    let a ← (fromJson? c : Except String (Array Nat))
    if a.all isFiniteBits then pure (a.toList.map fun v => ratOfBits v.toUInt64) else throw "non-finite"
  let one (f : List Rat → Except String (List Rat)) (v : List Rat) : Json :=
    match f v with
    | .ok [x] => jRat x
    | _ => Json.null
  return Json.mkObj [("mean", Json.arr (cs.map (one Samples.meanOf)).toArray),
    ("var", Json.arr (cs.map (one (Samples.stdOf id))).toArray)]

/-- `samples.pack {cols:[{name,label,scale,vals}], names:[..], units:{name:{label,scale}}, tref?, polyTrend, nOffsets}`
→ packed rows, units used, and the table obtained by unpacking again -/
def samplesPackOp : H := fun j => do
  let cols ← getArr j "cols"
  let cs ← cols.toList.mapM fun c => do
    let nm ← getStr c "name"; let lb ← getStr c "label"
    let sc ← ratOfString (← getStr c "scale")
    let vals ← getRats c "vals"
    pure ({ name := nm, unit := ⟨lb, sc⟩, vals := vals.toList } : Samples.Col Rat)
  let names ← j.getObjValAs? (Array String) "names"
  let uj ← j.getObjVal? "units"
  let units : String → Option (Samples.QUnit Rat) := fun nm =>
    match uj.getObjVal? nm with
    | .ok o => match getStr o "label", (getStr o "scale" >>= ratOfString) with
      | .ok lb, .ok sc => some ⟨lb, sc⟩
      | _, _ => none
    | .error _ => none
  let md : Samples.Meta Rat := { tref := none, polyTrend := (← getNat j "polyTrend"), nOffsets := (← getNat j "nOffsets") }
  let t : Samples.Table Rat := { cols := cs, md := md }
  match Samples.pack t names.toList units with
  | .error e => return Json.mkObj [("error", e)]
  | .ok (rows, us) =>
    let t' := Samples.unpack rows us md
    return Json.mkObj [("rows", Json.arr (rows.map jRats).toArray),
      ("units", Json.arr (us.map fun u => Json.arr #[Json.str u.1, Json.str u.2.label]).toArray),
      ("unpacked", Json.arr (t'.cols.map fun c => Json.mkObj [("name", Json.str c.name), ("label", Json.str c.unit.label),
         ("vals", jRats c.vals)]).toArray),
      ("polyTrend", jNat t'.md.polyTrend), ("nOffsets", jNat t'.md.nOffsets)]

def samplesOps : List (String × H) :=
  [("samples.wrapK", samplesWrapKOp), ("samples.timeWithPhase", samplesTimeOp), ("samples.index", samplesIndexOp),
   ("samples.median", samplesMedianOp), ("samples.reduce", samplesReduceOp), ("samples.pack", samplesPackOp)]

end Drive
