import JokerVerif.Drive.Common
/-! Driver handlers for C17 (to be filled in). -/
open Lean Drive
namespace Drive

def samplesOps : List (String × H) := []

end Drive
