import JokerVerif.Drive.Common
/-! Helpers shared by the C17 / C19 driver handlers: IEEE doubles as exact rationals. -/
open Lean
namespace Drive.SD

/-- exact rational value of an IEEE-754 binary64 bit pattern (finite values only; inf/nan are rejected before) -/
def ratOfBits (b : UInt64) : Rat :=
  let sign : Int := if b >>> 63 == 1 then -1 else 1
  let e := ((b >>> 52) &&& 0x7ff).toNat
  let m := (b &&& 0xfffffffffffff).toNat
  if e == 0 then (sign * (m : Int) : Rat) / ((2 : Rat) ^ 1074)
  else
    let mant : Int := sign * ((m + 2 ^ 52 : Nat) : Int)
    if e ≥ 1075 then (mant : Rat) * (2 : Rat) ^ (e - 1075) else (mant : Rat) / (2 : Rat) ^ (1075 - e)

def isFiniteBits (b : Nat) : Bool := ((b.toUInt64 >>> 52) &&& 0x7ff) != 0x7ff

def getRats (j : Json) (k : String) : Except String (Array Rat) := do
  let a ← Drive.getNats j k
  if a.all isFiniteBits then return a.map fun v => ratOfBits v.toUInt64
  else throw s!"non-finite double in {k}"

def getRat (j : Json) (k : String) : Except String Rat := do
  let v ← Drive.getNat j k
  if isFiniteBits v then return ratOfBits v.toUInt64 else throw s!"non-finite double in {k}"

/-- parse "p/q" or "p" -/
def ratOfString (s : String) : Except String Rat :=
  match s.splitOn "/" with
  | [a] => match a.trimAscii.toString.toInt? with
    | some n => .ok (n : Rat)
    | none => .error s!"bad rational {s}"
  | [a, b] => match a.trimAscii.toString.toInt?, b.trimAscii.toString.toNat? with
    | some n, some d => if d == 0 then .error "zero denominator" else .ok ((n : Rat) / (d : Rat))
    | _, _ => .error s!"bad rational {s}"
  | _ => .error s!"bad rational {s}"

/-- optional exact rational field given as a string, default `dflt` -/
def optRatStr (j : Json) (k : String) (dflt : Rat) : Except String Rat :=
  match j.getObjValAs? String k with
  | .ok s => ratOfString s
  | .error _ => .ok dflt

def jRat (r : Rat) : Json := Json.str (toString r)
def jRats (l : List Rat) : Json := Json.arr (l.map jRat).toArray
def jOptRat : Option Rat → Json
  | some r => jRat r
  | none => Json.null
def jOptNat : Option Nat → Json
  | some r => Drive.jNat r
  | none => Json.null

end Drive.SD
