import JokerVerif.Drive.Common
/-! Driver handlers for C01 C03 C04 C07 (to be filled in). -/
open Lean Drive
namespace Drive

def kernelOps : List (String × H) := []

end Drive
