import JokerVerif.Drive.Common
import JokerVerif.Model.Kernel
import JokerVerif.Model.Units
import JokerVerif.Lemmas.SlotLemmas
import JokerVerif.Model.KernelCert
/-! Driver handlers for C01 C03 C04 C07: the kernel evaluated exactly over `ℚ`
(every IEEE double is a rational; inputs arrive as 64-bit patterns). -/
open Lean Drive

namespace Drive

/-- exact rational value of an IEEE-754 binary64 bit pattern (finite values only) -/
private def ratOfBits (b : Nat) : Rat :=
  let sign : Int := if (b / 2^63) % 2 == 1 then -1 else 1
  let e : Nat := (b / 2^52) % 2048
  let m : Nat := b % 2^52
  if e == 0 then ((sign * Int.ofNat m : Int) : Rat) / ((2:Rat) ^ 1074)
  else
    let mant : Int := sign * Int.ofNat (m + 2^52)
    if e ≥ 1075 then (mant : Rat) * (2:Rat) ^ (e - 1075) else (mant : Rat) / (2:Rat) ^ (1075 - e)

private def isFiniteBits (b : Nat) : Bool := (b / 2^52) % 2048 != 2047

private def getRats (j : Json) (k : String) : Except String (Array Rat) := do
  let a ← getNats j k
  if a.all isFiniteBits then return a.map ratOfBits else throw s!"non-finite double in {k}"

private def getRat (j : Json) (k : String) : Except String Rat := do
  let b ← getNat j k
  if isFiniteBits b then return ratOfBits b else throw s!"non-finite double in {k}"

private def jRat (q : Rat) : Json := Json.str (toString q)
private def jRats (a : List Rat) : Json := Json.arr (a.map jRat).toArray

/-- parse "p/q" or "p" -/
private def parseRat (s : String) : Except String Rat :=
  match s.splitOn "/" with
  | [p] => match p.toInt? with
    | some a => .ok (a : Rat)
    | none => .error s!"bad rational {s}"
  | [p, q] => match p.toInt?, q.toNat? with
    | some a, some b => if b == 0 then .error "zero denominator" else .ok ((a : Rat) / (b : Rat))
    | _, _ => .error s!"bad rational {s}"
  | _ => .error s!"bad rational {s}"

private def getRatStrs (j : Json) (k : String) : Except String (Array Rat) := do
  let a ← j.getObjValAs? (Array String) k
  a.mapM parseRat

private def vecOf (a : Array Rat) (n : Nat) : Vector Rat n := Vector.ofFn fun i => a.getD i.val 0

def mkKIn (j : Json) : Except String (Σ n k, Kernel.KIn n k Rat) := do
  let n ← getNat j "n"; let k ← getNat j "k"
  let M ← getRats j "M"; let y ← getRats j "y"; let iv ← getRats j "ivar"
  let mu ← getRats j "mu"; let lam ← getRats j "lam"; let s ← getRat j "s"
  if M.size != n * k || y.size != n || iv.size != n || mu.size != k || lam.size != k then
    throw "shape mismatch"
  return ⟨n, k, { M := .ofFn fun i jj => M.getD (i.val * k + jj.val) 0, y := vecOf y n, ivar := vecOf iv n,
                  s := s, mu := vecOf mu k, lam := vecOf lam k }⟩

/-- same input, every number given as an exact rational string "p/q" -/
def mkKInQ (j : Json) : Except String (Σ n k, Kernel.KIn n k Rat) := do
  let n ← getNat j "n"; let k ← getNat j "k"
  let M ← getRatStrs j "M"; let y ← getRatStrs j "y"; let iv ← getRatStrs j "ivar"
  let mu ← getRatStrs j "mu"; let lam ← getRatStrs j "lam"; let s ← parseRat (← getStr j "s")
  if M.size != n * k || y.size != n || iv.size != n || mu.size != k || lam.size != k then
    throw "shape mismatch"
  return ⟨n, k, { M := .ofFn fun i jj => M.getD (i.val * k + jj.val) 0, y := vecOf y n, ivar := vecOf iv n,
                  s := s, mu := vecOf mu k, lam := vecOf lam k }⟩

/-- chi², det B (fast form), a, A; `"singular"` if `det Ainv = 0` or a prior variance / inverse variance is 0
(the real code returns `+inf` / a non-finite value there) -/
def kernelEvalCore (j : Json) (inp : Σ n k, Kernel.KIn n k Rat) : Except String Json := do
  let ⟨n, k, x⟩ := inp
  let sv := Kernel.sIvar x
  if (List.finRange n).any (fun i => sv[i] == 0) || (List.finRange k).any (fun jj => x.lam[jj] == 0) then
    return Json.mkObj [("singular", Json.str "zero variance")]
  let Ainv := Kernel.kAinv x
  if Ainv.toM.det == 0 then return Json.mkObj [("singular", Json.str "det Ainv = 0")]
  let full := (j.getObjValAs? Bool "full").toOption.getD false
  let base := [("chi2", jRat (Kernel.kchi2 x)), ("detB", jRat (Kernel.kdetFast x)),
               ("a", jRats (Kernel.ka x).toList),
               ("A", Json.arr ((Kernel.kA x).toLists.map jRats).toArray)]
  let extra := if full then
      [("B", Json.arr ((Kernel.kB x).toLists.map jRats).toArray),
       ("Binv", Json.arr ((Kernel.kBinv x).toLists.map jRats).toArray),
       ("Ainv", Json.arr (Ainv.toLists.map jRats).toArray),
       ("b", jRats (Kernel.kb x).toList)] else []
  return Json.mkObj (base ++ extra)

def kernelEvalOp : H := fun j => do kernelEvalCore j (← mkKIn j)
def kernelEvalQOp : H := fun j => do kernelEvalCore j (← mkKInQ j)

def matOfStrs (j : Json) (key : String) (k : Nat) : Except String (Mat k k Rat) := do
  let a ← getRatStrs j key
  if a.size != k * k then throw s!"shape mismatch in {key}"
  return .ofFn fun i jj => a.getD (i.val * k + jj.val) 0

/-- certified evaluation (any size): rational inputs plus an inverse certificate `X` and an LU certificate `L`, `U`
for `A⁻¹`; the answer carries the outcome of the checks and is meaningful only if both are `true` -/
def kernelEvalCertOp : H := fun j => do
  let ⟨n, k, x⟩ ← mkKInQ j
  let X ← matOfStrs j "X" k; let L ← matOfStrs j "L" k; let U ← matOfStrs j "U" k
  let okInv := Kernel.checkInv x X
  let okLU := Kernel.checkLU x L U
  if !(okInv && okLU) then
    return Json.mkObj [("checkInv", Json.bool okInv), ("checkLU", Json.bool okLU)]
  return Json.mkObj [("checkInv", Json.bool okInv), ("checkLU", Json.bool okLU),
                     ("chi2", jRat (Kernel.kchi2With x X)), ("detB", jRat (Kernel.kdetCert x U)),
                     ("a", jRats (Kernel.kaWith x X).toList)]

def lambdaKOp : H := fun j => do
  let s0 ← getRat j "sigmaK0"; let mk ← getRat j "maxK"; let e ← getRat j "e"; let pw ← getRat j "pw"
  if 1 - e ^ 2 == 0 then return Json.mkObj [("singular", Json.str "e = 1")]
  return Json.mkObj [("lamK", jRat (Kernel.lambdaK s0 mk e pw))]

/-- design row `[kep | 1 | indicators | powers of dt]` -/
def designRowOp : H := fun j => do
  let kep ← getRat j "kep"; let dt ← getRat j "dt"
  let id ← getNat j "id"; let q ← getNat j "q"; let p ← getNat j "p"
  return Json.mkObj [("row", jRats (Kernel.designRow kep dt id q p))]

/-- slots in column order from a prior description -/
def slotsOp : H := fun j => do
  let K ← getRats j "K"; let v0 ← getRats j "v0"
  let offM ← getRats j "offMu"; let offV ← getRats j "offVar"
  let trM ← getRats j "trMu"; let trV ← getRats j "trVar"
  let pr : Kernel.LinPrior Rat :=
    { K := (K.getD 0 0, K.getD 1 0), v0 := (v0.getD 0 0, v0.getD 1 0),
      offsets := offM.toList.zip offV.toList, trend := trM.toList.zip trV.toList }
  let sl := Kernel.slots pr
  let si := Kernel.slotsImp pr
  return Json.mkObj [("mu", jRats (sl.map (·.1))), ("lam", jRats (sl.map (·.2))),
                     ("muImp", jRats (si.map (·.1))), ("lamImp", jRats (si.map (·.2)))]

/-- `Quantity.to_value`: value (double bits) in a unit of exact rational scale, converted to a target scale -/
def unitsConvOp : H := fun j => do
  let v ← getRat j "value"
  let sc ← parseRat (← getStr j "scale")
  let tg ← parseRat (← getStr j "target")
  if tg == 0 then throw "zero target scale"
  return Json.mkObj [("value", jRat (Units.conv ⟨v, sc⟩ tg))]

def kernelOps : List (String × H) :=
  [("kernel.eval", kernelEvalOp), ("kernel.evalq", kernelEvalQOp), ("kernel.evalcert", kernelEvalCertOp), ("kernel.lambdaK", lambdaKOp), ("kernel.designRow", designRowOp),
   ("kernel.slots", slotsOp), ("units.conv", unitsConvOp)]

end Drive
