import JokerVerif.Drive.Common
import JokerVerif.Model.Mcmc
/-! Driver handlers for C11: the MCMC model executed at `Float`, with a Kepler solver written here (an oracle
of the harness, not part of the theorems: the theorems hold for every true-anomaly function). -/
open Lean Drive

namespace Drive
open Mcmc

def twoPiF : Float := 2 * 3.141592653589793

/-- eccentric anomaly by safeguarded Newton iteration on `[-π, π]` -/
def keplerE (M e : Float) : Float := Id.run do
  let m := M - twoPiF * Float.round (M / twoPiF)
  let mut lo : Float := -3.141592653589793
  let mut hi : Float := 3.141592653589793
  let mut E := if e < 0.8 then m else (if m < 0 then -3.141592653589793 / 2 else 3.141592653589793 / 2)
  for _ in [0:80] do
    let g := E - e * Float.sin E - m
    if g > 0 then hi := E else lo := E
    let step := g / (1 - e * Float.cos E)
    let En := E - step
    E := if En > lo && En < hi then En else (lo + hi) / 2
  return E

/-- true anomaly at mean anomaly `M` -/
def trueAnomF (M e : Float) : Float :=
  let E := keplerE M e
  2 * Float.atan2 (Float.sqrt (1 + e) * Float.sin (E / 2)) (Float.sqrt (1 - e) * Float.cos (E / 2))

def floatMcmcFn : Mcmc.Fn Float := ⟨Float.cos, Float.sin, Float.log, 3.141592653589793, trueAnomF⟩

def parsePar (j : Json) : Except String (Par Float) := do
  return { P := ← getFloat j "P", e := ← getFloat j "e", omega := ← getFloat j "omega", M0 := ← getFloat j "M0",
           s := ← getFloat j "s", K := ← getFloat j "K", v := (← getFloats j "v").toList, dv := (← getFloats j "dv").toList }

def parseUnits (j : Json) : Except String (Units Float) := do
  return { cP := ← getFloat j "cP", cOmega := ← getFloat j "cOmega", cM0 := ← getFloat j "cM0", cS := ← getFloat j "cS",
           cK := ← getFloat j "cK", cV := (← getFloats j "cV").toList, cDv := (← getFloats j "cDv").toList }

def parseObs (j : Json) : Except String (Obs Float) := do
  return { x := ← getFloat j "x", label := ← getNat j "label", y := ← getFloat j "y", sigma := ← getFloat j "sigma" }

def mcmcRvOp : H := fun j => do
  let p ← parsePar (← j.getObjVal? "par")
  let u ← parseUnits (← j.getObjVal? "units")
  let obs ← (← getArr j "obs").toList.mapM parseObs
  let pi := toInternal u p
  let F := floatMcmcFn
  return Json.mkObj [
    ("mcmc", jFloats (obs.map (mcmcRV F pi))),
    ("sampler", jFloats (obs.map (samplerRV F pi))),
    ("data", jNat (bitsOfFloat (dataTerm F pi (mcmcRV F) obs))),
    ("dataSampler", jNat (bitsOfFloat (dataTerm F pi (samplerRV F) obs))),
    ("internal", Json.mkObj [("P", jNat (bitsOfFloat pi.P)), ("K", jNat (bitsOfFloat pi.K)), ("s", jNat (bitsOfFloat pi.s)),
                             ("v", jFloats pi.v), ("dv", jFloats pi.dv)])]

def mcmcMedianOp : H := fun j => do
  let ps ← getFloats j "P"
  match medianIdx ps.toList with
  | some i => return Json.mkObj [("idx", jNat i)]
  | none => return Json.mkObj [("idx", Json.null)]

def mcmcDiagOp : H := fun j => do
  let d := diagnostics (← getFloat j "lnPrior") (← getFloat j "data")
  return Json.mkObj [("logp", jNat (bitsOfFloat d.logp)), ("lnLikelihood", jNat (bitsOfFloat d.lnLikelihood)),
                     ("lnPrior", jNat (bitsOfFloat d.lnPrior))]

def mcmcOps : List (String × H) :=
  [("mcmc.rv", mcmcRvOp), ("mcmc.median", mcmcMedianOp), ("mcmc.diag", mcmcDiagOp)]

end Drive
