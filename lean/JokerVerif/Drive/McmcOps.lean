import JokerVerif.Drive.Common
/-! Driver handlers for C11 (to be filled in). -/
open Lean Drive
namespace Drive

def mcmcOps : List (String × H) := []

end Drive
