import JokerVerif.Drive.Common
/-! Driver handlers for C08 C15 (to be filled in). -/
open Lean Drive
namespace Drive

def dataOps : List (String × H) := []

end Drive
