import JokerVerif.Drive.Common
import JokerVerif.Model.Data
/-! Driver handlers for C08 / C15: the `Data` model executed at `Float` (doubles travel as bit patterns). -/
open Lean Drive

namespace Drive

/-- numpy's sort order on doubles: `NaN` sorts last -/
def npLe (a b : Float) : Bool := decide (a ≤ b) || b.isNaN

def finF (x : Float) : Bool := x.isFinite

private def errName : Data.Err → String
  | .value => "value" | .type => "type" | .notimpl => "notimpl" | .badperm => "badperm"

def getFloatMat (j : Json) (k : String) : Except String (List (List Float)) := do
  let rows ← getArr j k
  let rs ← rows.toList.mapM (fun r => (fromJson? r : Except String (Array Nat)))
  return rs.map (fun r => (r.toList.map floatOfBits))

def jFloatMat (m : List (List Float)) : Json := Json.arr (m.map jFloats).toArray

def jOptFloat : Option Float → Json
  | none => Json.null
  | some x => jNat (bitsOfFloat x)

def getUnc (j : Json) : Except String (Data.Unc Float) :=
  match j.getObjVal? "cov" with
  | .ok (.arr _) => do return .cov (← getFloatMat j "cov")
  | _ => do return .std (← getFloats j "err").toList

def getTRefArg (j : Json) : Except String (Data.TRefArg Float) := do
  let tr ← j.getObjVal? "tref"
  let kind ← getStr tr "kind"
  match kind with
  | "default" => return .default
  | "disabled" => return .disabled
  | "notTime" => return .notTime
  | "explicit" => return .explicit (← getFloat tr "value")
  | other => throw s!"bad tref kind {other}"

def jRV (d : Data.RV Float Float String) : Json :=
  let base := [("t", jFloats d.t), ("rv", jFloats d.rv), ("tref", jOptFloat d.tref),
               ("uRv", Json.str d.rvUnit), ("uErr", Json.str d.errUnit)]
  match d.unc with
  | .std e => Json.mkObj (base ++ [("err", jFloats e), ("ivar", jFloats (Data.ivarStd e))])
  | .cov c => Json.mkObj (base ++ [("cov", jFloatMat c)])

def getRV (j : Json) : Except String (Data.RV Float Float String) := do
  let t ← getFloats j "t"; let rv ← getFloats j "rv"
  let unc ← getUnc j
  let tref ← match j.getObjVal? "tref" with
    | .ok .null => pure none
    | .ok v => (fromJson? v : Except String Nat).map (fun b => some (floatOfBits b))
    | .error _ => pure none
  let uRv ← getStr j "uRv"; let uErr ← getStr j "uErr"
  return { t := t.toList, rv := rv.toList, unc := unc, tref := tref, rvUnit := uRv, errUnit := uErr }

def jResult (r : Except Data.Err (Data.RV Float Float String)) : Json :=
  match r with
  | .error e => Json.mkObj [("error", Json.str (errName e))]
  | .ok d => Json.mkObj [("ok", jRV d)]

/-- `RVData(t, rv, rv_err, t_ref, clean)` with the observed sorting permutation -/
def rvdataOp : H := fun j => do
  let t ← getFloats j "t"; let rv ← getFloats j "rv"
  let unc ← getUnc j
  let clean ← getBool j "clean"
  let tref ← getTRefArg j
  let perm ← getNats j "perm"
  let uRv ← getStr j "uRv"; let uErr ← getStr j "uErr"
  let keep := Data.keepMask finF finF clean t.toList rv.toList unc
  let r := Data.init finF finF npLe t.toList rv.toList unc uRv uErr clean tref perm.toList
  let shape := Data.shapeOk t.toList rv.toList unc
  let base := match jResult r with
    | Json.obj kvs => kvs.toList.map (fun (k, v) => (k, v))
    | _ => []
  return Json.mkObj (base ++ [("keep", Json.arr (keep.map (fun b => Json.bool b)).toArray), ("shapeOk", Json.bool shape),
                              ("selection", jNats (Data.selection keep perm.toList))])

def copyOp : H := fun j => do
  let d ← getRV (← j.getObjVal? "data")
  let perm ← getNats j "perm"
  return jResult (Data.copy finF finF npLe d perm.toList)

def getitemOp : H := fun j => do
  let d ← getRV (← j.getObjVal? "data")
  let sel ← getNats j "sel"
  let perm ← getNats j "perm"
  return jResult (Data.getitem finF finF npLe d sel.toList perm.toList)

def getSurvey (j : Json) : Except String (Data.Survey Float Float) := do
  let t ← getFloats j "t"; let rv ← getFloats j "rv"; let err ← getFloats j "err"
  let hc ← match j.getObjVal? "hasCov" with
    | .ok (.bool b) => pure b
    | _ => pure false
  return { t := t.toList, rv := rv.toList, err := err.toList, hasCov := hc }

def jMerged {κ : Type} [LT κ] [DecidableLT κ] [DecidableEq κ] (jk : κ → Json) (p : Nat)
    (r : Except Data.Err (Data.Merged κ Float Float)) : Json :=
  match r with
  | .error e => Json.mkObj [("error", Json.str (errName e))]
  | .ok m => Json.mkObj [("ok", Json.mkObj [("t", jFloats m.t), ("rv", jFloats m.rv), ("err", jFloats m.err),
      ("ids", Json.arr (m.ids.map jk).toArray), ("uniq", Json.arr ((Data.uniq m.ids).map jk).toArray),
      ("tref", jNat (bitsOfFloat m.tref)), ("design", jFloatMat (m.design p))])]

/-- `validate_prepare_data([..] | {..}, poly_trend, n_offsets)`; keys all integers or all strings -/
def mergeOp : H := fun j => do
  let svs ← getArr j "surveys"
  let nOff ← getNat j "nOffsets"
  let p ← getNat j "p"
  let perm ← getNats j "perm"
  let keyKind ← getStr j "keyKind"
  if keyKind == "int" then
    let l ← svs.toList.mapM (fun s => do
      let k ← getInt s "key"
      let sv ← getSurvey s
      return (k, sv))
    return jMerged (κ := Int) jInt p (Data.merge npLe l nOff perm.toList)
  else
    let l ← svs.toList.mapM (fun s => do
      let k ← getStr s "key"
      let sv ← getSurvey s
      return (k, sv))
    return jMerged (κ := String) Json.str p (Data.merge npLe l nOff perm.toList)

/-- `validate_prepare_data(single RVData, poly_trend, n_offsets)` -/
def singleOp : H := fun j => do
  let d ← getRV (← j.getObjVal? "data")
  let p ← getNat j "p"
  let nOff ← getNat j "nOffsets"
  match Data.singleDesign d p nOff with
  | .error e => return Json.mkObj [("error", Json.str (errName e))]
  | .ok m => return Json.mkObj [("ok", Json.mkObj [("design", jFloatMat m)])]

def dataOps : List (String × H) :=
  [("data.rvdata", rvdataOp), ("data.copy", copyOp), ("data.getitem", getitemOp), ("data.merge", mergeOp),
   ("data.single", singleOp)]

end Drive
