import JokerVerif.Drive.Common
/-! Driver handlers for C02 C06 C14 (to be filled in). -/
open Lean Drive
namespace Drive

def rejectOps : List (String × H) := []

end Drive
