import JokerVerif.Drive.Common
import JokerVerif.Model.Reject
import JokerVerif.Model.Iter
/-! Driver handlers for C02 C06 C14: execute `Reject.rejectionSample` / `Iter.iterativeSample` on IEEE doubles.

The scalar is `NpF`, a `Float` whose `max` propagates NaN like `numpy.ndarray.max` (Lean's `max` on `Float`
would drop a NaN on the right); `<` and `-` are the IEEE operations, `expf = Float.exp` (C `exp`).
A library row's nonlinear block is represented by `(row id, ln-likelihood of that row)`: the likelihood
"function" is the second projection, the id lets the harness see which block was returned. -/
open Lean Drive

namespace Drive

structure NpF where
  v : Float

instance : LT NpF := ⟨fun a b => a.v < b.v⟩
instance : DecidableLT NpF := fun a b => inferInstanceAs (Decidable (a.v < b.v))
instance : Sub NpF := ⟨fun a b => ⟨a.v - b.v⟩⟩
instance : Max NpF := ⟨fun a b => if a.v.isNaN || b.v.isNaN then ⟨0.0 / 0.0⟩ else if a.v < b.v then b else a⟩

def npExp (x : NpF) : NpF := ⟨Float.exp x.v⟩
def npNonFinite (x : NpF) : Bool := !x.v.isFinite

def optNats (j : Json) (k : String) : Except String (Option (List Nat)) :=
  match j.getObjVal? k with
  | .ok .null => .ok none
  | .ok v => (fromJson? v : Except String (Array Nat)).map (fun a => some a.toList)
  | .error _ => .ok none

def jNpFs (a : List NpF) : Json := jFloats (a.map (·.v))

private def errName : Reject.Err → String
  | .value => "value" | .runtime => "runtime" | .maxiter => "maxiter" | .bad => "bad"

def mkLib (libLL lnp : Array Float) : List (Reject.LibRow (Nat × NpF) NpF) :=
  (List.range libLL.size).zipWith (fun j (p : Float × Float) => ⟨(j, ⟨p.1⟩), ⟨p.2⟩⟩) (libLL.toList.zip lnp.toList)

def jOut (o : Reject.Out (Nat × NpF) NpF) : List (String × Json) :=
  [("err", Json.null), ("evalRows", jNats o.evalRows), ("allLls", jNpFs o.allLls), ("good", jNats o.good),
   ("full", jNats o.full), ("rows", jNats (o.rows.map (·.1))), ("lnPrior", jNpFs o.lnPrior),
   ("lnLike", jNpFs o.lnLike)]

def rejectSampleOp : H := fun j => do
  let libLL ← getFloats j "libLL"; let lnp ← getFloats j "lnp"
  if libLL.size ≠ lnp.size then throw "libLL/lnp size"
  let nPrior ← optNat j "nPrior"; let maxPost ← optNat j "maxPost"; let nLinear ← getNat j "nLinear"
  let idx ← optNats j "idx"
  let uu ← getFloats j "uu"
  let r := Reject.rejectionSample npExp (fun (p : Nat × NpF) => p.2) (mkLib libLL lnp)
    ⟨nPrior, maxPost, nLinear⟩ idx (uu.toList.map NpF.mk)
  match r with
  | .error e => return Json.mkObj [("err", errName e)]
  | .ok o => return Json.mkObj (jOut o)

def getFloatLists (j : Json) (k : String) : Except String (List (List NpF)) := do
  let a ← getArr j k
  let ls ← a.toList.mapM fun x => (fromJson? x : Except String (Array Nat))
  return ls.map fun l => l.toList.map fun b => NpF.mk (floatOfBits b)

def iterSampleOp : H := fun j => do
  let libLL ← getFloats j "libLL"; let lnp ← getFloats j "lnp"
  if libLL.size ≠ lnp.size then throw "libLL/lnp size"
  let req ← getNat j "req"; let maxPrior ← optNat j "maxPrior"; let initBatch ← optNat j "initBatch"
  let growth ← getNat j "growth"; let nLinear ← getNat j "nLinear"; let maxiter ← getNat j "maxiter"
  let guard ← getBool j "guard"
  let idx ← optNats j "idx"
  let sizes ← getNats j "sizes"
  let uus ← getFloatLists j "uus"
  -- growth policy := the observed request of each round (0 once the observed trace ends)
  let grow : Nat → Nat → Nat → Nat → Nat := fun round _ _ _ => sizes.getD round 0
  let r := Iter.iterativeSample npExp npNonFinite (fun (p : Nat × NpF) => p.2) (mkLib libLL lnp)
    ⟨req, maxPrior, initBatch, growth, nLinear, maxiter, guard⟩ idx grow uus
  match r with
  | .error e => return Json.mkObj [("err", errName e)]
  | .ok res => return Json.mkObj (jOut res.out ++ [("blocks", jPairs res.blocks), ("evaluated", jNat res.evaluated)])

def rejectOps : List (String × H) :=
  [("reject.sample", rejectSampleOp), ("iter.sample", iterSampleOp)]

end Drive
