import JokerVerif.Drive.Common
import JokerVerif.Model.PriorValidate
import JokerVerif.Drive.PriorDensOps
/-! Driver handlers for C18 (validation decision logic) and C09 (densities, see `PriorDensOps`). -/
open Lean Drive

namespace Drive
open PriorV

def canonNat? (s : String) : Option Nat :=
  match s.toNat? with
  | some n => if toString n == s then some n else none
  | none => none

def parseName (s : String) : PriorV.Name :=
  if s == "P" then .P else if s == "e" then .e else if s == "omega" then .omega
  else if s == "M0" then .M0 else if s == "s" then .s else if s == "K" then .K
  else
    let other := PriorV.Name.other s.hash.toNat
    if s.startsWith "dv0_" then
      match canonNat? ((s.drop 4).toString) with
      | some j => .dv0 j
      | none => other
    else if s.startsWith "v" then
      match canonNat? ((s.drop 1).toString) with
      | some i => .v i
      | none => other
    else other

def jErr (e : Err) : Json :=
  Json.mkObj [("error", match e with
    | .value => "value" | .type => "type" | .notimpl => "notimpl" | .units => "units" | .unspecified => "unspecified")]

def jNames (l : List PriorV.Name) : Json := Json.arr (l.map fun n => Json.str n.toString).toArray

def parseDim (j : Json) : Except String (Option Dim) :=
  match j with
  | .null => .ok none
  | _ => do
    let a ← (fromJson? j : Except String (Array Int))
    if a.size != 4 then throw "dim needs 4 exponents"
    return some ⟨a[0]!, a[1]!, a[2]!, a[3]!⟩

def parseKind (s : String) : Except String Kind :=
  match s with
  | "normal" => .ok .normal | "normalDep" => .ok .normalDep | "fcm" => .ok .fcm | "otherRV" => .ok .otherRV | "unnamedOp" => .ok .unnamedOp
  | "noOwner" => .ok .noOwner | "notTensor" => .ok .notTensor
  | _ => .error s!"bad kind {s}"

def parseParam (j : Json) : Except String Param := do
  let n ← getStr j "name"
  let u ← parseDim ((j.getObjVal? "unit").toOption.getD .null)
  let k ← parseKind (← getStr j "kind")
  let named := match j.getObjVal? "named" with
    | .ok (.bool b) => b
    | _ => true
  let registered := match j.getObjVal? "registered" with
    | .ok (.bool b) => b
    | _ => true
  return ⟨parseName n, u, k, named, registered⟩

def parseParams (j : Json) (k : String) : Except String (List Param) := do
  let a ← getArr j k
  a.toList.mapM parseParam

def parseQArg (j : Json) : Except String QArg :=
  match j with
  | .null => .ok .missing
  | .str "bare" => .ok .bare
  | _ => do
    match ← parseDim j with
    | some d => return .qty d
    | none => return .missing

def parseSArg (j : Json) : Except String SArg :=
  match j with
  | .null => .ok .missing
  | .str "bare" => .ok .bare
  | .arr _ => do
    match ← parseDim j with
    | some d => return .qty d
    | none => return .missing
  | _ => do
    let u ← parseDim ((j.getObjVal? "unit").toOption.getD .null)
    let k ← parseKind (← getStr j "kind")
    return .tensor u k

def parseSigmaV (j : Json) : Except String SigmaV :=
  match j with
  | .null => .ok .missing
  | .str "bare" => .ok .bare
  | .str "array" => .ok .arrayQty
  | _ => do
    let form ← getStr j "form"
    if form == "scalar" then
      match ← parseDim (← j.getObjVal? "dim") with
      | some d => return .scalarQty d
      | none => throw "scalar sigma_v needs dim"
    else if form == "list" then
      let a ← getArr j "items"
      return .list (← a.toList.mapM parseQArg)
    else if form == "dict" then
      let a ← getArr j "items"
      let items ← a.toList.mapM fun it => do
        let n ← getStr it "name"
        let q ← parseQArg ((it.getObjVal? "q").toOption.getD .null)
        return (parseName n, q)
      return .dict items
    else throw s!"bad sigma_v form {form}"

def optIntNull (j : Json) (k : String) : Except String (Option Int) := optInt j k

def parseParsStatus (s : String) : Except String ParsStatus :=
  match s with
  | "ok" => .ok .ok | "invalid" => .ok .invalid
  | _ => .error s!"bad parsStatus {s}"

def answer (r : Except Err (List PriorV.Name)) : Json :=
  match r with
  | .ok names => Json.mkObj [("ok", jNames names)]
  | .error e => jErr e

def priorValidateOp : H := fun j => do
  let i : PriorInput := {
    modelOk := ← getBool j "modelOk"
    parsStatus := ← parseParsStatus (← getStr j "parsStatus")
    polyTrend := ← optIntNull j "polyTrend"
    offsetsIterable := ← getBool j "offsetsIterable"
    pars := ← parseParams j "pars"
    offsets := ← parseParams j "offsets" }
  return answer (validate i)

def priorDefaultOp : H := fun j => do
  let q (k : String) : Except String QArg := parseQArg ((j.getObjVal? k).toOption.getD .null)
  let d : DefaultInput := {
    modelOk := ← getBool j "modelOk"
    pMin := ← q "pMin"
    pMax := ← q "pMax"
    sigmaK0 := ← q "sigmaK0"
    p0 := ← q "p0"
    s := ← parseSArg ((j.getObjVal? "s").toOption.getD .null)
    sigmaV := ← parseSigmaV ((j.getObjVal? "sigmaV").toOption.getD .null)
    polyTrend := ← optIntNull j "polyTrend"
    offsetsIterable := ← getBool j "offsetsIterable"
    offsets := ← parseParams j "offsets"
    userPars := ← parseParams j "userPars" }
  return answer (defaultValidate d)

def parseSource (s : String) : Except String Source :=
  match s with
  | "rv" => .ok (.rv false) | "cov" => .ok (.rv true) | "notRV" => .ok .notRV
  | _ => .error s!"bad source {s}"

def priorDataOp : H := fun j => do
  let form ← getStr j "form"
  let q ← getNat j "q"
  let p ← getInt j "p"
  let d : DataInput ←
    if form == "single" then pure DataInput.single
    else if form == "notIterable" then pure DataInput.notIterable
    else do
      let a ← getArr j "srcs"
      let srcs ← a.toList.mapM fun x => do parseSource (← (fromJson? x : Except String String))
      pure (DataInput.multi srcs)
  let v := match validateData d q with
    | .ok n => Json.mkObj [("ok", jNat n)]
    | .error e => jErr e
  let s := match samplerAccepts p q d with
    | .ok () => Json.mkObj [("ok", jNat 1)]
    | .error e => jErr e
  return Json.mkObj [("validate", v), ("sampler", s)]

def jokerInitOp : H := fun j => do
  match jokerInit (← getBool j "poolOk") (← getBool j "rngOk") (← getBool j "priorOk") with
  | .ok () => return Json.mkObj [("ok", jNat 1)]
  | .error e => return jErr e

def priorValidateOps : List (String × H) :=
  [("prior.validate", priorValidateOp), ("prior.default", priorDefaultOp), ("prior.data", priorDataOp),
   ("prior.jokerInit", jokerInitOp)]

def priorOps : List (String × H) := priorValidateOps ++ priorDensOps

end Drive
