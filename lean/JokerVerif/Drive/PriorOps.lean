import JokerVerif.Drive.Common
/-! Driver handlers for C09 C18 (to be filled in). -/
open Lean Drive
namespace Drive

def priorOps : List (String × H) := []

end Drive
