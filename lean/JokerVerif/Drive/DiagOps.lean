import JokerVerif.Drive.Common
/-! Driver handlers for C19 (to be filled in). -/
open Lean Drive
namespace Drive

def diagOps : List (String × H) := []

end Drive
