import JokerVerif.Drive.Common
import JokerVerif.Drive.SDCommon
import JokerVerif.Model.Diag
/-! Driver handlers for C19.  Doubles arrive as bit patterns and are turned into exact rationals: the answers are
the exact values of the definitions on the declared numbers.  `diag.map` is also run at `Float` (IEEE sums, the
arithmetic `np.argmax` sees). -/
open Lean Drive Drive.SD
namespace Drive

private def phasesOf (j : Json) : Except String (List Rat) := do
  match j.getObjVal? "phases" with
  | .ok _ => return (← getRats j "phases").toList
  | .error _ =>
    let t ← getRats j "t"; let tref ← getRat j "tref"
    let P := (← getRat j "P") * (← optRatStr j "Pscale" 1)   -- declared value × exact unit factor (days)
    if P == 0 then throw "P=0"
    return t.toList.map (Diag.phase Rat.floor tref P)

def diagPhaseOp : H := fun j => do
  return Json.mkObj [("phase", jRats (← phasesOf j))]

def diagGapOp : H := fun j => do
  let ph ← phasesOf j
  return Json.mkObj [("def", jOptRat (Diag.circGap ph)), ("code", jOptRat (Diag.maxPhaseGap ph)),
    ("head", jOptRat (Diag.maxPhaseGapHead ph)), ("pinned", jOptRat (Diag.maxPhaseGapPinned ph)),
    ("sorted", jRats (Diag.isort ph))]

def diagCoverageOp : H := fun j => do
  let ph ← phasesOf j
  let n ← getNat j "n"
  return Json.mkObj [("hist", jNats (Diag.hist n ph)), ("occupied", jNat (Diag.occupied n ph)),
    ("value", jOptRat (Diag.phaseCoverage n ph))]

def diagPeriodsOp : H := fun j => do
  let t ← getRats j "t"
  let P := (← getRat j "P") * (← optRatStr j "Pscale" 1)
  return Json.mkObj [("value", jOptRat (Diag.periodsSpanned t.toList P))]

def diagMapOp : H := fun j => do
  let lpF ← getFloats j "lp"; let llF ← getFloats j "ll"
  let lpB ← getNats j "lp"; let llB ← getNats j "ll"
  let idxF := Diag.mapIndex lpF.toList llF.toList
  let exact : Json :=
    if lpB.all isFiniteBits && llB.all isFiniteBits then
      jOptNat (Diag.mapIndex (lpB.toList.map fun v => ratOfBits v.toUInt64) (llB.toList.map fun v => ratOfBits v.toUInt64))
    else Json.null
  return Json.mkObj [("idx", jOptNat idxF), ("idxExact", exact),
    ("post", jFloats (Diag.post lpF.toList llF.toList))]

def diagOps : List (String × H) :=
  [("diag.phase", diagPhaseOp), ("diag.gap", diagGapOp), ("diag.coverage", diagCoverageOp),
   ("diag.periods", diagPeriodsOp), ("diag.map", diagMapOp)]

end Drive
