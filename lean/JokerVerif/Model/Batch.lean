/-!
# Model of `thejoker.utils.batch_tasks` and of the sizing logic of `multiproc_helpers.run_worker`

Core Lean only (no Mathlib), so the driver can evaluate it without loading anything else.

`batch_tasks(n_tasks, n_batches, arr=None, args=None, start_idx=0)`:
* if `n_batches > 0 and n_tasks >= n_batches`: `base = n_tasks // n_batches`, `rmdr = n_tasks % n_batches`,
  loop `i in range(n_batches)`: `i2 = i1 + base (+1 if i < rmdr)`, emit `[(i1,i2) | arr[i1:i2], i1] + args`;
* else one task `[(start, n_tasks+start) | arr[start : n_tasks+start], start] + args`.
-/
namespace Batch

/-- the `for i in range(n_batches)` loop: `i` = loop counter, `cnt` = iterations left, `i1` = running lower bound -/
def batchLoop (base rmdr : Nat) : (i : Nat) → (cnt : Nat) → (i1 : Nat) → List (Nat × Nat)
  | _, 0, _ => []
  | i, cnt+1, i1 =>
    let i2 := i1 + base + (if i < rmdr then 1 else 0)
    (i1, i2) :: batchLoop base rmdr (i+1) cnt i2

/-- index form: the list of `(i1, i2)` bounds; the task id of a batch is its `i1` -/
def batchTasks (nTasks : Nat) (nBatches : Int) (start : Nat) : List (Nat × Nat) :=
  if 0 < nBatches ∧ nBatches ≤ (nTasks : Int) then
    let nb := nBatches.toNat
    batchLoop (nTasks / nb) (nTasks % nb) 0 nb start
  else [(start, nTasks + start)]

/-- Python slice `arr[a:b]` for `0 ≤ a ≤ b` -/
def pySlice {α : Type} (arr : List α) (a b : Nat) : List α := (arr.drop a).take (b - a)

/-- array form: each batch carries `arr[i1:i2]` and the id `i1` -/
def batchTasksArr {α : Type} (arr : List α) (nTasks : Nat) (nBatches : Int) (start : Nat) : List (List α × Nat) :=
  (batchTasks nTasks nBatches start).map fun p => (pySlice arr p.1 p.2, p.1)

/-- `run_worker`: number of samples handed to `batch_tasks`.
`nFile` = rows in the file, `nPrior` = `n_prior_samples`, `idxLen` = `len(samples_idx)`;
specifying both is an error. -/
def runWorkerNSamples (nFile : Nat) (nPrior idxLen : Option Nat) : Except String Nat :=
  match nPrior, idxLen with
  | some _, some _ => .error "value"
  | _, some l => .ok l
  | some n, none => .ok n
  | none, none => .ok nFile

/-- `run_worker`: `n_batches = max(1, pool.size)` when not given -/
def runWorkerNBatches (nBatches : Option Int) (poolSize : Int) : Int :=
  match nBatches with
  | some b => b
  | none => max 1 poolSize

end Batch
