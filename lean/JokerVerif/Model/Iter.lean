import JokerVerif.Model.Reject
/-!
# Model of the iterative rejection sampler (`iterative_rejection_inmem`, `iterative_rejection_helper`) — C14, C06

Core Lean only.  The loop is a fuel-bounded machine (`fuel = maxiter`).  The growth policy is **not** fixed by the
model: it is an arbitrary function `grow round nGood nEvals nNeed` (the real code uses
`int(safety_factor * nNeed / nGood * nEvals)`); the model clamps its value to the budget exactly as the code
does and stops when the clamped value is `0`.  All theorems (Props/C14) hold for every `grow`.

Inputs that come from the generator are explicit: `idx` = the recorded `choice` output (shuffle) or `none`,
`uus` = the recorded uniform draws, one list per round.
-/
namespace Iter
open Reject

structure Cfg where
  req : Nat                 -- n_requested_samples
  maxPrior : Option Nat     -- max_prior_samples
  initBatch : Option Nat    -- init_batch_size
  growth : Nat              -- growth_factor
  nLinear : Nat             -- n_linear_samples
  maxiter : Nat             -- 128 in the code
  guard : Bool              -- in-memory path: raise on NaN/Inf likelihoods (and on "no likelihoods")

/-- the number of prior samples the call may evaluate: `max_prior_samples`, and never more than the library holds
(both code paths clamp: "never process more prior samples than the library holds") -/
def Cfg.budget (c : Cfg) (N : Nat) : Nat := min (c.maxPrior.getD N) N

/-- state at a normal exit of the loop -/
structure LoopOut (α : Type) where
  blocks : List (Nat × Nat)   -- `(start, nProc)` of every round, in order
  evaluated : Nat             -- number of positions of `all_idx` evaluated
  all : List α                -- `all_marg_lls`
  good : List Nat             -- `good_samples_idx[:n_requested_samples]`
  uuLast : List α             -- the uniforms of the last round

structure Res (ρ α : Type) where
  blocks : List (Nat × Nat)
  evaluated : Nat
  uuLast : List α
  out : Out ρ α

section Generic
variable {α ρ : Type} [LT α] [DecidableLT α] [Sub α] [Max α]

/-- `n_process` for the next round: the policy's wish, clamped to the budget -/
def clamp (budget start want : Nat) : Nat :=
  if start + want > budget then budget - start else want

/-- the grow-and-retest loop.  `posLL[p]` = ln-likelihood of library row `all_idx[p]`, `p < budget`. -/
def loop (expf : α → α) (nonFinite : α → Bool) (guard : Bool) (req budget : Nat) (posLL : List α)
    (grow : Nat → Nat → Nat → Nat → Nat) :
    (fuel round : Nat) → (uus : List (List α)) → (start nProc : Nat) → (all : List α) →
    (blocks : List (Nat × Nat)) → Except Err (LoopOut α)
  | 0, _, _, _, _, _, _ => .error .maxiter
  | fuel + 1, round, uus, start, nProc, all, blocks =>
    let all' := all ++ (posLL.drop start).take nProc
    let blocks' := blocks ++ [(start, nProc)]
    if guard && (all'.any nonFinite || all'.isEmpty) then .error .runtime else
    match uus with
    | [] => .error .bad
    | uu :: uus' =>
      if uu.length ≠ all'.length then .error .bad else
      let good := goodPos expf all' uu
      if good.isEmpty then .error .runtime else
      if req ≤ good.length then .ok ⟨blocks', start + nProc, all', good.take req, uu⟩ else
      let nProc' := clamp budget (start + nProc) (grow round good.length all'.length (req - good.length))
      if nProc' = 0 then .ok ⟨blocks', start + nProc, all', good.take req, uu⟩
      else loop expf nonFinite guard req budget posLL grow fuel (round + 1) uus' (start + nProc) nProc' all' blocks'

/-- `iterative_rejection_helper` / `iterative_rejection_inmem` given the generator's draws -/
def iterativeSample (expf : α → α) (nonFinite : α → Bool) (llf : ρ → α) (lib : List (LibRow ρ α)) (c : Cfg)
    (idx : Option (List Nat)) (grow : Nat → Nat → Nat → Nat → Nat) (uus : List (List α)) :
    Except Err (Res ρ α) :=
  let budget := c.budget lib.length
  let init := c.initBatch.getD (c.growth * c.req)
  if init > budget then .error .value      -- "Prior sample library not big enough!"
  else
    let order := evalOrder budget idx
    match gather lib order with
    | none => .error .bad
    | some evRows =>
      if order.length ≠ budget then .error .bad else
      let posLL := evRows.map (fun r => llf r.nonlin)
      match loop expf nonFinite c.guard c.req budget posLL grow c.maxiter 0 uus 0 init [] [] with
      | .error e => .error e
      | .ok lo =>
        match assemble lib (order.take lo.evaluated) lo.all lo.good c.nLinear with
        | none => .error .bad
        | some out => .ok ⟨lo.blocks, lo.evaluated, lo.uuLast, out⟩

end Generic
end Iter
