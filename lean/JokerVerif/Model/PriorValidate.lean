/-!
# Model of the validation logic of `JokerPrior`, `JokerPrior.default`, `TheJoker.__init__` and
# `validate_prepare_data` (property C18)

Core Lean only (no Mathlib).  Decision logic stated outright, in the order in which the real code takes its
decisions, so that the *class* of the exception can be compared as well as accept / reject.

Vocabulary
* a unit is abstracted to its physical dimension, an exponent vector `(length, time, angle, mass)`;
  `astropy`'s `is_equivalent` (without equivalencies) is equality of these vectors;
* a parameter is `{name, unit?, kind}`; `kind` says what `p.owner.op` is: a Normal random variable, a
  `FixedCompanionMass`, another random variable, an expression / `Deterministic` (has an owner that is not a
  random variable), a constant (no owner) or not a tensor at all;
* exception classes: `value | type | notimpl | units | unspecified`, the last one for the places where the real
  code dies with an incidental `AttributeError` (the property only asks that it raises).
-/
namespace PriorV

inductive Err where
  | value | type | notimpl | units | unspecified
  deriving DecidableEq, Repr, Inhabited

/-- exponent vector of a physical dimension -/
structure Dim where
  len : Int
  time : Int
  angle : Int
  mass : Int
  deriving DecidableEq, Repr, Inhabited

def Dim.one : Dim := ⟨0, 0, 0, 0⟩
def Dim.time1 : Dim := ⟨0, 1, 0, 0⟩
def Dim.angle1 : Dim := ⟨0, 0, 1, 0⟩
/-- velocity per `time^i` -/
def Dim.vel (i : Nat) : Dim := ⟨1, -1 - (i : Int), 0, 0⟩

inductive Kind where
  | normal        -- `pm.Normal` with constant parameters
  | normalDep     -- `pm.Normal` whose `mu` / `sigma` depend on another random variable of the model (not independent)
  | fcm           -- `FixedCompanionMass`
  | otherRV       -- any other random variable (Uniform, HalfNormal, StudentT, TruncatedNormal, ...)
  | unnamedOp     -- owner op without `_print_name`: expression, `pm.Deterministic`, thejoker's own `UniformLog`
                  -- (the error message formatting then dies with an AttributeError)
  | noOwner       -- constant or plain number wrapped with a unit: `owner is None`
  | notTensor     -- object without `.owner`
  deriving DecidableEq, Repr, Inhabited

/-- parameter names: the fixed ones, `v{i}` (`i ≥ 0`), `dv0_{j}` (`j` as written, the code uses `j ≥ 1`), and
anything else -/
inductive Name where
  | P | e | omega | M0 | s | K
  | v (i : Nat)
  | dv0 (j : Nat)
  | other (tag : Nat)
  deriving DecidableEq, Repr, Inhabited

def Name.toString : Name → String
  | .P => "P" | .e => "e" | .omega => "omega" | .M0 => "M0" | .s => "s" | .K => "K"
  | .v i => "v" ++ Nat.repr i
  | .dv0 j => "dv0_" ++ Nat.repr j
  | .other t => "other" ++ Nat.repr t

structure Param where
  name : Name
  unit : Option Dim
  kind : Kind
  /-- the variable stored under the key `name` is itself called `name` in the pymc model: the likelihood helper
  fetches the prior with `prior.model[name]`, so only then is the validated variable the one that is used -/
  named : Bool
  /-- the variable stored under the key IS the variable that the prior's pymc model holds under that name (same object):
  a same-named variable of another model, or an unregistered `.dist()` variable, is validated here while the likelihood
  helper would use whatever `prior.model[name]` is -/
  registered : Bool
  deriving DecidableEq, Repr, Inhabited

/-! ## names -/

def nonlinearReq : List (Name × Dim) :=
  [(.P, Dim.time1), (.e, Dim.one), (.omega, Dim.angle1), (.M0, Dim.angle1), (.s, Dim.vel 0)]

def trendName (i : Nat) : Name := .v i
def offsetName (j : Nat) : Name := .dv0 (j + 1)

/-- `validate_poly_trend`: `['v{i}' for i in range(poly_trend)]` (empty for `poly_trend ≤ 0`) -/
def trendReq (p : Int) : List (Name × Dim) := (List.range p.toNat).map fun i => (trendName i, Dim.vel i)
/-- `validate_n_offsets`: `['dv0_{j}' for j in range(1, n_offsets+1)]` -/
def offsetReq (q : Nat) : List (Name × Dim) := (List.range q).map fun j => (offsetName j, Dim.vel 0)

def linearReq (p : Int) : List (Name × Dim) := (.K, Dim.vel 0) :: trendReq p

/-- every parameter the prior must define, with the dimension its unit must have, in `par_names` order -/
def required (p : Int) (q : Nat) : List (Name × Dim) := nonlinearReq ++ linearReq p ++ offsetReq q

def parNames (p : Int) (q : Nat) : List Name := (required p q).map (·.1)

/-- parameters that are marginalised analytically: their prior has to be Normal -/
def linearNames (p : Int) (q : Nat) : List Name := (linearReq p ++ offsetReq q).map (·.1)

/-! ## `JokerPrior.__init__` -/

/-- how the `pars` argument parses -/
inductive ParsStatus where
  | ok            -- dict / list of named variables / single variable / `None` with an explicit model
  | invalid       -- not convertible to a dict and not an iterable of named variables -> ValueError
  deriving DecidableEq, Repr, Inhabited

structure PriorInput where
  modelOk : Bool
  parsStatus : ParsStatus
  polyTrend : Option Int        -- `none`: `int(poly_trend)` fails
  offsetsIterable : Bool
  pars : List Param             -- in insertion order
  offsets : List Param          -- `v0_offsets`, in the order given; they are entered under their own names
  deriving Repr, Inhabited

/-- Python dict semantics: a later entry with the same key replaces an earlier one -/
def lookup (env : List Param) (name : Name) : Option Param :=
  env.reverse.find? fun p => decide (p.name = name)

/-- first loop of `__init__`: presence, unit attribute, unit equivalence, in `par_names` order -/
def checkPresence (env : List Param) : List (Name × Dim) → Except Err Unit
  | [] => .ok ()
  | (n, d) :: rest =>
    match lookup env n with
    | none => .error .value
    | some par =>
      match par.unit with
      | none => .error .value
      | some u => if u = d ∧ par.named = true then checkPresence env rest else .error .value

/-- second loop: priors of the linear parameters must be Normal / FixedCompanionMass -/
def checkLinear (env : List Param) : List Name → Except Err Unit
  | [] => .ok ()
  | n :: rest =>
    match lookup env n with
    | none => .error .unspecified
    | some par =>
      match par.kind with
      | .normal => if par.registered = true then checkLinear env rest else .error .value
      | .fcm => if n = .K ∧ par.registered = true then checkLinear env rest else .error .value     -- the kernel knows its P, e dependence for K only
      | .normalDep => .error .value
      | .otherRV => .error .value
      | .notTensor => .error .type
      | .unnamedOp | .noOwner => .error .unspecified

def envOf (i : PriorInput) : List Param := i.pars ++ i.offsets

def validate (i : PriorInput) : Except Err (List Name) :=
  if i.modelOk = false then .error .type else
  match i.parsStatus with
  | .invalid => .error .value
  | .ok =>
    match i.polyTrend with
    | none => .error .value
    | some p =>
      if i.offsetsIterable = false then .error .type else
      let q := i.offsets.length
      match checkPresence (envOf i) (required p q) with
      | .error e => .error e
      | .ok () =>
        match checkLinear (envOf i) (linearNames p q) with
        | .error e => .error e
        | .ok () => .ok (parNames p q)

/-! ## `JokerPrior.default` -/

/-- an argument that should be an `astropy` Quantity -/
inductive QArg where
  | missing            -- `None`
  | bare               -- plain number (no `.unit`)
  | qty (d : Dim)
  deriving DecidableEq, Repr, Inhabited

/-- the jitter argument `s` -/
inductive SArg where
  | missing
  | bare
  | qty (d : Dim)
  | tensor (unit : Option Dim) (kind : Kind)     -- a pymc variable: becomes the parameter `s`
  deriving DecidableEq, Repr, Inhabited

/-- the `sigma_v` argument -/
inductive SigmaV where
  | missing                                  -- `None`
  | bare                                     -- plain number
  | scalarQty (d : Dim)
  | arrayQty                                 -- non-scalar Quantity
  | list (items : List QArg)                 -- list / tuple of items (`missing` is not used for items)
  | dict (items : List (Name × QArg))
  deriving Repr, Inhabited

structure DefaultInput where
  modelOk : Bool
  pMin : QArg
  pMax : QArg
  sigmaK0 : QArg
  p0 : QArg
  s : SArg
  sigmaV : SigmaV
  polyTrend : Option Int
  offsetsIterable : Bool
  offsets : List Param
  userPars : List Param          -- the `pars=` dictionary
  deriving Repr, Inhabited

/-- `astropy.units.quantity_input` for an argument whose default is `None`:
`None` passes, a plain number is a `TypeError`, a wrong dimension a `UnitsError` -/
def quantityInput (a : QArg) (d : Dim) : Except Err Unit :=
  match a with
  | .missing => .ok ()
  | .bare => .error .type
  | .qty d' => if d' = d then .ok () else .error .units

def hasName (l : List Param) (n : Name) : Bool := l.any fun p => decide (p.name = n)

/-- `validate_sigma_v`, returning the entries as a dictionary (list of pairs) -/
def validateSigmaV (sv : SigmaV) (p : Int) : Except Err (List (Name × QArg)) :=
  let names := (trendReq p).map (·.1)
  let viaDict (d : List (Name × QArg)) : Except Err (List (Name × QArg)) :=
    if names.all (fun n => d.any fun e => decide (e.1 = n)) then .ok d else .error .value
  match sv with
  | .missing => .error .type
  | .bare => .error .type
  | .arrayQty => .error .value
  | .scalarQty d => viaDict [(trendName 0, .qty d)]
  | .dict d => viaDict d
  | .list items => if (items.length : Int) = p then .ok (names.zip items) else .error .value

/-- Python dict lookup in the `sigma_v` dictionary: the last matching entry -/
def svLookup (d : List (Name × QArg)) (n : Name) : Option QArg :=
  (d.reverse.find? fun e => decide (e.1 = n)).map (·.2)

/-- default Normal priors for the trend terms the user did not define: `sigma_v[name].value / .unit` -/
def defaultTrend (user : List Param) (sv : Option (List (Name × QArg))) :
    List (Name × Dim) → Except Err (List Param)
  | [] => .ok []
  | (n, _) :: rest =>
    if hasName user n then defaultTrend user sv rest else
    match sv with
    | none => .error .unspecified                   -- `sigma_v` was never validated: `None[...]`, `list[str]`
    | some d =>
      match svLookup d n with
      | some (.qty dim) =>
        match defaultTrend user sv rest with
        | .error e => .error e
        | .ok ps => .ok (⟨n, some dim, .normal, true, true⟩ :: ps)
      | _ => .error .unspecified                    -- entry without `.value` / `.unit`, or KeyError

/-- what `default_nonlinear_prior` + `default_linear_prior` hand to `JokerPrior.__init__` -/
def assemble (d : DefaultInput) : Except Err PriorInput :=
  if d.modelOk = false then .error .type else
  -- default_nonlinear_prior -------------------------------------------------------------------
  match quantityInput d.pMin Dim.time1 with
  | .error e => .error e
  | .ok () =>
  match quantityInput d.pMax Dim.time1 with
  | .error e => .error e
  | .ok () =>
  -- the jitter argument
  let sCheck : Except Err (List Param) :=
    match d.s with
    | .missing => .ok []
    | .tensor un k => .ok (if hasName d.userPars .s then [] else [⟨.s, un, k, true, true⟩])
    | .bare => .error .units
    | .qty dim => if dim = Dim.vel 0 then .ok [] else .error .units
  match sCheck with
  | .error e => .error e
  | .ok sUser =>
  let user := d.userPars ++ sUser
  let sDim : Dim := match d.s with | .qty dim => dim | _ => Dim.vel 0
  let dflt (n : Name) (par : Param) : List Param := if hasName user n then [] else [par]
  let nlDefaults := dflt .e ⟨.e, some Dim.one, .otherRV, true, true⟩ ++ dflt .omega ⟨.omega, some Dim.angle1, .unnamedOp, true, true⟩
      ++ dflt .M0 ⟨.M0, some Dim.angle1, .unnamedOp, true, true⟩ ++ dflt .s ⟨.s, some sDim, .unnamedOp, true, true⟩
  if hasName user .P = false ∧ (d.pMin = .missing ∨ d.pMax = .missing) then .error .value else
  let nl := nlDefaults ++ dflt .P ⟨.P, some Dim.time1, .otherRV, true, true⟩
  -- default_linear_prior ----------------------------------------------------------------------
  match quantityInput d.sigmaK0 (Dim.vel 0) with
  | .error e => .error e
  | .ok () =>
  match quantityInput d.p0 Dim.time1 with
  | .error e => .error e
  | .ok () =>
  match d.polyTrend with
  | none => .error .value
  | some p =>
  let svChecked : Except Err (Option (List (Name × QArg))) :=
    if 0 < p ∧ hasName user (trendName 0) = false then (validateSigmaV d.sigmaV p).map some
    else .ok (match d.sigmaV with | .dict items => some items | _ => none)   -- used as given: only a dict can be indexed by name
  match svChecked with
  | .error e => .error e
  | .ok sv =>
  if hasName user .K = false ∧ (d.sigmaK0 = .missing ∨ d.p0 = .missing) then .error .value else
  -- `FixedCompanionMass.dist` converts `P0` to the unit attached to `P`: fails if that is not a time unit
  let pUnitBad : Bool := match lookup (nl ++ user) .P with
    | some par => (match par.unit with | some un => decide (un ≠ Dim.time1) | none => false)
    | none => false
  if hasName user .K = false ∧ pUnitBad = true then .error .units else
  let kDefault := dflt .K ⟨.K, (match d.sigmaK0 with | .qty dim => some dim | _ => none), .fcm, true, true⟩
  match defaultTrend user sv (trendReq p) with
  | .error e => .error e
  | .ok tr =>
    .ok { modelOk := true, parsStatus := .ok, polyTrend := some p, offsetsIterable := d.offsetsIterable,
          pars := nl ++ kDefault ++ tr ++ user, offsets := d.offsets }

def defaultValidate (d : DefaultInput) : Except Err (List Name) :=
  match assemble d with
  | .error e => .error e
  | .ok i => validate i

/-! ## `TheJoker.__init__` and the data sources -/

/-- `TheJoker(prior, pool, rng)`: pool must have map/close, rng must be a Generator, prior a JokerPrior -/
def jokerInit (poolOk rngOk priorOk : Bool) : Except Err Unit :=
  if poolOk = false then .error .type
  else if rngOk = false then .error .type
  else if priorOk = false then .error .type
  else .ok ()

inductive Source where
  | rv (hasCov : Bool)      -- an `RVData` (with or without a full covariance matrix)
  | notRV                   -- anything else
  deriving DecidableEq, Repr, Inhabited

inductive DataInput where
  | single                          -- one `RVData`
  | multi (srcs : List Source)      -- list / tuple / generator / dict of sources (keys distinct)
  | notIterable                     -- e.g. a number or `None`
  deriving Repr, Inhabited

/-- the per-source loop of `validate_prepare_data`: the first offending source decides -/
def checkSources : List Source → Except Err Unit
  | [] => .ok ()
  | .notRV :: _ => .error .type
  | .rv true :: _ => .error .notimpl
  | .rv false :: rest => checkSources rest

/-- `validate_prepare_data(data, poly_trend, n_offsets)`; returns the number of surveys -/
def validateData (d : DataInput) (q : Nat) : Except Err Nat :=
  match d with
  | .single => if q = 0 then .ok 1 else .error .value
  | .notIterable => .error .type
  | .multi srcs =>
    match checkSources srcs with
    | .error e => .error e
    | .ok () =>
      if srcs.length = q + 1 then .ok srcs.length else .error .value

/-- what `TheJoker._make_joker_helper` accepts: data sources consistent with the prior's offsets, and a
design matrix of the shape the kernel expects (`poly_trend ≥ 1`: the constant column is always present) -/
def samplerAccepts (p : Int) (q : Nat) (d : DataInput) : Except Err Unit :=
  match validateData d q with
  | .error e => .error e
  | .ok _ => if 1 ≤ p then .ok () else .error .value

end PriorV
