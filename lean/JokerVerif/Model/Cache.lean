/-!
# `tempfile_decorator` + worker pipeline as a fault-injectable machine  (C13)

Core Lean only.  One decorated call (`marginal_ln_likelihood_helper`, `rejection_sample_helper`,
`iterative_rejection_helper`) is a sequence of observable steps on the file system.  Prior samples given as a
`JokerSamples` *object* go through

    f = NamedTemporaryFile(delete=False)            -- mkTemp f
    try:     prior_samples.write(f.name)            -- writeTemp f
             func(..., prior_samples_file=f.name)   -- inner steps: opens (mode is part of the label),
                                                    --   read_batch, pool.map, helper batch calls, unpack …
    finally: os.unlink(f.name)                      -- unlink f

while a *file name* goes straight to `func` (inner steps only, on the user's file).  The inner steps are
left free (any list of steps that does not create / delete temp files and opens user files read-only): the
machine is nondeterministic in them, the harness checks that the observed trace is one of its runs, and the
theorems are for all runs.  A fault is a parameter: none, a failure of the temp-file creation itself, or a
failure of the `k`-th step of the `try` block (that step is attempted, nothing after it runs).
-/
namespace Cache

inductive Mode | ro | rw
deriving DecidableEq, Repr

/-- observable steps -/
inductive Step
  | mkTemp (f : Nat)                 -- NamedTemporaryFile(delete=False) returned file `f`
  | writeTemp (f : Nat)              -- prior_samples.write(f.name, overwrite=True)
  | openUser (path : Nat) (m : Mode) -- tb.open_file / h5py.File / write on a user-supplied path
  | openTemp (f : Nat) (m : Mode)    -- the same on the cache file
  | body (label : String)            -- read_batch, pool.map, batch_marginal_ln_likelihood, unpack …
  | unlink (f : Nat)                 -- os.unlink(f.name)
deriving DecidableEq, Repr

structure St where
  tmp : List Nat := []          -- temp files that exist
  userWritten : Bool := false   -- was any user path opened writable / written
deriving DecidableEq, Repr

def apply (s : St) : Step → St
  | .mkTemp f => { s with tmp := f :: s.tmp }
  | .unlink f => { s with tmp := s.tmp.filter (· ≠ f) }
  | .openUser _ .rw => { s with userWritten := true }
  | _ => s

inductive Fault
  | none
  | create            -- NamedTemporaryFile itself raised: no file exists, nothing else ran
  | step (k : Nat)    -- step `k` of the try block (0 = the cache write) is attempted and raises
deriving DecidableEq, Repr

def Fault.raised : Fault → Bool
  | .none => false
  | _ => true

/-- the part of the `try` block that runs -/
def cut : Fault → List Step → List Step
  | .none, l => l
  | .create, _ => []
  | .step k, l => l.take (k + 1)

/-- trace of a decorated call on an in-memory library; the `finally` clause always runs -/
def objectTrace (f : Nat) (inner : List Step) : Fault → List Step
  | .create => []
  | fl => Step.mkTemp f :: cut fl (Step.writeTemp f :: inner) ++ [Step.unlink f]

/-- trace of a decorated call on a file name -/
def fileTrace (inner : List Step) (fl : Fault) : List Step := cut fl inner

/-- (final state, did an exception reach the caller?) -/
def objectCall (s0 : St) (f : Nat) (inner : List Step) (fl : Fault) : St × Bool :=
  ((objectTrace f inner fl).foldl apply s0, fl.raised)

def fileCall (s0 : St) (inner : List Step) (fl : Fault) : St × Bool :=
  ((fileTrace inner fl).foldl apply s0, fl.raised)

/-- steps allowed inside `func`: never create or delete temp files, never open a user path writable -/
def stepOK : Step → Bool
  | .mkTemp _ => false
  | .unlink _ => false
  | .openUser _ .rw => false
  | _ => true

def InnerOK (inner : List Step) : Prop := ∀ st ∈ inner, stepOK st = true

/-! ### recognising an observed trace as a run (used by the driver; soundness proved in the lemmas) -/

/-- decompose an observed trace of an object-input call into `(f, inner, fault)`;
`raisedFlag` = an exception reached the caller -/
def matchObject (tr : List Step) (raisedFlag : Bool) : Option (Nat × List Step × Fault) :=
  match tr with
  | [] => if raisedFlag then some (0, [], .create) else none
  | .mkTemp f :: rest =>
    match rest.getLast? with
    | some (.unlink f') =>
      match rest.dropLast with
      | .writeTemp f'' :: inner =>
        if f' = f ∧ f'' = f ∧ inner.all stepOK then
          some (f, inner, if raisedFlag then .step inner.length else .none)
        else none
      | _ => none
    | _ => none
  | _ => none

def matchFile (tr : List Step) (raisedFlag : Bool) : Option (List Step × Fault) :=
  if tr.all stepOK then some (tr, if raisedFlag then .step tr.length else .none) else none

end Cache
