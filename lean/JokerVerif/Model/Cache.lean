/-!
# `tempfile_decorator` + worker pipeline as a fault-injectable machine  (C13)

Core Lean only.  One decorated call (`marginal_ln_likelihood_helper`, `rejection_sample_helper`,
`iterative_rejection_helper`) is a sequence of observable steps on the file system.  Prior samples given as a
`JokerSamples` *object* go through

    f = NamedTemporaryFile(delete=False)            -- mkTemp f
    try:     prior_samples.write(f.name, overwrite=True)   -- writeTemp f, then whatever the writer does to f
             func(..., prior_samples_file=f.name)   -- opens (mode is part of the label), read_batch, pool.map,
                                                    --   helper batch calls, unpack …
    finally: remove f if it (still) exists          -- unlink f

while a *file name* goes straight to `func` (inner steps only, on the user's file).

Deviation from the first sketch (design_probes/Skel_CacheRng.lean), forced by the real code: the HDF5 writer
called with `overwrite=True` *removes* the empty temp file and creates it again (`os.remove` + `h5py.File(.., "w")`
in `samples_helpers.write_table_hdf5`), so the `try` block may delete and re-create **its own** cache file `f`;
a failure between the two leaves nothing to unlink, hence the clean-up is "remove `f` if it exists".  The
steps of the `try` block are therefore left free up to: no temp file other than `f` is created or deleted, and
user paths are opened read-only (`okFor f`).  The machine is nondeterministic in those steps, the harness checks
that the observed trace is one of its runs, and the theorems are for all runs.  A fault is a parameter: none, a
failure of the temp-file creation itself, or a failure of the `k`-th step of the `try` block (that step is
attempted, nothing after it runs).  The `try` block as a whole is a free list of `okFor f` steps (the real one
starts with `writeTemp f`; a rewrite that e.g. removes the empty file before writing is still a run).
-/
namespace Cache

inductive Mode | ro | rw
deriving DecidableEq, Repr

/-- observable steps -/
inductive Step
  | mkTemp (f : Nat)                 -- temp file `f` comes into existence (NamedTemporaryFile / re-creation by the writer)
  | writeTemp (f : Nat)              -- prior_samples.write(f.name, overwrite=True) is entered
  | openUser (path : Nat) (m : Mode) -- tb.open_file / h5py.File / write / unlink on a user-supplied path
  | openTemp (f : Nat) (m : Mode)    -- open of the cache file
  | body (label : String)            -- read_batch, pool.map, batch_marginal_ln_likelihood, unpack …
  | unlink (f : Nat)                 -- temp file `f` is removed
deriving DecidableEq, Repr

structure St where
  tmp : List Nat := []          -- temp files that exist
  userWritten : Bool := false   -- was any user path opened writable / written / removed
deriving DecidableEq, Repr

def apply (s : St) : Step → St
  | .mkTemp f => { s with tmp := f :: s.tmp }
  | .unlink f => { s with tmp := s.tmp.filter (· ≠ f) }
  | .openUser _ .rw => { s with userWritten := true }
  | _ => s

inductive Fault
  | none
  | create            -- NamedTemporaryFile itself raised: no file exists, nothing else ran
  | step (k : Nat)    -- step `k` of the try block (0 = the cache write) is attempted and raises
deriving DecidableEq, Repr

def Fault.raised : Fault → Bool
  | .none => false
  | _ => true

/-- the part of the `try` block that runs -/
def cut : Fault → List Step → List Step
  | .none, l => l
  | .create, _ => []
  | .step k, l => l.take (k + 1)

/-- the `finally` clause: remove the cache file if it exists -/
def cleanup (s : St) (f : Nat) : List Step := if s.tmp.contains f then [Step.unlink f] else []

/-- everything up to the `finally` clause (`blk` = the whole `try` block; in the real code it starts with
`writeTemp f`, but nothing depends on that) -/
def objectPre (f : Nat) (blk : List Step) (fl : Fault) : List Step :=
  Step.mkTemp f :: cut fl blk

/-- trace of a decorated call on an in-memory library; the `finally` clause always runs -/
def objectTrace (s0 : St) (f : Nat) (blk : List Step) : Fault → List Step
  | .create => []
  | fl => objectPre f blk fl ++ cleanup ((objectPre f blk fl).foldl apply s0) f

/-- trace of a decorated call on a file name -/
def fileTrace (inner : List Step) (fl : Fault) : List Step := cut fl inner

/-- (final state, did an exception reach the caller?) -/
def objectCall (s0 : St) (f : Nat) (blk : List Step) (fl : Fault) : St × Bool :=
  ((objectTrace s0 f blk fl).foldl apply s0, fl.raised)

def fileCall (s0 : St) (inner : List Step) (fl : Fault) : St × Bool :=
  ((fileTrace inner fl).foldl apply s0, fl.raised)

/-- steps allowed in the try block of an object call with cache file `f`: no temp file other than `f` is
created or deleted, no user path is opened writable -/
def okFor (f : Nat) : Step → Bool
  | .mkTemp g => g == f
  | .unlink g => g == f
  | .openUser _ .rw => false
  | _ => true

/-- steps allowed when the caller passed a file name: no temp files at all, user paths read-only -/
def stepOK : Step → Bool
  | .mkTemp _ => false
  | .unlink _ => false
  | .openUser _ .rw => false
  | _ => true

def BlockOK (f : Nat) (blk : List Step) : Prop := ∀ st ∈ blk, okFor f st = true
def InnerOK (inner : List Step) : Prop := ∀ st ∈ inner, stepOK st = true

/-! ### recognising an observed trace as a run (used by the driver; soundness proved in the lemmas) -/

def faultOf (raisedFlag : Bool) (blk : List Step) : Fault :=
  if raisedFlag then .step blk.length else .none

/-- (A) the trace ends with the clean-up removing a still existing `f` -/
def candA (s0 : St) (f : Nat) (rest : List Step) (raisedFlag : Bool) : Option (Nat × List Step × Fault) :=
  match rest.getLast? with
  | some (.unlink g) =>
    if g = f ∧ rest.dropLast.all (okFor f) = true ∧
        ((Step.mkTemp f :: rest.dropLast).foldl apply s0).tmp.contains f = true then
      some (f, rest.dropLast, faultOf raisedFlag rest.dropLast)
    else none
  | _ => none

/-- (B) nothing left to clean up -/
def candB (s0 : St) (f : Nat) (rest : List Step) (raisedFlag : Bool) : Option (Nat × List Step × Fault) :=
  if rest.all (okFor f) = true ∧
      ((Step.mkTemp f :: rest).foldl apply s0).tmp.contains f = false then
    some (f, rest, faultOf raisedFlag rest)
  else none

/-- decompose an observed trace of an object-input call into `(f, blk, fault)`;
`raisedFlag` = an exception reached the caller -/
def matchObject (s0 : St) (tr : List Step) (raisedFlag : Bool) : Option (Nat × List Step × Fault) :=
  match tr with
  | [] => if raisedFlag then some (0, [], .create) else none
  | .mkTemp f :: rest =>
    match candA s0 f rest raisedFlag with
    | some r => some r
    | none => candB s0 f rest raisedFlag
  | _ => none

def matchFile (tr : List Step) (raisedFlag : Bool) : Option (List Step × Fault) :=
  if tr.all stepOK then some (tr, if raisedFlag then .step tr.length else .none) else none

end Cache
