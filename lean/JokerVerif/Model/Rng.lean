/-!
# Generator / seed-sequence plumbing of the sampler  (C10)

Core Lean only.

* `SeedSeq` is numpy's `SeedSequence` as far as spawning is concerned: `spawn m` returns children
  `(entropy, spawn_key ++ [n_children_spawned + i])`, `i < m`, and advances `n_children_spawned` by `m`
  (numpy's documented behaviour; `multiproc_helpers.run_worker` calls
  `rng.bit_generator._seed_seq.spawn(len(tasks))` and builds `Generator(PCG64(child))` per task).
* `Gen` is a generator: its seed sequence and the number of variates drawn so far from its own stream.
* A sampler call is, from the point of view of the parent generator, a list of events `Ev`: `draw n`
  (`rng.uniform(size=n)`, `rng.choice`, in-memory `multivariate_normal` — `n` variates taken from the parent
  stream) and `spawn m` (one child generator per task of `make_full_samples`).  The model threads the
  generator explicitly and has NO other source of randomness: the "world" (`numpy.random` / `random` global
  state) is carried along only so that the theorems can say it is neither read nor written.
* The variates themselves come from an uninterpreted `stream : key → position → α` (numpy's PCG64 seeded from
  the seed sequence): modelled, not verified.
-/
namespace Rng

structure SeedSeq where
  entropy : Nat
  key : List Nat
  nSpawned : Nat
deriving DecidableEq, Repr

structure Gen where
  ss : SeedSeq
  pos : Nat := 0
deriving DecidableEq, Repr

def spawn (s : SeedSeq) (m : Nat) : SeedSeq × List SeedSeq :=
  ({ s with nSpawned := s.nSpawned + m },
   (List.range m).map fun i => { entropy := s.entropy, key := s.key ++ [s.nSpawned + i], nSpawned := 0 })

/-- what the parent generator is asked to do -/
inductive Ev
  | draw (n : Nat)       -- n variates from the parent's own stream
  | spawn (m : Nat)      -- m child generators (one per task)
deriving DecidableEq, Repr

/-- what an observer records -/
inductive Obs
  | segment (start len : Nat)        -- the parent handed out stream positions [start, start+len)
  | children (kids : List SeedSeq)   -- seed sequences of the child generators given to the tasks
deriving DecidableEq, Repr

def step (g : Gen) : Ev → Gen × Obs
  | .draw n => ({ g with pos := g.pos + n }, .segment g.pos n)
  | .spawn m => let r := spawn g.ss m; ({ g with ss := r.1 }, .children r.2)

/-- any sequence of calls on one `TheJoker` = the concatenation of their event lists -/
def run (g : Gen) : List Ev → Gen × List Obs
  | [] => (g, [])
  | e :: es =>
    let r := step g e
    let r' := run r.1 es
    (r'.1, r.2 :: r'.2)

def kidsOf : List Obs → List SeedSeq
  | [] => []
  | .children k :: r => k ++ kidsOf r
  | .segment _ _ :: r => kidsOf r

def segmentsOf : List Obs → List (Nat × Nat)
  | [] => []
  | .segment s n :: r => (s, n) :: segmentsOf r
  | .children _ :: r => segmentsOf r

def drawn : List Ev → Nat
  | [] => 0
  | .draw n :: r => n + drawn r
  | .spawn _ :: r => drawn r

def spawned : List Ev → Nat
  | [] => 0
  | .spawn m :: r => m + spawned r
  | .draw _ :: r => spawned r

/-- The sampler model proper: a world `γ` (global RNG state of numpy / Python) is threaded through but the
transition neither inspects nor changes it; outputs are the variates read off `stream`. -/
def runWorld {γ α : Type} (stream : List Nat → Nat → α) (w : γ) (g : Gen) (evs : List Ev) :
    γ × Gen × List (List α) :=
  let r := run g evs
  (w, r.1,
   (segmentsOf r.2).map (fun sg => (List.range sg.2).map fun j => stream g.ss.key (sg.1 + j)) ++
   (kidsOf r.2).map (fun c => [stream c.key 0]))

/-- events of the public entry points, as the parent generator sees them (documentation of the encoding the
harness uses; `nShuffle` = variates consumed by `rng.choice` when `randomize_prior_order`, `rounds` = sizes of
the successive `uniform` calls, `nTasks` = number of tasks of `make_full_samples`) -/
def fileCallEvents (nShuffle : Nat) (rounds : List Nat) (nTasks : Nat) : List Ev :=
  (if nShuffle = 0 then [] else [Ev.draw nShuffle]) ++ rounds.map Ev.draw ++ [Ev.spawn nTasks]

/-- in-memory paths draw the linear parameters from the parent itself (`nMvn` variates), no children; the shuffle
(`rng.choice`, when `randomize_prior_order`) comes first, as on the file path -/
def inmemCallEvents (nShuffle : Nat) (rounds : List Nat) (nMvn : Nat) : List Ev :=
  (if nShuffle = 0 then [] else [Ev.draw nShuffle]) ++ rounds.map Ev.draw ++ [Ev.draw nMvn]

end Rng
