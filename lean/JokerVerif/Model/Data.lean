/-!
# Model of `thejoker.data.RVData` (C15) and of `thejoker.data_helpers.validate_prepare_data` (C08)

Core Lean only (no Mathlib).  Everything is polymorphic: `τ` = times (and design-matrix entries), `ν` =
velocities / uncertainties, `κ` = survey keys, `υ` = unit tags.  The driver instantiates `τ = ν = Float`,
`κ = Nat` or `String`, `υ = String`.

`RVData.__init__(t, rv, rv_err, t_ref=None, clean=True)`
* shape checks (`ValueError`);
* `clean`: one boolean mask `finite(t) & finite(rv) & finite(err)` (for a covariance: all entries of the
  column finite) applied to `t`, `rv`, `rv_err` (rows **and** columns of a covariance);
* `idx = t.argsort()` applied to `t`, `rv`, `rv_err` (rows and columns).  numpy's default sort is not stable,
  so on tied times *any* sorting permutation may come out: the model takes the permutation as an argument
  (the nondeterministic choice) and accepts it iff it is a permutation of the kept positions that sorts the
  kept times (`validPerm`); theorems are proved for every accepted permutation;
* `t_ref`: `False` -> none, `None` -> earliest time, a `Time` -> that value, anything else `TypeError`.

`validate_prepare_data(data, poly_trend, n_offsets)` for a list / dict of sources: concatenate, label every
row with the key of its source, rows and labels in one common order (any permutation of the concatenation),
indicator columns from the sorted distinct keys (the smallest key is the offset-free reference), reference
epoch = earliest epoch.
-/
namespace Data
universe u
variable {α β γ τ ν κ υ : Type}

/-! ## parallel-array primitives -/

/-- `arr[idx]` for an index array (indices out of range are dropped; the callers prove they are in range) -/
def gather (idx : List Nat) (xs : List β) : List β := idx.filterMap (fun i => xs[i]?)

/-- `arr[mask]` for a boolean mask -/
def maskSel : List Bool → List β → List β
  | true :: ks, x :: xs => x :: maskSel ks xs
  | false :: ks, _ :: xs => maskSel ks xs
  | _, _ => []

/-- positions selected by a mask, counted from `s` -/
def keptIdxFrom : Nat → List Bool → List Nat
  | _, [] => []
  | s, true :: ks => s :: keptIdxFrom (s + 1) ks
  | s, false :: ks => keptIdxFrom (s + 1) ks

def keptIdx (keep : List Bool) : List Nat := keptIdxFrom 0 keep

/-- `perm` is a permutation of `0 … m-1` -/
def isPermOfRange (perm : List Nat) (m : Nat) : Bool :=
  perm.length == m && (List.range m).all (fun i => perm.contains i)

/-- adjacent elements are in order -/
def isSorted (le : τ → τ → Bool) : List τ → Bool
  | [] => true
  | [_] => true
  | a :: b :: r => le a b && isSorted le (b :: r)

/-- the contract of `argsort`: a permutation of the positions after which the times are in order -/
def validPerm (le : τ → τ → Bool) (ts : List τ) (perm : List Nat) : Bool :=
  isPermOfRange perm ts.length && isSorted le (gather perm ts)

/-- covariance matrices are lists of rows -/
abbrev Cov (ν : Type) := List (List ν)

def entry (c : Cov ν) (i j : Nat) : Option ν := (c[i]?).bind (fun row => row[j]?)

/-- 1-D standard deviations or a full covariance matrix -/
inductive Unc (ν : Type) where
  | std (e : List ν)
  | cov (c : Cov ν)

/-- `rv_err[mask]`, for a covariance `rv_err[mask][:, mask]` -/
def Unc.mask (keep : List Bool) : Unc ν → Unc ν
  | .std e => .std (maskSel keep e)
  | .cov c => .cov ((maskSel keep c).map (maskSel keep))

/-- `rv_err[idx]`, for a covariance `rv_err[idx][:, idx]` -/
def Unc.gather (idx : List Nat) : Unc ν → Unc ν
  | .std e => .std (Data.gather idx e)
  | .cov c => .cov ((Data.gather idx c).map (Data.gather idx))

inductive Err where
  | value | type | notimpl | badperm
  deriving DecidableEq, Repr

/-- the `t_ref` argument of `RVData.__init__` -/
inductive TRefArg (τ : Type) where
  | default            -- `None`
  | disabled           -- `False`
  | explicit (t : τ)   -- a `Time`
  | notTime            -- anything else

/-- an `RVData` instance: parallel arrays, reference epoch (`none` = disabled), unit tags -/
structure RV (τ ν υ : Type) where
  t : List τ
  rv : List ν
  unc : Unc ν
  tref : Option τ
  rvUnit : υ
  errUnit : υ

/-! ## RVData.__init__ -/

def shapeOk (ts : List τ) (rvs : List ν) : Unc ν → Bool
  | .std e => e.length == rvs.length && ts.length == rvs.length
  | .cov c => c.length == rvs.length && c.all (fun row => row.length == rvs.length) && ts.length == rvs.length

/-- every entry of column `j` is finite (`np.isfinite(cov).all(axis=0)[j]`) -/
def colFinite (finv : ν → Bool) (c : Cov ν) (j : Nat) : Bool :=
  c.all (fun row => match row[j]? with | some v => finv v | none => true)

/-- the `clean=True` mask -/
def finMask (fint : τ → Bool) (finv : ν → Bool) (ts : List τ) (rvs : List ν) : Unc ν → List Bool
  | .std e => (ts.zip (rvs.zip e)).map (fun x => fint x.1 && finv x.2.1 && finv x.2.2)
  | .cov c => ((ts.zip rvs).zipIdx).map (fun x => fint x.1.1 && finv x.1.2 && colFinite finv c x.2)

def keepMask (fint : τ → Bool) (finv : ν → Bool) (clean : Bool) (ts : List τ) (rvs : List ν) (unc : Unc ν) :
    List Bool :=
  if clean then finMask fint finv ts rvs unc else ts.map (fun _ => true)

/-- reference epoch from the (sorted) times -/
def resolveTRef (sortedT : List τ) : TRefArg τ → Except Err (Option τ)
  | .disabled => .ok none
  | .explicit x => .ok (some x)
  | .notTime => .error .type
  | .default => match sortedT with
    | [] => .error .value      -- `min` of an empty array
    | m :: _ => .ok (some m)

/-- `RVData(t, rv, rv_err, t_ref, clean)`; `perm` = the permutation `argsort` came up with -/
def init (fint : τ → Bool) (finv : ν → Bool) (le : τ → τ → Bool)
    (ts : List τ) (rvs : List ν) (unc : Unc ν) (uRv uErr : υ)
    (clean : Bool) (tref : TRefArg τ) (perm : List Nat) : Except Err (RV τ ν υ) :=
  if !shapeOk ts rvs unc then .error .value else
  let keep := keepMask fint finv clean ts rvs unc
  let ts1 := maskSel keep ts
  if !validPerm le ts1 perm then .error .badperm else
  let ts2 := gather perm ts1
  match resolveTRef ts2 tref with
  | .error e => .error e
  | .ok r => .ok { t := ts2, rv := gather perm (maskSel keep rvs), unc := (unc.mask keep).gather perm,
                   tref := r, rvUnit := uRv, errUnit := uErr }

/-- positions of the input that end up in the output, in output order: every array is indexed by this one
list (rows and columns of a covariance alike) -/
def selection (keep : List Bool) (perm : List Nat) : List Nat := gather perm (keptIdx keep)

/-! ## ivar / cov -/

/-- `1 / rv_err**2` -/
def ivarStd [Mul ν] [Div ν] [OfNat ν 1] (e : List ν) : List ν := e.map (fun x => 1 / (x * x))

/-- `np.linalg.inv(rv_err)` with the inverse as an oracle -/
def ivarCov (inv : Cov ν → Cov ν) (c : Cov ν) : Cov ν := inv c

def RV.ivar [Mul ν] [Div ν] [OfNat ν 1] (inv : Cov ν → Cov ν) (d : RV τ ν υ) : Unc ν :=
  match d.unc with
  | .std e => .std (ivarStd e)
  | .cov c => .cov (ivarCov inv c)

/-- `np.diag(rv_err**2)` / the covariance itself -/
def RV.cov [Mul ν] [OfNat ν 0] (d : RV τ ν υ) : Cov ν :=
  match d.unc with
  | .std e => e.zipIdx.map (fun x => e.zipIdx.map (fun y => if x.2 = y.2 then x.1 * x.1 else 0))
  | .cov c => c

/-! ## copy / slicing (both re-run `__init__` on the stored arrays)

The property demands that `copy()` and `data[sel]` yield *the corresponding observations*: whatever the
instance holds (also the non-finite rows of an instance built with `clean=False`) — so the model re-runs
`__init__` without cleaning — and, for `copy()`, the same reference epoch (also "no reference epoch"). -/

/-- the `t_ref` argument that reproduces a stored reference epoch -/
def trefArgOf : Option τ → TRefArg τ
  | some x => .explicit x
  | none => .disabled

/-- `copy()`: same arrays, same units, same reference epoch -/
def copy (fint : τ → Bool) (finv : ν → Bool) (le : τ → τ → Bool) (d : RV τ ν υ) (perm : List Nat) :
    Except Err (RV τ ν υ) :=
  init fint finv le d.t d.rv d.unc d.rvUnit d.errUnit false (trefArgOf d.tref) perm

/-- `data[sel]` for an index array `sel` (slices and masks are index arrays): positions `sel` of every array
(rows and columns of a covariance), then `__init__` with the default reference epoch -/
def getitem (fint : τ → Bool) (finv : ν → Bool) (le : τ → τ → Bool) (d : RV τ ν υ) (sel perm : List Nat) :
    Except Err (RV τ ν υ) :=
  init fint finv le (gather sel d.t) (gather sel d.rv) (d.unc.gather sel) d.rvUnit d.errUnit false .default perm

/-! ## multi-survey merge (`validate_prepare_data`) -/

/-- one source: an `RVData` with 1-D errors (`hasCov` = it carries a covariance, which is refused) -/
structure Survey (τ ν : Type) where
  t : List τ
  rv : List ν
  err : List ν
  hasCov : Bool := false

/-- insert into a strictly increasing list, keeping it strictly increasing -/
def insertU [LT κ] [DecidableLT κ] [DecidableEq κ] (k : κ) : List κ → List κ
  | [] => [k]
  | a :: r => if k < a then k :: a :: r else if k = a then a :: r else a :: insertU k r

/-- `np.unique(ids)`: the distinct keys in increasing order -/
def uniq [LT κ] [DecidableLT κ] [DecidableEq κ] (ids : List κ) : List κ := ids.foldr insertU []

/-- one row of `get_constant_term_design_matrix`: column 0 is one, column `1+j` marks the `(j+1)`-th key -/
def constRow [DecidableEq κ] [OfNat τ 0] [OfNat τ 1] (uq : List κ) (k : κ) : List τ :=
  1 :: uq.tail.map (fun a => if k = a then 1 else 0)

def powersFrom [Mul τ] (x : τ) : τ → Nat → List τ
  | _, 0 => []
  | acc, n + 1 => acc :: powersFrom x (acc * x) n

/-- `x, x², …` (`n` entries), by repeated multiplication as `np.vander(increasing=True)` does -/
def powers [Mul τ] (x : τ) (n : Nat) : List τ := powersFrom x x n

/-- one row of `get_trend_design_matrix`: `[1 | offset indicators | dt … dt^(p-1)]` -/
def designRow [DecidableEq κ] [OfNat τ 0] [OfNat τ 1] [Sub τ] [Mul τ]
    (uq : List κ) (p : Nat) (tref : τ) (t : τ) (k : κ) : List τ :=
  constRow uq k ++ powers (t - tref) (p - 1)

/-- design matrix of a list of labelled epochs -/
def designOfRows [DecidableEq κ] [OfNat τ 0] [OfNat τ 1] [Sub τ] [Mul τ]
    (uq : List κ) (p : Nat) (tref : τ) (rows : List (τ × κ)) : List (List τ) :=
  rows.map (fun x => designRow uq p tref x.1 x.2)

structure Merged (κ τ ν : Type) where
  t : List τ
  rv : List ν
  err : List ν
  ids : List κ
  tref : τ

def catT (svs : List (κ × Survey τ ν)) : List τ := svs.flatMap (fun p => p.2.t)
def catRv (svs : List (κ × Survey τ ν)) : List ν := svs.flatMap (fun p => p.2.rv)
def catErr (svs : List (κ × Survey τ ν)) : List ν := svs.flatMap (fun p => p.2.err)
/-- `ids.append([k] * len(d))` -/
def catIds (svs : List (κ × Survey τ ν)) : List κ := svs.flatMap (fun p => List.replicate p.2.t.length p.1)

/-- every observation of every source, tagged with the key of its source -/
def labelled (svs : List (κ × Survey τ ν)) : List (τ × ν × ν × κ) :=
  svs.flatMap (fun p => (p.2.t.zip (p.2.rv.zip p.2.err)).map (fun o => (o.1, o.2.1, o.2.2, p.1)))

/-- earliest time of a list (`Time.min`); `none` for an empty one -/
def minT (le : τ → τ → Bool) : List τ → Option τ
  | [] => none
  | m :: r => some (r.foldl (fun a x => if le a x then a else x) m)

/-- `validate_prepare_data` on several sources.  The property (C08) does not say in which order the merged rows
come out — only that they are the union of the inputs and that every row keeps the label of its source — so the
model takes the row order as an argument: `perm` is the order in which the implementation holds the rows of the
concatenation; it is accepted iff it is a permutation of all positions (time-sorted, concatenation order, anything
else), and the labels are gathered by the very same permutation.  The reference epoch is the earliest epoch. -/
def merge [LT κ] [DecidableLT κ] [DecidableEq κ] (le : τ → τ → Bool)
    (svs : List (κ × Survey τ ν)) (nOffsets : Nat) (perm : List Nat) : Except Err (Merged κ τ ν) :=
  if svs.any (fun p => p.2.hasCov) then .error .notimpl else
  if (uniq (catIds svs)).length ≠ nOffsets + 1 then .error .value else
  if !isPermOfRange perm (catT svs).length then .error .badperm else
  match minT le (gather perm (catT svs)) with
  | none => .error .value
  | some m0 => .ok { t := gather perm (catT svs), rv := gather perm (catRv svs), err := gather perm (catErr svs),
                     ids := gather perm (catIds svs), tref := m0 }

/-- the list form `[d0, d1, …]` is the dict `{0: d0, 1: d1, …}` -/
def listInput (ds : List (Survey τ ν)) : List (Nat × Survey τ ν) := ds.zipIdx.map (fun x => (x.2, x.1))

/-- the design matrix built from the merged arrays (what `get_trend_design_matrix(all_data, ids, p)` returns) -/
def Merged.design [LT κ] [DecidableLT κ] [DecidableEq κ] [OfNat τ 0] [OfNat τ 1] [Sub τ] [Mul τ]
    (m : Merged κ τ ν) (p : Nat) : List (List τ) :=
  designOfRows (uniq m.ids) p m.tref (m.t.zip m.ids)

/-- single `RVData` passed to `validate_prepare_data`: refused when offsets are declared; otherwise the
constant column and the trend columns relative to the data's own reference epoch (`0` when disabled) -/
def singleDesign [OfNat τ 0] [OfNat τ 1] [Sub τ] [Mul τ] (d : RV τ ν υ) (p nOffsets : Nat) :
    Except Err (List (List τ)) :=
  if nOffsets ≠ 0 then .error .value else
  .ok (designOfRows ([0] : List Nat) p (d.tref.getD 0) (d.t.map (fun t => (t, 0))))

end Data
