/-!
# Model of the rejection step (`rejection_sample_inmem`, `rejection_sample_helper`) — C02, C06

Core Lean only (no Mathlib).  The model is written in *index form*, like the code: parallel lists
`lls` (ln-likelihood per evaluated position), `uu` (one uniform per evaluated position), `order`
(evaluation position → library row; `range nPrior` or the recorded `choice` output), `good` (accepted
positions), `full` (library rows of the accepted positions), and the returned columns are read back by index
(`lib[full]`, `lnPrior[full]`, `lls[good]`).  That the three index spaces are used consistently is therefore
a *theorem* about the model (Props/C06), not something true by construction.

Nothing is totalised: every index read goes through `gather`, which fails (`none`) on an out-of-range
index, and every failure the real code can produce is an `Except` error.

The scalar type `α` is generic (`[LT α] [DecidableLT α] [Sub α] [Max α]`): theorems instantiate it with an
ordered field / `ℝ` / `EReal`, the driver with IEEE doubles.  `expf` is a parameter.
-/
namespace Reject

/-- error classes of the samplers -/
inductive Err where
  | value     -- `ValueError`
  | runtime   -- `RuntimeError`
  | maxiter   -- `RuntimeError("Hit maximum number of iterations!")`
  | bad       -- the recorded draws / trace handed to the model are not consistent with the options
              -- (never produced by the real code; the harness reports it as a broken correspondence)
deriving Repr, DecidableEq

/-- one row of the prior-sample library: its nonlinear block (opaque) and the `ln_prior` stored with it -/
structure LibRow (ρ α : Type) where
  nonlin : ρ
  lnPrior : α

/-- `xs[is]` (numpy fancy indexing / `read_coordinates`): fails on an out-of-range index -/
def gather {β : Type} (xs : List β) : List Nat → Option (List β)
  | [] => some []
  | i :: is =>
    match xs[i]?, gather xs is with
    | some x, some r => some (x :: r)
    | _, _ => none

/-- every element repeated `n` times (`n_linear_samples` rows per nonlinear sample) -/
def rep {β : Type} (n : Nat) (xs : List β) : List β := xs.flatMap (List.replicate n)

/-- `arr[:k]` with `k = None` meaning no truncation -/
def truncate (k : Option Nat) (g : List Nat) : List Nat :=
  match k with
  | none => g
  | some k => g.take k

/-- what the samplers return (before the linear parameters are drawn) -/
structure Out (ρ α : Type) where
  evalRows : List Nat   -- library rows evaluated, in evaluation order
  allLls : List α       -- `return_all_logprobs`: ln-likelihood per evaluated position
  good : List Nat       -- accepted positions (after truncation)
  full : List Nat       -- their library rows
  rows : List ρ         -- returned nonlinear blocks, `nLinear` consecutive copies per accepted sample
  lnPrior : List α      -- `ln_prior` column, one scalar per returned row
  lnLike : List α       -- `ln_likelihood` column, one scalar per returned row

structure Opts where
  nPrior : Option Nat     -- `n_prior_samples`
  maxPost : Option Nat    -- `max_posterior_samples`
  nLinear : Nat           -- `n_linear_samples`

section Generic
variable {α ρ : Type} [LT α] [DecidableLT α] [Sub α] [Max α]

/-- `lls.max()` -/
def maxOf : List α → Option α
  | [] => none
  | l :: ls => some (ls.foldl max l)

/-- `np.where(exp(lls - m) > uu)[0]`, positions counted from `pos` -/
def maskFrom (expf : α → α) (m : α) : Nat → List α → List α → List Nat
  | pos, l :: ls, u :: us =>
    if u < expf (l - m) then pos :: maskFrom expf m (pos + 1) ls us
    else maskFrom expf m (pos + 1) ls us
  | _, _, _ => []

/-- accepted positions in evaluation order, before truncation -/
def goodPos (expf : α → α) (lls uu : List α) : List Nat :=
  match maxOf lls with
  | none => []
  | some m => maskFrom expf m 0 lls uu

/-- read the returned columns back by index, as the code does: rows and `ln_prior` at the library rows
`full = order[good]`, `ln_likelihood` at the accepted positions `good` -/
def assemble (lib : List (LibRow ρ α)) (order : List Nat) (lls : List α) (good : List Nat) (nLinear : Nat) :
    Option (Out ρ α) :=
  match gather order good with
  | none => none
  | some full =>
    match gather (lib.map (·.nonlin)) full, gather (lib.map (·.lnPrior)) full, gather lls good with
    | some rows, some lp, some ll =>
      some { evalRows := order, allLls := lls, good := good, full := full,
             rows := rep nLinear rows, lnPrior := rep nLinear lp, lnLike := rep nLinear ll }
    | _, _, _ => none

/-- evaluation order: `range nPrior`, or the first `nPrior` entries of the recorded `choice` output -/
def evalOrder (nPrior : Nat) : Option (List Nat) → List Nat
  | none => List.range nPrior
  | some ix => ix.take nPrior

/-- `rejection_sample_helper` / `rejection_sample_inmem` given the draws of the generator:
`idx` = the recorded `rng.choice(n_total, size=n_prior, replace=False)` (shuffle) or `none`,
`uu` = the recorded `rng.uniform(size=n_prior)`; `llf` = the helper's marginal ln-likelihood. -/
def rejectionSample (expf : α → α) (llf : ρ → α) (lib : List (LibRow ρ α)) (o : Opts)
    (idx : Option (List Nat)) (uu : List α) : Except Err (Out ρ α) :=
  let nPrior := o.nPrior.getD lib.length
  if nPrior > lib.length then .error .value else
  let order := evalOrder nPrior idx
  match gather lib order with
  | none => .error .bad
  | some evRows =>
    let lls := evRows.map (fun r => llf r.nonlin)
    if order.length ≠ nPrior ∨ uu.length ≠ lls.length then .error .bad else
    match assemble lib order lls (truncate o.maxPost (goodPos expf lls uu)) o.nLinear with
    | none => .error .bad
    | some out => .ok out

end Generic
end Reject
