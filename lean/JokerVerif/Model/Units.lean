/-!
# Quantities and unit conversion (C07)

A quantity is a value together with the scale of its unit relative to the canonical unit of its dimension
(e.g. `km/s` has scale 1000 relative to `m/s`).  `conv` is the only operation thejoker performs on units:
`Quantity.to_value(target)`.
-/
namespace Units

structure Quantity (α : Type) where
  value : α
  scale : α      -- size of the unit in canonical units (non-zero)

variable {α : Type} [Mul α] [Div α]

/-- `q.to_value(unit of scale target)` -/
def conv (q : Quantity α) (target : α) : α := q.value * q.scale / target

/-- the same physical quantity written in a unit `c` times larger: value divided by `c`, scale multiplied by `c` -/
def reexpress (c : α) (q : Quantity α) : Quantity α := ⟨q.value / c, c * q.scale⟩

/-- everything the code converts before the kernel runs: each declared quantity to its internal unit -/
def internalize (qs : List (Quantity α)) (targets : List α) : List α := List.zipWith conv qs targets

/-- unit-transformed twin of a list of declared quantities -/
def reexpressAll (cs : List α) (qs : List (Quantity α)) : List (Quantity α) := List.zipWith reexpress cs qs

end Units
