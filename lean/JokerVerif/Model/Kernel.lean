import JokerVerif.Basic.Mat
import Mathlib.LinearAlgebra.Matrix.SchurComplement
/-!
# Model of the marginal-likelihood kernel (`CJokerHelper.likelihood_worker` and friends)

Notation (DESIGN.md): `n` epochs, `k` linear parameters, `M` the `n×k` design matrix (column 0 = unit-amplitude
Kepler curve, supplied by an oracle), `y` velocities, `ivar = 1/σ²`, `s` jitter, `(μ, λ)` prior mean / variance
of the linear parameters in column order.

The model follows the code's *algorithm*: jitter folded into the inverse variances (`get_ivar`),
`A⁻¹ = Λ⁻¹ + Mᵀ C_s⁻¹ M`, `A` by inversion, `b = Mμ`, `B = C_s + M Λ Mᵀ`, `B⁻¹` by Woodbury,
`χ² = (b−y)ᵀ B⁻¹ (b−y)`, `log det` from `B`, `a` from the linear solve `A⁻¹ a = Mᵀ C_s⁻¹ y + Λ⁻¹ μ`.
Everything is executable over `ℚ`; the theorems in `Props/C01.lean`, `C03`, `C04`, `C07` are over any field / `ℝ`.
-/
open Matrix

namespace Kernel
variable {α : Type} [Field α] {n k : Nat}

/-- `get_ivar`: inverse variance with the jitter folded in (safe for `iv = 0`) -/
def getIvar (iv s : α) : α := iv / (1 + s * s * iv)

structure KIn (n k : Nat) (α : Type) where
  M : Mat n k α
  y : Vector α n
  ivar : Vector α n
  s : α
  mu : Vector α k
  lam : Vector α k

/-- `s_ivar` -/
def sIvar (x : KIn n k α) : Vector α n := Vector.ofFn fun i => getIvar x.ivar[i] x.s

/-- `Ainv = Λ⁻¹ + Mᵀ C_s⁻¹ M` (`make_AAinv`) -/
def kAinv (x : KIn n k α) : Mat k k α :=
  let MtC : Mat k n α := .ofM (x.M.toMᵀ * diagonal (vfun (sIvar x)))
  .ofM (diagonal (fun j => (x.lam[j])⁻¹) + MtC.toM * x.M.toM)

/-- `A` (LAPACK `dgetrf`/`dgetri` in the code: contract = the inverse) -/
def kA (x : KIn n k α) : Mat k k α := cinv (kAinv x)

/-- `b = M μ` -/
def kb (x : KIn n k α) : Vector α n := Vector.ofFn (x.M.toM *ᵥ vfun x.mu)

/-- `B = C_s + M Λ Mᵀ` -/
def kB (x : KIn n k α) : Mat n n α :=
  let ML : Mat n k α := .ofM (x.M.toM * diagonal (vfun x.lam))
  .ofM (diagonal (fun i => ((sIvar x)[i])⁻¹) + ML.toM * x.M.toMᵀ)

/-- `Binv = C_s⁻¹ − C_s⁻¹ M A Mᵀ C_s⁻¹` (Woodbury, as in `make_bBBinv`) -/
def kBinv (x : KIn n k α) : Mat n n α :=
  let A := kA x
  let CM : Mat n k α := .ofM (diagonal (vfun (sIvar x)) * x.M.toM)
  let CMA : Mat n k α := .ofM (CM.toM * A.toM)
  .ofM (diagonal (vfun (sIvar x)) - CMA.toM * CM.toMᵀ)

/-- residual `b − y` -/
def kr (x : KIn n k α) : Vector α n := Vector.ofFn fun i => (kb x)[i] - x.y[i]

/-- `χ² = (b−y)ᵀ Binv (b−y)` -/
def kchi2 (x : KIn n k α) : α :=
  let r := vfun (kr x)
  let Br : Vector α n := Vector.ofFn ((kBinv x).toM *ᵥ r)
  r ⬝ᵥ vfun Br

/-- `det B` computed directly (`n!` terms: only for theorems and tiny examples) -/
def kdetB (x : KIn n k α) : α := (kB x).toM.det

/-- `det B` through the proved-equal fast form `∏ σ_s² · ∏ λ · det A⁻¹` (what the driver executes) -/
def kdetFast (x : KIn n k α) : α :=
  (∏ i : Fin n, ((sIvar x)[i])⁻¹) * (∏ j : Fin k, x.lam[j]) * (kAinv x).toM.det

/-- right-hand side of the posterior-mean solve: `Mᵀ C_s⁻¹ y + Λ⁻¹ μ` -/
def krhs (x : KIn n k α) : Vector α k :=
  Vector.ofFn fun j => (∑ i : Fin n, x.M.toM i j * (sIvar x)[i] * x.y[i]) + x.mu[j] / x.lam[j]

/-- posterior mean `a` (LAPACK `dsysv` in the code: contract = the solution of `Ainv a = rhs`) -/
def ka (x : KIn n k α) : Vector α k := Vector.ofFn ((kA x).toM *ᵥ vfun (krhs x))

section Ordered
variable [LinearOrder α]
/-- per-sample variance of `K` for the default (fixed companion mass) prior:
`min(max_K², σ_K0² / (1 − e²) · pw)` with `pw = (P/P0)^(-2/3)` supplied by the `pow` oracle -/
def lambdaK (sigmaK0 maxK e pw : α) : α := min (maxK ^ 2) (sigmaK0 ^ 2 / (1 - e ^ 2) * pw)
end Ordered

/-- prior description of the linear parameters, already in data units -/
structure LinPrior (α : Type) where
  K : α × α                 -- (mean, variance) of K (variance already per-sample for the default prior)
  v0 : α × α
  offsets : List (α × α)    -- dv0_1 .. dv0_q
  trend : List (α × α)      -- v1 .. v_{p-1}

/-- slots in design-matrix column order `[K | v0 | dv0_1..dv0_q | v1..v_{p-1}]` -/
def slots (pr : LinPrior α) : List (α × α) := pr.K :: pr.v0 :: (pr.offsets ++ pr.trend)

/-- one row of the design matrix: `[kep | 1 | 1{id = j} (j = 1..q) | dt^l (l = 1..p-1)]` -/
def designRow (kep dt : α) (id q p : Nat) : List α :=
  kep :: 1 :: (((List.range q).map fun j => if id = j + 1 then (1 : α) else 0) ++
    ((List.range (p - 1)).map fun l => dt ^ (l + 1)))

end Kernel

namespace Kernel
/-- `batch_get_posterior_samples`: one output row per linear draw = the sample's nonlinear parameters followed by
the draw, in design-matrix column order; `nLinear` consecutive rows per sample -/
def emitRows {α : Type} (theta : List α) (draws : List (List α)) : List (List α) := draws.map (theta ++ ·)

/-- rows for a whole batch of accepted samples -/
def emitBatch {α : Type} (batch : List (List α × List (List α))) : List (List α) :=
  batch.flatMap fun p => emitRows p.1 p.2
end Kernel

namespace Kernel
variable {α : Type} [Field α]

/-- dot product of a design-matrix row with a linear-parameter vector (both as lists, column order) -/
def rowDot (row x : List α) : α := (List.zipWith (· * ·) row x).sum

/-- the polynomial trend a returned row denotes (`PolynomialRVTrend(coeffs, t0 = t_ref)`):
`Σ_l v_l (t − t_ref)^l`, `v = [v0, v1, …]`, evaluated from power `l0` on -/
def polyFrom (dt : α) : (l0 : Nat) → List α → α
  | _, [] => 0
  | l0, c :: cs => c * dt ^ l0 + polyFrom dt (l0 + 1) cs

/-- offset of the survey with label `id` (`0` = reference survey, no offset; `j ≥ 1` ↦ `dv0_j`) -/
def offsetOf (offsets : List α) (id : Nat) : α :=
  match id with
  | 0 => 0
  | j + 1 => offsets.getD j 0

/-- RV the reconstructed orbit predicts at an epoch with Kepler term `kep` (`= cos(ω+f)+e cos ω` evaluated with
the row's `(P, e, ω, M0)` relative to `t_ref`) and time offset `dt = t − t_ref`, plus the epoch's survey offset -/
def orbitRV (K kep dt v0 : α) (vtrend offsets : List α) (id : Nat) : α :=
  K * kep + (v0 + polyFrom dt 1 vtrend) + offsetOf offsets id

/-- reference epoch of a (merged) data set: the earliest time -/
def tRef [LinearOrder α] : List α → Option α
  | [] => none
  | t :: r => some (r.foldl min t)

end Kernel
