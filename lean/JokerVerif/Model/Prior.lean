/-!
# Model of the distributions thejoker defines or configures, and of the `ln_prior` column (property C09)

Core Lean only (no Mathlib).  Every function is written once, polymorphic in the scalar `α`; the transcendental
functions come in through `Fn α`.  It is executed at `Float` (driver) and reasoned about at `ℝ`
(`Lemmas/PriorLemmas.lean`, `Props/C09.lean`).  A log-density is an `Option α`: `none` is `-∞`.

* `UniformLog(a, b)`             : `thejoker/distributions.py`, `rng_fn` and `logp`
* `FixedCompanionMass`           : `sigma = clip(sigma_K0 (P/P0)^(-1/3) / sqrt(1-e^2), 0, max_K)`, Normal around `mu`
* `Kipping13{Long,Short,Global}` : Beta distributions with fixed constants
* `JokerPrior.sample(return_logprobs=True)` : sum of the log-densities of the parameters that were drawn
-/
namespace Prior

/-- transcendental functions and constants the model is parametrised over -/
structure Fn (α : Type) where
  exp : α → α
  log : α → α
  sqrt : α → α
  pow : α → α → α
  pi : α

section
variable {α : Type} [Add α] [Sub α] [Mul α] [Div α] [Neg α] [LE α] [DecidableLE α]
  [OfNat α 0] [OfNat α 1] [OfNat α 2] [OfNat α 3]

/-! ## UniformLog -/

/-- `UniformLogRV.rng_fn`: `exp(u (ln b - ln a) + ln a)` for a uniform `u` -/
def logUniformDraw (F : Fn α) (a b u : α) : α := F.exp (u * (F.log b - F.log a) + F.log a)

/-- the CDF the sampler inverts -/
def logUniformCdf (F : Fn α) (a b x : α) : α := (F.log x - F.log a) / (F.log b - F.log a)

/-- the declared log-density: `-ln x - ln ln(b/a)` on `[a, b]`, `-∞` outside -/
def logUniformLogp (F : Fn α) (a b x : α) : Option α :=
  if a ≤ x ∧ x ≤ b then some (-(F.log x) - F.log (F.log b - F.log a)) else none

/-! ## FixedCompanionMass -/

def maxOf (x y : α) : α := if x ≤ y then y else x
def minOf (x y : α) : α := if x ≤ y then x else y
/-- `pt.clip(x, lo, hi) = minimum(maximum(x, lo), hi)` -/
def clip (x lo hi : α) : α := minOf (maxOf x lo) hi

/-- the un-clipped scale `sigma_K0 (P/P0)^(-1/3) / sqrt(1 - e^2)` -/
def sigmaKRaw (F : Fn α) (s0 P0 P e : α) : α := s0 * F.pow (P / P0) (-(1 / 3)) / F.sqrt (1 - e * e)

/-- standard deviation of `K | P, e` -/
def sigmaK (F : Fn α) (s0 P0 maxK P e : α) : α := clip (sigmaKRaw F s0 P0 P e) 0 maxK

/-- the variance the marginal-likelihood kernel uses for the `K` slot: `min(max_K^2, sigma_K0^2 (P/P0)^(-2/3)/(1-e^2))` -/
def lambdaK (F : Fn α) (s0 P0 maxK P e : α) : α :=
  minOf (maxK * maxK) (s0 * s0 * F.pow (P / P0) (-(2 / 3)) / (1 - e * e))

/-! ## stock densities used in the `ln_prior` sum -/

/-- log of the Normal density `N(x | mu, sigma^2)` -/
def normalLogp (F : Fn α) (mu sigma x : α) : α :=
  -((x - mu) * (x - mu)) / (2 * (sigma * sigma)) - F.log sigma - F.log (2 * F.pi) / 2

/-- log of the Lognormal density with log-mean `mu`, log-sd `sigma`; support `x > 0` -/
def lognormalLogp (F : Fn α) (mu sigma x : α) : Option α :=
  if x ≤ 0 then none else some (normalLogp F mu sigma (F.log x) - F.log x)

/-- log of the Beta(a, b) density on `[0, 1]`; `lnB = ln B(a, b)` is supplied -/
def betaLogp (F : Fn α) (a b lnB x : α) : Option α :=
  if 0 ≤ x ∧ x ≤ 1 then some ((a - 1) * F.log x + (b - 1) * F.log (1 - x) - lnB) else none

/-- log of the uniform density on an interval of length `2π` (the angles `omega`, `M0`) -/
def angleLogp (F : Fn α) : α := -(F.log (2 * F.pi))

/-! ## the prior configuration and one sample row -/

/-- prior on `K`: FixedCompanionMass or a plain Normal -/
inductive KPrior (α : Type) where
  | fcm (mu s0 P0 maxK : α)
  | normal (mu sigma : α)

structure Cfg (α : Type) where
  pMin : α
  pMax : α
  eA : α                          -- Beta parameters of the eccentricity prior and ln B(a, b)
  eB : α
  eLnB : α
  sPrior : Option (α × α)         -- `some (mu, sigma)`: Lognormal jitter prior; `none`: constant jitter
  kPrior : KPrior α
  vPrior : List (α × α)           -- (mu, sigma) of v0, v1, ...
  dvPrior : List (α × α)          -- (mu, sigma) of dv0_1, ...

structure Row (α : Type) where
  P : α
  e : α
  s : α
  K : α
  v : List α
  dv : List α

def optAdd (x y : Option α) : Option α :=
  match x, y with
  | some a, some b => some (a + b)
  | _, _ => none

/-- sum of Normal log-densities over paired (prior, value) lists -/
def normalsLogp (F : Fn α) : List (α × α) → List α → α
  | (mu, sg) :: ps, x :: xs => normalLogp F mu sg x + normalsLogp F ps xs
  | _, _ => 0

def kLogp (F : Fn α) (k : KPrior α) (P e K : α) : α :=
  match k with
  | .fcm mu s0 P0 maxK => normalLogp F mu (sigmaK F s0 P0 maxK P e) K
  | .normal mu sg => normalLogp F mu sg K

/-- what `prior.sample(return_logprobs=True, generate_linear=False)` must report: the terms of the parameters
that have a density (`P`, `e`, and `s` when it is sampled) -/
def lnPriorNonlinear (F : Fn α) (c : Cfg α) (r : Row α) : Option α :=
  let base := optAdd (logUniformLogp F c.pMin c.pMax r.P) (betaLogp F c.eA c.eB c.eLnB r.e)
  match c.sPrior with
  | none => base
  | some (mu, sg) => optAdd base (lognormalLogp F mu sg r.s)

/-- the linear part: `ln p(K | P, e) + Σ ln p(v_l) + Σ ln p(dv0_i)` -/
def lnPriorLinear (F : Fn α) (c : Cfg α) (r : Row α) : α :=
  kLogp F c.kPrior r.P r.e r.K + normalsLogp F c.vPrior r.v + normalsLogp F c.dvPrior r.dv

/-- `generate_linear=True` -/
def lnPriorFull (F : Fn α) (c : Cfg α) (r : Row α) : Option α :=
  (lnPriorNonlinear F c r).map (· + lnPriorLinear F c r)

/-- the log of the joint density the rows are drawn from, including the two uniform angles -/
def jointNonlinear (F : Fn α) (c : Cfg α) (r : Row α) : Option α :=
  (lnPriorNonlinear F c r).map (· + (angleLogp F + angleLogp F))

def jointFull (F : Fn α) (c : Cfg α) (r : Row α) : Option α :=
  (lnPriorNonlinear F c r).map (· + (angleLogp F + angleLogp F) + lnPriorLinear F c r)

end

/-! ## Kipping (2013) Beta constants, in thousandths -/

inductive Kipping where
  | long | short | global
  deriving DecidableEq, Repr

/-- `(1000 α, 1000 β)` as configured by `Kipping13Long/Short/Global` -/
def kipping : Kipping → Nat × Nat
  | .long => (1120, 3090)
  | .short => (697, 3270)
  | .global => (867, 3030)

end Prior
