/-!
# Model of the sample-file protocol: `JokerSamples.write / read` and `thejoker.utils.read_batch`

Core Lean only (no Mathlib) so the driver can evaluate it without loading anything else.

The file is an abstract table store: its state is `Option (Table α)` (`none` = no file).  HDF5 / astropy
serialisation is *not* modelled (DESIGN §3 C12, residue) — the model is the table-level protocol:

* `JokerSamples.write(output, overwrite, append)` (`samples.py`) → `write_table_hdf5` (`samples_helpers.py`):
  - file absent: the table is written (whatever the flags);
  - file present, `append=False`: `overwrite=True` replaces it, otherwise `OSError("File exists")`;
  - file present, `append=True, overwrite=True`: "only the dataset will be replaced" (docstring) — the table
    replaces the content;
  - file present, `append=True`: the existing header (column names, order, dtypes, units) and the metadata
    (`t_ref`, `poly_trend`, `n_offsets`) must equal those of the new table, then the rows are appended
    (dataset resized, `dset[current_size:] = table`), otherwise an error and the file is left as it was;
  - FITS: `append=True` → `NotImplementedError`; existing file without `overwrite` → `OSError`.
* `JokerSamples.read` returns the stored table (columns, order, values, units, dtypes, metadata).
* `read_batch(file, columns, slice_or_idx, units, rng)`: rows selected by a slice (Python slice semantics,
  positive step), an index array (given order, repeats allowed, numpy negative-index wrap), or an integer size
  (`rng.choice(n, size, replace=False)`), for each requested column in the requested order; a column named in
  `units` is multiplied by the conversion factor `table_unit.to(units[name])`.

The result of `readBatch` is column-major: `out[c][r]` is `batch[r, c]` of the numpy array.
-/
namespace Store

inductive Err where
  | exists        -- file exists and neither overwrite nor append was given
  | incompatible  -- append of a table whose header / metadata differ from the file's
  | noFile        -- read of a file that does not exist
  | notImpl       -- FITS append
  | key           -- requested column is not in the file
  | index         -- index out of range
  | value         -- zero / negative slice step, or more random rows requested than the file has
  | units         -- requested unit not convertible from the stored one
  | choice        -- the random-choice oracle broke its contract (size, no repeats, in range)
  deriving DecidableEq, Repr

/-- what the file header records per column -/
structure ColHdr where
  name : String
  unit : String
  dtype : String
  deriving DecidableEq, Repr

structure Col (α : Type) where
  hdr : ColHdr
  vals : List α

/-- table metadata that `JokerSamples` owns; `tRef` is an opaque key of the reference epoch -/
structure Meta where
  tRef : Option String
  polyTrend : Nat
  nOffsets : Nat
  deriving DecidableEq, Repr

structure Table (α : Type) where
  cols : List (Col α)
  md : Meta

variable {α : Type}

def Table.hdrs (t : Table α) : List ColHdr := t.cols.map (·.hdr)

/-- number of rows = length of the first column (all columns have that length in a well-formed table) -/
def Table.nRows (t : Table α) : Nat :=
  match t.cols with
  | [] => 0
  | c :: _ => c.vals.length

/-- well-formed: every column has `nRows` entries (astropy enforces this for every table) -/
def Table.WF (t : Table α) : Prop := ∀ c ∈ t.cols, c.vals.length = t.nRows

/-- values of column number `i` (empty when there is no such column) -/
def Table.colVals (t : Table α) (i : Nat) : List α :=
  match t.cols[i]? with
  | some c => c.vals
  | none => []

/-- the comparison made before an append: same column names in the same order with the same dtypes and
units, and the same `t_ref`, `poly_trend`, `n_offsets` -/
def compatible (f t : Table α) : Bool := decide (f.hdrs = t.hdrs) && decide (f.md = t.md)

/-- `dset.resize(n + m); dset[n:] = new` column by column -/
def appendCols : List (Col α) → List (Col α) → List (Col α) :=
  List.zipWith fun a b => { a with vals := a.vals ++ b.vals }

def Table.append (f t : Table α) : Table α := { f with cols := appendCols f.cols t.cols }

inductive Fmt where
  | hdf5 | fits
  deriving DecidableEq, Repr

abbrev State (α : Type) := Option (Table α)

/-- `JokerSamples.write(path, overwrite=ov, append=ap)`: new state and outcome.  On every error the state is
the old state. -/
def write (fmt : Fmt) (s : State α) (t : Table α) (ov ap : Bool) : State α × Except Err Unit :=
  match fmt with
  | .fits =>
    if ap then (s, .error .notImpl)
    else match s with
      | none => (some t, .ok ())
      | some _ => if ov then (some t, .ok ()) else (s, .error .exists)
  | .hdf5 =>
    match s with
    | none => (some t, .ok ())
    | some f =>
      if ap then
        if ov then (some t, .ok ())
        else if compatible f t then (some (f.append t), .ok ())
        else (s, .error .incompatible)
      else if ov then (some t, .ok ())
      else (s, .error .exists)

/-- `JokerSamples.read(path)` -/
def read (s : State α) : Except Err (Table α) :=
  match s with
  | none => .error .noFile
  | some t => .ok t

/-! ## Row selection -/

inductive Sel where
  | slice (start stop step : Option Int)
  | idx (l : List Int)
  | random (size : Nat)

/-- Python's normalisation of one slice bound for a positive step (`slice.indices`) -/
def clampIdx (n : Nat) (dflt : Nat) : Option Int → Nat
  | none => dflt
  | some v => if v < 0 then (v + (n : Int)).toNat else min v.toNat n

/-- rows of `range(n)[start:stop:step]` for `step ≥ 1` -/
def sliceRows (n : Nat) (start stop : Option Int) (step : Nat) : List Nat :=
  let lo := clampIdx n 0 start
  let hi := clampIdx n n stop
  List.range' lo ((hi - lo + (step - 1)) / step) step

/-- numpy index normalisation: `-n ≤ i < n`, negative counts from the end -/
def normIdx (n : Nat) (i : Int) : Option Nat :=
  if 0 ≤ i then (if i.toNat < n then some i.toNat else none)
  else if -(n : Int) ≤ i then some (i + (n : Int)).toNat
  else none

def normAll (n : Nat) : List Int → Option (List Nat)
  | [] => some []
  | i :: is =>
    match normIdx n i, normAll n is with
    | some r, some rs => some (r :: rs)
    | _, _ => none

/-- contract of `rng.choice(n, size, replace=False)`: `size` distinct rows, all in range -/
def validChoice (n size : Nat) (idx : List Nat) : Bool :=
  decide (idx.length = size) && decide idx.Nodup && idx.all (· < n)

/-- `choose n size` stands for `rng.choice(n, size=size, replace=False)`; its answer is used only if it
satisfies the contract -/
def resolve (choose : Nat → Nat → Option (List Nat)) (n : Nat) : Sel → Except Err (List Nat)
  | .slice a b st =>
    match st with
    | none => .ok (sliceRows n a b 1)
    | some k => if 0 < k then .ok (sliceRows n a b k.toNat) else .error .value
  | .idx l =>
    match normAll n l with
    | some rows => .ok rows
    | none => .error .index
  | .random size =>
    if n < size then .error .value
    else match choose n size with
      | some idx => if validChoice n size idx then .ok idx else .error .choice
      | none => .error .choice

/-! ## Reading a batch -/

/-- `arr[rows]` -/
def gather (vals : List α) : List Nat → Option (List α)
  | [] => some []
  | r :: rs =>
    match vals[r]?, gather vals rs with
    | some v, some vs => some (v :: vs)
    | _, _ => none

def findCol (t : Table α) (name : String) : Option (Col α) := t.cols.find? fun c => c.hdr.name == name

/-- first phase of `read_batch_*`: every requested column is read at the selected rows -/
def readRaw (t : Table α) (rows : List Nat) : List String → Except Err (List (Col α × List α))
  | [] => .ok []
  | name :: rest =>
    match findCol t name with
    | none => .error .key
    | some c =>
      match gather c.vals rows with
      | none => .error .index
      | some vs =>
        match readRaw t rows rest with
        | .error e => .error e
        | .ok out => .ok ((c, vs) :: out)

/-- `units` is the dict of requested output units; `conv from to` is the scale factor `from.to(to)`
(`none` = not convertible).  A column not named in `units` is not touched. -/
def factorFor (conv : String → String → Option α) (units : List (String × String)) (h : ColHdr) :
    Except Err (Option α) :=
  match units.lookup h.name with
  | none => .ok none
  | some target =>
    match conv h.unit target with
    | some f => .ok (some f)
    | none => .error .units

/-- `batch[:, i] *= factor` -/
def applyConv [Mul α] : Option α → α → α
  | none, v => v
  | some f, v => v * f

/-- second phase: the unit conversions, in column order -/
def convertAll [Mul α] (conv : String → String → Option α) (units : List (String × String)) :
    List (Col α × List α) → Except Err (List (List α))
  | [] => .ok []
  | (c, vs) :: rest =>
    match factorFor conv units c.hdr with
    | .error e => .error e
    | .ok f =>
      match convertAll conv units rest with
      | .error e => .error e
      | .ok out => .ok (vs.map (applyConv f) :: out)

structure Query where
  cols : List String
  sel : Sel
  units : List (String × String)

/-- `read_batch(file, cols, sel, units, rng)`; column-major result -/
def readBatch [Mul α] (choose : Nat → Nat → Option (List Nat)) (conv : String → String → Option α)
    (s : State α) (q : Query) : Except Err (List (List α)) :=
  match s with
  | none => .error .noFile
  | some t =>
    match resolve choose t.nRows q.sel with
    | .error e => .error e
    | .ok rows =>
      match readRaw t rows q.cols with
      | .error e => .error e
      | .ok raw => convertAll conv q.units raw

/-! ## Histories -/

inductive Op (α : Type) where
  | write (t : Table α) (ov ap : Bool)
  | read
  | batch (q : Query) (choice : Option (List Nat))

inductive Res (α : Type) where
  | done
  | table (t : Table α)
  | arr (a : List (List α))
  | err (e : Err)

def step [Mul α] (fmt : Fmt) (conv : String → String → Option α) (s : State α) : Op α → State α × Res α
  | .write t ov ap =>
    match write fmt s t ov ap with
    | (s', .ok ()) => (s', .done)
    | (s', .error e) => (s', .err e)
  | .read =>
    match read s with
    | .ok t => (s, .table t)
    | .error e => (s, .err e)
  | .batch q choice =>
    match readBatch (fun _ _ => choice) conv s q with
    | .ok a => (s, .arr a)
    | .error e => (s, .err e)

def run [Mul α] (fmt : Fmt) (conv : String → String → Option α) : State α → List (Op α) → State α × List (Res α)
  | s, [] => (s, [])
  | s, op :: ops =>
    let (s', r) := step fmt conv s op
    let (s'', rs) := run fmt conv s' ops
    (s'', r :: rs)

/-! ## The list specification the file refines -/

/-- abstract state: the tables written since the last replacing write, oldest first (`[]` = no file) -/
abbrev Log (α : Type) := List (Table α)

/-- content of the file that a log denotes -/
def content : Log α → State α
  | [] => none
  | t₀ :: ts => some (ts.foldl Table.append t₀)

/-- `write` on logs -/
def specWrite (fmt : Fmt) (log : Log α) (t : Table α) (ov ap : Bool) : Log α × Except Err Unit :=
  match fmt with
  | .fits =>
    if ap then (log, .error .notImpl)
    else match log with
      | [] => ([t], .ok ())
      | _ :: _ => if ov then ([t], .ok ()) else (log, .error .exists)
  | .hdf5 =>
    match log with
    | [] => ([t], .ok ())
    | t₀ :: ts =>
      if ap then
        if ov then ([t], .ok ())
        else if compatible t₀ t then (t₀ :: (ts ++ [t]), .ok ())
        else (log, .error .incompatible)
      else if ov then ([t], .ok ())
      else (log, .error .exists)

/-- every later table of a log was accepted against the first one -/
def LogOK : Log α → Prop
  | [] => True
  | t₀ :: ts => ∀ t ∈ ts, compatible t₀ t = true

/-- the writes of a history, applied to a log -/
def specRun (fmt : Fmt) : Log α → List (Table α × Bool × Bool) → Log α × List (Except Err Unit)
  | log, [] => (log, [])
  | log, (t, ov, ap) :: ws =>
    let (log', r) := specWrite fmt log t ov ap
    let (log'', rs) := specRun fmt log' ws
    (log'', r :: rs)

def writeRun (fmt : Fmt) : State α → List (Table α × Bool × Bool) → State α × List (Except Err Unit)
  | s, [] => (s, [])
  | s, (t, ov, ap) :: ws =>
    let (s', r) := write fmt s t ov ap
    let (s'', rs) := writeRun fmt s' ws
    (s'', r :: rs)

/-! ## A concrete sampler without replacement (shows the contract of `choose` is satisfiable) -/

/-- draw without replacement: each draw `d` picks element `d % |pool|` of the remaining pool -/
def drawNoRepl : List Nat → List Nat → List Nat
  | _, [] => []
  | pool, d :: ds =>
    match pool[d % pool.length]? with
    | some x => x :: drawNoRepl (pool.eraseIdx (d % pool.length)) ds
    | none => []

/-- a chooser built from a stream of raw draws -/
def chooseFrom (draws : List Nat) (n size : Nat) : Option (List Nat) :=
  some (drawNoRepl (List.range n) (draws.take size))

end Store
