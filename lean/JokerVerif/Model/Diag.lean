/-!
# Model of the time-sampling diagnostics (C19)

`thejoker/samples_analysis.py` (`MAP_sample`, `max_phase_gap`, `phase_coverage`, `periods_spanned`) and
`RVData.phase` (`thejoker/data.py`).  Everything is written once, polymorphic in the scalar: the driver executes
it at `Rat` (every IEEE double is a rational, so the model's answer is the exact value of the definition on the
numbers the user declared) and at `Float` (arg-max decisions); the theorems are proved for every linearly ordered
field.  No Mathlib here.
-/
namespace Diag
variable {α : Type}

/-! ## sorting, maximum, minimum (what `np.sort`, `.max()`, `.min()`, `np.argmax` do on non-NaN input) -/
section order
variable [LE α] [DecidableLE α]

/-- insert into a sorted list -/
def ins (a : α) : List α → List α
  | [] => [a]
  | b :: r => if a ≤ b then a :: b :: r else b :: ins a r

/-- `np.sort` -/
def isort : List α → List α
  | [] => []
  | a :: r => ins a (isort r)
end order

section maxmin
variable [LT α] [DecidableLT α]

/-- `.max()`; `none` on the empty array (numpy raises) -/
def maxList : List α → Option α
  | [] => none
  | a :: r => some (r.foldl (fun m x => if m < x then x else m) a)

/-- `.min()` -/
def minList : List α → Option α
  | [] => none
  | a :: r => some (r.foldl (fun m x => if x < m then x else m) a)

/-- `np.argmax` scanning loop: `b` is the best index so far, `bv` its value, `i` the index of the next element -/
def argmaxFrom : Nat → α → Nat → List α → Nat
  | b, _, _, [] => b
  | b, bv, i, x :: r => if bv < x then argmaxFrom i x (i + 1) r else argmaxFrom b bv (i + 1) r

/-- `np.argmax`: index of the first maximal element -/
def argmax : List α → Option Nat
  | [] => none
  | a :: r => some (argmaxFrom 0 a 1 r)
end maxmin

/-! ## MAP_sample -/

/-- `ln_post = samples['ln_prior'] + samples['ln_likelihood']` -/
def post [Add α] (lnPrior lnLike : List α) : List α := List.zipWith (· + ·) lnPrior lnLike

/-- `idx = np.argmax(ln_post)` -/
def mapIndex [Add α] [LT α] [DecidableLT α] (lnPrior lnLike : List α) : Option Nat :=
  argmax (post lnPrior lnLike)

/-! ## phases -/

/-- `x % 1.0` for a real `x`: `x - ⌊x⌋` (the floor is a parameter so that the model file stays Mathlib free) -/
def frac [Sub α] [IntCast α] (floor : α → Int) (x : α) : α := x - ((floor x : Int) : α)

/-- `RVData.phase`: `((t - t_ref) / P) % 1.0` -/
def phase [Sub α] [Div α] [IntCast α] (floor : α → Int) (tref P t : α) : α := frac floor ((t - tref) / P)

/-! ## max_phase_gap -/
section gap
variable [Sub α]

/-- consecutive differences `x[1:] - x[:-1]` -/
def gaps : List α → List α
  | a :: b :: r => (b - a) :: gaps (b :: r)
  | _ => []

variable [Add α] [One α]

/-- the arcs between consecutive observations on the phase circle, for phases sorted increasingly: close the
circle by appending `first + 1`; the last entry is the arc through phase 1 → 0 -/
def circGaps : List α → List α
  | [] => []
  | a :: r => gaps (a :: r ++ [a + 1])

variable [LE α] [DecidableLE α] [LT α] [DecidableLT α]

/-- THE DEFINITION: largest empty arc between consecutive observations on the phase circle, including the arc
across phase 1 → 0.  `none` when there is no observation. -/
def circGap (phases : List α) : Option α := maxList (circGaps (isort phases))

/-- the repaired code: `phase = np.sort(..); phase = np.concatenate((phase, phase + 1));
(phase[1:] - phase[:-1]).max()` -/
def maxPhaseGap (phases : List α) : Option α :=
  let s := isort phases
  maxList (gaps (s ++ s.map (· + 1)))

/-- equivalent repair: `np.concatenate((phase, phase[:1] + 1))` -/
def maxPhaseGapHead (phases : List α) : Option α :=
  match isort phases with
  | [] => none
  | a :: r => maxList (gaps (a :: r ++ [a + 1]))

/-- the code AS PINNED: `np.concatenate((phase, phase))` — the wrap-around arc is replaced by
`first - last ≤ 0`, so the largest gap is only searched among the interior arcs -/
def maxPhaseGapPinned (phases : List α) : Option α :=
  let s := isort phases
  maxList (gaps (s ++ s))
end gap

/-! ## phase_coverage -/
section coverage
variable [NatCast α] [Div α]

/-- `np.linspace(0, 1, n+1)[k]` as a real number -/
def edge (n k : Nat) : α := (k : α) / (n : α)

variable [LE α] [DecidableLE α] [LT α] [DecidableLT α]

/-- `np.histogram` bin membership: bin `k` of `n` is `[k/n, (k+1)/n)`, the last bin also contains its right edge -/
def inBin (n k : Nat) (φ : α) : Bool :=
  decide (edge n k ≤ φ) && (decide (φ < edge n (k + 1)) || (decide (k + 1 = n) && decide (φ ≤ edge n (k + 1))))

/-- `H, _ = np.histogram(phases, bins=np.linspace(0, 1, n+1))` -/
def hist (n : Nat) (phases : List α) : List Nat :=
  (List.range n).map fun k => (phases.filter (inBin n k)).length

/-- `(H > 0).sum()` -/
def occupied (n : Nat) (phases : List α) : Nat := ((hist n phases).filter (0 < ·)).length

/-- `phase_coverage`; `none` for `n_bins = 0` (numpy refuses a single bin edge) -/
def phaseCoverage (n : Nat) (phases : List α) : Option α :=
  if n = 0 then none else some ((occupied n phases : α) / (n : α))
end coverage

/-! ## periods_spanned -/

/-- `(t.max() - t.min()) / P`; `none` without observations or for `P = 0` -/
def periodsSpanned [Sub α] [Div α] [LT α] [DecidableLT α] [Zero α] [DecidableEq α] (ts : List α) (P : α) : Option α :=
  if P = 0 then none else
  match maxList ts, minList ts with
  | some M, some m => some ((M - m) / P)
  | _, _ => none

end Diag
