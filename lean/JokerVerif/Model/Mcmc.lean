/-!
# Model of the pymc model assembled by `TheJoker.setup_mcmc` (property C11)

Core Lean only (no Mathlib); polymorphic in the scalar like `Model/Prior.lean`.

* `mcmcRV`     : what `setup_mcmc` builds — `t_peri = P·M0/2π`, `KeplerianOrbit(period, ecc, omega, t_periastron)`,
                 mean anomaly `(x − t_peri)·2π/P`, `K (cos ω cos f − sin ω sin f + e cos ω) + M_trend · (v0, dv0_*, v1, …)`
* `samplerRV`  : the rejection sampler's model — mean anomaly `2π x/P − M0` (twobody, `x = t − t_ref`),
                 `K (cos(ω + f) + e cos ω)` plus the same trend
* both take the parameters in *internal* units (P in days, angles in radians, velocities in the data unit,
  `v_l` in data unit / day^l); `toInternal` is the conversion from the units declared in the prior
* `dataTerm`, `logDensity`, the `logp / ln_likelihood / ln_prior` deterministics
* `medianIdx` / `initPoint` : the initial point returned by `setup_mcmc`
-/
namespace Mcmc

/-- functions the model is parametrised over; `trueAnom M e` = true anomaly at mean anomaly `M` -/
structure Fn (α : Type) where
  cos : α → α
  sin : α → α
  log : α → α
  pi : α
  trueAnom : α → α → α

/-- one parameter point: nonlinear and linear parameters -/
structure Par (α : Type) where
  P : α
  e : α
  omega : α
  M0 : α
  s : α
  K : α
  v : List α        -- v0, v1, …
  dv : List α       -- dv0_1, …

/-- one epoch: `x = t − t_ref` in days, the survey label (0 = reference survey), velocity and its error -/
structure Obs (α : Type) where
  x : α
  label : Nat
  y : α
  sigma : α

/-- factors from the units declared in the prior to the internal units -/
structure Units (α : Type) where
  cP : α            -- P unit → day
  cOmega : α        -- omega unit → rad
  cM0 : α
  cS : α            -- s unit → data velocity unit
  cK : α
  cV : List α       -- v_l unit → data unit / day^l
  cDv : List α

section
variable {α : Type} [Add α] [Sub α] [Mul α] [Div α] [Neg α] [OfNat α 0] [OfNat α 1] [OfNat α 2]

def zipMul : List α → List α → List α
  | a :: as, b :: bs => (a * b) :: zipMul as bs
  | _, _ => []

def toInternal (u : Units α) (p : Par α) : Par α :=
  { P := u.cP * p.P, e := p.e, omega := u.cOmega * p.omega, M0 := u.cM0 * p.M0, s := u.cS * p.s, K := u.cK * p.K,
    v := zipMul u.cV p.v, dv := zipMul u.cDv p.dv }

/-! ## phase conventions -/

/-- `setup_mcmc`: `t_peri = P M0 / 2π`; `KeplerianOrbit` evaluates the anomaly at `(x − t_peri) · n`, `n = 2π / P` -/
def mcmcMeanAnomaly (F : Fn α) (P M0 x : α) : α := (x - P * M0 / (2 * F.pi)) * (2 * F.pi / P)

/-- the sampler (twobody `c_rv_from_elements`): `2π (t − t_ref) / P − M0` -/
def samplerMeanAnomaly (F : Fn α) (P M0 x : α) : α := 2 * F.pi * x / P - M0

/-! ## trend: `M_trend · (v0, dv0_1 …, v1 …)`, the same function in both models -/

/-- `Σ_{l ≥ l0} v_l dt^l` for the list `[v_{l0}, …]`, `pw = dt^{l0}` -/
def polySum (dt : α) : List α → α → α
  | [], _ => 0
  | c :: cs, pw => c * pw + polySum dt cs (pw * dt)

/-- offset of the survey with this label: 0 for the reference survey, `dv0_label` otherwise -/
def offsetOf (dv : List α) (label : Nat) : α :=
  match label with
  | 0 => 0
  | l + 1 => dv.getD l 0

def trend (p : Par α) (o : Obs α) : α := polySum o.x p.v 1 + offsetOf p.dv o.label

/-! ## the two RV models -/

def mcmcRV (F : Fn α) (p : Par α) (o : Obs α) : α :=
  let f := F.trueAnom (mcmcMeanAnomaly F p.P p.M0 o.x) p.e
  p.K * (F.cos p.omega * F.cos f - F.sin p.omega * F.sin f + p.e * F.cos p.omega) + trend p o

def samplerRV (F : Fn α) (p : Par α) (o : Obs α) : α :=
  let f := F.trueAnom (samplerMeanAnomaly F p.P p.M0 o.x) p.e
  p.K * (F.cos (p.omega + f) + p.e * F.cos p.omega) + trend p o

/-! ## log-density -/

/-- `ln N(y | mu, var)` -/
def lnNormalVar (F : Fn α) (y mu var : α) : α := -((y - mu) * (y - mu)) / (2 * var) - F.log (2 * F.pi * var) / 2

/-- the Gaussian data term `Σ_i ln N(y_i | rv_i, σ_i² + s²)` -/
def dataTerm (F : Fn α) (p : Par α) (rv : Par α → Obs α → α) : List (Obs α) → α
  | [] => 0
  | o :: os => lnNormalVar F o.y (rv p o) (o.sigma * o.sigma + p.s * p.s) + dataTerm F p rv os

/-- the three diagnostics `setup_mcmc` stores -/
structure Diag (α : Type) where
  logp : α
  lnLikelihood : α
  lnPrior : α

/-- `logp = ln prior + data term`, `ln_likelihood = data term`, `ln_prior = logp − ln_likelihood` -/
def diagnostics (lnPrior data : α) : Diag α :=
  { logp := lnPrior + data, lnLikelihood := data, lnPrior := (lnPrior + data) - data }

/-- full log-density over the physical parameters (prior in the declared units, data term in internal units) -/
def logDensity (F : Fn α) (lnPrior : Par α → Option α) (u : Units α) (obs : List (Obs α)) (p : Par α) : Option α :=
  (lnPrior p).map (· + dataTerm F (toInternal u p) (mcmcRV F) obs)

end

/-! ## the initial point -/
section
variable {α : Type} [LT α] [DecidableLT α] [LE α] [DecidableLE α]

def countLt (ps : List α) (x : α) : Nat := (ps.filter fun y => decide (y < x)).length
def countLe (ps : List α) (x : α) : Nat := (ps.filter fun y => decide (y ≤ x)).length

/-- `x` is the `k`-th order statistic (0-based) of `ps`: fewer than or exactly `k` elements are smaller, more than
`k` are smaller or equal -/
def IsOrderStat (ps : List α) (k : Nat) (x : α) : Prop := countLt ps x ≤ k ∧ k < countLe ps x

instance (ps : List α) (k : Nat) (x : α) : Decidable (IsOrderStat ps k x) := by
  unfold IsOrderStat; exact inferInstance

/-- `JokerSamples.median_period`: `argpartition(P, N//2)[N//2]` — an index whose period is the `⌊N/2⌋`-th order
statistic (the first such index; with distinct periods it is unique) -/
def medianIdx (ps : List α) : Option Nat :=
  (List.range ps.length).find? fun i =>
    match ps[i]? with
    | some x => decide (IsOrderStat ps (ps.length / 2) x)
    | none => false

/-- the initial point: the median-period row, expressed in the prior's units by `conv` -/
def initPoint {ρ : Type} (rows : List ρ) (period : ρ → α) (conv : ρ → ρ) : Option ρ :=
  match medianIdx (rows.map period) with
  | some i => (rows[i]?).map conv
  | none => none

end

end Mcmc

/-! ## call history of `setup_mcmc` on one pymc model

The observed-data node is created by the first call; a later call on the same model returns the initial point only and
is refused when its data differ from the data the node was built from. -/
namespace Mcmc

/-- what a pymc model knows about MCMC set-up: the data its likelihood node was built from, if any -/
structure MState (δ : Type) where
  obs : Option δ

/-- one `setup_mcmc(data, …)` call on a model in state `m` -/
def setupCall {δ : Type} [DecidableEq δ] (m : MState δ) (d : δ) : Except Unit (MState δ) :=
  match m.obs with
  | none => .ok ⟨some d⟩
  | some d0 => if d0 = d then .ok m else .error ()

/-- a sequence of calls; stops at the first refusal -/
def setupCalls {δ : Type} [DecidableEq δ] : MState δ → List δ → Except Unit (MState δ)
  | m, [] => .ok m
  | m, d :: ds =>
    match setupCall m d with
    | .ok m' => setupCalls m' ds
    | .error e => .error e

end Mcmc
