import JokerVerif.Model.Diag
/-!
# Model of `JokerSamples` table operations (C17)

`thejoker/samples.py`: `wrap_K`, `get_time_with_phase` / `get_t0`, `pack` / `unpack`, `__getitem__` (int, slice,
boolean mask, index array), `copy`, `mean`, `std`, `median_period`.  A table is a list of named columns with a
unit (label + scale to a base unit) and the metadata `(t_ref, poly_trend, n_offsets)` that travels with it.
Polymorphic in the scalar; executed by the driver at exact rationals.  No Mathlib.
-/
namespace Samples
variable {α : Type}

/-! ## wrap_K -/

/-- floored modulo `x % m` (numpy / astropy semantics for `m > 0`); the floor is a parameter -/
def fmod [Sub α] [Mul α] [Div α] [IntCast α] (floor : α → Int) (x m : α) : α :=
  x - ((floor (x / m) : Int) : α) * m

/-- `wrap_K` on one row.  `h` is half a turn in the unit of the `omega` column (π for rad, 180 for deg):
`K < 0  ↦  (|K|, (ω + h) mod 2h)`, otherwise the row is untouched. -/
def wrapK [Sub α] [Add α] [Mul α] [Div α] [Neg α] [IntCast α] [Zero α] [LT α] [DecidableLT α]
    (floor : α → Int) (h K ω : α) : α × α :=
  if K < 0 then (-K, fmod floor (ω + h) (h + h)) else (K, ω)

/-- the RV curve of a row as a function of true anomaly `f` (up to the systemic velocity):
`K (cos (ω + f) + e cos ω)`; `cos` is a parameter, `c` converts the unit of ω to radians -/
def curve [Add α] [Mul α] (cos : α → α) (c K e ω f : α) : α := K * (cos (c * ω + f) + e * cos (c * ω))

/-! ## get_time_with_phase / get_t0 -/

/-- `t_ref + P·M0/2π + P·φ/2π`  (P in days, M0 and φ in radians; `twoPi` is the constant the code uses) -/
def timeWithPhase [Add α] [Mul α] [Div α] (twoPi tref P M0 φ : α) : α :=
  tref + P * M0 / twoPi + P * φ / twoPi

/-- `get_t0` -/
def t0 [Add α] [Mul α] [Div α] [Zero α] (twoPi tref P M0 : α) : α := timeWithPhase twoPi tref P M0 0

/-- mean anomaly at time `t`: `2π (t − t_ref)/P − M0` (the convention of the likelihood kernel, DESIGN §2.2) -/
def meanAnomaly [Sub α] [Mul α] [Div α] (twoPi tref P M0 t : α) : α := twoPi * (t - tref) / P - M0

/-! ## tables -/

/-- a unit: its printed label and its scale to the base unit of its physical type -/
structure QUnit (α : Type) where
  label : String
  scale : α

/-- a column: name, unit, values -/
structure Col (α : Type) where
  name : String
  unit : QUnit α
  vals : List α

/-- the metadata that must travel with a table -/
structure Meta (α : Type) where
  tref : Option α
  polyTrend : Nat
  nOffsets : Nat

structure Table (α : Type) where
  cols : List (Col α)
  md : Meta α

/-- what identifies a column besides its values -/
def Col.header (c : Col α) : String × String := (c.name, c.unit.label)

def Table.headers (t : Table α) : List (String × String) := t.cols.map Col.header

def Table.nrows (t : Table α) : Nat :=
  match t.cols with
  | [] => 0
  | c :: _ => c.vals.length

def Table.col? (t : Table α) (name : String) : Option (Col α) := t.cols.find? (·.name == name)

/-- apply one and the same row operation to every column; names, units and metadata are carried over -/
def mapCols (f : List α → Except String (List α)) (t : Table α) : Except String (Table α) := do
  let cols ← t.cols.mapM fun c => do
    let v ← f c.vals
    pure { c with vals := v }
  pure { cols := cols, md := t.md }

/-- gather rows by position (`IndexError` when out of range) -/
def take (idx : List Nat) (l : List α) : Except String (List α) :=
  idx.mapM fun i => match l[i]? with
    | some v => .ok v
    | none => .error "index"

/-- Python's treatment of a possibly negative integer index -/
def resolveIndex (n : Nat) (i : Int) : Except String Nat :=
  if 0 ≤ i ∧ i < (n : Int) then .ok i.toNat
  else if -(n : Int) ≤ i ∧ i < 0 then .ok (i + n).toNat
  else .error "index"

/-- `samples[i]` -/
def getInt (t : Table α) (i : Int) : Except String (Table α) := do
  let k ← resolveIndex t.nrows i
  mapCols (take [k]) t

/-- `samples[index_array]` -/
def getIdx (t : Table α) (idx : List Int) : Except String (Table α) := do
  let ks ← idx.mapM (resolveIndex t.nrows)
  mapCols (take ks) t

/-- positions of the `true` entries -/
def maskPositions (mask : List Bool) : List Nat :=
  ((List.range mask.length).zip mask).filterMap fun p => if p.2 then some p.1 else none

/-- `samples[boolean_mask]` -/
def getMask (t : Table α) (mask : List Bool) : Except String (Table α) :=
  if mask.length ≠ t.nrows then .error "index" else mapCols (take (maskPositions mask)) t

/-- Python's clamping of a slice bound for a positive step: into `[0, n]` -/
def clampPos (n' x : Int) : Int := if x < 0 then max (x + n') 0 else min x n'

/-- … and for a negative step: into `[-1, n-1]` -/
def clampNeg (n' x : Int) : Int := if x < 0 then max (x + n') (-1) else min x (n' - 1)

/-- `slice(start, stop, step).indices(n)[:2]` (CPython's `PySlice_AdjustIndices`) -/
def sliceStartStop (n' : Int) (start stop : Option Int) (step : Int) : Int × Int :=
  if step > 0 then ((start.map (clampPos n')).getD 0, (stop.map (clampPos n')).getD n')
  else ((start.map (clampNeg n')).getD (n' - 1), (stop.map (clampNeg n')).getD (-1))

/-- `len(range(lo, hi, step))` -/
def sliceLen (lo hi step : Int) : Nat :=
  if step > 0 then (if lo < hi then ((hi - lo - 1) / step + 1).toNat else 0)
  else (if hi < lo then ((lo - hi - 1) / (-step) + 1).toNat else 0)

/-- the row positions selected by `start:stop:step` in a table of `n` rows -/
def sliceIndices (n : Nat) (start stop : Option Int) (step : Int) : Except String (List Nat) :=
  if step = 0 then .error "value"
  else
    let se := sliceStartStop n start stop step
    .ok ((List.range (sliceLen se.1 se.2 step)).map fun (i : Nat) => (se.1 + (i : Int) * step).toNat)

/-- `samples[start:stop:step]` -/
def getSlice (t : Table α) (start stop : Option Int) (step : Int) : Except String (Table α) := do
  let ks ← sliceIndices t.nrows start stop step
  mapCols (take ks) t

/-- `samples.copy()` -/
def copy (t : Table α) : Table α := { cols := t.cols.map fun c => { c with vals := c.vals }, md := t.md }

/-- `np.mean` of a column (refused for an empty column) -/
def meanOf [Add α] [Div α] [Zero α] [NatCast α] (v : List α) : Except String (List α) :=
  if v.isEmpty then .error "empty" else .ok [v.foldl (· + ·) 0 / (v.length : α)]

/-- `samples.mean()` -/
def mean [Add α] [Div α] [Zero α] [NatCast α] (t : Table α) : Except String (Table α) := mapCols meanOf t

/-- `np.std` (population standard deviation); `sqrt` is a parameter -/
def stdOf [Add α] [Sub α] [Mul α] [Div α] [Zero α] [NatCast α] (sqrt : α → α) (v : List α) : Except String (List α) :=
  if v.isEmpty then .error "empty" else
    let m := v.foldl (· + ·) 0 / (v.length : α)
    .ok [sqrt ((v.map fun x => (x - m) * (x - m)).foldl (· + ·) 0 / (v.length : α))]

/-- `samples.std()` -/
def std [Add α] [Sub α] [Mul α] [Div α] [Zero α] [NatCast α] (sqrt : α → α) (t : Table α) : Except String (Table α) :=
  mapCols (stdOf sqrt) t

/-- the value `np.argpartition(P, N//2)[N//2]` must point at: the `⌊N/2⌋`-th order statistic of `P` -/
def medianValue [LE α] [DecidableLE α] (Ps : List α) : Option α := (Diag.isort Ps)[Ps.length / 2]?

/-- the rows `median_period` may return (which of several rows with the same period is returned is left to
`argpartition`) -/
def medianCandidates [LE α] [DecidableLE α] [DecidableEq α] (Ps : List α) : List Nat :=
  match medianValue Ps with
  | none => []
  | some v => (List.range Ps.length).filter fun i => Ps[i]? = some v

/-- `samples.median_period()` for a given admissible choice `i` of `argpartition` -/
def medianPeriod [LE α] [DecidableLE α] [DecidableEq α] (t : Table α) (i : Nat) : Except String (Table α) :=
  match t.col? "P" with
  | none => .error "key"
  | some c => if i ∈ medianCandidates c.vals then getInt t i else .error "not-a-median-row"

/-- `wrap_K` on a whole table: rewrites the `K` and `omega` columns, everything else untouched -/
def wrapKTable [Sub α] [Add α] [Mul α] [Div α] [Neg α] [IntCast α] [Zero α] [LT α] [DecidableLT α]
    (floor : α → Int) (h : α) (t : Table α) : Except String (Table α) :=
  match t.col? "K", t.col? "omega" with
  | some cK, some cO =>
    if cK.vals.length ≠ cO.vals.length then .error "shape" else
    let w := List.zipWith (wrapK floor h) cK.vals cO.vals
    .ok { cols := t.cols.map fun c =>
            if c.name == "K" then { c with vals := w.map (·.1) }
            else if c.name == "omega" then { c with vals := w.map (·.2) }
            else c,
          md := t.md }
  | _, _ => .error "key"

/-! ## pack / unpack -/

/-- convert a value between two units of the same physical type -/
def convert [Mul α] [Div α] (src dst : QUnit α) (v : α) : α := v * src.scale / dst.scale

/-- row-major matrix from columns of common length `n`  (`np.stack(arrs, axis=1)`) -/
def stackCols (n : Nat) (cols : List (List α)) : Except String (List (List α)) :=
  if cols.all (·.length == n) then
    .ok ((List.range n).map fun r => cols.filterMap (·[r]?))
  else .error "shape"

/-- one packed column: the requested name, the unit used (the requested one, else the column's own), the values
converted to it -/
def packedCol [Mul α] [Div α] (t : Table α) (units : String → Option (QUnit α)) (nm : String) :
    Except String (String × QUnit α × List α) :=
  match t.col? nm with
  | none => Except.error "key"
  | some c => Except.ok (nm, (units nm).getD c.unit, c.vals.map (convert c.unit ((units nm).getD c.unit)))

/-- `samples.pack(units, names)`: returns the row-major array and the units actually used, in packing order -/
def pack [Mul α] [Div α] (t : Table α) (names : List String) (units : String → Option (QUnit α)) :
    Except String (List (List α) × List (String × QUnit α)) := do
  let cols ← names.mapM (packedCol t units)
  let rows ← stackCols t.nrows (cols.map (·.2.2))
  pure (rows, cols.map fun c => (c.1, c.2.1))

/-- `JokerSamples.unpack(packed, units, **meta)`: column `i` of the array gets the `i`-th name and unit -/
def unpack (rows : List (List α)) (units : List (String × QUnit α)) (md : Meta α) : Table α :=
  { cols := units.zipIdx.map fun p => { name := p.1.1, unit := p.1.2, vals := rows.filterMap (·[p.2]?) },
    md := md }

/-- a small concrete table used in non-vacuity examples -/
def exTable : Table Rat :=
  { cols := [{ name := "P", unit := ⟨"d", 1⟩, vals := [3, 1, 2] }, { name := "K", unit := ⟨"km / s", 1000⟩, vals := [-1, 5, 7] }],
    md := { tref := some 55000, polyTrend := 2, nOffsets := 1 } }

end Samples
