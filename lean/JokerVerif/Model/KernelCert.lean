import JokerVerif.Model.Kernel
import Mathlib.LinearAlgebra.Matrix.Block
/-!
# Certified evaluation of the kernel model for large `k`

`Kernel.kA` / `Kernel.kdetFast` use the adjugate and a Leibniz determinant (`k!` terms): fine for theorems and for
`k ≤ 6`, hopeless for a problem with a dozen survey offsets.  Here the driver accepts *certificates* computed
outside (exact rational arithmetic in the harness) and **checks** them:

* an inverse certificate `X` with `A⁻¹ · X = 1`;
* an LU certificate `L`, `U` (unit lower / upper triangular) with `L · U = A⁻¹` (it exists without pivoting because
  `A⁻¹` is positive definite).

`Props/C01.lean` proves that whenever the checks pass, the certified values *are* `kA`, `kchi2`, `kdetB`, `ka` of
the model — so the certificates are untrusted.
-/
open Matrix

namespace Kernel
variable {α : Type} [Field α] [DecidableEq α] {n k : Nat}

/-- `Binv`, `χ²` and `a` computed from a given candidate `A` (same formulas as `kBinv`, `kchi2`, `ka`) -/
def kBinvWith (x : KIn n k α) (A : Mat k k α) : Mat n n α :=
  let CM : Mat n k α := .ofM (diagonal (vfun (sIvar x)) * x.M.toM)
  let CMA : Mat n k α := .ofM (CM.toM * A.toM)
  .ofM (diagonal (vfun (sIvar x)) - CMA.toM * CM.toMᵀ)

def kchi2With (x : KIn n k α) (A : Mat k k α) : α :=
  let r := vfun (kr x)
  let Br : Vector α n := Vector.ofFn ((kBinvWith x A).toM *ᵥ r)
  r ⬝ᵥ vfun Br

def kaWith (x : KIn n k α) (A : Mat k k α) : Vector α k := Vector.ofFn (A.toM *ᵥ vfun (krhs x))

/-- inverse certificate check -/
def checkInv (x : KIn n k α) (X : Mat k k α) : Bool := decide ((kAinv x).toM * X.toM = 1)

/-- LU certificate check: `L` unit lower triangular, `U` upper triangular, `L · U = A⁻¹` -/
def checkLU (x : KIn n k α) (L U : Mat k k α) : Bool :=
  decide (L.toM * U.toM = (kAinv x).toM) &&
  decide (∀ i j : Fin k, (if i < j then L.toM i j else 0) = 0) && decide (∀ i : Fin k, L.toM i i = 1) &&
  decide (∀ i j : Fin k, (if j < i then U.toM i j else 0) = 0)

/-- `det B` from the LU certificate: `∏ σ_s² · ∏ λ · ∏ U_ii` -/
def kdetCert (x : KIn n k α) (U : Mat k k α) : α :=
  (∏ i : Fin n, ((sIvar x)[i])⁻¹) * (∏ j : Fin k, x.lam[j]) * (∏ j : Fin k, U.toM j j)

end Kernel
