import JokerVerif.Model.Batch
/-!
# The likelihood helper (`CJokerHelper`) as a state machine with scratch buffers  (C05)

Core Lean only.  The helper object of `thejoker/src/fast_likelihood.pyx` is reused from one prior sample to the
next, from one batch to the next (serial pool) and is rebuilt from `__reduce__` in worker processes.  Its
fields fall into two classes:

* `Imm`     — written by `__init__` only: data (`t, rv, ivar, t0`), rows `1..` of `M_T` (the trend part of the
              design matrix), `mu`, `Lambda[1..]`, the prior constants (`fixed_K_prior, sigma_K0, P0, max_K`,
              and `Lambda[0]` when the K prior is a plain Normal);
* `Scratch` — rewritten by every per-sample step: row 0 of `M_T` (Kepler column), `s_ivar`, `Lambda[0]`
              (FixedCompanionMass prior) and every work / output array (`A, Ainv, B, Binv, b, a, Atmp, Btmp`,
              pivots, LAPACK work space) — kept here as an uninterpreted list `work`.

The numeric core (`make_AAinv`, `make_bBBinv`, `likelihood_worker`, the `multivariate_normal` call) is a
*parameter* (`Worker`, `PostWorker`): history independence depends only on WHICH cells it may read, and that
read-set is made explicit in the parameter's type: the immutable part plus the three freshly written buffers.
That the real core reads nothing else is what the correspondence harness attacks (poisoning every scratch cell
before every step).  External numeric routines (`c_rv_from_elements`, `pow`) are the fields of `Ext`.
-/
namespace Hist

/-- never written after construction -/
structure Imm (α : Type) where
  t : List α
  rv : List α
  ivar : List α
  t0 : α
  trendRows : List (List α)      -- rows 1.. of M_T
  mu : List α
  lamTail : List α               -- Lambda[1..]
  fixedK : Bool                  -- plain Normal K prior: Lambda[0] is immutable too
  lam0Fixed : α
  sigmaK0 : α
  P0 : α
  maxK : α

/-- rewritten by every step -/
structure Scratch (α : Type) where
  row0 : List α                  -- M_T[0, :]
  sIvar : List α
  lam0 : α
  work : List α                  -- A, Ainv, B, Binv, b, a, Atmp, Btmp, pivots, work arrays
deriving DecidableEq, Repr

structure Helper (α : Type) where
  imm : Imm α
  scr : Scratch α

/-- one row of the packed prior-sample array, order `P, e, omega, M0, s` -/
structure Theta (α : Type) where
  P : α
  e : α
  om : α
  M0 : α
  s : α
deriving DecidableEq, Repr

/-- external functions (their values are supplied, not verified) -/
structure Ext (α : Type) where
  kepler : List α → α → Theta α → List α      -- c_rv_from_elements(t, t0, θ): unit-amplitude RV curve
  lamK : α → α → α → α → α → α               -- σ_K0 P0 max_K P e ↦ Λ_K
  getIvar : α → α → α                        -- ivar, s ↦ ivar / (1 + s² ivar)

/-- what the numeric core may read: the immutable part and the three freshly written buffers.
Returns the marginal ln-likelihood and the content it leaves in the work arrays. -/
abbrev Worker (α : Type) := Imm α → List α → List α → α → α × List α

/-- the posterior-draw core additionally receives the standard-normal variates drawn from the task's
generator; returns the sample row and the content of the work arrays -/
abbrev PostWorker (α : Type) := Imm α → List α → List α → α → List α → List α × List α

variable {α : Type}

/-- the part of a per-sample step that rewrites the three input buffers (identical in
`batch_marginal_ln_likelihood` and `batch_get_posterior_samples`) -/
def refresh (X : Ext α) (i : Imm α) (θ : Theta α) : List α × List α × α :=
  (X.kepler i.t i.t0 θ,
   i.ivar.map (fun iv => X.getIvar iv θ.s),
   if i.fixedK then i.lam0Fixed else X.lamK i.sigmaK0 i.P0 i.maxK θ.P θ.e)

/-- one iteration of the loop in `batch_marginal_ln_likelihood` -/
def stepMarg (X : Ext α) (w : Worker α) (h : Helper α) (θ : Theta α) : Helper α × α :=
  let (row0, sIvar, lam0) := refresh X h.imm θ
  let (ll, work) := w h.imm row0 sIvar lam0
  ({ h with scr := { row0, sIvar, lam0, work } }, ll)

/-- one iteration of the loop in `batch_get_posterior_samples` (`z` = variates from the task's generator) -/
def stepPost (X : Ext α) (wp : PostWorker α) (h : Helper α) (θ : Theta α) (z : List α) :
    Helper α × List α :=
  let (row0, sIvar, lam0) := refresh X h.imm θ
  let (row, work) := wp h.imm row0 sIvar lam0 z
  ({ h with scr := { row0, sIvar, lam0, work } }, row)

/-- the two kinds of per-sample operation a helper sees -/
inductive Op (α : Type)
  | marg (θ : Theta α)
  | post (θ : Theta α) (z : List α)
deriving DecidableEq, Repr

inductive Out (α : Type)
  | ll (v : α)
  | row (r : List α)
deriving DecidableEq, Repr

def stepOp (X : Ext α) (w : Worker α) (wp : PostWorker α) (h : Helper α) : Op α → Helper α × Out α
  | .marg θ => let r := stepMarg X w h θ; (r.1, .ll r.2)
  | .post θ z => let r := stepPost X wp h θ z; (r.1, .row r.2)

/-- an arbitrary history of operations on one helper object -/
def runOps (X : Ext α) (w : Worker α) (wp : PostWorker α) (h : Helper α) :
    List (Op α) → Helper α × List (Out α)
  | [] => (h, [])
  | op :: rest =>
    let r := stepOp X w wp h op
    let r' := runOps X w wp r.1 rest
    (r'.1, r.2 :: r'.2)

/-- what a helper with immutable part `i` and pristine scratch `scr0` returns for one operation -/
def evalFresh (X : Ext α) (w : Worker α) (wp : PostWorker α) (i : Imm α) (scr0 : Scratch α) (op : Op α) :
    Out α :=
  (stepOp X w wp ⟨i, scr0⟩ op).2

/-- `batch_marginal_ln_likelihood(chunk)` -/
def runMarg (X : Ext α) (w : Worker α) (h : Helper α) : List (Theta α) → Helper α × List α
  | [] => (h, [])
  | θ :: rest =>
    let r := stepMarg X w h θ
    let r' := runMarg X w r.1 rest
    (r'.1, r.2 :: r'.2)

def llFresh (X : Ext α) (w : Worker α) (i : Imm α) (scr0 : Scratch α) (θ : Theta α) : α :=
  (stepMarg X w ⟨i, scr0⟩ θ).2

/-- `__reduce__` ships `(data, prior, trend_M)`, i.e. exactly the information `Imm` is computed from;
the worker process runs `__init__` again, which zero-fills every scratch array -/
def reduce (h : Helper α) : Imm α := h.imm
def rebuild (zero : α) (i : Imm α) : Helper α := ⟨i, ⟨[], [], zero, []⟩⟩

/-- `pool.map(worker, tasks)` followed by `np.concatenate(results)`: the `j`-th block of rows is evaluated on
the `j`-th helper (whatever state that helper is in), results are concatenated in task order -/
def runBatches (X : Ext α) (w : Worker α) : List (Helper α) → List (List (Theta α)) → List α
  | h :: hs, p :: ps => (runMarg X w h p).2 ++ runBatches X w hs ps
  | _, _ => []

/-- the row blocks `run_worker` hands out for a library `lib` (rows already gathered in request order):
`batch_tasks(len(lib), n_batches)` in its array form -/
def blocks (lib : List (Theta α)) (nBatches : Int) : List (List (Theta α)) :=
  (Batch.batchTasksArr lib lib.length nBatches 0).map (·.1)

/-- positions that pass the rejection step for given likelihoods and uniforms; `acc ll llmax u` is the
acceptance decision (`exp(ll - llmax) > u` in the code), `mx` the maximum; truncated to `maxPost` -/
def accepted (acc : α → α → α → Bool) (mx : List α → α) (lls uu : List α) (maxPost : Nat) : List Nat :=
  ((((List.range lls.length).zip (lls.zip uu)).filter (fun p => acc p.2.1 (mx lls) p.2.2)).map (·.1)).take maxPost

end Hist
