import Mathlib.LinearAlgebra.Matrix.NonsingularInverse
/-!
# Strict (array-backed) matrices with a bridge to Mathlib's `Matrix`

Mathlib's `Matrix n m α` is a function type, so a "memoised" matrix inside a `def` is rebuilt per entry when the
definition is evaluated.  Model code therefore stores every intermediate result in a `Mat` (vectors of vectors)
and states each step as `Mat.ofFn (<Mathlib matrix expression over .toM of earlier steps>)`: proofs rewrite
with `toM_ofFn` and live in Mathlib's matrix algebra; execution materialises each step once.
-/
open Matrix

structure Mat (n m : Nat) (α : Type) where
  rows : Vector (Vector α m) n

namespace Mat
variable {α : Type} {n m k : Nat}

def ofFn (f : Fin n → Fin m → α) : Mat n m α := ⟨Vector.ofFn fun i => Vector.ofFn fun j => f i j⟩
def toM (A : Mat n m α) : Matrix (Fin n) (Fin m) α := fun i j => A.rows[i][j]

@[simp] theorem toM_ofFn (f : Fin n → Fin m → α) : (ofFn f).toM = f := by
  funext i j; simp [toM, ofFn]

/-- materialise a Mathlib matrix expression -/
def ofM (A : Matrix (Fin n) (Fin m) α) : Mat n m α := ofFn fun i j => A i j

@[simp] theorem toM_ofM (A : Matrix (Fin n) (Fin m) α) : (ofM A).toM = A := by
  funext i j; simp [toM, ofM, ofFn]

def toLists (A : Mat n m α) : List (List α) := A.rows.toList.map (·.toList)
end Mat

/-- vector as a function (O(1) lookups) -/
def vfun {α : Type} {n : Nat} (v : Vector α n) : Fin n → α := fun i => v[i]

@[simp] theorem vfun_ofFn {α : Type} {n : Nat} (f : Fin n → α) : vfun (Vector.ofFn f) = f := by
  funext i; simp [vfun]

/-- computable inverse of a square matrix over a field: adjugate / determinant (`0` matrix if singular,
which model code never relies on: callers test the determinant first) -/
def cinv {α : Type} [Field α] {n : Nat} (A : Mat n n α) : Mat n n α :=
  Mat.ofM ((A.toM.det)⁻¹ • A.toM.adjugate)

theorem cinv_toM {α : Type} [Field α] {n : Nat} (A : Mat n n α) : (cinv A).toM = (A.toM)⁻¹ := by
  unfold cinv
  rw [Mat.toM_ofM, Matrix.inv_def, Ring.inverse_eq_inv']
