#!/bin/bash
# Run every claimed check (quick tier unless VERIF_TIER is set), up to $JOBS in parallel; summary at the end.
# usage: ./run_all.sh [seed]     (VERIF_REPO, VERIF_TIER honoured)
cd "$(dirname "$0")"
seed=${1:-0}
JOBS=${JOBS:-6}
mkdir -p .scratch/logs
props=$(python3 -c "import json; print(' '.join(c['property_id'] for c in json.load(open('MANIFEST.json'))['checks']))")
run() { p=$1; s=$(date +%s); VERIF_SEED=$seed ./check $p > .scratch/logs/$p.$seed.log 2>&1; rc=$?; echo "$p rc=$rc $(( $(date +%s) - s ))s $(grep -E '^(OK|VIOLATION|KNOWN-FINDING|INFRA)' .scratch/logs/$p.$seed.log | head -3 | tr '\n' '|')"; }
export -f run; export seed
echo $props | tr ' ' '\n' | xargs -P $JOBS -I{} bash -c 'run {}'
