"""
C18 demo 1: a JokerPrior is accepted on the strength of a Normal prior on K that the
sampler never uses.  The constructor validates the variable the caller passed in
(`pars['K']`), the likelihood kernel reads `prior.model['K']`.  The name check of fd4c68f
does not make these the same object: a variable that is *called* 'K' but lives in another
pymc model (or an unnamed `.dist()` variable) passes, and the kernel then marginalises over
whatever the prior's own model has registered as 'K' -- here a Uniform(0, 3), whose
(lower, upper) are read as the (mu, sigma) of a Normal.

Run from the worktree root:  /venv/bin/python HUNT/demo_1.py
exit 1 = property violated on this tree, exit 0 = property holds.
"""
import os, sys, warnings
sys.path.insert(0, os.getcwd())
sys.path.insert(0, "/tmp/seedtools")
warnings.simplefilter("ignore")
import pyx_runtime
pyx_runtime.install_twin(os.path.join(os.getcwd(), "thejoker/src/fast_likelihood.pyx"))

import numpy as np, astropy.units as u, pymc as pm
from astropy.time import Time
import thejoker, thejoker.units as xu
from thejoker import JokerPrior, TheJoker, RVData
assert thejoker.__file__.startswith(os.getcwd()), thejoker.__file__

kms = u.km / u.s
r = np.random.default_rng(1)
t = 58000.0 + np.sort(r.uniform(0, 200, 8))
rv = r.normal(0, 10, 8)
err = r.uniform(0.5, 1.5, 8)
data = RVData(Time(t, format="mjd", scale="tcb"), rv * kms, err * kms)
SIG_V = 100.0


def closed_form(P, e, om, M0, mu_K, sig_K):
    """ln N(rv | M mu, C + M Lambda M^T), Kepler solved here by Newton iteration."""
    t0 = data.t_ref.tcb.mjd
    M = 2 * np.pi * (data.t.tcb.mjd - t0) / P - M0
    E = M.copy()
    for _ in range(200):
        E = E - (E - e * np.sin(E) - M) / (1 - e * np.cos(E))
    f = 2 * np.arctan2(np.sqrt(1 + e) * np.sin(E / 2), np.sqrt(1 - e) * np.cos(E / 2))
    D = np.stack([np.cos(om + f) + e * np.cos(om), np.ones_like(f)], axis=1)
    B = np.diag(err**2) + D @ np.diag([sig_K**2, SIG_V**2]) @ D.T
    dy = rv - D @ np.array([mu_K, 0.0])
    return -0.5 * (dy @ np.linalg.solve(B, dy) + np.linalg.slogdet(2 * np.pi * B)[1])


def run(label, make_K):
    """`make_K()` returns the prior on K the caller hands to JokerPrior: Normal(0, 30) km/s."""
    K_passed = make_K()
    with pm.Model():
        # this model's own variable called 'K' -- not a Normal, and NOT what is passed in
        xu.with_unit(pm.Uniform("K", 0.0, 3.0), kms)
        try:
            prior = JokerPrior.default(
                P_min=2 * u.day, P_max=100 * u.day, sigma_v=SIG_V * kms,
                pars={"K": K_passed},
            )
        except Exception as ex:
            print(f"[{label}] JokerPrior raised {type(ex).__name__}: {ex}  -> OK")
            return True
    op = prior.pars["K"].owner.op._print_name[0]
    print(f"[{label}] JokerPrior accepted; prior.pars['K'] is a {op}, "
          f"prior.model['K'] is a {prior.model['K'].owner.op._print_name[0]}")
    ps = prior.sample(4, rng=np.random.default_rng(3))
    try:
        ll = TheJoker(prior).marginal_ln_likelihood(data, ps, in_memory=True)
    except Exception as ex:
        print(f"[{label}] sampler raised {type(ex).__name__}: {ex}  -> OK")
        return True
    args = [(ps["P"][i].to_value(u.day), ps["e"][i].value, ps["omega"][i].to_value(u.rad),
             ps["M0"][i].to_value(u.rad)) for i in range(len(ps))]
    want = np.array([closed_form(*a, 0.0, 30.0) for a in args])   # the validated Normal(0, 30)
    bogus = np.array([closed_form(*a, 0.0, 3.0) for a in args])   # Uniform(0,3) read as N(0,3)
    print(f"[{label}] sampler ln-likelihood      : {ll}")
    print(f"[{label}] closed form, K~N(0,30) km/s: {want}   (the prior that was validated)")
    print(f"[{label}] closed form, K~'N(0,3)'    : {bogus}   (Uniform(0,3)'s bounds as mu, sigma)")
    if np.allclose(ll, want, rtol=0, atol=1e-6):
        return True
    if np.allclose(ll, bogus, rtol=0, atol=1e-6):
        print(f"[{label}] VIOLATION: the marginalisation ran over the model's Uniform 'K', "
              "which the constructor never looked at")
    return False


def K_other_model():
    # e.g. left over from an earlier notebook cell / another prior
    with pm.Model():
        return xu.with_unit(pm.Normal("K", 0.0, 30.0), kms)


def K_unnamed():
    return xu.with_unit(pm.Normal.dist(0.0, 30.0), kms)


ok = [run("K named 'K' in another model", K_other_model),
      run("K an unnamed .dist() variable", K_unnamed)]
sys.exit(0 if all(ok) else 1)
