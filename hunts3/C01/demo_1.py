"""C01 demo 1: data passed as a list / dict of RVData lose their declared reference epoch.

Run from the worktree root:  /venv/bin/python HUNT/demo_1.py
Exits 1 (and prints what is wrong) on the unchanged tree, 0 if the property holds.

The marginal likelihood is checked against an independent closed form
    ln N(y | M mu, C + s^2 I + M Lambda M^T)
whose design matrix M is built with the reference epoch the data sets declare (t_ref): M0 is the mean
anomaly at t_ref and the trend columns are powers of (t - t_ref) -- exactly what the same call does
when the same observations are passed as a bare RVData.
"""
import os, sys, warnings
sys.path.insert(0, os.getcwd())
sys.path.insert(0, "/tmp/seedtools")
warnings.filterwarnings("ignore")
try:  # run the CURRENT .pyx (the compiled .so in the sandbox is stale); fall back to the .so elsewhere
    import pyx_runtime
    pyx_runtime.install_twin(os.path.join(os.getcwd(), "thejoker/src/fast_likelihood.pyx"))
except Exception:
    pass
import numpy as np
import astropy.units as u
from astropy.time import Time
import pymc as pm
import thejoker as tj
import thejoker.units as xu

assert os.path.abspath(tj.__file__).startswith(os.getcwd()), tj.__file__
kms = u.km / u.s


# ---------------------------------------------------------------- independent closed form
def kepler_E(M, e):
    M = np.mod(M, 2 * np.pi)
    lo, hi = np.zeros_like(M), np.full_like(M, 2 * np.pi)
    E = np.full_like(M, np.pi)
    for _ in range(200):
        f = E - e * np.sin(E) - M
        lo = np.where(f < 0, E, lo)
        hi = np.where(f > 0, E, hi)
        En = E - f / (1 - e * np.cos(E))
        En = np.where((En <= lo) | (En >= hi), 0.5 * (lo + hi), En)
        if np.all(np.abs(En - E) < 1e-15):
            return En
        E = En
    return E


def closed_form(t, t_ref, y, err, const_cols, poly_trend, P, e, om, M0, s, mu, Lam):
    E = kepler_E(2 * np.pi * (t - t_ref) / P - M0, e)
    f = 2 * np.arctan2(np.sqrt(1 + e) * np.sin(E / 2), np.sqrt(1 - e) * np.cos(E / 2))
    cols = [np.cos(om + f) + e * np.cos(om)] + list(const_cols.T)
    cols += [(t - t_ref) ** k for k in range(1, poly_trend)]
    M = np.stack(cols, axis=1)
    B = np.diag(err**2 + s**2) + (M * Lam) @ M.T
    r = y - M @ mu
    return -0.5 * (r @ np.linalg.solve(B, r) + np.linalg.slogdet(2 * np.pi * B)[1])


def nonlinear(samples, i):
    return (samples["P"][i].to_value(u.day), samples["e"][i].to_value(u.one),
            samples["omega"][i].to_value(u.rad), samples["M0"][i].to_value(u.rad),
            samples["s"][i].to_value(kms))


bad = []
rng = np.random.default_rng(1)
t_ref = Time(57990.0, format="mjd", scale="tcb")  # the declared epoch: 10+ days before the first epoch

# ---------------------------------------------------------------- case A: one source, data vs [data]
N = 7
t = 58000 + np.sort(rng.uniform(0, 300, N))
y = rng.normal(10, 5, N)
err = rng.uniform(0.1, 0.5, N)
data = tj.RVData(Time(t, format="mjd", scale="tcb"), y * kms, err * kms, t_ref=t_ref)

prior = tj.JokerPrior.default(P_min=2 * u.day, P_max=500 * u.day, sigma_K0=30 * kms,
                              sigma_v=[100 * kms, 0.5 * kms / u.day], poly_trend=2)
samples = prior.sample(size=4, rng=rng)
joker = tj.TheJoker(prior, rng=rng)
ll_bare = joker.marginal_ln_likelihood(data, samples)
ll_list = joker.marginal_ln_likelihood([data], samples)
ll_dict = joker.marginal_ln_likelihood({"a": data}, samples, in_memory=True)
ref = []
for i in range(len(samples)):
    P, e, om, M0, s = nonlinear(samples, i)
    varK = min(30.0**2 * (P / 365.25) ** (-2 / 3) / (1 - e**2), 500.0**2)
    ref.append(closed_form(t, 57990.0, y, err, np.ones((N, 1)), 2, P, e, om, M0, s,
                           np.zeros(3), np.array([varK, 100.0**2, 0.5**2])))
ref = np.array(ref)
print("case A: one RVData with t_ref = min(t) - 10.6 d, poly_trend=2")
print("  closed form (declared t_ref)      :", ref)
print("  marginal_ln_likelihood(data)      :", ll_bare)
print("  marginal_ln_likelihood([data])    :", ll_list)
print("  marginal_ln_likelihood({'a':data}):", ll_dict)
for name, ll in [("data", ll_bare), ("[data]", ll_list), ("{'a': data}", ll_dict)]:
    d = np.max(np.abs(ll - ref))
    if not d < 1e-6 * np.max(np.abs(ref)):
        bad.append(f"case A, {name}: max |ln L - closed form| = {d:.4g}")

# ---------------------------------------------------------------- case B: tutorial-5 pattern, two surveys
N1, N2 = 5, 4
t1 = 58000 + np.sort(rng.uniform(0, 200, N1))
t2 = 58050 + np.sort(rng.uniform(0, 200, N2))
y1, y2 = rng.normal(10, 5, N1), rng.normal(15, 5, N2)
e1, e2 = rng.uniform(0.1, 0.5, N1), rng.uniform(0.1, 0.5, N2)
d1 = tj.RVData(Time(t1, format="mjd", scale="tcb"), y1 * kms, e1 * kms, t_ref=t_ref)
d2 = tj.RVData(Time(t2, format="mjd", scale="tcb"), y2 * kms, e2 * kms, t_ref=t_ref)
with pm.Model():
    dv0_1 = xu.with_unit(pm.Normal("dv0_1", 4.0, 10.0), kms)
    prior2 = tj.JokerPrior.default(P_min=2 * u.day, P_max=256 * u.day, sigma_K0=30 * kms,
                                   sigma_v=100 * kms, v0_offsets=[dv0_1])
samples2 = prior2.sample(size=4, rng=rng)
joker2 = tj.TheJoker(prior2, rng=rng)
ll2 = joker2.marginal_ln_likelihood([d1, d2], samples2)
tt = np.concatenate([t1, t2]); yy = np.concatenate([y1, y2]); ee = np.concatenate([e1, e2])
cc = np.zeros((N1 + N2, 2)); cc[:, 0] = 1; cc[N1:, 1] = 1
ref2 = []
for i in range(len(samples2)):
    P, e, om, M0, s = nonlinear(samples2, i)
    varK = min(30.0**2 * (P / 365.25) ** (-2 / 3) / (1 - e**2), 500.0**2)
    ref2.append(closed_form(tt, 57990.0, yy, ee, cc, 1, P, e, om, M0, s,
                            np.array([0, 0, 4.0]), np.array([varK, 100.0**2, 10.0**2])))
ref2 = np.array(ref2)
print("case B: two surveys, both RVData(..., t_ref=<same epoch>), one offset (docs tutorial 5 pattern)")
print("  closed form (declared t_ref)      :", ref2)
print("  marginal_ln_likelihood([d1, d2])  :", ll2)
d = np.max(np.abs(ll2 - ref2))
if not d < 1e-6 * np.max(np.abs(ref2)):
    bad.append(f"case B, [d1, d2]: max |ln L - closed form| = {d:.4g}")

if bad:
    print("\nPROPERTY C01 VIOLATED: the reference epoch declared by the data sets is discarded when the data "
          "are given as a list/dict; M0 and the trend are referred to min(t) instead:")
    for b in bad:
        print("  -", b)
    sys.exit(1)
print("\nOK: all call forms agree with the closed form at the declared reference epoch")
sys.exit(0)
