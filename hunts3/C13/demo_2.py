"""
C13 demo 2: the cache-file cleanup in thejoker/utils.py::tempfile_decorator is guarded by
`if os.path.exists(f.name): os.unlink(f.name)`.  os.path.exists() turns ANY OSError of the
underlying os.stat() (EIO, ESTALE on NFS, EACCES, ...) into "False", so when that one stat call
fails the cleanup is skipped silently: the call returns normally, no exception reaches the
caller, and the temporary HDF5 cache file stays in TMPDIR.

Fault model of the property: "every call made inside ... failing at its k-th invocation":
here os.stat on the cache file, at its last invocation (k = N, counted in a fault-free run).

Run from the worktree root:  /venv/bin/python HUNT/demo_2.py
exit 1 = a temporary HDF5 file is left behind (observed on this tree); exit 0 = none left.
"""
import errno, os, sys, tempfile, warnings, logging
sys.path.insert(0, os.getcwd())
sys.path.insert(0, "/tmp/seedtools")
warnings.simplefilter("ignore")
import pyx_runtime
pyx_runtime.install_twin(os.path.join(os.getcwd(), "thejoker/src/fast_likelihood.pyx"))

TMPD = tempfile.mkdtemp(prefix="c13demo2_")
os.environ["TMPDIR"] = TMPD
tempfile.tempdir = None
assert tempfile.gettempdir() == TMPD

import numpy as np
import astropy.units as u
from astropy.time import Time
import thejoker as tj

assert os.path.dirname(tj.__file__) == os.path.join(os.getcwd(), "thejoker"), tj.__file__
logging.getLogger("thejoker").setLevel(logging.ERROR)

rnd = np.random.default_rng(1)
t = Time(59000 + np.sort(rnd.uniform(0, 200, 6)), format="mjd", scale="tcb")
rv = (10 * np.cos(2 * np.pi * (t.mjd - 59000) / 37.0) + rnd.normal(0, 1, 6)) * u.km / u.s
data = tj.RVData(t, rv, rv_err=np.full(6, 1.0) * u.km / u.s)
prior = tj.JokerPrior.default(P_min=2 * u.day, P_max=256 * u.day,
                              sigma_K0=30 * u.km / u.s, sigma_v=100 * u.km / u.s)
prior_samples = prior.sample(size=300, rng=np.random.default_rng(0))


def hdf5_files():
    return sorted(f for f in os.listdir(TMPD) if f.endswith(".hdf5"))


real_stat = os.stat
state = {"n": 0, "fail_at": None, "fired": False}


def counting_stat(path, *args, **kwargs):
    p = os.fspath(path) if not isinstance(path, int) else ""
    if isinstance(p, bytes):
        p = p.decode()
    if p.startswith(TMPD) and p.endswith(".hdf5"):
        state["n"] += 1
        if state["n"] == state["fail_at"]:
            state["fired"] = True
            raise OSError(errno.ESTALE, "Stale file handle (injected)", p)
    return real_stat(path, *args, **kwargs)


os.stat = counting_stat
try:
    # fault-free run: count the os.stat calls on the cache file
    joker = tj.TheJoker(prior, rng=np.random.default_rng(5))
    ref = joker.marginal_ln_likelihood(data, prior_samples)
    n_calls = state["n"]
    assert hdf5_files() == [], hdf5_files()

    # same call, os.stat on the cache file fails at its last invocation
    state.update(n=0, fail_at=n_calls, fired=False)
    raised = None
    try:
        res = joker.marginal_ln_likelihood(data, prior_samples)
    except BaseException as e:
        raised = e
finally:
    os.stat = real_stat

left = hdf5_files()
print("os.stat calls on the cache file in a fault-free run:", n_calls)
print("fault injected at invocation #%d: fired = %s" % (n_calls, state["fired"]))
print("exception that reached the caller:", repr(raised))
print("temporary HDF5 files left in TMPDIR:", left)
for f in left:
    os.unlink(os.path.join(TMPD, f))
if left:
    print("VIOLATION of C13: 'the temporary cache file is removed on every exit path' / "
          "'no temporary HDF5 file is left behind'"
          + ("" if raised is not None else " (and the failure did not reach the caller)"))
    sys.exit(1)
print("OK: no temporary HDF5 file left behind")
sys.exit(0)
