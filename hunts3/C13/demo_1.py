"""
C13 demo 1: a failure inside rejection_sample(prior_samples=<int>, return_logprobs=True)
does NOT reach the caller: JokerPrior.sample() swallows every Exception raised while it
evaluates the log-prior of a parameter (thejoker/prior.py, `except Exception: ... continue`),
so the call "succeeds" and returns samples whose ln_prior column silently lacks that term.

Run from the worktree root:  /venv/bin/python HUNT/demo_1.py
exit 1 = property violated (observed on this tree), exit 0 = the failure reached the caller.
"""
import os, sys, warnings, logging
sys.path.insert(0, os.getcwd())
sys.path.insert(0, "/tmp/seedtools")
warnings.simplefilter("ignore")
import pyx_runtime
pyx_runtime.install_twin(os.path.join(os.getcwd(), "thejoker/src/fast_likelihood.pyx"))

import numpy as np
import astropy.units as u
from astropy.time import Time
import pytensor.graph.replace as pgr
import thejoker as tj

assert os.path.dirname(tj.__file__) == os.path.join(os.getcwd(), "thejoker"), tj.__file__
logging.getLogger("thejoker").setLevel(logging.ERROR)  # hide the (only) trace: a log warning

rnd = np.random.default_rng(1)
t = Time(59000 + np.sort(rnd.uniform(0, 200, 6)), format="mjd", scale="tcb")
rv = (10 * np.cos(2 * np.pi * (t.mjd - 59000) / 37.0) + rnd.normal(0, 1, 6)) * u.km / u.s
data = tj.RVData(t, rv, rv_err=np.full(6, 1.0) * u.km / u.s)
prior = tj.JokerPrior.default(P_min=2 * u.day, P_max=256 * u.day,
                              sigma_K0=30 * u.km / u.s, sigma_v=100 * u.km / u.s)


def run():
    joker = tj.TheJoker(prior, rng=np.random.default_rng(5))
    return joker.rejection_sample(data, 2000, return_logprobs=True)


ref = run()  # no fault

# Fault: the first evaluation of a log-prior graph fails (here: out of memory).
orig = pgr.vectorize_graph
state = {"n": 0}


def failing_vectorize_graph(*args, **kwargs):
    state["n"] += 1
    if state["n"] == 1:
        raise MemoryError("injected: evaluating the log-prior ran out of memory")
    return orig(*args, **kwargs)


pgr.vectorize_graph = failing_vectorize_graph
raised = None
try:
    res = run()
except BaseException as e:  # what the property promises
    raised = e
finally:
    pgr.vectorize_graph = orig

if raised is not None:
    print("OK: the failure reached the caller:", repr(raised))
    sys.exit(0)

print("fault injected at call #1 of vectorize_graph: fired =", state["n"] >= 1)
print("rejection_sample returned normally, no exception reached the caller")
same_rows = np.array_equal(ref["P"].value, res["P"].value)
print("same posterior rows as the fault-free run:", same_rows)
print("ln_prior, fault-free run :", np.round(np.asarray(ref["ln_prior"])[:4], 4))
print("ln_prior, run with fault :", np.round(np.asarray(res["ln_prior"])[:4], 4))
if same_rows:
    d = np.asarray(res["ln_prior"]) - np.asarray(ref["ln_prior"])
    print("max |difference| = %.4f  (the swallowed parameter's log-density is missing)" % np.abs(d).max())
print("VIOLATION of C13: 'If any step ... fails at any point, the exception reaches the caller'")
sys.exit(1)
