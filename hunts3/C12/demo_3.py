"""C12 demo 3 (borderline): read_batch with a boolean numpy array that selects ONE row
silently returns len(mask) copies of that row (shape (n_rows_in_file, n_columns)).

Run from the worktree root:  /venv/bin/python HUNT/demo_3.py
exit 1 = defect present; exit 0 = the call either returns exactly the selected row
(numpy mask semantics) or refuses the boolean array.
"""
import os
import sys
import tempfile
import warnings

sys.path.insert(0, os.getcwd())
warnings.simplefilter("ignore")

import astropy.units as u
import numpy as np

import thejoker
from thejoker import JokerSamples
from thejoker.utils import read_batch

print("thejoker from", thejoker.__file__)

n = 6
s = JokerSamples()
s["P"] = np.arange(1.0, n + 1) * u.day
s["e"] = np.arange(n) / 10.0
fn = os.path.join(tempfile.mkdtemp(), "a.hdf5")
s.write(fn)

mask = s["P"].value == 4.0  # numpy boolean array with a single True (row 3)
try:
    b = read_batch(fn, ["P", "e"], mask)
except Exception as e:  # noqa
    print("ok: boolean array refused:", type(e).__name__, e)
    sys.exit(0)

expected = np.array([[4.0, 0.3]])
print("requested rows (mask):", np.flatnonzero(mask), "-> expected\n", expected)
print("read_batch returned shape", b.shape, "\n", b)
if b.shape == expected.shape and np.array_equal(b, expected):
    print("ok")
    sys.exit(0)
print("C12 VIOLATED: read_batch did not return 'exactly the requested rows': "
      f"{b.shape[0]} rows returned for a 1-row selection (the single row is broadcast)")
sys.exit(1)
