"""C12 demo 1: a samples file written by JokerSamples.write cannot be read back through the
PyTables-group branch of JokerSamples.read (samples.py:601-602 -> _read_tables).

Run from the worktree root:  /venv/bin/python HUNT/demo_1.py
exit 1 = defect present, exit 0 = the file reads back identically through that branch.
"""
import os
import sys
import tempfile
import warnings

sys.path.insert(0, os.getcwd())
warnings.simplefilter("ignore")

import astropy.units as u
import numpy as np
import tables as tb
from astropy.time import Time

import thejoker
from thejoker import JokerSamples

print("thejoker from", thejoker.__file__)

rng = np.random.default_rng(0)
s = JokerSamples(t_ref=Time(58000.5, format="mjd", scale="tcb"), poly_trend=2)
s["P"] = rng.uniform(1, 10, 4) * u.yr
s["e"] = rng.uniform(0, 1, 4)
s["M0"] = rng.uniform(0, 360, 4) * u.deg
s["K"] = rng.normal(0, 5, 4) * u.km / u.s
s["v1"] = rng.normal(0, 1, 4) * u.km / u.s / u.day

fn = os.path.join(tempfile.mkdtemp(), "samples.hdf5")
s.write(fn)

# reference: the file-name branch works
r0 = JokerSamples.read(fn)
assert all(np.array_equal(r0[c].value, s[c].value) and r0[c].unit == s[c].unit for c in s.par_names)

bad = []
with tb.open_file(fn, mode="r") as f:
    print("PyTables sees the header dataset as:", repr(f.root["samples.__table_column_meta__"]))
    try:
        r = JokerSamples.read(f.root)  # isinstance(filename, tb.group.Group) branch
    except Exception as e:  # noqa
        bad.append(f"JokerSamples.read(<tables Group>) raised {type(e).__name__}: {e}")
    else:
        if r.par_names != s.par_names:
            bad.append(f"columns {r.par_names} != {s.par_names}")
        for c in s.par_names:
            if c in r.par_names and not (
                np.array_equal(r[c].value, s[c].value) and r[c].unit == s[c].unit
            ):
                bad.append(f"column {c} differs")
        if r.poly_trend != s.poly_trend or r.n_offsets != s.n_offsets:
            bad.append("poly_trend / n_offsets differ")
        if r.t_ref is None or abs((r.t_ref - s.t_ref).to_value(u.s)) > 0:
            bad.append("t_ref differs")

if bad:
    print("C12 VIOLATED (write to HDF5 + read back through a PyTables group):")
    for b in bad:
        print("  ", b)
    sys.exit(1)
print("ok: the PyTables-group reader returns the written samples")
sys.exit(0)
