"""C12 demo 2 (borderline): a column in a unit that astropy only parses after
``u.imperial.enable()`` (mile/hour, knot, ft/s ...) is written without complaint but the file
can then be read neither by JokerSamples.read nor by read_batch.

Run from the worktree root:  /venv/bin/python HUNT/demo_2.py
exit 1 = defect present, exit 0 = round trip and batch read work.
"""
import os
import sys
import tempfile
import warnings

sys.path.insert(0, os.getcwd())
warnings.simplefilter("ignore")

import astropy.units as u
import numpy as np

import thejoker
from thejoker import JokerSamples
from thejoker.utils import read_batch

print("thejoker from", thejoker.__file__)

mph = u.imperial.mi / u.h  # a velocity unit; imperial units are NOT enabled for parsing
s = JokerSamples()
s["P"] = np.array([10.0, 20.0, 30.0]) * u.day
s["e"] = np.array([0.1, 0.2, 0.3])
s["K"] = np.array([1000.0, 2000.0, 3000.0]) * mph  # accepted: convertible to m/s

fn = os.path.join(tempfile.mkdtemp(), "mph.hdf5")
s.write(fn)  # no error, no warning
print("written:", s, "K unit =", s["K"].unit)

bad = []
try:
    r = JokerSamples.read(fn)
    if r["K"].unit != mph or not np.array_equal(r["K"].value, s["K"].value):
        bad.append(f"K read back as {r['K']!r}")
except Exception as e:  # noqa
    bad.append(f"JokerSamples.read raised {type(e).__name__}: {e}")

expected = s["K"].to_value(u.km / u.s)  # 1000 mph = 0.44704 km/s
try:
    b = read_batch(fn, ["K"], slice(0, 3), units={"K": u.km / u.s})
    if not np.allclose(b[:, 0], expected, rtol=1e-14, atol=0):
        bad.append(f"read_batch gave {b[:, 0]} instead of {expected}")
except Exception as e:  # noqa
    bad.append(f"read_batch(units=km/s) raised {type(e).__name__}: {e}")

if bad:
    print("C12 VIOLATED (units do not survive the HDF5 round trip):")
    for x in bad:
        print("  ", x)
    sys.exit(1)
print("ok")
sys.exit(0)
