"""C06 demo 1: the cache-file path reads the ln_prior column without its unit.

A prior-sample library whose ln_prior was computed by hand from quantities in mixed units
(-0.5 * ((P - 40 d) / (0.1 yr))**2  ->  a dimensionless Quantity in the scaled unit d2/yr2,
which JokerSamples accepts and stores, unit included) is rejection sampled with
return_logprobs=True.  Each returned row must carry "the ln_prior value stored with exactly
that prior sample".  The default (cache-file) path returns the raw numbers of the column and
labels them dimensionless: off by the unit's scale (365.25**2 = 133407.6).

Run from the worktree root:  /venv/bin/python HUNT/demo_1.py      (exit 1 = defect present)
"""
import os
import sys

sys.path.insert(0, os.getcwd())
try:  # current .pyx source instead of the stale compiled kernel
    sys.path.insert(0, "/tmp/seedtools")
    import pyx_runtime

    pyx_runtime.install_twin(os.path.join(os.getcwd(), "thejoker/src/fast_likelihood.pyx"))
except Exception as exc:  # pragma: no cover
    print("(twin runtime not available, using the compiled kernel:", exc, ")")
import logging
import tempfile
import warnings

warnings.filterwarnings("ignore")
import astropy.units as u
import numpy as np
import pymc as pm
from astropy.time import Time

import thejoker as tj

logging.getLogger("thejoker").setLevel(logging.ERROR)
print("thejoker from", tj.__file__)

rng = np.random.default_rng(0)
t = np.sort(rng.uniform(55000, 55300, 4))
rv = 5 * np.cos(2 * np.pi * t / 37.0 + 0.3) + 1.0 + rng.normal(0, 3.0, 4)
data = tj.RVData(Time(t, format="mjd", scale="tcb"), rv * u.km / u.s, rv_err=np.full(4, 3.0) * u.km / u.s)

with pm.Model():
    prior = tj.JokerPrior.default(
        P_min=2 * u.day, P_max=200 * u.day, sigma_K0=30 * u.km / u.s, sigma_v=100 * u.km / u.s
    )

lib = prior.sample(size=2000, rng=np.random.default_rng(1))
# a hand-made log-prior (Gaussian in period), written the natural way with astropy quantities
lib["ln_prior"] = -0.5 * ((lib["P"] - 40 * u.day) / (0.1 * u.yr)) ** 2
print("library ln_prior unit:", lib["ln_prior"].unit, "(dimensionless, scale %.1f)" % (1 / lib["ln_prior"].unit.to(u.one)))
stored = lib["ln_prior"].to_value(u.one)  # the stored values, as plain numbers
key = np.stack([lib[k].value for k in ("P", "e", "omega", "M0")], axis=1)

fn = os.path.join(tempfile.mkdtemp(), "lib.hdf5")
lib.write(fn)
assert np.array_equal(tj.JokerSamples.read(fn)["ln_prior"].to_value(u.one), stored)  # the file is faithful


def rows_of(out):
    got = np.stack([out["P"].to_value(u.day), out["e"].value, out["omega"].to_value(u.rad), out["M0"].to_value(u.rad)], axis=1)
    rows = []
    for g in got:
        j = np.where(np.all(np.isclose(key, g, rtol=1e-13, atol=0), axis=1))[0]
        assert len(j) == 1
        rows.append(j[0])
    return np.array(rows)


n_bad = 0
for label, call in [
    ("rejection_sample, JokerSamples, cache-file path (default)",
     lambda j: j.rejection_sample(data, lib, return_logprobs=True, max_posterior_samples=4)),
    ("rejection_sample, file name, cache-file path (default)",
     lambda j: j.rejection_sample(data, fn, return_logprobs=True, max_posterior_samples=4)),
    ("iterative_rejection_sample, file name, cache-file path",
     lambda j: j.iterative_rejection_sample(data, fn, n_requested_samples=4, return_logprobs=True, init_batch_size=500)),
    ("rejection_sample, in_memory=True (reference)",
     lambda j: j.rejection_sample(data, lib, return_logprobs=True, max_posterior_samples=4, in_memory=True)),
]:
    joker = tj.TheJoker(prior, rng=np.random.default_rng(5))
    out = call(joker)
    rows = rows_of(out)
    returned = out["ln_prior"].to_value(u.one)
    expected = stored[rows]
    ok = np.allclose(returned, expected, rtol=1e-12, atol=0)
    print(f"\n{label}\n  library rows : {rows}\n  stored       : {expected}\n  returned     : {returned}   [{'ok' if ok else 'WRONG'}]")
    if not ok:
        print("  ratio returned/stored:", returned / expected)
        n_bad += 1

if n_bad:
    print(f"\nFAIL: {n_bad} call(s) returned an ln_prior that is not the value stored with the prior sample")
    sys.exit(1)
print("\nOK: every returned row carries the ln_prior stored with its prior sample")
sys.exit(0)
