"""C17 demo 1: a sample table whose period column is logarithmic (dex(d)).

JokerSamples accepts such a column (its unit is "equivalent" to day), pack() converts it
correctly and the cache-file readers were repaired for exactly this case (11cc1c7), so it is a
valid sample table.  On it
  * get_t0 / get_time_with_phase must return the times at which M = 2 pi (t - t_ref)/P - M0
    equals the requested phase,
  * std() (like mean()) must return a one-row table that keeps units and metadata.
Run from the worktree root:  /venv/bin/python HUNT/demo_1.py     (exit 1 = property violated)
"""
import os
import sys

sys.path.insert(0, os.getcwd())
sys.path.insert(0, "/tmp/seedtools")
import pyx_runtime  # noqa: E402

pyx_runtime.install_twin(os.path.join(os.getcwd(), "thejoker/src/fast_likelihood.pyx"))

import astropy.units as u  # noqa: E402
import numpy as np  # noqa: E402
from astropy.time import Time  # noqa: E402

import thejoker  # noqa: E402
from thejoker import JokerSamples  # noqa: E402

assert thejoker.__file__.startswith(os.getcwd()), thejoker.__file__

t_ref = Time(58000.25, format="mjd", scale="tcb")
P_day = np.array([3.5, 41.0, 260.0, 977.0])
M0 = np.array([0.3, -2.0, 5.5, 7.0])


def build(P_column):
    s = JokerSamples(t_ref=t_ref, poly_trend=2, n_offsets=1)
    s["P"] = P_column
    s["e"] = np.array([0.0, 0.2, 0.5, 0.8])
    s["omega"] = np.array([10.0, 100.0, 200.0, 300.0]) * u.deg
    s["M0"] = M0 * u.rad
    s["s"] = np.zeros(4) * u.m / u.s
    s["K"] = np.array([-3.0, 2.0, -1.0, 4.0]) * u.km / u.s
    s["v0"] = np.array([1.0, 2.0, 3.0, 4.0]) * u.km / u.s
    s["v1"] = np.array([1.0, 2.0, 3.0, 4.0]) * 1e-3 * u.km / u.s / u.day
    s["dv0_1"] = np.array([1.0, 2.0, 3.0, 4.0]) * u.m / u.s
    return s


s = build(u.Dex(np.log10(P_day), u.dex(u.day)))  # accepted by the constructor
print("P column:", s["P"], " = ", s["P"].to(u.day))
packed, units = s.pack()
print("pack() converts it to", units["P"], ":", packed[:, 0])
assert np.allclose(packed[:, 0], P_day, rtol=1e-14)

bad = []
phase = 1.25 * u.rad

# --- clause: get_t0 / get_time_with_phase return times with mean anomaly == phase
for label, call in [
    ("get_t0()", lambda: s.get_t0()),
    ("get_time_with_phase(1.25 rad)", lambda: s.get_time_with_phase(phase)),
]:
    want = 0.0 if label.startswith("get_t0") else phase.to_value(u.rad)
    try:
        t = call()
        dt = (t.tcb - t_ref.tcb).to_value(u.day)
        M = 2 * np.pi * dt / P_day - M0
        if not np.allclose(M, want, atol=1e-8):
            bad.append(f"{label}: mean anomaly at the returned times is {M}, expected {want}")
        else:
            print(f"{label}: ok")
    except Exception as exc:  # noqa: BLE001
        bad.append(f"{label} raised {type(exc).__name__}: {exc}")

# --- clause: mean/std return tables that keep units, reference epoch, poly_trend, n_offsets
for op in ["mean", "std"]:
    try:
        r = getattr(s, op)()
        ok = (
            len(r) == 1
            and r.t_ref == t_ref
            and r.poly_trend == 2
            and r.n_offsets == 1
            and r.par_names == s.par_names
            and all(
                r.tbl[c].unit.is_equivalent(s.tbl[c].unit)
                or str(r.tbl[c].unit) == str(s.tbl[c].unit)
                for c in s.par_names
            )
        )
        if not ok:
            bad.append(f"{op}(): table/units/metadata not kept: {r.tbl.meta}, "
                       f"{[str(r.tbl[c].unit) for c in r.par_names]}")
        else:
            print(f"{op}(): ok, P = {r['P']}")
    except Exception as exc:  # noqa: BLE001
        bad.append(f"{op}() raised {type(exc).__name__}: {exc}")

# reference: the same physical table with P in days passes all of the above
ref = build(P_day * u.day)
t = ref.get_time_with_phase(phase)
Mref = 2 * np.pi * (t.tcb - t_ref.tcb).to_value(u.day) / P_day - M0
assert np.allclose(Mref, phase.to_value(u.rad), atol=1e-10)
ref.std()

if bad:
    print("\nPROPERTY C17 VIOLATED for a period column in dex(d):")
    for b in bad:
        print("  -", b)
    sys.exit(1)
print("all C17 clauses hold for the dex(d) table")
sys.exit(0)
