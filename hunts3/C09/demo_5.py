"""C09 finding 5 (the code logs a warning here): a parameter given as a deterministic transform
whose density pymc cannot derive is silently LEFT OUT of ln_prior, even when that density is not
constant.  Example: the common (h, k) = (e cos w, e sin w) parametrisation.

    h, k ~ U(-0.6, 0.6)   ->   e = sqrt(h^2 + k^2),  omega = atan2(k, h)

The rows are drawn from p(e, omega) = e / 1.44 on the square (Jacobian of polar coordinates), so
ln_prior must contain + ln(e); it does not.

Run from the worktree root:  /venv/bin/python HUNT/demo_5.py      (exit 1 = defect present)
"""
import logging
import os
import sys
import warnings

sys.path.insert(0, os.getcwd())
warnings.simplefilter("ignore")

import astropy.units as u
import numpy as np
import pymc as pm
import pytensor.tensor as pt

import thejoker as tj
import thejoker.units as xu
from thejoker.logging import logger

logger.setLevel(logging.ERROR)

with pm.Model():
    h = pm.Uniform("h", -0.6, 0.6)
    k = pm.Uniform("k", -0.6, 0.6)
    e = xu.with_unit(pm.Deterministic("e", pt.sqrt(h**2 + k**2)), u.one)
    omega = xu.with_unit(pm.Deterministic("omega", pt.arctan2(k, h)), u.rad)
    prior = tj.JokerPrior.default(
        P_min=2 * u.day, P_max=1e3 * u.day, sigma_K0=30 * u.km / u.s,
        sigma_v=100 * u.km / u.s, pars={"e": e, "omega": omega},
    )

s = prior.sample(size=5000, return_logprobs=True, rng=np.random.default_rng(2))
e = np.asarray(s["e"])
P = s["P"].value
lnp = np.asarray(s["ln_prior"])
if not np.all(np.isfinite(lnp)):
    print("ln_prior is flagged as unavailable (non-finite) -> fine")
    sys.exit(0)
expected = -np.log(P) + np.log(e)  # + const   (M0: uniform, s: constant)
resid = lnp - expected
slope = np.polyfit(np.log(e), lnp + np.log(P), 1)[0]
print(f"ln_prior - ln(joint density of the rows): spread over {len(e)} rows = {np.ptp(resid):.3g} "
      f"(expected ~1e-13); d ln_prior / d ln e = {slope:.3g} (expected 1)")
if np.ptp(resid) > 1e-6:
    print("DEFECT: ln_prior omits the non-constant density of e (only a log warning is emitted)")
    sys.exit(1)
print("ok")
