"""C09 finding 4: the FixedCompanionMass class docstring documents
sigma_K = sigma_K0 (P/P0)^(-1/3) (1 - e^2)^(-1); the draws and pm.logp follow (1 - e^2)^(-1/2)
(which is what JokerPrior.default documents).  The two documented densities of the same
distribution contradict each other; the class's own one is not the one that is drawn from.

Run from the worktree root:  /venv/bin/python HUNT/demo_4.py      (exit 1 = defect present)
"""
import os
import re
import sys
import warnings

sys.path.insert(0, os.getcwd())
warnings.simplefilter("ignore")

import astropy.units as u
import numpy as np
import pymc as pm
from scipy import stats

import thejoker as tj
from thejoker.distributions import FixedCompanionMass


def exponent(doc):
    m = re.search(r"\\left\(1 - e\^2\\right\)\^\{([^}]*)\}", doc)
    return eval(m.group(1))  # "-1" or "-1/2"


ex_class = exponent(FixedCompanionMass.__doc__)
ex_default = exponent(tj.JokerPrior.default.__doc__)
print(f"documented exponent of (1 - e^2): class docstring {ex_class}, JokerPrior.default {ex_default}")

P = pm.Uniform.dist(10.0, 1000.0)
e = pm.Uniform.dist(0.0, 0.95)
K = FixedCompanionMass.dist(P=P, e=e, sigma_K0=3 * u.km / u.s, P0=100 * u.day)
Pv, ev, Kv = pm.draw([P, e, K], draws=20000, random_seed=5)
bad = ex_class != ex_default
for tag, ex in [("class docstring", ex_class), ("JokerPrior.default", ex_default)]:
    sig = np.minimum(3 * (Pv / 100) ** (-1 / 3) * (1 - ev**2) ** ex, 500)
    p = stats.kstest(Kv / sig, "norm").pvalue
    print(f"   K draws against the density of the {tag}: std(K/sigma) = {np.std(Kv / sig):.4f}, KS p = {p:.3g}")
    if p < 1e-6:
        bad = True
if bad:
    print("DEFECT: FixedCompanionMass draws do not follow the density its own docstring declares")
    sys.exit(1)
print("ok")
