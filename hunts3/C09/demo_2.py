"""C09 finding 2: the default priors on omega and M0 are documented as U(0, 2 pi)
(JokerPrior.default and default_nonlinear_prior docstrings) but the draws are uniform on
(-pi, pi): half of them lie outside the documented support.

Run from the worktree root:  /venv/bin/python HUNT/demo_2.py      (exit 1 = defect present)
"""
import logging
import os
import re
import sys
import warnings

sys.path.insert(0, os.getcwd())
warnings.simplefilter("ignore")

import astropy.units as u
import numpy as np
from scipy import stats

import thejoker as tj
from thejoker.logging import logger
from thejoker.prior import default_nonlinear_prior

logger.setLevel(logging.ERROR)

doc = tj.JokerPrior.default.__doc__ + default_nonlinear_prior.__doc__
if re.search(r"\(0,\s*2\\pi\)", doc):
    lo, hi = 0.0, 2 * np.pi
elif re.search(r"\(-\\pi,\s*\\pi\)", doc):
    lo, hi = -np.pi, np.pi
else:
    print("documented support of the angles not recognised")
    sys.exit(2)

prior = tj.JokerPrior.default(
    P_min=2 * u.day, P_max=1e3 * u.day, sigma_K0=30 * u.km / u.s, sigma_v=100 * u.km / u.s
)
s = prior.sample(size=20000, rng=np.random.default_rng(7))
bad = False
for name in ["omega", "M0"]:
    x = s[name].to_value(u.rad)
    frac_out = np.mean((x < lo) | (x > hi))
    p = stats.kstest(x, "uniform", args=(lo, hi - lo)).pvalue
    print(
        f"{name}: documented U({lo:.4f}, {hi:.4f}); draws in [{x.min():.4f}, {x.max():.4f}], "
        f"fraction outside the documented support = {frac_out:.3f}, KS p-value = {p:.3g}"
    )
    if frac_out > 0 or p < 1e-6:
        bad = True
if bad:
    print("DEFECT: angle draws are not inside the documented support (0, 2 pi)")
    sys.exit(1)
print("ok")
