"""C09 finding 3: default_nonlinear_prior documents the eccentricity prior as "the short-period
form from Kipping (2013)" = Beta(0.697, 3.27); the draws (and ln_prior) follow the *global* form
Beta(0.867, 3.03).

Run from the worktree root:  /venv/bin/python HUNT/demo_3.py      (exit 1 = defect present)
"""
import logging
import os
import sys
import warnings

sys.path.insert(0, os.getcwd())
warnings.simplefilter("ignore")

import astropy.units as u
import numpy as np
from scipy import stats

import thejoker as tj
from thejoker.logging import logger
from thejoker.prior import default_nonlinear_prior

logger.setLevel(logging.ERROR)

forms = {"short": (0.697, 3.27), "long": (1.12, 3.09), "global": (0.867, 3.03)}
doc = default_nonlinear_prior.__doc__
line = [l for l in doc.splitlines() if "``e``" in l][0]
documented = [k for k in forms if k in line.lower()]
if len(documented) != 1:
    print("documented form not recognised:", line)
    sys.exit(2)
a, b = forms[documented[0]]

prior = tj.JokerPrior.default(
    P_min=2 * u.day, P_max=1e3 * u.day, sigma_K0=30 * u.km / u.s, sigma_v=100 * u.km / u.s
)
s = prior.sample(size=50000, return_logprobs=True, rng=np.random.default_rng(11))
e = np.asarray(s["e"])
p_doc = stats.kstest(e, "beta", args=(a, b)).pvalue
resid = np.asarray(s["ln_prior"]) + np.log(s["P"].value) - stats.beta.logpdf(e, a, b)
print(f"documented: {line.strip()}  -> Beta({a}, {b})")
print(f"KS p-value of 50000 draws against the documented Beta({a}, {b}): {p_doc:.3g}")
for k, (aa, bb) in forms.items():
    print(f"   against Kipping '{k}' Beta({aa}, {bb}): p = {stats.kstest(e, 'beta', args=(aa, bb)).pvalue:.3g}")
print(f"ln_prior - ln(documented density): spread over rows = {np.ptp(resid):.3g} (expected ~1e-14)")
if p_doc < 1e-6 or np.ptp(resid) > 1e-6:
    print("DEFECT: eccentricity draws / ln_prior do not follow the documented density")
    sys.exit(1)
print("ok")
