"""C09 finding 1: FixedCompanionMass drops the units of sigma_K0 / P0 when the unit of K (or of P)
is not the one it silently assumes.  prior.sample(generate_linear=True) then draws K (and reports
ln_prior) from a Normal whose width is NOT sigma_K0 (P/P0)^(-1/3) (1-e^2)^(-1/2) for the declared
quantities -- while the package's own marginal-likelihood helper does use the declared quantities.

Run from the worktree root:  /venv/bin/python HUNT/demo_1.py      (exit 1 = defect present)
"""
import logging
import os
import sys
import warnings

sys.path.insert(0, os.getcwd())
warnings.simplefilter("ignore")

import astropy.units as u
import numpy as np
import pymc as pm
from scipy import stats

import thejoker as tj
import thejoker.units as xu
from thejoker.distributions import FixedCompanionMass, UniformLog
from thejoker.logging import logger

logger.setLevel(logging.ERROR)
kms = u.km / u.s
SIGMA_K0, P0, MAX_K = 30 * kms, 1 * u.year, 500 * kms


def build_A():
    # K is declared in m/s (with_unit), sigma_K0 is the Quantity 30 km/s
    with pm.Model():
        P = xu.with_unit(UniformLog("P", 2.0, 1000.0), u.day)
        e = xu.with_unit(pm.Beta("e", 0.867, 3.03), u.one)
        K = xu.with_unit(
            FixedCompanionMass("K", P=P, e=e, sigma_K0=SIGMA_K0, P0=P0), u.m / u.s
        )
        return tj.JokerPrior.default(
            sigma_v=100 * kms, pars={"P": P, "e": e, "K": K}
        )


def build_B():
    # same numbers, the units are attached when the prior is assembled
    with pm.Model():
        P = UniformLog("P", 2.0, 1000.0)
        e = pm.Beta("e", 0.867, 3.03)
        K = FixedCompanionMass("K", P=P, e=e, sigma_K0=SIGMA_K0, P0=P0)
        return tj.JokerPrior.default(
            sigma_v=100 * kms,
            pars={
                "P": xu.with_unit(P, u.day),
                "e": xu.with_unit(e, u.one),
                "K": xu.with_unit(K, kms),
            },
        )


bad = False
for tag, build in [
    ("A: K in m/s, sigma_K0 = 30 km/s, no K_unit", build_A),
    ("B: units attached after FixedCompanionMass was built", build_B),
]:
    try:
        prior = build()
    except (ValueError, TypeError, u.UnitsError) as ex:
        print(f"{tag}: rejected by the package ({type(ex).__name__}: {ex}) -> fine")
        continue

    s = prior.sample(
        size=20000, generate_linear=True, return_logprobs=True,
        rng=np.random.default_rng(42),
    )
    P = s["P"].to(u.day)
    e = s["e"].to_value(u.one)
    # documented density, evaluated with the declared quantities
    sig = SIGMA_K0 * ((P / P0).decompose().value) ** (-1 / 3) / np.sqrt(1 - e**2)
    sig = np.minimum(sig, MAX_K)
    z = (s["K"] / sig).decompose().value
    ks = stats.kstest(z, "norm")
    lnp_K_doc = stats.norm.logpdf(s["K"].to_value(kms), 0, sig.to_value(kms))
    # ln_prior minus everything but the K term, up to a constant
    lnp_rest = (
        -np.log(s["P"].value)
        + stats.beta.logpdf(e, 0.867, 3.03)
        + stats.norm.logpdf(s["v0"].to_value(kms), 0, 100)
    )
    resid = np.asarray(s["ln_prior"]) - lnp_rest - lnp_K_doc
    print(
        f"{tag}:\n   std(K / sigma_K_documented) = {z.std():.4g} (expected 1), "
        f"KS p-value = {ks.pvalue:.3g}\n"
        f"   ln_prior - ln(documented joint density): spread over rows = "
        f"{np.ptp(resid):.3g} (expected ~1e-13)"
    )
    if ks.pvalue < 1e-6 or np.ptp(resid) > 1e-6:
        bad = True

if bad:
    print("DEFECT: K draws / ln_prior do not follow the documented FixedCompanionMass density")
    sys.exit(1)
print("ok")
