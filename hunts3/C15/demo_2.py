"""C15 demo 2: RVData(...) itself keeps missing (masked) values as observations.

The tutorial pattern is
    tbl = QTable.read(...); t = Time(tbl["bjd"], format="jd", scale="tcb")
    data = RVData(t=t, rv=tbl["rv"], rv_err=tbl["rv_err"])
With missing entries in the file, tbl["rv"] is a MaskedQuantity and
Time(tbl["bjd"]) is a masked Time (astropy's Time cannot hold NaN at all: a
mask is its ONLY way to say "no valid time").  The clean=True filter uses
np.isfinite(...), which returns a Masked boolean whose underlying value is True
for the missing entries, so none of them is dropped: the RVData holds
observations that do not exist, and the plain arrays handed to the kernel
contain the fill values (rv = 0, t = J2000) for them.

Run from the worktree root:  /venv/bin/python HUNT/demo_2.py
exit 1 = property violated, exit 0 = property holds.
"""
import os
import sys
import tempfile
import warnings

sys.path.insert(0, os.getcwd())
warnings.simplefilter("ignore")

import astropy.units as u
import numpy as np
from astropy.table import QTable
from astropy.time import Time

from thejoker import RVData

ecsv = """# %ECSV 1.0
# ---
# datatype:
# - {name: bjd, datatype: float64}
# - {name: rv, unit: km / s, datatype: float64}
# - {name: rv_err, unit: km / s, datatype: float64}
# schema: astropy-2.0
bjd rv rv_err
2455005.5 5.0 0.5
2455001.5 "" 0.1
2455003.5 3.0 0.3
2455002.5 2.0 ""
"" 7.0 0.7
2455000.5 0.5 0.05
"""
fn = os.path.join(tempfile.mkdtemp(), "visits.ecsv")
with open(fn, "w") as f:
    f.write(ecsv)
tbl = QTable.read(fn)
print(tbl)

t = Time(tbl["bjd"], format="jd", scale="tcb")
data = RVData(t=t, rv=tbl["rv"], rv_err=tbl["rv_err"])  # clean=True (default)

# independent expectation: rows 0, 2, 5 are the only complete observations
exp_t = np.array([55000.0, 55003.0, 55005.0])
exp_rv = np.array([0.5, 3.0, 5.0])
exp_err = np.array([0.05, 0.3, 0.5])

# what the likelihood kernel extracts (fast_likelihood.pyx, CJokerHelper.__init__)
k_t = np.ascontiguousarray(data._t_bmjd, dtype="f8")
k_rv = np.ascontiguousarray(data.rv.value, dtype="f8")
k_ivar = np.ascontiguousarray(data.ivar.to_value(1 / data.rv.unit**2), dtype="f8")

problems = []
if len(data) != 3:
    problems.append(f"holds {len(data)} observations; only 3 rows are complete")
for name, got, exp in [("times", k_t, exp_t), ("rv", k_rv, exp_rv),
                       ("ivar", k_ivar, 1 / exp_err**2)]:
    if got.shape != exp.shape or not np.allclose(got, exp, rtol=1e-12, atol=0):
        problems.append(f"{name:5s} expected {exp}  observed (kernel view) {got}")
if np.any(np.diff(k_t) < 0):
    problems.append("times are not ordered")

if problems:
    print("C15 VIOLATED: missing entries are held as observations (clean=True)")
    print("  stored t     :", repr(data._t_bmjd))
    print("  stored rv    :", repr(data.rv))
    print("  stored rv_err:", repr(data.rv_err))
    for p in problems:
        print("  -", p)
    sys.exit(1)
print("ok: only the complete observations are held")
sys.exit(0)
