"""C15 demo 1: a table row whose TIME is missing (masked) becomes an observation.

RVData.guess_from_table drops a row whose velocity or uncertainty is missing
(fix 10799f0) but keeps a row whose time is missing: the RVData then holds one
observation more than the table has, its time is a masked entry that sits
AFTER the latest epoch (so the times are not ordered), and every consumer that
takes the plain numbers (the likelihood kernel: np.ascontiguousarray(_t_bmjd))
sees a made-up epoch (astropy's fill value J2000 = BMJD 51544.5) paired with
the velocity of the row that had no time.

Run from the worktree root:  /venv/bin/python HUNT/demo_1.py
exit 1 = property violated, exit 0 = property holds.
"""
import os
import sys
import warnings

sys.path.insert(0, os.getcwd())
warnings.simplefilter("ignore")

import astropy.units as u
import numpy as np
from astropy.table import Table

import thejoker
from thejoker import RVData

print("thejoker from", thejoker.__file__)

csv = """bmjd,rv,rv_err
55005.0,5.0,0.5
,1.0,0.1
55003.0,3.0,0.3
55002.0,2.0,0.2
"""
tbl = Table.read(csv, format="ascii.csv")
print(tbl)

data = RVData.guess_from_table(tbl, rv_unit=u.km / u.s)

# independent expectation: the rows that have a time, a velocity and an
# uncertainty, ordered by time
rows = [ln.split(",") for ln in csv.strip().splitlines()[1:]]
rows = [tuple(float(x) for x in r) for r in rows if all(x != "" for x in r)]
rows.sort()
exp_t, exp_rv, exp_err = (np.array(c) for c in zip(*rows))

kernel_t = np.ascontiguousarray(data._t_bmjd, dtype="f8")  # what the kernel does
got_rv = np.asarray(data.rv.to_value(u.km / u.s))
got_err = np.asarray(data.rv_err.to_value(u.km / u.s))

problems = []
if len(data) != len(exp_t):
    problems.append(f"holds {len(data)} observations, the table has {len(exp_t)} "
                    "complete rows")
if getattr(data._t_bmjd, "mask", None) is not None and np.any(data._t_bmjd.mask):
    problems.append(f"the stored times contain a missing entry: {data._t_bmjd!r}")
if np.any(np.diff(kernel_t) < 0):
    problems.append(f"times as read by the kernel are not ordered: {kernel_t}")
if not (kernel_t.shape == exp_t.shape and np.array_equal(kernel_t, exp_t)):
    problems.append(f"times   expected {exp_t}  observed {kernel_t}")
if not (got_rv.shape == exp_rv.shape and np.array_equal(got_rv, exp_rv)):
    problems.append(f"rv      expected {exp_rv}  observed {got_rv}")
if not (got_err.shape == exp_err.shape and np.array_equal(got_err, exp_err)):
    problems.append(f"rv_err  expected {exp_err}  observed {got_err}")

# for comparison: the same row with the velocity missing instead IS dropped
tbl2 = Table.read(csv.replace(",1.0,0.1", "55001.0,,0.1"), format="ascii.csv")
d2 = RVData.guess_from_table(tbl2, rv_unit=u.km / u.s)
print(f"(same table with the velocity missing instead of the time: {len(d2)} epochs)")

if problems:
    print("C15 VIOLATED: a row without a time is held as an observation")
    for p in problems:
        print("  -", p)
    sys.exit(1)
print("ok: only the complete rows are held, ordered by time")
sys.exit(0)
