"""C15 demo 3: guess_from_table reads one time column with the format and the
scale it inferred from the NAME of another one.

A table that carries the epochs twice, as 'bmjd' and as 'time' (here JD), is
parsed as: values of column 'time' (2455001.5 ...) with format='mjd',
scale='tcb' (both derived from the column name 'bmjd').  Neither column says
that: the RVData holds times that are 2400000.5 days away from the input.

Run from the worktree root:  /venv/bin/python HUNT/demo_3.py
exit 1 = property violated, exit 0 = property holds.
"""
import os
import sys
import warnings

sys.path.insert(0, os.getcwd())
warnings.simplefilter("ignore")

import astropy.units as u
import numpy as np
from astropy.table import Table
from astropy.time import Time

from thejoker import RVData

bmjd = np.array([55005.0, 55001.0, 55003.0, 55002.0])
rv = np.array([5.0, 1.0, 3.0, 2.0])
tbl = Table({"bmjd": bmjd, "time": bmjd + 2400000.5,   # the same epochs, as JD
             "rv": rv * u.km / u.s, "rv_err": rv / 10 * u.km / u.s})
print(tbl)
data = RVData.guess_from_table(tbl)

# Either column, read for what it is, gives the same epochs:
exp_from_bmjd = np.sort(Time(bmjd, format="mjd", scale="tcb").tcb.mjd)
exp_from_time_tcb = np.sort(Time(bmjd + 2400000.5, format="jd", scale="tcb").tcb.mjd)
exp_from_time_utc = np.sort(Time(bmjd + 2400000.5, format="jd", scale="utc").tcb.mjd)
got = np.asarray(data._t_bmjd, dtype=float)
print("held BMJD            :", got)
print("column 'bmjd' says   :", exp_from_bmjd)
print("column 'time' (JD)   :", exp_from_time_tcb, "(TCB) /", exp_from_time_utc, "(UTC)")
ok = any(np.allclose(got, e, rtol=0, atol=1e-6)
         for e in (exp_from_bmjd, exp_from_time_tcb, exp_from_time_utc))
if not ok:
    print("C15 VIOLATED: the held times are not the input times "
          f"(off by {np.min(np.abs(got - exp_from_bmjd)):.1f} d); "
          "column 'time' was read with format/scale derived from column 'bmjd'")
    sys.exit(1)
print("ok")
sys.exit(0)
