"""C19 demo 1: float32 epochs + float32 period + RVData(t_ref=False) -> the phases are
computed in single precision, so max_phase_gap / phase_coverage are not the largest
empty arc / fraction of occupied bins of the given observations.

Run from the worktree root:  /venv/bin/python HUNT/demo_1.py
exit 1 = property violated, exit 0 = property holds.
"""
import os
import sys
from fractions import Fraction

sys.path.insert(0, os.getcwd())

import astropy.units as u
import numpy as np
from astropy.time import Time

import thejoker
from thejoker import JokerSamples, RVData
from thejoker.samples_analysis import max_phase_gap, phase_coverage

print("thejoker from", thejoker.__file__)

# epochs as they come out of a single-precision (FITS 'E') BMJD column
rng = np.random.default_rng(3)
t32 = (55000 + np.sort(rng.uniform(0, 100, 8))).astype(np.float32)
n = len(t32)
rv = np.zeros(n) * u.km / u.s
err = np.ones(n) * u.km / u.s

# a single-precision period, as produced by JokerPrior.sample(dtype=np.float32)
P32 = np.float32(0.37)
sample = JokerSamples({"P": np.array([P32]) * u.day, "e": [0.1],
                       "omega": [0.0] * u.rad, "M0": [0.0] * u.rad})
assert sample["P"].dtype == np.float32

# the object under test: data without a reference epoch (documented option)
data = RVData(t32, rv, err, t_ref=False)
# an equivalent object: reference epoch BMJD 0 given explicitly -> identical phases
data_eq = RVData(t32, rv, err, t_ref=Time(0.0, format="mjd", scale="tcb"))

# independent computation: exact rational arithmetic on the exact input values
ph = sorted((Fraction(float(x)) / Fraction(float(P32))) % 1 for x in t32)
gaps = [b - a for a, b in zip(ph[:-1], ph[1:])] + [ph[0] + 1 - ph[-1]]
gap_exact = float(max(gaps))
n_bins = 16
cov_exact = len({int(p * n_bins) for p in ph}) / n_bins
# no phase sits within 1e-6 of a bin edge, so the coverage is unambiguous
assert min(abs(float(p) * n_bins - round(float(p) * n_bins)) for p in ph) > 1e-6

gap = float(np.squeeze(max_phase_gap(sample, data)))
gap_eq = float(np.squeeze(max_phase_gap(sample, data_eq)))
cov = float(phase_coverage(sample, data, n_bins=n_bins))
cov_eq = float(phase_coverage(sample, data_eq, n_bins=n_bins))

print("phase dtype (t_ref=False):", data.phase(sample["P"]).dtype,
      "| (t_ref=BMJD 0):", data_eq.phase(sample["P"]).dtype)
print(f"max_phase_gap   exact {gap_exact:.12f}  t_ref=BMJD0 {gap_eq:.12f}  t_ref=False {gap:.12f}")
print(f"phase_coverage  exact {cov_exact:.4f}  t_ref=BMJD0 {cov_eq:.4f}  t_ref=False {cov:.4f}")

bad = []
if abs(gap - gap_exact) > 1e-8:
    bad.append(f"max_phase_gap is off by {gap - gap_exact:+.3e} (float64 round-off would be ~1e-11)")
if cov != cov_exact:
    bad.append(f"phase_coverage {cov} != {cov_exact}")
if bad:
    print("PROPERTY VIOLATED:")
    for b in bad:
        print("  -", b)
    sys.exit(1)
print("ok")
sys.exit(0)
