"""
C11 demo 2 -- a parameter that is FIXED through a pytensor constant (the way docs/examples/Strader-circular-only.ipynb
fixes e and omega for MCMC: ``pm.Deterministic("omega", pt.constant(0))``) makes setup_mcmc build the orbit in SINGLE
precision as soon as the constant is not 0: pytensor types ``pt.constant(1)`` as int8 and ``pt.constant(0.5)`` as
float32, ``xu.to_unit`` multiplies by the python float 1.0 (typed float32), and KeplerianOrbit takes cos/sin of a
float32 tensor.  The rejection sampler uses the same value in double precision (prior.sample -> float64 -> C kernel).

Clause: "The pymc model assembled by setup_mcmc predicts, for any parameter values, the same radial velocities as
the sampler's model ... and the stored ln_likelihood diagnostic equals that Gaussian data term."

Decided by: closed-form double precision RV (independent Kepler solver), and by the twin model in which the very
same constants are declared as float64 (control: agrees to 1e-12).

Run from the worktree root:  /venv/bin/python HUNT/demo_2.py      (exit 1 = property violated)
"""
import os
import sys
import warnings

sys.path.insert(0, os.getcwd())
sys.path.insert(0, "/tmp/seedtools")
warnings.filterwarnings("ignore")
import pyx_runtime  # noqa: E402

pyx_runtime.install_twin(os.path.join(os.getcwd(), "thejoker/src/fast_likelihood.pyx"))

import astropy.units as u  # noqa: E402
import numpy as np  # noqa: E402
import pymc as pm  # noqa: E402
import pytensor.tensor as pt  # noqa: E402
from astropy.time import Time  # noqa: E402

import thejoker as tj  # noqa: E402
import thejoker.units as xu  # noqa: E402

assert tj.__file__.startswith(os.getcwd()), tj.__file__


def kepler_E(M, e):
    M = (np.asarray(M, float) + np.pi) % (2 * np.pi) - np.pi
    E = M + e * np.sin(M)
    for _ in range(100):
        E = E - (E - e * np.sin(E) - M) / (1 - e * np.cos(E))
    return E


def rv_closed_form(x, P, e, om, M0, K):
    E = kepler_E(2 * np.pi * x / P - M0, e)
    f = 2 * np.arctan2(np.sqrt(1 + e) * np.sin(E / 2), np.sqrt(1 - e) * np.cos(E / 2))
    return K * (np.cos(om + f) + e * np.cos(om))


rng = np.random.default_rng(7)
n = 20
x = np.sort(rng.uniform(0, 200, n))
x[0] = 0.0
true = dict(P=17.3, e=0.5, omega=1.0, M0=2.2, K=150.0, v0=-20.0)  # km/s, days, rad
sig = 0.01  # 10 m/s
y = rv_closed_form(x, true["P"], true["e"], true["omega"], true["M0"], true["K"]) + true["v0"] + rng.normal(0, sig, n)
data = tj.RVData(Time(58000.0 + x, format="mjd", scale="tcb"), y * u.km / u.s, np.full(n, sig) * u.km / u.s)

ll_cf = np.sum(-0.5 * np.log(2 * np.pi * sig**2)
               - 0.5 * (y - rv_closed_form(x, true["P"], true["e"], true["omega"], true["M0"], true["K"]) - true["v0"]) ** 2 / sig**2)
rv_cf = rv_closed_form(x, true["P"], true["e"], true["omega"], true["M0"], true["K"]) + true["v0"]


def run(e_const, om_const):
    with pm.Model() as model:
        e = xu.with_unit(pm.Deterministic("e", e_const), u.one)
        omega = xu.with_unit(pm.Deterministic("omega", om_const), u.radian)
        prior = tj.JokerPrior.default(
            P_min=2 * u.day, P_max=200 * u.day, sigma_K0=50 * u.km / u.s, sigma_v=100 * u.km / u.s,
            pars={"e": e, "omega": omega},
        )
        joker = tj.TheJoker(prior, rng=np.random.default_rng(0))
        smp = prior.sample(size=1, generate_linear=True, rng=np.random.default_rng(0))
        assert smp["omega"].dtype == np.float64 and float(smp["omega"][0].value) == 1.0  # what the sampler sees
        joker.setup_mcmc(data, smp)

    M0 = true["M0"]
    phys = {"P": true["P"], "K": true["K"], "v0": true["v0"],
            "__M0_angle1": np.sin(M0), "__M0_angle2": np.cos(M0)}
    point = {}
    for rv in model.free_RVs:
        tr = model.rvs_to_transforms[rv]
        val = np.asarray(phys[rv.name], float)
        if tr is not None:
            val = tr.forward(pt.as_tensor_variable(val), *rv.owner.inputs).eval()
        point[model.rvs_to_values[rv].name] = val
    outs = model.replace_rvs_by_values([model["model_rv"], model["ln_likelihood"]])
    rv_p, ll_p = model.compile_fn(outs, on_unused_input="ignore")(point)
    return rv_p, float(ll_p)


bad = False
for label, e_c, om_c in [
    ("float64 constants (control)", pt.constant(0.5, dtype="float64"), pt.constant(1.0, dtype="float64")),
    ("pt.constant(0.5), pt.constant(1)  [docs style]", pt.constant(0.5), pt.constant(1)),
]:
    rv_p, ll_p = run(e_c, om_c)
    drv = np.abs(rv_p - rv_cf).max()
    print(f"{label}: dtypes e={e_c.dtype} omega={om_c.dtype};  max|model_rv - closed form| = {drv:.3e} km/s "
          f"({drv / true['K']:.1e} of K);  ln_likelihood - closed form = {ll_p - ll_cf:+.3e}")
    # double precision round-off here is ~1e-12 km/s; allow 1000x that
    if drv > 1e-9 * true["K"]:
        print("   VIOLATION: the MCMC model evaluates the orbit in single precision (error ~ K * 2^-24), the sampler "
              "in double precision")
        bad = True

sys.exit(1 if bad else 0)
