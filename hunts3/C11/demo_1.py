"""
C11 demo 1 -- the pymc model of setup_mcmc and the sampler's model predict DIFFERENT radial velocities for
very eccentric orbits (e >~ 0.995) at epochs shortly after/before periastron.

Clause: "The pymc model assembled by setup_mcmc predicts, for any parameter values, the same radial velocities as
the sampler's model".

How it is decided (no intuition): the priors on the linear parameters are made extremely narrow
(K ~ N(10, 1e-5) km/s, v0 ~ N(0, 1e-5) km/s), so that the sampler's MARGINAL ln-likelihood at a nonlinear point
(P, e, omega, M0, s) is -- up to O(1e-6) -- the Gaussian data term ln N(y | K*orbit + v0, err^2) of the sampler's own
model at K=10, v0=0.  The same number is read from the pymc model (deterministic 'ln_likelihood', evaluated at
K=10, v0=0) and recomputed in closed form with an independent Kepler solver (bisection-safe Newton in numpy).
If both models are the same function, all three agree; they do at the control point e=0.5, and the pymc model and
the closed form agree at e=0.999, but the sampler is off by thousands at e=0.999.

Run from the worktree root:  /venv/bin/python HUNT/demo_1.py      (exit 1 = property violated)
"""
import os
import sys
import warnings

sys.path.insert(0, os.getcwd())
sys.path.insert(0, "/tmp/seedtools")
warnings.filterwarnings("ignore")
import pyx_runtime  # noqa: E402

pyx_runtime.install_twin(os.path.join(os.getcwd(), "thejoker/src/fast_likelihood.pyx"))

import astropy.units as u  # noqa: E402
import numpy as np  # noqa: E402
import pymc as pm  # noqa: E402
from astropy.time import Time  # noqa: E402

import thejoker as tj  # noqa: E402
import thejoker.units as xu  # noqa: E402

assert tj.__file__.startswith(os.getcwd()), tj.__file__


def kepler_E(M, e):
    """Independent solver: Newton safeguarded by bisection on [-pi, pi]."""
    M = (np.asarray(M, float) + np.pi) % (2 * np.pi) - np.pi
    lo, hi = np.full_like(M, -np.pi), np.full_like(M, np.pi)
    E = M.copy()
    for _ in range(200):
        f = E - e * np.sin(E) - M
        lo = np.where(f < 0, E, lo)
        hi = np.where(f > 0, E, hi)
        En = E - f / (1 - e * np.cos(E))
        En = np.where((En <= lo) | (En >= hi), 0.5 * (lo + hi), En)
        if np.all(np.abs(En - E) < 1e-15):
            E = En
            break
        E = En
    return E


def rv_closed_form(x, P, e, om, M0, K):
    E = kepler_E(2 * np.pi * x / P - M0, e)
    f = 2 * np.arctan2(np.sqrt(1 + e) * np.sin(E / 2), np.sqrt(1 - e) * np.cos(E / 2))
    return K * (np.cos(om + f) + e * np.cos(om))


K0 = 10.0
x = np.array([0.0, 0.98, 1.16, 1.185, 1.21, 1.335, 10.0, 25.0, 40.0, 60.0, 75.0, 90.0])  # days since t_ref
err = np.full(len(x), 0.05)


def run(e_val):
    nl = dict(P=100.0, e=e_val, omega=0.3, M0=0.0, s=0.0)
    # data = exact model + a fixed small perturbation
    y = rv_closed_form(x, nl["P"], nl["e"], nl["omega"], nl["M0"], K0) + 0.01 * np.cos(np.arange(len(x)))
    data = tj.RVData(Time(58000.0 + x, format="mjd", scale="tcb"), y * u.km / u.s, err * u.km / u.s)

    with pm.Model() as model:
        P = xu.with_unit(pm.Uniform("P", 1, 1000), u.day)
        e = xu.with_unit(pm.Uniform("e", 0, 1), u.one)
        omega = xu.with_unit(pm.Uniform("omega", 0, 2 * np.pi), u.rad)
        M0 = xu.with_unit(pm.Uniform("M0", 0, 2 * np.pi), u.rad)
        s = xu.with_unit(pm.Deterministic("s", pm.math.constant(0.0)), u.km / u.s)
        K = xu.with_unit(pm.Normal("K", K0, 1e-5), u.km / u.s)
        v0 = xu.with_unit(pm.Normal("v0", 0.0, 1e-5), u.km / u.s)
        prior = tj.JokerPrior(pars=dict(P=P, e=e, omega=omega, M0=M0, s=s, K=K, v0=v0))
        joker = tj.TheJoker(prior, rng=np.random.default_rng(0))

        smp = tj.JokerSamples(t_ref=data.t_ref)
        smp["P"] = [nl["P"]] * u.day
        smp["e"] = [nl["e"]] * u.one
        smp["omega"] = [nl["omega"]] * u.rad
        smp["M0"] = [nl["M0"]] * u.rad
        smp["s"] = [0.0] * u.km / u.s
        smp["K"] = [K0] * u.km / u.s
        smp["v0"] = [0.0] * u.km / u.s

        # the sampler's model
        ll_sampler = joker.marginal_ln_likelihood(data, smp, in_memory=True)[0]

        # the MCMC model
        joker.setup_mcmc(data, smp)

    phys = dict(P=nl["P"], e=nl["e"], omega=nl["omega"], M0=nl["M0"], K=K0, v0=0.0)
    point = {}
    for rv in model.free_RVs:
        tr = model.rvs_to_transforms[rv]
        val = np.asarray(phys[rv.name], float)
        if tr is not None:
            val = tr.forward(pm.math.constant(val), *rv.owner.inputs).eval()
        point[model.rvs_to_values[rv].name] = val
    outs = model.replace_rvs_by_values([model["model_rv"], model["ln_likelihood"]])
    rv_pymc, ll_pymc = model.compile_fn(outs, on_unused_input="ignore")(point)

    rv_cf = rv_closed_form(x, nl["P"], nl["e"], nl["omega"], nl["M0"], K0)
    ll_cf = np.sum(-0.5 * np.log(2 * np.pi * err**2) - 0.5 * (y - rv_cf) ** 2 / err**2)
    return ll_sampler, float(ll_pymc), ll_cf, np.abs(rv_pymc - rv_cf).max()


bad = False
for e_val in (0.5, 0.999):
    ll_s, ll_p, ll_c, drv = run(e_val)
    print(f"e = {e_val}:  sampler's marginal ln L = {ll_s:.4f}   pymc ln_likelihood = {ll_p:.4f}   "
          f"closed form = {ll_c:.4f}   max|model_rv(pymc) - closed form| = {drv:.2e} km/s")
    if abs(ll_p - ll_c) > 1e-3:
        print("   pymc model deviates from the closed form")
        bad = True
    if abs(ll_s - ll_p) > 1e-2:
        print(f"   VIOLATION: sampler and pymc model disagree by {ll_s - ll_p:.1f} in ln L: they do not predict the "
              "same radial velocities at this parameter point")
        bad = True

# direct look at the sampler's design column (the C routine the kernel calls with tol=1e-10, maxiter=128)
from twobody.wrap import cy_rv_from_elements  # noqa: E402

col = np.array(cy_rv_from_elements(np.ascontiguousarray(58000.0 + x), 100.0, 1.0, 0.999, 0.3, 0.0, 58000.0, 1e-10, 128))
ref = rv_closed_form(x, 100.0, 0.999, 0.3, 0.0, 1.0)
print("sampler's unit-K orbit column minus closed form at e=0.999 (units of K):")
print(np.round(col - ref, 4))

sys.exit(1 if bad else 0)
