"""C05 demo 1: a prior-samples FILE NAME that JokerSamples.write() itself produced (FITS) gives
marginal ln-likelihoods with in_memory=True but cannot be evaluated at all with in_memory=False.

Run from the worktree root:  /venv/bin/python HUNT/demo_1.py
exit 1 = the two execution paths disagree (defect present); exit 0 = they return the same numbers.
"""
import os
import sys

sys.path.insert(0, os.getcwd())
sys.path.insert(0, "/tmp/seedtools")
import warnings

warnings.filterwarnings("ignore")
try:  # run the CURRENT .pyx (the compiled extension in the worktree is stale)
    import pyx_runtime

    pyx_runtime.install_twin(os.path.join(os.getcwd(), "thejoker/src/fast_likelihood.pyx"))
except ImportError:
    pass

import tempfile

import astropy.units as u
import numpy as np
from astropy.time import Time

import thejoker as tj

assert os.path.abspath(tj.__file__).startswith(os.getcwd()), tj.__file__

rng = np.random.default_rng(42)
n = 5
t = Time(59000.0 + np.sort(rng.uniform(0, 300, n)), format="mjd", scale="tcb")
rv = (30 * np.cos(2 * np.pi * t.mjd / 41.3) + 5.0 + rng.normal(0, 1, n)) * u.km / u.s
err = rng.uniform(0.5, 1.5, n) * u.km / u.s
data = tj.RVData(t, rv, err)

prior = tj.JokerPrior.default(
    P_min=2 * u.day, P_max=300 * u.day, sigma_K0=30 * u.km / u.s, sigma_v=100 * u.km / u.s
)
prior_samples = prior.sample(size=64, rng=np.random.default_rng(1))

tmpdir = tempfile.mkdtemp()
fits_name = os.path.join(tmpdir, "prior_samples.fits")
hdf5_name = os.path.join(tmpdir, "prior_samples.hdf5")
prior_samples.write(fits_name)  # a documented, supported output format of JokerSamples.write
prior_samples.write(hdf5_name)

bad = []
results = {}
for label, samples, in_memory in [
    ("object, in_memory=True", prior_samples, True),
    ("object, in_memory=False", prior_samples, False),
    ("hdf5 name, in_memory=True", hdf5_name, True),
    ("hdf5 name, in_memory=False", hdf5_name, False),
    ("fits name, in_memory=True", fits_name, True),
    ("fits name, in_memory=False", fits_name, False),
]:
    joker = tj.TheJoker(prior, rng=np.random.default_rng(7))
    try:
        ll = joker.marginal_ln_likelihood(data, samples, in_memory=in_memory)
        results[label] = ll
        print(f"{label:28s}: ok, ll[:3] = {ll[:3]}")
    except Exception as e:  # noqa: BLE001
        results[label] = e
        first = str(e).strip().splitlines()[0] if str(e).strip() else ""
        print(f"{label:28s}: RAISED {type(e).__name__}: {first}")

ref = results["object, in_memory=True"]
for label, val in results.items():
    if isinstance(val, Exception):
        bad.append(f"{label}: no value ({type(val).__name__}) although other paths evaluate the same samples")
    elif not np.array_equal(val, ref):
        bad.append(f"{label}: differs from the in-memory values by {np.abs(val - ref).max():.3e}")

# the same for the sampler
for in_memory in [True, False]:
    joker = tj.TheJoker(prior, rng=np.random.default_rng(7))
    try:
        s = joker.rejection_sample(data, fits_name, in_memory=in_memory)
        print(f"rejection_sample(fits name, in_memory={in_memory}): {len(s)} accepted")
    except Exception as e:  # noqa: BLE001
        print(f"rejection_sample(fits name, in_memory={in_memory}): RAISED {type(e).__name__}")
        bad.append(f"rejection_sample(fits name, in_memory={in_memory}) raised {type(e).__name__}")

if bad:
    print("\nPROPERTY C05 VIOLATED (execution paths do not agree):")
    for b in bad:
        print("  -", b)
    sys.exit(1)
print("\nall execution paths return identical values")
sys.exit(0)
