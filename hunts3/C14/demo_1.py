"""C14 clause: "A library too small for the request makes it raise".

A prior library with FEWER ROWS than n_requested_samples (so it can never deliver the
request, and is far below the sampler's own documented minimum growth_factor *
n_requested_samples) is accepted silently as soon as init_batch_size is given (or
max_prior_samples limits it): the size check only compares the FIRST BATCH with the
library.  The call returns a short JokerSamples instead of raising.

Run from the worktree root:  /venv/bin/python HUNT/demo_1.py
exit 1 = defect present, exit 0 = every too-small library raised.
"""
import os
import sys
import warnings

sys.path.insert(0, os.getcwd())
sys.path.insert(0, "/tmp/seedtools")
warnings.simplefilter("ignore")
import pyx_runtime  # noqa: E402

pyx_runtime.install_twin(os.path.join(os.getcwd(), "thejoker/src/fast_likelihood.pyx"))

import astropy.units as u  # noqa: E402
import numpy as np  # noqa: E402
from astropy.time import Time  # noqa: E402

import thejoker as tj  # noqa: E402

assert tj.__file__.startswith(os.getcwd()), tj.__file__

prior = tj.JokerPrior.default(
    P_min=2 * u.day, P_max=1e3 * u.day, sigma_K0=30 * u.km / u.s, sigma_v=100 * u.km / u.s
)
lib = prior.sample(size=500, rng=np.random.default_rng(1))
t = Time("J2000") + [3.1, 40.7, 95.2] * u.day
data = tj.RVData(t, [12.0, -31.0, 44.0] * u.km / u.s, rv_err=[10.0, 10.0, 10.0] * u.km / u.s)

cases = [
    # (label, n_requested, kwargs)
    ("500-row library, 1000 requested, init_batch_size=10", 1000, dict(init_batch_size=10)),
    ("500-row library, 600 requested, init_batch_size=500", 600, dict(init_batch_size=500)),
    ("limited to 50 rows, 100 requested, init_batch_size=50", 100,
     dict(init_batch_size=50, max_prior_samples=50)),
]

n_wrong = 0
for label, n_req, kw in cases:
    for in_memory in (True, False):
        joker = tj.TheJoker(prior, rng=np.random.default_rng(42))
        where = "in-memory" if in_memory else "cache-file"
        try:
            out = joker.iterative_rejection_sample(
                data, lib, n_requested_samples=n_req, in_memory=in_memory, **kw
            )
        except Exception as e:  # the behaviour the property asks for
            print(f"ok    [{where}] {label}: raised {type(e).__name__}")
            continue
        n_wrong += 1
        n_avail = min(len(lib), kw.get("max_prior_samples") or len(lib))
        print(
            f"WRONG [{where}] {label}: no exception; returned {type(out).__name__} with "
            f"{len(out)} samples although only {n_avail} library rows (< {n_req} requested, "
            f"<< growth_factor*n_requested = {128 * n_req}) were available"
        )

# control: same library, same request, default init_batch_size -> the size check fires
joker = tj.TheJoker(prior, rng=np.random.default_rng(42))
try:
    joker.iterative_rejection_sample(data, lib, n_requested_samples=1000)
    print("control: default init_batch_size did NOT raise either")
except ValueError as e:
    print("control: default init_batch_size raises:", str(e)[:60], "...")

if n_wrong:
    print(f"\n{n_wrong} call(s) with a library too small for the request returned instead of raising")
    sys.exit(1)
print("\nall too-small libraries raised")
sys.exit(0)
