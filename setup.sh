#!/bin/bash
# Build the framework from files on disk only (offline): the Lean library + driver, then a smoke test.
set -e
cd "$(dirname "$0")/lean"
lake build JokerVerif Driver
echo '{"op":"ping"}' | lake env lean --run Driver.lean | grep -q pong
cd ..
/venv/bin/python -c "import sys; sys.path.insert(0,'harness'); import core, pyxtrans; print('harness ok')"
