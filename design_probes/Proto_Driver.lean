import Lean.Data.Json
import Mathlib.LinearAlgebra.Matrix.NonsingularInverse
import Mathlib.LinearAlgebra.Matrix.SchurComplement

open Matrix Lean

structure Mat (n m : Nat) (α : Type) where
  rows : Vector (Vector α m) n
namespace Mat
variable {α : Type} {n m : Nat}
def ofFn (f : Fin n → Fin m → α) : Mat n m α := ⟨Vector.ofFn fun i => Vector.ofFn fun j => f i j⟩
def toM (A : Mat n m α) : Matrix (Fin n) (Fin m) α := fun i j => A.rows[i][j]
end Mat

variable {α : Type} [Field α]
def cinv {n : Nat} (A : Mat n n α) : Mat n n α := Mat.ofFn ((A.toM.det)⁻¹ • A.toM.adjugate)

structure KIn (n k : Nat) (α : Type) where
  M : Mat n k α
  y : Vector α n
  ivar : Vector α n
  s : α
  mu : Vector α k
  Lam : Vector α k

def sIvar {n k} (x : KIn n k α) : Vector α n := Vector.ofFn fun i => x.ivar[i] / (1 + x.s * x.s * x.ivar[i])
def kAinv {n k} (x : KIn n k α) : Mat k k α :=
  let sv := sIvar x
  .ofFn (diagonal (fun i : Fin k => 1 / x.Lam[i]) + (Mat.ofFn (x.M.toMᵀ * diagonal (fun i : Fin n => sv[i]))).toM * x.M.toM)
def kchi2det {n k} (x : KIn n k α) : α × α :=
  let sv := sIvar x
  let Ainv := kAinv x
  let A := cinv Ainv
  let CM : Mat n k α := .ofFn (diagonal (fun i : Fin n => sv[i]) * x.M.toM)
  let CMA : Mat n k α := .ofFn (CM.toM * A.toM)
  let Binv : Mat n n α := .ofFn (diagonal (fun i : Fin n => sv[i]) - CMA.toM * CM.toMᵀ)
  let b : Vector α n := Vector.ofFn (x.M.toM *ᵥ (fun j : Fin k => x.mu[j]))
  let r : Fin n → α := fun i => b[i] - x.y[i]
  let Br : Vector α n := Vector.ofFn (Binv.toM *ᵥ r)
  (r ⬝ᵥ (fun i : Fin n => Br[i]), (∏ i : Fin n, 1 / sv[i]) * (∏ j : Fin k, x.Lam[j]) * Ainv.toM.det)

/-- exact rational from IEEE bits -/
def ratOfBits (b : UInt64) : Rat :=
  let sign : Int := if b >>> 63 == 1 then -1 else 1
  let e := ((b >>> 52) &&& 0x7ff).toNat
  let m := (b &&& 0xfffffffffffff).toNat
  if e == 0 then (sign * (m : Int) : Rat) / ((2:Rat) ^ 1074)
  else
    let mant : Int := sign * ((m + 2^52 : Nat) : Int)
    if e ≥ 1075 then (mant : Rat) * (2:Rat) ^ (e - 1075) else (mant : Rat) / (2:Rat) ^ (1075 - e)

def getNums (j : Json) (key : String) : Except String (Array Rat) := do
  let arr ← j.getObjValAs? (Array Nat) key
  return arr.map fun v => ratOfBits v.toUInt64

def vecOf (a : Array Rat) (n : Nat) : Vector Rat n := Vector.ofFn fun i => a.getD i.val 0

def handle (j : Json) : Except String Json := do
  let n ← j.getObjValAs? Nat "n"
  let k ← j.getObjValAs? Nat "k"
  let M ← getNums j "M"
  let y ← getNums j "y"; let iv ← getNums j "ivar"; let mu ← getNums j "mu"; let lam ← getNums j "lam"
  let s ← getNums j "s"
  let x : KIn n k Rat := { M := .ofFn fun i jj => M.getD (i.val * k + jj.val) 0, y := vecOf y n, ivar := vecOf iv n, s := s.getD 0 0, mu := vecOf mu k, Lam := vecOf lam k }
  let (c, d) := kchi2det x
  return Json.mkObj [("chi2", toString c), ("detB", toString d)]

partial def loop (h : IO.FS.Stream) : IO Unit := do
  let line ← h.getLine
  if line.isEmpty then return ()
  match Json.parse line >>= handle with
  | .ok j => IO.println j.compress
  | .error e => IO.println (Json.mkObj [("err", e)]).compress
  loop h

def main : IO Unit := do loop (← IO.getStdin)
