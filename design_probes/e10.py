import warnings; warnings.filterwarnings("ignore")
import numpy as np, astropy.units as u, time, sys
from fractions import Fraction as F
import math
import thejoker as tj
from thejoker.thejoker import TheJoker
from twobody.wrap import cy_rv_from_elements
from thejoker.likelihood_helpers import get_trend_design_matrix
rng = np.random.default_rng(int(sys.argv[1]) if len(sys.argv)>1 else 0)
priors = {}
def get_prior(p):
    if p not in priors:
        sv = [100*u.km/u.s, 1*u.km/u.s/u.day, 0.01*u.km/u.s/u.day**2][:p]
        priors[p] = tj.JokerPrior.default(P_min=1*u.day, P_max=4000*u.day, sigma_K0=30*u.km/u.s, sigma_v=sv, poly_trend=p)
    return priors[p]
def closed_mp(t, t0, y, err, theta, lam, p):
    P,e,om,M0,s = theta
    kcol = np.array(cy_rv_from_elements(np.ascontiguousarray(t), P, 1., e, om, M0, t0, 1e-10, 128))
    dt = t - t0
    M = np.stack([kcol] + [dt**i for i in range(p)], axis=1)
    n=len(t); k=M.shape[1]
    Mf=[[F(float(v)) for v in row] for row in M]
    lamf=[F(float(v)) for v in lam]
    B=[[ (F(float(err[i]))**2 if i==j else 0) + sum(Mf[i][a]*lamf[a]*Mf[j][a] for a in range(k)) for j in range(n)] for i in range(n)]
    r=[F(float(v)) for v in y]
    # gaussian elimination exact
    A=[row[:]+[r[i]] for i,row in enumerate(B)]
    det=F(1)
    for c in range(n):
        piv=next(i for i in range(c,n) if A[i][c]!=0)
        if piv!=c: A[c],A[piv]=A[piv],A[c]; det=-det
        det*=A[c][c]
        for i in range(c+1,n):
            f=A[i][c]/A[c][c]
            for jj in range(c,n+1): A[i][jj]-=f*A[c][jj]
    x=[F(0)]*n
    for i in reversed(range(n)):
        x[i]=(A[i][n]-sum(A[i][jj]*x[jj] for jj in range(i+1,n)))/A[i][i]
    chi2=sum(r[i]*x[i] for i in range(n))
    ld=math.log(det.numerator)-math.log(det.denominator)+n*math.log(2*math.pi)
    return float(-0.5*(float(chi2)+ld)), float(np.linalg.cond(np.array([[float(v) for v in row] for row in B])))
rows=[]
t00=time.time()
for it in range(1500):
    n = int(rng.integers(1, 13)); p = int(rng.integers(1,4))
    base = 10**rng.uniform(0, 4)
    t = 55000 + np.sort(rng.uniform(0, base, n))
    scat = 10**rng.uniform(-1, 2); errs = scat*10**rng.uniform(-3, 1)*rng.uniform(0.5,1.5,n)
    y = rng.normal(0, scat, n)
    data = tj.RVData(t, y*u.km/u.s, errs*u.km/u.s)
    prior = get_prior(p)
    j = TheJoker(prior)
    P = 10**rng.uniform(0, 3.5); e = rng.uniform(0, 0.95); om, M0 = rng.uniform(0, 2*np.pi, 2)
    s_ = tj.JokerSamples(poly_trend=p); s_['P']=[P]*u.day; s_['e']=[e]*u.one; s_['omega']=[om]*u.rad; s_['M0']=[M0]*u.rad; s_['s']=[0.]*u.km/u.s
    ll = j.marginal_ln_likelihood(data, s_, in_memory=True)[0]
    varK = min(30.**2*(P/365.25)**(-2/3)/(1-e**2), 500.**2)
    lam = [varK, 100.**2, 1., 1e-4][:1+p]
    ref, cond = closed_mp(data._t_bmjd, data._t_ref_bmjd, data.rv.value, data.rv_err.value, (P,e,om,M0,0.), lam, p)
    if False and abs(ll-ref)>1e-6*(1+abs(ref)) and cond<1e6: print('OUTLIER', n,p,P,e,om,M0, 't',t-55000,'y',y,'errs',errs,'ll',ll,'ref',ref, 'varK', varK)
    r_ = data.rv.value; Cd = 1/data.rv_err.value**2
    kc = np.array(cy_rv_from_elements(np.ascontiguousarray(data._t_bmjd), P, 1., e, om, M0, data._t_ref_bmjd, 1e-10, 128))
    Mx = np.stack([kc]+[(data._t_bmjd-data._t_ref_bmjd)**i for i in range(p)],axis=1)
    Ainv_ = np.diag(1/np.array(lam)) + Mx.T@np.diag(Cd)@Mx
    bound = 2.2e-16*np.linalg.cond(Ainv_)*np.sum(Cd*r_**2)
    rows.append((n,p,e,np.log10(cond),abs(ll-ref)/(1+abs(ref)), ll, abs(ll-ref), bound))
rows=np.array(rows)
print("time", time.time()-t00)
rel=rows[:,4]
for lo,hi in [(0,4),(4,8),(8,12),(12,16),(16,30)]:
    m=(rows[:,3]>=lo)&(rows[:,3]<hi)
    if m.sum(): print(f"log10cond [{lo},{hi}) n={m.sum()} max rel err {rel[m].max():.2e} median {np.median(rel[m]):.2e}")
print("nonfinite", np.sum(~np.isfinite(rows[:,5])))
ratio = rows[:,6]/(rows[:,7]+1e-13*(1+np.abs(rows[:,5])))
print("max ratio err/(bound+1e-13(1+|ll|))", ratio.max(), "median", np.median(ratio)); i=np.argmax(ratio); print("worst", rows[i])
print("fraction of cases with bound<1e-9:", np.mean(rows[:,7]<1e-9), " <1e-6:", np.mean(rows[:,7]<1e-6))
