import warnings; warnings.filterwarnings("ignore")
import numpy as np, astropy.units as u, tempfile, os, time
import thejoker as tj
from thejoker.thejoker import TheJoker
from astropy.time import Time
import pymc as pm, thejoker.units as xu
rng = np.random.default_rng(1)
n=6
t = 55000 + np.sort(rng.uniform(0, 300, n))
rv = rng.normal(0, 10, n) * u.km/u.s
err = rng.uniform(0.5, 1, n) * u.km/u.s
data = tj.RVData(t, rv, err)
def mk(P,e,om,M0,s):
    s_ = tj.JokerSamples()
    s_['P']=[P]*u.day; s_['e']=[e]*u.one; s_['omega']=[om]*u.rad; s_['M0']=[M0]*u.rad; s_['s']=[s]*u.km/u.s
    return s_
class RecGen(np.random.Generator):
    def __init__(self, seed):
        super().__init__(np.random.PCG64(seed)); self.log=[]
    def uniform(self, *a, **k):
        r = super().uniform(*a, **k); self.log.append(("uniform", np.array(r))); return r
    def multivariate_normal(self, mean, cov, *a, **k):
        r = super().multivariate_normal(mean, cov, *a, **k); self.log.append(("mvn", np.array(mean), np.array(cov), np.array(r))); return r
    def choice(self, *a, **k):
        r = super().choice(*a, **k); self.log.append(("choice", np.array(r))); return r
# (j) cap: sigma_K0 huge so cap binds
prior = tj.JokerPrior.default(P_min=2*u.day, P_max=256*u.day, sigma_K0=3000*u.km/u.s, sigma_v=100*u.km/u.s)
g = RecGen(7)
t0=time.time()
j = TheJoker(prior, rng=g)
s = j.rejection_sample(data, mk(30.,0.3,1.,2.,0.), in_memory=True, n_linear_samples=3)
print("time", time.time()-t0)
for e in g.log:
    print(e[0], [x.shape for x in e[1:]])
mvn = [e for e in g.log if e[0]=="mvn"][0]
print("A=", mvn[2]); 
# compute expected A with cap
from twobody.wrap import cy_rv_from_elements
kcol = np.array(cy_rv_from_elements(np.ascontiguousarray(data._t_bmjd), 30., 1., .3, 1., 2., data._t_ref_bmjd, 1e-10, 128))
M = np.stack([kcol, np.ones(n)],axis=1)
ivar = 1/err.value**2
for varK,nm in [(min(3000.**2*(30/365.25)**(-2/3)/(1-.09), 500.**2),"capped"),(3000.**2*(30/365.25)**(-2/3)/(1-.09),"uncapped")]:
    Ainv = np.diag([1/varK, 1/100.**2]) + M.T@np.diag(ivar)@M
    print(nm, np.linalg.inv(Ainv))
print(s.tbl)
# (b) custom K + offsets
with pm.Model() as model:
    K = xu.with_unit(pm.Normal("K", 0., 20.), u.km/u.s)
    dv = xu.with_unit(pm.Normal("dv0_1", 0., 5.), u.km/u.s)
    pr2 = tj.JokerPrior.default(P_min=2*u.day, P_max=256*u.day, sigma_v=100*u.km/u.s, v0_offsets=[dv], pars={"K":K})
d1 = data[:3]; d2 = data[3:]
j2 = TheJoker(pr2)
print("custom K + offsets:", j2.marginal_ln_likelihood([d1,d2], mk(30.,0.3,1.,2.,0.), in_memory=True))
h = j2._make_joker_helper([d1,d2])
