import warnings; warnings.filterwarnings("ignore")
import numpy as np, astropy.units as u
import thejoker as tj
from thejoker.thejoker import TheJoker
from astropy.time import Time
import pymc as pm, thejoker.units as xu
rng = np.random.default_rng(1)
n=6
t = 55000 + np.sort(rng.uniform(0, 300, n))
rv = rng.normal(0, 10, n) * u.km/u.s
err = rng.uniform(0.5, 1, n) * u.km/u.s
data = tj.RVData(t, rv, err)
prior = tj.JokerPrior.default(P_min=2*u.day, P_max=256*u.day, sigma_K0=30*u.km/u.s, sigma_v=100*u.km/u.s)
joker = TheJoker(prior, rng=rng)
def mk(P,e,om,M0,s):
    s_ = tj.JokerSamples()
    s_['P']=[P]*u.day; s_['e']=[e]*u.one; s_['omega']=[om]*u.rad; s_['M0']=[M0]*u.rad; s_['s']=[s]*u.km/u.s
    return s_
from twobody.wrap import cy_rv_from_elements
def closed(data, P,e,om,M0,s, mu, Lam, trendM):
    tt = data._t_bmjd; t0=data._t_ref_bmjd
    kcol = cy_rv_from_elements(np.ascontiguousarray(tt), P, 1., e, om, M0, t0, 1e-10, 128)
    M = np.hstack([np.array(kcol)[:,None], trendM])
    y = data.rv.value; C = np.diag(data.rv_err.value**2 + s**2)
    B = C + M@np.diag(Lam)@M.T
    r = y - M@mu
    sign, ld = np.linalg.slogdet(2*np.pi*B)
    return -0.5*(r@np.linalg.solve(B,r) + ld)
from thejoker.likelihood_helpers import get_trend_design_matrix
trendM = get_trend_design_matrix(data, None, 1)
for s in [0., 1., 5.]:
    P,e,om,M0 = 30.,0.3,1.,2.
    ll = joker.marginal_ln_likelihood(data, mk(P,e,om,M0,s), in_memory=True)[0]
    varK = min(30.**2*(P/365.25)**(-2/3)/(1-e**2), 500.**2)
    ref = closed(data,P,e,om,M0,s,np.zeros(2),np.array([varK,100.**2]),trendM)
    print("s",s,"impl",ll,"closed",ref)
