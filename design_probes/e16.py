import warnings; warnings.filterwarnings("ignore")
import numpy as np, astropy.units as u, time
import thejoker as tj, pymc as pm, pytensor, pytensor.tensor as pt
from thejoker.thejoker import TheJoker
from twobody.wrap import cy_rv_from_elements
from scipy.stats import norm, beta
rng = np.random.default_rng(1)
n=6
t = 55000 + np.sort(rng.uniform(0, 300, n))
data = tj.RVData(t, rng.normal(0, 10, n) * u.km/u.s, rng.uniform(0.5, 1, n) * u.km/u.s)
with pm.Model() as model:
    import thejoker.units as xu
    s = xu.with_unit(pm.Lognormal("s", 0., 0.5), u.km/u.s)
    prior = tj.JokerPrior.default(P_min=2*u.day, P_max=256*u.day, sigma_K0=30*u.km/u.s, sigma_v=100*u.km/u.s, s=s)
    j = TheJoker(prior, rng=np.random.default_rng(3))
    smp = prior.sample(size=3, rng=np.random.default_rng(2), generate_linear=True)
    init = j.setup_mcmc(data, smp)
print(init)
m = prior.model
vals = dict(P=31.7, e=0.31, omega=1.1, M0=2.2, s=1.4, K=7.5, v0=-3.2)
rvs = {k: m[k] for k in vals}
t0=time.time()
f = pytensor.function([], [m['model_rv'], m['ln_likelihood']], givens={rvs[k]: pt.constant(np.float64(v)) for k,v in vals.items()}, on_unused_input='ignore')
rv_m, lnl = f(); print("compile+eval", time.time()-t0)
kcol = np.array(cy_rv_from_elements(data._t_bmjd.copy(), vals['P'], 1., vals['e'], vals['omega'], vals['M0'], data._t_ref_bmjd, 1e-10, 128))
rv_s = vals['K']*kcol + vals['v0']
print("model_rv vs sampler rv max diff", np.max(np.abs(rv_m-rv_s)))
y=data.rv.value; err=data.rv_err.value
print("ln_likelihood det", lnl, "with jitter", norm(rv_s, np.sqrt(err**2+vals['s']**2)).logpdf(y).sum(), "without", norm(rv_s, err).logpdf(y).sum())
# logp without jacobian at the point
lp = m.logp(jacobian=False, sum=True)
vv = m.value_vars; print([v.name for v in vv])
# transformed point
from pymc.model.transform.conditioning import remove_value_transforms
m2 = remove_value_transforms(m)
t0=time.time()
f2 = m2.compile_fn(m2.logp(sum=True), point_fn=True)
print("untransformed value vars:", [v.name for v in m2.value_vars], time.time()-t0)
pt_ = {v.name: np.float64(vals.get(v.name, 0.3)) for v in m2.value_vars}
print(pt_)
try:
    print("logp", f2(pt_))
except Exception as ex: print("EXC", type(ex).__name__, str(ex)[:200])
