import Mathlib.Analysis.SpecialFunctions.Log.Deriv
import Mathlib.Analysis.SpecialFunctions.Trigonometric.Basic
import Mathlib.Analysis.SpecialFunctions.Pow.Real

open Real

/-- C09: the sampler inverts the CDF F(x) = (ln x - ln a)/(ln b - ln a) -/
theorem logUniform_cdf_inverse (a b u : ℝ) (ha : 0 < a) (hab : a < b) :
    (Real.log (Real.exp (u * (Real.log b - Real.log a) + Real.log a)) - Real.log a) / (Real.log b - Real.log a) = u := by
  have h : Real.log b - Real.log a ≠ 0 := by
    have := Real.log_lt_log ha hab; linarith
  rw [Real.log_exp]; field_simp; ring

/-- C09: the declared log-density is the log of the derivative of that CDF -/
theorem logUniform_density (a b x : ℝ) (ha : 0 < a) (hab : a < b) (hx : 0 < x) :
    HasDerivAt (fun x => (Real.log x - Real.log a) / (Real.log b - Real.log a))
      (Real.exp (-Real.log x - Real.log (Real.log b - Real.log a))) x := by
  have hpos : 0 < Real.log b - Real.log a := by
    have := Real.log_lt_log ha hab; linarith
  have h1 := ((Real.hasDerivAt_log hx.ne').sub_const (Real.log a)).div_const (Real.log b - Real.log a)
  have e : Real.exp (-Real.log x - Real.log (Real.log b - Real.log a)) = x⁻¹ / (Real.log b - Real.log a) := by
    rw [sub_eq_add_neg, Real.exp_add, Real.exp_neg, Real.exp_neg, Real.exp_log hx, Real.exp_log hpos]
    rfl
  rw [e]; exact h1

/-- C17: flipping the sign of K and moving omega by π leaves the curve unchanged -/
theorem wrapK_same_curve (K e ω f : ℝ) :
    (-K) * (Real.cos ((ω + π) + f) + e * Real.cos (ω + π)) = K * (Real.cos (ω + f) + e * Real.cos ω) := by
  have h1 : Real.cos (ω + π + f) = - Real.cos (ω + f) := by
    rw [show ω + π + f = (ω + f) + π by ring, Real.cos_add_pi]
  rw [h1, Real.cos_add_pi]; ring

/-- C17: reduction modulo 2π does not change the curve either -/
theorem curve_mod_two_pi (K e ω f : ℝ) (m : ℤ) :
    K * (Real.cos ((ω - m * (2 * π)) + f) + e * Real.cos (ω - m * (2 * π))) = K * (Real.cos (ω + f) + e * Real.cos ω) := by
  have h1 : Real.cos (ω - m * (2 * π) + f) = Real.cos (ω + f) := by
    rw [show ω - m * (2 * π) + f = (ω + f) - m * (2 * π) by ring, Real.cos_sub_int_mul_two_pi]
  rw [h1, Real.cos_sub_int_mul_two_pi]

/-- C17: the time returned for phase φ has mean anomaly φ -/
theorem time_with_phase_has_phase (P M0 φ tref : ℝ) (hP : P ≠ 0) :
    2 * π * ((tref + P * M0 / (2 * π) + P * φ / (2 * π)) - tref) / P - M0 = φ := by
  have := Real.pi_ne_zero
  field_simp; ring

/-- C11: the MCMC model's phase convention equals the sampler's -/
theorem mcmc_phase_eq (P M0 x : ℝ) (hP : P ≠ 0) :
    (x - P * M0 / (2 * π)) * (2 * π / P) = 2 * π * x / P - M0 := by
  have := Real.pi_ne_zero
  field_simp

/-- C01/C09: kernel variance rule is the square of the declared sigma (uncapped branch) -/
theorem lambdaK_eq_sigma_sq (s0 P P0 e : ℝ) (hP : 0 < P) (hP0 : 0 < P0) (he : e ^ 2 < 1) :
    s0 ^ 2 / (1 - e ^ 2) * (P / P0) ^ (-(2:ℝ) / 3) = (s0 * (P / P0) ^ (-(1:ℝ) / 3) / Real.sqrt (1 - e ^ 2)) ^ 2 := by
  have hq : 0 < P / P0 := div_pos hP hP0
  have h1 : 0 < 1 - e ^ 2 := by linarith
  rw [div_pow, mul_pow, Real.sq_sqrt h1.le, ← Real.rpow_natCast ((P / P0) ^ (-(1:ℝ) / 3)) 2, ← Real.rpow_mul hq.le]
  norm_num
  ring

#print axioms logUniform_density
#print axioms lambdaK_eq_sigma_sq
