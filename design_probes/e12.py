import warnings; warnings.filterwarnings("ignore")
import numpy as np, astropy.units as u, tempfile, os
import thejoker as tj
from astropy.time import Time
from thejoker.utils import read_batch, batch_tasks
rng=np.random.default_rng(0)
n=7
tref=Time(55123.5, format='mjd', scale='tcb')
s = tj.JokerSamples(t_ref=tref, poly_trend=2, n_offsets=1)
s['P']=rng.uniform(1,100,n)*u.day; s['e']=rng.uniform(0,.9,n)*u.one; s['omega']=rng.uniform(-7,7,n)*u.rad; s['M0']=rng.uniform(0,6,n)*u.rad
s['s']=np.zeros(n)*u.m/u.s; s['K']=rng.normal(0,5,n)*u.km/u.s; s['v0']=rng.normal(0,5,n)*u.km/u.s; s['v1']=rng.normal(0,.01,n)*u.km/u.s/u.day; s['dv0_1']=rng.normal(0,1,n)*u.km/u.s
tt = Time(55123.5+np.linspace(0,50,9), format='mjd', scale='tcb')
rv0=[s.get_orbit(i).radial_velocity(tt).to_value(u.km/u.s) for i in range(n)]
K0=s['K'].copy(); om0=s['omega'].copy()
w=s.copy().wrap_K()
rv1=[w.get_orbit(i).radial_velocity(tt).to_value(u.km/u.s) for i in range(n)]
print("wrapK: K>=0", np.all(w['K']>=0), "curves same", np.max(np.abs(np.array(rv0)-np.array(rv1))), "omega unchanged where K>=0", np.array_equal(w['omega'][K0>=0], om0[K0>=0]))
print("copy meta", w.t_ref==tref, w.poly_trend, w.n_offsets)
for key in [2, slice(1,4), np.array([True,False]*3+[True]), np.array([3,1])]:
    x=s[key]; print(type(key).__name__, len(x), x.t_ref==tref, x.poly_trend, x.n_offsets, x['P'].unit, x['s'].unit)
m=s.mean(); print("mean meta", m.t_ref==tref, m.poly_trend, m.n_offsets, len(m)); sd=s.std(); print("std", sd.t_ref==tref, sd.poly_trend)
mp_=s.median_period(); print("median member", mp_['P'][0] in s['P'], np.sort(s['P'].value)[n//2]==mp_['P'][0].value, mp_.t_ref==tref)
t0=s.get_t0(); 
M = 2*np.pi*((t0 - tref).to_value(u.day))/s['P'].value - s['M0'].value
print("t0 phase ~0:", np.max(np.abs(np.angle(np.exp(1j*M)))))
tp=s.get_time_with_phase(1.3*u.rad); M = 2*np.pi*((tp - tref).to_value(u.day))/s['P'].value - s['M0'].value
print("phase 1.3:", np.max(np.abs(np.angle(np.exp(1j*(M-1.3))))))
packed, units = s.pack(nonlinear_only=False); un = tj.JokerSamples.unpack(packed, units, t_ref=tref, poly_trend=2, n_offsets=1)
print("pack/unpack names", un.par_names==s.par_names, all(un[k].unit==s[k].unit for k in s.par_names), max(np.max(np.abs((un[k]-s[k]).value)) for k in s.par_names))
p2,u2 = s.pack(units={'P':u.yr,'s':u.km/u.s}); print(u2, p2[0])
# read_batch
d=tempfile.mkdtemp(); fn=os.path.join(d,'x.hdf5'); s.write(fn)
cols=['P','e','omega','M0','s']
b=read_batch(fn, cols, (2,5), units={'P':u.day,'s':u.km/u.s}); print("slice", np.array_equal(b[:,0], s['P'].value[2:5]))
idx=np.array([5,0,3,3]); b=read_batch(fn, cols, idx, units={'omega':u.deg}); print("idx", np.allclose(b[:,2], s['omega'].to_value(u.deg)[idx]), np.array_equal(b[:,0], s['P'].value[idx]))
b=read_batch(fn, cols, 4, rng=np.random.default_rng(1)); print("random", b.shape, len(set(b[:,0]))==4, set(b[:,0])<=set(s['P'].value))
b=read_batch(fn, cols, slice(1,7,2)); print("step slice", np.array_equal(b[:,0], s['P'].value[1:7:2]))
print(batch_tasks(10, 3, start_idx=2), batch_tasks(10,3,arr=np.arange(10)*10)[1])
