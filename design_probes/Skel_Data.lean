import Mathlib.Data.List.Basic
import Mathlib.Data.List.Perm.Basic
import Mathlib.Data.List.Induction

/-! C15 / C08 prototype: parallel arrays under a common mask and a common permutation keep their pairing. -/
namespace DataModel
variable {β γ : Type}

/-- `arr[idx]` for an index array -/
def gather (idx : List Nat) (xs : List β) : List β := idx.filterMap (fun i => xs[i]?)

/-- `arr[mask]` for a boolean mask -/
def maskSel : List Bool → List β → List β
  | true :: ks, x :: xs => x :: maskSel ks xs
  | false :: ks, _ :: xs => maskSel ks xs
  | _, _ => []

theorem maskSel_zip : ∀ (keep : List Bool) (xs : List β) (ys : List γ),
    maskSel keep (xs.zip ys) = (maskSel keep xs).zip (maskSel keep ys)
  | [], xs, ys => by cases xs <;> cases ys <;> simp [maskSel]
  | k :: ks, [], ys => by cases k <;> simp [maskSel]
  | k :: ks, x :: xs, [] => by
      cases k
      · simp [maskSel]
      · simp [maskSel]
  | k :: ks, x :: xs, y :: ys => by
      cases k <;> simp [maskSel, maskSel_zip ks xs ys]

theorem gather_zip (idx : List Nat) (xs : List β) (ys : List γ) (h : xs.length = ys.length) :
    gather idx (xs.zip ys) = (gather idx xs).zip (gather idx ys) := by
  induction idx with
  | nil => simp [gather]
  | cons i idx ih =>
    simp only [gather, List.filterMap_cons] at ih ⊢
    by_cases hi : i < xs.length
    · have hi' : i < ys.length := h ▸ hi
      have hz : i < (xs.zip ys).length := by rw [List.length_zip]; omega
      simp [List.getElem?_eq_getElem hi, List.getElem?_eq_getElem hi', List.getElem?_eq_getElem hz, ih]
    · have hi' : ¬ i < ys.length := h ▸ hi
      have hz : ¬ i < (xs.zip ys).length := by simp [List.length_zip]; omega
      simp [List.getElem?_eq_none (Nat.le_of_not_lt hi), List.getElem?_eq_none (Nat.le_of_not_lt hi'),
        List.getElem?_eq_none (Nat.le_of_not_lt hz), ih]

theorem maskSel_length_eq (keep : List Bool) : ∀ (xs : List β) (ys : List γ), xs.length = ys.length →
    (maskSel keep xs).length = (maskSel keep ys).length := by
  induction keep with
  | nil => intro xs ys _; cases xs <;> cases ys <;> simp [maskSel]
  | cons k ks ih =>
    intro xs ys h
    cases xs with
    | nil => cases ys with
      | nil => cases k <;> simp [maskSel]
      | cons y ys => simp at h
    | cons x xs => cases ys with
      | nil => simp at h
      | cons y ys =>
        have := ih xs ys (by simpa using h)
        cases k <;> simp [maskSel, this]

/-- RVData.__init__ on parallel arrays: common mask, then common argsort permutation -/
def rvdataArrays (ts rvs errs : List β) (keep : List Bool) (perm : List Nat) : List β × List β × List β :=
  (gather perm (maskSel keep ts), gather perm (maskSel keep rvs), gather perm (maskSel keep errs))

/-- the same operation on whole observations -/
def rvdataRecs (obs : List (β × β × β)) (keep : List Bool) (perm : List Nat) : List (β × β × β) :=
  gather perm (maskSel keep obs)

/-- C15: each time stays paired with its own velocity and uncertainty, for ANY mask and ANY index array -/
theorem pairing_preserved (ts rvs errs : List β) (keep : List Bool) (perm : List Nat)
    (h1 : ts.length = rvs.length) (h2 : rvs.length = errs.length) :
    let out := rvdataArrays ts rvs errs keep perm
    out.1.zip (out.2.1.zip out.2.2) = rvdataRecs (ts.zip (rvs.zip errs)) keep perm := by
  simp only [rvdataArrays, rvdataRecs]
  rw [maskSel_zip, maskSel_zip, gather_zip, gather_zip]
  · exact maskSel_length_eq keep rvs errs h2
  · rw [List.length_zip, ← maskSel_length_eq keep rvs errs h2, Nat.min_self]
    exact maskSel_length_eq keep ts rvs h1

theorem gather_range (xs : List β) : gather (List.range xs.length) xs = xs := by
  induction xs using List.reverseRec with
  | nil => simp [gather]
  | append_singleton xs x ih =>
    simp only [gather, List.length_append, List.length_singleton, List.range_succ, List.filterMap_append] at ih ⊢
    have : List.filterMap (fun i => (xs ++ [x])[i]?) (List.range xs.length) = xs := by
      have e : List.filterMap (fun i => (xs ++ [x])[i]?) (List.range xs.length)
          = List.filterMap (fun i => xs[i]?) (List.range xs.length) := by
        apply List.filterMap_congr
        intro i hi
        have := List.mem_range.mp hi
        simp [List.getElem?_append_left this]
      rw [e]; exact ih
    rw [this]; simp

/-- C15: if the index array is a permutation of the positions (argsort's contract), the output
observations are a permutation of the kept observations: nothing lost, duplicated or invented -/
theorem gather_perm (idx : List Nat) (xs : List β) (h : idx.Perm (List.range xs.length)) :
    (gather idx xs).Perm xs := by
  have := h.filterMap (fun i => xs[i]?)
  rw [show List.filterMap (fun i => xs[i]?) (List.range xs.length) = xs from gather_range xs] at this
  exact this

#print axioms pairing_preserved
#print axioms gather_perm
end DataModel
