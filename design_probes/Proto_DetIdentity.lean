import Mathlib.LinearAlgebra.Matrix.NonsingularInverse
import Mathlib.LinearAlgebra.Matrix.SchurComplement

open Matrix

variable {α : Type} [Field α] {n k : ℕ}

/-- determinant identity: det B = det C⁻¹ · det Λ · det A⁻¹ (code's shapes; c = inverse variances) -/
theorem det_identity (M : Matrix (Fin n) (Fin k) α) (c : Fin n → α) (lam : Fin k → α)
    (hc : ∀ i, c i ≠ 0) (hl : ∀ j, lam j ≠ 0) :
    (diagonal (fun i => (c i)⁻¹) + M * diagonal lam * Mᵀ).det
      = (∏ i, (c i)⁻¹) * (∏ j, lam j) * (diagonal (fun j => (lam j)⁻¹) + Mᵀ * diagonal c * M).det := by
  set Ci := diagonal (fun i => (c i)⁻¹) with hCi
  set C := diagonal c with hC
  set L := diagonal lam with hL
  set Li := diagonal (fun j => (lam j)⁻¹) with hLi
  have hCiu : IsUnit Ci.det := by
    rw [hCi, det_diagonal]; exact isUnit_iff_ne_zero.mpr (Finset.prod_ne_zero_iff.mpr fun i _ => inv_ne_zero (hc i))
  have hCiinv : Ci⁻¹ = C := by
    apply inv_eq_right_inv
    simp [hC, hCi, diagonal_mul_diagonal, hc, ← diagonal_one]
  have h2' : Li * L = 1 := by
    simp [hL, hLi, diagonal_mul_diagonal, hl, ← diagonal_one]
  have e1 : (Ci + M * L * Mᵀ).det = Ci.det * (1 + Mᵀ * C * (M * L)).det := by
    have := det_add_mul (A := Ci) (M * L) Mᵀ hCiu
    rw [hCiinv] at this
    exact this
  have e2 : (Li + Mᵀ * C * M) * L = 1 + Mᵀ * C * (M * L) := by
    rw [Matrix.add_mul, h2']; simp only [Matrix.mul_assoc]
  have e3 : (1 + Mᵀ * C * (M * L)).det = (Li + Mᵀ * C * M).det * L.det := by
    rw [← e2, det_mul]
  rw [e1, e3, hCi, hL, det_diagonal, det_diagonal]
  ring

#print axioms det_identity
