import warnings; warnings.filterwarnings("ignore")
import numpy as np, astropy.units as u
import thejoker as tj
from thejoker.thejoker import TheJoker
from twobody.wrap import cy_rv_from_elements
prior = tj.JokerPrior.default(P_min=1*u.day, P_max=4000*u.day, sigma_K0=30*u.km/u.s, sigma_v=100*u.km/u.s)
j = TheJoker(prior)
for (tt, yy, ee) in [([55000.], [3.], [0.5]), ([55000., 55010.], [3., -2.], [0.5, 0.7])]:
    data = tj.RVData(np.array(tt), np.array(yy)*u.km/u.s, np.array(ee)*u.km/u.s)
    for (P,e,om,M0) in [(30.,0.5,1.,2.),(30.,0.0,1.,2.),(300.,0.7,4.,5.)]:
        s_ = tj.JokerSamples(); s_['P']=[P]*u.day; s_['e']=[e]*u.one; s_['omega']=[om]*u.rad; s_['M0']=[M0]*u.rad; s_['s']=[0.]*u.km/u.s
        h = j._make_joker_helper(data)
        ll = np.array(h.batch_marginal_ln_likelihood(np.array([[P,e,om,M0,0.]])))[0]
        kcol = np.array(cy_rv_from_elements(data._t_bmjd.copy(), P, 1., e, om, M0, data._t_ref_bmjd, 1e-10, 128))
        n=len(tt); M = np.stack([kcol, np.ones(n)],axis=1)
        varK = min(30.**2*(P/365.25)**(-2/3)/(1-e**2), 500.**2)
        B = np.diag(np.array(ee)**2) + M@np.diag([varK,1e4])@M.T
        r=np.array(yy); ref=-0.5*(r@np.linalg.solve(B,r)+np.linalg.slogdet(2*np.pi*B)[1])
        print(n, (P,e), "impl", ll, "ref", ref, "diff", ll-ref, "B impl", np.array(h.B).ravel()[:4], "B ref", B.ravel()[:4], "Binv impl", np.array(h.Binv).ravel()[:2], 1/B[0,0] if n==1 else "")
