"""Prototype: exact (Fraction) mode of the source twin, on top of pyxtrans_proto.translate."""
import ast, sys, types, math
import numpy as np
from fractions import Fraction as F
sys.path.insert(0, "/tmp/exp")
from pyxtrans_proto import translate

def toF(x):
    if isinstance(x, F): return x
    return F(float(x))

def farr(a):
    a = np.asarray(a)
    out = np.empty(a.shape, dtype=object)
    for idx in np.ndindex(a.shape): out[idx] = toF(a[idx])
    return out

class PowRewriter(ast.NodeTransformer):
    def visit_BinOp(self, node):
        self.generic_visit(node)
        if isinstance(node.op, ast.Pow):
            if isinstance(node.right, ast.Constant) and isinstance(node.right.value, int):
                return node
            return ast.copy_location(ast.Call(func=ast.Attribute(value=ast.Name(id="_rt", ctx=ast.Load()), attr="pow_", ctx=ast.Load()), args=[node.left, node.right], keywords=[]), node)
        return node

class FloatConstRewriter(ast.NodeTransformer):
    def visit_Constant(self, node):
        if isinstance(node.value, float):
            return ast.copy_location(ast.Call(func=ast.Attribute(value=ast.Name(id="_rt", ctx=ast.Load()), attr="F", ctx=ast.Load()), args=[ast.Constant(value=node.value)], keywords=[]), node)
        return node

class XRT:
    F = staticmethod(lambda x: F(x))
    from twobody.wrap import cy_rv_from_elements as _kep
    @staticmethod
    def pow_(x, y):   # oracle: evaluate in double precision, re-enter exactly
        import numbers
        if not (isinstance(x, (numbers.Real, F)) and isinstance(y, (numbers.Real, F))):
            return x ** y
        if isinstance(y, int) or (isinstance(y, F) and y.denominator == 1):
            return x ** int(y)
        return F(float(x) ** float(y))
    @staticmethod
    def _gauss_inv(A):
        n = A.shape[0]
        M = [[A[i, j] for j in range(n)] + [F(int(i == j)) for j in range(n)] for i in range(n)]
        for c in range(n):
            piv = next((r for r in range(c, n) if M[r][c] != 0), None)
            if piv is None: return None
            M[c], M[piv] = M[piv], M[c]
            pv = M[c][c]; M[c] = [v / pv for v in M[c]]
            for r in range(n):
                if r != c and M[r][c] != 0:
                    f = M[r][c]; M[r] = [a - f * b for a, b in zip(M[r], M[c])]
        return np.array([[M[i][n + j] for j in range(n)] for i in range(n)], dtype=object)
    @staticmethod
    def dgetrf(m, n, A, idx, ipiv, ipidx):
        # exact LU (no pivot growth issues): store U on/above diag so that prod(diag) = ±det
        A_ = np.asarray(A); n_ = A_.shape[0]
        XRT._pending = A_.copy()
        M = [[A_[i, j] for j in range(n_)] for i in range(n_)]
        for c in range(n_):
            piv = next((r for r in range(c, n_) if M[r][c] != 0), None)
            if piv is None: return c + 1
            if piv != c: M[c], M[piv] = M[piv], M[c]
            for r in range(c + 1, n_):
                f = M[r][c] / M[c][c]
                M[r] = [a - f * b for a, b in zip(M[r], M[c])]
        for i in range(n_):
            for j in range(n_): A_[i, j] = M[i][j]
        return 0
    @staticmethod
    def dgetri(n, A, idx, ipiv, ipidx):
        inv = XRT._gauss_inv(XRT._pending)
        if inv is None: return 1
        np.asarray(A)[...] = inv
        return 0
    @staticmethod
    def dsysv(uplo, n, A, idx, ipiv, b, bidx):
        inv = XRT._gauss_inv(np.asarray(A).copy())
        if inv is None: return 1
        bb = np.asarray(b); x = inv.dot(bb); bb[...] = x
        return 0
    @staticmethod
    def c_rv_from_elements(t, tidx, rv, rvidx, N, P, K, e, om, M0, t0, tol, maxiter):
        tt = np.array([float(v) for v in np.asarray(t).reshape(-1)])
        vals = np.array(XRT._kep(np.ascontiguousarray(tt[:N]), float(P), float(K), float(e), float(om), float(M0), float(t0), tol, maxiter))
        rvv = np.asarray(rv); roff = int(np.ravel_multi_index(tuple(rvidx), rvv.shape))
        flat = rvv.reshape(-1)
        for i in range(N): flat[roff + i] = F(float(vals[i]))

def _log(x):
    x = toF(x)
    if x <= 0: return float("-inf") if x == 0 else float("nan")
    return math.log(x.numerator) - math.log(x.denominator)

def load_exact(path):
    py = translate(open(path).read())
    tree = FloatConstRewriter().visit(PowRewriter().visit(ast.parse(py))); ast.fix_missing_locations(tree)
    mod = types.ModuleType("thejoker.src.fast_likelihood"); mod.__package__ = "thejoker.src"
    mod.__dict__.update(_rt=XRT, pow=XRT.pow_, log=_log, fabs=abs, pi=F(math.pi))
    exec(compile(tree, path + "<twin-exact>", "exec"), mod.__dict__)
    cls = mod.CJokerHelper
    orig_init = cls.__init__
    def init(self, *a, **k):
        orig_init(self, *a, **k)
        for name, v in list(vars(self).items()):
            if isinstance(v, np.ndarray) and v.dtype.kind == "f":
                setattr(self, name, farr(v))
        for name in ("t0", "sigma_K0", "P0", "max_K"):
            if hasattr(self, name): setattr(self, name, toF(getattr(self, name)))
    cls.__init__ = init
    return mod

if __name__ == "__main__":
    import warnings; warnings.filterwarnings("ignore")
    import astropy.units as u, thejoker as tj, time
    from thejoker.data_helpers import validate_prepare_data
    mod = load_exact("/repo/thejoker/src/fast_likelihood.pyx")
    rng = np.random.default_rng(1); n = 6
    t = 55000 + np.sort(rng.uniform(0, 300, n))
    data = tj.RVData(t, rng.normal(0, 10, n) * u.km/u.s, rng.uniform(0.5, 1, n) * u.km/u.s)
    prior = tj.JokerPrior.default(P_min=2*u.day, P_max=256*u.day, sigma_K0=30*u.km/u.s, sigma_v=[100*u.km/u.s, 1*u.km/u.s/u.day], poly_trend=2)
    d, ids, tm = validate_prepare_data(data, 2, 0)
    h = mod.CJokerHelper(d, prior, tm)
    chunk = farr(np.array([[30., 0.3, 1., 2., 0.7]]))
    t0 = time.time(); ll = h.batch_marginal_ln_likelihood(chunk); print("exact twin ll", ll, time.time() - t0)
    # independent exact closed form (dense) -- with the code's (buggy) ivar usage jitter is ignored, so compare at s as the code sees it
    from twobody.wrap import cy_rv_from_elements
    kc = np.array(cy_rv_from_elements(np.ascontiguousarray(d._t_bmjd), 30., 1., .3, 1., 2., d._t_ref_bmjd, 1e-10, 128))
    dt = d._t_bmjd - d._t_ref_bmjd
    M = farr(np.stack([kc, np.ones(n), dt], axis=1))
    lamK = min(toF(500.)**2, toF(30.)**2 / (1 - toF(.3)**2) * F(float(toF(30.) / toF(365.25)) ** (-2/3.)))
    lam = [lamK, toF(100.)**2, toF(1.)**2]
    y = farr(d.rv.value); var = [1/toF(v) for v in d.ivar.value]
    B = np.array([[(var[i] if i == j else 0) + sum(M[i, a] * lam[a] * M[j, a] for a in range(3)) for j in range(n)] for i in range(n)], dtype=object)
    Bi = XRT._gauss_inv(B); chi2 = y.dot(Bi.dot(y))
    print("B equal exactly:", all(B[i, j] == h.B[i, j] for i in range(n) for j in range(n)))
    print("Binv equal exactly:", all(Bi[i, j] == h.Binv[i, j] for i in range(n) for j in range(n)))
    r = np.array([h.b[i] - h.rv[i] for i in range(n)], dtype=object)
    print("chi2 exact equal:", r.dot(np.asarray(h.Binv).dot(r)) == chi2, float(chi2))
    print("diag diff", [float(B[i,i]-h.B[i,i]) for i in range(n)])
    print("offdiag diff", float(B[0,1]-h.B[0,1]))
    print("Lambda twin", [float(v) for v in h.Lambda], "ref", [float(v) for v in lam])
    print("Lambda exact eq", [h.Lambda[i]==lam[i] for i in range(3)])
    print("M_T row0 eq", all(h.M_T[0,i]==M[i,0] for i in range(n)), "row2 eq", all(h.M_T[2,i]==M[i,2] for i in range(n)))
    print("ivar eq", all(1/h.ivar[i]==var[i] for i in range(n)))
    dd = B[0,0]-h.B[0,0]; print("exact diff B00:", dd if dd==0 else (float(dd), dd.denominator.bit_length()))
    print(type(h.B[0,0]), type(B[0,0]))
    print("M_T row1 eq", all(h.M_T[1,i]==M[i,1] for i in range(n)), [str(h.M_T[1,i]) for i in range(2)])
    t1 = sum(h.M_T[a,0]*h.Lambda[a]*h.M_T[a,0] for a in range(3)) + 1/h.ivar[0]
    print("recomputed from twin buffers == twin B00:", t1==h.B[0,0], " == ref:", t1==B[0,0])
    bad = [(i,j) for i in range(n) for j in range(n) if B[i,j]!=h.B[i,j]]
    print("mismatching entries:", bad[:6], len(bad))
    if bad:
        i,j = bad[0]; print(float(B[i,j]), float(h.B[i,j]), float(B[i,j]-h.B[i,j]))
        print("twin entry recomputed:", sum(h.M_T[a,i]*h.Lambda[a]*h.M_T[a,j] for a in range(3)) == h.B[i,j])
        print("dt exact:", M[i,2], h.M_T[2,i], M[i,2]==h.M_T[2,i])
