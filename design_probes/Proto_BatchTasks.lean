/-- model of thejoker.utils.batch_tasks (index form) -/
def batchLoop (base rmdr : Nat) : (i : Nat) → (cnt : Nat) → (i1 : Nat) → List (Nat × Nat)
  | _, 0, _ => []
  | i, cnt+1, i1 =>
    let i2 := i1 + base + (if i < rmdr then 1 else 0)
    (i1, i2) :: batchLoop base rmdr (i+1) cnt i2

def batchTasks (nTasks : Nat) (nBatches : Int) (start : Nat) : List (Nat × Nat) :=
  if 0 < nBatches ∧ nBatches ≤ (nTasks : Int) then
    let nb := nBatches.toNat
    batchLoop (nTasks / nb) (nTasks % nb) 0 nb start
  else [(start, nTasks + start)]

/-- chain: consecutive, starting at `s` and ending at `e` -/
def Chain : List (Nat × Nat) → Nat → Nat → Prop
  | [], s, e => s = e
  | (a, b) :: rest, s, e => a = s ∧ Chain rest b e

theorem batchLoop_chain (base rmdr : Nat) : ∀ cnt i i1,
    Chain (batchLoop base rmdr i cnt i1) i1
      (i1 + cnt * base + (min (i + cnt) rmdr - min i rmdr)) := by
  intro cnt
  induction cnt with
  | zero => intro i i1; simp [batchLoop, Chain]
  | succ c ih =>
    intro i i1
    simp only [batchLoop, Chain, true_and]
    have := ih (i+1) (i1 + base + (if i < rmdr then 1 else 0))
    have e : i1 + (c + 1) * base + (min (i + (c + 1)) rmdr - min i rmdr)
        = (i1 + base + if i < rmdr then 1 else 0) + c * base + (min (i + 1 + c) rmdr - min (i + 1) rmdr) := by
      rw [Nat.succ_mul]
      generalize c * base = cb
      split <;> omega
    rw [e]; exact this

theorem batchLoop_nonempty (base rmdr : Nat) (hb : 0 < base) : ∀ cnt i i1,
    ∀ p ∈ batchLoop base rmdr i cnt i1, p.1 < p.2 := by
  intro cnt
  induction cnt with
  | zero => intro i i1 p hp; simp [batchLoop] at hp
  | succ c ih =>
    intro i i1 p hp
    simp only [batchLoop, List.mem_cons] at hp
    rcases hp with rfl | hp
    · simp; omega
    · exact ih _ _ p hp

theorem batchTasks_chain (nTasks : Nat) (nBatches : Int) (start : Nat) :
    Chain (batchTasks nTasks nBatches start) start (start + nTasks) := by
  unfold batchTasks
  split
  · rename_i h
    obtain ⟨h0, h1⟩ := h
    have hnb : 0 < nBatches.toNat := by omega
    have hle : nBatches.toNat ≤ nTasks := by omega
    have := batchLoop_chain (nTasks / nBatches.toNat) (nTasks % nBatches.toNat) nBatches.toNat 0 start
    have hmod : nTasks % nBatches.toNat < nBatches.toNat := Nat.mod_lt _ hnb
    have hdiv := Nat.div_add_mod nTasks nBatches.toNat
    have e : start + nTasks = start + nBatches.toNat * (nTasks / nBatches.toNat) +
      (min (0 + nBatches.toNat) (nTasks % nBatches.toNat) - min 0 (nTasks % nBatches.toNat)) := by
      generalize nBatches.toNat * (nTasks / nBatches.toNat) = q at *
      omega
    show Chain (batchLoop (nTasks / nBatches.toNat) (nTasks % nBatches.toNat) 0 nBatches.toNat start) start (start + nTasks)
    rw [e]; exact this
  · simp [Chain]; omega

theorem batchTasks_nonempty (nTasks : Nat) (nBatches : Int) (start : Nat) (hn : 1 ≤ nTasks) :
    ∀ p ∈ batchTasks nTasks nBatches start, p.1 < p.2 := by
  unfold batchTasks
  split
  · rename_i h
    obtain ⟨h0, h1⟩ := h
    have hnb : 0 < nBatches.toNat := by omega
    have hle : nBatches.toNat ≤ nTasks := by omega
    exact batchLoop_nonempty _ _ (Nat.div_pos hle hnb) _ _ _
  · intro p hp; simp at hp; subst hp; simp; omega

#print axioms batchTasks_chain
#print axioms batchTasks_nonempty
#eval batchTasks 10 3 5
#eval batchTasks 3 7 0
