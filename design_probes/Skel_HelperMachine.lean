import Mathlib.Algebra.Field.Defs

/-! Skeleton: the helper as a state machine with scratch buffers (C05).
`worker` stands for make_AAinv / make_bBBinv / likelihood_worker of `Model/Kernel.lean`;
here it is a parameter, because history independence only depends on WHICH buffers it reads. -/
namespace Hist

variable {α : Type}

/-- never written after construction -/
structure Imm (α : Type) (n k : Nat) where
  t : Vector α n
  rv : Vector α n
  ivar : Vector α n
  t0 : α
  trendRows : Vector (Vector α n) (k - 1)   -- rows 1.. of M_T
  mu : Vector α k
  lamTail : Vector α (k - 1)                 -- Lambda[1..]
  fixedK : Bool                              -- custom Normal K prior: Lambda[0] is immutable too
  lam0Fixed : α
  sigmaK0 : α
  P0 : α
  maxK : α

/-- rewritten by every step -/
structure Scratch (α : Type) (n k : Nat) where
  row0 : Vector α n        -- M_T[0, :]
  sIvar : Vector α n
  lam0 : α
  work : List α            -- A, Ainv, B, Binv, b, a, pivots … (anything)

structure Helper (α : Type) (n k : Nat) where
  imm : Imm α n k
  scr : Scratch α n k

structure Theta (α : Type) where
  P : α
  e : α
  om : α
  M0 : α
  s : α

variable {n k : Nat}

/-- external functions -/
structure Ext (α : Type) (n : Nat) where
  kepler : Vector α n → α → Theta α → Vector α n     -- c_rv_from_elements(t, t0, θ)
  lamK : α → α → α → α → α → α                       -- σ_K0 P0 maxK P e ↦ Λ_K  (pow inside)
  getIvar : α → α → α

/-- what the numeric core may read: immutable data + the three freshly written buffers -/
abbrev Worker (α : Type) (n k : Nat) := Imm α n k → Vector α n → Vector α n → α → α × List α

def stepMarg (X : Ext α n) (w : Worker α n k) (h : Helper α n k) (θ : Theta α) : Helper α n k × α :=
  let row0 := X.kepler h.imm.t h.imm.t0 θ
  let sIvar := h.imm.ivar.map (fun iv => X.getIvar iv θ.s)
  let lam0 := if h.imm.fixedK then h.imm.lam0Fixed else X.lamK h.imm.sigmaK0 h.imm.P0 h.imm.maxK θ.P θ.e
  let (ll, work) := w h.imm row0 sIvar lam0
  ({ h with scr := { row0, sIvar, lam0, work } }, ll)

def runMarg (X : Ext α n) (w : Worker α n k) (h : Helper α n k) : List (Theta α) → Helper α n k × List α
  | [] => (h, [])
  | θ :: rest =>
    let (h', ll) := stepMarg X w h θ
    let (h'', lls) := runMarg X w h' rest
    (h'', ll :: lls)

def evalFresh (X : Ext α n) (w : Worker α n k) (i : Imm α n k) (scr0 : Scratch α n k) (θ : Theta α) : α :=
  (stepMarg X w ⟨i, scr0⟩ θ).2

theorem step_out_indep_of_scratch (X : Ext α n) (w : Worker α n k) (h h' : Helper α n k) (θ : Theta α)
    (himm : h.imm = h'.imm) : (stepMarg X w h θ).2 = (stepMarg X w h' θ).2 := by
  simp [stepMarg, himm]

theorem step_preserves_imm (X : Ext α n) (w : Worker α n k) (h : Helper α n k) (θ : Theta α) :
    (stepMarg X w h θ).1.imm = h.imm := rfl

theorem history_independence (X : Ext α n) (w : Worker α n k) (scr0 : Scratch α n k) :
    ∀ (θs : List (Theta α)) (h : Helper α n k),
      (runMarg X w h θs).2 = θs.map (evalFresh X w h.imm scr0) ∧ (runMarg X w h θs).1.imm = h.imm := by
  intro θs
  induction θs with
  | nil => intro h; simp [runMarg]
  | cons θ rest ih =>
    intro h
    have := ih (stepMarg X w h θ).1
    simp only [runMarg, List.map_cons]
    refine ⟨?_, ?_⟩
    · rw [this.1]
      simp only [step_preserves_imm]
      congr 1
    · rw [this.2]; rfl

/-- batching: any split of the sample list, each part run on any helper sharing `imm` -/
theorem batching_independence (X : Ext α n) (w : Worker α n k) (scr0 : Scratch α n k) (i : Imm α n k)
    (parts : List (List (Theta α))) (helpers : List (Helper α n k))
    (hlen : helpers.length = parts.length) (himm : ∀ h ∈ helpers, h.imm = i) :
    (List.zipWith (fun h p => (runMarg X w h p).2) helpers parts).flatten
      = parts.flatten.map (evalFresh X w i scr0) := by
  sorry

#print axioms history_independence
end Hist
