import Mathlib.LinearAlgebra.Matrix.NonsingularInverse
import Mathlib.LinearAlgebra.Matrix.SchurComplement

open Matrix

structure Mat (n m : Nat) (α : Type) where
  rows : Vector (Vector α m) n

namespace Mat
variable {α : Type} {n m k : Nat}

def ofFn (f : Fin n → Fin m → α) : Mat n m α := ⟨Vector.ofFn fun i => Vector.ofFn fun j => f i j⟩
def toM (A : Mat n m α) : Matrix (Fin n) (Fin m) α := fun i j => A.rows[i][j]

@[simp] theorem toM_ofFn (f : Fin n → Fin m → α) : (ofFn f).toM = f := by
  funext i j; simp [toM, ofFn]
end Mat

variable {α : Type} [Field α]

def cinv {n : Nat} (A : Mat n n α) : Mat n n α :=
  Mat.ofFn ((A.toM.det)⁻¹ • A.toM.adjugate)

structure KIn (n k : Nat) (α : Type) where
  M : Mat n k α
  y : Fin n → α
  ivar : Fin n → α
  s : α
  mu : Fin k → α
  Lam : Fin k → α

def sIvar {n k} (x : KIn n k α) : Fin n → α := fun i => x.ivar i / (1 + x.s * x.s * x.ivar i)

def kAinv {n k} (x : KIn n k α) : Mat k k α :=
  .ofFn (diagonal (fun i => 1 / x.Lam i) + (Mat.ofFn (x.M.toMᵀ * diagonal (sIvar x))).toM * x.M.toM)

def kB {n k} (x : KIn n k α) : Mat n n α :=
  .ofFn (diagonal (fun i => 1 / sIvar x i) + (Mat.ofFn (x.M.toM * diagonal x.Lam)).toM * x.M.toMᵀ)

def kBinv {n k} (x : KIn n k α) : Mat n n α :=
  let A := cinv (kAinv x)
  let CM : Mat n k α := .ofFn (diagonal (sIvar x) * x.M.toM)
  let CMA : Mat n k α := .ofFn (CM.toM * A.toM)
  .ofFn (diagonal (sIvar x) - CMA.toM * CM.toMᵀ)

def kchi2 {n k} (x : KIn n k α) : α :=
  let b : Vector α n := Vector.ofFn (x.M.toM *ᵥ x.mu)
  let r : Fin n → α := fun i => b[i] - x.y i
  let Br : Vector α n := Vector.ofFn ((kBinv x).toM *ᵥ r)
  r ⬝ᵥ (fun i => Br[i])

def kdet {n k} (x : KIn n k α) : α := (kB x).toM.det
def kdetFast {n k} (x : KIn n k α) : α := (∏ i, 1 / sIvar x i) * (∏ j, x.Lam j) * (kAinv x).toM.det

def ex (n k : Nat) : KIn n k ℚ where
  M := .ofFn fun i j => if j.val = 0 then (((i.val * 7 + 3) % 11 : ℕ) : ℚ) / 11 - 1/2 else (i.val : ℚ) ^ (j.val - 1)
  y := fun i => (((i.val * 5 + 1) % 7 : ℕ) : ℚ) - 3
  ivar := fun i => 1 / ((i.val % 3 + 1 : ℕ) : ℚ)
  s := 1/2
  mu := fun j => (j.val : ℚ) / 10
  Lam := fun j => 100 + j.val

#eval kchi2 (ex 6 3)
#eval kdet (ex 6 3)
#eval kdetFast (ex 6 3)
#eval kchi2 (ex 12 4)
#eval kdetFast (ex 12 4)
