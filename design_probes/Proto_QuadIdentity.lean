import Mathlib.LinearAlgebra.Matrix.NonsingularInverse
import Mathlib.LinearAlgebra.Matrix.SchurComplement

open Matrix

variable {α : Type} [Field α] {n k : ℕ}

theorem dot_mulVec_symm {m : ℕ} (S : Matrix (Fin m) (Fin m) α) (hS : Sᵀ = S) (u w : Fin m → α) :
    u ⬝ᵥ (S *ᵥ w) = w ⬝ᵥ (S *ᵥ u) := by
  rw [dotProduct_mulVec, ← hS, vecMul_transpose, dotProduct_comm, hS]

theorem dot_M (M : Matrix (Fin n) (Fin k) α) (u : Fin n → α) (w : Fin k → α) :
    u ⬝ᵥ (M *ᵥ w) = w ⬝ᵥ (Mᵀ *ᵥ u) := by
  rw [dotProduct_mulVec, ← vecMul_transpose, transpose_transpose, dotProduct_comm]

/-- completion of the square, abstract form -/
theorem quad_identity
    (M : Matrix (Fin n) (Fin k) α) (C : Matrix (Fin n) (Fin n) α) (Li A : Matrix (Fin k) (Fin k) α)
    (hC : Cᵀ = C) (hLi : Liᵀ = Li)
    (hA1 : A * (Li + Mᵀ * C * M) = 1) (hA2 : (Li + Mᵀ * C * M) * A = 1)
    (y : Fin n → α) (mu x : Fin k → α) :
    let Ainv := Li + Mᵀ * C * M
    let a := A *ᵥ (Li *ᵥ mu + Mᵀ *ᵥ (C *ᵥ y))
    let Binv := C - C * M * A * Mᵀ * C
    (y - M *ᵥ x) ⬝ᵥ (C *ᵥ (y - M *ᵥ x)) + (x - mu) ⬝ᵥ (Li *ᵥ (x - mu))
      = (y - M *ᵥ mu) ⬝ᵥ (Binv *ᵥ (y - M *ᵥ mu)) + (x - a) ⬝ᵥ (Ainv *ᵥ (x - a)) := by
  intro Ainv a Binv
  set z := x - mu with hz
  set r := y - M *ᵥ mu with hr
  set g := Mᵀ *ᵥ (C *ᵥ r) with hg
  have hAinvT : Ainvᵀ = Ainv := by
    simp only [Ainv, transpose_add, transpose_mul, transpose_transpose, hC, hLi, Matrix.mul_assoc]
  have e1 : y - M *ᵥ x = r - M *ᵥ z := by
    simp only [hr, hz, mulVec_sub]; abel
  have e2 : a = mu + A *ᵥ g := by
    have : Li *ᵥ mu + Mᵀ *ᵥ (C *ᵥ y) = Ainv *ᵥ mu + g := by
      simp only [hg, hr, Ainv, mulVec_sub, add_mulVec, mulVec_mulVec, Matrix.mul_assoc]
      abel
    simp only [a]
    rw [this, mulVec_add, mulVec_mulVec, hA1, one_mulVec]
  have e3 : x - a = z - A *ᵥ g := by rw [e2, hz]; abel
  have e4 : Binv *ᵥ r = C *ᵥ r - C *ᵥ (M *ᵥ (A *ᵥ g)) := by
    simp only [Binv, sub_mulVec, hg, mulVec_mulVec, Matrix.mul_assoc]
  have h2 : ∀ w : Fin k → α, (M *ᵥ w) ⬝ᵥ (C *ᵥ r) = w ⬝ᵥ g := by
    intro w; rw [dotProduct_comm, dot_M, hg]
  have h1 : ∀ w : Fin k → α, r ⬝ᵥ (C *ᵥ (M *ᵥ w)) = w ⬝ᵥ g := by
    intro w
    rw [dot_mulVec_symm C hC r (M *ᵥ w)]
    exact h2 w
  have h3 : ∀ w : Fin k → α, (M *ᵥ w) ⬝ᵥ (C *ᵥ (M *ᵥ w)) = w ⬝ᵥ ((Mᵀ * C * M) *ᵥ w) := by
    intro w; rw [dotProduct_comm, dot_M]
    simp only [mulVec_mulVec, Matrix.mul_assoc]
  have h4 : Ainv *ᵥ (A *ᵥ g) = g := by rw [mulVec_mulVec, hA2, one_mulVec]
  have h5 : ∀ w : Fin k → α, w ⬝ᵥ (Ainv *ᵥ w) = w ⬝ᵥ (Li *ᵥ w) + w ⬝ᵥ ((Mᵀ * C * M) *ᵥ w) := by
    intro w; simp only [Ainv, add_mulVec, dotProduct_add]
  rw [e1, e3, e4]
  simp only [mulVec_sub, sub_dotProduct, dotProduct_sub, h1, h2, h3, h4]
  rw [dot_mulVec_symm Ainv hAinvT (A *ᵥ g) z, h4, h5 z]
  rw [dotProduct_comm (A *ᵥ g) g]
  ring

#print axioms quad_identity
