import Mathlib.Order.Defs.LinearOrder
import Mathlib.Algebra.Field.Defs
import Mathlib.Algebra.Order.Ring.Defs
import Mathlib.Data.List.Basic

/-! Rejection step (C02, C06): proof-friendly formulation.
Everything is phrased over the list of evaluated samples zipped with their data, so no `getD`. -/
namespace Reject
variable {α : Type}

/-- one evaluated prior sample: library row index, ln-likelihood, its uniform draw, its stored ln_prior -/
structure Ev (α : Type) where
  row : Nat
  ll : α
  u : α
  lnPrior : α

section Generic
variable [LT α] [DecidableLT α] [Sub α] [Max α]

def maxLL : List (Ev α) → Option α
  | [] => none
  | e :: es => some (es.foldl (fun m x => max m x.ll) e.ll)

def accepted (expf : α → α) (evs : List (Ev α)) : List (Ev α) :=
  match maxLL evs with
  | none => []
  | some m => evs.filter fun e => decide (e.u < expf (e.ll - m))

def select (expf : α → α) (evs : List (Ev α)) (maxPost : Option Nat) : List (Ev α) :=
  match maxPost with
  | none => accepted expf evs
  | some k => (accepted expf evs).take k

/-- returned table: each selected sample repeated `nLinear` times; logprob columns one per selected sample -/
def outRows (expf : α → α) (evs : List (Ev α)) (maxPost : Option Nat) (nLinear : Nat) : List Nat :=
  (select expf evs maxPost).flatMap fun e => List.replicate nLinear e.row
end Generic

section Laws
variable [Field α] [LinearOrder α] [IsStrictOrderedRing α]

theorem foldl_max_ge (es : List (Ev α)) (m0 : α) : m0 ≤ es.foldl (fun m x => max m x.ll) m0 ∧
    ∀ e ∈ es, e.ll ≤ es.foldl (fun m x => max m x.ll) m0 := by
  induction es generalizing m0 with
  | nil => simp
  | cons x xs ih =>
    obtain ⟨h1, h2⟩ := ih (max m0 x.ll)
    simp only [List.foldl_cons]
    refine ⟨le_trans (le_max_left _ _) h1, ?_⟩
    intro e he
    rcases List.mem_cons.mp he with rfl | hx
    · exact le_trans (le_max_right _ _) h1
    · exact h2 e hx

theorem foldl_max_mem (es : List (Ev α)) (m0 : α) :
    es.foldl (fun m x => max m x.ll) m0 = m0 ∨ ∃ e ∈ es, es.foldl (fun m x => max m x.ll) m0 = e.ll := by
  induction es generalizing m0 with
  | nil => simp
  | cons x xs ih =>
    simp only [List.foldl_cons]
    rcases ih (max m0 x.ll) with h | ⟨e, he, h⟩
    · rcases max_choice m0 x.ll with hm | hm
      · left; rw [h, hm]
      · right; exact ⟨x, List.mem_cons_self, by rw [h, hm]⟩
    · right; exact ⟨e, List.mem_cons_of_mem _ he, h⟩

/-- the normaliser is the maximum of the evaluated likelihoods -/
theorem maxLL_spec (evs : List (Ev α)) (m : α) (h : maxLL evs = some m) :
    (∀ e ∈ evs, e.ll ≤ m) ∧ ∃ e ∈ evs, e.ll = m := by
  cases evs with
  | nil => simp [maxLL] at h
  | cons e es =>
    simp only [maxLL, Option.some.injEq] at h
    subst h
    obtain ⟨h1, h2⟩ := foldl_max_ge es e.ll
    refine ⟨?_, ?_⟩
    · intro x hx
      rcases List.mem_cons.mp hx with rfl | hx
      · exact h1
      · exact h2 x hx
    · rcases foldl_max_mem es e.ll with h | ⟨x, hx, h⟩
      · exact ⟨e, List.mem_cons_self, h.symm⟩
      · exact ⟨x, List.mem_cons_of_mem _ hx, h.symm⟩

/-- C02: kept exactly when exp(ll - max ll) exceeds the sample's own uniform draw -/
theorem accept_iff (expf : α → α) (evs : List (Ev α)) (m : α) (hm : maxLL evs = some m) (e : Ev α) :
    e ∈ accepted expf evs ↔ e ∈ evs ∧ e.u < expf (e.ll - m) := by
  simp [accepted, hm]

/-- C02: the best sample always survives -/
theorem best_always_survives (expf : α → α) (h0 : expf 0 = 1) (evs : List (Ev α))
    (hu : ∀ e ∈ evs, e.u < 1) (hne : evs ≠ []) : ∃ e ∈ accepted expf evs, ∀ x ∈ evs, x.ll ≤ e.ll := by
  cases hmx : maxLL evs with
  | none => cases evs with
    | nil => exact absurd rfl hne
    | cons e es => simp [maxLL] at hmx
  | some m =>
    obtain ⟨hle, e, he, hem⟩ := maxLL_spec evs m hmx
    refine ⟨e, (accept_iff expf evs m hmx e).mpr ⟨he, ?_⟩, fun x hx => hem ▸ hle x hx⟩
    rw [hem, sub_self, h0]; exact hu e he

/-- C02: output is a sub-sequence of the evaluated samples, in evaluation order, unmodified -/
theorem select_sublist (expf : α → α) (evs : List (Ev α)) (k : Option Nat) :
    (select expf evs k).Sublist evs := by
  have hacc : (accepted expf evs).Sublist evs := by
    unfold accepted; split
    · exact List.nil_sublist _
    · exact List.filter_sublist
  cases k with
  | none => exact hacc
  | some k => exact (List.take_sublist _ _).trans hacc

/-- C02: no library row is duplicated when the evaluated rows are distinct -/
theorem select_rows_nodup (expf : α → α) (evs : List (Ev α)) (k : Option Nat)
    (h : (evs.map (·.row)).Nodup) : ((select expf evs k).map (·.row)).Nodup :=
  ((select_sublist expf evs k).map _).nodup h

/-- C02: truncation keeps the first accepted -/
theorem truncation_first_accepted (expf : α → α) (evs : List (Ev α)) (k : Nat) :
    select expf evs (some k) = (select expf evs none).take k := rfl

/-- C06: the logprob columns are read off the very records whose rows are returned -/
theorem logprobs_attached (expf : α → α) (evs : List (Ev α)) (k : Option Nat) :
    ∀ e ∈ select expf evs k, e ∈ evs := fun e he => (select_sublist expf evs k).subset he

end Laws
#eval (select (α := Float) Float.exp [⟨7, -3.0, 0.5, 0.1⟩, ⟨8, -1.0, 0.99, 0.2⟩, ⟨9, -2.0, 0.2, 0.3⟩] none).map (·.row)
#print axioms Reject.best_always_survives
end Reject
