import Mathlib.Order.Defs.LinearOrder
import Mathlib.Algebra.Order.Ring.Defs
import Mathlib.Order.Basic
import Mathlib.Algebra.Field.Defs
import Mathlib.Algebra.Order.Ring.Defs

/-! Skeleton: rejection step (C02, C06) — models complete, theorem statements only. -/
namespace Reject

variable {α : Type}

/-- positions (in evaluation order) whose mask bit is set -/
def indicesWhere : List Bool → List Nat := fun bs =>
  (List.range bs.length).filter fun i => bs.getD i false

section Generic
variable [LT α] [DecidableLT α] [Sub α] [Max α]

def maxOf (d : α) : List α → α
  | [] => d
  | x :: xs => xs.foldl max x

/-- the acceptance mask exactly as the code computes it: `exp(ll - max ll) > u` -/
def mask (expf : α → α) (lls uu : List α) : List Bool :=
  match lls with
  | [] => []
  | l :: ls =>
    let m := maxOf l (l :: ls)
    List.zipWith (fun ll u => decide (u < expf (ll - m))) (l :: ls) uu

structure Opts where
  maxPost : Option Nat      -- max_posterior_samples
  nLinear : Nat             -- n_linear_samples

/-- `good`: accepted positions, truncated; `full`: library rows -/
def select (expf : α → α) (lls uu : List α) (idx : List Nat) (o : Opts) : List Nat × List Nat :=
  let good := indicesWhere (mask expf lls uu)
  let good := match o.maxPost with | none => good | some m => good.take m
  (good, good.map fun p => idx.getD p 0)

/-- what the caller gets: rows (by library index, each repeated nLinear times), ln_like, ln_prior -/
structure Out (α : Type) where
  rows : List Nat
  lnLike : List α
  lnPrior : List α

def output (expf : α → α) (zero : α) (lls uu : List α) (idx : List Nat) (libLnPrior : List α) (o : Opts) : Out α :=
  let (good, full) := select expf lls uu idx o
  { rows := full.flatMap (fun r => List.replicate o.nLinear r)
    lnLike := good.map fun p => lls.getD p zero
    lnPrior := full.map fun r => libLnPrior.getD r zero }
end Generic

section Laws
variable [Field α] [LinearOrder α] [IsStrictOrderedRing α]

theorem accept_iff (expf : α → α) (lls uu : List α) (h : lls.length = uu.length) (i : Nat) (hi : i < lls.length) :
    i ∈ indicesWhere (mask expf lls uu) ↔ uu.getD i 0 < expf (lls.getD i 0 - maxOf 0 lls) := by
  sorry

theorem best_always_survives (expf : α → α) (h0 : expf 0 = 1) (lls uu : List α)
    (h : lls.length = uu.length) (hu : ∀ u ∈ uu, u < 1) (i : Nat) (hi : i < lls.length)
    (hmax : lls.getD i 0 = maxOf 0 lls) : i ∈ indicesWhere (mask expf lls uu) := by
  sorry

theorem good_strictly_increasing (expf : α → α) (lls uu : List α) (idx : List Nat) (o : Opts) :
    (select expf lls uu idx o).1.Pairwise (· < ·) := by
  sorry

theorem rows_are_library_rows (expf : α → α) (lls uu : List α) (idx : List Nat) (o : Opts)
    (hidx : idx.length = lls.length) :
    ∀ r ∈ (select expf lls uu idx o).2, r ∈ idx := by
  sorry

theorem full_nodup_of_idx_nodup (expf : α → α) (lls uu : List α) (idx : List Nat) (o : Opts)
    (hidx : idx.length = lls.length) (hn : idx.Nodup) : (select expf lls uu idx o).2.Nodup := by
  sorry

theorem truncation_first_accepted (expf : α → α) (lls uu : List α) (idx : List Nat) (m n : Nat) :
    (select expf lls uu idx ⟨some m, n⟩).1 = ((select expf lls uu idx ⟨none, n⟩).1).take m := by
  sorry

/-- C06: every reported logprob belongs to the row it is reported with -/
theorem logprobs_attached (expf : α → α) (lls uu : List α) (idx : List Nat) (lp : List α) (o : Opts)
    (hidx : idx.length = lls.length) (k : Nat)
    (hk : k < (select expf lls uu idx o).1.length) :
    let sel := select expf lls uu idx o
    let out := output expf 0 lls uu idx lp o
    let pos := sel.1.getD k 0
    let row := idx.getD pos 0
    sel.2.getD k 0 = row ∧ out.lnLike.getD k 0 = lls.getD pos 0 ∧ out.lnPrior.getD k 0 = lp.getD row 0 := by
  sorry
end Laws

#eval select (α := Float) Float.exp [-3.0, -1.0, -2.0] [0.5, 0.99, 0.2] [7, 8, 9] ⟨none, 1⟩
end Reject
