import warnings; warnings.filterwarnings("ignore")
import numpy as np, astropy.units as u, tempfile, os, time, random, glob
import thejoker as tj
from thejoker.thejoker import TheJoker
import pymc as pm, thejoker.units as xu
rng = np.random.default_rng(1)
n=6
t = 55000 + np.sort(rng.uniform(0, 300, n))
rv = rng.normal(0, 10, n) * u.km/u.s
err = rng.uniform(0.5, 1, n) * u.km/u.s
data = tj.RVData(t, rv, err)
prior = tj.JokerPrior.default(P_min=2*u.day, P_max=256*u.day, sigma_K0=30*u.km/u.s, sigma_v=100*u.km/u.s)
st0 = np.random.get_state()[1][:5].copy(); pst = random.getstate()
g = np.random.default_rng(11)
a = prior.sample(size=4, rng=g); b = prior.sample(size=4, rng=g)
print("successive equal?", np.array_equal(a['P'].value, b['P'].value), a['P'].value[:2], b['P'].value[:2])
a2 = prior.sample(size=4, rng=np.random.default_rng(11))
print("reseed equal?", np.array_equal(a['P'].value, a2['P'].value))
print("global np state unchanged", np.array_equal(st0, np.random.get_state()[1][:5]), "py", pst==random.getstate())
# generate_linear logp
c = prior.sample(size=3, rng=np.random.default_rng(2), generate_linear=True, return_logprobs=True)
print(c.tbl)
from scipy.stats import norm, beta
P=c['P'].value; e=c['e'].value; K=c['K'].value; v0=c['v0'].value
sig = np.minimum(30*(P/365.25)**(-1/3)/np.sqrt(1-e**2), 500)
exp_lp = -np.log(P) - np.log(np.log(256/2)) + beta(0.867,3.03).logpdf(e) + norm(0,sig).logpdf(K) + norm(0,100).logpdf(v0)
print("ln_prior", c['ln_prior'], "expected(correct densities)", exp_lp, "diff", c['ln_prior']-exp_lp)
# (k) mcmc
t0=time.time()
j = TheJoker(prior, rng=np.random.default_rng(3))
s = c[0:1]
with prior.model:
    init = j.setup_mcmc(data, s)
print("setup_mcmc", time.time()-t0, init)
m = prior.model
import pytensor
f = m.compile_fn([m['model_rv'], m['logp'], m['ln_likelihood'], m['ln_prior']], inputs=None) if False else None
vals = {k: np.asarray(v) for k,v in init.items()}
t0=time.time()
print(m.named_vars.keys())
fn = m.compile_fn([m['model_rv'], m['ln_likelihood']], point_fn=True)
ip = m.initial_point(); print(ip.keys())
print("compile", time.time()-t0)
