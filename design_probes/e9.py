import warnings; warnings.filterwarnings("ignore")
import numpy as np, astropy.units as u, tempfile, os, hashlib
import thejoker as tj
from astropy.time import Time
def sha(fn): return hashlib.sha256(open(fn,'rb').read()).hexdigest()[:12]
d = tempfile.mkdtemp()
def mk(n, extra=False, Punit=u.day, tref=None, K=False):
    s = tj.JokerSamples(t_ref=tref)
    s['P'] = (np.arange(1,n+1)*1.0*u.day).to(Punit); s['e']=np.linspace(0,.5,n)*u.one
    s['omega']=np.zeros(n)*u.rad; s['M0']=np.zeros(n)*u.rad; s['s']=np.zeros(n)*u.km/u.s
    if extra: s['ln_prior']=np.arange(n)*1.0
    if K: s['K']=np.ones(n)*u.km/u.s
    return s
fn = os.path.join(d,'a.hdf5')
mk(5).write(fn); h0=sha(fn)
for label, s2 in [("extra col", mk(3, extra=True)), ("diff unit", mk(3, Punit=u.yr)), ("diff tref", mk(3, tref=Time(55000., format='mjd', scale='tcb'))), ("fewer?K", mk(3,K=True))]:
    try:
        s2.write(fn, append=True); print(label, "append OK", len(tj.JokerSamples.read(fn)), "changed", sha(fn)!=h0)
    except Exception as ex:
        print(label, "EXC", type(ex).__name__, str(ex)[:80], "| file changed:", sha(fn)!=h0)
        try: print("   readable rows:", len(tj.JokerSamples.read(fn)))
        except Exception as e2: print("   unreadable", e2)
    mk(5).write(fn, overwrite=True); h0=sha(fn)
# round trip with t_ref
s = mk(4, extra=True, tref=Time(55123.456, format='mjd', scale='tcb'))
fn2=os.path.join(d,'b.hdf5'); s.write(fn2); r=tj.JokerSamples.read(fn2)
print(r.t_ref, r.t_ref==s.t_ref, r.tbl.colnames, [r[c].unit for c in r.tbl.colnames if hasattr(r[c],'unit')])
fn3=os.path.join(d,'b.fits'); s.write(fn3); r=tj.JokerSamples.read(fn3); print("fits", r.t_ref, r.poly_trend, r.tbl.colnames, r.tbl.meta)
