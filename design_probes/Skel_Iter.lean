/-! Iterative rejection sampler (C14) as a trace-checking machine — with proofs. Core Lean only.
The growth policy is NOT part of the model: the observed trace supplies each round's batch size. -/
namespace Iter

variable {α : Type} [LT α] [DecidableLT α] [Sub α] [Max α]

structure Round (α : Type) where
  nProc : Nat          -- rows evaluated this round
  lls   : List α       -- their likelihoods (length nProc)
  uu    : List α       -- uniforms drawn this round (one per likelihood so far)

structure Cfg where
  req : Nat            -- n_requested_samples
  budget : Nat         -- max_prior_samples (≤ library size)
  initBatch : Nat
  maxiter : Nat := 128

inductive Res where
  | error (why : String)
  | ok (evaluated : Nat) (good : List Nat)   -- positions into all_idx
deriving Repr, DecidableEq

/-- positions (in evaluation order, over everything evaluated so far) that pass the C02 rule -/
def maskAll (expf : α → α) (all uu : List α) : List Nat :=
  match all with
  | [] => []
  | l :: ls =>
    let m := ls.foldl max l
    (List.range (l :: ls).length).filter fun i =>
      decide ((uu.getD i l) < expf ((l :: ls).getD i l - m))

inductive Cls where
  | bad | err (why : String) | done (ev : Nat) (good : List Nat) | cont
deriving DecidableEq

/-- what one observed round means for the machine -/
def classify (expf : α → α) (c : Cfg) (r : Round α) (start : Nat) (all : List α) (iter : Nat) : Cls :=
  if iter ≥ c.maxiter then .err "maxiter" else
  if r.nProc = 0 ∨ start + r.nProc > c.budget ∨ r.lls.length ≠ r.nProc ∨ r.uu.length ≠ (all ++ r.lls).length
  then .bad else
  if (maskAll expf (all ++ r.lls) r.uu).isEmpty then .err "no good samples" else
  if (maskAll expf (all ++ r.lls) r.uu).length ≥ c.req ∨ start + r.nProc ≥ c.budget
  then .done (start + r.nProc) ((maskAll expf (all ++ r.lls) r.uu).take c.req) else .cont

/-- replay an observed trace; `none` = the trace is not a run of the machine -/
def replay (expf : α → α) (c : Cfg) : (rounds : List (Round α)) → (start : Nat) → (all : List α) →
    (iter : Nat) → Option Res
  | [], _, _, _ => none
  | r :: rest, start, all, iter =>
    match classify expf c r start all iter with
    | .bad => none
    | .err w => if rest.isEmpty then some (.error w) else none
    | .done ev g => if rest.isEmpty then some (.ok ev g) else none
    | .cont => replay expf c rest (start + r.nProc) (all ++ r.lls) (iter + 1)

def run (expf : α → α) (c : Cfg) (rounds : List (Round α)) : Option Res :=
  if c.initBatch > c.budget then (if rounds.isEmpty then some (.error "library too small") else none)
  else match rounds with
    | [] => none
    | r :: _ => if r.nProc ≠ c.initBatch then none else replay expf c rounds 0 [] 0

theorem classify_done (expf : α → α) (c : Cfg) (r : Round α) (start : Nat) (all : List α) (iter ev : Nat)
    (g : List Nat) (h : classify expf c r start all iter = .done ev g) :
    ev = start + r.nProc ∧ ev ≤ c.budget ∧ g = (maskAll expf (all ++ r.lls) r.uu).take c.req := by
  unfold classify at h
  split at h; · simp at h
  split at h; · simp at h
  rename_i hb
  split at h; · simp at h
  split at h
  · simp only [Cls.done.injEq] at h
    obtain ⟨h1, h2⟩ := h
    refine ⟨h1.symm, ?_, h2.symm⟩
    omega
  · simp at h

theorem classify_cont (expf : α → α) (c : Cfg) (r : Round α) (start : Nat) (all : List α) (iter : Nat)
    (h : classify expf c r start all iter = .cont) : r.lls.length = r.nProc := by
  unfold classify at h
  split at h; · simp at h
  split at h; · simp at h
  rename_i hb
  omega

theorem maskAll_lt (expf : α → α) (all uu : List α) : ∀ p ∈ maskAll expf all uu, p < all.length := by
  intro p hp
  cases all with
  | nil => simp [maskAll] at hp
  | cons l ls =>
    simp only [maskAll, List.mem_filter, List.mem_range] at hp
    exact hp.1

theorem maskAll_sorted (expf : α → α) (all uu : List α) : (maskAll expf all uu).Pairwise (· < ·) := by
  cases all with
  | nil => simp [maskAll]
  | cons l ls =>
    simp only [maskAll]
    exact List.Pairwise.filter _ (List.pairwise_lt_range)

/-- the invariant carried through the loop -/
theorem replay_spec (expf : α → α) (c : Cfg) : ∀ (rs : List (Round α)) (start : Nat) (all : List α) (iter : Nat)
    (ev : Nat) (g : List Nat), all.length = start → replay expf c rs start all iter = some (.ok ev g) →
    ev ≤ c.budget ∧ ev = start + (rs.map (·.nProc)).sum ∧
    (∃ r, rs.getLast? = some r ∧ g = (maskAll expf (all ++ rs.flatMap (·.lls)) r.uu).take c.req) := by
  intro rs
  induction rs with
  | nil => intro start all iter ev g _ h; simp [replay] at h
  | cons r rest ih =>
    intro start all iter ev g hlen h
    unfold replay at h
    split at h
    · simp at h
    · split at h <;> simp at h
    · rename_i ev' g' hcls
      split at h
      · rename_i hrest
        have hrest' : rest = [] := by simpa using hrest
        simp only [Option.some.injEq, Res.ok.injEq] at h
        obtain ⟨h1, h2⟩ := h
        obtain ⟨d1, d2, d3⟩ := classify_done expf c r start all iter ev' g' hcls
        subst hrest'
        refine ⟨by omega, by simp; omega, ⟨r, rfl, ?_⟩⟩
        simp [← h2, d3]
      · simp at h
    · rename_i hcls
      have hl' := classify_cont expf c r start all iter hcls
      obtain ⟨h1, h2, r', hr', hg⟩ :=
        ih (start + r.nProc) (all ++ r.lls) (iter + 1) ev g (by simp [hlen, hl']) h
      refine ⟨h1, ?_, ⟨r', ?_, ?_⟩⟩
      · simp [h2]; omega
      · cases rest with
        | nil => simp at hr'
        | cons x xs => simpa using hr'
      · simpa [List.append_assoc] using hg

theorem budget (expf : α → α) (c : Cfg) (rs : List (Round α)) (ev : Nat) (g : List Nat)
    (h : run expf c rs = some (.ok ev g)) : ev ≤ c.budget ∧ ev = (rs.map (·.nProc)).sum := by
  unfold run at h
  split at h
  · split at h <;> simp at h
  · cases rs with
    | nil => simp at h
    | cons r rest =>
      simp only at h
      split at h
      · simp at h
      · have := replay_spec expf c (r :: rest) 0 [] 0 ev g rfl h
        exact ⟨this.1, by simpa using this.2.1⟩

theorem at_most_requested_and_by_rule (expf : α → α) (c : Cfg) (rs : List (Round α)) (ev : Nat) (g : List Nat)
    (h : run expf c rs = some (.ok ev g)) :
    g.length ≤ c.req ∧ g.Pairwise (· < ·) ∧
    ∃ r, rs.getLast? = some r ∧ g = (maskAll expf (rs.flatMap (·.lls)) r.uu).take c.req := by
  unfold run at h
  split at h
  · split at h <;> simp at h
  · cases rs with
    | nil => simp at h
    | cons r rest =>
      simp only at h
      split at h
      · simp at h
      · obtain ⟨_, _, r', hr', hg⟩ := replay_spec expf c (r :: rest) 0 [] 0 ev g rfl h
        simp only [List.nil_append] at hg
        refine ⟨?_, ?_, r', hr', hg⟩
        · rw [hg]; exact List.length_take_le _ _
        · rw [hg]; exact (maskAll_sorted expf _ _).sublist (List.take_sublist _ _)

theorem small_library_raises (expf : α → α) (c : Cfg) (h : c.initBatch > c.budget) (rs : List (Round α))
    (res : Res) (hres : run expf c rs = some res) : res = .error "library too small" := by
  unfold run at hres
  simp only [h, if_true] at hres
  split at hres <;> simp at hres
  exact hres.symm

#print axioms budget
#print axioms at_most_requested_and_by_rule
end Iter

#eval Iter.run (α := Float) Float.exp {req := 2, budget := 6, initBatch := 3}
  [⟨3, [-5.0, -1.0, -9.0], [0.9, 0.1, 0.9]⟩, ⟨3, [-1.5, -8.0, -1.2], [0.9, 0.1, 0.9, 0.2, 0.5, 0.5]⟩]
