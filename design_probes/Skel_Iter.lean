import Mathlib.Order.Defs.LinearOrder
import Mathlib.Algebra.Field.Defs
import Mathlib.Algebra.Order.Ring.Defs

/-! Skeleton: iterative rejection sampler (C14) as a trace-checking machine.
The growth policy is NOT part of the model: the observed trace supplies each round's batch
size; the model checks the budget / cursor discipline and recomputes the selection. -/
namespace Iter

variable {α : Type} [LT α] [DecidableLT α] [Sub α] [Max α]

structure Round (α : Type) where
  nProc : Nat          -- rows evaluated this round
  lls   : List α       -- their likelihoods (length nProc)
  uu    : List α       -- uniforms drawn this round (one per likelihood so far)

structure Cfg where
  req : Nat            -- n_requested_samples
  budget : Nat         -- max_prior_samples (≤ library size)
  initBatch : Nat
  maxiter : Nat := 128

inductive Res (α : Type) where
  | error (why : String)
  | ok (evaluated : Nat) (good : List Nat)   -- positions into all_idx
deriving Repr

def maskAll (expf : α → α) (all uu : List α) : List Nat :=
  match all with
  | [] => []
  | l :: ls =>
    let m := ls.foldl max l
    (List.range (l :: ls).length).filter fun i =>
      decide ((uu.getD i l) < expf ((l :: ls).getD i l - m))

/-- replay an observed trace; `none` = the trace is not a run of the machine -/
def replay (expf : α → α) (c : Cfg) : (rounds : List (Round α)) → (start : Nat) → (all : List α) →
    (iter : Nat) → Option (Res α)
  | [], _, _, _ => none
  | r :: rest, start, all, iter =>
    if iter ≥ c.maxiter then some (.error "maxiter") else
    if iter = 0 ∧ r.nProc ≠ c.initBatch then none else
    if r.nProc = 0 ∨ start + r.nProc > c.budget then none else
    if r.lls.length ≠ r.nProc then none else
    let all' := all ++ r.lls
    if r.uu.length ≠ all'.length then none else
    let good := maskAll expf all' r.uu
    if good.isEmpty then some (.error "no good samples") else
    if good.length ≥ c.req then some (.ok (start + r.nProc) (good.take c.req)) else
    if start + r.nProc ≥ c.budget then
      (if rest.isEmpty then some (.ok (start + r.nProc) (good.take c.req)) else none)
    else replay expf c rest (start + r.nProc) all' (iter + 1)

def run (expf : α → α) (c : Cfg) (rounds : List (Round α)) : Option (Res α) :=
  if c.initBatch > c.budget then (if rounds.isEmpty then some (.error "library too small") else none)
  else replay expf c rounds 0 [] 0

end Iter

namespace Iter
variable {α : Type} [Field α] [LinearOrder α] [IsStrictOrderedRing α]

theorem budget (expf : α → α) (c : Cfg) (rs : List (Round α)) (ev : Nat) (g : List Nat)
    (h : run expf c rs = some (.ok ev g)) : ev ≤ c.budget ∧ ev = (rs.map (·.nProc)).sum := by sorry

theorem at_most_requested (expf : α → α) (c : Cfg) (rs : List (Round α)) (ev : Nat) (g : List Nat)
    (h : run expf c rs = some (.ok ev g)) : g.length ≤ c.req ∧ g.Pairwise (· < ·) ∧ ∀ p ∈ g, p < ev := by sorry

theorem exactly_when_enough (expf : α → α) (c : Cfg) (rs : List (Round α)) (ev : Nat) (g : List Nat)
    (h : run expf c rs = some (.ok ev g)) (r : Round α) (hr : rs.getLast? = some r)
    (henough : c.req ≤ (maskAll expf (rs.flatMap (·.lls)) r.uu).length) : g.length = c.req := by sorry

theorem accepted_by_rule (expf : α → α) (c : Cfg) (rs : List (Round α)) (ev : Nat) (g : List Nat)
    (h : run expf c rs = some (.ok ev g)) (r : Round α) (hr : rs.getLast? = some r) :
    ∀ p ∈ g, p ∈ maskAll expf (rs.flatMap (·.lls)) r.uu := by sorry

theorem small_library_raises (expf : α → α) (c : Cfg) (h : c.initBatch > c.budget) (rs : List (Round α))
    (res : Res α) (hres : run expf c rs = some res) : res = .error "library too small" := by sorry
end Iter

#eval Iter.run (α := Float) Float.exp {req := 2, budget := 6, initBatch := 3}
  [⟨3, [-5.0, -1.0, -9.0], [0.9, 0.1, 0.9]⟩, ⟨3, [-1.5, -8.0, -1.2], [0.9, 0.1, 0.9, 0.2, 0.5, 0.5]⟩]
