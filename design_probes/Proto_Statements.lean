import Mathlib.LinearAlgebra.Matrix.NonsingularInverse
import Mathlib.LinearAlgebra.Matrix.SchurComplement
import Mathlib.Analysis.SpecialFunctions.Log.Basic
import Mathlib.MeasureTheory.Measure.Lebesgue.Basic
import Mathlib.Analysis.SpecialFunctions.Exp

open Matrix

noncomputable section

variable {n k : ℕ}

/-- log-density of N(m, Σ) at y (the spec object) -/
def lnN {n : ℕ} (y m : Fin n → ℝ) (S : Matrix (Fin n) (Fin n) ℝ) : ℝ :=
  -(1/2) * ((y - m) ⬝ᵥ (S⁻¹ *ᵥ (y - m)) + Real.log ((2 * Real.pi) ^ n * S.det))

/-- statement skeletons -/
theorem marginalisation_identity
    (M : Matrix (Fin n) (Fin k) ℝ) (y : Fin n → ℝ) (v : Fin n → ℝ) (mu lam : Fin k → ℝ) (x : Fin k → ℝ)
    (hv : ∀ i, 0 < v i) (hl : ∀ j, 0 < lam j) :
    let Cs := diagonal v
    let L := diagonal lam
    let Ainv := L⁻¹ + Mᵀ * Cs⁻¹ * M
    let A := Ainv⁻¹
    let a := A *ᵥ (L⁻¹ *ᵥ mu + Mᵀ *ᵥ (Cs⁻¹ *ᵥ y))
    let B := Cs + M * L * Mᵀ
    lnN y (M *ᵥ x) Cs + lnN x mu L = lnN y (M *ᵥ mu) B + lnN x a A := by
  sorry

open MeasureTheory in
theorem accept_probability (d : ℝ) (hd : d ≤ 0) :
    volume {u : ℝ | u ∈ Set.Ico (0:ℝ) 1 ∧ u < Real.exp d} = ENNReal.ofReal (Real.exp d) := by
  have h1 : Real.exp d ≤ 1 := Real.exp_le_one_iff.mpr hd
  have : {u : ℝ | u ∈ Set.Ico (0:ℝ) 1 ∧ u < Real.exp d} = Set.Ico 0 (Real.exp d) := by
    ext u; simp only [Set.mem_setOf_eq, Set.mem_Ico]
    constructor
    · rintro ⟨⟨h0, _⟩, h2⟩; exact ⟨h0, h2⟩
    · rintro ⟨h0, h2⟩; exact ⟨⟨h0, lt_of_lt_of_le h2 h1⟩, h2⟩
  rw [this, Real.volume_Ico]; simp
