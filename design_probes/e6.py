import warnings; warnings.filterwarnings("ignore")
import numpy as np, astropy.units as u, tempfile, os, time, glob
import thejoker as tj
from thejoker.thejoker import TheJoker
rng = np.random.default_rng(1)
n=6
t = 55000 + np.sort(rng.uniform(0, 300, n))
data = tj.RVData(t, rng.normal(0, 10, n) * u.km/u.s, rng.uniform(0.5, 1, n) * u.km/u.s)
prior = tj.JokerPrior.default(P_min=2*u.day, P_max=256*u.day, sigma_K0=30*u.km/u.s, sigma_v=100*u.km/u.s)
ps = prior.sample(size=50, rng=np.random.default_rng(3))
d = tempfile.mkdtemp(); os.environ['TMPDIR']=d; tempfile.tempdir=None
import thejoker.multiproc_helpers as mh
orig = mh.read_batch
def boom(*a, **k): raise OSError("injected")
mh.read_batch = boom
j = TheJoker(prior, rng=np.random.default_rng(5))
try:
    j.marginal_ln_likelihood(data, ps)
except Exception as ex: print("EXC", type(ex).__name__, ex)
print("leftover", os.listdir(d))
mh.read_batch = orig
print(j.marginal_ln_likelihood(data, ps)[:3], os.listdir(d))
# append
fn = os.path.join(d, "a.hdf5"); ps[:10].write(fn); ps[10:20].write(fn, append=True)
r = tj.JokerSamples.read(fn); print(len(r), np.array_equal(r['P'].value, ps['P'].value[:20]), r.t_ref, r.poly_trend, r.tbl.meta)
import schwimmbad
with schwimmbad.MultiPool(2) as pool:
    j = TheJoker(prior, rng=np.random.default_rng(5), pool=pool)
    t0=time.time(); ll = j.marginal_ln_likelihood(data, ps, n_batches=3); print("mp", time.time()-t0, ll[:2])
