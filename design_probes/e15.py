import warnings; warnings.filterwarnings("ignore")
import numpy as np, astropy.units as u, tempfile, os
import thejoker as tj
from thejoker.thejoker import TheJoker
import schwimmbad
class RecGen(np.random.Generator):
    def __init__(self, seed):
        super().__init__(np.random.PCG64(seed)); self.log=[]
    def uniform(self, *a, **k):
        r = super().uniform(*a, **k); self.log.append(("uniform", np.array(r))); return r
    def multivariate_normal(self, mean, cov, *a, **k):
        r = super().multivariate_normal(mean, cov, *a, **k); self.log.append(("mvn", np.array(mean), np.array(cov), np.array(r))); return r
    def choice(self, *a, **k):
        r = super().choice(*a, **k); self.log.append(("choice", np.array(r))); return r
rng = np.random.default_rng(1)
n=5
t = 55000 + np.sort(rng.uniform(0, 300, n))
data = tj.RVData(t, rng.normal(0, 10, n) * u.km/u.s, rng.uniform(2, 4, n) * u.km/u.s)
prior = tj.JokerPrior.default(P_min=2*u.day, P_max=256*u.day, sigma_K0=30*u.km/u.s, sigma_v=100*u.km/u.s)
ps = prior.sample(size=400, rng=np.random.default_rng(3), return_logprobs=True)
d=tempfile.mkdtemp(); fn=os.path.join(d,'l.hdf5'); ps.write(fn)
def run(path, seed=9, **kw):
    g=RecGen(seed); j=TheJoker(prior, rng=g)
    if path=='mem': s,lls=j.rejection_sample(data, ps, in_memory=True, return_all_logprobs=True, **kw)
    elif path=='obj': s,lls=j.rejection_sample(data, ps, return_all_logprobs=True, **kw)
    else: s,lls=j.rejection_sample(data, fn, return_all_logprobs=True, **kw)
    return s,lls,g
res={p:run(p) for p in ['mem','obj','file']}
for p,(s,lls,g) in res.items():
    uu=[e for e in g.log if e[0]=='uniform'][0][1]
    acc=np.where(np.exp(lls-lls.max())>uu)[0]
    print(p, len(s), "rule ok", np.array_equal(s['P'].value, ps['P'].value[acc]), "lls eq mem", np.array_equal(lls, res['mem'][1]), "P eq mem", np.array_equal(s['P'].value,res['mem'][0]['P'].value), "K eq mem", np.array_equal(s['K'].value,res['mem'][0]['K'].value))
# options
s,lls,g=run('file', max_posterior_samples=3, n_prior_samples=250, n_linear_samples=2)
uu=[e for e in g.log if e[0]=='uniform'][0][1]; acc=np.where(np.exp(lls-lls.max())>uu)[0][:3]
print("trunc", len(lls), len(s), np.array_equal(s['P'].value, np.repeat(ps['P'].value[acc],2)))
s,lls,g=run('file', randomize_prior_order=True, n_prior_samples=250, return_logprobs=False)
idx=[e for e in g.log if e[0]=='choice'][0][1]; uu=[e for e in g.log if e[0]=='uniform'][0][1]; acc=np.where(np.exp(lls-lls.max())>uu)[0]
print("shuffle", len(idx), np.array_equal(s['P'].value, ps['P'].value[idx[acc]]))
with schwimmbad.MultiPool(3) as pool:
    g=RecGen(9); j=TheJoker(prior, rng=g, pool=pool); s2,lls2=j.rejection_sample(data, fn, return_all_logprobs=True, n_batches=5)
    print("mp lls eq", np.array_equal(lls2,res['mem'][1]), "P eq", np.array_equal(s2['P'].value,res['mem'][0]['P'].value))
    g=RecGen(9); j=TheJoker(prior, rng=g, pool=pool); s3,lls3=j.rejection_sample(data, fn, return_all_logprobs=True, n_batches=5)
    print("mp repeat K eq", np.array_equal(s2['K'].value, s3['K'].value))
    s4,_=j.rejection_sample(data, fn, return_all_logprobs=True, n_batches=5)
    print("successive call K differ", not np.array_equal(s3['K'].value[:1], s4['K'].value[:1]))
