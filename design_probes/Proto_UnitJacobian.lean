import Mathlib.LinearAlgebra.Matrix.NonsingularInverse
import Mathlib.Analysis.SpecialFunctions.Log.Basic
import Mathlib.Analysis.SpecialFunctions.Trigonometric.Basic

open Matrix

noncomputable section
variable {n : ℕ}

def lnN (y m : Fin n → ℝ) (S : Matrix (Fin n) (Fin n) ℝ) : ℝ :=
  -(1/2) * ((y - m) ⬝ᵥ (S⁻¹ *ᵥ (y - m)) + Real.log ((2 * Real.pi) ^ n * S.det))

/-- C07: re-expressing the data in a unit that is `c` times smaller (values × c) shifts the
log-density by the Jacobian constant `-n ln c` and nothing else -/
theorem lnN_unit_jacobian (y m : Fin n → ℝ) (S : Matrix (Fin n) (Fin n) ℝ) (c : ℝ) (hc : 0 < c)
    (hS : S.det ≠ 0) :
    lnN (c • y) (c • m) ((c ^ 2) • S) = lnN y m S - n * Real.log c := by
  unfold lnN
  have hc2 : (c ^ 2) ≠ 0 := pow_ne_zero 2 hc.ne'
  have hinv : ((c ^ 2) • S)⁻¹ = (c ^ 2)⁻¹ • S⁻¹ := by
    apply inv_eq_right_inv
    rw [smul_mul_smul_comm, Matrix.mul_nonsing_inv S (isUnit_iff_ne_zero.mpr hS), mul_inv_cancel₀ hc2, one_smul]
  have hq : (c • y - c • m) ⬝ᵥ (((c ^ 2) • S)⁻¹ *ᵥ (c • y - c • m)) = (y - m) ⬝ᵥ (S⁻¹ *ᵥ (y - m)) := by
    rw [hinv, ← smul_sub, smul_mulVec, mulVec_smul, dotProduct_smul, dotProduct_smul, smul_dotProduct]
    simp only [smul_eq_mul]
    field_simp
  have hdet : ((c ^ 2) • S).det = c ^ (2 * n) * S.det := by
    rw [det_smul, Fintype.card_fin, ← pow_mul]
  have hpi : (0:ℝ) < (2 * Real.pi) ^ n := pow_pos (by positivity) n
  rw [hq, hdet]
  have hcn : (0:ℝ) < c ^ (2 * n) := pow_pos hc _
  rw [show (2 * Real.pi) ^ n * (c ^ (2 * n) * S.det) = c ^ (2 * n) * ((2 * Real.pi) ^ n * S.det) by ring]
  rw [Real.log_mul hcn.ne' (mul_ne_zero hpi.ne' hS), Real.log_pow]
  push_cast
  ring

#print axioms lnN_unit_jacobian
end
