import warnings; warnings.filterwarnings("ignore")
import numpy as np, astropy.units as u, tempfile, os
import thejoker as tj, pymc as pm, thejoker.units as xu
from thejoker.thejoker import TheJoker
import schwimmbad
from pymc_ext.distributions import angle
from thejoker.distributions import UniformLog, Kipping13Global
def build(omit=None, nounit=None, badunit=None, nonnormal=None, poly_trend=1, offs=0):
    with pm.Model() as m:
        pars={}
        def add(name, var, unit):
            if name==omit: return
            if name==nounit: pars[name]=var; return
            if name==badunit: unit = u.kg
            pars[name]=xu.with_unit(var, unit)
        add('P', UniformLog('P', 1., 100.), u.day)
        add('e', Kipping13Global('e'), u.one)
        add('omega', angle('omega'), u.rad)
        add('M0', angle('M0'), u.rad)
        add('s', pm.Deterministic('s', pm.math.constant(0.)), u.km/u.s)
        for nm,unit in [('K',u.km/u.s),('v0',u.km/u.s)]+[(f'v{i}',u.km/u.s/u.day**i) for i in range(1,poly_trend)]:
            add(nm, pm.Uniform(nm,-5,5) if nm==nonnormal else pm.Normal(nm,0,10.), unit)
        off=[]
        for i in range(1,offs+1):
            nm=f'dv0_{i}'
            v = pm.Uniform(nm,-5,5) if nm==nonnormal else pm.Normal(nm,0,3.)
            if nm==nounit: off.append(v)
            else: off.append(xu.with_unit(v, u.kg if nm==badunit else u.km/u.s))
        return tj.JokerPrior(pars=pars, poly_trend=poly_trend, v0_offsets=off, model=m)
names=['P','e','omega','M0','s','K','v0','v1','dv0_1']
for kind in ['omit','nounit','badunit','nonnormal']:
    for nm in names:
        try:
            p=build(**{kind:nm}, poly_trend=2, offs=1); res='ACCEPT '+str(p.par_names)
        except Exception as ex: res=type(ex).__name__
        print(kind, nm, res)
p=build(poly_trend=2, offs=1); print(p.par_names)
# data count mismatch
rng=np.random.default_rng(0); t=55000+np.sort(rng.uniform(0,100,6)); d=tj.RVData(t, rng.normal(0,5,6)*u.km/u.s, np.ones(6)*u.km/u.s)
ps=p.sample(size=10, rng=rng)
for data,label in [(d,'single w/ 1 offset'),([d[:3],d[3:]],'2 surveys ok'),([d[:2],d[2:4],d[4:]],'3 surveys'),([d[:3], 5],'bad type'),({'a':d[:3],'b':d[3:]},'dict')]:
    try: TheJoker(p).marginal_ln_likelihood(data, ps, in_memory=True); print(label,'OK')
    except Exception as ex: print(label, type(ex).__name__)
for bad,label in [(dict(prior=5),'prior int'),(dict(prior=p,rng=5),'rng int'),(dict(prior=p,pool=5),'pool int'),(dict(prior=p,rng=np.random.RandomState(1)),'RandomState')]:
    try: TheJoker(**bad); print(label,'OK')
    except Exception as ex: print(label, type(ex).__name__)
