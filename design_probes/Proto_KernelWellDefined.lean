import Mathlib.LinearAlgebra.Matrix.PosDef
import Mathlib.Analysis.Matrix.PosDef
import Mathlib.Algebra.Order.Star.Real

open Matrix

variable {n k : ℕ}

/-- C01 `kernel_welldefined`: with positive variances and positive prior variances both
`B` and `A⁻¹` are positive definite, hence invertible with positive determinant. -/
theorem kernel_posdef (M : Matrix (Fin n) (Fin k) ℝ) (v : Fin n → ℝ) (lam : Fin k → ℝ)
    (hv : ∀ i, 0 < v i) (hl : ∀ j, 0 < lam j) :
    (diagonal v + M * diagonal lam * Mᵀ).PosDef ∧
    (diagonal (fun j => (lam j)⁻¹) + Mᵀ * diagonal (fun i => (v i)⁻¹) * M).PosDef := by
  constructor
  · apply PosDef.add_posSemidef (PosDef.diagonal hv)
    have h := (PosSemidef.diagonal (n := Fin k) (d := lam) (fun j => (hl j).le)).mul_mul_conjTranspose_same M
    simpa [conjTranspose_eq_transpose_of_trivial] using h
  · apply PosDef.add_posSemidef (PosDef.diagonal (fun j => inv_pos.mpr (hl j)))
    have h := (PosSemidef.diagonal (n := Fin n) (d := fun i => (v i)⁻¹) (fun i => (inv_pos.mpr (hv i)).le)).conjTranspose_mul_mul_same M
    simpa [conjTranspose_eq_transpose_of_trivial] using h

theorem kernel_welldefined (M : Matrix (Fin n) (Fin k) ℝ) (v : Fin n → ℝ) (lam : Fin k → ℝ)
    (hv : ∀ i, 0 < v i) (hl : ∀ j, 0 < lam j) :
    0 < (diagonal v + M * diagonal lam * Mᵀ).det ∧
    IsUnit (diagonal (fun j => (lam j)⁻¹) + Mᵀ * diagonal (fun i => (v i)⁻¹) * M).det := by
  obtain ⟨hB, hA⟩ := kernel_posdef M v lam hv hl
  exact ⟨hB.det_pos, (hA.det_pos).ne'.isUnit⟩

#print axioms kernel_welldefined
