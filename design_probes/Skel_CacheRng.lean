/-! Skeleton: tempfile_decorator + worker pipeline as a fault-injectable machine (C13),
    seed-sequence spawning (C10). Core Lean only. -/
namespace Cache

inductive Mode | ro | rw deriving DecidableEq, Repr

/-- observable steps of one decorated call -/
inductive Step
  | mkTemp (f : Nat)                 -- NamedTemporaryFile(delete=False)
  | writeTemp (f : Nat)              -- prior_samples.write(f.name, overwrite=True)
  | openUser (path : Nat) (m : Mode) -- tb.open_file / h5py.File on the user's library
  | openTemp (f : Nat) (m : Mode)
  | body (label : String)            -- read_batch, pool.map, helper batch call, unpack …
  | unlink (f : Nat)
deriving DecidableEq, Repr

structure St where
  tmp : List Nat := []          -- temp files that exist
  userWritten : Bool := false   -- did anything open a user file writable
deriving Repr

def apply (s : St) : Step → St
  | .mkTemp f => { s with tmp := f :: s.tmp }
  | .unlink f => { s with tmp := s.tmp.filter (· ≠ f) }
  | .openUser _ .rw => { s with userWritten := true }
  | _ => s

/-- the decorated call on an in-memory library: `pre` steps, then `inner` (the wrapped
function's steps, arbitrary), and the `finally` clause. A fault at position `k` cuts the
try-block after `k` steps; the finally clause always runs. -/
def objectCall (f : Nat) (inner : List Step) (fault : Option Nat) : St × Bool :=
  let tryBlock := Step.writeTemp f :: inner
  let executed := match fault with | none => tryBlock | some k => tryBlock.take k
  let s := (Step.mkTemp f :: executed).foldl apply {}
  (apply s (.unlink f), fault.isSome)     -- (final state, exception propagated?)

def fileCall (inner : List Step) (fault : Option Nat) : St × Bool :=
  let executed := match fault with | none => inner | some k => inner.take k
  (executed.foldl apply {}, fault.isSome)

/-- well-formed inner traces: never create or delete temp files, never open the user file rw -/
def InnerOK (inner : List Step) : Prop :=
  ∀ st ∈ inner, (∀ f, st ≠ .mkTemp f) ∧ (∀ f, st ≠ .unlink f) ∧ (∀ p, st ≠ .openUser p .rw)

theorem no_leak (f : Nat) (inner : List Step) (h : InnerOK inner) (fault : Option Nat) :
    (objectCall f inner fault).1.tmp = [] := by sorry

theorem exception_propagates (f : Nat) (inner : List Step) (fault : Option Nat) :
    (objectCall f inner fault).2 = fault.isSome := rfl

theorem user_file_untouched (f : Nat) (inner : List Step) (h : InnerOK inner) (fault : Option Nat) :
    (objectCall f inner fault).1.userWritten = false ∧ (fileCall inner fault).1.userWritten = false := by sorry

end Cache

namespace Rng
/-- numpy SeedSequence, as far as spawning is concerned -/
structure SeedSeq where
  entropy : Nat
  key : List Nat
  nSpawned : Nat
deriving DecidableEq, Repr

def spawn (s : SeedSeq) (m : Nat) : SeedSeq × List SeedSeq :=
  ({ s with nSpawned := s.nSpawned + m },
   (List.range m).map fun i => { entropy := s.entropy, key := s.key ++ [s.nSpawned + i], nSpawned := 0 })

/-- a history of sampler calls, each spawning `m` children (one per task) -/
def history (s : SeedSeq) : List Nat → SeedSeq × List SeedSeq
  | [] => (s, [])
  | m :: ms =>
    let (s', kids) := spawn s m
    let (s'', rest) := history s' ms
    (s'', kids ++ rest)

theorem spawned_keys_distinct (s : SeedSeq) (ms : List Nat) :
    ((history s ms).2.map (·.key)).Nodup ∧ ∀ c ∈ (history s ms).2, c.key ≠ s.key := by sorry
end Rng
#eval (Rng.history ⟨42, [], 0⟩ [2, 3]).2.map (·.key)
#eval Cache.objectCall 1 [.openTemp 1 .ro, .body "read_batch", .body "pool.map"] (some 2)
