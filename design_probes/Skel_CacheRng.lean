/-! Skeleton + proofs: tempfile_decorator + worker pipeline as a fault-injectable machine (C13),
    seed-sequence spawning (C10). Core Lean only. -/
namespace Cache

inductive Mode | ro | rw deriving DecidableEq, Repr

/-- observable steps of one decorated call -/
inductive Step
  | mkTemp (f : Nat)                 -- NamedTemporaryFile(delete=False)
  | writeTemp (f : Nat)              -- prior_samples.write(f.name, overwrite=True)
  | openUser (path : Nat) (m : Mode) -- tb.open_file / h5py.File on the user's library
  | openTemp (f : Nat) (m : Mode)
  | body (label : String)            -- read_batch, pool.map, helper batch call, unpack …
  | unlink (f : Nat)
deriving DecidableEq, Repr

structure St where
  tmp : List Nat := []          -- temp files that exist
  userWritten : Bool := false   -- did anything open a user file writable
deriving Repr

def apply (s : St) : Step → St
  | .mkTemp f => { s with tmp := f :: s.tmp }
  | .unlink f => { s with tmp := s.tmp.filter (· ≠ f) }
  | .openUser _ .rw => { s with userWritten := true }
  | _ => s

/-- a fault at position `k` cuts the try-block after `k` steps -/
def cut : Option Nat → List Step → List Step
  | none, l => l
  | some k, l => l.take k

theorem mem_cut {fault : Option Nat} {l : List Step} {st : Step} (h : st ∈ cut fault l) : st ∈ l := by
  cases fault with
  | none => exact h
  | some k => exact List.mem_of_mem_take h

/-- the decorated call on an in-memory library; the finally clause always runs -/
def objectCall (f : Nat) (inner : List Step) (fault : Option Nat) : St × Bool :=
  let s := (cut fault (Step.writeTemp f :: inner)).foldl apply (apply {} (.mkTemp f))
  (apply s (.unlink f), fault.isSome)     -- (final state, exception propagated?)

def fileCall (inner : List Step) (fault : Option Nat) : St × Bool :=
  ((cut fault inner).foldl apply {}, fault.isSome)

def StepOK (st : Step) : Prop :=
  (∀ f, st ≠ .mkTemp f) ∧ (∀ f, st ≠ .unlink f) ∧ (∀ p, st ≠ .openUser p .rw)

/-- well-formed inner traces: never create or delete temp files, never open the user file rw -/
def InnerOK (inner : List Step) : Prop := ∀ st ∈ inner, StepOK st

theorem apply_ok (s : St) (st : Step) (h : StepOK st) : apply s st = s := by
  obtain ⟨h1, h2, h3⟩ := h
  cases st with
  | mkTemp f => exact absurd rfl (h1 f)
  | unlink f => exact absurd rfl (h2 f)
  | openUser p m =>
    cases m with
    | ro => rfl
    | rw => exact absurd rfl (h3 p)
  | writeTemp f => rfl
  | openTemp f m => rfl
  | body l => rfl

theorem foldl_ok (steps : List Step) (h : ∀ st ∈ steps, StepOK st) (s : St) : steps.foldl apply s = s := by
  induction steps generalizing s with
  | nil => rfl
  | cons st rest ih =>
    simp only [List.foldl_cons]
    rw [apply_ok s st (h st List.mem_cons_self)]
    exact ih (fun x hx => h x (List.mem_cons_of_mem _ hx)) s

theorem tryBlock_ok (f : Nat) (inner : List Step) (h : InnerOK inner) (fault : Option Nat) :
    ∀ st ∈ cut fault (Step.writeTemp f :: inner), StepOK st := by
  intro st hst
  rcases List.mem_cons.mp (mem_cut hst) with rfl | hin
  · exact ⟨fun g => by simp, fun g => by simp, fun p => by simp⟩
  · exact h st hin

/-- C13: no temporary file survives, whatever the fault position -/
theorem no_leak (f : Nat) (inner : List Step) (h : InnerOK inner) (fault : Option Nat) :
    (objectCall f inner fault).1.tmp = [] := by
  unfold objectCall
  simp only
  rw [foldl_ok _ (tryBlock_ok f inner h fault)]
  simp [apply]

theorem exception_propagates (f : Nat) (inner : List Step) (fault : Option Nat) :
    (objectCall f inner fault).2 = fault.isSome := rfl

theorem user_file_untouched (f : Nat) (inner : List Step) (h : InnerOK inner) (fault : Option Nat) :
    (objectCall f inner fault).1.userWritten = false ∧ (fileCall inner fault).1.userWritten = false := by
  constructor
  · unfold objectCall
    simp only
    rw [foldl_ok _ (tryBlock_ok f inner h fault)]
    simp [apply]
  · unfold fileCall
    simp only
    rw [foldl_ok _ (fun st hst => h st (mem_cut hst))]

/-- the post-state of a call equals the pre-state: the next call starts clean -/
theorem next_call_clean (f : Nat) (inner : List Step) (h : InnerOK inner) (fault : Option Nat) :
    (objectCall f inner fault).1 = {} := by
  unfold objectCall
  simp only
  rw [foldl_ok _ (tryBlock_ok f inner h fault)]
  simp [apply]

end Cache

namespace Rng
/-- numpy SeedSequence, as far as spawning is concerned -/
structure SeedSeq where
  entropy : Nat
  key : List Nat
  nSpawned : Nat
deriving DecidableEq, Repr

def spawn (s : SeedSeq) (m : Nat) : SeedSeq × List SeedSeq :=
  ({ s with nSpawned := s.nSpawned + m },
   (List.range m).map fun i => { entropy := s.entropy, key := s.key ++ [s.nSpawned + i], nSpawned := 0 })

/-- a history of sampler calls, each spawning `m` children (one per task) -/
def history (s : SeedSeq) : List Nat → SeedSeq × List SeedSeq
  | [] => (s, [])
  | m :: ms =>
    let (s', kids) := spawn s m
    let (s'', rest) := history s' ms
    (s'', kids ++ rest)

theorem history_key_form (ms : List Nat) : ∀ (s : SeedSeq),
    (∀ c ∈ (history s ms).2, ∃ j, s.nSpawned ≤ j ∧ c.key = s.key ++ [j]) ∧
    ((history s ms).2.map (·.key)).Nodup := by
  induction ms with
  | nil => intro s; simp [history]
  | cons m ms ih =>
    intro s
    obtain ⟨ihform, ihnd⟩ := ih { s with nSpawned := s.nSpawned + m }
    simp only [history, spawn] at ihform ihnd ⊢
    refine ⟨?_, ?_⟩
    · intro c hc
      rcases List.mem_append.mp hc with hk | hr
      · obtain ⟨i, _, rfl⟩ := List.mem_map.mp hk
        exact ⟨s.nSpawned + i, Nat.le_add_right _ _, rfl⟩
      · obtain ⟨j, hj, hkey⟩ := ihform c hr
        exact ⟨j, Nat.le_trans (Nat.le_add_right _ _) hj, hkey⟩
    · rw [List.map_append, List.nodup_append]
      refine ⟨?_, ihnd, ?_⟩
      · rw [List.map_map]
        show List.Pairwise (· ≠ ·) _
        rw [List.pairwise_map]
        refine (List.nodup_range (n := m)).imp ?_
        intro a b hab h
        simp only [Function.comp] at h
        have := List.append_cancel_left h
        simp at this
        exact hab this
      · intro k1 hk1 k2 hk2
        obtain ⟨c1, hc1, rfl⟩ := List.mem_map.mp hk1
        obtain ⟨i, hi, rfl⟩ := List.mem_map.mp hc1
        obtain ⟨c2, hc2, rfl⟩ := List.mem_map.mp hk2
        obtain ⟨j, hj, hkey⟩ := ihform c2 hc2
        rw [hkey]
        intro h
        have := List.append_cancel_left h
        simp at this
        have hj' : s.nSpawned + m ≤ j := hj
        have hi' := List.mem_range.mp hi
        omega

/-- C10: all spawn keys handed out over any history are pairwise distinct and differ from the parent's -/
theorem spawned_keys_distinct (s : SeedSeq) (ms : List Nat) :
    ((history s ms).2.map (·.key)).Nodup ∧ ∀ c ∈ (history s ms).2, c.key ≠ s.key := by
  obtain ⟨hform, hnd⟩ := history_key_form ms s
  refine ⟨hnd, ?_⟩
  intro c hc h
  obtain ⟨j, _, hkey⟩ := hform c hc
  rw [hkey] at h
  have := congrArg List.length h
  simp at this
end Rng
#eval (Rng.history ⟨42, [], 0⟩ [2, 3]).2.map (·.key)
#eval Cache.objectCall 1 [.openTemp 1 .ro, .body "read_batch", .body "pool.map"] (some 2)
#print axioms Cache.no_leak
#print axioms Rng.spawned_keys_distinct
