import warnings; warnings.filterwarnings("ignore")
import numpy as np, astropy.units as u, tempfile, os, hashlib, glob
d = tempfile.mkdtemp(); os.environ['TMPDIR']=d; tempfile.tempdir=None
import thejoker as tj
from thejoker.thejoker import TheJoker
import thejoker.multiproc_helpers as mh, thejoker.utils as ut, thejoker.samples as sm
rng = np.random.default_rng(1)
n=6
t = 55000 + np.sort(rng.uniform(0, 300, n))
data = tj.RVData(t, rng.normal(0, 10, n) * u.km/u.s, rng.uniform(0.5, 1, n) * u.km/u.s)
prior = tj.JokerPrior.default(P_min=2*u.day, P_max=256*u.day, sigma_K0=30*u.km/u.s, sigma_v=100*u.km/u.s)
ps = prior.sample(size=200, rng=np.random.default_rng(3), return_logprobs=True)
userfn = os.path.join(d, "user_lib.hdf5"); ps.write(userfn)
def sha(fn): return hashlib.sha256(open(fn,'rb').read()).hexdigest()[:12]
h0 = sha(userfn)
class Inject(Exception): pass
def wrap(obj, name, k):
    orig = getattr(obj, name); cnt=[0]
    def w(*a, **kw):
        cnt[0]+=1
        if cnt[0]==k: raise Inject(f"{name}#{k}")
        return orig(*a, **kw)
    setattr(obj, name, w); return orig, cnt
targets = [(mh,'read_batch'),(mh,'batch_tasks'),(mh.tb,'open_file'),(mh.h5py,'File'),(sm.JokerSamples,'write'),(mh.JokerSamples,'unpack')]
def hdf5s(): return sorted(f for f in glob.glob(d+"/**", recursive=True) if f.endswith(('.hdf5','.h5')) and f!=userfn)
results=[]
for which in ['obj','file']:
  for api in ['marg','rej','iter']:
    for (obj,name) in targets:
        for k in range(1,6):
            orig,cnt = wrap(obj,name,k)
            j = TheJoker(prior, rng=np.random.default_rng(5))
            src = ps if which=='obj' else userfn
            try:
                if api=='marg': j.marginal_ln_likelihood(data, src)
                elif api=='rej': j.rejection_sample(data, src, return_logprobs=False)
                else: j.iterative_rejection_sample(data, src, n_requested_samples=2, init_batch_size=50)
                out='ok'
            except Inject as ex: out='propagated'
            except Exception as ex: out='OTHER:'+type(ex).__name__+str(ex)[:60]
            finally: setattr(obj,name,orig)
            leak = hdf5s()
            if leak or sha(userfn)!=h0 or out.startswith('OTHER') or (out=='ok' and cnt[0]>=k):
                results.append((which,api,name,k,out,cnt[0],leak, sha(userfn)!=h0))
                for f in leak: os.unlink(f)
            if cnt[0] < k: break
print("anomalies:", len(results))
for r in results[:20]: print(r)
