import Mathlib.Data.List.MinMax
import Mathlib.Data.List.Sort
import Mathlib.Data.List.TakeWhile
import Mathlib.Algebra.Order.Field.Basic
import Mathlib.Tactic.Ring
import Mathlib.Tactic.Linarith

/-! C19 prototype: the largest empty arc on the phase circle and its symmetries. -/
set_option linter.unusedSectionVars false
namespace Diag
variable {α : Type} [Field α] [LinearOrder α] [IsStrictOrderedRing α]

/-- consecutive differences -/
def gaps : List α → List α
  | a :: b :: r => (b - a) :: gaps (b :: r)
  | _ => []

@[simp] theorem gaps_nil : gaps ([] : List α) = [] := rfl
@[simp] theorem gaps_singleton (a : α) : gaps [a] = [] := rfl
@[simp] theorem gaps_cons_cons (a b : α) (r : List α) : gaps (a :: b :: r) = (b - a) :: gaps (b :: r) := rfl

theorem gaps_append_mid (X : List α) (p q : α) (Y : List α) :
    gaps (X ++ p :: q :: Y) = gaps (X ++ [p]) ++ (q - p) :: gaps (q :: Y) := by
  induction X with
  | nil => simp
  | cons c X ih =>
    cases X with
    | nil => simp
    | cons d X' =>
      simp only [List.cons_append, gaps_cons_cons] at ih ⊢
      rw [ih]

theorem gaps_concat2 (X : List α) (p q : α) : gaps (X ++ [p, q]) = gaps (X ++ [p]) ++ [q - p] := by
  simpa using gaps_append_mid X p q []

theorem gaps_map_add (c : α) (l : List α) : gaps (l.map (· + c)) = gaps l := by
  induction l with
  | nil => rfl
  | cons a l ih =>
    cases l with
    | nil => rfl
    | cons b r =>
      simp only [List.map_cons, gaps_cons_cons] at ih ⊢
      rw [ih]; congr 1; ring

theorem gaps_reverse_map_sub (c : α) (l : List α) :
    gaps ((l.map (c - ·)).reverse) = (gaps l).reverse := by
  induction l with
  | nil => rfl
  | cons a l ih =>
    cases l with
    | nil => rfl
    | cons b r =>
      have e : ((a :: b :: r).map (c - ·)).reverse = ((r.map (c - ·)).reverse) ++ [c - b, c - a] := by
        simp
      rw [e, gaps_concat2]
      have e2 : (r.map (c - ·)).reverse ++ [c - b] = ((b :: r).map (c - ·)).reverse := by simp
      rw [e2, ih, gaps_cons_cons, List.reverse_cons]
      congr 2; ring

/-- cyclic gaps of a (sorted) list of phases: close the circle by appending `head + 1` -/
def circGaps : List α → List α
  | [] => []
  | a :: r => gaps (a :: r ++ [a + 1])

/-- rotating one point across the 0/1 boundary permutes the cyclic gaps -/
theorem circGaps_rotate_one (y h : α) (X : List α) :
    (circGaps ((y - 1) :: h :: X)).Perm (circGaps (h :: X ++ [y])) := by
  have e1 : circGaps ((y - 1) :: h :: X) = (h - (y - 1)) :: gaps (h :: X ++ [y]) := by
    simp [circGaps]
  have e2 : circGaps (h :: X ++ [y]) = gaps (h :: X ++ [y]) ++ [h + 1 - y] := by
    show gaps (h :: X ++ [y] ++ [h + 1]) = _
    have : h :: X ++ [y] ++ [h + 1] = (h :: X) ++ [y, h + 1] := by simp
    rw [this, gaps_concat2]
  rw [e1, e2, show h - (y - 1) = h + 1 - y by ring]
  exact (List.perm_append_singleton _ _).symm

/-- mirroring the phases (φ ↦ 1 - φ) permutes the cyclic gaps -/
theorem circGaps_mirror (s : List α) : (circGaps ((s.map (1 - ·)).reverse)).Perm (circGaps s) := by
  cases s with
  | nil => simp [circGaps]
  | cons a r =>
    set Y := (r.map (1 - ·)).reverse with hY
    have hms : ((a :: r).map (1 - ·)).reverse = Y ++ [1 - a] := by simp [hY]
    have hT : gaps (((a :: r ++ [a + 1]).map (1 - ·)).reverse) = (gaps (a :: r ++ [a + 1])).reverse :=
      gaps_reverse_map_sub 1 _
    have hTl : ((a :: r ++ [a + 1]).map (1 - ·)).reverse = (1 - (a + 1)) :: (Y ++ [1 - a]) := by
      simp [hY]
    rw [hms]
    obtain ⟨h, X, hX⟩ : ∃ h X, Y ++ [1 - a] = h :: X := by
      cases Y with
      | nil => exact ⟨_, _, rfl⟩
      | cons y Y' => exact ⟨_, _, rfl⟩
    have e1 : circGaps (Y ++ [1 - a]) = gaps (Y ++ [1 - a]) ++ [h + 1 - (1 - a)] := by
      rw [hX]
      show gaps (h :: X ++ [h + 1]) = _
      rw [← hX]
      have : Y ++ [1 - a] ++ [h + 1] = Y ++ [1 - a, h + 1] := by simp
      rw [this, gaps_concat2]
    have e2 : (gaps (a :: r ++ [a + 1])).reverse = (h - (1 - (a + 1))) :: gaps (Y ++ [1 - a]) := by
      rw [← hT, hTl, hX, gaps_cons_cons]
    have e3 : circGaps (a :: r) = gaps (a :: r ++ [a + 1]) := rfl
    rw [e1, e3]
    have : h + 1 - (1 - a) = h - (1 - (a + 1)) := by ring
    rw [this]
    refine (List.perm_append_singleton _ _).trans ?_
    rw [← e2]
    exact List.reverse_perm _

/-- moving `z` points sitting at phase 1 back to phase 0 permutes the cyclic gaps -/
theorem circGaps_rotate_zeros (z : Nat) : ∀ (h : α) (X : List α),
    (circGaps (List.replicate z 0 ++ h :: X)).Perm (circGaps (h :: X ++ List.replicate z 1)) := by
  induction z with
  | zero => intro h X; simp
  | succ z ih =>
    intro h X
    have e0 : List.replicate (z + 1) (0:α) ++ h :: X = ((1:α) - 1) :: (List.replicate z 0 ++ h :: X) := by
      simp [List.replicate_succ]
    -- the tail `replicate z 0 ++ h :: X` is non-empty: write it as `h' :: X'`
    obtain ⟨h', X', hX'⟩ : ∃ h' X', List.replicate z (0:α) ++ h :: X = h' :: X' := by
      cases z with
      | zero => exact ⟨h, X, by simp⟩
      | succ z' => exact ⟨0, List.replicate z' 0 ++ h :: X, by simp [List.replicate_succ]⟩
    rw [e0, hX']
    refine (circGaps_rotate_one 1 h' X').trans ?_
    rw [← hX']
    have e1 : List.replicate z (0:α) ++ h :: X ++ [1] = List.replicate z 0 ++ h :: (X ++ [1]) := by simp
    rw [e1]
    refine (ih h (X ++ [1])).trans ?_
    have e2 : h :: (X ++ [1]) ++ List.replicate z (1:α) = h :: X ++ List.replicate (z + 1) 1 := by
      simp [List.replicate_succ]
    rw [e2]

/-- time reversal on the phase circle -/
def refl (φ : α) : α := if φ = 0 then 0 else 1 - φ

/-- the definition: largest empty arc between consecutive observations on the phase circle -/
def maxPhaseGap (l : List α) : WithBot α := (circGaps (l.insertionSort (· ≤ ·))).maximum

theorem maxPhaseGap_perm {l l' : List α} (h : l.Perm l') : maxPhaseGap l = maxPhaseGap l' := by
  unfold maxPhaseGap
  have : l.insertionSort (· ≤ ·) = l'.insertionSort (· ≤ ·) :=
    List.Perm.eq_of_pairwise' (r := (· ≤ ·)) (List.pairwise_insertionSort _ _) (List.pairwise_insertionSort _ _)
      (((List.perm_insertionSort _ l).trans h).trans (List.perm_insertionSort _ l').symm)
  rw [this]

/-- if `R` is sorted and a permutation of `l`, the sort of `l` is `R` -/
theorem sort_eq_of_sorted_perm {l R : List α} (hR : R.Pairwise (· ≤ ·)) (hp : R.Perm l) :
    l.insertionSort (· ≤ ·) = R :=
  List.Perm.eq_of_pairwise' (r := (· ≤ ·)) (List.pairwise_insertionSort _ _) hR
    ((List.perm_insertionSort _ l).trans hp.symm)

theorem maxPhaseGap_reflect (l : List α) (hl : ∀ φ ∈ l, 0 ≤ φ ∧ φ < 1) :
    maxPhaseGap (l.map refl) = maxPhaseGap l := by
  -- work with the sorted list
  set s := l.insertionSort (· ≤ ·) with hs
  have hsP : s.Pairwise (· ≤ ·) := List.pairwise_insertionSort _ _
  have hsl : s.Perm l := List.perm_insertionSort _ l
  have hsr : ∀ φ ∈ s, 0 ≤ φ ∧ φ < 1 := fun φ h => hl φ (hsl.subset h)
  set Z := s.takeWhile (· = 0) with hZ
  set Pz := s.dropWhile (· = 0) with hPz
  have hsplit : s = Z ++ Pz := (List.takeWhile_append_dropWhile).symm
  have hZ0 : ∀ x ∈ Z, x = 0 := by
    intro x hx
    have := List.mem_takeWhile_imp hx
    simpa using this
  have hZrep : Z = List.replicate Z.length 0 := List.eq_replicate_iff.mpr ⟨rfl, hZ0⟩
  -- every element of Pz is positive
  have hPzP : Pz.Pairwise (· ≤ ·) := by
    have := hsP; rw [hsplit] at this; exact (List.pairwise_append.mp this).2.1
  have hPzpos : ∀ x ∈ Pz, 0 < x := by
    intro x hx
    cases hp : Pz with
    | nil => rw [hp] at hx; cases hx
    | cons p r =>
      have hp0 : p ≠ 0 := by
        have := List.head_dropWhile_not (fun x : α => decide (x = 0)) (l := s) (by rw [← hPz, hp]; simp)
        simpa [← hPz, hp] using this
      have hpge : 0 ≤ p := (hsr p (by rw [hsplit, hp]; simp)).1
      have hppos : 0 < p := lt_of_le_of_ne hpge (Ne.symm hp0)
      rw [hp] at hx hPzP
      rcases List.mem_cons.mp hx with rfl | hxr
      · exact hppos
      · exact lt_of_lt_of_le hppos ((List.pairwise_cons.mp hPzP).1 x hxr)
  have hPzlt : ∀ x ∈ Pz, x < 1 := fun x hx => (hsr x (by rw [hsplit]; exact List.mem_append_right _ hx)).2
  -- the reflected, sorted list
  set mP := (Pz.map (1 - ·)).reverse with hmP
  have hmPmem : ∀ y ∈ mP, 0 < y := by
    intro y hy
    rw [hmP, List.mem_reverse, List.mem_map] at hy
    obtain ⟨x, hx, rfl⟩ := hy
    linarith [hPzlt x hx]
  have hmPsorted : mP.Pairwise (· ≤ ·) := by
    rw [hmP, List.pairwise_reverse, List.pairwise_map]
    exact hPzP.imp (fun {a b} hab => by linarith)
  have hRsorted : (Z ++ mP).Pairwise (· ≤ ·) := by
    rw [List.pairwise_append]
    refine ⟨?_, hmPsorted, ?_⟩
    · rw [hZrep]; exact List.pairwise_replicate.mpr (Or.inr le_rfl)
    · intro x hx y hy; rw [hZ0 x hx]; exact (hmPmem y hy).le
  have hRperm : (Z ++ mP).Perm (l.map refl) := by
    have h1 : (s.map refl).Perm (l.map refl) := hsl.map _
    refine List.Perm.trans ?_ h1
    rw [hsplit, List.map_append]
    refine List.Perm.append ?_ ?_
    · have : Z.map refl = Z := by
        conv_rhs => rw [← List.map_id Z]
        apply List.map_congr_left
        intro x hx; simp [refl, hZ0 x hx]
      rw [this]
    · have : Pz.map refl = Pz.map (1 - ·) := by
        apply List.map_congr_left
        intro x hx; simp [refl, (hPzpos x hx).ne']
      rw [this, hmP]; exact List.reverse_perm _
  have hsortR : (l.map refl).insertionSort (· ≤ ·) = Z ++ mP := sort_eq_of_sorted_perm hRsorted hRperm
  unfold maxPhaseGap
  rw [hsortR, ← hs]
  apply List.Perm.maximum_eq
  -- circGaps (Z ++ mP) ~ circGaps (mirror s) ~ circGaps s
  have hmirror : (s.map (1 - ·)).reverse = mP ++ List.replicate Z.length 1 := by
    rw [hsplit, List.map_append, List.reverse_append, ← hmP]
    congr 1
    rw [hZrep]; simp
  cases hm : mP with
  | nil =>
    -- no positive phases: s = Z, reflection is the identity
    have hPznil : Pz = [] := by
      have : (Pz.map (1 - ·)).reverse = [] := by rw [← hmP, hm]
      simpa using this
    rw [hsplit, hPznil]
  | cons h X =>
    rw [hZrep]
    refine (circGaps_rotate_zeros Z.length h X).trans ?_
    rw [← hm, ← hmirror]
    exact circGaps_mirror s

#print axioms maxPhaseGap_reflect
end Diag
