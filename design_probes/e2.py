import warnings; warnings.filterwarnings("ignore")
import numpy as np, astropy.units as u
import thejoker as tj
from thejoker.thejoker import TheJoker
from astropy.time import Time
import pymc as pm, thejoker.units as xu
from thejoker.data_helpers import validate_prepare_data
rng = np.random.default_rng(1)
# (d) ids misalignment
t1 = np.array([55000., 55010., 55020.]); t2 = np.array([55005., 55015.])
d1 = tj.RVData(t1, [1,2,3]*u.km/u.s, [.1,.1,.1]*u.km/u.s)
d2 = tj.RVData(t2, [10,20]*u.km/u.s, [.2,.2]*u.km/u.s)
all_data, ids, M = validate_prepare_data([d1,d2], 1, 1)
print("t", all_data._t_bmjd, "rv", all_data.rv.value, "ids", ids); print(M)
# (h) copy t_ref
d = tj.RVData(t1, [1,2,3]*u.km/u.s, [.1,.1,.1]*u.km/u.s, t_ref=Time(54000., format='mjd', scale='tcb'))
print("copy t_ref", d._t_ref_bmjd, d.copy()._t_ref_bmjd)
# (g) max_phase_gap wrap
from thejoker.samples_analysis import max_phase_gap, phase_coverage, periods_spanned
s = tj.JokerSamples(); s['P']=[10.]*u.day
dd = tj.RVData(np.array([55000., 55001., 55002.]), [1,2,3]*u.km/u.s, [.1,.1,.1]*u.km/u.s)
print("mpg", max_phase_gap(s[0], dd), "expected 0.8")
# (f) UniformLog logp
from thejoker.distributions import UniformLog, FixedCompanionMass
x = UniformLog.dist(2., 100.)
print("logp(10)", pm.logp(x, 10.).eval(), "expected", -np.log(10)-np.log(np.log(100/2)))
print("logp(1000) outside", pm.logp(x, 1000.).eval(), pm.logp(x, 1.).eval())
