import warnings; warnings.filterwarnings("ignore")
import sys, time, importlib
import numpy as np
sys.path.insert(0, "/tmp/exp")
from pyxtrans_proto import load_twin
use_twin = sys.argv[1] == "twin"
if use_twin:
    # need parent packages importable: import thejoker.src package shell first without importing thejoker top (which imports fast_likelihood)
    import types, importlib.util
    from pyxtrans_proto import install_twin
    install_twin("/repo/thejoker/src/fast_likelihood.pyx")
import astropy.units as u
import thejoker as tj
from thejoker.thejoker import TheJoker
import thejoker.src.fast_likelihood as fl
print("module:", fl.__spec__.origin, getattr(fl, "__twin__", False))
rng = np.random.default_rng(1)
n=8
t = 55000 + np.sort(rng.uniform(0, 300, n))
data = tj.RVData(t, rng.normal(0, 10, n) * u.km/u.s, rng.uniform(0.5, 1, n) * u.km/u.s)
prior = tj.JokerPrior.default(P_min=2*u.day, P_max=256*u.day, sigma_K0=30*u.km/u.s, sigma_v=[100*u.km/u.s, 1*u.km/u.s/u.day], poly_trend=2)
ps = prior.sample(size=300, rng=np.random.default_rng(3), return_logprobs=True)
j = TheJoker(prior, rng=np.random.default_rng(5))
t0=time.time(); ll = j.marginal_ln_likelihood(data, ps, in_memory=True); print("time", time.time()-t0)
np.save(f"/tmp/exp/ll_{sys.argv[1]}.npy", ll)
s = j.rejection_sample(data, ps, return_logprobs=True, n_linear_samples=2)
print(s); np.save(f"/tmp/exp/s_{sys.argv[1]}.npy", np.array([s[k].value for k in ['P','K','v0','v1','ln_likelihood']]))
import schwimmbad
with schwimmbad.MultiPool(2) as pool:
    j = TheJoker(prior, rng=np.random.default_rng(5), pool=pool)
    ll2 = j.marginal_ln_likelihood(data, ps, n_batches=3); print("mp equal", np.array_equal(ll, ll2))
