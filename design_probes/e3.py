import warnings; warnings.filterwarnings("ignore")
import numpy as np, astropy.units as u, tempfile, os
import thejoker as tj
from thejoker.thejoker import TheJoker
from astropy.time import Time
import pymc as pm, thejoker.units as xu
rng = np.random.default_rng(1)
n=6
t = 55000 + np.sort(rng.uniform(0, 300, n))
rv = rng.normal(0, 10, n) * u.km/u.s
err = rng.uniform(0.5, 1, n) * u.km/u.s
data = tj.RVData(t, rv, err)
def mk(P,e,om,M0,s, Punit=u.day):
    s_ = tj.JokerSamples()
    s_['P']=([P]*u.day).to(Punit); s_['e']=[e]*u.one; s_['omega']=[om]*u.rad; s_['M0']=[M0]*u.rad; s_['s']=[s]*u.km/u.s
    return s_
# (c) P prior in years
p_day = tj.JokerPrior.default(P_min=2*u.day, P_max=256*u.day, sigma_K0=30*u.km/u.s, sigma_v=100*u.km/u.s)
p_yr = tj.JokerPrior.default(P_min=(2*u.day).to(u.yr), P_max=(256*u.day).to(u.yr), sigma_K0=30*u.km/u.s, sigma_v=100*u.km/u.s)
for pr,nm in [(p_day,'day'),(p_yr,'yr')]:
    j = TheJoker(pr, rng=np.random.default_rng(0))
    print(nm, j.marginal_ln_likelihood(data, mk(30.,0.3,1.,2.,0.), in_memory=True))
# data in m/s
data_ms = tj.RVData(t, rv.to(u.m/u.s), err.to(u.m/u.s))
j = TheJoker(p_day)
print("m/s", j.marginal_ln_likelihood(data_ms, mk(30.,0.3,1.,2.,0.), in_memory=True), "expect diff", -n*np.log(1000))
# (e) file path return_logprobs
ps = p_day.sample(size=500, rng=np.random.default_rng(3), return_logprobs=True)
with tempfile.TemporaryDirectory() as d:
    fn = os.path.join(d, "ps.hdf5"); ps.write(fn)
    j = TheJoker(p_day, rng=np.random.default_rng(5))
    try:
        s = j.rejection_sample(data, fn, return_logprobs=True)
        print(s, s['ln_prior'][:3], s['ln_prior'].dtype)
    except Exception as ex:
        print("file-path return_logprobs EXC", type(ex), ex)
    j = TheJoker(p_day, rng=np.random.default_rng(5))
    s = j.rejection_sample(data, ps, return_logprobs=True, in_memory=True)
    print(s, s['ln_prior'][:3])
    # (i) iterative
    j = TheJoker(p_day, rng=np.random.default_rng(5))
    try:
        s = j.iterative_rejection_sample(data, ps, n_requested_samples=2, init_batch_size=100, in_memory=True, return_logprobs=True)
        print("iter inmem", type(s), s)
    except Exception as ex: print("iter inmem EXC", type(ex), ex)
    try:
        s = j.iterative_rejection_sample(data, fn, n_requested_samples=2, init_batch_size=100, return_logprobs=True)
        print("iter file", type(s), s)
    except Exception as ex: print("iter file EXC", type(ex), ex)
