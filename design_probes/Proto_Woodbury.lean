import Mathlib.LinearAlgebra.Matrix.NonsingularInverse
import Mathlib.LinearAlgebra.Matrix.SchurComplement

open Matrix

variable {α : Type} [Field α] {n k : ℕ}

/-- Woodbury in the shape the kernel uses. -/
theorem kernel_woodbury (M : Matrix (Fin n) (Fin k) α) (c : Fin n → α) (lam : Fin k → α)
    (hc : ∀ i, c i ≠ 0) (hl : ∀ j, lam j ≠ 0)
    (hA : IsUnit (diagonal (fun j => (lam j)⁻¹) + Mᵀ * diagonal c * M).det) :
    (diagonal c - diagonal c * M * (diagonal (fun j => (lam j)⁻¹) + Mᵀ * diagonal c * M)⁻¹ * Mᵀ * diagonal c)
      * (diagonal (fun i => (c i)⁻¹) + M * diagonal lam * Mᵀ) = 1 := by
  set C := diagonal c with hC
  set Ci := diagonal (fun i => (c i)⁻¹) with hCi
  set L := diagonal lam with hL
  set Li := diagonal (fun j => (lam j)⁻¹) with hLi
  have h1 : C * Ci = 1 := by
    simp [hC, hCi, diagonal_mul_diagonal, hc, ← diagonal_one]
  have h1' : Ci * C = 1 := by
    simp [hC, hCi, diagonal_mul_diagonal, hc, ← diagonal_one]
  have h2 : L * Li = 1 := by
    simp [hL, hLi, diagonal_mul_diagonal, hl, ← diagonal_one]
  have h2' : Li * L = 1 := by
    simp [hL, hLi, diagonal_mul_diagonal, hl, ← diagonal_one]
  set A := (Li + Mᵀ * C * M)⁻¹ with hAdef
  have hAinv : A * (Li + Mᵀ * C * M) = 1 := Matrix.nonsing_inv_mul _ hA
  -- key: A * Mᵀ = ... 
  have key : A * Mᵀ * C * (Ci + M * L * Mᵀ) = L * Mᵀ := by
    have : Mᵀ * C * (Ci + M * L * Mᵀ) = (Li + Mᵀ * C * M) * (L * Mᵀ) := by
      rw [Matrix.mul_add, Matrix.add_mul]
      rw [Matrix.mul_assoc Mᵀ C Ci, h1, Matrix.mul_one]
      rw [← Matrix.mul_assoc Li L, h2', Matrix.one_mul]
      simp only [Matrix.mul_assoc]
    calc A * Mᵀ * C * (Ci + M * L * Mᵀ) = A * (Mᵀ * C * (Ci + M * L * Mᵀ)) := by
          simp only [Matrix.mul_assoc]
      _ = A * ((Li + Mᵀ * C * M) * (L * Mᵀ)) := by rw [this]
      _ = (A * (Li + Mᵀ * C * M)) * (L * Mᵀ) := (Matrix.mul_assoc _ _ _).symm
      _ = L * Mᵀ := by rw [hAinv, Matrix.one_mul]
  calc (C - C * M * A * Mᵀ * C) * (Ci + M * L * Mᵀ)
      = C * (Ci + M * L * Mᵀ) - C * M * (A * Mᵀ * C * (Ci + M * L * Mᵀ)) := by
        rw [Matrix.sub_mul]; simp only [Matrix.mul_assoc]
    _ = C * (Ci + M * L * Mᵀ) - C * M * (L * Mᵀ) := by rw [key]
    _ = 1 := by
        rw [Matrix.mul_add, h1]; simp only [Matrix.mul_assoc]; abel

#print axioms kernel_woodbury
