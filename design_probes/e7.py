import warnings; warnings.filterwarnings("ignore")
import numpy as np, astropy.units as u, tempfile, os, time
import thejoker as tj
from thejoker.thejoker import TheJoker
import pymc as pm, thejoker.units as xu
from twobody.wrap import cy_rv_from_elements
from thejoker.data_helpers import validate_prepare_data
rng = np.random.default_rng(1)
n=6
t = 55000 + np.sort(rng.uniform(0, 300, n))
rv = rng.normal(0, 10, n) * u.km/u.s
err = rng.uniform(0.5, 1, n) * u.km/u.s
data = tj.RVData(t, rv, err)
def mk(P,e,om,M0,s):
    s_ = tj.JokerSamples()
    s_['P']=[P]*u.day; s_['e']=[e]*u.one; s_['omega']=[om]*u.rad; s_['M0']=[M0]*u.rad; s_['s']=[s]*u.km/u.s
    return s_
with pm.Model() as model:
    K = xu.with_unit(pm.Normal("K", 0., 20.), u.km/u.s)
    dv = xu.with_unit(pm.Normal("dv0_1", 0., 5.), u.km/u.s)
    pr2 = tj.JokerPrior.default(P_min=2*u.day, P_max=256*u.day, sigma_v=100*u.km/u.s, v0_offsets=[dv], pars={"K":K})
d1 = data[:3]; d2 = data[3:]   # not interleaved: labels are right
j2 = TheJoker(pr2)
ll = j2.marginal_ln_likelihood([d1,d2], mk(30.,0.3,1.,2.,0.), in_memory=True)
h = j2._make_joker_helper([d1,d2])
ad, ids, tm = validate_prepare_data([d1,d2],1,1)
kcol = np.array(cy_rv_from_elements(np.ascontiguousarray(ad._t_bmjd), 30., 1., .3, 1., 2., ad._t_ref_bmjd, 1e-10, 128))
M = np.hstack([kcol[:,None], tm]); y=ad.rv.value; C=np.diag(ad.rv_err.value**2)
Lam = np.diag([20.**2, 100.**2, 5.**2]); B = C + M@Lam@M.T
sgn, ld = np.linalg.slogdet(2*np.pi*B); ref = -0.5*(y@np.linalg.solve(B,y)+ld)
print("custom K+offset impl", ll, "closed", ref)
print("helper B[0,:3]", np.array(h.B)[0,:3])
# default K + offsets okay?
with pm.Model() as model:
    dv = xu.with_unit(pm.Normal("dv0_1", 0., 5.), u.km/u.s)
    pr3 = tj.JokerPrior.default(P_min=2*u.day, P_max=256*u.day, sigma_K0=30*u.km/u.s, sigma_v=100*u.km/u.s, v0_offsets=[dv])
j3 = TheJoker(pr3, rng=np.random.default_rng(0))
ll = j3.marginal_ln_likelihood([d1,d2], mk(30.,0.3,1.,2.,0.), in_memory=True)
varK = min(30.**2*(30/365.25)**(-2/3)/(1-.09), 500.**2)
Lam = np.diag([varK, 100.**2, 5.**2]); B = C + M@Lam@M.T
sgn, ld = np.linalg.slogdet(2*np.pi*B); ref = -0.5*(y@np.linalg.solve(B,y)+ld)
print("default K+offset impl", ll, "closed", ref)
# C04 offsets: unmarginalized likelihood with offsets
ps = pr3.sample(size=2000, rng=np.random.default_rng(3), return_logprobs=True)
s = j3.rejection_sample([d1,d2], ps, return_logprobs=True, in_memory=True)
print(s, len(s))
try:
    print("unmarg on merged", s.ln_unmarginalized_likelihood(ad)[:3])
except Exception as ex: print("EXC", type(ex), ex)
o = s.get_orbit(0); print("orbit rv", o.radial_velocity(ad.t)[:6]); print(s.tbl[0])
