"""C11 / finding 3 (minor): setup_mcmc converts every parameter from the prior's declared unit to the internal
unit EXCEPT the eccentricity. JokerPrior accepts any unit equivalent to dimensionless for e (e.g. u.percent), the
sampler converts it (JokerSamples.pack -> u.one), setup_mcmc passes the raw variable to KeplerianOrbit.
Run from the worktree root:  /venv/bin/python HUNT/demo_3.py"""
import os, sys, warnings
sys.path.insert(0, os.getcwd())
warnings.filterwarnings("ignore")
import numpy as np, astropy.units as u, pymc as pm, pytensor, pytensor.tensor as pt
from astropy.time import Time
from pytensor.graph.replace import graph_replace
from twobody.wrap import cy_rv_from_elements   # the Kepler routine the rejection sampler's kernel calls
import thejoker as tj, thejoker.units as xu
assert os.path.abspath(tj.__file__).startswith(os.getcwd()), tj.__file__

rng = np.random.default_rng(5)
t = Time(58000.0 + np.sort(rng.uniform(0, 200, 10)), format="mjd", scale="tcb")
data = tj.RVData(t, rng.normal(0, 5, 10) * u.km / u.s, np.full(10, 0.2) * u.km / u.s)

with pm.Model() as model:
    e = xu.with_unit(pm.Uniform("e", 0, 90), u.percent)            # eccentricity in per cent: accepted by JokerPrior
    K = xu.with_unit(pm.Normal("K", 0, 30), u.km / u.s)
    prior = tj.JokerPrior.default(P_min=2 * u.day, P_max=256 * u.day, sigma_v=100 * u.km / u.s, pars={"e": e, "K": K})
joker = tj.TheJoker(prior, rng=rng)

ps = prior.sample(4, rng=rng)
packed, _ = ps.pack()
print("prior sample e:", ps["e"][:2], " -> value the sampler's kernel receives:", packed[:2, 1])

sample = tj.JokerSamples(t_ref=data.t_ref)
sample["P"] = [17.3] * u.day; sample["e"] = [0.5] * u.percent
sample["omega"] = [1.1] * u.rad; sample["M0"] = [2.2] * u.rad
sample["s"] = [0.0] * u.km / u.s; sample["K"] = [8.0] * u.km / u.s; sample["v0"] = [3.0] * u.km / u.s
with model:
    init = joker.setup_mcmc(data, sample)
print("mcmc_init e =", float(init["e"]), "(per cent, the prior's unit: correct)")

# the sampler's model for this sample (e converted to 0.005)
rv_sampler = np.array(cy_rv_from_elements(np.ascontiguousarray(data._t_bmjd), 17.3, 8.0, 0.005, 1.1, 2.2,
                                          data._t_ref_bmjd, 1e-10, 128)) + 3.0
keys = [k for k in init if k != "s"]
ins = [pt.dscalar(k) for k in keys]
try:
    fn = pytensor.function(ins, graph_replace(model["model_rv"], {model[k]: i for k, i in zip(keys, ins)}, strict=False))
    rv_model = fn(*[float(init[k]) for k in keys])
    d = np.abs(rv_model - rv_sampler).max()
    print(f"max |model_rv - sampler's model| = {d:.3e} km/s")
    bad = d > 1e-6
except Exception as ex:
    print("evaluating the pymc model at the initial point raises:", type(ex).__name__, str(ex).splitlines()[0])
    bad = True
if bad:
    print("FAIL: the pymc model uses e = 0.5 (the raw number of per cent) where the sampler uses e = 0.005;\n"
          "      for e > 1 per cent the model cannot even be evaluated (Kepler solver: eccentricity must be in [0, 1))")
    sys.exit(1)
print("OK")
