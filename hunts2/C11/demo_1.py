"""C11 / finding 1: with the DEFAULT prior, the initial point returned by setup_mcmc does not fix omega and M0
in the pymc model: they are pm.Deterministic's (pymc_ext.angle), the dict has no entry for the free variables
behind them, and pymc silently ignores the 'omega' / 'M0' keys. The chain therefore starts at omega = M0 = 0,
i.e. NOT at the chosen sample.   Run from the worktree root:  /venv/bin/python HUNT/demo_1.py"""
import os, sys, warnings
sys.path.insert(0, os.getcwd())
warnings.filterwarnings("ignore")
import numpy as np, astropy.units as u, pymc as pm
from astropy.time import Time
from pymc.initial_point import make_initial_point_fn
import thejoker as tj
assert os.path.abspath(tj.__file__).startswith(os.getcwd()), tj.__file__

rng = np.random.default_rng(42)
t = Time(58000.0 + np.sort(rng.uniform(0, 200, 12)), format="mjd", scale="tcb")
data = tj.RVData(t, rng.normal(0, 5, 12) * u.km / u.s, np.full(12, 0.2) * u.km / u.s)

with pm.Model() as model:
    prior = tj.JokerPrior.default(P_min=2 * u.day, P_max=256 * u.day, sigma_K0=30 * u.km / u.s, sigma_v=100 * u.km / u.s)
joker = tj.TheJoker(prior, rng=rng)

# one posterior sample, exactly as the sampler returns it (same columns, units and t_ref = data.t_ref)
sample = tj.JokerSamples(t_ref=data.t_ref)
sample["P"] = [17.3] * u.day; sample["e"] = [0.3] * u.one
sample["omega"] = [1.1] * u.rad; sample["M0"] = [2.2] * u.rad
sample["s"] = [0.0] * u.m / u.s; sample["K"] = [8.0] * u.km / u.s; sample["v0"] = [3.0] * u.km / u.s

with model:
    mcmc_init = joker.setup_mcmc(data, sample)
print("mcmc_init =", {k: float(v) for k, v in mcmc_init.items()})
print("free variables of the model:", [v.name for v in model.free_RVs])

# what pm.sample(initvals=mcmc_init) starts from (this is the function pm.sample uses to build the start point)
ip = make_initial_point_fn(model=model, overrides=mcmc_init, jitter_rvs=set(), return_transformed=False)(0)
print("pymc initial point:", {k: round(float(v), 4) for k, v in ip.items()})
from pytensor.graph.replace import graph_replace
import pytensor, pytensor.tensor as pt
outs = [model[n] for n in ("omega", "M0", "P", "e", "K", "model_rv")]
repl = {rv: pt.constant(np.float64(ip[rv.name])) for rv in model.free_RVs}
om0, M00, P0, e0, K0, rv0 = pytensor.function([], graph_replace(outs, repl, strict=False))()
print(f"start point of the chain: P={float(P0):.4f} e={float(e0):.4f} K={float(K0):.4f} omega={float(om0):.4f} M0={float(M00):.4f}")

# independent reference: the orbit of the chosen sample (twobody)
rv_ref = sample.get_orbit(0).radial_velocity(data.t).to_value(u.km / u.s)
d_rv = np.abs(np.asarray(rv0) - rv_ref).max()
d_ang = max(abs(np.angle(np.exp(1j * (float(om0) - 1.1)))), abs(np.angle(np.exp(1j * (float(M00) - 2.2)))))
print(f"expected omega=1.1, M0=2.2 ; max |model_rv(start) - RV curve of the chosen sample| = {d_rv:.3f} km/s (K = 8 km/s)")
if d_ang > 1e-8 or d_rv > 1e-6:
    print("FAIL: the initial point handed to pymc is not the chosen sample (omega, M0 are dropped)")
    sys.exit(1)
print("OK")
