"""C11 / finding 2: setup_mcmc ignores the reference epoch of the samples. M0 (and, for poly_trend > 1, v0, v1, ...)
of a JokerSamples object are defined relative to samples.t_ref, the pymc model is built relative to data.t_ref.
When the two differ (e.g. the first epoch was dropped from the data, the data were re-made with another / an
explicit t_ref, or a one-element list of data is passed) the returned initial point is silently a different orbit.
Run from the worktree root:  /venv/bin/python HUNT/demo_2.py"""
import os, sys, warnings
sys.path.insert(0, os.getcwd())
warnings.filterwarnings("ignore")
import numpy as np, astropy.units as u, pymc as pm, pytensor, pytensor.tensor as pt
from astropy.time import Time
from pytensor.graph.replace import graph_replace
import thejoker as tj
assert os.path.abspath(tj.__file__).startswith(os.getcwd()), tj.__file__

rng = np.random.default_rng(3)
t = Time(58000.0 + np.sort(rng.uniform(0, 200, 14)), format="mjd", scale="tcb")
data = tj.RVData(t, rng.normal(0, 5, 14) * u.km / u.s, np.full(14, 0.2) * u.km / u.s)   # t_ref = first epoch

# a posterior sample for `data`, exactly as the sampler returns it (t_ref = data.t_ref)
sample = tj.JokerSamples(t_ref=data.t_ref, poly_trend=2)
sample["P"] = [17.3] * u.day; sample["e"] = [0.3] * u.one
sample["omega"] = [1.1] * u.rad; sample["M0"] = [2.2] * u.rad
sample["s"] = [0.0] * u.km / u.s; sample["K"] = [8.0] * u.km / u.s
sample["v0"] = [3.0] * u.km / u.s; sample["v1"] = [0.05] * u.km / u.s / u.day

worst = 0.0
for label, data_mcmc in [("same data", data),
                         ("data without its first epoch (data[1:])", data[1:]),
                         ("same epochs, explicit t_ref", tj.RVData(data.t, data.rv, data.rv_err, t_ref=Time(58000.0, format="mjd", scale="tcb")))]:
    with pm.Model() as model:
        prior = tj.JokerPrior.default(P_min=2 * u.day, P_max=256 * u.day, sigma_K0=30 * u.km / u.s,
                                      sigma_v=[100 * u.km / u.s, 1 * u.km / u.s / u.day], poly_trend=2)
        joker = tj.TheJoker(prior, rng=rng)
        init = joker.setup_mcmc(data_mcmc, sample)
    # model_rv at the returned point (omega / M0 substituted directly, so this is independent of finding 1)
    repl = {model[k]: pt.constant(np.float64(v)) for k, v in init.items() if k != "s"}
    rv_model = pytensor.function([], graph_replace(model["model_rv"], repl, strict=False))()
    # independent reference: the chosen sample's own orbit + trend (twobody), at the same epochs
    rv_ref = sample.get_orbit(0).radial_velocity(data_mcmc.t).to_value(u.km / u.s)
    d = np.abs(rv_model - rv_ref).max()
    print(f"{label:45s} samples.t_ref={sample.t_ref.tcb.mjd:.3f} data.t_ref={data_mcmc.t_ref.tcb.mjd:.3f} "
          f"M0 returned={float(init['M0']):.3f}  max|model_rv(init) - RV of the sample| = {d:.3e} km/s")
    worst = max(worst, d)
if worst > 1e-6:
    print("FAIL: the returned initial point is not the chosen sample's orbit when samples.t_ref != data.t_ref "
          "(no conversion, no error)")
    sys.exit(1)
print("OK")
