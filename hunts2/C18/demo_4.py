"""C18 demo 4: FixedCompanionMass priors are exempt from the "independent" check altogether.
(a) its mean `mu` may be another random variable -> the kernel evaluates it ONCE;
(b) it may be built on period / eccentricity variables that are NOT the prior's P and e ->
    the kernel nevertheless computes sigma_K from the sample's own P and e.

Run from the worktree root:  /venv/bin/python HUNT/demo_4.py
exit 0: both refused (or exact);  exit 1 otherwise.
"""
import os, sys
# ---- runtime set-up and an independent closed-form marginal likelihood ----
import os
import sys
import warnings

sys.path.insert(0, os.getcwd())
sys.path.insert(0, "/tmp/seedtools")
warnings.simplefilter("ignore")
import pyx_runtime  # noqa: E402

pyx_runtime.install_twin(os.path.join(os.getcwd(), "thejoker/src/fast_likelihood.pyx"))

import astropy.units as u  # noqa: E402
import numpy as np  # noqa: E402
from astropy.time import Time  # noqa: E402
from scipy.stats import multivariate_normal  # noqa: E402

import thejoker as tj  # noqa: E402

assert os.path.dirname(os.path.dirname(tj.__file__)) == os.getcwd(), tj.__file__


def kepler_basis(t, t_ref, P, e, omega, M0):
    """Unit-amplitude Keplerian RV curve, own Newton solver (The Joker's convention)."""
    M = 2 * np.pi * (t - t_ref) / P - M0
    E = M.copy()
    for _ in range(200):
        E = E - (E - e * np.sin(E) - M) / (1 - e * np.cos(E))
    f = 2 * np.arctan2(np.sqrt(1 + e) * np.sin(E / 2), np.sqrt(1 - e) * np.cos(E / 2))
    return np.cos(f + omega) + e * np.cos(omega)


def closed_form(t, t_ref, y, err, P, e, omega, M0, s, mu, sig, extra_cols=()):
    """ln N(y | M mu, C + M diag(sig^2) M^T) with M = [kepler, 1, *extra_cols]."""
    cols = [kepler_basis(t, t_ref, P, e, omega, M0), np.ones_like(t), *extra_cols]
    M = np.stack(cols, axis=1)
    mu = np.asarray(mu, float)
    sig = np.asarray(sig, float)
    C = np.diag(err**2 + s**2) + M @ np.diag(sig**2) @ M.T
    return multivariate_normal(mean=M @ mu, cov=C).logpdf(y)


def make_data(n=12, seed=42, off=0.0):
    rng = np.random.default_rng(seed)
    t = 58000 + np.sort(rng.uniform(0, 300, n))
    y = rng.normal(0, 10, n) + off
    err = np.full(n, 1.0)
    data = tj.RVData(Time(t, format="mjd", scale="tcb"), y * u.km / u.s, err * u.km / u.s)
    return data, t, y, err


def sample_pars(ps, i):
    return (
        ps["P"][i].to_value(u.day),
        ps["e"][i].to_value(u.one),
        ps["omega"][i].to_value(u.rad),
        ps["M0"][i].to_value(u.rad),
    )
# ---- end of set-up ----
import pymc as pm
import thejoker.units as xu
from thejoker import JokerPrior
from thejoker.distributions import FixedCompanionMass, UniformLog

data, t, y, err = make_data()
bad = False

print("(a) K ~ FixedCompanionMass(mu=z), z ~ Normal(0, 20): marginal prior of K has variance sigma_K^2 + 20^2")
try:
    with pm.Model():
        P = xu.with_unit(UniformLog("P", 1.0, 100.0), u.day)
        e = xu.with_unit(pm.Uniform("e", 0.0, 0.5), u.one)
        z = pm.Normal("z", 0.0, 20.0)
        K = xu.with_unit(FixedCompanionMass("K", P=P, e=e, sigma_K0=30 * u.km / u.s,
                                            P0=1 * u.yr, mu=z), u.km / u.s)
        prior = JokerPrior.default(sigma_v=100 * u.km / u.s, pars={"K": K, "P": P, "e": e})
    print("  accepted:", prior)
    joker = tj.TheJoker(prior, rng=np.random.default_rng(1))
    ps = prior.sample(size=5, rng=np.random.default_rng(3))
    ll = joker.marginal_ln_likelihood(data, ps, in_memory=True)
    worst = 0.0
    for i in range(len(ps)):
        P_, e_, om_, M0_ = sample_pars(ps, i)
        sK = min(30.0 * (P_ / 365.25) ** (-1 / 3) / np.sqrt(1 - e_**2), 500.0)
        cf = closed_form(t, data._t_ref_bmjd, y, err, P_, e_, om_, M0_, 0.0,
                         [0.0, 0.0], [np.hypot(sK, 20.0), 100.0])
        worst = max(worst, abs(ll[i] - cf))
    print(f"  max |kernel lnL - exact lnL of the declared model| = {worst:.3e}")
    bad |= worst > 1e-6
except (ValueError, TypeError) as exc:
    print("  refused:", exc)

print("(b) K ~ FixedCompanionMass(P=P_other, e=e_other) with P_other, e_other not the prior's P, e")
try:
    with pm.Model():
        P2 = xu.with_unit(pm.Uniform("P_other", 300.0, 400.0), u.day)
        e2 = pm.Uniform("e_other", 0.0, 0.1)
        K = xu.with_unit(FixedCompanionMass("K", P=P2, e=e2, sigma_K0=30 * u.km / u.s,
                                            P0=1 * u.yr), u.km / u.s)
        prior = JokerPrior.default(P_min=1 * u.day, P_max=4 * u.day, sigma_v=100 * u.km / u.s,
                                   pars={"K": K})
    print("  accepted:", prior)
    kd = prior.sample(20000, generate_linear=True, rng=np.random.default_rng(0))
    sd_decl = float(np.std(kd["K"].to_value(u.km / u.s)))
    print(f"  declared prior: K independent of P, std(K) = {sd_decl:.1f} km/s for every sample")
    joker = tj.TheJoker(prior, rng=np.random.default_rng(1))
    ps = prior.sample(size=5, rng=np.random.default_rng(3))
    ll = joker.marginal_ln_likelihood(data, ps, in_memory=True)
    worst = 0.0
    for i in range(len(ps)):
        P_, e_, om_, M0_ = sample_pars(ps, i)
        # declared model, K | (P_other, e_other) integrated over them by quadrature on a grid
        Pg, eg = np.meshgrid(np.linspace(300, 400, 21), np.linspace(0, 0.1, 11))
        vals = [closed_form(t, data._t_ref_bmjd, y, err, P_, e_, om_, M0_, 0.0, [0.0, 0.0],
                            [30.0 * (p / 365.25) ** (-1 / 3) / np.sqrt(1 - q**2), 100.0])
                for p, q in zip(Pg.ravel(), eg.ravel())]
        cf = np.logaddexp.reduce(vals) - np.log(len(vals))
        worst = max(worst, abs(ll[i] - cf))
        print(f"    P={P_:.3f} d kernel lnL={ll[i]:.4f}  declared model lnL={cf:.4f}")
    bad |= worst > 1e-3
except (ValueError, TypeError) as exc:
    print("  refused:", exc)

if bad:
    print("WRONG: accepted FixedCompanionMass priors for which the marginalisation is not exact")
    sys.exit(1)
print("OK")
sys.exit(0)
