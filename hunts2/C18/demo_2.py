"""C18 demo 2: JokerPrior validates pars[name], but the likelihood kernel reads
prior.model[name]. When a prior is entered under a key that is not the pymc variable's own
name (unavoidable for a second prior in the same pymc model: pymc names are unique), the
validated Normal is ignored and whatever variable of that NAME lives in the model is used
-- unvalidated, even when it is not Normal.

Run from the worktree root:  /venv/bin/python HUNT/demo_2.py
exit 0: refused, or the kernel is exact for the declared priors;  exit 1 otherwise.
"""
import os, sys
# ---- runtime set-up and an independent closed-form marginal likelihood ----
import os
import sys
import warnings

sys.path.insert(0, os.getcwd())
sys.path.insert(0, "/tmp/seedtools")
warnings.simplefilter("ignore")
import pyx_runtime  # noqa: E402

pyx_runtime.install_twin(os.path.join(os.getcwd(), "thejoker/src/fast_likelihood.pyx"))

import astropy.units as u  # noqa: E402
import numpy as np  # noqa: E402
from astropy.time import Time  # noqa: E402
from scipy.stats import multivariate_normal  # noqa: E402

import thejoker as tj  # noqa: E402

assert os.path.dirname(os.path.dirname(tj.__file__)) == os.getcwd(), tj.__file__


def kepler_basis(t, t_ref, P, e, omega, M0):
    """Unit-amplitude Keplerian RV curve, own Newton solver (The Joker's convention)."""
    M = 2 * np.pi * (t - t_ref) / P - M0
    E = M.copy()
    for _ in range(200):
        E = E - (E - e * np.sin(E) - M) / (1 - e * np.cos(E))
    f = 2 * np.arctan2(np.sqrt(1 + e) * np.sin(E / 2), np.sqrt(1 - e) * np.cos(E / 2))
    return np.cos(f + omega) + e * np.cos(omega)


def closed_form(t, t_ref, y, err, P, e, omega, M0, s, mu, sig, extra_cols=()):
    """ln N(y | M mu, C + M diag(sig^2) M^T) with M = [kepler, 1, *extra_cols]."""
    cols = [kepler_basis(t, t_ref, P, e, omega, M0), np.ones_like(t), *extra_cols]
    M = np.stack(cols, axis=1)
    mu = np.asarray(mu, float)
    sig = np.asarray(sig, float)
    C = np.diag(err**2 + s**2) + M @ np.diag(sig**2) @ M.T
    return multivariate_normal(mean=M @ mu, cov=C).logpdf(y)


def make_data(n=12, seed=42, off=0.0):
    rng = np.random.default_rng(seed)
    t = 58000 + np.sort(rng.uniform(0, 300, n))
    y = rng.normal(0, 10, n) + off
    err = np.full(n, 1.0)
    data = tj.RVData(Time(t, format="mjd", scale="tcb"), y * u.km / u.s, err * u.km / u.s)
    return data, t, y, err


def sample_pars(ps, i):
    return (
        ps["P"][i].to_value(u.day),
        ps["e"][i].to_value(u.one),
        ps["omega"][i].to_value(u.rad),
        ps["M0"][i].to_value(u.rad),
    )
# ---- end of set-up ----
import pymc as pm
import thejoker.units as xu
from thejoker import JokerPrior

data, t, y, err = make_data()
bad = False

def sigma_K_fcm(P, e):  # default FixedCompanionMass prior: sigma_K0=30 km/s, P0=1 yr, max_K=500
    return min(30.0 * (P / 365.25) ** (-1 / 3) / np.sqrt(1 - e**2), 500.0)

def check(label, prior, mu_v0, sig_v0):
    global bad
    joker = tj.TheJoker(prior, rng=np.random.default_rng(1))
    ps = prior.sample(size=5, rng=np.random.default_rng(3))
    ll = joker.marginal_ln_likelihood(data, ps, in_memory=True)
    worst = 0.0
    for i in range(len(ps)):
        P_, e_, om_, M0_ = sample_pars(ps, i)
        cf = closed_form(t, data._t_ref_bmjd, y, err, P_, e_, om_, M0_, 0.0,
                         [0.0, mu_v0], [sigma_K_fcm(P_, e_), sig_v0])
        worst = max(worst, abs(ll[i] - cf))
    print(f"  {label}: max |kernel lnL - exact lnL of the declared prior| = {worst:.3e}")
    if worst > 1e-6:
        bad = True

# (A) two priors in one pymc model; the second one has a tighter v0 prior
print("(A) second prior in the same model, v0 ~ N(0, 5 km/s) entered as pars={'v0': <var 'v0_tight'>}")
try:
    with pm.Model() as model:
        wide = JokerPrior.default(P_min=1 * u.day, P_max=100 * u.day,
                                  sigma_K0=30 * u.km / u.s, sigma_v=100 * u.km / u.s)
        v0_tight = xu.with_unit(pm.Normal("v0_tight", 0.0, 5.0), u.km / u.s)
        tight = JokerPrior(pars={**wide.pars, "v0": v0_tight}, model=model)
    print("  accepted:", tight, "| v0 draws std =",
          float(np.std(tight.sample(2000, generate_linear=True,
                                    rng=np.random.default_rng(0))["v0"].value)))
    check("wide  prior (sigma_v0 = 100)", wide, 0.0, 100.0)
    check("tight prior (sigma_v0 =   5)", tight, 0.0, 5.0)
except (ValueError, TypeError, KeyError) as exc:
    print("  refused:", type(exc).__name__, exc)

# (B) same mechanism lets a NON-Normal prior through the Normal-only validation
print("(B) model variable named 'v0' is Uniform(-100, 100); pars={'v0': <Normal(0, 50) named 'vsys'>}")
try:
    with pm.Model() as model:
        xu.with_unit(pm.Uniform("v0", -100.0, 100.0), u.km / u.s)
        vsys = xu.with_unit(pm.Normal("vsys", 0.0, 50.0), u.km / u.s)
        prior = JokerPrior.default(P_min=1 * u.day, P_max=100 * u.day,
                                   sigma_K0=30 * u.km / u.s, pars={"v0": vsys})
    print("  accepted:", prior)
    check("declared v0 ~ N(0, 50)", prior, 0.0, 50.0)
    helper = tj.TheJoker(prior)._make_joker_helper(data)
    print("  (kernel actually uses the Uniform's (lower, upper) as (mu, sigma) = (-100, 100))")
except (ValueError, TypeError, KeyError) as exc:
    print("  refused:", type(exc).__name__, exc)

if bad:
    print("WRONG: the sampler marginalises over a prior that is not the validated one")
    sys.exit(1)
print("OK")
sys.exit(0)
