"""C18 demo 3: a linear parameter with a LOGARITHMIC unit (u.mag(u.km/u.s), u.dex(...)) passes
the unit check (`is_equivalent` is True for function units). A Normal prior in magnitudes is a
log-normal prior in velocity, so the Gaussian marginalisation is not exact; the kernel pushes
mu and sigma separately through the non-linear conversion.

Run from the worktree root:  /venv/bin/python HUNT/demo_3.py
exit 0: refused;  exit 1: accepted and the kernel's Normal is not the declared prior.
"""
import os, sys
# ---- runtime set-up and an independent closed-form marginal likelihood ----
import os
import sys
import warnings

sys.path.insert(0, os.getcwd())
sys.path.insert(0, "/tmp/seedtools")
warnings.simplefilter("ignore")
import pyx_runtime  # noqa: E402

pyx_runtime.install_twin(os.path.join(os.getcwd(), "thejoker/src/fast_likelihood.pyx"))

import astropy.units as u  # noqa: E402
import numpy as np  # noqa: E402
from astropy.time import Time  # noqa: E402
from scipy.stats import multivariate_normal  # noqa: E402

import thejoker as tj  # noqa: E402

assert os.path.dirname(os.path.dirname(tj.__file__)) == os.getcwd(), tj.__file__


def kepler_basis(t, t_ref, P, e, omega, M0):
    """Unit-amplitude Keplerian RV curve, own Newton solver (The Joker's convention)."""
    M = 2 * np.pi * (t - t_ref) / P - M0
    E = M.copy()
    for _ in range(200):
        E = E - (E - e * np.sin(E) - M) / (1 - e * np.cos(E))
    f = 2 * np.arctan2(np.sqrt(1 + e) * np.sin(E / 2), np.sqrt(1 - e) * np.cos(E / 2))
    return np.cos(f + omega) + e * np.cos(omega)


def closed_form(t, t_ref, y, err, P, e, omega, M0, s, mu, sig, extra_cols=()):
    """ln N(y | M mu, C + M diag(sig^2) M^T) with M = [kepler, 1, *extra_cols]."""
    cols = [kepler_basis(t, t_ref, P, e, omega, M0), np.ones_like(t), *extra_cols]
    M = np.stack(cols, axis=1)
    mu = np.asarray(mu, float)
    sig = np.asarray(sig, float)
    C = np.diag(err**2 + s**2) + M @ np.diag(sig**2) @ M.T
    return multivariate_normal(mean=M @ mu, cov=C).logpdf(y)


def make_data(n=12, seed=42, off=0.0):
    rng = np.random.default_rng(seed)
    t = 58000 + np.sort(rng.uniform(0, 300, n))
    y = rng.normal(0, 10, n) + off
    err = np.full(n, 1.0)
    data = tj.RVData(Time(t, format="mjd", scale="tcb"), y * u.km / u.s, err * u.km / u.s)
    return data, t, y, err


def sample_pars(ps, i):
    return (
        ps["P"][i].to_value(u.day),
        ps["e"][i].to_value(u.one),
        ps["omega"][i].to_value(u.rad),
        ps["M0"][i].to_value(u.rad),
    )
# ---- end of set-up ----
import pymc as pm
import thejoker.units as xu
from thejoker import JokerPrior

data, t, y, err = make_data()
try:
    with pm.Model():
        v0 = xu.with_unit(pm.Normal("v0", -2.5, 1.0), u.mag(u.km / u.s))
        prior = JokerPrior.default(P_min=1 * u.day, P_max=100 * u.day,
                                   sigma_K0=30 * u.km / u.s, pars={"v0": v0})
except (ValueError, TypeError) as exc:
    print("OK: refused:", exc)
    sys.exit(0)

print("JokerPrior ACCEPTED v0 ~ Normal(-2.5, 1) [mag(km/s)]:", prior)
draws = prior.sample(20000, generate_linear=True, rng=np.random.default_rng(0))["v0"]
print("  column type of the draws:", type(draws).__name__, draws.unit)
v = draws.to(u.km / u.s).value  # physical velocities of the prior draws
print(f"  prior draws of v0 in km/s: mean={v.mean():.3f} std={v.std():.3f} "
      f"skewness={((v - v.mean())**3).mean() / v.std()**3:.2f}  min={v.min():.3f} (log-normal: never < 0)")
helper = tj.TheJoker(prior)._make_joker_helper(data)
from thejoker.utils import _pytensor_get_mean_std
mu, std = _pytensor_get_mean_std(prior.pars["v0"], u.mag(u.km / u.s), u.km / u.s)
print(f"  kernel marginalises v0 with Normal(mu={float(mu):.3f}, sigma={float(std):.3f}) km/s")
if abs(float(mu) - v.mean()) > 0.05 * v.std() or abs(float(std) - v.std()) > 0.05 * v.std() \
        or abs(((v - v.mean())**3).mean() / v.std()**3) > 0.2:
    print("WRONG: the accepted prior is not Normal in velocity; marginalisation is not exact for it")
    sys.exit(1)
sys.exit(0)
