"""C18 demo 1: a Normal prior on K whose sigma depends on P is ACCEPTED when P is a
symbolic random variable (pm.Truncated(LogNormal), pm.Censored, pm.CustomDist(dist=...), ...).

Run from the worktree root:  /venv/bin/python HUNT/demo_1.py
exit 0: JokerPrior refuses the prior (property holds) or the kernel is exact for it;
exit 1: accepted, and the marginal likelihood is not that of the declared model.
"""
import os, sys
# ---- runtime set-up and an independent closed-form marginal likelihood ----
import os
import sys
import warnings

sys.path.insert(0, os.getcwd())
sys.path.insert(0, "/tmp/seedtools")
warnings.simplefilter("ignore")
import pyx_runtime  # noqa: E402

pyx_runtime.install_twin(os.path.join(os.getcwd(), "thejoker/src/fast_likelihood.pyx"))

import astropy.units as u  # noqa: E402
import numpy as np  # noqa: E402
from astropy.time import Time  # noqa: E402
from scipy.stats import multivariate_normal  # noqa: E402

import thejoker as tj  # noqa: E402

assert os.path.dirname(os.path.dirname(tj.__file__)) == os.getcwd(), tj.__file__


def kepler_basis(t, t_ref, P, e, omega, M0):
    """Unit-amplitude Keplerian RV curve, own Newton solver (The Joker's convention)."""
    M = 2 * np.pi * (t - t_ref) / P - M0
    E = M.copy()
    for _ in range(200):
        E = E - (E - e * np.sin(E) - M) / (1 - e * np.cos(E))
    f = 2 * np.arctan2(np.sqrt(1 + e) * np.sin(E / 2), np.sqrt(1 - e) * np.cos(E / 2))
    return np.cos(f + omega) + e * np.cos(omega)


def closed_form(t, t_ref, y, err, P, e, omega, M0, s, mu, sig, extra_cols=()):
    """ln N(y | M mu, C + M diag(sig^2) M^T) with M = [kepler, 1, *extra_cols]."""
    cols = [kepler_basis(t, t_ref, P, e, omega, M0), np.ones_like(t), *extra_cols]
    M = np.stack(cols, axis=1)
    mu = np.asarray(mu, float)
    sig = np.asarray(sig, float)
    C = np.diag(err**2 + s**2) + M @ np.diag(sig**2) @ M.T
    return multivariate_normal(mean=M @ mu, cov=C).logpdf(y)


def make_data(n=12, seed=42, off=0.0):
    rng = np.random.default_rng(seed)
    t = 58000 + np.sort(rng.uniform(0, 300, n))
    y = rng.normal(0, 10, n) + off
    err = np.full(n, 1.0)
    data = tj.RVData(Time(t, format="mjd", scale="tcb"), y * u.km / u.s, err * u.km / u.s)
    return data, t, y, err


def sample_pars(ps, i):
    return (
        ps["P"][i].to_value(u.day),
        ps["e"][i].to_value(u.one),
        ps["omega"][i].to_value(u.rad),
        ps["M0"][i].to_value(u.rad),
    )
# ---- end of set-up ----
import pymc as pm
import thejoker.units as xu
from thejoker import JokerPrior

data, t, y, err = make_data()

def sigma_K(P):
    return 30.0 * (P / 365.0) ** (-1 / 3)

# control: the same dependence on a plain RandomVariable period IS refused
try:
    with pm.Model():
        P = xu.with_unit(pm.Uniform("P", 1.0, 1000.0), u.day)
        K = xu.with_unit(pm.Normal("K", 0.0, sigma_K(P)), u.km / u.s)
        JokerPrior.default(sigma_v=100 * u.km / u.s, pars={"P": P, "K": K})
    print("control (P ~ Uniform): accepted ?!")
except ValueError as exc:
    print("control (P ~ Uniform): refused, as it should:", str(exc)[:90], "...")

try:
    with pm.Model():
        P = xu.with_unit(
            pm.Truncated("P", pm.LogNormal.dist(3.0, 1.5), lower=1.0, upper=1000.0), u.day
        )
        K = xu.with_unit(pm.Normal("K", 0.0, sigma_K(P)), u.km / u.s)
        prior = JokerPrior.default(sigma_v=100 * u.km / u.s, pars={"P": P, "K": K})
except (ValueError, TypeError) as exc:
    print("OK: JokerPrior refused the dependent prior:", exc)
    sys.exit(0)

print("JokerPrior ACCEPTED K ~ N(0, sigma_K(P)) with P ~ Truncated(LogNormal):", prior)
joker = tj.TheJoker(prior, rng=np.random.default_rng(1))
ps = prior.sample(size=6, rng=np.random.default_rng(3))
ll = joker.marginal_ln_likelihood(data, ps, in_memory=True)
worst = 0.0
for i in range(len(ps)):
    P_, e_, om_, M0_ = sample_pars(ps, i)
    cf = closed_form(t, data._t_ref_bmjd, y, err, P_, e_, om_, M0_, 0.0,
                     [0.0, 0.0], [sigma_K(P_), 100.0])
    worst = max(worst, abs(ll[i] - cf))
    print(f"  P={P_:9.3f} d  kernel lnL={ll[i]:.6f}  exact lnL of the declared model={cf:.6f}"
          f"  diff={ll[i]-cf:+.3e}")
if worst > 1e-6:
    print(f"WRONG: marginal likelihood differs from the declared model by up to {worst:.3f} "
          "in ln: sigma_K was evaluated once at an arbitrary draw of P")
    sys.exit(1)
print("OK: kernel is exact for the accepted prior")
sys.exit(0)
