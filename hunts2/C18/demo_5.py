"""C18 demo 5: the source-count check counts np.unique(<dict keys repeated per row>), not sources.
(a) an empty RVData source (e.g. a survey whose rows were all masked) is not counted;
(b) dict keys that numpy coerces to one value (1 and "1"; two NaN objects) are counted once:
    two surveys are then fitted with NO offset although the prior has no offset term.

Run from the worktree root:  /venv/bin/python HUNT/demo_5.py
exit 0: every mismatch raises;  exit 1 otherwise.
"""
import os, sys
# ---- runtime set-up and an independent closed-form marginal likelihood ----
import os
import sys
import warnings

sys.path.insert(0, os.getcwd())
sys.path.insert(0, "/tmp/seedtools")
warnings.simplefilter("ignore")
import pyx_runtime  # noqa: E402

pyx_runtime.install_twin(os.path.join(os.getcwd(), "thejoker/src/fast_likelihood.pyx"))

import astropy.units as u  # noqa: E402
import numpy as np  # noqa: E402
from astropy.time import Time  # noqa: E402
from scipy.stats import multivariate_normal  # noqa: E402

import thejoker as tj  # noqa: E402

assert os.path.dirname(os.path.dirname(tj.__file__)) == os.getcwd(), tj.__file__


def kepler_basis(t, t_ref, P, e, omega, M0):
    """Unit-amplitude Keplerian RV curve, own Newton solver (The Joker's convention)."""
    M = 2 * np.pi * (t - t_ref) / P - M0
    E = M.copy()
    for _ in range(200):
        E = E - (E - e * np.sin(E) - M) / (1 - e * np.cos(E))
    f = 2 * np.arctan2(np.sqrt(1 + e) * np.sin(E / 2), np.sqrt(1 - e) * np.cos(E / 2))
    return np.cos(f + omega) + e * np.cos(omega)


def closed_form(t, t_ref, y, err, P, e, omega, M0, s, mu, sig, extra_cols=()):
    """ln N(y | M mu, C + M diag(sig^2) M^T) with M = [kepler, 1, *extra_cols]."""
    cols = [kepler_basis(t, t_ref, P, e, omega, M0), np.ones_like(t), *extra_cols]
    M = np.stack(cols, axis=1)
    mu = np.asarray(mu, float)
    sig = np.asarray(sig, float)
    C = np.diag(err**2 + s**2) + M @ np.diag(sig**2) @ M.T
    return multivariate_normal(mean=M @ mu, cov=C).logpdf(y)


def make_data(n=12, seed=42, off=0.0):
    rng = np.random.default_rng(seed)
    t = 58000 + np.sort(rng.uniform(0, 300, n))
    y = rng.normal(0, 10, n) + off
    err = np.full(n, 1.0)
    data = tj.RVData(Time(t, format="mjd", scale="tcb"), y * u.km / u.s, err * u.km / u.s)
    return data, t, y, err


def sample_pars(ps, i):
    return (
        ps["P"][i].to_value(u.day),
        ps["e"][i].to_value(u.one),
        ps["omega"][i].to_value(u.rad),
        ps["M0"][i].to_value(u.rad),
    )
# ---- end of set-up ----
import pymc as pm
import thejoker.units as xu
from thejoker import JokerPrior

d1, *_ = make_data(8, seed=1)
d2, *_ = make_data(6, seed=2, off=5.0)
d3, *_ = make_data(5, seed=3, off=-3.0)
# a survey whose velocities are all NaN (cleaned away on construction), common reference epoch
empty = tj.RVData(d2.t, np.full(len(d2), np.nan) * u.km / u.s, d2.rv_err, t_ref=d1.t_ref)
print("len(empty source) =", len(empty))

def prior(n_off):
    with pm.Model():
        offs = [xu.with_unit(pm.Normal(f"dv0_{i+1}", 0, 5.0), u.km / u.s) for i in range(n_off)]
        return JokerPrior.default(P_min=1 * u.day, P_max=100 * u.day, sigma_K0=30 * u.km / u.s,
                                  sigma_v=100 * u.km / u.s, v0_offsets=offs)

bad = False
cases = [
    ("3 sources (one empty) / 1 offset prior", prior(1), [d1, empty, d3]),
    ("2 sources (one empty) / 0 offset priors", prior(0), [d1, empty]),
    ("2 sources keyed 1 and '1' / 0 offset priors", prior(0), {1: d1, "1": d2}),
    ("2 sources keyed by two NaN objects / 0 offset priors", prior(0), {np.nan: d1, float("nan"): d2}),
]
for label, pr, data in cases:
    joker = tj.TheJoker(pr, rng=np.random.default_rng(0))
    ps = pr.sample(size=3, rng=np.random.default_rng(3))
    try:
        ll = joker.marginal_ln_likelihood(data, ps, in_memory=True)
        print(f"ACCEPTED  {label}: n_sources={len(data)} n_offsets={pr.n_offsets} lnL={np.round(ll, 3)}")
        bad = True
    except (ValueError, TypeError) as exc:
        print(f"raised    {label}: {exc}")
if bad:
    print("WRONG: source / offset-prior count mismatches were accepted")
    sys.exit(1)
sys.exit(0)
