"""C01 demo 1: multi-survey data -- the reference epoch t_ref that every RVData declares is ignored.

A list/dict of RVData objects is merged by data_helpers.validate_prepare_data into ONE RVData that is
built WITHOUT t_ref, so the merged data silently fall back to t_ref = min(t).  M0 (mean anomaly AT the
reference epoch) and the trend coefficients v0, v1 (trend AT the reference epoch, with independent
Normal priors there) are then interpreted at a different epoch than the one the user declared, and
marginal_ln_likelihood(data=[d]) != marginal_ln_likelihood(data=d) for the very same observations.

Run from the worktree root:  /venv/bin/python HUNT/demo_1.py      (exit 1 = property violated)
"""
import os, sys, warnings
sys.path.insert(0, os.getcwd())
warnings.filterwarnings("ignore")
try:  # run the CURRENT .pyx (the compiled extension in the sandbox is stale)
    sys.path.insert(0, "/tmp/seedtools")
    import pyx_runtime
    pyx_runtime.install_twin(os.path.join(os.getcwd(), "thejoker/src/fast_likelihood.pyx"))
except Exception as ex:  # pragma: no cover
    print("(twin runtime unavailable, using the compiled kernel:", ex, ")")
import numpy as np
import astropy.units as u
from astropy.time import Time
import pymc as pm
import thejoker as tj
import thejoker.units as xu

assert os.path.realpath(tj.__file__).startswith(os.path.realpath(os.getcwd())), tj.__file__


# ---------------------------------------------------------------- independent closed form
def kepler_col(t, t_ref, P, e, om, M0):
    M = np.mod(2 * np.pi * (t - t_ref) / P - M0, 2 * np.pi)
    E = M + e * np.sin(M)
    for _ in range(100):
        E = E - (E - e * np.sin(E) - M) / (1 - e * np.cos(E))
    f = 2 * np.arctan2(np.sqrt(1 + e) * np.sin(E / 2), np.sqrt(1 - e) * np.cos(E / 2))
    return np.cos(om + f) + e * np.cos(om)


def closed_form(t, t_ref, y, err, ids, P, e, om, M0, s, mu, var, poly_trend):
    cols = [kepler_col(t, t_ref, P, e, om, M0), np.ones_like(t)]
    cols += [(ids == k).astype(float) for k in range(1, ids.max() + 1)]
    cols += [(t - t_ref) ** k for k in range(1, poly_trend)]
    M = np.stack(cols, axis=1)
    B = np.diag(err ** 2 + s ** 2) + (M * np.asarray(var)) @ M.T
    r = y - M @ np.asarray(mu)
    L = np.linalg.cholesky(B)
    z = np.linalg.solve(L, r)
    return -0.5 * z @ z - np.log(np.diag(L)).sum() - 0.5 * len(t) * np.log(2 * np.pi)


# ---------------------------------------------------------------- data: two surveys, one declared epoch
rng = np.random.default_rng(42)
T_REF = Time(55950.0, format="mjd", scale="tcb")  # the epoch the user declares for BOTH surveys


def survey(n, offset):
    t = 56000 + np.sort(rng.uniform(0, 200, n))
    y = 10 + 8 * rng.normal(size=n) + offset
    err = rng.uniform(0.3, 1.0, n)
    return tj.RVData(Time(t, format="mjd", scale="tcb"), y * u.km / u.s, err * u.km / u.s, t_ref=T_REF)


d1, d2 = survey(7, 0.0), survey(6, 3.0)

with pm.Model():
    dv = xu.with_unit(pm.Normal("dv0_1", 1.0, 2.0), u.km / u.s)
    prior2 = tj.JokerPrior.default(P_min=1 * u.day, P_max=1000 * u.day, sigma_K0=30 * u.km / u.s,
                                   sigma_v=[50 * u.km / u.s, 0.5 * u.km / u.s / u.day],
                                   poly_trend=2, v0_offsets=[dv])
with pm.Model():
    prior1 = tj.JokerPrior.default(P_min=1 * u.day, P_max=1000 * u.day, sigma_K0=30 * u.km / u.s,
                                   sigma_v=[50 * u.km / u.s, 0.5 * u.km / u.s / u.day], poly_trend=2)

P, e, om, M0, s = 37.3, 0.31, 1.1, 2.2, 0.4
smp = tj.JokerSamples()
smp["P"] = [P] * u.day
smp["e"] = [e] * u.one
smp["omega"] = [om] * u.rad
smp["M0"] = [M0] * u.rad
smp["s"] = [s] * u.km / u.s

varK = min(30.0 ** 2 * (P / 365.25) ** (-2 / 3) / (1 - e ** 2), 500.0 ** 2)
bad = False

# (A) two surveys that both declare t_ref = T_REF
got = tj.TheJoker(prior2).marginal_ln_likelihood([d1, d2], smp)[0]
t = np.concatenate([d1._t_bmjd, d2._t_bmjd])
y = np.concatenate([d1.rv.value, d2.rv.value])
err = np.concatenate([d1.rv_err.value, d2.rv_err.value])
ids = np.concatenate([np.zeros(len(d1), int), np.ones(len(d2), int)])
args = (y, err, ids, P, e, om, M0, s, [0, 0, 1.0, 0], [varK, 2500.0, 4.0, 0.25], 2)
want = closed_form(t, T_REF.tcb.mjd, *args)
fallback = closed_form(t, t.min(), *args)
print("(A) two surveys, both with t_ref = BMJD %.1f" % T_REF.tcb.mjd)
print("    marginal_ln_likelihood([d1, d2])          = %.9f" % got)
print("    closed form at the declared t_ref         = %.9f" % want)
print("    closed form at min(t) (declared ignored)  = %.9f" % fallback)
if abs(got - want) > 1e-6 * max(1, abs(want)):
    bad = True
    print("    -> WRONG: the declared reference epoch is ignored (differs by %.3f)" % (got - want))

# (B) the same single data set passed bare and as a one-element list (n_offsets = 0)
j1 = tj.TheJoker(prior1)
bare = j1.marginal_ln_likelihood(d1, smp)[0]
listed = j1.marginal_ln_likelihood([d1], smp)[0]
args1 = (d1.rv.value, d1.rv_err.value, np.zeros(len(d1), int), P, e, om, M0, s, [0, 0, 0], [varK, 2500.0, 0.25], 2)
want1 = closed_form(d1._t_bmjd, T_REF.tcb.mjd, *args1)
print("(B) one data set with t_ref = BMJD %.1f" % T_REF.tcb.mjd)
print("    marginal_ln_likelihood(d1)   = %.9f" % bare)
print("    marginal_ln_likelihood([d1]) = %.9f" % listed)
print("    closed form at declared t_ref= %.9f" % want1)
if abs(bare - listed) > 1e-6 * max(1, abs(bare)) or abs(listed - want1) > 1e-6 * max(1, abs(want1)):
    bad = True
    print("    -> WRONG: the same observations give two different marginal likelihoods (%.3f apart)"
          % (listed - bare))

if bad:
    print("FAIL: C01 violated for multi-survey / list input with an explicit reference epoch")
    sys.exit(1)
print("OK")
sys.exit(0)
