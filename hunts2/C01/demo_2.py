"""C01 demo 2: samples that carry their own reference epoch are evaluated at the wrong epoch.

JokerSamples returned by rejection_sample() carry t_ref (the epoch at which their M0 is defined; it is what
get_orbit(), get_t0(), ln_unmarginalized_likelihood() and the plots use).  marginal_ln_likelihood(data2, samples)
silently re-interprets M0 at data2.t_ref instead -- e.g. for a slice of the original data (slicing an RVData resets
t_ref to the first remaining epoch) or for new data of the same star.  The returned number is then NOT
ln N(y | M mu, C + s^2 I + M Lambda M^T) for the orbit (P, e, omega, M0 @ samples.t_ref, s) the samples describe.

Run from the worktree root:  /venv/bin/python HUNT/demo_2.py      (exit 1 = property violated)
"""
import os, sys, warnings
sys.path.insert(0, os.getcwd())
warnings.filterwarnings("ignore")
try:  # run the CURRENT .pyx (the compiled extension in the sandbox is stale)
    sys.path.insert(0, "/tmp/seedtools")
    import pyx_runtime
    pyx_runtime.install_twin(os.path.join(os.getcwd(), "thejoker/src/fast_likelihood.pyx"))
except Exception as ex:  # pragma: no cover
    print("(twin runtime unavailable, using the compiled kernel:", ex, ")")
import numpy as np
import astropy.units as u
from astropy.time import Time
import pymc as pm
import thejoker as tj

assert os.path.realpath(tj.__file__).startswith(os.path.realpath(os.getcwd())), tj.__file__


def kepler_col(t, t_ref, P, e, om, M0):
    M = np.mod(2 * np.pi * (t - t_ref) / P - M0, 2 * np.pi)
    E = M + e * np.sin(M)
    for _ in range(100):
        E = E - (E - e * np.sin(E) - M) / (1 - e * np.cos(E))
    f = 2 * np.arctan2(np.sqrt(1 + e) * np.sin(E / 2), np.sqrt(1 - e) * np.cos(E / 2))
    return np.cos(om + f) + e * np.cos(om)


def closed_form(t, t_ref, y, err, P, e, om, M0, s, sigma_K0=30.0, P0=365.25, sigma_v=50.0):
    M = np.stack([kepler_col(t, t_ref, P, e, om, M0), np.ones_like(t)], axis=1)
    varK = min(sigma_K0 ** 2 * (P / P0) ** (-2 / 3) / (1 - e ** 2), 500.0 ** 2)
    B = np.diag(err ** 2 + s ** 2) + (M * np.array([varK, sigma_v ** 2])) @ M.T
    L = np.linalg.cholesky(B)
    z = np.linalg.solve(L, y)
    return -0.5 * z @ z - np.log(np.diag(L)).sum() - 0.5 * len(t) * np.log(2 * np.pi)


# simulated star: P = 11.3 d, K = 12 km/s
rng = np.random.default_rng(3)
n = 14
t = 56000 + np.sort(rng.uniform(0, 120, n))
err = rng.uniform(0.2, 0.5, n)
truth = dict(P=11.3, e=0.2, om=0.7, M0=1.9)
y = 12.0 * kepler_col(t, t.min(), **truth) + 25.0 + err * rng.normal(size=n)
data = tj.RVData(Time(t, format="mjd", scale="tcb"), y * u.km / u.s, err * u.km / u.s)

with pm.Model():
    prior = tj.JokerPrior.default(P_min=2 * u.day, P_max=64 * u.day, sigma_K0=30 * u.km / u.s,
                                  sigma_v=50 * u.km / u.s)
joker = tj.TheJoker(prior, rng=np.random.default_rng(1))
post = joker.rejection_sample(data, prior.sample(20_000, rng=np.random.default_rng(2), return_logprobs=True),
                              max_posterior_samples=8, return_logprobs=True)
print("posterior samples: %d, samples.t_ref = BMJD %.4f  (data.t_ref = BMJD %.4f)"
      % (len(post), post.t_ref.tcb.mjd, data.t_ref.tcb.mjd))

# the later part of the very same data set: slicing resets t_ref to the first remaining epoch
late = data[5:]
print("late = data[5:]:  late.t_ref = BMJD %.4f" % late.t_ref.tcb.mjd)

got = joker.marginal_ln_likelihood(late, post)
P = post["P"].to_value(u.day); e = post["e"].value
om = post["omega"].to_value(u.rad); M0 = post["M0"].to_value(u.rad); s = post["s"].to_value(u.km / u.s)
want = np.array([closed_form(late._t_bmjd, post.t_ref.tcb.mjd, late.rv.value, late.rv_err.value,
                             P[i], e[i], om[i], M0[i], s[i]) for i in range(len(post))])
wrong_epoch = np.array([closed_form(late._t_bmjd, late.t_ref.tcb.mjd, late.rv.value, late.rv_err.value,
                                    P[i], e[i], om[i], M0[i], s[i]) for i in range(len(post))])
# sanity: on the full data the stored ln_likelihood column equals the closed form at samples.t_ref
full = np.array([closed_form(t, post.t_ref.tcb.mjd, y, err, P[i], e[i], om[i], M0[i], s[i])
                 for i in range(len(post))])
print("sanity (full data, stored ln_likelihood vs closed form): max |diff| = %.2e"
      % np.abs(np.asarray(post["ln_likelihood"]) - full).max())

np.set_printoptions(precision=3, suppress=True, linewidth=150)
print("marginal_ln_likelihood(late, post)                 :", got)
print("closed form, M0 at samples.t_ref (the samples' orbit):", want)
print("closed form, M0 re-read at late.t_ref              :", wrong_epoch)
bad = np.abs(got - want).max() > 1e-6 * max(1.0, np.abs(want).max())
if bad:
    print("FAIL: posterior samples that fit the full data (ln L ~ %.1f per %d epochs) get ln L down to %.1f on a\n"
          "      subset of the same data: M0 is interpreted at data.t_ref, not at the samples' own t_ref\n"
          "      (max |got - closed form| = %.3f; got == closed form at the wrong epoch to %.1e)"
          % (full.max(), n, got.min(), np.abs(got - want).max(), np.abs(got - wrong_epoch).max()))
    sys.exit(1)
print("OK")
sys.exit(0)
