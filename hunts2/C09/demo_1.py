"""C09 finding 1: UniformLog with array-valued bounds (no explicit shape/size) draws ONE
uniform quantile and reuses it for every element, so the elements are perfectly
(co-monotonically) dependent, while UniformLog.logp (and pm.Uniform, the analogue)
describe independent elements."""
import os, sys
sys.path.insert(0, os.getcwd())
import warnings; warnings.simplefilter("ignore")
import numpy as np, pymc as pm
from thejoker.distributions import UniformLog

a = np.array([1.0, 10.0, 100.0]); b = np.array([10.0, 1000.0, 101.0])
bad = False
for label, d in [("UniformLog.dist(a, b)", UniformLog.dist(a, b)),
                 ("UniformLog.dist(a, b, shape=3)", UniformLog.dist(a, b, shape=3))]:
    x = pm.draw(d, 5000, random_seed=1)
    q = (np.log(x) - np.log(a)) / (np.log(b) - np.log(a))   # quantile of each element, U(0,1) each
    c = np.corrcoef(q.T)
    off = np.abs(c[np.triu_indices(3, 1)]).max()
    print(f"{label}: max |corr| between the quantiles of different elements = {off:.4f} (independent: ~0.01-0.03)")
    # the joint density declared by logp is the product of the element densities => independent
    if off > 0.1:
        bad = True
        print("   first draws:", x[:2].tolist(), " quantiles:", np.round(q[:2], 6).tolist())
ref = pm.draw(pm.Uniform.dist(a, b), 5000, random_seed=1); qr = (ref - a) / (b - a)
print("pm.Uniform.dist(a, b) for comparison: max |corr| =", round(np.abs(np.corrcoef(qr.T)[np.triu_indices(3, 1)]).max(), 4))
if bad:
    print("FAIL: elements of an array-parameter UniformLog share one random number; draws do not follow "
          "the joint density exp(sum(logp))")
    sys.exit(1)
print("OK"); sys.exit(0)
