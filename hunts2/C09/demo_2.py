"""C09 finding 2: prior.sample(generate_linear=True, return_logprobs=True) fed into
TheJoker.rejection_sample(..., return_logprobs=True): the ln_prior column of the returned
samples contains the log-density of the DISCARDED prior draws of (K, v0); the returned rows carry
new (K, v0) drawn from the conditional posterior.  The column is then neither (up to a constant) the
nonlinear prior of the row -- what the same call gives with generate_linear=False -- nor the
full prior density of the row."""
import os, sys
sys.path.insert(0, os.getcwd())
import warnings; warnings.simplefilter("ignore")
try:
    sys.path.insert(1, "/tmp/seedtools")
    import pyx_runtime
    pyx_runtime.install_twin(os.path.join(os.getcwd(), "thejoker/src/fast_likelihood.pyx"))
except Exception as ex:  # fall back to the compiled kernel; only plumbing matters here
    print("(source twin not available:", ex, ")")
import logging
import numpy as np, astropy.units as u
from astropy.time import Time
from scipy import stats
import thejoker as tj
logging.getLogger("thejoker").setLevel(logging.ERROR)

rng = np.random.default_rng(0)
t = Time(59000 + np.sort(rng.uniform(0, 300, 6)), format="mjd")
rv = (10 * np.cos(2 * np.pi * t.mjd / 50.0) + rng.normal(0, 8, 6)) * u.km / u.s
data = tj.RVData(t, rv, rv_err=np.full(6, 8.0) * u.km / u.s)
prior = tj.JokerPrior.default(P_min=2 * u.day, P_max=1e3 * u.day, sigma_K0=30 * u.km / u.s, sigma_v=100 * u.km / u.s)

def densities(s):
    P = s["P"].to_value(u.day); e = s["e"].value
    nl = -np.log(P) - np.log(np.log(500.0)) + stats.beta(0.867, 3.03).logpdf(e)
    sg = np.minimum(30 * (P / 365.25) ** (-1 / 3) / np.sqrt(1 - e**2), 500.0)
    full = nl + stats.norm(0, sg).logpdf(s["K"].to_value(u.km / u.s)) + stats.norm(0, 100).logpdf(s["v0"].to_value(u.km / u.s))
    return nl, full

bad = False
for gl in [False, True]:
    ps = prior.sample(size=20000, generate_linear=gl, return_logprobs=True, rng=np.random.default_rng(1))
    for inmem in [True, False]:
        post = tj.TheJoker(prior, rng=np.random.default_rng(2)).rejection_sample(data, ps, return_logprobs=True, in_memory=inmem)
        nl, full = densities(post)
        lp = np.asarray(post["ln_prior"])
        s_nl, s_full = np.ptp(lp - nl), np.ptp(lp - full)
        print(f"generate_linear={gl!s:5} in_memory={inmem!s:5} n_post={len(post):5d}  "
              f"spread of ln_prior - ln p(P,e): {s_nl:.3g}   spread of ln_prior - ln p(P,e,K,v0 of the row): {s_full:.3g}")
        if min(s_nl, s_full) > 1e-6:
            bad = True
if bad:
    print("FAIL: with generate_linear=True prior samples the ln_prior column of the posterior samples is not the "
          "log of any prior density of the returned rows (spread of several nats); MAP_sample ranks rows with it")
    sys.exit(1)
print("OK"); sys.exit(0)
