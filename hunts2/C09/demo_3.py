"""C09 finding 3: FixedCompanionMass.dist(..., K_unit=<unit>) -- a documented keyword of the exported
distribution -- cannot be used: sigma_K0 is turned into a bare float and the next line asks for its .unit."""
import os, sys
sys.path.insert(0, os.getcwd())
import warnings; warnings.simplefilter("ignore")
import numpy as np, astropy.units as u, pymc as pm
from scipy import stats
from thejoker.distributions import FixedCompanionMass
try:
    d = FixedCompanionMass.dist(P=100.0, e=0.3, sigma_K0=30 * u.km / u.s, P0=100 * u.day, K_unit=u.m / u.s)
    got = float(pm.logp(d, 12000.0).eval())
    exp = stats.norm(0, 30000 / np.sqrt(1 - 0.09)).logpdf(12000.0)
    print("logp(K=12000 m/s):", got, "expected", exp)
    ok = abs(got - exp) < 1e-9
except Exception as ex:
    print("FAIL: FixedCompanionMass.dist(..., K_unit=u.m/u.s) raised", type(ex).__name__, ":", ex)
    ok = False
sys.exit(0 if ok else 1)
