"""C09 finding 4 (low): the default prior documents p(omega) = p(M0) = U(0, 2 pi); the draws are
uniform on (-pi, pi): half of them lie outside the documented support."""
import os, sys
sys.path.insert(0, os.getcwd())
import warnings; warnings.simplefilter("ignore")
import numpy as np, astropy.units as u
import thejoker as tj
prior = tj.JokerPrior.default(P_min=2 * u.day, P_max=1e3 * u.day, sigma_K0=30 * u.km / u.s, sigma_v=100 * u.km / u.s)
s = prior.sample(size=20000, rng=np.random.default_rng(0))
bad = False
for n in ["omega", "M0"]:
    x = s[n].to_value(u.rad)
    frac = np.mean((x < 0) | (x > 2 * np.pi))
    print(f"{n}: min={x.min():.4f} max={x.max():.4f}  fraction outside the documented support (0, 2pi): {frac:.3f}")
    bad |= frac > 0
if bad:
    print("FAIL: angle draws are U(-pi, pi), the documentation (JokerPrior.default, default_nonlinear_prior) says U(0, 2pi)")
    sys.exit(1)
print("OK"); sys.exit(0)
