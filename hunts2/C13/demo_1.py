"""C13 demo: the temporary prior-samples cache (thejoker/utils.py, tempfile_decorator) is created and closed
BEFORE the try/finally that is supposed to remove it.  A failure between the creation of the cache file and the
`try:` (the file's close() reporting an I/O error, or an asynchronous exception such as Ctrl-C landing there)
reaches the caller but leaves the *.hdf5 file behind in TMPDIR.

Run from the worktree root:  /venv/bin/python HUNT/demo_1.py     (exit 1 = property violated, 0 = holds)
"""
import os, sys, tempfile, errno, warnings

sys.path.insert(0, os.getcwd())
TMP = tempfile.mkdtemp(prefix="c13demo_")
os.environ["TMPDIR"] = TMP
tempfile.tempdir = TMP
warnings.simplefilter("ignore")
try:  # the kernel is irrelevant here, but run the current .pyx anyway if the source twin is available
    sys.path.insert(0, "/tmp/seedtools")
    import pyx_runtime
    pyx_runtime.install_twin(os.path.join(os.getcwd(), "thejoker/src/fast_likelihood.pyx"))
except Exception:
    pass

import numpy as np
import astropy.units as u
from astropy.time import Time
import thejoker as tj
import thejoker.utils as tju
assert tj.__file__.startswith(os.getcwd()), tj.__file__


def cache_files():
    return sorted(fn for fn in os.listdir(TMP) if fn.endswith(".hdf5"))


rng = np.random.default_rng(1)
t = Time(59000 + np.sort(rng.uniform(0, 300, 8)), format="mjd")
rv = 5 * np.cos(2 * np.pi * (t.mjd - 59000) / 37.0 + 0.3) + 2 + rng.normal(0, 0.3, 8)
data = tj.RVData(t=t, rv=rv * u.km / u.s, rv_err=np.full(8, 0.3) * u.km / u.s)
prior = tj.JokerPrior.default(P_min=2 * u.day, P_max=500 * u.day, sigma_K0=30 * u.km / u.s, sigma_v=100 * u.km / u.s)
prior_samples = prior.sample(size=200, rng=np.random.default_rng(3))
joker = tj.TheJoker(prior, rng=np.random.default_rng(42))

calls = {
    "rejection_sample": lambda: joker.rejection_sample(data, prior_samples),
    "marginal_ln_likelihood": lambda: joker.marginal_ln_likelihood(data, prior_samples),
    "iterative_rejection_sample": lambda: joker.iterative_rejection_sample(
        data, prior_samples, n_requested_samples=1, init_batch_size=100),
}
reference = joker.marginal_ln_likelihood(data, prior_samples)
assert cache_files() == [], "normal path leaks?!"
failures = []

# ---- variant A: close() of the freshly created cache file reports an I/O error (first invocation) ----------
real_NTF = tju.NamedTemporaryFile


class FlakyClose:
    def __init__(self, f):
        self._f = f
        self.name = f.name

    def close(self):
        self._f.close()  # really close it, then report the error like a failing close(2) would
        raise OSError(errno.EIO, "Input/output error (injected at NamedTemporaryFile.close)")

    def __getattr__(self, k):
        return getattr(self._f, k)


for name, call in calls.items():
    tju.NamedTemporaryFile = lambda *a, **k: FlakyClose(real_NTF(*a, **k))
    try:
        call()
        outcome = "NO exception reached the caller"
        failures.append(f"A/{name}: injected failure did not reach the caller")
    except OSError as e:
        outcome = f"OSError reached the caller ({e.strerror})"
    finally:
        tju.NamedTemporaryFile = real_NTF
    left = cache_files()
    print(f"[A] {name:28s}: {outcome}; cache files left in TMPDIR: {left}")
    if left:
        failures.append(f"A/{name}: cache file(s) {left} left behind after close() failed")
        for fn in left:
            os.unlink(os.path.join(TMP, fn))

# ---- variant B: Ctrl-C (KeyboardInterrupt) arrives at the first line boundary after the file was created ---
class CtrlC:
    def __init__(self):
        self.armed = False
        self.fired = False

    def __call__(self, frame, event, arg):
        co = frame.f_code
        if co.co_name == "NamedTemporaryFile" and co.co_filename.endswith("tempfile.py"):
            return self.in_ntf
        if co.co_filename.endswith(os.path.join("thejoker", "utils.py")) and co.co_name == "wrapper":
            return self.in_wrapper
        return None

    def in_ntf(self, frame, event, arg):
        if event == "return":
            self.armed = True  # the cache file now exists on disk
        return self.in_ntf

    def in_wrapper(self, frame, event, arg):
        if event == "line" and self.armed and not self.fired:
            self.fired = True
            sys.settrace(None)
            raise KeyboardInterrupt(f"injected Ctrl-C before utils.py line {frame.f_lineno}")
        return self.in_wrapper


for name, call in calls.items():
    tr = CtrlC()
    sys.settrace(tr)
    try:
        call()
        outcome = "NO exception reached the caller"
    except KeyboardInterrupt as e:
        outcome = f"KeyboardInterrupt reached the caller ({e})"
    finally:
        sys.settrace(None)
    left = cache_files()
    print(f"[B] {name:28s}: {outcome}; cache files left in TMPDIR: {left}")
    if not tr.fired:
        failures.append(f"B/{name}: injection point not reached")
    if left:
        failures.append(f"B/{name}: cache file(s) {left} left behind after Ctrl-C")
        for fn in left:
            os.unlink(os.path.join(TMP, fn))

# ---- the same TheJoker object still works afterwards -----------------------------------------------------
again = joker.marginal_ln_likelihood(data, prior_samples)
if not np.array_equal(again, reference) or cache_files():
    failures.append("follow-up call on the same TheJoker object is wrong / leaks")
print("follow-up call identical to reference:", np.array_equal(again, reference))

if failures:
    print("\nPROPERTY C13 VIOLATED:")
    for f in failures:
        print("  -", f)
    sys.exit(1)
print("\nC13 holds at these crash points: the exception propagates and no cache file is left behind")
sys.exit(0)
