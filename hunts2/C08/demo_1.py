"""C08 corner case: survey labels are compared only after numpy has coerced the dict keys into one
array (np.concatenate / np.unique / ==).  Distinct, perfectly good dict keys can then stop being
distinct (1 vs '1') or stop being equal to themselves (float('nan')), and a survey silently loses its
offset column -> two surveys are offset-free references, dv0_1 is tied to no observation.

Run from the worktree root:  /venv/bin/python HUNT/demo_1.py
exit 1 = property violated on this tree, exit 0 = property holds.
"""
import os, sys, warnings
sys.path.insert(0, os.getcwd())
sys.path.insert(0, "/tmp/seedtools")
warnings.filterwarnings("ignore")
import pyx_runtime
pyx_runtime.install_twin(os.path.join(os.getcwd(), "thejoker/src/fast_likelihood.pyx"))
import numpy as np, astropy.units as u, pymc as pm
from astropy.time import Time
import thejoker as tj, thejoker.units as xu
from thejoker.data_helpers import validate_prepare_data

rng = np.random.default_rng(42)
def survey(n, off):
    t = 55000 + np.sort(rng.uniform(0, 200, n))
    return tj.RVData(Time(t, format="mjd", scale="tcb"), (rng.normal(0, 3, n) + off) * u.km / u.s,
                     np.full(n, 0.3) * u.km / u.s)
A, B, C = survey(4, 0.0), survey(3, 40.0), survey(5, -25.0)   # surveys with very different zero points

def make_joker(n_off):
    with pm.Model():
        offs = [xu.with_unit(pm.Normal(f"dv0_{k+1}", 0, 50.0), u.km / u.s) for k in range(n_off)]
        prior = tj.JokerPrior.default(P_min=2 * u.day, P_max=200 * u.day, sigma_K0=30 * u.km / u.s,
                                      sigma_v=100 * u.km / u.s, v0_offsets=offs)
    return prior, tj.TheJoker(prior, rng=np.random.default_rng(0))

def n_reference_surveys(data, n_off):
    """number of surveys none of whose epochs has an offset column set (must be exactly 1)"""
    merged, ids, M = validate_prepare_data(data, 1, n_off)
    nref = 0
    for d in data.values():
        rows = [int(np.where((merged._t_bmjd == tt) & (merged.rv.value == rr))[0][0])
                for tt, rr in zip(d._t_bmjd, d.rv.value)]
        if np.all(M[rows, 1:] == 0):
            nref += 1
    return nref, M

bad = 0

# ---- case 1: two surveys, one offset (a valid configuration); one key is NaN (e.g. a missing label
#      coming out of pandas groupby(..., dropna=False))
prior, joker = make_joker(1)
data_nan = {1.0: A, float("nan"): B}
samples = prior.sample(size=4, rng=np.random.default_rng(1))
ll_ab = joker.marginal_ln_likelihood([A, B], samples)
ll_ba = joker.marginal_ln_likelihood([B, A], samples)
try:
    nref, M = n_reference_surveys(data_nan, 1)
    ll_nan = joker.marginal_ln_likelihood(data_nan, samples)
except (ValueError, TypeError) as e:
    print(f"case 1 keys {{1.0, nan}}: refused with {type(e).__name__}: {e}  (acceptable: not silent)")
else:
    print(f"case 1 keys {{1.0, nan}}: offset-free surveys = {nref} (expected 1); "
          f"epochs carrying dv0_1 = {int(M[:, 1].sum())} (expected {len(A)} or {len(B)})")
    print("   lnL dict{1.0,nan}:", np.round(ll_nan, 3))
    print("   lnL list [A, B]  :", np.round(ll_ab, 3))
    print("   lnL list [B, A]  :", np.round(ll_ba, 3))
    if nref != 1 or not (np.allclose(ll_nan, ll_ab, rtol=1e-8) or np.allclose(ll_nan, ll_ba, rtol=1e-8)):
        print("   -> WRONG: survey 'nan' was silently given no offset; the likelihood is that of mislabelled data")
        bad += 1

# ---- case 2: keys 1 and '1' are different dict keys but the same numpy label
data_mix = {1: A, "1": B}
try:
    nref, M = n_reference_surveys(data_mix, 1)
    ll_mix = joker.marginal_ln_likelihood(data_mix, samples)
    print("case 2 keys {1, '1'}: accepted, offset-free surveys =", nref)
    if nref != 1 or not (np.allclose(ll_mix, ll_ab, rtol=1e-8) or np.allclose(ll_mix, ll_ba, rtol=1e-8)):
        bad += 1
except (ValueError, TypeError) as e:
    print(f"case 2 keys {{1, '1'}} with a ONE-offset prior (a valid configuration): refused with "
          f"{type(e).__name__}: {e}  (not counted: loud)")
# ... and the same two surveys + a third one pass the count check with a ONE-offset prior, because
# the three surveys are counted as two:
try:
    nref, M = n_reference_surveys({1: A, "1": B, 2: C}, 1)
    print(f"   keys {{1, '1', 2}} with a ONE-offset prior: accepted silently, offset-free surveys = {nref} "
          "(3 surveys need 2 offsets: should have been refused)")
    bad += 1
except ValueError:
    print("   keys {1, '1', 2} with a ONE-offset prior: refused (good)")

sys.exit(1 if bad else 0)
