"""C15 / demo 1: RVData.guess_from_table writes into the caller's time_kwargs dict, so a
second call with the same dict reads the times of the next table in the WRONG format
(call-history dependence: same table + same arguments -> different observations)."""
import os, sys
sys.path.insert(0, os.getcwd())
import warnings
import numpy as np
import astropy.units as u
from astropy.table import Table
from thejoker import RVData

mjd = np.array([55005.25, 55001.0, 55003.0])
rv = [1.0, 2.0, 3.0] * u.km / u.s
err = [0.1, 0.2, 0.3] * u.km / u.s
tbl_jd = Table({"jd": mjd + 2400000.5, "rv": rv, "rv_err": err})   # star A: JD column
tbl_mjd = Table({"mjd": mjd, "rv": rv, "rv_err": err})              # star B: MJD column

kw = dict(scale="tdb")          # the user's time options, re-used for every table
kw_before = dict(kw)
with warnings.catch_warnings():
    warnings.simplefilter("ignore")
    RVData.guess_from_table(tbl_jd, time_kwargs=kw)
    second = RVData.guess_from_table(tbl_mjd, time_kwargs=kw)          # after a previous call
    fresh = RVData.guess_from_table(tbl_mjd, time_kwargs=dict(scale="tdb"))  # same call, fresh dict

bad = False
if kw != kw_before:
    print(f"caller's time_kwargs was modified: {kw_before} -> {kw}")
    bad = True
dt = second._t_bmjd - fresh._t_bmjd
print("times (BMJD), fresh dict :", fresh._t_bmjd)
print("times (BMJD), re-used dict:", second._t_bmjd)
if not np.allclose(dt, 0.0, atol=1e-9):
    print(f"WRONG: the same table with the same arguments gives times that differ by {dt[0]:.4f} d "
          "(MJD values were parsed as JD)")
    bad = True
sys.exit(1 if bad else 0)
