"""C15-adjacent / demo 5: data without a reference epoch (t_ref=False, a documented option)
cannot be plotted at all: RVData.plot() evaluates self.t_ref.<format> even when
relative_to_t_ref=False."""
import os, sys
sys.path.insert(0, os.getcwd())
import warnings
warnings.simplefilter("ignore")
import matplotlib
matplotlib.use("Agg")
import matplotlib.pyplot as plt
import numpy as np
import astropy.units as u
from thejoker import RVData

d = RVData([55010.0, 55020.0], [1, 2] * u.km / u.s, [0.1, 0.1] * u.km / u.s, t_ref=False)
fig, ax = plt.subplots()
try:
    d.plot(ax=ax)
    x = np.asarray(ax.containers[0].lines[0].get_xdata(), float)
    ok = np.allclose(x, [55010.0, 55020.0])
    if not ok:
        print("WRONG: plotted times", x)
    sys.exit(0 if ok else 1)
except Exception as e:
    print("WRONG: RVData(..., t_ref=False).plot() raises", repr(e))
    sys.exit(1)
