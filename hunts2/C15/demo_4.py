"""C15-adjacent / demo 4: plot_rv_curves (default apply_mean_v0_offset=True) re-wraps the data
in a new RVData WITHOUT its reference epoch; with relative_to_t_ref=True the data points are then
drawn relative to the earliest time while the orbit curves are drawn relative to samples.t_ref,
i.e. points and curves are displaced by (min(t) - t_ref)."""
import os, sys
sys.path.insert(0, os.getcwd())
import warnings
warnings.simplefilter("ignore")
import matplotlib
matplotlib.use("Agg")
import matplotlib.pyplot as plt
import numpy as np
import astropy.units as u
from astropy.time import Time
import thejoker as tj

t = np.array([55010.0, 55020.0, 55035.0, 55050.0])
tref = Time(55000.0, format="mjd", scale="tcb")
d = tj.RVData(t, [1, 2, 3, 4] * u.km / u.s, [0.1] * 4 * u.km / u.s, t_ref=tref)
s = tj.JokerSamples(t_ref=tref)
for k, v in dict(P=[20.0] * u.day, e=[0.1], omega=[0.0] * u.rad, M0=[0.0] * u.rad,
                 s=[0] * u.km / u.s, K=[2] * u.km / u.s, v0=[0] * u.km / u.s).items():
    s[k] = v

expected = t - tref.tcb.mjd       # both curves and points are to be plotted relative to t_ref
bad = False
for amv in [True, False]:
    fig, ax = plt.subplots()
    tj.plot_rv_curves(s, data=d, ax=ax, relative_to_t_ref=True, apply_mean_v0_offset=amv)
    x = np.asarray(ax.containers[0].lines[0].get_xdata(), float)
    print(f"apply_mean_v0_offset={amv}: data x = {x}, expected t - t_ref = {expected}")
    if not np.allclose(x, expected):
        print(f"WRONG: data points displaced by {x[0] - expected[0]:+.1f} d relative to the orbit curves")
        bad = True
sys.exit(1 if bad else 0)
