"""C15 / demo 2: RVData.guess_from_table turns MISSING (masked) table entries into real
observations: u.Quantity(masked_column) drops the mask and keeps the fill data (0 for a
text table), so the RVData holds observations that were never made (rv = 0 km/s, or
rv_err = 0 -> ivar = inf) and clean=True cannot remove them."""
import os, sys
sys.path.insert(0, os.getcwd())
import warnings
import numpy as np
import astropy.units as u
from astropy.table import Table
from thejoker import RVData

csv = """bmjd,rv,rv_err
55003.0,1.5,0.1
55001.0,,0.2
55002.0,2.5,
55004.0,3.5,0.4
"""
tbl = Table.read(csv, format="ascii.csv")
assert tbl["rv"].mask[1] and tbl["rv_err"].mask[2]
with warnings.catch_warnings():
    warnings.simplefilter("ignore")
    d = RVData.guess_from_table(tbl, rv_unit=u.km / u.s)

# independent expectation: only rows with all three entries present are observations
complete = [(55003.0, 1.5, 0.1), (55004.0, 3.5, 0.4)]
got = list(zip(d._t_bmjd.tolist(), d.rv.value.tolist(), d.rv_err.value.tolist()))
print("complete input rows :", complete)
print("RVData observations :", got)
bad = False
if sorted(got) != sorted(complete):
    extra = [g for g in got if g not in complete]
    print("WRONG: RVData holds observations that are not in the input:", extra)
    bad = True
with np.errstate(divide="ignore"):
    if not np.all(np.isfinite(d.ivar.value)):
        print("WRONG: non-finite inverse variance:", d.ivar)
        bad = True
sys.exit(1 if bad else 0)
