"""C15 / demo 3: a one-epoch data set given as a scalar Time is rejected although the same
epoch as a scalar float BMJD (and scalar rv / rv_err) is accepted; as a consequence an
integer key data[i] never yields the i-th observation (ValueError for 1-D errors,
IndexError for a covariance matrix)."""
import os, sys
sys.path.insert(0, os.getcwd())
import numpy as np
import astropy.units as u
from astropy.time import Time
from thejoker import RVData

bad = False
d_float = RVData(55000.0, 1.0 * u.km / u.s, 0.1 * u.km / u.s)         # works
try:
    d_time = RVData(Time(55000.0, format="mjd", scale="tcb"), 1.0 * u.km / u.s, 0.1 * u.km / u.s)
    if d_time._t_bmjd.tolist() != d_float._t_bmjd.tolist():
        print("WRONG: scalar Time and scalar float give different data"); bad = True
except Exception as e:
    print("WRONG: scalar Time input rejected while the scalar float BMJD is accepted:", repr(e)); bad = True

t = np.array([55005.0, 55001.0, 55003.0, 55002.0])
rv = [5.0, 1.0, 3.0, 2.0] * u.m / u.s
err = [0.5, 0.1, 0.3, 0.2] * u.m / u.s
cov = np.diag([0.5, 0.1, 0.3, 0.2]) ** 2 * (u.m / u.s) ** 2
for name, e in [("1-D errors", err), ("covariance", cov)]:
    d = RVData(t, rv, e)
    for key in [2, np.int64(2), -1]:
        ref = d[key:key + 1] if key != -1 else d[len(d) - 1:]     # the equivalent length-1 slice works
        try:
            s = d[key]
            ok = (len(s) == 1 and s._t_bmjd[0] == ref._t_bmjd[0] and s.rv[0] == ref.rv[0]
                  and np.array_equal(s.rv_err, ref.rv_err))
            if not ok:
                print(f"WRONG: {name}: data[{key!r}] is not the observation data[{key}:{key}+1]"); bad = True
        except Exception as ex:
            print(f"WRONG: {name}: data[{key!r}] raises {ex!r} (slice gives t={ref._t_bmjd}, rv={ref.rv})")
            bad = True
sys.exit(1 if bad else 0)
