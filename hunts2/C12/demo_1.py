"""C12 demo 1: an append whose (list / tuple / ndarray valued) metadata differs from the
metadata stored in the file is NOT refused; the rows are appended and the differing
metadata of the second table is silently dropped.  The same difference in a scalar
metadata value IS refused ("metadata do not match").

Run from the worktree root:  /venv/bin/python HUNT/demo_1.py
exit 1 = defect present, exit 0 = property holds.
"""
import os
import sys
import tempfile
import warnings

sys.path.insert(0, os.getcwd())
warnings.simplefilter("ignore")

import astropy.units as u
import h5py
import numpy as np
from astropy.time import Time

from thejoker import JokerSamples


def make(n, seed, **meta):
    rng = np.random.default_rng(seed)
    s = JokerSamples(t_ref=Time(55555.5, format="mjd", scale="tcb"), **meta)
    s["P"] = rng.uniform(1, 10, n) * u.day
    s["e"] = rng.uniform(0, 1, n)
    return s


def snapshot(fn):
    with h5py.File(fn, "r") as f:
        return {k: (f[k].shape, f[k][()].tobytes() if f[k].dtype.kind != "O"
                    else tuple(f[k][()])) for k in f}


bad = []
tmp = tempfile.mkdtemp()
cases = {
    "scalar (control)": (3, 4),
    "list": ([1, 2], [3]),
    "tuple": ((1, 2), (3,)),
    "ndarray": (np.array([1.0, 2.0]), np.array([3.0, 4.0])),
    "dict with other key": ({"a": 1}, {"b": 2}),
}
for label, (v1, v2) in cases.items():
    fn = os.path.join(tmp, "samples.hdf5")
    a = make(4, 1, survey_ids=v1)
    b = make(3, 2, survey_ids=v2)
    a.write(fn, overwrite=True)
    before = snapshot(fn)
    try:
        b.write(fn, append=True)
        refused = False
    except Exception as e:  # noqa
        refused = True
    after = snapshot(fn)
    r = JokerSamples.read(fn)
    print(f"{label:22s}: first table meta {v1!r}, appended table meta {v2!r} -> "
          f"{'refused' if refused else 'ACCEPTED'}; file now has {len(r)} rows, "
          f"meta survey_ids={r.tbl.meta['survey_ids']!r}")
    if refused and before != after:
        bad.append(f"{label}: refused but file altered")
    if not refused:
        bad.append(f"{label}: metadata {v1!r} vs {v2!r} do not match, yet the append was "
                   f"accepted and the second table's metadata was dropped")

if bad:
    print("\nDEFECT (incompatible append not refused):")
    for b_ in bad:
        print("  -", b_)
    sys.exit(1)
print("OK: every append with mismatching metadata was refused and left the file unchanged")
sys.exit(0)
