"""C12 demo 2 (borderline input form): read_batch with a boolean numpy array that selects
exactly ONE row returns n_rows copies of that row instead of the one requested row
(two or more selected rows raise a broadcasting ValueError; an integer index array
works).  read_batch_idx sizes the output with len(idx) although PyTables'
read_coordinates() interprets a boolean array as a mask.

Run from the worktree root:  /venv/bin/python HUNT/demo_2.py
exit 1 = defect present, exit 0 = the rows asked for (or an exception) are returned.
"""
import os
import sys
import tempfile
import warnings

sys.path.insert(0, os.getcwd())
warnings.simplefilter("ignore")

import astropy.units as u
import numpy as np

from thejoker import JokerSamples
from thejoker.utils import read_batch

rng = np.random.default_rng(42)
N = 8
s = JokerSamples()
s["P"] = rng.uniform(1, 10, N) * u.day
s["e"] = rng.uniform(0, 1, N)
fn = os.path.join(tempfile.mkdtemp(), "samples.hdf5")
s.write(fn, overwrite=True)
full = np.stack([s["P"].value, s["e"].value], axis=1)

mask = np.zeros(N, dtype=bool)
mask[5] = True
expected = full[mask]  # 1 row
try:
    got = read_batch(fn, ["P", "e"], mask)
except Exception as e:
    print("read_batch rejected the boolean array:", type(e).__name__, e)
    sys.exit(0)

print("mask            :", mask.astype(int))
print("expected (1 row):", expected)
print("got shape       :", got.shape)
print(got)
if got.shape != expected.shape or not np.array_equal(got, expected):
    print(f"\nDEFECT: asked for 1 row (row 5), got {got.shape[0]} rows, all copies of row 5")
    sys.exit(1)
print("OK")
sys.exit(0)
