"""C03 / demo 1: the Normal priors of the linear parameters are converted to the data's
velocity unit in SINGLE precision, so the (mu, Lambda) that enter a = A(Lambda^-1 mu + ...)
and A = (Lambda^-1 + M^T C^-1 M)^-1 are not the prior's, but float32-rounded versions
(relative error ~1e-7 instead of ~1e-16).

Run from the worktree root:  /venv/bin/python HUNT/demo_1.py
exit 1 = defect present, exit 0 = property holds.
"""
import os
import sys
import warnings

sys.path.insert(0, os.getcwd())
warnings.filterwarnings("ignore")
try:  # run the CURRENT .pyx through the source twin if the tool is there
    sys.path.insert(0, "/tmp/seedtools")
    import pyx_runtime
    pyx_runtime.install_twin(os.path.join(os.getcwd(), "thejoker/src/fast_likelihood.pyx"))
    HAVE_TWIN = True
except Exception:
    HAVE_TWIN = False

import astropy.units as u
import numpy as np
import pymc as pm
from astropy.time import Time

import thejoker as tj
import thejoker.units as xu
from thejoker.utils import _pytensor_get_mean_std

assert tj.__file__.startswith(os.getcwd()), tj.__file__

kms = u.km / u.s
rng0 = np.random.default_rng(42)


def make_data(n, off):
    t = 55000 + np.sort(rng0.uniform(0, 300, n))
    rv = 3.0 + off + 0.4 * np.cos(2 * np.pi * t / 41.0) + rng0.normal(0, 0.5, n)
    return tj.RVData(Time(t, format="mjd", scale="tcb"), rv * kms, np.full(n, 0.5) * kms)


data = [make_data(6, 0.0), make_data(5, -0.3)]  # two surveys, velocities in km/s


def make_prior(in_data_units):
    """The SAME prior twice: declared in m/s and km/s/yr, or declared in the data's units."""
    with pm.Model():
        if in_data_units:
            K = xu.with_unit(pm.Normal("K", -4000.0 / 1e3, 6000.0 / 1e3), kms)
            v0 = xu.with_unit(pm.Normal("v0", 3000.0 / 1e3, 10000.0 / 1e3), kms)
            v1 = xu.with_unit(pm.Normal("v1", 0.5 / 365.25, 1.0 / 365.25), kms / u.day)
            dv = xu.with_unit(pm.Normal("dv0_1", -300.0 / 1e3, 700.0 / 1e3), kms)
        else:
            K = xu.with_unit(pm.Normal("K", -4000.0, 6000.0), u.m / u.s)
            v0 = xu.with_unit(pm.Normal("v0", 3000.0, 10000.0), u.m / u.s)
            v1 = xu.with_unit(pm.Normal("v1", 0.5, 1.0), kms / u.yr)
            dv = xu.with_unit(pm.Normal("dv0_1", -300.0, 700.0), u.m / u.s)
        return tj.JokerPrior.default(
            P_min=2 * u.day, P_max=500 * u.day, sigma_v=None, poly_trend=2,
            pars={"K": K, "v0": v0, "v1": v1}, v0_offsets=[dv],
        )


# the prior in km/s, km/s/day, in the design-matrix order K, v0, dv0_1, v1 (double precision)
MU = np.array([-4.0, 3.0, -0.3, 0.5 / 365.25])
SIG = np.array([6.0, 10.0, 0.7, 1.0 / 365.25])

fail = False

# ---------------------------------------------------------------------------------------
# (1) what the likelihood helper is given as (mu, sigma) of each prior
print("(1) prior mean / std handed to the likelihood helper (data unit km/s):")
prior = make_prior(False)
to_unit = {"K": kms, "v0": kms, "dv0_1": kms, "v1": kms / u.day}
for name, m_ex, s_ex in zip(["K", "v0", "dv0_1", "v1"], MU, SIG):
    dist = prior.model[name]
    m, s = _pytensor_get_mean_std(dist, getattr(dist, xu.UNIT_ATTR_NAME), to_unit[name])
    rel = max(abs(float(m) - m_ex) / abs(m_ex), abs(float(s) - s_ex) / s_ex)
    flag = "" if rel < 1e-13 else "   <-- single-precision conversion"
    print(f"    {name:6s} mu={float(m)!r:24s} (exact {m_ex!r})  sigma={float(s)!r:22s} (exact {s_ex!r})"
          f"  dtype={np.asarray(m).dtype}{flag}")
    if rel >= 1e-13:
        fail = True


# ---------------------------------------------------------------------------------------
# (2) end to end: mean / covariance the sampler draws the linear parameters from
class RecGen(np.random.Generator):
    log = []

    def multivariate_normal(self, mean, cov, size=None, **kw):
        out = super().multivariate_normal(mean, cov, size=size, **kw)
        RecGen.log.append((np.array(mean), np.array(cov), np.array(out)))
        return out


def unit_rv(t, t_ref, P, e, om, M0):
    M = np.mod(2 * np.pi * (t - t_ref) / P - M0, 2 * np.pi)
    E = M + e * np.sin(M)
    for _ in range(100):
        E = E - (E - e * np.sin(E) - M) / (1 - e * np.cos(E))
    f = 2 * np.arctan2(np.sqrt(1 + e) * np.sin(E / 2), np.sqrt(1 - e) * np.cos(E / 2))
    return np.cos(om + f) + e * np.cos(om)


def worst_error(in_data_units):
    prior = make_prior(in_data_units)
    ps = prior.sample(2000, rng=np.random.default_rng(1))
    RecGen.log.clear()
    joker = tj.TheJoker(prior, rng=RecGen(np.random.PCG64(7)))
    out = joker.rejection_sample(data, ps, in_memory=True, n_linear_samples=1)
    t = np.concatenate([d.t.tcb.mjd for d in data])
    y = np.concatenate([d.rv.to_value(kms) for d in data])
    err = np.concatenate([d.rv_err.to_value(kms) for d in data])
    second = np.concatenate([np.zeros(len(data[0])), np.ones(len(data[1]))])
    t_ref = t.min()
    worst_a = worst_A = 0.0
    for i, (mean, cov, _) in enumerate(RecGen.log):
        P = out["P"][i].to_value(u.day); e = float(out["e"][i])
        om = out["omega"][i].to_value(u.rad); M0 = out["M0"][i].to_value(u.rad)
        s = out["s"][i].to_value(kms)
        M = np.stack([unit_rv(t, t_ref, P, e, om, M0), np.ones(len(t)), second, t - t_ref], axis=1)
        Cinv = 1 / (err**2 + s**2)
        A = np.linalg.inv(np.diag(1 / SIG**2) + M.T @ (Cinv[:, None] * M))
        a = A @ (MU / SIG**2 + M.T @ (Cinv * y))
        sd = np.sqrt(np.diag(A))
        worst_a = max(worst_a, np.max(np.abs(mean - a) / sd))
        worst_A = max(worst_A, np.max(np.abs(cov - A) / np.outer(sd, sd)))
    return len(RecGen.log), worst_a, worst_A


if HAVE_TWIN:
    print("(2) mean a and covariance A used for the draws vs. the closed form (double precision):")
    for label, flag in [("prior declared in the data's units (control)", True),
                        ("same prior declared in m/s and km/s/yr      ", False)]:
        n, wa, wA = worst_error(flag)
        print(f"    {label}: {n} accepted samples, max |a - a_exact|/sd = {wa:.1e},"
              f" max |A - A_exact|/(sd sd) = {wA:.1e}")
        if not flag and max(wa, wA) > 1e-9:
            fail = True
else:
    print("(2) skipped: source-twin runtime not available")

if fail:
    print("DEFECT: the linear parameters are drawn with a float32-rounded prior (mu, Lambda) "
          "when the prior's unit differs from the data's unit.")
    sys.exit(1)
print("OK: prior converted in double precision")
sys.exit(0)
