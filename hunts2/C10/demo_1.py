"""C10 demo 1: thejoker.is_P_Kmodal (public API, exported from the package) runs
sklearn's KMeans with random_state=None, i.e. on numpy's GLOBAL RandomState: the call
(a) changes np.random's global state and (b) reads it -- the returned (mode_means, n_per_mode)
come out in an order that depends on np.random.seed(), and there is no rng argument to control it.
Run from the worktree root:   /venv/bin/python HUNT/demo_1.py
exit 1 = defect present, exit 0 = property holds."""
import os, sys, warnings
sys.path.insert(0, os.getcwd())
warnings.filterwarnings("ignore")
import numpy as np
import astropy.units as u
from astropy.time import Time
import thejoker as tj

assert os.path.abspath(tj.__file__).startswith(os.getcwd()), tj.__file__

r = np.random.default_rng(0)
t = 58000 + np.sort(r.uniform(0, 200, 8))
data = tj.RVData(Time(t, format="mjd"), r.normal(0, 10, 8) * u.km / u.s, np.ones(8) * u.km / u.s)

# posterior samples with two clean period modes (40 samples near 8 d, 24 near 21 d)
s = tj.JokerSamples()
s["P"] = np.concatenate([r.normal(8, 1e-3, 40), r.normal(21, 1e-3, 24)]) * u.day
for name, unit in (("e", u.one), ("omega", u.rad), ("M0", u.rad)):
    s[name] = np.zeros(64) * unit
s["ln_likelihood"] = r.uniform(size=64)
s["ln_prior"] = r.uniform(size=64)


def gstate():
    st = np.random.get_state()
    return st[0], st[1].tobytes(), st[2:]


bad = False
results = {}
for seed in range(8):
    np.random.seed(seed)            # global state the package must neither read nor touch
    g0 = gstate()
    ok, means, n_per_mode = tj.is_P_Kmodal(s, data, n_clusters=2)
    changed = gstate() != g0
    results[seed] = (np.round(np.ravel(means.value), 3).tolist(), n_per_mode.tolist())
    print(f"np.random.seed({seed}): mode_means={results[seed][0]} n_per_mode={results[seed][1]} "
          f"global numpy state changed by the call: {changed}")
    bad |= changed

distinct = {str(v) for v in results.values()}
if len(distinct) > 1:
    print(f"DEFECT (reads global state): identical inputs gave {len(distinct)} different outputs, "
          "depending only on np.random.seed()")
    bad = True
if bad:
    print("DEFECT: is_P_Kmodal draws its randomness from numpy's global RandomState "
          "(thejoker/samples_analysis.py:75, KMeans(n_clusters=n_clusters) without random_state)")
    sys.exit(1)
print("OK: global state untouched and output independent of it")
sys.exit(0)
