"""C10 demo 2: successive prior.sample() calls on ONE seeded Generator return bit-identical
samples (nonlinear AND linear parameters): every call funnels the generator through a single
30-bit integer seed (pm.draw(random_seed=rng) -> rng.integers(2**30)), so "successive calls
receive different random streams" is false.  Run from the worktree root:
    /venv/bin/python HUNT/demo_2.py
exit 1 = defect present, exit 0 = property holds."""
import os, sys, warnings
sys.path.insert(0, os.getcwd())
warnings.filterwarnings("ignore")
import numpy as np
import astropy.units as u
import pymc as pm
import thejoker as tj

assert os.path.abspath(tj.__file__).startswith(os.getcwd()), tj.__file__

SEED, I, J = 1761918, 1, 24   # found by HUNT/search_collision.py (birthday search over seeds)

with pm.Model():
    prior = tj.JokerPrior.default(P_min=2 * u.day, P_max=256 * u.day,
                                  sigma_K0=30 * u.km / u.s, sigma_v=100 * u.km / u.s)

rng = np.random.default_rng(SEED)
calls = []
for k in range(J + 1):          # J+1 successive calls on the same generator
    calls.append(prior.sample(size=16, generate_linear=True, rng=rng))

a, b = calls[I], calls[J]
same = all(np.array_equal(np.asarray(a[c]), np.asarray(b[c])) for c in a.tbl.colnames)
n_distinct = len({np.asarray(s["K"]).tobytes() for s in calls})
print(f"{J + 1} successive prior.sample(size=16, generate_linear=True, rng=rng) calls, "
      f"rng = default_rng({SEED})")
print(f"distinct K-draw arrays among the calls: {n_distinct} (expected {J + 1})")
print(f"call #{I}: K[:3] = {np.asarray(a['K'])[:3]}, P[:3] = {np.asarray(a['P'])[:3]}")
print(f"call #{J}: K[:3] = {np.asarray(b['K'])[:3]}, P[:3] = {np.asarray(b['P'])[:3]}")
if same:
    print(f"DEFECT: call #{I} and call #{J} on one generator are bit-identical in every column "
          f"({a.tbl.colnames}): the linear-parameter draws are repeated across calls")
    sys.exit(1)
print("OK: all successive calls differ")
sys.exit(0)
