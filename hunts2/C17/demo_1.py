"""
demo_1: a sample table whose dimensionless columns (e, ln_prior, ...) carry no unit cannot be
wrapped in a JokerSamples at all -- the constructor (and `samples[name] = column`) dies with
    AttributeError: 'NoneType' object has no attribute 'is_equivalent'
so none of the C17 operations (indexing, masking, copy, mean/std, median_period, pack/unpack) can be
applied to such a table.  JokerSamples.__setitem__ explicitly means to accept unit-less values
("val = val * u.one  # eccentricity"), and does for a bare ndarray/list, but an astropy Column has
a `.unit` attribute that is None, which defeats the `hasattr(val, "unit")` test.

Run from the worktree root:  /venv/bin/python HUNT/demo_1.py
exit 1 = defect present, exit 0 = property holds for this table.
"""
import os
import sys
import tempfile

sys.path.insert(0, os.getcwd())

import astropy.units as u
import numpy as np
from astropy.table import QTable
from astropy.time import Time

import thejoker
from thejoker import JokerSamples

print("thejoker from", thejoker.__file__)

t_ref = Time(58000.25, format="mjd", scale="tcb")
e_vals = np.array([0.1, 0.2, 0.3, 0.05, 0.6])
lnp = np.array([-1.0, -2.0, -3.0, -4.0, -5.0])


def make_table():
    # the natural way to build a QTable: eccentricity is a pure number, so no unit
    return QTable(
        {
            "P": [3.0, 11.0, 7.0, 100.0, 5.0] * u.day,
            "e": e_vals,
            "omega": [10.0, 100.0, 200.0, 300.0, 359.0] * u.deg,
            "M0": [0.1, 1.0, 2.0, 3.0, 6.0] * u.rad,
            "s": [0.0, 0.0, 1.0, 2.0, 3.0] * u.m / u.s,
            "K": [-1.0, 2.0, -3.0, 4.0, -5.0] * u.km / u.s,
            "v0": [0.0, 1.0, 2.0, 3.0, 4.0] * u.km / u.s,
            "ln_prior": lnp,
        }
    )


problems = []


def attempt(label, func):
    try:
        return func()
    except Exception as exc:  # noqa: BLE001
        problems.append(f"{label}: {type(exc).__name__}: {exc}")
        return None


# 1. constructor from a QTable
s = attempt("JokerSamples(QTable with unit-less 'e')", lambda: JokerSamples(make_table(), t_ref=t_ref))

# 2. constructor from a dict (documented input form) with a bare array for e
attempt(
    "JokerSamples(dict(P=..., e=ndarray))",
    lambda: JokerSamples(dict(P=[1.0, 2.0] * u.day, e=np.array([0.1, 0.2]))),
)

# 3. item assignment of a table column, while the same numbers as ndarray are accepted
ok = JokerSamples(t_ref=t_ref)
ok["P"] = [1.0, 2.0, 3.0, 4.0, 5.0] * u.day
ok["e"] = e_vals  # accepted: bare ndarray -> dimensionless
attempt("samples['e'] = table['e'] (a Column)", lambda: ok.__setitem__("e", make_table()["e"]))

# 4. a samples file written by anything but JokerSamples.write (here: astropy itself)
tmp = tempfile.mkdtemp()
for ext in ("hdf5", "fits"):
    fn = os.path.join(tmp, "samples." + ext)
    tbl = make_table()
    if ext == "hdf5":
        tbl.write(fn, path="samples", serialize_meta=True, overwrite=True)
    else:
        tbl.write(fn, overwrite=True)
    attempt(f"JokerSamples.read(<{ext} file with unit-less 'e'>)", lambda fn=fn: JokerSamples.read(fn))

# 5. if construction works, the C17 invariances must hold for this table too
if s is not None:
    def check(label, r, idx):
        if r.t_ref is None or r.poly_trend != 1 or r.n_offsets != 0:
            problems.append(f"{label}: metadata lost: {r.tbl.meta}")
        if r["e"].unit != u.one or r["ln_prior"].unit != u.one or r["P"].unit != u.day:
            problems.append(f"{label}: units changed")
        if idx is not None and not np.array_equal(np.atleast_1d(r["e"].value), np.atleast_1d(e_vals[idx])):
            problems.append(f"{label}: e values changed")

    check("s[1]", s[1], 1)
    check("s[np.int64(2)]", s[np.int64(2)], 2)
    check("s[1:4]", s[1:4], slice(1, 4))
    check("s[mask]", s[s["K"] < 0 * u.km / u.s], np.array([True, False, True, False, True]))
    check("copy", s.copy(), slice(None))
    check("mean", s.mean(), None)
    check("std", s.std(), None)
    mp = s.median_period()
    check("median_period", mp, 2)  # P = 7 d is the median of (3, 11, 7, 100, 5)
    packed, units = s.pack(nonlinear_only=False)
    r = JokerSamples.unpack(packed, units, t_ref=t_ref)
    if r.par_names != s.par_names or not np.array_equal(r["e"].value, e_vals):
        problems.append("pack/unpack: names or e values not reproduced")

if problems:
    print("PROPERTY VIOLATED (C17 cannot even be evaluated on this valid sample table):")
    for p in problems:
        print("  -", p)
    sys.exit(1)

print("OK: unit-less dimensionless columns are accepted and all table operations preserve them")
sys.exit(0)
