"""C16 / n_batches: iterative_rejection_sample(..., n_batches=k) does not split the
prior samples into k batches for the likelihood stage; the requested batch count is
dropped (n_batches=None is hard-coded) and the pool size is used instead.

Run from the worktree root:  /venv/bin/python HUNT/demo_1.py
exit 1 = defect present, exit 0 = requested batch count honoured.
"""
import os
import sys
import tempfile

sys.path.insert(0, os.getcwd())
sys.path.insert(0, "/tmp/seedtools")
try:  # run the CURRENT kernel source (the compiled .so in the sandbox is stale)
    import pyx_runtime

    pyx_runtime.install_twin(os.path.join(os.getcwd(), "thejoker/src/fast_likelihood.pyx"))
except Exception:  # pragma: no cover - kernel version is irrelevant for this demo
    pass

import logging
import warnings

warnings.simplefilter("ignore")

import astropy.units as u
import numpy as np
from astropy.time import Time

import thejoker as tj
from thejoker.logging import logger

logger.setLevel(logging.ERROR)
assert os.path.dirname(tj.__file__).startswith(os.getcwd()), tj.__file__


class RecordingPool:
    """Serial pool that records the task lists it is asked to map."""

    def __init__(self, size):
        self.size = size
        self.calls = []

    def map(self, func, tasks):
        tasks = list(tasks)
        self.calls.append((func.__name__, tasks))
        return [func(t) for t in tasks]

    def close(self):
        pass


def batch_sizes(tasks):
    return [
        (t[0][1] - t[0][0]) if isinstance(t[0], tuple) else len(t[0]) for t in tasks
    ]


rng = np.random.default_rng(42)
n = 5
t = Time(59000 + np.sort(rng.uniform(0, 300, n)), format="mjd")
rv = (10 * np.cos(2 * np.pi * (t.mjd - 59000) / 37.0) + rng.normal(0, 3, n)) * u.km / u.s
data = tj.RVData(t, rv, np.full(n, 3.0) * u.km / u.s)
prior = tj.JokerPrior.default(
    P_min=2 * u.day, P_max=500 * u.day, sigma_K0=30 * u.km / u.s, sigma_v=100 * u.km / u.s
)
N = 3000
prior_samples = prior.sample(size=N, rng=np.random.default_rng(1))
tmpdir = tempfile.mkdtemp()
fn = os.path.join(tmpdir, "prior.hdf5")
prior_samples.write(fn, overwrite=True)

REQUESTED = 10
problems = []
for pool_size in (0, 4):  # 0 = what schwimmbad.SerialPool reports, 4 = a 4-worker pool
    # control: rejection_sample honours the request
    pool = RecordingPool(pool_size)
    joker = tj.TheJoker(prior, pool=pool, rng=np.random.default_rng(9))
    joker.rejection_sample(data, fn, n_batches=REQUESTED)
    name, tasks = pool.calls[0]
    print(f"pool.size={pool_size} rejection_sample            n_batches={REQUESTED}: "
          f"{name} got {len(tasks)} batches")
    if len(tasks) != REQUESTED:
        problems.append(("rejection_sample", pool_size, len(tasks)))

    pool = RecordingPool(pool_size)
    joker = tj.TheJoker(prior, pool=pool, rng=np.random.default_rng(9))
    joker.iterative_rejection_sample(
        data, fn, n_requested_samples=64, init_batch_size=100, n_batches=REQUESTED
    )
    for it, (name, tasks) in enumerate(pool.calls):
        if not name.startswith("marginal"):
            continue
        sizes = batch_sizes(tasks)
        n_tasks = sum(sizes)
        expected = REQUESTED if n_tasks >= REQUESTED else 1
        print(f"pool.size={pool_size} iterative_rejection_sample  n_batches={REQUESTED}: "
              f"likelihood call {it} over {n_tasks} prior samples got {len(tasks)} "
              f"batch(es), largest {max(sizes)} rows (expected {expected} batches, "
              f"largest {-(-n_tasks // expected)} rows)")
        if len(tasks) != expected:
            problems.append(("iterative_rejection_sample", pool_size, it, len(tasks), expected))

os.unlink(fn)
os.rmdir(tmpdir)

if problems:
    print("\nDEFECT: the batch count requested with n_batches is ignored when the "
          "iterative sampler partitions the prior samples for the likelihood stage:")
    for p in problems:
        print("   ", p)
    sys.exit(1)
print("OK: requested batch count honoured everywhere")
sys.exit(0)
