"""C05 demo 2: with equal seeds, the set of accepted prior samples depends on the execution path as
soon as the same TheJoker object is used for a second call: the in-memory path draws the linear
parameters from TheJoker.rng itself, the cache-file path draws them from spawned child generators
and leaves TheJoker.rng where it was.  So after one rejection_sample() the parent generator is in a
different state on the two paths, and the next call accepts different prior samples.

Run from the worktree root:  /venv/bin/python HUNT/demo_2.py
exit 1 = property violated (this tree), exit 0 = property holds.
"""
import os
import sys
import warnings

sys.path.insert(0, os.getcwd())
sys.path.insert(0, "/tmp/seedtools")
import pyx_runtime  # noqa: E402

pyx_runtime.install_twin(os.path.join(os.getcwd(), "thejoker/src/fast_likelihood.pyx"))
warnings.filterwarnings("ignore")

import astropy.units as u  # noqa: E402
import numpy as np  # noqa: E402
from astropy.time import Time  # noqa: E402

import thejoker as tj  # noqa: E402

assert tj.__file__.startswith(os.getcwd()), tj.__file__

rng = np.random.default_rng(1)
n = 5
t = Time(55555.0 + rng.uniform(0, 300, n), format="mjd", scale="tcb")
rv = (10 * np.sin(2 * np.pi * t.mjd / 37.0) + rng.normal(0, 1, n)) * u.km / u.s
err = rng.uniform(0.5, 1.5, n) * u.km / u.s
data = tj.RVData(t=t, rv=rv, rv_err=err)

prior = tj.JokerPrior.default(
    P_min=2 * u.day, P_max=1e3 * u.day, sigma_K0=30 * u.km / u.s, sigma_v=100 * u.km / u.s
)
samples = prior.sample(size=400, rng=np.random.default_rng(42))
lib_P = samples["P"].to_value(u.day)


def sequence(in_memory, n_calls=3, seed=123):
    """the same call sequence on one TheJoker; returns accepted library rows per call + rng state"""
    joker = tj.TheJoker(prior, rng=np.random.default_rng(seed))
    accepted, states = [], []
    for _ in range(n_calls):
        post = joker.rejection_sample(data, samples, in_memory=in_memory)
        rows = sorted(int(np.argmin(np.abs(lib_P - P))) for P in post["P"].to_value(u.day))
        accepted.append(rows)
        states.append(joker.rng.bit_generator.state["state"]["state"])
    return accepted, states


acc_mem, st_mem = sequence(True)
acc_file, st_file = sequence(False)

bad = False
for i, (a, b, sa, sb) in enumerate(zip(acc_mem, acc_file, st_mem, st_file), start=1):
    same = a == b
    print(f"call {i}: accepted rows in_memory={a}  cache-file={b}  -> {'same' if same else 'DIFFERENT'}")
    print(f"         parent rng state afterwards equal: {sa == sb}")
    if not same:
        bad = True

if bad:
    print(
        "\nFAIL: equal seeds, same data, same prior samples, same call sequence - but the accepted "
        "set of the 2nd/3rd call depends on in_memory (the call history leaves TheJoker.rng in a "
        "path-dependent state)."
    )
    sys.exit(1)
print("OK: accepted sets agree for every call of the sequence")
sys.exit(0)
