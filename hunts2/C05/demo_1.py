"""C05 demo 1: the marginal ln-likelihood of the SAME JokerSamples object differs between the
in-memory path and the HDF5-cache path when a column carries a non-multiplicative (function) unit,
e.g. the period stored as log10(P / day) in astropy's dex(d) unit (accepted by JokerSamples).

Run from the worktree root:  /venv/bin/python HUNT/demo_1.py
exit 1 = property violated (this tree), exit 0 = property holds.
"""
import os
import sys
import tempfile
import warnings

sys.path.insert(0, os.getcwd())
sys.path.insert(0, "/tmp/seedtools")
import pyx_runtime  # noqa: E402

pyx_runtime.install_twin(os.path.join(os.getcwd(), "thejoker/src/fast_likelihood.pyx"))
warnings.filterwarnings("ignore")

import astropy.units as u  # noqa: E402
import numpy as np  # noqa: E402
from astropy.time import Time  # noqa: E402

import thejoker as tj  # noqa: E402

assert tj.__file__.startswith(os.getcwd()), tj.__file__

rng = np.random.default_rng(1)
n = 6
t = Time(55555.0 + rng.uniform(0, 300, n), format="mjd", scale="tcb")
rv = (10 * np.sin(2 * np.pi * t.mjd / 37.0) + rng.normal(0, 1, n)) * u.km / u.s
err = rng.uniform(0.5, 1.5, n) * u.km / u.s
data = tj.RVData(t=t, rv=rv, rv_err=err)

prior = tj.JokerPrior.default(
    P_min=2 * u.day, P_max=1e3 * u.day, sigma_K0=30 * u.km / u.s, sigma_v=100 * u.km / u.s
)
samples = prior.sample(size=40, rng=np.random.default_rng(42))
joker = tj.TheJoker(prior, rng=np.random.default_rng(0))

# reference: ordinary samples (P in days); all paths agree on these
ref = joker.marginal_ln_likelihood(data, samples, in_memory=True)
ref_file = joker.marginal_ln_likelihood(data, samples)
assert np.array_equal(ref, ref_file)

# the same samples, period stored as a logarithmic quantity: log10(P/day) dex(d)
s_dex = samples.copy()
s_dex["P"] = u.Dex(np.log10(samples["P"].to_value(u.day)), u.dex(u.day))
# independent check that these ARE the same periods (to round-off):
assert np.allclose(s_dex["P"].to_value(u.day), samples["P"].to_value(u.day), rtol=1e-13)

fn = tempfile.mktemp(suffix=".hdf5")
s_dex.write(fn)
try:
    paths = {
        "in_memory=True, object": joker.marginal_ln_likelihood(data, s_dex, in_memory=True),
        "in_memory=True, file name": joker.marginal_ln_likelihood(data, fn, in_memory=True),
        "cache, object": joker.marginal_ln_likelihood(data, s_dex),
        "cache, object, n_batches=3": joker.marginal_ln_likelihood(data, s_dex, n_batches=3),
        "cache, file name": joker.marginal_ln_likelihood(data, fn),
    }
finally:
    os.unlink(fn)

bad = False
print(f"{'path':32s} max|ll - ll(P in days)|")
for k, v in paths.items():
    dev = np.max(np.abs(v - ref))
    print(f"{k:32s} {dev:.3e}")
    if dev > 1e-8:
        bad = True

if bad:
    print(
        "\nFAIL: the cache-file paths return different marginal ln-likelihoods than the in-memory "
        "paths for the same samples (read_batch multiplies the stored log10(P) by a constant "
        "instead of converting dex(d) -> d)."
    )
    sys.exit(1)
print("OK: all execution paths agree")
sys.exit(0)
