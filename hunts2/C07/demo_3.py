"""C07 demo 3: TheJoker.setup_mcmc ignores the unit declared for the eccentricity.

JokerPrior accepts any unit equivalent to dimensionless for e (e.g. percent), and the rejection
sampler converts the e column to u.one before the kernel sees it.  setup_mcmc converts P, omega, M0,
K, s and the trend terms to internal units, but passes p["e"] straight to KeplerianOrbit(ecc=...).
With e declared in percent the MCMC model therefore uses ecc = 100*e: silently wrong model RVs /
likelihood for e < 1 %, and "eccentricity must be in the range [0, 1)" for larger e.
The demo draws joint prior points from the model that setup_mcmc built and compares its `model_rv`
with an independent twobody evaluation of the same (unit-carrying) parameters.
Exit 1 = defect present, exit 0 = property holds.
"""
import os, sys
sys.path.insert(0, os.getcwd())
sys.path.insert(0, "/tmp/seedtools")
import pyx_runtime
pyx_runtime.install_twin(os.path.join(os.getcwd(), "thejoker/src/fast_likelihood.pyx"))
import warnings; warnings.simplefilter("ignore")
import numpy as np, astropy.units as u
from astropy.time import Time
import pymc as pm
import thejoker as tj
import thejoker.units as xu
assert os.path.abspath(tj.__file__).startswith(os.getcwd())

rng = np.random.default_rng(0)
n = 12
t = 58000 + np.sort(rng.uniform(0, 200, n))
data = tj.RVData(Time(t, format="mjd", scale="tcb"), rng.normal(0, 10, n)*u.km/u.s, np.ones(n)*u.km/u.s)

def check(e_unit):
    hi = (0.009*u.one).to_value(e_unit)          # e uniform in [0, 0.9 %]
    with pm.Model() as model:
        e = xu.with_unit(pm.Uniform("e", 0, hi), e_unit)
        prior = tj.JokerPrior.default(P_min=10*u.day, P_max=100*u.day, sigma_K0=30*u.km/u.s,
                                      sigma_v=50*u.km/u.s, pars={"e": e})
        joker = tj.TheJoker(prior)
        start = prior.sample(1, generate_linear=True, rng=np.random.default_rng(2))
        start = tj.JokerSamples(start.tbl, t_ref=data.t_ref)
        joker.setup_mcmc(data, start)
        names = ["P", "e", "omega", "M0", "K", "v0"]
        draws = pm.draw([model["model_rv"]] + [model[k] for k in names], draws=3, random_seed=5)
    worst = 0.
    for j in range(3):
        s = tj.JokerSamples(t_ref=data.t_ref)
        for k, d in zip(names, draws[1:]):
            s[k] = np.atleast_1d(d[j]) * prior.par_units[k]
        expect = s.get_orbit(0).radial_velocity(data.t).to_value(data.rv.unit)
        worst = max(worst, np.max(np.abs(draws[0][j] - expect)))
    return worst

bad = False
for e_unit in (u.one, u.percent):
    w = check(e_unit)
    print(f"e declared in {e_unit!r}: max |model_rv(setup_mcmc) - twobody RV| = {w:.3e} km/s")
    if w > 1e-6:
        bad = True
        print("   -> WRONG: the MCMC model does not describe the same physical orbit")
sys.exit(1 if bad else 0)
