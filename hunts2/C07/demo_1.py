"""C07 demo 1: prior samples whose period column is in a logarithmic unit (dex(day)).

JokerSamples accepts the column (dex(d) is "equivalent" to day), and the in-memory code path
(JokerSamples.pack -> Quantity.to_value) converts it correctly.  The default cache-file code path
(thejoker.utils.read_batch_slice / read_batch_idx) converts with ONE multiplicative factor,
    batch[:, i] *= table_units[name].to(units[name])        # dex(d).to(d) == 10.0
so it feeds P = 10*log10(P/d) days into the kernel instead of P = 10**x days: silently wrong
likelihoods, a different accepted set and different posterior samples.
Exit 1 = defect present, exit 0 = property holds.
"""
import os, sys
sys.path.insert(0, os.getcwd())
sys.path.insert(0, "/tmp/seedtools")
import pyx_runtime
pyx_runtime.install_twin(os.path.join(os.getcwd(), "thejoker/src/fast_likelihood.pyx"))
import warnings; warnings.simplefilter("ignore")
import numpy as np, astropy.units as u
from astropy.time import Time
import pymc as pm
import thejoker as tj
assert os.path.abspath(tj.__file__).startswith(os.getcwd())

rng = np.random.default_rng(42)
n = 8
t = 58000 + np.sort(rng.uniform(0, 250, n))
rv = (25*np.sin(2*np.pi*t/31.7) + 5 + rng.normal(0, 2, n)) * u.km/u.s
err = rng.uniform(3, 5, n) * u.km/u.s
data = tj.RVData(Time(t, format="mjd", scale="tcb"), rv, err)
with pm.Model():
    prior = tj.JokerPrior.default(P_min=2*u.day, P_max=1000*u.day, sigma_K0=30*u.km/u.s, sigma_v=100*u.km/u.s)

ps_day = prior.sample(400, rng=np.random.default_rng(1))
ps_dex = tj.JokerSamples()
for k in ps_day.par_names:
    ps_dex[k] = ps_day[k]
ps_dex["P"] = ps_day["P"].to(u.dex(u.day))          # the same periods, as log10(P/day)
assert np.allclose(ps_dex["P"].to_value(u.day), ps_day["P"].value, rtol=1e-13)

def run(ps, in_memory):
    joker = tj.TheJoker(prior, rng=np.random.default_rng(7))
    ll = joker.marginal_ln_likelihood(data, ps, in_memory=in_memory)
    joker = tj.TheJoker(prior, rng=np.random.default_rng(7))
    samples, lls = joker.rejection_sample(data, ps, in_memory=in_memory, return_all_logprobs=True)
    return ll, samples

bad = False
for in_memory in (True, False):
    ll_ref, s_ref = run(ps_day, in_memory)
    ll_dex, s_dex = run(ps_dex, in_memory)
    dll = np.max(np.abs(ll_dex - ll_ref))
    same_set = len(s_ref) == len(s_dex) and np.allclose(s_ref["P"].to_value(u.day), s_dex["P"].to_value(u.day), rtol=1e-10)
    print(f"in_memory={in_memory}: max |ln L(P in dex(d)) - ln L(P in d)| = {dll:.3e} (expected ~0: the data unit is unchanged); "
          f"accepted {len(s_dex)} vs {len(s_ref)}; same accepted periods: {same_set}")
    if dll > 1e-6 or not same_set:
        bad = True
        print("   -> WRONG: the unit-transformed twin gives a different likelihood / accepted set")
        print("      first periods returned   :", s_dex["P"][:3])
        print("      first periods (reference):", s_ref["P"][:3])
sys.exit(1 if bad else 0)
