"""C07 demo 2: prior samples whose period column is in a *scaled* unit, here the tropical year
written as u.Unit(365.2422 * u.day).

The default (cache-file) code path writes the JokerSamples to a temporary HDF5 file in their own
units and lets read_batch re-read the unit from the file header.  The header stores the unit as the
string "365.242 d" (scale printed with 6 significant digits), so every period that comes back from
the file is wrong by a factor 365.242/365.2422 = 1 - 5.5e-7.  For precise data over a long baseline
that is far more than round-off: the marginal ln-likelihoods, the accepted set and the returned
periods differ from those of the same problem with P in days (and from the in_memory=True path).
Exit 1 = defect present, exit 0 = property holds.
"""
import os, sys
sys.path.insert(0, os.getcwd())
sys.path.insert(0, "/tmp/seedtools")
import pyx_runtime
pyx_runtime.install_twin(os.path.join(os.getcwd(), "thejoker/src/fast_likelihood.pyx"))
import warnings; warnings.simplefilter("ignore")
import numpy as np, astropy.units as u
from astropy.time import Time
import pymc as pm
import thejoker as tj
assert os.path.abspath(tj.__file__).startswith(os.getcwd())

rng = np.random.default_rng(3)
n = 10
P_true = 3.123456
t = 55000 + np.sort(rng.uniform(0, 4000, n))            # 11 yr baseline, ~1300 cycles
rv = (20*np.cos(2*np.pi*(t - 55000)/P_true) + 5 + rng.normal(0, 0.05, n)) * u.km/u.s
err = np.full(n, 0.05) * u.km/u.s                        # 50 m/s
data = tj.RVData(Time(t, format="mjd", scale="tcb"), rv, err)
with pm.Model():
    prior = tj.JokerPrior.default(P_min=2*u.day, P_max=10*u.day, sigma_K0=30*u.km/u.s, sigma_v=100*u.km/u.s)

# prior samples: circular orbits on a fine period grid around the true period (any library will do)
N = 300
ps_day = tj.JokerSamples()
ps_day["P"] = (P_true + np.linspace(-3e-5, 3e-5, N)) * u.day
ps_day["e"] = np.zeros(N) * u.one
ps_day["omega"] = np.zeros(N) * u.rad
ps_day["M0"] = np.zeros(N) * u.rad
ps_day["s"] = np.zeros(N) * u.km/u.s

tropical_year = u.Unit(365.2422 * u.day)
ps_tyr = tj.JokerSamples()
for k in ps_day.par_names:
    ps_tyr[k] = ps_day[k]
ps_tyr["P"] = ps_day["P"].to(tropical_year)
assert np.allclose(ps_tyr["P"].to_value(u.day), ps_day["P"].value, rtol=1e-15)

bad = False
for in_memory in (True, False):
    ll_ref = tj.TheJoker(prior).marginal_ln_likelihood(data, ps_day, in_memory=in_memory)
    ll_tyr = tj.TheJoker(prior).marginal_ln_likelihood(data, ps_tyr, in_memory=in_memory)
    s_ref = tj.TheJoker(prior, rng=np.random.default_rng(7)).rejection_sample(data, ps_day, in_memory=in_memory)
    s_tyr = tj.TheJoker(prior, rng=np.random.default_rng(7)).rejection_sample(data, ps_tyr, in_memory=in_memory)
    dll = np.max(np.abs(ll_tyr - ll_ref))
    same = len(s_ref) == len(s_tyr) and np.allclose(s_ref["P"].value, s_tyr["P"].to_value(u.day), rtol=1e-12)
    print(f"in_memory={in_memory}: max |ln L(P in tropical yr) - ln L(P in d)| = {dll:.3e} (expected ~1e-9 or less); "
          f"accepted {len(s_tyr)} vs {len(s_ref)}; physically equal periods: {same}")
    if len(s_ref) == len(s_tyr):
        print("   max relative period difference of the returned samples:",
              np.max(np.abs(s_tyr["P"].to_value(u.day)/s_ref["P"].value - 1)))
    if dll > 1e-4 or not same:
        bad = True
        print("   -> WRONG: the same physical problem in another period unit gives different results")
sys.exit(1 if bad else 0)
