"""phase_coverage_per_period ("the maximum number of data points within a period")
depends on / breaks with the reference epoch of the data and fails for one epoch.

Run from the worktree root:  /venv/bin/python HUNT/demo_1.py
Exits 1 on the unchanged tree; exits 0 once the diagnostic equals its definition.

The observing pattern is chosen so that the answer is unambiguous for ANY reasonable
implementation (exact sliding window, or the two half-period-shifted grids the code
uses, anchored anywhere): four observations inside 0.3 P, the only other two
observations 4.7 P away  ->  4 data points within one period.
"""
import sys
sys.path.insert(0, ".")
import numpy as np
import astropy.units as u
from astropy.time import Time
import thejoker
from thejoker import RVData, JokerSamples
from thejoker.samples_analysis import phase_coverage_per_period

print("thejoker from", thejoker.__file__)
P = 10.0
t = 58000.0 + np.array([0.0, 1.0, 2.0, 3.0, 50.0, 51.0])
sample = JokerSamples()
sample["P"] = [P] * u.day


def brute(t, P):
    """max number of points in a half-open window [x, x+P): independent definition"""
    t = np.sort(np.asarray(t, float))
    return max(int(np.sum((t >= x) & (t < x + P))) for x in t)


def mk(t, **kw):
    t = np.atleast_1d(np.asarray(t, float))
    return RVData(t, np.zeros(len(t)) * u.km / u.s, np.ones(len(t)) * u.km / u.s, **kw)


cases = [
    ("default t_ref (first epoch)", mk(t), brute(t, P)),
    ("t_ref=False (no reference epoch)", mk(t, t_ref=False), brute(t, P)),
    ("explicit t_ref between the two runs",
     mk(t, t_ref=Time(58025.0, format="mjd", scale="tcb")), brute(t, P)),
    ("explicit t_ref after the last epoch",
     mk(t, t_ref=Time(58100.0, format="mjd", scale="tcb")), brute(t, P)),
    ("a single epoch", mk([58000.0]), 1),
    ("two observations at the same time", mk([58000.0, 58000.0]), 2),
]

n_bad = 0
for label, data, expected in cases:
    try:
        got = phase_coverage_per_period(sample, data)
        got = int(np.squeeze(got))
        ok = got == expected
        shown = str(got)
    except Exception as e:  # noqa
        ok = False
        shown = f"raised {type(e).__name__}: {e}"
    print(f"{'ok ' if ok else 'BAD'} {label:40s} expected {expected}   observed {shown}")
    n_bad += not ok

if n_bad:
    print(f"\n{n_bad} of {len(cases)} cases: phase_coverage_per_period is not the maximum "
          "number of data points within a period (same observations, same period; only "
          "the data's reference epoch / the number of epochs differs).")
    sys.exit(1)
print("all cases agree with the definition")
sys.exit(0)
