"""Sample rows that carry a reference epoch (e.g. the posterior of an earlier data set) and are evaluated on
OTHER data: TheJoker.marginal_ln_likelihood / rejection_sample silently re-interpret M0 relative to the new
data's t_ref, whereas samples.get_orbit / ln_unmarginalized_likelihood use samples.t_ref.  For the same
(rows, data) pair the two public numbers therefore refer to different RV curves and the Bayes identity
  marginal(theta) = ln p(y|theta,x) + ln p(x|theta) - ln N(x|a,A)
fails.  No error or warning is raised.

Run from the worktree root:  /venv/bin/python HUNT/demo_3.py     (exit 1 = defect present)
"""
import os, sys, warnings
sys.path.insert(0, os.getcwd())
warnings.filterwarnings("ignore")
if os.path.exists("/tmp/seedtools/pyx_runtime.py"):
    sys.path.insert(0, "/tmp/seedtools")
    import pyx_runtime
    pyx_runtime.install_twin(os.path.join(os.getcwd(), "thejoker/src/fast_likelihood.pyx"))
import numpy as np
import astropy.units as u
from astropy.time import Time
import pymc as pm
import thejoker as tj
from twobody.wrap import cy_rv_from_elements

assert os.path.dirname(os.path.dirname(tj.__file__)) == os.getcwd(), tj.__file__


def mvn_logpdf(x, m, S):
    S = 0.5 * (S + S.T)
    d = np.asarray(x) - np.asarray(m)
    return -0.5 * (d @ np.linalg.solve(S, d) + np.linalg.slogdet(2 * np.pi * S)[1])


rng = np.random.default_rng(12)
truth = dict(P=37.0, e=0.25, omega=0.7, M0=2.0, K=8.0, v0=3.0)
epochA = 58000.0


def make_data(t):
    kcol = np.array(cy_rv_from_elements(np.ascontiguousarray(t), truth["P"], 1.0, truth["e"], truth["omega"],
                                        truth["M0"], epochA, 1e-10, 128))
    err = np.full(len(t), 0.5)
    rv = truth["K"] * kcol + truth["v0"] + rng.normal(0, 0.5, len(t))
    return tj.RVData(Time(t, format="mjd", scale="tcb"), rv * u.km / u.s, err * u.km / u.s)


t1 = epochA + np.array([0.0, 5.0, 11.0, 19.0, 26.0, 33.0, 41.0])
t2 = epochA + 400.0 + np.array([1.3, 9.0, 15.0, 22.0, 30.0])
data1, data2 = make_data(t1), make_data(t2)

with pm.Model():
    prior = tj.JokerPrior.default(P_min=30 * u.day, P_max=45 * u.day, sigma_K0=30 * u.km / u.s, sigma_v=10 * u.km / u.s)
joker = tj.TheJoker(prior, rng=np.random.default_rng(3))

post1 = joker.rejection_sample(data1, prior.sample(size=150, rng=np.random.default_rng(5)), in_memory=True,
                               max_posterior_samples=3)
A, B = post1.t_ref.tcb.mjd, data2.t_ref.tcb.mjd
print(f"rows: {len(post1)} posterior samples of data set 1, t_ref = {A};   data set 2 has t_ref = {B}")

L_marg = joker.marginal_ln_likelihood(data2, post1, in_memory=True)     # kernel
L_unm = post1.ln_unmarginalized_likelihood(data2)                        # get_orbit, relative to samples.t_ref

t = data2._t_bmjd
y = data2.rv.value
C = np.diag(data2.rv_err.value ** 2)
bad = False
for i in range(len(post1)):
    P, e = post1["P"][i].to_value(u.day), float(post1["e"][i])
    om, M0 = post1["omega"][i].to_value(u.rad), post1["M0"][i].to_value(u.rad)
    x = np.array([post1["K"][i].value, post1["v0"][i].value])
    sigK = min(30.0 / np.sqrt(1 - e ** 2) * (P / 365.25) ** (-1 / 3.0), 500.0)
    Lam = np.diag([sigK ** 2, 100.0])
    out = {}
    for name, t0 in (("A", A), ("B", B)):
        M = np.stack([np.array(cy_rv_from_elements(np.ascontiguousarray(t), P, 1.0, e, om, M0, t0, 1e-10, 128)),
                      np.ones(len(t))], axis=1)
        marg = mvn_logpdf(y, np.zeros(len(t)), C + M @ Lam @ M.T)
        unm = np.sum(-0.5 * (np.log(2 * np.pi * np.diag(C)) + (y - M @ x) ** 2 / np.diag(C)))
        Ainv = np.linalg.inv(Lam) + M.T @ np.linalg.inv(C) @ M
        Acov = np.linalg.inv(Ainv)
        a = Acov @ (M.T @ np.linalg.inv(C) @ y)
        rhs = unm + mvn_logpdf(x, np.zeros(2), Lam) - mvn_logpdf(x, a, Acov)
        assert abs(marg - rhs) < 1e-6 * max(1, abs(marg))      # the identity holds for either epoch on its own
        out[name] = (marg, unm)
    print(f"row {i}: package marginal = {L_marg[i]:.4f}   package unmarginalized = {L_unm[i]:.4f}")
    print(f"        closed form, epoch = samples.t_ref : marginal = {out['A'][0]:.4f}   unmarginalized = {out['A'][1]:.4f}")
    print(f"        closed form, epoch = data2.t_ref   : marginal = {out['B'][0]:.4f}   unmarginalized = {out['B'][1]:.4f}")
    same_epoch = (abs(L_marg[i] - out["A"][0]) < 1e-6 * max(1, abs(out["A"][0]))
                  and abs(L_unm[i] - out["A"][1]) < 1e-6 * max(1, abs(out["A"][1])))
    if not same_epoch:
        bad = True

if bad:
    print("WRONG: the marginal likelihood uses the data's epoch, the reconstructed orbit the samples' epoch: "
          "for one (rows, data) pair the two values belong to different RV curves")
sys.exit(1 if bad else 0)
