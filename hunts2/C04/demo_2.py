"""JokerSamples(<table of another JokerSamples>, t_ref=X) silently drops X when the table's own meta says
t_ref=None (every table of prior samples does): the rows are then reconstructed (get_orbit /
ln_unmarginalized_likelihood) relative to BMJD 0 instead of X, i.e. they denote a different RV curve than
the one the sampler's model gives for the same parameter values and the data's reference epoch X.

Run from the worktree root:  /venv/bin/python HUNT/demo_2.py     (exit 1 = defect present)
"""
import os, sys, warnings
sys.path.insert(0, os.getcwd())
warnings.filterwarnings("ignore")
if os.path.exists("/tmp/seedtools/pyx_runtime.py"):
    sys.path.insert(0, "/tmp/seedtools")
    import pyx_runtime
    pyx_runtime.install_twin(os.path.join(os.getcwd(), "thejoker/src/fast_likelihood.pyx"))
import numpy as np
import astropy.units as u
from astropy.time import Time
import pymc as pm
import thejoker as tj
from twobody.wrap import cy_rv_from_elements

assert os.path.dirname(os.path.dirname(tj.__file__)) == os.getcwd(), tj.__file__

rng = np.random.default_rng(4)
n = 6
t = 58000.0 + np.sort(rng.uniform(0, 200, n))
rv = rng.normal(0, 5, n)
err = rng.uniform(0.3, 0.6, n)
data = tj.RVData(Time(t, format="mjd", scale="tcb"), rv * u.km / u.s, err * u.km / u.s)

with pm.Model():
    prior = tj.JokerPrior.default(P_min=2 * u.day, P_max=500 * u.day, sigma_K0=30 * u.km / u.s,
                                  sigma_v=[10 * u.km / u.s, 0.05 * u.km / u.s / u.day], poly_trend=2)

# full (nonlinear + linear) rows drawn from the prior; they carry no reference epoch yet
rows = prior.sample(size=4, generate_linear=True, rng=np.random.default_rng(1))
assert rows.t_ref is None

# hand-built sample rows for THESE data: same values, epoch = the data's reference epoch
smp = tj.JokerSamples(rows.tbl, t_ref=data.t_ref)
print("requested t_ref :", data.t_ref.tcb.mjd, "   samples.t_ref :", smp.t_ref)

# independent evaluation of ln p(y | theta, x) with the sampler's model: design matrix relative to data.t_ref
t0 = data.t_ref.tcb.mjd
got = smp.ln_unmarginalized_likelihood(data)
bad = smp.t_ref is None
for i in range(len(smp)):
    kcol = np.array(cy_rv_from_elements(np.ascontiguousarray(t), smp["P"][i].to_value(u.day), 1.0, float(smp["e"][i]),
                                        smp["omega"][i].to_value(u.rad), smp["M0"][i].to_value(u.rad), t0, 1e-10, 128))
    model = (smp["K"][i].to_value(u.km / u.s) * kcol + smp["v0"][i].to_value(u.km / u.s)
             + smp["v1"][i].to_value(u.km / u.s / u.day) * (t - t0))
    var = err ** 2 + smp["s"][i].to_value(u.km / u.s) ** 2
    exp = np.sum(-0.5 * (np.log(2 * np.pi * var) + (rv - model) ** 2 / var))
    rv_pkg = smp.get_orbit(i).radial_velocity(data.t).to_value(u.km / u.s)
    print(f"row {i}: ln p(y|theta,x) package = {got[i]:.6g}   expected (epoch = t_ref) = {exp:.6g}   "
          f"max |RV_get_orbit - RV_model| = {np.abs(rv_pkg - model).max():.4g} km/s")
    if abs(got[i] - exp) > 1e-6 * max(1.0, abs(exp)):
        bad = True

if bad:
    print("WRONG: the explicit t_ref was ignored (table meta t_ref=None won); rows are rebuilt relative to BMJD 0")
sys.exit(1 if bad else 0)
