"""plot_rv_curves(..., data=<RVData with an explicit t_ref>, relative_to_t_ref=True) draws the data
points on a different time axis than the RV curves of the sample rows (default apply_mean_v0_offset=True).

Run from the worktree root:  /venv/bin/python HUNT/demo_1.py     (exit 1 = defect present)
"""
import os, sys, warnings
sys.path.insert(0, os.getcwd())
warnings.filterwarnings("ignore")
if os.path.exists("/tmp/seedtools/pyx_runtime.py"):
    sys.path.insert(0, "/tmp/seedtools")
    import pyx_runtime
    pyx_runtime.install_twin(os.path.join(os.getcwd(), "thejoker/src/fast_likelihood.pyx"))
import matplotlib
matplotlib.use("Agg")
import matplotlib.pyplot as plt
import numpy as np
import astropy.units as u
from astropy.time import Time
import thejoker as tj
from thejoker.plot import plot_rv_curves

assert os.path.dirname(os.path.dirname(tj.__file__)) == os.getcwd(), tj.__file__

# one hand-built sample row: circular orbit, K = 10 km/s, P = 50 d, epoch t_ref
t_ref = Time(57900.0, format="mjd", scale="tcb")
smp = tj.JokerSamples(t_ref=t_ref)
smp["P"] = [50.0] * u.day
smp["e"] = [0.0]
smp["omega"] = [0.3] * u.rad
smp["M0"] = [1.1] * u.rad
smp["s"] = [0.0] * u.km / u.s
smp["K"] = [10.0] * u.km / u.s
smp["v0"] = [2.0] * u.km / u.s

# noise-free data generated FROM that row, with the same explicit reference epoch
t = Time(58000.0 + np.array([3.0, 17.0, 40.5, 66.0, 91.25, 120.0]), format="mjd", scale="tcb")
rv = smp.get_orbit(0).radial_velocity(t)
data = tj.RVData(t, rv, 0.1 * np.ones(len(t)) * u.km / u.s, t_ref=t_ref)
assert abs(smp.ln_unmarginalized_likelihood(data)[0] - len(t) * (-0.5 * np.log(2 * np.pi * 0.01))) < 1e-6

bad = False
for amo in (False, True):
    fig, ax = plt.subplots()
    plot_rv_curves(smp, data=data, ax=ax, relative_to_t_ref=True, apply_mean_v0_offset=amo,
                   t_grid=Time(np.linspace(57990, 58130, 4001), format="mjd", scale="tcb"))
    curve = [ln for ln in ax.lines if len(ln.get_xdata()) == 4001][0]
    pts = [ln for ln in ax.lines if len(ln.get_xdata()) == len(t)][0]
    xd, yd = np.asarray(pts.get_xdata()), np.asarray(pts.get_ydata())
    model_at_pts = np.interp(xd, curve.get_xdata(), curve.get_ydata())
    expected_x = t.tcb.mjd - t_ref.tcb.mjd
    resid = np.abs(model_at_pts - yd).max()
    print(f"apply_mean_v0_offset={amo}: data x = {np.round(xd, 2)}")
    print(f"    expected (t - t_ref)   = {np.round(expected_x, 2)}")
    print(f"    max |plotted curve(x_data) - plotted data| = {resid:.3f} km/s  (data were generated from the row: expect ~0)")
    if np.abs(xd - expected_x).max() > 1e-6 or resid > 0.05:
        bad = True
        print("    -> WRONG: data points are not on the time axis of the curves")
    plt.close(fig)

sys.exit(1 if bad else 0)
