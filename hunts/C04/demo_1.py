"""C04 counterexample 1: the sampler pairs the v0-offset priors/values with the surveys by their POSITION in
JokerPrior(v0_offsets=[...]), while every consumer of a returned row (ln_unmarginalized_likelihood, setup_mcmc,
plot_rv_curves) pairs them BY NAME (dv0_k <-> k-th extra survey).  With v0_offsets=[dv0_2, dv0_1] a returned row
therefore denotes one RV curve inside the sampler and another one when it is reconstructed; the Bayes identity
    ln_likelihood = ln p(y|theta,x) + ln p(x|theta) - ln N(x|a,A)
fails by hundreds of nats.  Run from the worktree root:  /venv/bin/python HUNT/demo_1.py
"""
import os, sys, warnings
sys.path.insert(0, os.getcwd()); sys.path.insert(0, "/tmp/seedtools")
warnings.filterwarnings("ignore")
import pyx_runtime
pyx_runtime.install_twin(os.path.join(os.getcwd(), "thejoker/src/fast_likelihood.pyx"))  # CURRENT kernel source
import numpy as np, astropy.units as u, pymc as pm
from astropy.time import Time
import thejoker as tj, thejoker.units as xu
from thejoker.logging import logger
logger.setLevel(40)
assert tj.__file__.startswith(os.getcwd())

kms = u.km / u.s
rng = np.random.default_rng(7)
# three surveys observing the same K=5 km/s, P=37.3 d circular orbit; survey 2 reads +10 km/s, survey 3 -20 km/s
P_true, K_true, v0_true = 37.3, 5.0, 3.0
def survey(t, off):
    rv = K_true * np.cos(2 * np.pi * (t - 58000.) / P_true) + v0_true + off + rng.normal(0, 0.1, len(t))
    return tj.RVData(Time(t, format="mjd", scale="tcb"), rv * kms, np.full(len(t), 0.1) * kms)
d1 = survey(58000. + np.array([0., 11., 25., 40., 61., 77.]), 0.)
d2 = survey(58003. + np.array([0., 9., 31., 52.]), +10.)
d3 = survey(58005. + np.array([0., 17., 28., 66.]), -20.)
data = [d1, d2, d3]

PRI = {"dv0_1": (10., 1.), "dv0_2": (-20., 2.)}     # (mean, sd) in km/s of the offset of survey 2 / survey 3
SIG_K, SIG_V0 = 30., 100.                            # K ~ N(0, 30^2), v0 ~ N(0, 100^2)

def make_prior(order):
    with pm.Model():
        offs = {n: xu.with_unit(pm.Normal(n, *PRI[n]), kms) for n in ("dv0_1", "dv0_2")}
        K = xu.with_unit(pm.Normal("K", 0., SIG_K), kms)
        return tj.JokerPrior.default(P_min=10 * u.day, P_max=100 * u.day, s=0 * kms, sigma_v=SIG_V0 * kms,
                                     v0_offsets=[offs[n] for n in order], pars={"K": K})

def lnN(x, m, C):
    d = np.atleast_1d(x) - np.atleast_1d(m)
    return -0.5 * (d @ np.linalg.solve(C, d) + np.linalg.slogdet(2 * np.pi * C)[1])

def closed_form(row):
    """independent numpy computation, offsets paired with the surveys BY NAME: dv0_1 -> 2nd survey, dv0_2 -> 3rd"""
    t = np.concatenate([d.t.tcb.mjd for d in data]); y = np.concatenate([d.rv.value for d in data])
    C = np.diag(np.concatenate([d.rv_err.value for d in data]) ** 2)
    ids = np.concatenate([[i] * len(d) for i, d in enumerate(data)])
    tref = row.t_ref.tcb.mjd
    P, e, om, M0 = (row["P"][0].to_value(u.day), float(row["e"][0]), row["omega"][0].to_value(u.rad), row["M0"][0].to_value(u.rad))
    M = 2 * np.pi * (t - tref) / P - M0
    E = M + e * np.sin(M)
    for _ in range(100):
        E = E - (E - e * np.sin(E) - M) / (1 - e * np.cos(E))
    f = 2 * np.arctan2(np.sqrt(1 + e) * np.sin(E / 2), np.sqrt(1 - e) * np.cos(E / 2))
    Mx = np.stack([np.cos(om + f) + e * np.cos(om), np.ones_like(t), (ids == 1) * 1., (ids == 2) * 1.], axis=1)
    mu = np.array([0., 0., PRI["dv0_1"][0], PRI["dv0_2"][0]])
    L = np.diag([SIG_K ** 2, SIG_V0 ** 2, PRI["dv0_1"][1] ** 2, PRI["dv0_2"][1] ** 2])
    x = np.array([row[n][0].to_value(kms) for n in ("K", "v0", "dv0_1", "dv0_2")])
    A = np.linalg.inv(np.linalg.inv(L) + Mx.T @ np.linalg.inv(C) @ Mx)
    a = A @ (np.linalg.inv(L) @ mu + Mx.T @ np.linalg.inv(C) @ y)
    return dict(marg=lnN(y, Mx @ mu, C + Mx @ L @ Mx.T), unmarg=lnN(y, Mx @ x, C), linprior=lnN(x, mu, L), cond=lnN(x, a, A))

bad = False
for order in (("dv0_1", "dv0_2"), ("dv0_2", "dv0_1")):
    prior = make_prior(order)
    joker = tj.TheJoker(prior, rng=np.random.default_rng(1))
    ps = prior.sample(size=20000, return_logprobs=True, rng=np.random.default_rng(2))
    post = joker.rejection_sample(data, ps, return_logprobs=True, max_posterior_samples=4)
    ull = post.ln_unmarginalized_likelihood(data)
    print(f"\nv0_offsets=[{', '.join(order)}]  ->  {len(post)} posterior rows, columns {post.par_names}")
    for i in range(len(post)):
        row = post[i]
        ref = closed_form(row)
        rep = float(post["ln_likelihood"][i])
        rhs = ull[i] + ref["linprior"] - ref["cond"]
        print(f"  row {i}: dv0_1={post['dv0_1'][i]:.2f} dv0_2={post['dv0_2'][i]:.2f} | reported marginal lnL={rep:.3f}, "
              f"closed form={ref['marg']:.3f} | package ln p(y|theta,x)={ull[i]:.3f} (closed form {ref['unmarg']:.3f}) | "
              f"Bayes rhs={rhs:.3f}")
        if abs(rep - ref["marg"]) > 1e-5 or abs(rep - rhs) > 1e-5:
            bad = True
            print(f"     -> VIOLATION: reported - closed-form marginal = {rep - ref['marg']:.3f}; reported - Bayes rhs = {rep - rhs:.3f}")
if bad:
    print("\nFAIL: with the offsets listed as [dv0_2, dv0_1] the sampler uses dv0_2's prior/value for the 2nd survey, but the\n"
          "returned row is reconstructed with dv0_1 on the 2nd survey: the row does not denote one RV curve (C04 violated).")
    sys.exit(1)
print("\nOK: identity holds for both orders")
sys.exit(0)
