"""C04 counterexample 4 (crash, not a wrong number): RVData(..., t_ref=False) is documented ("Set to False to disable
subtracting the reference time"); the kernel then uses epoch BMJD 0 and returns rows with samples.t_ref = None.  Such a
row cannot be turned back into the RV curve the sampler used: get_orbit(i).radial_velocity(t) and
ln_unmarginalized_likelihood(data) die with "TypeError: must be real number, not NoneType".
Run from the worktree root: /venv/bin/python HUNT/demo_4.py
"""
import os, sys, warnings
sys.path.insert(0, os.getcwd()); sys.path.insert(0, "/tmp/seedtools")
warnings.filterwarnings("ignore")
import pyx_runtime
pyx_runtime.install_twin(os.path.join(os.getcwd(), "thejoker/src/fast_likelihood.pyx"))
import numpy as np, astropy.units as u, pymc as pm
from astropy.time import Time
import thejoker as tj
from thejoker.logging import logger
logger.setLevel(40)
assert tj.__file__.startswith(os.getcwd())

kms = u.km / u.s
rng = np.random.default_rng(3)
t = 58000. + np.array([0., 13., 29., 48., 71., 90., 118.])
rv = 5 * np.cos(2 * np.pi * (t - 58000.) / 37.3) + 3. + rng.normal(0, 0.1, len(t))
data = tj.RVData(Time(t, format="mjd", scale="tcb"), rv * kms, np.full(len(t), 0.1) * kms, t_ref=False)
with pm.Model():
    prior = tj.JokerPrior.default(P_min=10 * u.day, P_max=100 * u.day, sigma_K0=30 * kms, sigma_v=100 * kms)
joker = tj.TheJoker(prior, rng=np.random.default_rng(1))
post = joker.rejection_sample(data, prior.sample(20000, return_logprobs=True, rng=np.random.default_rng(2)),
                              return_logprobs=True, max_posterior_samples=2)
print("rows:", len(post), " samples.t_ref =", post.t_ref)
i = 0
P, e, om, M0 = post["P"][i].to_value(u.day), float(post["e"][i]), post["omega"][i].to_value(u.rad), post["M0"][i].to_value(u.rad)
M = 2 * np.pi * (t - 0.0) / P - M0                       # the kernel's epoch for t_ref=False is BMJD 0
E = M + e * np.sin(M)
for _ in range(100):
    E = E - (E - e * np.sin(E) - M) / (1 - e * np.cos(E))
f = 2 * np.arctan2(np.sqrt(1 + e) * np.sin(E / 2), np.sqrt(1 - e) * np.cos(E / 2))
want = post["K"][i].to_value(kms) * (np.cos(om + f) + e * np.cos(om)) + post["v0"][i].to_value(kms)
lnl = -0.5 * np.sum(np.log(2 * np.pi * 0.01) + (want - rv) ** 2 / 0.01)
print(f"closed form (epoch BMJD 0): ln p(y|theta,x) = {lnl:.4f}, reported marginal lnL = {float(post['ln_likelihood'][i]):.4f}")
bad = False
try:
    got = post.get_orbit(i).radial_velocity(data.t).to_value(kms)
    print("get_orbit: max |orbit - closed form| =", np.max(np.abs(got - want)))
    bad |= np.max(np.abs(got - want)) > 1e-6
except Exception as ex:
    print("get_orbit(0).radial_velocity(data.t) raised", type(ex).__name__, ":", ex); bad = True
try:
    ull = post.ln_unmarginalized_likelihood(data)
    print("ln_unmarginalized_likelihood =", ull[i]); bad |= abs(ull[i] - lnl) > 1e-5
except Exception as ex:
    print("ln_unmarginalized_likelihood(data) raised", type(ex).__name__, ":", ex); bad = True
if bad:
    print("\nFAIL: rows sampled from data with t_ref=False cannot be reconstructed (C04: no common RV curve)."); sys.exit(1)
print("OK"); sys.exit(0)
