"""C04 counterexample 2: JokerSamples documents `t_ref : astropy.time.Time, numeric`.  With a numeric (BMJD) t_ref and
poly_trend >= 2 the orbit reconstructed from a row (get_orbit / ln_unmarginalized_likelihood) evaluates the polynomial
trend at  JD(t) - t_ref  instead of  t - t_ref  (off by 2400000.5 d), so the row denotes a different RV curve than the
one the sampler's kernel used for the very same numbers.  Run from the worktree root: /venv/bin/python HUNT/demo_2.py
"""
import os, sys, warnings
sys.path.insert(0, os.getcwd()); sys.path.insert(0, "/tmp/seedtools")
warnings.filterwarnings("ignore")
import pyx_runtime
pyx_runtime.install_twin(os.path.join(os.getcwd(), "thejoker/src/fast_likelihood.pyx"))
import numpy as np, astropy.units as u, pymc as pm
from astropy.time import Time
import thejoker as tj
from thejoker.logging import logger
logger.setLevel(40)
assert tj.__file__.startswith(os.getcwd())

kms = u.km / u.s
rng = np.random.default_rng(3)
t = 58000. + np.array([0., 13., 29., 48., 71., 90., 118.])
rv = 5 * np.cos(2 * np.pi * (t - 58000.) / 37.3) + 3. + 0.02 * (t - 58000.) + rng.normal(0, 0.1, len(t))
data = tj.RVData(Time(t, format="mjd", scale="tcb"), rv * kms, np.full(len(t), 0.1) * kms)
tref_bmjd = float(data.t_ref.tcb.mjd)          # 58000.0

with pm.Model():
    prior = tj.JokerPrior.default(P_min=10 * u.day, P_max=100 * u.day, sigma_K0=30 * kms,
                                  sigma_v=[100 * kms, 1 * kms / u.day], poly_trend=2)
joker = tj.TheJoker(prior, rng=np.random.default_rng(1))
post = joker.rejection_sample(data, prior.sample(20000, return_logprobs=True, rng=np.random.default_rng(2)),
                              return_logprobs=True, max_posterior_samples=3)
# the same rows, hand-built with the same reference epoch given as a number (BMJD), as the docstring allows
cols = {k: post[k] for k in post.par_names}
hand = tj.JokerSamples(cols, t_ref=tref_bmjd, poly_trend=2)

def closed_form_rv(s, i, tref):
    P, e, om, M0 = s["P"][i].to_value(u.day), float(s["e"][i]), s["omega"][i].to_value(u.rad), s["M0"][i].to_value(u.rad)
    M = 2 * np.pi * (t - tref) / P - M0
    E = M + e * np.sin(M)
    for _ in range(100):
        E = E - (E - e * np.sin(E) - M) / (1 - e * np.cos(E))
    f = 2 * np.arctan2(np.sqrt(1 + e) * np.sin(E / 2), np.sqrt(1 - e) * np.cos(E / 2))
    return (s["K"][i].to_value(kms) * (np.cos(om + f) + e * np.cos(om)) + s["v0"][i].to_value(kms)
            + s["v1"][i].to_value(kms / u.day) * (t - tref))

bad = False
ull_time = post.ln_unmarginalized_likelihood(data)
ull_num = hand.ln_unmarginalized_likelihood(data)
print(f"reference epoch: Time -> {post.t_ref!r};  numeric -> {hand.t_ref!r}")
for i in range(len(post)):
    want = closed_form_rv(post, i, tref_bmjd)
    rv_time = post.get_orbit(i).radial_velocity(data.t).to_value(kms)
    rv_num = hand.get_orbit(i).radial_velocity(data.t).to_value(kms)
    lnl = -0.5 * np.sum(np.log(2 * np.pi * 0.01) + (want - rv) ** 2 / 0.01)
    print(f"row {i}: max|orbit - closed form|  Time t_ref: {np.max(np.abs(rv_time - want)):.2e} km/s   "
          f"numeric t_ref: {np.max(np.abs(rv_num - want)):.6e} km/s")
    print(f"        ln p(y|theta,x): closed form {lnl:.4f} | Time t_ref {ull_time[i]:.4f} | numeric t_ref {ull_num[i]:.6e}"
          f"   (reported marginal lnL {float(post['ln_likelihood'][i]):.3f})")
    if np.max(np.abs(rv_num - want)) > 1e-6 or abs(ull_num[i] - lnl) > 1e-5:
        bad = True
if bad:
    print("\nFAIL: with a numeric t_ref the reconstructed orbit's polynomial trend is evaluated 2400000.5 days away from\n"
          "where the sampler evaluated it (v1 * 2400000.5 d), so the unmarginalised likelihood of the row is wrong (C04 violated).")
    sys.exit(1)
print("\nOK")
sys.exit(0)
