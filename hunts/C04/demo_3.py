"""C04 counterexample 3: plot_phase_fold removes the survey offsets with `rv[ids == i]` (i = 1..n_offsets), i.e. it assumes
that the survey labels are 0,1,2,...  For multi-survey data passed as a dict (labels = the dict keys; the sampler,
ln_unmarginalized_likelihood and plot_rv_curves pair dv0_k with the k-th sorted key) the offsets of the row are NOT
applied: the same row and the same observations give a different data-minus-model picture than with a list.
No kernel involved.  Run from the worktree root: /venv/bin/python HUNT/demo_3.py
"""
import os, sys, warnings
sys.path.insert(0, os.getcwd())
warnings.filterwarnings("ignore")
import matplotlib
matplotlib.use("Agg")
import matplotlib.pyplot as plt
import numpy as np, astropy.units as u
from astropy.time import Time
import thejoker as tj
from thejoker.plot import plot_phase_fold
assert tj.__file__.startswith(os.getcwd())

kms = u.km / u.s
P, K, v0, off = 37.3, 5.0, 3.0, 10.0
t1 = 58000. + np.array([0., 11., 25., 40., 61., 77.]); t2 = 58003. + np.array([0., 9., 31., 52.])
curve = lambda t: K * np.cos(2 * np.pi * (t - 58000.) / P) + v0       # e=0, omega=0, M0=0 at t_ref=58000
d1 = tj.RVData(Time(t1, format="mjd", scale="tcb"), curve(t1) * kms, np.full(len(t1), 0.1) * kms)
d2 = tj.RVData(Time(t2, format="mjd", scale="tcb"), (curve(t2) + off) * kms, np.full(len(t2), 0.1) * kms)
row = tj.JokerSamples(dict(P=[P] * u.day, e=[0.] * u.one, omega=[0.] * u.rad, M0=[0.] * u.rad, s=[0.] * kms, K=[K] * kms,
                           v0=[v0] * kms, dv0_1=[off] * kms),
                      t_ref=Time(58000., format="mjd", scale="tcb"), n_offsets=1)

def residuals(data):
    fig, ax = plt.subplots()
    plot_phase_fold(row, data=data, ax=ax, residual=True, show_s_errorbar=False)
    y = np.concatenate([np.asarray(l.get_ydata(), float) for l in ax.lines])
    plt.close(fig)
    return y

bad = False
print("the row reproduces both surveys exactly (noise-free data): ln p(y|theta,x) for list / dict input:",
      row.ln_unmarginalized_likelihood([d1, d2]), row.ln_unmarginalized_likelihood({"apogee": d1, "tres": d2}))
for label, data in [("list [d1, d2]", [d1, d2]), ("dict {'apogee': d1, 'tres': d2}", {"apogee": d1, "tres": d2}),
                    ("dict {10: d1, 20: d2}", {10: d1, 20: d2})]:
    r = residuals(data)
    print(f"{label:34s} max |data - offsets - orbit| plotted = {np.max(np.abs(r)):.3e} km/s (expected 0)")
    if np.max(np.abs(r)) > 1e-8:
        bad = True
if bad:
    print("\nFAIL: for dict-keyed surveys plot_phase_fold does not apply the row's dv0_1 to the second survey: the row is drawn\n"
          "against a different RV curve than the one used by the sampler / ln_unmarginalized_likelihood (C04 violated).")
    sys.exit(1)
print("OK"); sys.exit(0)
