"""C14 demo: the cache-file path of iterative_rejection_sample does not clamp
max_prior_samples to the library size (the in-memory path does).

Run from the worktree root:  /venv/bin/python HUNT/demo_1.py
exit 1 = defect present, exit 0 = property holds.
"""
import os
import sys
import tempfile
import warnings

sys.path.insert(0, os.getcwd())
sys.path.insert(0, "/tmp/seedtools")
warnings.filterwarnings("ignore")
try:  # run the CURRENT kernel source, not the stale .so
    import pyx_runtime
    pyx_runtime.install_twin(os.path.join(os.getcwd(), "thejoker/src/fast_likelihood.pyx"))
except Exception as exc:  # pragma: no cover
    print("note: source twin not installed:", exc)

import astropy.units as u
import numpy as np
from astropy.time import Time

import thejoker as tj

assert os.path.abspath(tj.__file__).startswith(os.getcwd()), tj.__file__

# --- data, prior, a library of N = 400 prior samples (file and object) -------
g = np.random.default_rng(1)
t = np.sort(g.uniform(0, 200, 8)) + 58000.0
rv = 8 * np.cos(2 * np.pi * (t - 58000.0) / 37.3 + 0.7) + 3 + g.normal(0, 0.3, 8)
data = tj.RVData(Time(t, format="mjd"), rv * u.km / u.s, rv_err=np.full(8, 0.3) * u.km / u.s)
prior = tj.JokerPrior.default(
    P_min=2 * u.day, P_max=256 * u.day, sigma_K0=30 * u.km / u.s, sigma_v=100 * u.km / u.s
)
N = 400
lib = prior.sample(size=N, rng=np.random.default_rng(0))
fn = tempfile.mktemp(suffix=".hdf5")
lib.write(fn, overwrite=True)

helper = tj.TheJoker(prior)._make_joker_helper(data)
X, _ = lib.pack(units=helper.internal_units, names=helper.packed_order)


def run(in_memory, prior_samples, **kw):
    joker = tj.TheJoker(prior, rng=np.random.default_rng(42))
    try:
        s = joker.iterative_rejection_sample(data, prior_samples, in_memory=in_memory, **kw)
    except Exception as e:  # noqa: BLE001
        return f"raised {type(e).__name__}: {e}"
    rows, _ = s.pack(units=helper.internal_units, names=helper.packed_order)
    # every returned row must be a library row
    ok = all((np.abs(X - r).max(axis=1) < 1e-12 * np.abs(r).max()).any() for r in rows)
    return f"{type(s).__name__} with {len(s)} samples (all library rows: {ok})"


failures = []
cases = [
    # (label, kwargs).  max_prior_samples is "the maximum number of prior samples to
    # process": a budget above the library size is a valid request; the budget then is
    # the library size ("never evaluates more than max_prior_samples (or the library size)")
    ("A: shuffled order, budget N+1, request satisfiable in the first batch",
     dict(n_requested_samples=1, init_batch_size=50, max_prior_samples=N + 1,
          randomize_prior_order=True)),
    ("B: library order, budget 10*N, sampler has to walk to the end of the library",
     dict(n_requested_samples=300, init_batch_size=50, max_prior_samples=10 * N,
          randomize_prior_order=False)),
]
for label, kw in cases:
    print(label)
    ref = run(True, lib, **kw)  # in-memory path: clamps the budget to the library
    unlimited = run(False, fn, **{**kw, "max_prior_samples": None})
    res_file = run(False, fn, **kw)  # cache-file path, file name
    res_obj = run(False, lib, **kw)  # cache-file path, JokerSamples via temp file
    print("   in_memory=True                         :", ref)
    print("   in_memory=False, max_prior_samples=None :", unlimited)
    print("   in_memory=False (file name)             :", res_file)
    print("   in_memory=False (JokerSamples)          :", res_obj)
    for r in (res_file, res_obj):
        if r != ref:
            failures.append((label, r, ref))

os.unlink(fn)
if failures:
    print()
    print("DEFECT: with max_prior_samples larger than the library the cache-file path of")
    print("iterative_rejection_sample fails inside numpy / PyTables although the same call")
    print("succeeds in memory and with max_prior_samples=None (same seed -> same samples):")
    for label, got, want in failures:
        print(f" - {label}\n     got     : {got}\n     expected: {want}")
    sys.exit(1)
print("OK: both paths agree")
sys.exit(0)
