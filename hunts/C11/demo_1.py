"""C11 demo 1: a second setup_mcmc() call on the same prior/model with OTHER data
silently keeps the likelihood of the FIRST data set (early return on "obs").

Run from the worktree root:  /venv/bin/python HUNT/demo_1.py
exit 1 = defect present, exit 0 = property holds (or the call is rejected by an
exception of the package's own).
"""
import os, sys, warnings
sys.path.insert(0, os.getcwd())
warnings.filterwarnings("ignore")
import numpy as np
import astropy.units as u
from astropy.time import Time
import pymc as pm
import pytensor
import thejoker as tj
import thejoker.units as xu
from thejoker.distributions import UniformLog

assert os.path.abspath(tj.__file__).startswith(os.getcwd()), tj.__file__


def mkdata(seed):
    r = np.random.default_rng(seed)
    t = Time(55555.0 + np.sort(r.uniform(0, 300, 12)), format="mjd", scale="tcb")
    return tj.RVData(t, r.normal(0, 10, 12) * u.km / u.s, r.uniform(0.1, 0.5, 12) * u.km / u.s)


def kepler_rv(x, P, e, om, M0, K):
    M = 2 * np.pi * x / P - M0
    E = M + e * np.sin(M)
    for _ in range(200):
        E = E - (E - e * np.sin(E) - M) / (1 - e * np.cos(E))
    f = 2 * np.arctan2(np.sqrt(1 + e) * np.sin(E / 2), np.sqrt(1 - e) * np.cos(E / 2))
    return K * (np.cos(om + f) + e * np.cos(om))


def gauss_term(data, v):
    x = data._t_bmjd - data._t_ref_bmjd
    mu = kepler_rv(x, v["P"], v["e"], v["omega"], v["M0"], v["K"]) + v["v0"]
    var = data.rv_err.to_value(u.km / u.s) ** 2 + v["s"] ** 2
    y = data.rv.to_value(u.km / u.s)
    return np.sum(-0.5 * np.log(2 * np.pi * var) - 0.5 * (y - mu) ** 2 / var)


with pm.Model() as model:
    pars = dict(
        P=xu.with_unit(UniformLog("P", 2.0, 500.0), u.day),
        e=xu.with_unit(pm.Uniform("e", 0.0, 0.95), u.one),
        omega=xu.with_unit(pm.Uniform("omega", 0.0, 2 * np.pi), u.rad),
        M0=xu.with_unit(pm.Uniform("M0", 0.0, 2 * np.pi), u.rad),
        s=xu.with_unit(pm.LogNormal("s", 0.0, 1.0), u.km / u.s),
        K=xu.with_unit(pm.Normal("K", 0.0, 30.0), u.km / u.s),
        v0=xu.with_unit(pm.Normal("v0", 0.0, 100.0), u.km / u.s),
    )
    prior = tj.JokerPrior(pars=pars)

joker = tj.TheJoker(prior, rng=np.random.default_rng(0))
v = dict(P=33.3, e=0.3, omega=1.1, M0=2.2, s=0.7, K=7.0, v0=3.0)
names = ["P", "e", "omega", "M0", "s", "K", "v0"]


def samples_for(data):
    smp = tj.JokerSamples(t_ref=data.t_ref)
    for k in names:
        smp[k] = np.atleast_1d(v[k]) * getattr(pars[k], xu.UNIT_ATTR_NAME)
    return smp


def model_lnlike():
    fn = pytensor.function([pars[k] for k in names], model["ln_likelihood"], on_unused_input="ignore")
    return float(fn(*[v[k] for k in names]))


dataA, dataB = mkdata(1), mkdata(2)   # e.g. two stars analysed with the same prior

with model:
    joker.setup_mcmc(dataA, samples_for(dataA))
llA = model_lnlike()
print(f"after setup_mcmc(dataA): model ln_likelihood = {llA:.6f}, Gaussian term for dataA = {gauss_term(dataA, v):.6f}")
assert abs(llA - gauss_term(dataA, v)) < 1e-6 * abs(llA)

try:
    with model:
        joker.setup_mcmc(dataB, samples_for(dataB))
except Exception as exc:  # an explicit rejection would be acceptable behaviour
    print("second call rejected with", type(exc).__name__, "-> acceptable")
    sys.exit(0)

llB = model_lnlike()
refB = gauss_term(dataB, v)
print(f"after setup_mcmc(dataB): model ln_likelihood = {llB:.6f}, Gaussian term for dataB = {refB:.6f}")
if abs(llB - refB) > 1e-6 * abs(refB):
    print("DEFECT: the model returned for dataB still carries the likelihood of dataA "
          f"(value equals dataA's term: {abs(llB - llA) < 1e-9}); MCMC would silently sample the wrong posterior.")
    sys.exit(1)
print("OK: model targets dataB")
sys.exit(0)
