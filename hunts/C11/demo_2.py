"""C11 demo 2: the 'logp' / 'ln_prior' deterministics stored by setup_mcmc are NOT
ln prior(declared densities) [+ ln N] up to a constant over the physical parameters:
they contain the log-Jacobian of pymc's internal variable transforms, which depends
on the parameter values (here on e, omega, M0, s).

Run from the worktree root:  /venv/bin/python HUNT/demo_2.py
exit 1 = defect present, exit 0 = property holds.
"""
import os, sys, warnings
sys.path.insert(0, os.getcwd())
warnings.filterwarnings("ignore")
import numpy as np
import astropy.units as u
from astropy.time import Time
from scipy import stats
import pymc as pm
import pytensor.tensor as pt
import thejoker as tj
import thejoker.units as xu
from thejoker.distributions import UniformLog

assert os.path.abspath(tj.__file__).startswith(os.getcwd()), tj.__file__

r = np.random.default_rng(1)
t = Time(55555.0 + np.sort(r.uniform(0, 300, 12)), format="mjd", scale="tcb")
data = tj.RVData(t, r.normal(0, 10, 12) * u.km / u.s, r.uniform(0.1, 0.5, 12) * u.km / u.s)

with pm.Model() as model:
    pars = dict(
        P=xu.with_unit(UniformLog("P", 2.0, 500.0), u.day),
        e=xu.with_unit(pm.Uniform("e", 0.0, 1.0), u.one),
        omega=xu.with_unit(pm.Uniform("omega", 0.0, 2 * np.pi), u.rad),
        M0=xu.with_unit(pm.Uniform("M0", 0.0, 2 * np.pi), u.rad),
        s=xu.with_unit(pm.LogNormal("s", 0.0, 1.0), u.km / u.s),
        K=xu.with_unit(pm.Normal("K", 0.0, 30.0), u.km / u.s),
        v0=xu.with_unit(pm.Normal("v0", 0.0, 100.0), u.km / u.s),
    )
    prior = tj.JokerPrior(pars=pars)
joker = tj.TheJoker(prior, rng=np.random.default_rng(0))
names = ["P", "e", "omega", "M0", "s", "K", "v0"]


def true_ln_prior(v):  # the declared densities, closed form
    return (-np.log(v["P"]) - np.log(np.log(500.0 / 2.0)) + 0.0 - 2 * np.log(2 * np.pi)
            + stats.lognorm(s=1.0, scale=1.0).logpdf(v["s"]) + stats.norm(0, 30).logpdf(v["K"])
            + stats.norm(0, 100).logpdf(v["v0"]))


v1 = dict(P=33.3, e=0.30, omega=1.1, M0=2.2, s=0.7, K=7.0, v0=3.0)
v2 = dict(v1, e=0.02)      # only e differs: the declared prior on e is flat

smp = tj.JokerSamples(t_ref=data.t_ref)
for k in names:
    smp[k] = np.atleast_1d(v1[k]) * getattr(pars[k], xu.UNIT_ATTR_NAME)
with model:
    init = joker.setup_mcmc(data, smp)

outs = model.replace_rvs_by_values([model["logp"], model["ln_likelihood"], model["ln_prior"]])
fn = model.compile_fn(outs, inputs=model.value_vars, point_fn=False, on_unused_input="ignore")


def evaluate(v):
    args = []
    for vv in model.value_vars:
        rv = model.values_to_rvs[vv]
        tr = model.rvs_to_transforms[rv]
        val = np.asarray(v[rv.name], dtype=float)
        if tr is not None:
            val = tr.forward(pt.as_tensor_variable(val), *rv.owner.inputs).eval()
        args.append(val)
    return [float(x) for x in fn(*args)]


bad = False
rows = []
for v in (v1, v2):
    logp, lnl, lnpr = evaluate(v)
    tp = true_ln_prior(v)
    rows.append((lnpr - tp, logp - lnl - tp))
    print(f"e={v['e']:.2f}: stored ln_prior={lnpr:.6f}  declared ln prior={tp:.6f}  "
          f"stored logp - ln_likelihood - declared ln prior = {logp - lnl - tp:.6f}")
d_lnprior = rows[0][0] - rows[1][0]
d_logp = rows[0][1] - rows[1][1]
print(f"change of (stored ln_prior - declared ln prior) between the two points: {d_lnprior:.6f} (should be 0)")
print(f"expected if a logit-Jacobian ln[e(1-e)] is included: {np.log(0.3*0.7) - np.log(0.02*0.98):.6f}")
if abs(d_lnprior) > 1e-6 or abs(d_logp) > 1e-6:
    print("DEFECT: 'logp'/'ln_prior' are not the declared log densities up to a constant "
          "(they include the parameter-dependent Jacobian of pymc's transforms).")
    sys.exit(1)
print("OK")
sys.exit(0)
