"""C01 counterexample: with few epochs and precise RVs the kernel's Woodbury route destroys the marginal likelihood.

Run from the worktree root:  /venv/bin/python HUNT/demo_1.py
Exits 1 (and prints the disagreement) on the unchanged tree; would exit 0 if
TheJoker.marginal_ln_likelihood agreed with ln N(y | M mu, C + s^2 I + M Lambda M^T) to 1e-6.
"""
import os, sys, math, warnings
sys.path.insert(0, os.getcwd())
warnings.filterwarnings("ignore")
if os.environ.get("NOTWIN") != "1":          # run the CURRENT .pyx (the compiled .so is stale)
    sys.path.insert(0, "/tmp/seedtools")
    import pyx_runtime
    pyx_runtime.install_twin(os.path.join(os.getcwd(), "thejoker/src/fast_likelihood.pyx"))
from fractions import Fraction
import numpy as np
import astropy.units as u
from astropy.time import Time
import pymc as pm
import thejoker as tj
assert tj.__file__.startswith(os.getcwd()), tj.__file__

TOL = 1e-6


def kepler_column(t, t0, P, e, om, M0):
    """unit-amplitude Keplerian RV, independent Newton solver"""
    M = np.mod(2 * np.pi * (t - t0) / P - M0, 2 * np.pi)
    E = np.where(e < 0.8, M, np.pi)
    for _ in range(200):
        dE = (E - e * np.sin(E) - M) / (1 - e * np.cos(E))
        E = E - dE
        if np.all(np.abs(dE) < 1e-15):
            break
    f = 2 * np.arctan2(np.sqrt(1 + e) * np.sin(E / 2), np.sqrt(1 - e) * np.cos(E / 2))
    return np.cos(om + f) + e * np.cos(om)


def closed_form(M, y, var, mu, Lam):
    """ln N(y | M mu, diag(var) + M diag(Lam) M^T): (1) float64 Cholesky, (2) exact rational arithmetic"""
    N, n = M.shape
    B = np.diag(var) + (M * Lam[None, :]) @ M.T
    r = y - M @ mu
    L = np.linalg.cholesky(B)
    z = np.linalg.solve(L, r)
    chol = -0.5 * (z @ z) - np.log(np.diag(L)).sum() - 0.5 * N * math.log(2 * math.pi)
    F = Fraction
    Mf = [[F(float(M[i, j])) for j in range(n)] for i in range(N)]
    Bf = [[(F(float(var[i])) if i == j else 0) + sum(Mf[i][k] * F(float(Lam[k])) * Mf[j][k] for k in range(n))
           for j in range(N)] for i in range(N)]
    rf = [F(float(y[i])) - sum(Mf[i][k] * F(float(mu[k])) for k in range(n)) for i in range(N)]
    A = [row[:] + [rf[i]] for i, row in enumerate(Bf)]
    logdet = 0.0
    for k in range(N):
        logdet += math.log(A[k][k].numerator) - math.log(A[k][k].denominator)
        for i in range(k + 1, N):
            fct = A[i][k] / A[k][k]
            for j in range(k, N + 1):
                A[i][j] -= fct * A[k][j]
    x = [F(0)] * N
    for i in reversed(range(N)):
        x[i] = (A[i][N] - sum(A[i][j] * x[j] for j in range(i + 1, N))) / A[i][i]
    exact = -0.5 * (float(sum(a * b for a, b in zip(rf, x))) + logdet + N * math.log(2 * math.pi))
    return chol, exact, np.linalg.cond(B)


def run(label, t, rv_kms, err_kms, unit, poly_trend, sigma_v_kms, in_memory=True):
    t = np.asarray(t, float); rv_kms = np.asarray(rv_kms, float); err_kms = np.asarray(err_kms, float)
    data = tj.RVData(Time(t, format="mjd", scale="tcb"), (rv_kms * u.km / u.s).to(unit), (err_kms * u.km / u.s).to(unit))
    sigma_K0, P0 = 30.0, 365.25
    with pm.Model():
        prior = tj.JokerPrior.default(
            P_min=2 * u.day, P_max=1e3 * u.day, sigma_K0=sigma_K0 * u.km / u.s, P0=P0 * u.day,
            sigma_v=[sv * u.km / u.s / u.day**i for i, sv in enumerate(sigma_v_kms)], poly_trend=poly_trend)
    # a few fixed nonlinear parameter vectors (P [d], e, omega, M0, s [km/s])
    pars = np.array([[3.21, 0.10, 1.0, 2.0, 0.0],
                     [17.5, 0.45, 4.0, 0.5, 0.0],
                     [212.0, 0.00, 0.3, 5.5, 0.0],
                     [640.0, 0.80, 2.2, 3.1, 0.0]])
    smp = tj.JokerSamples(poly_trend=poly_trend)
    smp["P"] = pars[:, 0] * u.day; smp["e"] = pars[:, 1] * u.one
    smp["omega"] = pars[:, 2] * u.rad; smp["M0"] = pars[:, 3] * u.rad; smp["s"] = pars[:, 4] * u.km / u.s
    ll = tj.TheJoker(prior).marginal_ln_likelihood(data, smp, in_memory=in_memory)

    fac = (1 * u.km / u.s).to_value(unit)          # closed form evaluated in the data unit
    t0 = t.min()
    bad = False
    print(f"--- {label}: {len(t)} epoch(s), rv_err = {err_kms[0]*1e3:g} m/s, poly_trend={poly_trend}, data unit {unit}")
    for row, got in zip(pars, ll):
        P, e, om, M0, s = row
        cols = [kepler_column(t, t0, P, e, om, M0)] + [(t - t0) ** i for i in range(poly_trend)]
        M = np.stack(cols, axis=1)
        varK = min(sigma_K0**2 * (P / P0) ** (-2 / 3) / (1 - e**2), 500.0**2)
        Lam = np.array([varK] + [sv**2 for sv in sigma_v_kms]) * fac**2
        mu = np.zeros(len(Lam))
        chol, exact, cond = closed_form(M, rv_kms * fac, (err_kms * fac) ** 2 + (s * fac) ** 2, mu, Lam)
        d = got - exact
        ok = np.isfinite(got) and abs(d) <= TOL * max(1.0, abs(exact))
        bad |= not ok
        print(f"  P={P:7.2f} e={e:.2f}: returned {got: .10g}   closed form {exact: .10g} (Cholesky {chol: .10g}, cond(B)={cond:.1e})"
              f"   diff {d: .3g}  {'ok' if ok else 'WRONG'}")
    return bad


bad = False
# (1) ONE epoch, 100 km/s +- 1 m/s, default prior, data in m/s.  The closed form is a 1x1 Gaussian.
bad |= run("one epoch", [58000.0], [100.0], [1e-3], u.m / u.s, 1, [100.0])
# (2) same star, 10 m/s errors, data in km/s, file (non in-memory) path
bad |= run("one epoch, km/s, cache-file path", [58000.0], [100.0], [1e-2], u.km / u.s, 1, [100.0], in_memory=False)
# (3) one epoch, small systemic velocity
bad |= run("one epoch, rv = 4.2 km/s", [58000.0], [4.2], [1e-3], u.m / u.s, 1, [100.0])
# (4) two epochs with a linear trend (poly_trend=2)
bad |= run("two epochs + linear trend", [58000.0, 58311.3], [101.3, 96.4], [1e-2, 1e-2], u.km / u.s, 2, [100.0, 0.1])
# (5) three epochs with a quadratic trend (poly_trend=3)
bad |= run("three epochs + quadratic trend", [58000.0, 58311.3, 58790.9], [101.3, 96.4, 99.0], [1e-2, 1e-2, 1e-2],
           u.km / u.s, 3, [100.0, 0.1, 1e-4])
# control: the same kind of data with 10 epochs is fine
rng = np.random.default_rng(1)
run("control: 10 epochs", 58000 + np.sort(rng.uniform(0, 900, 10)), 100 + rng.normal(0, 5, 10), np.full(10, 1e-2), u.km / u.s, 1, [100.0])

if bad:
    print("\nFAIL: marginal_ln_likelihood disagrees with ln N(y | M mu, C + s^2 I + M Lambda M^T) far beyond round-off "
          "(the target covariance B is tiny and well conditioned; the kernel's Woodbury inverse is not).")
    sys.exit(1)
print("\nOK: marginal_ln_likelihood agrees with the closed form")
sys.exit(0)
